import Abasic.Proofs.LoopsAnalyzer
/-
  C06 for whole programs over the EXTENDED statement set (`RStmt2`,
  Ref/Stmt2.lean): LET, PRINT, GOTO, END, IF/THEN/ELSE as in C06Prog.lean, and
  FOR / NEXT, GOSUB / RETURN, READ / DATA / RESTORE, DIM, `LET a(i…) = e`.

  A program of this fragment that the static analyzer accepts never fails with a
  syntax error, a TYPE MISMATCH or UNDEF'D STATEMENT.  It may fail with the
  value- and history-dependent errors of `RunErr` (DIVISION BY ZERO, NEXT WITHOUT
  FOR, RETURN WITHOUT GOSUB, OUT OF DATA, OUT OF MEMORY (stack or array), BAD
  SUBSCRIPT, REDIM'D ARRAY, ILLEGAL QUANTITY) and, for READ, with DATA TYPE
  MISMATCH (`RunErrD`) — an error kind of its own (`Err.dataTypeMismatch`), distinct
  from `Err.typeMismatch`: the analyzer cannot know which DATA item a READ will
  meet.  READ never produces `Err.typeMismatch` proper (`exec2_typed`, `readAll_errs`).

  1. `Typed2`, `typeOfS2` (Proofs/LoopsTyping.lean) — the typing judgement;
     `analyzer_accepts_iff_typed_ext` — the analyzer model accepts the rendering
       of a covered statement iff the statement is typed (`astmt2_run`).
  2. `sound_stmt_ext_ref` / `sound_stmt_ext` — one typed statement, on the
       reference step and on the model's statement evaluator.
  3. `steps2_typed`, `sound_program_ext` — whole runs (with `C03.run2_refines`).
  4. `analyze_program2`, `analyzer_silent_iff2`, `sound_analyzed_program_ext`,
       `sound_analyzed_file_ext` — the analyzer's statement pass on a stored
       program / a source file of the extended fragment.
  5. Examples.
-/
set_option linter.unusedSectionVars false

namespace Abasic.Props.C06
open Abasic Abasic.Ref Abasic.ExprL Abasic.AnaL Abasic.StmtL Abasic.AnaS Abasic.ProgL Abasic.ProgT Abasic.Prog2L
open Abasic.Stmt2L M Abasic.AInv

variable {F : Type} [NumOps F]

/-! ### 1. the analyzer on a rendered statement -/

/-- the statement of `astmt2_run` for one statement and one amount of fuel, from any state -/
def AStmtOK2 (s : RStmt2 F) (n ln : Nat) (le : Nat → Bool) : Prop :=
  ∀ (σ : St F) (pre rest : List (Token F)),
    At σ pre (renderS2 s ++ rest) → σ.loc.line = some ln → σ.lines.has = le →
    σ.nesting + sdepth2 s ≤ Extracted.nestingLimit → LineEnd rest →
    AOut (aStmtBody (aEvalN n) σ) (typeOfS2 s le) pre (renderS2 s) rest

/-- **The analyzer on the rendering of a covered statement of `RStmt2`**: it
    succeeds, the cursor right behind the statement, if `typeOfS2` passes, and
    fails with the static error otherwise. -/
theorem astmt2_run (s : RStmt2 F) (n ln : Nat) (le : Nat → Bool) (hd : sdepth2 s ≤ n) (hcov : s.Covered) :
    AStmtOK2 s n ln le := by
  intro σ pre rest hAt hl hle hn hE
  cases s with
  | base s =>
    have hA := astmt_run s n ln le hd hcov σ pre rest hAt hl hle hn (Or.inl hE)
    show AOut _ (typeOfS s le) _ (renderS s) _
    cases hty : typeOfS s le with
    | ok u =>
      rw [hty] at hA
      obtain ⟨r, _, hres⟩ := hA
      exact ⟨_, hres, at_lg (at_mv hAt r) _⟩
    | error x =>
      rw [hty] at hA
      obtain ⟨σ', hσ', _⟩ := hA
      exact ⟨σ', hσ'⟩
  | forS v a b c => exact afor_run v a b c n ln σ pre rest le hAt hl hd hn hE
  | nextS v => exact anext_run v n ln σ pre rest le hAt hl
  | gosubS m => subst hle; exact agosub_run m n σ pre rest hAt hcov
  | returnS => exact areturn_run n σ pre rest le hAt
  | readS ts => exact aread_run ts hcov n ln σ pre rest le hAt hl hE
  | dataS items => exact adata_run items n σ pre rest le hAt
  | restoreS => exact arestore_run n σ pre rest le hAt
  | dimS name dims => exact adim_run name dims hcov n ln σ pre rest le hAt hl hd hn
  | letCellS name idx e => exact aletcell_run name idx e hcov n ln σ pre rest le hAt hl hd hn hE

/-- **`analyzer_accepts_iff_typed_ext`.**  Let the cursor of `σ` stand on the
    numbered line `ln`, at the rendering of the covered statement `s` followed by
    the end of the line or a colon, with `sdepth2 s` levels of room in the fuel
    and under the nesting cap.  Then the analyzer model reports no error on the
    statement iff the statement is typed (`Typed2`) against the stored lines. -/
theorem analyzer_accepts_iff_typed_ext (s : RStmt2 F) (n ln : Nat) (σ : St F) (pre rest : List (Token F))
    (hAt : At σ pre (renderS2 s ++ rest)) (hl : σ.loc.line = some ln) (hd : sdepth2 s ≤ n)
    (hn : σ.nesting + sdepth2 s ≤ Extracted.nestingLimit) (hcov : s.Covered) (hE : LineEnd rest) :
    (∃ σ', aStmtBody (aEvalN n) σ = .ok () σ') ↔ Typed2 σ.lines.has s := by
  have hA := astmt2_run s n ln σ.lines.has hd hcov σ pre rest hAt hl rfl hn hE
  rw [← typeOfS2_ok_iff]
  cases hty : typeOfS2 s σ.lines.has with
  | ok u =>
    rw [hty] at hA
    obtain ⟨σ', hσ', _⟩ := hA
    exact ⟨fun _ => rfl, fun _ => ⟨σ', hσ'⟩⟩
  | error x =>
    rw [hty] at hA
    obtain ⟨σ', hσ'⟩ := hA
    constructor
    · rintro ⟨σ'', hσ''⟩; rw [hσ'] at hσ''; cases hσ''
    · intro h; cases h

/-- … and a statement that is not typed is reported with TYPE MISMATCH or UNDEF'D STATEMENT -/
theorem analyzer_rejects_untyped_ext (s : RStmt2 F) (n ln : Nat) (σ : St F) (pre rest : List (Token F))
    (hAt : At σ pre (renderS2 s ++ rest)) (hl : σ.loc.line = some ln) (hd : sdepth2 s ≤ n)
    (hn : σ.nesting + sdepth2 s ≤ Extracted.nestingLimit) (hcov : s.Covered) (hE : LineEnd rest)
    (hty : ¬ Typed2 σ.lines.has s) :
    ∃ x σ', aStmtBody (aEvalN n) σ = .err { err := x } σ' ∧ (x = .typeMismatch ∨ x = .undefinedStatement) := by
  have hA := astmt2_run s n ln σ.lines.has hd hcov σ pre rest hAt hl rfl hn hE
  cases h : typeOfS2 s σ.lines.has with
  | ok u => exact absurd ((typeOfS2_ok_iff _ s).1 h) hty
  | error x =>
    rw [h] at hA
    obtain ⟨σ', hσ'⟩ := hA
    exact ⟨x, σ', hσ', typeOfS2_error _ s x h⟩

/-! ### 2. one typed statement at run time -/

/-- **`sound_stmt_ext_ref`** — on the reference step: a typed statement, run in
    a state satisfying the name-suffix typing invariant `TInv`, keeps the
    invariant; an error reported for its own line is one of `RunErr`, an error
    reported for another line is DATA TYPE MISMATCH (READ), a jump goes to a
    line that exists. -/
theorem sound_stmt_ext_ref (le : Nat → Bool) (items : List (Nat × DataElement F)) (n j : Nat) {r : RState2 F}
    (hinv : TInv r) (s : RStmt2 F) (hty : Typed2 le s) :
    TInv (s.exec items n j r).1 ∧
    (∀ x, (s.exec items n j r).2 = .error x →
      RunErr x ∧ x ≠ .typeMismatch ∧ (∀ se, x ≠ .syntax se) ∧ x ≠ .undefinedStatement) ∧
    (∀ x k, (s.exec items n j r).2 = .errorAt x k → x = .dataTypeMismatch) ∧
    (∀ m, (s.exec items n j r).2 = .jump m → le m = true) := by
  have h := exec2_typed le items n j hinv s hty
  exact ⟨exec2_tinv items n j hinv s, fun x hx => ⟨h.err x hx, (h.err x hx).not_static⟩, h.errAt, h.jump⟩

/-- **`sound_stmt_ext`** — on the model: under the hypotheses of
    `C03.stmt2_refines` (`SReady2`: the model state `σ` corresponds to the
    reference state `r`, which satisfies `RInv`; cursor on the covered statement
    `s`), with arrays of the kind their names announce and `s` typed against the
    stored lines, one activation of the statement evaluator fails — if it fails —
    with one of the `RunErrD` errors: never with a syntax error, TYPE MISMATCH or
    UNDEF'D STATEMENT. -/
theorem sound_stmt_ext {p : RProgram2 F} {r : RState2 F} {σ : St F} {n j : Nat} {ss : List (RStmt2 F)}
    {s : RStmt2 F} {fuel : Nat} (h : SReady2 p r σ n j ss s fuel) (hk : ArrKind r.arrays)
    (hty : Typed2 σ.lines.has s) :
    ∀ te σ', stmtBody (evalN fuel) σ = .err te σ' →
      RunErrD te.err ∧ te.err ≠ .typeMismatch ∧ (∀ se, te.err ≠ .syntax se) ∧ te.err ≠ .undefinedStatement := by
  intro te σ' herr
  have hO := C03.stmt2_refines h
  have hok := exec2_typed σ.lines.has (allData p) n j ⟨h.inv, hk⟩ s hty
  have key : RunErrD te.err := by
    cases hctl : (s.exec (allData p) n j r).2 with
    | next =>
      rw [hctl] at hO; obtain ⟨σ1, h1, _⟩ := hO; rw [h1] at herr; cases herr
    | skipLine =>
      rw [hctl] at hO; obtain ⟨σ1, h1, _⟩ := hO; rw [h1] at herr; cases herr
    | jump m =>
      rw [hctl] at hO
      obtain ⟨σ1, h1, _⟩ := hO.1 (hok.jump m hctl)
      rw [h1] at herr; cases herr
    | stop =>
      rw [hctl] at hO; obtain ⟨σ1, h1, _⟩ := hO; rw [h1] at herr; cases herr
    | resume m k =>
      rw [hctl] at hO; obtain ⟨σ1, h1, _⟩ := hO; rw [h1] at herr; cases herr
    | error e =>
      rw [hctl] at hO
      obtain ⟨_, σ1, h1, _⟩ := hO
      rw [h1] at herr
      simp only [Res.err.injEq] at herr
      rw [← herr.1]
      exact .inl (hok.err e hctl)
    | errorAt e ln =>
      rw [hctl] at hO
      obtain ⟨he, σ1, i, h1, _⟩ := hO
      rw [h1] at herr
      simp only [Res.err.injEq] at herr
      rw [← herr.1]
      exact .inr he
  exact ⟨key, key.not_static⟩

/-! ### 3. whole runs -/

/-- **`steps2_typed`.**  A program that passes the static check `typeOfP2` never
    stops, on the reference machine, with TYPE MISMATCH, a syntax error or
    UNDEF'D STATEMENT, however many steps it runs; the typing invariant holds all
    along. -/
theorem steps2_typed (p : RProgram2 F) (hty : typeOfP2 p = .ok ()) (n : Nat) :
    (∀ r', RSteps2 p n p.start = .inl r' → TInv r') ∧
    (∀ e ln out, RSteps2 p n p.start = .inr (e, ln, out) →
      RunErrD e ∧ e ≠ .typeMismatch ∧ (∀ se, e ≠ .syntax se) ∧ e ≠ .undefinedStatement) := by
  obtain ⟨h1, h2⟩ := rsteps2_typed hty n p.start (tinv_start p)
  exact ⟨h1, fun e ln out h => ⟨h2 e ln out h, (h2 e ln out h).not_static⟩⟩

/-- **`sound_program_ext`.**  Let the program `p` over the extended statement set
    fit the evaluator's resources and the covered fragment (`Fits2`), let the
    interpreter be idle with `p` stored, flags off (`PReady2`), and let `p` pass
    the static check.  Then NO host turn of a run — RUN followed by any number
    `k` of `continueEvaluating` — fails with TYPE MISMATCH, a syntax error or
    UNDEF'D STATEMENT: a failure is one of `RunErrD`.  A run that has not failed
    holds well-typed variables. -/
theorem sound_program_ext {p : RProgram2 F} {fuel : Nat} (hfit : C03.Fits2 p fuel) {σ : St F}
    (h : C03.PReady2 p σ) (hty : typeOfP2 p = .ok ()) (k : Nat) :
    (∀ te σ', C03.runTurns fuel k σ = .err te σ' →
      RunErrD te.err ∧ te.err ≠ .typeMismatch ∧ (∀ se, te.err ≠ .syntax se) ∧
      te.err ≠ .undefinedStatement) ∧
    (∀ σ', C03.runTurns fuel k σ = .ok () σ' → WellTyped σ') := by
  obtain ⟨n, _, _, hm⟩ := C03.run2_refines hfit h k
  obtain ⟨h1, h2⟩ := steps2_typed p hty n
  cases hr : RSteps2 p n p.start with
  | inl r' =>
    rw [hr] at hm
    obtain ⟨σ1, hσ1, hsim⟩ := hm
    refine ⟨fun te σ' he => (by rw [hσ1] at he; cases he), fun σ' ho => ?_⟩
    rw [hσ1] at ho
    simp only [Res.ok.injEq, true_and] at ho
    subst ho
    have hv : σ1.vars = r'.vars := by
      unfold C03.Sim2 at hsim
      cases hpc : r'.pc with
      | none => rw [hpc] at hsim; exact hsim.2.1
      | some nj => rw [hpc] at hsim; exact hsim.1.mem.vars
    show WellTypedVars σ1.vars
    rw [hv]
    exact (h1 r' hr).inv.typed
  | inr eln =>
    obtain ⟨e, ln, out⟩ := eln
    rw [hr] at hm
    obtain ⟨σ1, i, hσ1, _, _⟩ := hm
    refine ⟨fun te σ' he => ?_, fun σ' ho => by rw [hσ1] at ho; cases ho⟩
    rw [hσ1] at he
    simp only [Res.err.injEq] at he
    rw [← he.1]
    exact h2 e ln out hr

/-! ### 4. the analyzer's statement pass on a stored program of the extended fragment -/

/-- what the covered statements of a line need of the resources -/
def StmtsFit2 (fuel : Nat) (ss : List (RStmt2 F)) : Prop :=
  ∀ s ∈ ss, s.Covered ∧ sdepth2 s ≤ fuel ∧ sdepth2 s ≤ Extracted.nestingLimit

theorem lineEnd_tail2 (rest : List (RStmt2 F)) : LineEnd (renderTail2 rest) := by
  cases rest with
  | nil => intro t ht; cases ht
  | cons s rest =>
    intro t ht
    simp only [renderTail2, List.head?_cons, Option.some.injEq] at ht
    exact ht.symm

/-- the cursor at the first token of a statement: the statement, then what follows it -/
theorem walk_stmt2 (fuel n : Nat) (le : Nat → Bool) (L : Lines F) (m : FileMap) (hLM : C05.LinesMapped L m)
    (hle : L.has = le) (st : RStmt2 F) (rest : List (RStmt2 F))
    (hfit : StmtsFit2 fuel (st :: rest))
    (ih : ∀ (k : Nat) (a : Analysis F) (pre : List (Token F)),
      At a.st pre (renderTail2 rest) → a.st.loc.line = some n → a.st.nesting = 0 → SInv L a.st →
      a.map = m → a.panicked = none → (renderTail2 rest).length < k →
      LineOut L n a (analyzeStatements fuel k a) (typeOfStmts2 le n rest))
    (k : Nat) (a : Analysis F) (pre : List (Token F))
    (hAt : At a.st pre (renderS2 st ++ renderTail2 rest)) (hl : a.st.loc.line = some n)
    (hn : a.st.nesting = 0) (hs : SInv L a.st) (hm : a.map = m) (hp : a.panicked = none)
    (hk : (renderS2 st ++ renderTail2 rest).length < k) :
    LineOut L n a (analyzeStatements fuel k a) (typeOfStmts2 le n (st :: rest)) := by
  obtain ⟨k', rfl⟩ : ∃ k', k = k' + 1 := ⟨k - 1, by omega⟩
  obtain ⟨hcov, hdf, hdn⟩ := hfit st List.mem_cons_self
  obtain ⟨t0, ts0, hhead, _, _⟩ := renderS2_head st
  have hAt0 : At a.st pre (t0 :: (ts0 ++ renderTail2 rest)) := by rw [hhead] at hAt; exact hAt
  have hhn := hasNext_cons hAt0
  have hAt1 : At (mv a.st 0 (a.st.reads + 1)) pre (renderS2 st ++ renderTail2 rest) := at_mv0 hAt _
  have hs1 : SInv L (mv a.st 0 (a.st.reads + 1)) := sinv_mv0 hs _
  have hA := astmt2_run st fuel n le hdf hcov (mv a.st 0 (a.st.reads + 1)) pre (renderTail2 rest) hAt1 hl
    (by show a.st.lines.has = le; rw [hs.lines]; exact hle)
    (by show a.st.nesting + sdepth2 st ≤ _; rw [hn]; omega) (lineEnd_tail2 rest)
  have hgood := good_aStmtBody (good_aEvalN (F := F) (L := L) fuel).1 (good_aEvalN (F := F) (L := L) fuel).2 _ hs1
  have hline := (ALine.keeps_stmt (F := F) fuel).h (mv a.st 0 (a.st.reads + 1))
  have hframe := (AFrame.keeps_stmt (F := F) fuel).h (mv a.st 0 (a.st.reads + 1))
  cases hty : typeOfS2 st le with
  | ok u =>
    rw [hty] at hA
    obtain ⟨σ', hres, hAt'⟩ := hA
    rw [hres] at hgood hline hframe
    rw [aS_ok fuel k' a hhn hres]
    have hlen : (renderS2 st ++ renderTail2 rest).length = (renderS2 st).length + (renderTail2 rest).length :=
      List.length_append
    have hpos : 0 < (renderS2 st).length := by rw [hhead]; simp
    have hl' : σ'.loc.line = some n := (show σ'.loc.line = a.st.loc.line from hline).trans hl
    have hn' : σ'.nesting = 0 := (show σ'.nesting = a.st.nesting from (Prod.mk.inj hframe).2).trans hn
    have hI := ih k' { a with st := σ' } (pre ++ renderS2 st) hAt' hl' hn' hgood.1 hm hp (by omega)
    have hv : typeOfStmts2 le n (st :: rest) = typeOfStmts2 le n rest := by simp only [typeOfStmts2, hty]
    rw [hv]
    obtain ⟨g1, g2, g3, g4, g5, g6⟩ := hI
    exact ⟨g1, g2, g3, g4.trans (hn'.trans hn.symm), g5, g6⟩
  | error x =>
    rw [hty] at hA
    obtain ⟨σ', hσ'⟩ := hA
    rw [hσ'] at hgood hline hframe
    obtain ⟨hs', _, _⟩ := hgood
    have hline' : σ'.loc.line = some n := (show σ'.loc.line = a.st.loc.line from hline).trans hl
    have hn' : σ'.nesting = a.st.nesting := (Prod.mk.inj hframe).2
    have hprev : LocOk L σ'.prevLoc := by
      obtain ⟨n1, ts1, h1, h2, h3⟩ := hs'.loc
      exact ⟨n1, ts1, h1, h2, by show σ'.loc.idx - 1 ≤ ts1.length; omega⟩
    obtain ⟨f, u, v, hmap⟩ := C05.mapLoc_of_locOk hLM hprev
    rw [aS_err fuel k' a hhn hσ' (typeOfS2_error le st x hty) (by rw [hm]; exact hmap)]
    have hv : typeOfStmts2 le n (st :: rest) = .error (x, n) := by simp only [typeOfStmts2, hty]
    rw [hv]
    refine ⟨hp, rfl, hs', hn', hline', f, σ'.loc.idx - 1, ?_⟩
    show a.messages ++ [Diag.error f { err := x, loc := some { line := σ'.loc.line, idx := σ'.loc.idx - 1 } }] = _
    rw [hline']

/-- the cursor behind a statement (at the end of the line, or on a colon): the rest of the line -/
theorem walk_tail2 (fuel n : Nat) (le : Nat → Bool) (L : Lines F) (m : FileMap) (hLM : C05.LinesMapped L m)
    (hle : L.has = le) : ∀ (rest : List (RStmt2 F)), StmtsFit2 fuel rest →
    ∀ (k : Nat) (a : Analysis F) (pre : List (Token F)),
      At a.st pre (renderTail2 rest) → a.st.loc.line = some n → a.st.nesting = 0 → SInv L a.st →
      a.map = m → a.panicked = none → (renderTail2 rest).length < k →
      LineOut L n a (analyzeStatements fuel k a) (typeOfStmts2 le n rest)
  | [], _, k, a, pre, hAt, hl, hn, hs, hm, hp, hk => by
    obtain ⟨k', rfl⟩ : ∃ k', k = k' + 1 := ⟨k - 1, by omega⟩
    have hAt0 : At a.st pre [] := hAt
    rw [aS_done fuel k' a (hasNext_nil hAt0)]
    exact ⟨hp, rfl, sinv_mv0 hs _, rfl, hl, rfl⟩
  | st :: rest, hfit, k, a, pre, hAt, hl, hn, hs, hm, hp, hk => by
    obtain ⟨k', rfl⟩ : ∃ k', k = k' + 1 := ⟨k - 1, by omega⟩
    have hAt0 : At a.st pre (.kw .Colon :: (renderS2 st ++ renderTail2 rest)) := hAt
    have hlen : (renderTail2 (st :: rest)).length = 1 + (renderS2 st ++ renderTail2 rest).length := by
      simp only [renderTail2, List.length_cons]; omega
    have hhn := hasNext_cons hAt0
    have hAt1 : At (mv a.st 0 (a.st.reads + 1)) pre (.kw .Colon :: (renderS2 st ++ renderTail2 rest)) :=
      at_mv0 hAt0 _
    have hs1 : SInv L (mv a.st 0 (a.st.reads + 1)) := sinv_mv0 hs _
    have hcolon := aStmtBody_colon (ev := aEvalN fuel) hAt1
    have hgood := good_aStmtBody (good_aEvalN (F := F) (L := L) fuel).1 (good_aEvalN (F := F) (L := L) fuel).2 _ hs1
    rw [hcolon] at hgood
    rw [aS_ok fuel k' a hhn hcolon]
    exact walk_stmt2 fuel n le L m hLM hle st rest hfit
      (walk_tail2 fuel n le L m hLM hle rest (fun s hs => hfit s (List.mem_cons_of_mem _ hs)))
      k' { a with st := mv (mv a.st 0 (a.st.reads + 1)) 1 ((mv a.st 0 (a.st.reads + 1)).reads + 1) }
      (pre ++ [.kw .Colon]) (at_mv1 hAt1 _) hl hn hgood.1 hm hp (by omega)

/-- **The statement pass on one line** of the extended fragment: nothing if every
    statement of the line is typed, otherwise exactly one error diagnostic, the
    first static error of the line, located on it. -/
theorem walk_line2 (fuel n : Nat) (le : Nat → Bool) (L : Lines F) (m : FileMap) (hLM : C05.LinesMapped L m)
    (hle : L.has = le) (ss : List (RStmt2 F)) (hne : ss ≠ []) (hfit : StmtsFit2 fuel ss)
    (a : Analysis F) (hAt : At a.st [] (renderLine2 ss)) (hl : a.st.loc.line = some n)
    (hn : a.st.nesting = 0) (hs : SInv L a.st) (hm : a.map = m) (hp : a.panicked = none) :
    LineOut L n a (analyzeStatements fuel ((renderLine2 ss).length + 2) a) (typeOfStmts2 le n ss) := by
  cases ss with
  | nil => exact absurd rfl hne
  | cons st rest =>
    exact walk_stmt2 fuel n le L m hLM hle st rest hfit
      (walk_tail2 fuel n le L m hLM hle rest (fun s hs => hfit s (List.mem_cons_of_mem _ hs)))
      _ a [] hAt hl hn hs hm hp (by show (renderLine2 (st :: rest)).length < _; omega)

/-- the first static error of each line, in program order -/
def lineErrs2 (le : Nat → Bool) : RProgram2 F → List (Err × Nat)
  | [] => []
  | l :: rest =>
    match typeOfStmts2 le l.1 l.2 with
    | .ok _ => lineErrs2 le rest
    | .error x => x :: lineErrs2 le rest

theorem lineErrs2_nil_iff (le : Nat → Bool) (p : RProgram2 F) :
    lineErrs2 le p = [] ↔ typeOfLines2 le p = .ok () := by
  induction p with
  | nil => simp [lineErrs2, typeOfLines2]
  | cons l rest ih =>
    cases hs : typeOfStmts2 le l.1 l.2 with
    | ok u => simp only [lineErrs2, typeOfLines2, hs, ih]
    | error x => simp [lineErrs2, typeOfLines2, hs]

theorem progOut_cons2 {a a1 a' : Analysis F} {L : Lines F} {le : Nat → Bool} {n : Nat} {ss : List (RStmt2 F)}
    {q : RProgram2 F} (hL : a.st.lines = L) (h1 : LineOut L n a a1 (typeOfStmts2 le n ss))
    (h2 : ProgOut a1 a' (lineErrs2 le q)) : ProgOut a a' (lineErrs2 le ((n, ss) :: q)) := by
  obtain ⟨_, hm1, hs1, hn1, _, hmsg1⟩ := h1
  obtain ⟨hp2, hm2, hl2, hn2, ds, hds, hfor⟩ := h2
  refine ⟨hp2, hm2.trans hm1, by rw [hl2, hs1.lines, hL], hn2.trans hn1, ?_⟩
  cases hv : typeOfStmts2 le n ss with
  | ok u =>
    rw [hv] at hmsg1
    simp only [lineErrs2, hv]
    exact ⟨ds, by rw [hds, hmsg1], hfor⟩
  | error x =>
    rw [hv] at hmsg1
    obtain ⟨x1, ln⟩ := x
    obtain ⟨f, i, hmsg⟩ := hmsg1
    simp only [lineErrs2, hv]
    exact ⟨_ :: ds, by rw [hds, hmsg, List.append_assoc]; rfl, ⟨f, i, rfl⟩, hfor⟩

theorem line_at2 {done q : RProgram2 F} {n : Nat} {ss : List (RStmt2 F)}
    (h : ((done ++ (n, ss) :: q).map (·.1)).Pairwise (· < ·)) :
    RProgram2.line (done ++ (n, ss) :: q) n = some ss := by
  induction done with
  | nil => simp only [List.nil_append, RProgram2.line, beq_self_eq_true, ↓reduceIte]
  | cons l done ih =>
    obtain ⟨k, ss'⟩ := l
    simp only [List.cons_append, List.map_cons] at h
    have h' := List.pairwise_cons.mp h
    have hk : k < n := h'.1 n (by simp)
    have hb : (k == n) = false := by simp only [beq_eq_false_iff_ne, ne_eq]; omega
    simp only [List.cons_append, RProgram2.line, hb, Bool.false_eq_true, ↓reduceIte]
    exact ih h'.2

theorem after_at2 {done q : RProgram2 F} {n : Nat} {ss : List (RStmt2 F)}
    (h : ((done ++ (n, ss) :: q).map (·.1)).Pairwise (· < ·)) :
    RProgram2.after (done ++ (n, ss) :: q) n = q.head?.map (·.1) := by
  unfold RProgram2.after
  induction done with
  | nil =>
    simp only [List.nil_append, List.map_cons] at h ⊢
    have h' := List.pairwise_cons.mp h
    rw [List.find?_cons_of_neg (by simp)]
    cases q with
    | nil => rfl
    | cons l q' =>
      have : n < l.1 := h'.1 l.1 (by simp)
      simp only [List.map_cons, List.head?_cons, Option.map_some]
      rw [List.find?_cons_of_pos (by simpa using this)]
  | cons l done ih =>
    simp only [List.cons_append, List.map_cons] at h ⊢
    have h' := List.pairwise_cons.mp h
    have hk : l.1 < n := h'.1 n (by simp)
    rw [List.find?_cons_of_neg (by simp only [decide_eq_true_eq]; omega)]
    exact ih h'.2

/-- from the start of a line of the program to its end -/
theorem walk_lines2 (fuel : Nat) (p : RProgram2 F) (hfit : C03.Fits2 p fuel) (L : Lines F) (hH : Holds L p)
    (m : FileMap) (hLM : C05.LinesMapped L m) :
    ∀ (q done : RProgram2 F) (n : Nat) (ss : List (RStmt2 F)), p = done ++ (n, ss) :: q →
    ∀ (b : Nat) (a : Analysis F), q.length < b → SInv L a.st → a.st.loc = { line := some n, idx := 0 } →
      a.st.nesting = 0 → a.map = m → a.panicked = none →
      ProgOut a (analyzeProgram fuel b a) (lineErrs2 p.hasLine ((n, ss) :: q)) := by
  intro q
  induction q with
  | nil =>
    intro done n ss hp b a hb hs hloc hn hm hpan
    have hasc := hfit.wf.ascending
    rw [hp] at hasc
    have hline : p.line n = some ss := by rw [hp]; exact line_at2 hasc
    have hget : L.get n = some (renderLine2 ss) := by rw [hH.get, hline]; rfl
    have hToks : lineToks a.st = some (renderLine2 ss) := by
      unfold lineToks; rw [hloc]; show a.st.lines.get n = _; rw [hs.lines, hget]
    have hAt : At a.st [] (renderLine2 ss) := ⟨hToks, by rw [hloc]; rfl⟩
    have htok := tokens_eq hToks
    have hW := walk_line2 fuel n p.hasLine L m hLM (funext (Prog2L.holds_has hH)) ss
      (hfit.wf.nonempty _ (Prog2L.line_mem hline))
      (fun s hs => ⟨hfit.covered _ (Prog2L.line_mem hline) s hs, hfit.depth _ (Prog2L.line_mem hline) s hs⟩)
      a hAt (by rw [hloc]) hn hs hm hpan
    obtain ⟨hp1, hm1, hs1, hn1, hl1, _⟩ := id hW
    have hafter : L.after n = none := by rw [Prog2L.holds_after hH, hp, after_at2 hasc]; rfl
    obtain ⟨b', rfl⟩ : ∃ b', b = b' + 1 := ⟨b - 1, by omega⟩
    rw [aP_last fuel b' a hpan htok hp1 (nextLine_none hl1 (by rw [hs1.lines, hafter]))]
    exact progOut_cons2 hs.lines hW ⟨hp1, rfl, rfl, rfl, [], by simp, trivial⟩
  | cons l q' ih =>
    intro done n ss hp b a hb hs hloc hn hm hpan
    obtain ⟨n', ss'⟩ := l
    have hasc := hfit.wf.ascending
    rw [hp] at hasc
    have hline : p.line n = some ss := by rw [hp]; exact line_at2 hasc
    have hget : L.get n = some (renderLine2 ss) := by rw [hH.get, hline]; rfl
    have hToks : lineToks a.st = some (renderLine2 ss) := by
      unfold lineToks; rw [hloc]; show a.st.lines.get n = _; rw [hs.lines, hget]
    have hAt : At a.st [] (renderLine2 ss) := ⟨hToks, by rw [hloc]; rfl⟩
    have htok := tokens_eq hToks
    have hW := walk_line2 fuel n p.hasLine L m hLM (funext (Prog2L.holds_has hH)) ss
      (hfit.wf.nonempty _ (Prog2L.line_mem hline))
      (fun s hs => ⟨hfit.covered _ (Prog2L.line_mem hline) s hs, hfit.depth _ (Prog2L.line_mem hline) s hs⟩)
      a hAt (by rw [hloc]) hn hs hm hpan
    obtain ⟨hp1, hm1, hs1, hn1, hl1, _⟩ := id hW
    have hafter : L.after n = some n' := by rw [Prog2L.holds_after hH, hp, after_at2 hasc]; rfl
    obtain ⟨b', rfl⟩ : ∃ b', b = b' + 1 := ⟨b - 1, by omega⟩
    rw [aP_next fuel b' a hpan htok hp1 (nextLine_some hl1 (by rw [hs1.lines, hafter]))]
    have hp' : p = (done ++ [(n, ss)]) ++ (n', ss') :: q' := by rw [hp]; simp
    have hasc' := hfit.wf.ascending
    rw [hp'] at hasc'
    have hline' : p.line n' = some ss' := by rw [hp']; exact line_at2 hasc'
    have hget' : L.get n' = some (renderLine2 ss') := by rw [hH.get, hline']; rfl
    have hI := ih (done ++ [(n, ss)]) n' ss' hp' b'
      { analyzeStatements fuel ((renderLine2 ss).length + 2) a with
        st := { (analyzeStatements fuel ((renderLine2 ss).length + 2) a).st with loc := { line := some n', idx := 0 } } }
      (by simp only [List.length_cons] at hb; omega)
      ⟨hs1.lines, ⟨n', renderLine2 ss', rfl, hget', Nat.zero_le _⟩, hs1.acc⟩ rfl (hn1.trans hn) (hm1.trans hm) hp1
    exact progOut_cons2 hs.lines hW hI

/-- where the statement pass starts (as `AStart`, for a program of `RProgram2`) -/
structure AStart2 (p : RProgram2 F) (a : Analysis F) : Prop where
  holds : Holds a.st.lines p
  mapped : C05.LinesMapped a.st.lines a.map
  loc : a.st.loc = { line := p.first, idx := 0 }
  imm : a.st.imm = []
  nesting : a.st.nesting = 0
  accesses : a.st.accesses = []
  panicked : a.panicked = none

/-- **The analyzer's statement pass on a stored program of the extended fragment**:
    no panic, store and file map untouched, and exactly one error diagnostic per
    line with a static error — the first static error of that line (`lineErrs2`),
    located on it — in program order. -/
theorem analyze_program2 (fuel : Nat) (p : RProgram2 F) (hfit : C03.Fits2 p fuel) (a : Analysis F)
    (h : AStart2 p a) (b : Nat) (hb : p.length < b) :
    ProgOut a (analyzeProgram fuel b a) (lineErrs2 p.hasLine p) := by
  cases hp : p with
  | nil =>
    subst hp
    obtain ⟨b', rfl⟩ : ∃ b', b = b' + 1 := ⟨b - 1, by omega⟩
    obtain ⟨k1, k2, _⟩ := C05.analyzeProgram_empty fuel b' a h.panicked (by rw [h.loc]; rfl) h.imm
    have hk := AFrame.analyzeProgram_key fuel (b' + 1) a
    simp only [AFrame.key, Prod.mk.injEq] at hk
    exact ⟨k1, (C05.analyzeProgram_ext fuel (b' + 1) a).map, hk.1, hk.2, [], by rw [k2]; simp, trivial⟩
  | cons l q =>
    obtain ⟨n, ss⟩ := l
    rw [← hp]
    have hI := walk_lines2 fuel p hfit a.st.lines h.holds a.map h.mapped q [] n ss (by rw [hp]; rfl) b a
      (by rw [hp] at hb; simp only [List.length_cons] at hb; omega)
      ⟨rfl, ?_, by rw [h.accesses]; intro x hx; cases hx⟩
      (by rw [h.loc, hp]; rfl) h.nesting rfl h.panicked
    · rw [hp] at hI ⊢; exact hI
    · have hline : p.line n = some ss := by
        rw [hp]; simp only [RProgram2.line, beq_self_eq_true, ↓reduceIte]
      exact ⟨n, renderLine2 ss, by rw [h.loc, hp]; rfl, by rw [h.holds.get, hline]; rfl, by rw [h.loc]; exact Nat.zero_le _⟩

/-- **Silent ⇔ checked**, for the extended fragment. -/
theorem analyzer_silent_iff2 (fuel : Nat) (p : RProgram2 F) (hfit : C03.Fits2 p fuel) (a : Analysis F)
    (h : AStart2 p a) (b : Nat) (hb : p.length < b) :
    (analyzeProgram fuel b a).messages = a.messages ↔ typeOfP2 p = .ok () := by
  obtain ⟨_, _, _, _, ds, hds, hfor⟩ := analyze_program2 fuel p hfit a h b hb
  unfold typeOfP2
  rw [← lineErrs2_nil_iff, hds]
  constructor
  · intro hm
    have hnil : ds = [] := by
      have := congrArg List.length hm
      simp only [List.length_append] at this
      exact List.length_eq_zero_iff.mp (by omega)
    subst hnil
    cases hx : lineErrs2 p.hasLine p with
    | nil => rfl
    | cons x xs => rw [hx] at hfor; exact hfor.elim
  · intro hx
    rw [hx] at hfor
    cases ds with
    | nil => simp
    | cons d ds => exact hfor.elim

/-- **`sound_analyzed_program_ext`.**  If the analyzer's statement pass over the
    stored program `p` of the extended fragment reports nothing, no run of `p`
    fails with a syntax error, a TYPE MISMATCH or UNDEF'D STATEMENT. -/
theorem sound_analyzed_program_ext {p : RProgram2 F} {fa fuel : Nat} (hfa : C03.Fits2 p fa)
    (hfit : C03.Fits2 p fuel) (a : Analysis F) (ha : AStart2 p a) (b : Nat) (hb : p.length < b)
    (hsilent : (analyzeProgram fa b a).messages = a.messages)
    {σ : St F} (h : C03.PReady2 p σ) (k : Nat) :
    (∀ te σ', C03.runTurns fuel k σ = .err te σ' →
      RunErrD te.err ∧ te.err ≠ .typeMismatch ∧ (∀ se, te.err ≠ .syntax se) ∧
      te.err ≠ .undefinedStatement) ∧
    (∀ σ', C03.runTurns fuel k σ = .ok () σ' → WellTyped σ') :=
  sound_program_ext hfit h ((analyzer_silent_iff2 fa p hfa a ha b hb).1 hsilent) k

/-! ### the same for a source file -/

/-- the tokens a file must denote, line by line, to be a text of `p` -/
def editsOf2 (p : RProgram2 F) : List (Nat × List (Token F)) := p.map fun l => (l.1, renderLine2 l.2)

/-- after the line pass over a text of `p` and `runFromFirst`, the statement pass can start -/
theorem astart_file2 (lines : List Str) (p : RProgram2 F) (hwf : p.WF) (hgood : C15.GoodFile F lines (editsOf2 p)) :
    AStart2 p { analyzeLines ({ lines := lines } : Analysis F) 0 lines with
               st := (analyzeLines ({ lines := lines } : Analysis F) 0 lines).st.runFromFirst } := by
  have hinv := C05.analyzeLines_lineInv ({ lines := lines } : Analysis F) 0 lines (C05.lineInv_init lines)
  have hpan := (C05.analyzeLines_file (F := F) lines).2.2.2
  have hstore := C15.load_store lines (editsOf2 p) hgood ({ lines := lines } : Analysis F) 0
  have hnest := AFrame.analyzeLines_nesting ({ lines := lines } : Analysis F) 0 lines
  generalize analyzeLines ({ lines := lines } : Analysis F) 0 lines = a0 at hinv hpan hstore hnest
  obtain ⟨hl, hacc, himm, _⟩ := C05.runFromFirst_facts a0.st
  have hH : Holds a0.st.lines p := by
    rw [hstore]
    exact Prog2L.holds_load p hwf
  have hfirst : a0.st.lines.first = p.first := Prog2L.holds_first hH
  refine ⟨by show Holds a0.st.runFromFirst.lines p; rw [hl]; exact hH,
    by show C05.LinesMapped a0.st.runFromFirst.lines a0.map; rw [hl]; exact hinv.mapped,
    ?_, himm, ?_, hacc.trans hinv.acc, hpan⟩
  · show a0.st.runFromFirst.loc = _
    have hf : a0.st.resetRuntime.lines.first = p.first := hfirst
    unfold St.runFromFirst
    simp only [hf]
    cases p.first <;> rfl
  · show a0.st.runFromFirst.nesting = 0
    have hf : a0.st.resetRuntime.lines.first = p.first := hfirst
    have : a0.st.runFromFirst.nesting = a0.st.nesting := by
      unfold St.runFromFirst
      simp only [hf]
      cases p.first <;> rfl
    rw [this, hnest]

/-- **`sound_analyzed_file_ext`.**  Let the lines of a source file be numbered and
    tokenize to the lines of the covered program `p` over the extended statement
    set.  If the analysis of the file (`analyzeFile`: all three passes) contains NO
    ERROR diagnostic, then the interpreter the analysis is turned into is ready
    to run `p`, `p` passes the static check, and no run — RUN followed by any
    number of host turns — fails with a syntax error, a TYPE MISMATCH or UNDEF'D
    STATEMENT: a failure is one of `RunErrD`. -/
theorem sound_analyzed_file_ext {p : RProgram2 F} {fa fuel : Nat} (hfa : C03.Fits2 p fa) (hfit : C03.Fits2 p fuel)
    (lines : List Str) (hgood : C15.GoodFile F lines (editsOf2 p))
    (hnoerr : ∀ f e, Diag.error f e ∉ (analyzeFile (F := F) fa lines).messages) (k : Nat) :
    C03.PReady2 p (analyzeFile (F := F) fa lines).intoInterpreter ∧
    typeOfP2 p = .ok () ∧
    (∀ te σ', C03.runTurns fuel k (analyzeFile (F := F) fa lines).intoInterpreter = .err te σ' →
      RunErrD te.err ∧ te.err ≠ .typeMismatch ∧ (∀ se, te.err ≠ .syntax se) ∧
      te.err ≠ .undefinedStatement) ∧
    (∀ σ', C03.runTurns fuel k (analyzeFile (F := F) fa lines).intoInterpreter = .ok () σ' → WellTyped σ') := by
  have hst := astart_file2 lines p hfa.wf hgood
  have hlen : p.length < lines.length + 2 := by
    have := goodFile_length hgood
    simp only [editsOf2, List.length_map] at this
    omega
  have hkey := AFrame.analyzeFile_key (F := F) fa lines
  have hstore := C15.load_store lines (editsOf2 p) hgood ({ lines := lines } : Analysis F) 0
  have hready : C03.PReady2 p (analyzeFile (F := F) fa lines).intoInterpreter := by
    refine ⟨rfl, ?_, rfl, rfl, hkey.2, rfl⟩
    show Holds (analyzeFile (F := F) fa lines).st.lines p
    rw [hkey.1, hstore]
    exact Prog2L.holds_load p hfa.wf
  have hty : typeOfP2 p = .ok () := by
    obtain ⟨hp2, _, _, _, ds, hds, hfor⟩ := analyze_program2 fa p hfa _ hst (lines.length + 2) hlen
    unfold typeOfP2
    rw [← lineErrs2_nil_iff]
    cases ds with
    | nil =>
      cases hx : lineErrs2 p.hasLine p with
      | nil => rfl
      | cons x xs => rw [hx] at hfor; exact hfor.elim
    | cons d ds =>
      exfalso
      obtain ⟨f, e, hd⟩ := diagsFor_head hfor
      apply hnoerr f e
      unfold analyzeFile
      simp only [hp2, Option.isSome_none, Bool.false_eq_true, ↓reduceIte]
      obtain ⟨⟨extra, hext, _⟩, _⟩ := C05.symbolWarnings_total
        (analyzeProgram fa (lines.length + 2)
          { analyzeLines ({ lines := lines } : Analysis F) 0 lines with
            st := (analyzeLines ({ lines := lines } : Analysis F) 0 lines).st.runFromFirst })
      rw [hext, hds, hd]
      simp
  exact ⟨hready, hty, sound_program_ext hfit hready hty k⟩

/-! ### 5. examples (on the degenerate carrier `Unit`: every number is `()`, `toU64 () = 0`, so
    every GOTO / GOSUB of a covered program targets line 0) -/

/-- ```
    0 FOR I = 0 TO 0 : FOR J = 0 TO 0 STEP 0 : READ A, B$ : DIM D(0) : NEXT J : NEXT I
    10 GOSUB 0 : RETURN
    20 DATA 0, "X"
    ``` nested FOR, GOSUB / RETURN, READ / DATA, DIM -/
def nestProg : RProgram2 Unit :=
  [ (0, [.forS ['I'] (.num ()) (.num ()) none, .forS ['J'] (.num ()) (.num ()) (some (.num ())),
         .readS [['A'], ['B', '$']], .dimS ['D'] [.num ()], .nextS ['J'], .nextS ['I']]),
    (10, [.gosubS 0, .returnS]),
    (20, [.dataS [.num (), .str ['X']]]) ]

theorem nest_fits : C03.Fits2 nestProg defaultFuel where
  wf := ⟨by decide, by intro l hl; simp [nestProg] at hl; rcases hl with rfl | rfl | rfl <;> simp⟩
  covered := by
    intro l hl s hs
    simp [nestProg] at hl
    rcases hl with rfl | rfl | rfl
    · simp at hs; rcases hs with rfl | rfl | rfl | rfl | rfl | rfl <;> simp [RStmt2.Covered]
    · simp at hs; rcases hs with rfl | rfl <;> simp [RStmt2.Covered]; rfl
    · simp at hs; subst hs; simp [RStmt2.Covered]
  depth := by
    intro l hl s hs
    simp [nestProg] at hl
    rcases hl with rfl | rfl | rfl
    · simp at hs
      rcases hs with rfl | rfl | rfl | rfl | rfl | rfl <;>
        simp [sdepth2, argsDepth, depth, defaultFuel, Extracted.nestingLimit]
    · simp at hs; rcases hs with rfl | rfl <;> simp [sdepth2]
    · simp at hs; subst hs; simp [sdepth2]

/-- the program passes the static check … -/
theorem nestProg_typed : typeOfP2 nestProg = .ok () := by rfl

/-- … so the analyzer's statement pass over the stored program reports nothing … -/
example (a : Analysis Unit) (h : AStart2 nestProg a) : (analyzeProgram defaultFuel 4 a).messages = a.messages :=
  (analyzer_silent_iff2 defaultFuel nestProg nest_fits a h 4 (by decide)).2 nestProg_typed

/-- … and no run of it, however long, fails with one of the three forbidden error kinds -/
example (k : Nat) : ∀ te σ', C03.runTurns defaultFuel k ({ lines := compileP2 nestProg } : St Unit) = .err te σ' →
    te.err ≠ .typeMismatch ∧ (∀ se, te.err ≠ .syntax se) ∧ te.err ≠ .undefinedStatement :=
  fun te σ' h => ((sound_program_ext nest_fits (C03.ready2_compile nestProg) nestProg_typed k).1 te σ' h).2

/-- READ's own error is reachable in a checked program: C03's `dtmProg` (`10 READ A` / `20 DATA "X"`)
    passes the check and fails with DATA TYPE MISMATCH (`C03.dtm_ref`) — `Err.dataTypeMismatch`, which is
    NOT `Err.typeMismatch`: the `RunErrD` in `sound_program_ext` cannot be strengthened to `RunErr`. -/
example : typeOfP2 C03.dtmProg = .ok () ∧
    RSteps2 C03.dtmProg 1 C03.dtmProg.start = .inr (.dataTypeMismatch, 20, []) ∧
    Err.dataTypeMismatch ≠ Err.typeMismatch := ⟨rfl, rfl, by simp⟩

/-- `10 NEXT A$` -/
def nextBad : RProgram2 Unit := [ (10, [.nextS ['A', '$']]) ]

theorem nextBad_fits : C03.Fits2 nextBad defaultFuel where
  wf := ⟨by decide, by intro l hl; simp [nextBad] at hl; subst hl; simp⟩
  covered := by
    intro l hl s hs
    simp [nextBad] at hl; subst hl
    simp at hs; subst hs; simp [RStmt2.Covered]
  depth := by
    intro l hl s hs
    simp [nextBad] at hl; subst hl
    simp at hs; subst hs; simp [sdepth2]

/-- the converse direction on one line: `NEXT A$` is rejected by the check … -/
example : typeOfP2 nextBad = .error (.typeMismatch, 10) := by rfl

/-- … the analyzer's statement pass reports exactly that: one TYPE MISMATCH located on line 10 … -/
example (a : Analysis Unit) (h : AStart2 nextBad a) :
    ∃ f i, (analyzeProgram defaultFuel 2 a).messages =
      a.messages ++ [.error f { err := .typeMismatch, loc := some { line := some 10, idx := i } }] := by
  obtain ⟨_, _, _, _, ds, hds, hfor⟩ := analyze_program2 defaultFuel nextBad nextBad_fits a h 2 (by decide)
  have hx : lineErrs2 nextBad.hasLine nextBad = [(.typeMismatch, 10)] := by rfl
  rw [hx] at hfor
  match ds, hfor with
  | [d], ⟨⟨f, i, hd⟩, _⟩ => exact ⟨f, i, by rw [hds, hd]⟩

/-- … and at run time the program fails with TYPE MISMATCH on line 10 -/
example : ∃ σ' i, C03.runTurns defaultFuel 0 ({ lines := compileP2 nextBad } : St Unit) =
      .err { err := .typeMismatch, loc := some { line := some 10, idx := i } } σ' ∧ σ'.state = .idle := by
  have href : RSteps2 nextBad 1 nextBad.start = .inr (.typeMismatch, 10, []) := rfl
  obtain ⟨k, σ', i, hk, hr, hi, _⟩ := C03.run2_fails nextBad_fits (C03.ready2_compile nextBad) 0 href
  have : k = 0 := by omega
  subst this
  exact ⟨σ', i, hr, hi⟩

/-- ```
    10 READ A$ : PRINT A$;
    20 DATA "X"
    30 RETURN
    ``` a source text of the extended fragment (on `Unit` no numeral tokenizes, hence no FOR / GOSUB here) -/
def fileProg2 : RProgram2 Unit :=
  [ (10, [.readS [['A', '$']], .printS [.expr (.var ['A', '$']), .semi]]),
    (20, [.dataS [.str ['X']]]),
    (30, [.returnS]) ]

def fileText2 : List Str := ["10 READ A$ : PRINT A$;".toList, "20 DATA \"X\"".toList, "30 RETURN".toList]

theorem file_edits2 : editsOf2 fileProg2 =
    [ (10, [.kw .Read, .symbol ['A', '$'], .kw .Colon, .kw .Print, .symbol ['A', '$'], .kw .Semicolon]),
      (20, [.data [.str ['X']]]),
      (30, [.kw .Return]) ] := by
  simp [editsOf2, fileProg2, renderLine2, renderTail2, renderS2, renderS, renderTargets, renderItems, PItem.render,
    render_var]

theorem file_good2 : C15.GoodFile Unit fileText2 (editsOf2 fileProg2) := by
  rw [file_edits2]
  refine .cons (goodLine_of _ _ 2 _ (by decide) (by decide) (by decide) (by rfl) (by simp)) ?_
  refine .cons (goodLine_of _ _ 2 _ (by decide) (by decide) (by decide) (by rfl) (by simp)) ?_
  refine .cons (goodLine_of _ _ 2 _ (by decide) (by decide) (by decide) (by rfl) (by simp)) ?_
  exact .nil

theorem file_fits2 : C03.Fits2 fileProg2 defaultFuel where
  wf := ⟨by decide, by intro l hl; simp [fileProg2] at hl; rcases hl with rfl | rfl | rfl <;> simp⟩
  covered := by
    intro l hl s hs
    simp [fileProg2] at hl
    rcases hl with rfl | rfl | rfl
    · simp at hs; rcases hs with rfl | rfl <;> simp [RStmt2.Covered, RStmt.Covered, separated]
    · simp at hs; subst hs; simp [RStmt2.Covered]
    · simp at hs; subst hs; simp [RStmt2.Covered]
  depth := by
    intro l hl s hs
    simp [fileProg2] at hl
    rcases hl with rfl | rfl | rfl
    · simp at hs
      rcases hs with rfl | rfl <;> simp [sdepth2, sdepth, itemsDepth, depth, defaultFuel, Extracted.nestingLimit]
    · simp at hs; subst hs; simp [sdepth2]
    · simp at hs; subst hs; simp [sdepth2]

theorem file_noerr2 : ∀ f e, Diag.error f e ∉ (analyzeFile (F := Unit) defaultFuel fileText2).messages := by
  have h : (analyzeFile (F := Unit) defaultFuel fileText2).messages.all (fun d => !isErr d) = true := by decide +kernel
  intro f e hmem
  have := List.all_eq_true.mp h _ hmem
  simp [isErr] at this

/-- `sound_analyzed_file_ext` applies to a concrete source text: its hypotheses are satisfiable
    (the run of this one ends in RETURN WITHOUT GOSUB, one of the errors the property allows) -/
example (k : Nat) : ∀ te σ',
    C03.runTurns defaultFuel k (analyzeFile (F := Unit) defaultFuel fileText2).intoInterpreter = .err te σ' →
    RunErrD te.err ∧ te.err ≠ .typeMismatch ∧ (∀ se, te.err ≠ .syntax se) ∧ te.err ≠ .undefinedStatement :=
  fun te σ' h => (sound_analyzed_file_ext file_fits2 file_fits2 fileText2 file_good2 file_noerr2 k).2.2.1 te σ' h

end Abasic.Props.C06
