import Abasic.Props.C12
/-
  C12 continued: the number and identifier scans respect an inserted blank, hence
  so does one `chomp_next_token` step on unprotected tokens, hence so does the
  whole tokenizer loop on a line without protected tokens (strings, REM, DATA).
-/
namespace Abasic.Props.C12
open Abasic

/-! ### 1. the digit scan -/

theorem numLoop_blank (w : Char) (hw : isBasicWs w = true) (cs : Str) :
    numLoop (w :: cs) = if (numLoop cs).1.isEmpty then ([], w :: cs) else numLoop cs := by
  simp only [numLoop, hw, ↓reduceIte]

theorem numLoop_digit (c : Char) (hb : ¬ isBasicWs c = true) (hg : (isAsciiDigit c || c == '.') = true) (cs : Str) :
    numLoop (c :: cs) = (c :: (numLoop cs).1, (numLoop cs).2) := by
  simp only [numLoop, hb, hg, ↓reduceIte, Bool.false_eq_true]

theorem numLoop_other (c : Char) (hb : ¬ isBasicWs c = true) (hg : ¬ (isAsciiDigit c || c == '.') = true) (cs : Str) :
    numLoop (c :: cs) = ([], c :: cs) := by
  simp only [numLoop, hb, hg, ↓reduceIte, Bool.false_eq_true]

/-- If the digit scan collects nothing it leaves the text untouched. -/
theorem numLoop_nil_rest (cs : Str) : (numLoop cs).1 = [] → (numLoop cs).2 = cs := by
  induction cs with
  | nil => intro _; rfl
  | cons c cs ih =>
    by_cases hb : isBasicWs c = true
    · rw [numLoop_blank c hb]
      by_cases hd : (numLoop cs).1.isEmpty = true
      · rw [if_pos hd]; intro _; rfl
      · rw [if_neg hd]; intro h; rw [h] at hd; exact absurd rfl hd
    · by_cases hg : (isAsciiDigit c || c == '.') = true
      · rw [numLoop_digit c hb hg]; intro h; cases h
      · rw [numLoop_other c hb hg]; intro _; rfl

/-- The digit scan collects the same characters, and the rests are related. -/
theorem numLoop_ins (w : Char) (hw : isBasicWs w = true) {r r' : Str} (h : Ins w r r') :
    (numLoop r).1 = (numLoop r').1 ∧ Ins w (numLoop r).2 (numLoop r').2 := by
  induction h with
  | same r => exact ⟨rfl, Ins.same _⟩
  | here r =>
    rw [numLoop_blank w hw]
    by_cases hd : (numLoop r).1.isEmpty = true
    · rw [if_pos hd]
      have he : (numLoop r).1 = [] := List.isEmpty_iff.mp hd
      rw [numLoop_nil_rest r he]
      exact ⟨he, Ins.here _⟩
    · rw [if_neg hd]
      exact ⟨rfl, Ins.same _⟩
  | @cons c r r' h ih =>
    obtain ⟨ih1, ih2⟩ := ih
    by_cases hb : isBasicWs c = true
    · rw [numLoop_blank c hb, numLoop_blank c hb, ← ih1]
      by_cases hd : (numLoop r).1.isEmpty = true
      · rw [if_pos hd, if_pos hd]; exact ⟨rfl, Ins.cons c h⟩
      · rw [if_neg hd, if_neg hd]; exact ⟨ih1, ih2⟩
    · by_cases hg : (isAsciiDigit c || c == '.') = true
      · rw [numLoop_digit c hb hg, numLoop_digit c hb hg]
        exact ⟨congrArg (c :: ·) ih1, ih2⟩
      · rw [numLoop_other c hb hg, numLoop_other c hb hg]; exact ⟨rfl, Ins.cons c h⟩

/-! ### 2. the identifier scan -/

/-- the validity test of `chomp_symbol` for one character -/
def symValid (first : Bool) (c : Char) : Bool :=
  if first then isAsciiAlpha c else (isAsciiAlnum c || c == '$')

theorem symLoop_blank (first : Bool) (w : Char) (hw : isBasicWs w = true) (cs : Str) :
    symLoop first (w :: cs) = if (symLoop first cs).1.isEmpty then ([], w :: cs) else symLoop first cs := by
  simp only [symLoop, hw, ↓reduceIte]

theorem symLoop_nonblank (first : Bool) (c : Char) (hb : ¬ isBasicWs c = true) (cs : Str) :
    symLoop first (c :: cs) =
      if (!symValid first c) = true then ([], c :: cs)
      else if (c == '$') = true then ([c], cs)
      else if (chompAnyKeyword cs).isSome = true then ([asciiUpper c], cs)
      else (asciiUpper c :: (symLoop false cs).1, (symLoop false cs).2) := by
  simp only [symLoop, hb, ↓reduceIte, Bool.false_eq_true, symValid]
  rfl

theorem symLoop_invalid (first : Bool) (c : Char) (hb : ¬ isBasicWs c = true) (hv : symValid first c = false)
    (cs : Str) : symLoop first (c :: cs) = ([], c :: cs) := by
  rw [symLoop_nonblank first c hb, hv]; rfl

theorem symLoop_dollar (first : Bool) (c : Char) (hb : ¬ isBasicWs c = true) (hv : symValid first c = true)
    (hd : (c == '$') = true) (cs : Str) : symLoop first (c :: cs) = ([c], cs) := by
  rw [symLoop_nonblank first c hb, hv, if_pos hd]; rfl

theorem symLoop_kw (first : Bool) (c : Char) (hb : ¬ isBasicWs c = true) (hv : symValid first c = true)
    (hd : ¬ (c == '$') = true) (cs : Str) (hk : (chompAnyKeyword cs).isSome = true) :
    symLoop first (c :: cs) = ([asciiUpper c], cs) := by
  rw [symLoop_nonblank first c hb, hv, if_neg hd, if_pos hk]; rfl

theorem symLoop_more (first : Bool) (c : Char) (hb : ¬ isBasicWs c = true) (hv : symValid first c = true)
    (hd : ¬ (c == '$') = true) (cs : Str) (hk : ¬ (chompAnyKeyword cs).isSome = true) :
    symLoop first (c :: cs) = (asciiUpper c :: (symLoop false cs).1, (symLoop false cs).2) := by
  rw [symLoop_nonblank first c hb, hv, if_neg hd, if_neg hk]; rfl

theorem symLoop_nil_rest (first : Bool) (cs : Str) : (symLoop first cs).1 = [] → (symLoop first cs).2 = cs := by
  induction cs generalizing first with
  | nil => intro _; rfl
  | cons c cs ih =>
    by_cases hb : isBasicWs c = true
    · rw [symLoop_blank first c hb]
      by_cases hd : (symLoop first cs).1.isEmpty = true
      · rw [if_pos hd]; intro _; rfl
      · rw [if_neg hd]; intro h; rw [h] at hd; exact absurd rfl hd
    · cases hv : symValid first c with
      | false => rw [symLoop_invalid first c hb hv]; intro _; rfl
      | true =>
        by_cases hd : (c == '$') = true
        · rw [symLoop_dollar first c hb hv hd]; intro h; cases h
        · by_cases hk : (chompAnyKeyword cs).isSome = true
          · rw [symLoop_kw first c hb hv hd cs hk]; intro h; cases h
          · rw [symLoop_more first c hb hv hd cs hk]; intro h; cases h

theorem chompAnyKeyword_ins_isSome (w : Char) (hw : isBasicWs w = true) {r r' : Str} (h : Ins w r r') :
    (chompAnyKeyword r).isSome = (chompAnyKeyword r').isSome := by
  have := chompAnyKeyword_ins w hw h
  cases h1 : chompAnyKeyword r <;> cases h2 : chompAnyKeyword r' <;> rw [h1, h2] at this <;>
    first | rfl | exact this.elim

/-- The identifier scan collects the same characters, and the rests are related. -/
theorem symLoop_ins (first : Bool) (w : Char) (hw : isBasicWs w = true) {r r' : Str} (h : Ins w r r') :
    (symLoop first r).1 = (symLoop first r').1 ∧ Ins w (symLoop first r).2 (symLoop first r').2 := by
  induction h generalizing first with
  | same r => exact ⟨rfl, Ins.same _⟩
  | here r =>
    rw [symLoop_blank first w hw]
    by_cases hd : (symLoop first r).1.isEmpty = true
    · rw [if_pos hd]
      have he : (symLoop first r).1 = [] := List.isEmpty_iff.mp hd
      rw [symLoop_nil_rest first r he]
      exact ⟨he, Ins.here _⟩
    · rw [if_neg hd]
      exact ⟨rfl, Ins.same _⟩
  | @cons c r r' h ih =>
    by_cases hb : isBasicWs c = true
    · obtain ⟨ih1, ih2⟩ := ih first
      rw [symLoop_blank first c hb, symLoop_blank first c hb, ← ih1]
      by_cases hd : (symLoop first r).1.isEmpty = true
      · rw [if_pos hd, if_pos hd]; exact ⟨rfl, Ins.cons c h⟩
      · rw [if_neg hd, if_neg hd]; exact ⟨ih1, ih2⟩
    · obtain ⟨ih1, ih2⟩ := ih false
      have hkk := chompAnyKeyword_ins_isSome w hw h
      cases hv : symValid first c with
      | false => rw [symLoop_invalid first c hb hv, symLoop_invalid first c hb hv]; exact ⟨rfl, Ins.cons c h⟩
      | true =>
        by_cases hd : (c == '$') = true
        · rw [symLoop_dollar first c hb hv hd, symLoop_dollar first c hb hv hd]; exact ⟨rfl, h⟩
        · by_cases hk : (chompAnyKeyword r).isSome = true
          · rw [symLoop_kw first c hb hv hd r hk, symLoop_kw first c hb hv hd r' (hkk ▸ hk)]; exact ⟨rfl, h⟩
          · rw [symLoop_more first c hb hv hd r hk, symLoop_more first c hb hv hd r' (hkk ▸ hk)]
            exact ⟨congrArg (asciiUpper c :: ·) ih1, ih2⟩

/-! ### 3. one `chomp_next_token` step -/

variable {F : Type} [NumOps F]

/-- Tokens that carry no literal text: keywords/operators, numbers, identifiers.
    (Strings, remarks and DATA are the protected ones.) -/
def Unprotected : Token F → Bool
  | .kw _ => true
  | .num _ => true
  | .symbol _ => true
  | _ => false

/-- Outcomes of one tokenizer step that involve literal text. -/
def ProtectedOutcome : Chomp F → Prop
  | .tok t _ => Unprotected t = false
  | .unterminated => True
  | _ => False

/-- Two outcomes agree up to an inserted blank in what is left. -/
def ChompIns (w : Char) : Chomp F → Chomp F → Prop
  | .tok t r, .tok t' r' => t = t' ∧ Ins w r r'
  | .illegalChar, .illegalChar => True
  | .invalidNumber r, .invalidNumber r' => Ins w r r'
  | _, _ => False

theorem nextToken_kw (cs : Str) (k : Kw) (r : Str) (hk : chompAnyKeyword cs = some (k, r)) :
    nextToken (F := F) cs = .tok (.kw k) r := by
  unfold nextToken; simp only [hk]

theorem nextToken_op (cs : Str) (k : Kw) (r : Str) (hk : chompAnyKeyword cs = none)
    (ho : chompOneOrTwo cs = some (k, r)) : nextToken (F := F) cs = .tok (.kw k) r := by
  unfold nextToken; simp only [hk, ho]

theorem nextToken_quote (q : Str) (hk : chompAnyKeyword ('"' :: q) = none) (ho : chompOneOrTwo ('"' :: q) = none) :
    nextToken (F := F) ('"' :: q) =
      match splitAtQuote q with
      | some (s, r) => .tok (.str s) r
      | none => .unterminated := by
  unfold nextToken; simp only [hk, ho]
  cases splitAtQuote q with
  | none => rfl
  | some p => rfl

/-- what `chomp_next_token` does once keyword, operator and string have been ruled out -/
def afterQuote (cs : Str) : Chomp F :=
  match numLoop cs with
  | (c :: d, r) =>
    (match NumOps.parse (F := F) (c :: d) with
     | some x => if NumOps.isFinite x then .tok (.num x) r else .invalidNumber r
     | none => .invalidNumber r)
  | ([], _) =>
  match chompKeyword Extracted.remKeyword.toList cs with
  | some r => .tok (.remark r) []
  | none =>
  match chompKeyword Extracted.dataKeyword.toList cs with
  | some r =>
    let (items, n) := parseData (F := F) r
    .tok (.data items) (dropBytes n r)
  | none =>
  match symLoop true cs with
  | (c :: d, r) => .tok (.symbol (c :: d)) r
  | ([], _) => .illegalChar

theorem nextToken_noquote (c : Char) (t : Str) (hc : c ≠ '"') (hk : chompAnyKeyword (c :: t) = none)
    (ho : chompOneOrTwo (c :: t) = none) : nextToken (F := F) (c :: t) = afterQuote (c :: t) := by
  unfold nextToken afterQuote; simp only [hk, ho]
  split
  · rename_i heq; injection heq with h1 _; exact absurd h1 hc
  · rfl

theorem nextToken_nil : nextToken (F := F) [] = .illegalChar := by
  unfold nextToken; rfl

theorem afterQuote_ins (w : Char) (hw : isBasicWs w = true) {cs cs' : Str} (h : Ins w cs cs') :
    ChompIns w (afterQuote (F := F) cs) (afterQuote (F := F) cs') ∨
    (ProtectedOutcome (afterQuote (F := F) cs) ∧ ProtectedOutcome (afterQuote (F := F) cs')) := by
  obtain ⟨hn1, hn2⟩ := numLoop_ins w hw h
  unfold afterQuote
  generalize numLoop cs = a at hn1 hn2
  generalize numLoop cs' = a' at hn1 hn2
  obtain ⟨ds, r⟩ := a
  obtain ⟨ds', r'⟩ := a'
  simp only at hn1 hn2
  subst hn1
  cases ds with
  | cons x d =>
    simp only
    cases NumOps.parse (F := F) (x :: d) with
    | none => exact Or.inl hn2
    | some v =>
      simp only
      by_cases hf : NumOps.isFinite v = true
      · rw [if_pos hf, if_pos hf]; exact Or.inl ⟨rfl, hn2⟩
      · rw [if_neg hf, if_neg hf]; exact Or.inl hn2
  | nil =>
    simp only
    have hrem := chompKeyword_ins w hw Extracted.remKeyword.toList h
    cases h1 : chompKeyword Extracted.remKeyword.toList cs <;>
      cases h2 : chompKeyword Extracted.remKeyword.toList cs' <;> rw [h1, h2] at hrem
    case none.some => exact hrem.elim
    case some.none => exact hrem.elim
    case some.some => exact Or.inr ⟨rfl, rfl⟩
    simp only
    have hdat := chompKeyword_ins w hw Extracted.dataKeyword.toList h
    cases h3 : chompKeyword Extracted.dataKeyword.toList cs <;>
      cases h4 : chompKeyword Extracted.dataKeyword.toList cs' <;> rw [h3, h4] at hdat
    case none.some => exact hdat.elim
    case some.none => exact hdat.elim
    case some.some => exact Or.inr ⟨rfl, rfl⟩
    simp only
    obtain ⟨hs1, hs2⟩ := symLoop_ins true w hw h
    generalize symLoop true cs = b at hs1 hs2
    generalize symLoop true cs' = b' at hs1 hs2
    obtain ⟨ss, u⟩ := b
    obtain ⟨ss', u'⟩ := b'
    simp only at hs1 hs2
    subst hs1
    cases ss with
    | cons y e => exact Or.inl ⟨rfl, hs2⟩
    | nil => exact Or.inl trivial

theorem insRes_cases {α : Type} {w : Char} {a b : Option (α × Str)} (h : InsRes w a b) :
    (a = none ∧ b = none) ∨ (∃ x r r', a = some (x, r) ∧ b = some (x, r') ∧ Ins w r r') := by
  cases a with
  | none =>
    cases b with
    | none => exact Or.inl ⟨rfl, rfl⟩
    | some q => exact h.elim
  | some p =>
    obtain ⟨x, r⟩ := p
    cases b with
    | none => exact h.elim
    | some q =>
      obtain ⟨x', r'⟩ := q
      obtain ⟨h1, h2⟩ := h
      subst h1
      exact Or.inr ⟨x, r, r', rfl, rfl, h2⟩

/-- One tokenizer step on two texts that start with the same character and differ by
    one inserted blank: either the outcomes agree (same token or same kind of error,
    related rests), or both are protected (string, REM, DATA, unterminated string). -/
theorem nextToken_ins_cases (w : Char) (hw : isBasicWs w = true) (c : Char) {t t' : Str}
    (h : Ins w (c :: t) (c :: t')) :
    ChompIns w (nextToken (F := F) (c :: t)) (nextToken (F := F) (c :: t')) ∨
    (ProtectedOutcome (nextToken (F := F) (c :: t)) ∧ ProtectedOutcome (nextToken (F := F) (c :: t'))) := by
  rcases insRes_cases (chompAnyKeyword_ins w hw h) with ⟨k1, k2⟩ | ⟨k, r, r', k1, k2, hr⟩
  · rcases insRes_cases (chompOneOrTwo_ins w hw h) with ⟨o1, o2⟩ | ⟨k, r, r', o1, o2, hr⟩
    · by_cases hc : c = '"'
      · subst hc
        rw [nextToken_quote t k1 o1, nextToken_quote t' k2 o2]
        refine Or.inr ⟨?_, ?_⟩
        · cases splitAtQuote t with
          | none => trivial
          | some p => rfl
        · cases splitAtQuote t' with
          | none => trivial
          | some p => rfl
      · rw [nextToken_noquote c t hc k1 o1, nextToken_noquote c t' hc k2 o2]
        exact afterQuote_ins w hw h
    · rw [nextToken_op _ k r k1 o1, nextToken_op _ k r' k2 o2]
      exact Or.inl ⟨rfl, hr⟩
  · rw [nextToken_kw _ k r k1, nextToken_kw _ k r' k2]
    exact Or.inl ⟨rfl, hr⟩

/-- Item 3: an unprotected token (keyword/operator, number, identifier) is produced
    alike on both texts, with related rests.  (The first character need not even be
    non-blank.) -/
theorem nextToken_ins_unprotected (w : Char) (hw : isBasicWs w = true) (c : Char) {t t' : Str}
    (h : Ins w (c :: t) (c :: t')) (tk : Token F) (rest : Str) (hu : Unprotected tk = true)
    (hn : nextToken (F := F) (c :: t) = .tok tk rest) :
    ∃ rest', nextToken (F := F) (c :: t') = .tok tk rest' ∧ Ins w rest rest' := by
  rcases nextToken_ins_cases (F := F) w hw c h with hci | ⟨hp, _⟩
  · rw [hn] at hci
    cases h2 : nextToken (F := F) (c :: t') with
    | tok tk' rest' =>
      rw [h2] at hci
      obtain ⟨e, hr⟩ := hci
      subst e
      exact ⟨rest', rfl, hr⟩
    | illegalChar => rw [h2] at hci; exact hci.elim
    | unterminated => rw [h2] at hci; exact hci.elim
    | invalidNumber r => rw [h2] at hci; exact hci.elim
  · rw [hn] at hp
    have hp' : Unprotected tk = false := hp
    rw [hu] at hp'
    cases hp'

/-- The converse direction: removing the blank keeps an unprotected token too. -/
theorem nextToken_del_unprotected (w : Char) (hw : isBasicWs w = true) (c : Char) {t t' : Str}
    (h : Ins w (c :: t) (c :: t')) (tk : Token F) (rest' : Str) (hu : Unprotected tk = true)
    (hn : nextToken (F := F) (c :: t') = .tok tk rest') :
    ∃ rest, nextToken (F := F) (c :: t) = .tok tk rest ∧ Ins w rest rest' := by
  rcases nextToken_ins_cases (F := F) w hw c h with hci | ⟨_, hp⟩
  · rw [hn] at hci
    cases h2 : nextToken (F := F) (c :: t) with
    | tok tk' rest =>
      rw [h2] at hci
      obtain ⟨e, hr⟩ := hci
      subst e
      exact ⟨rest, rfl, hr⟩
    | illegalChar => rw [h2] at hci; exact hci.elim
    | unterminated => rw [h2] at hci; exact hci.elim
    | invalidNumber r => rw [h2] at hci; exact hci.elim
  · rw [hn] at hp
    have hp' : Unprotected tk = false := hp
    rw [hu] at hp'
    cases hp'

/-! ### 4. whole lines without protected tokens -/

theorem tokLoop_zero (cs : Str) (idx : Nat) (acc : List (RangedToken F)) :
    tokLoop 0 cs idx acc = (acc.reverse, some .outOfFuel) := by
  unfold tokLoop; rfl

theorem tokLoop_succ_nil (fuel : Nat) (cs : Str) (idx : Nat) (acc : List (RangedToken F))
    (hs : skipWs cs = []) : tokLoop (fuel + 1) cs idx acc = (acc.reverse, none) := by
  unfold tokLoop; simp only [hs]

theorem tokLoop_succ_tok (fuel : Nat) (cs : Str) (idx : Nat) (acc : List (RangedToken F))
    (c : Char) (t : Str) (hs : skipWs cs = c :: t) (tk : Token F) (rest : Str)
    (hn : nextToken (F := F) (c :: t) = .tok tk rest) :
    ∃ a b, tokLoop (fuel + 1) cs idx acc = tokLoop fuel rest b ((tk, a, b) :: acc) := by
  refine ⟨idx + (len8 cs - len8 (c :: t)),
    idx + (len8 cs - len8 (c :: t)) + (len8 (c :: t) - len8 rest), ?_⟩
  conv => lhs; unfold tokLoop; simp only [hs, hn]

theorem tokLoop_succ_err (fuel : Nat) (cs : Str) (idx : Nat) (acc : List (RangedToken F))
    (c : Char) (t : Str) (hs : skipWs cs = c :: t)
    (hn : ∀ tk rest, nextToken (F := F) (c :: t) ≠ .tok tk rest) :
    (tokLoop (fuel + 1) cs idx acc).2 ≠ none := by
  unfold tokLoop; simp only [hs]
  cases h : nextToken (F := F) (c :: t) with
  | tok tk rest => exact absurd h (hn tk rest)
  | illegalChar => simp
  | unterminated => simp
  | invalidNumber r => simp

/-- everything accumulated so far is part of the final token list -/
theorem tokLoop_acc_mem (fuel : Nat) : ∀ (cs : Str) (idx : Nat) (acc : List (RangedToken F)),
    (tokLoop fuel cs idx acc).2 = none → ∀ x ∈ acc, x ∈ (tokLoop fuel cs idx acc).1 := by
  induction fuel with
  | zero => intro cs idx acc h; rw [tokLoop_zero] at h; cases h
  | succ fuel ih =>
    intro cs idx acc hok x hx
    cases hs : skipWs cs with
    | nil => rw [tokLoop_succ_nil fuel cs idx acc hs]; exact List.mem_reverse.mpr hx
    | cons c t =>
      cases hn : nextToken (F := F) (c :: t) with
      | tok tk rest =>
        obtain ⟨a, b, e⟩ := tokLoop_succ_tok fuel cs idx acc c t hs tk rest hn
        rw [e] at hok ⊢
        exact ih rest b _ hok x (List.mem_cons_of_mem _ hx)
      | illegalChar =>
        exact absurd hok (tokLoop_succ_err fuel cs idx acc c t hs (by intro tk rest h; rw [hn] at h; cases h))
      | unterminated =>
        exact absurd hok (tokLoop_succ_err fuel cs idx acc c t hs (by intro tk rest h; rw [hn] at h; cases h))
      | invalidNumber r =>
        exact absurd hok (tokLoop_succ_err fuel cs idx acc c t hs (by intro tk rest h; rw [hn] at h; cases h))

/-- Item 4 (loop form).  If the tokenizer loop on `cs` ends without error and every
    token it yields is unprotected, then on `cs'` (one blank inserted anywhere), from
    any byte index, with at least as much fuel and an accumulator holding the same
    tokens, it also ends without error and yields the same tokens. -/
theorem tokLoop_ins_unprotected (w : Char) (hw : isBasicWs w = true) (fuel : Nat) :
    ∀ {cs cs' : Str}, Ins w cs cs' → ∀ (fuel' idx idx' : Nat) (acc acc' : List (RangedToken F)),
    fuel ≤ fuel' → acc.map (·.1) = acc'.map (·.1) →
    (tokLoop fuel cs idx acc).2 = none →
    (∀ x ∈ (tokLoop fuel cs idx acc).1, Unprotected x.1 = true) →
    (tokLoop fuel' cs' idx' acc').2 = none ∧
    (tokLoop fuel' cs' idx' acc').1.map (·.1) = (tokLoop fuel cs idx acc).1.map (·.1) := by
  induction fuel with
  | zero => intro cs cs' _ fuel' idx idx' acc acc' _ _ h; rw [tokLoop_zero] at h; cases h
  | succ fuel ih =>
    intro cs cs' h fuel' idx idx' acc acc' hf hacc hok hun
    obtain ⟨f', rfl⟩ : ∃ f', fuel' = f' + 1 := ⟨fuel' - 1, by omega⟩
    rcases skipWs_ins_cases w hw h with ⟨h1, h2⟩ | ⟨c, t, t', h1, h2, h3⟩
    · rw [tokLoop_succ_nil f' cs' idx' acc' h2, tokLoop_succ_nil fuel cs idx acc h1]
      refine ⟨rfl, ?_⟩
      simp only [List.map_reverse, hacc]
    · cases hn : nextToken (F := F) (c :: t) with
      | tok tk rest =>
        obtain ⟨a, b, e⟩ := tokLoop_succ_tok fuel cs idx acc c t h1 tk rest hn
        rw [e] at hok hun ⊢
        have hu : Unprotected tk = true :=
          hun _ (tokLoop_acc_mem fuel rest b _ hok (tk, a, b) (List.mem_cons_self ..))
        obtain ⟨rest', hn', hr⟩ := nextToken_ins_unprotected w hw c (Ins.cons c h3) tk rest hu hn
        obtain ⟨a', b', e'⟩ := tokLoop_succ_tok f' cs' idx' acc' c t' h2 tk rest' hn'
        rw [e']
        exact ih hr f' b b' _ _ (by omega) (by simp only [List.map_cons, hacc]) hok hun
      | illegalChar =>
        exact absurd hok (tokLoop_succ_err fuel cs idx acc c t h1 (by intro tk rest h; rw [hn] at h; cases h))
      | unterminated =>
        exact absurd hok (tokLoop_succ_err fuel cs idx acc c t h1 (by intro tk rest h; rw [hn] at h; cases h))
      | invalidNumber r =>
        exact absurd hok (tokLoop_succ_err fuel cs idx acc c t h1 (by intro tk rest h; rw [hn] at h; cases h))

theorem dropBytes_zero (cs : Str) : dropBytes 0 cs = cs := by
  cases cs <;> simp [dropBytes]

theorem tokenize_ok_iff (line : Str) (ts : List (Token F)) :
    tokenize (F := F) line 0 = .ok ts ↔
      (tokLoop (F := F) (line.length + 1) line 0 []).2 = none ∧
      (tokLoop (F := F) (line.length + 1) line 0 []).1.map (·.1) = ts := by
  unfold tokenize tokenizeRanges
  simp only [dropBytes_zero, Nat.succ_eq_add_one]
  generalize tokLoop (F := F) (line.length + 1) line 0 [] = p
  obtain ⟨l, e⟩ := p
  cases e with
  | none =>
    simp only [true_and]
    constructor
    · intro h; injection h
    · intro h; rw [h]
  | some e =>
    simp only
    constructor
    · intro h; cases h
    · intro h; cases h.1

theorem Ins.length_le {w : Char} {r r' : Str} (h : Ins w r r') : r.length ≤ r'.length := by
  induction h with
  | same r => exact Nat.le_refl _
  | here r => simp
  | cons c h ih => simp only [List.length_cons]; omega

/-- Item 4 (line form).  A line that tokenizes without error into unprotected tokens
    only tokenizes into the very same tokens after a blank is inserted anywhere. -/
theorem tokenize_ins_unprotected (w : Char) (hw : isBasicWs w = true) {line line' : Str}
    (h : Ins w line line') (ts : List (Token F)) (hok : tokenize (F := F) line 0 = .ok ts)
    (hun : ∀ t ∈ ts, Unprotected t = true) : tokenize (F := F) line' 0 = .ok ts := by
  rw [tokenize_ok_iff] at hok ⊢
  obtain ⟨h1, h2⟩ := hok
  have hun' : ∀ x ∈ (tokLoop (F := F) (line.length + 1) line 0 []).1, Unprotected x.1 = true := by
    intro x hx
    apply hun
    rw [← h2]
    exact List.mem_map_of_mem hx
  have := tokLoop_ins_unprotected (F := F) w hw (line.length + 1) h (line'.length + 1) 0 0 [] []
    (by have := h.length_le; omega) rfl h1 hun'
  exact ⟨this.1, this.2.trans h2⟩

/-- Any number of blanks inserted, one after the other. -/
inductive InsBlanks : Str → Str → Prop
  | refl (r : Str) : InsBlanks r r
  | step {a b c : Str} (w : Char) : InsBlanks a b → isBasicWs w = true → Ins w b c → InsBlanks a c

/-- Item 4, iterated: inserting any number of blanks anywhere in a line without
    protected tokens changes no token. -/
theorem tokenize_insBlanks_unprotected {line line' : Str} (h : InsBlanks line line') (ts : List (Token F))
    (hok : tokenize (F := F) line 0 = .ok ts) (hun : ∀ t ∈ ts, Unprotected t = true) :
    tokenize (F := F) line' 0 = .ok ts := by
  induction h with
  | refl => exact hok
  | step w _ hw hi ih => exact tokenize_ins_unprotected w hw hi ts ih hun

/-- The converse for the loop: removing one blank.  If the loop on the longer text `cs'`
    ends without error in unprotected tokens only, so it does on `cs`, with the same tokens. -/
theorem tokLoop_del_unprotected (w : Char) (hw : isBasicWs w = true) (fuel : Nat) :
    ∀ {cs cs' : Str}, Ins w cs cs' → ∀ (fuel' idx idx' : Nat) (acc acc' : List (RangedToken F)),
    fuel ≤ fuel' → acc.map (·.1) = acc'.map (·.1) →
    (tokLoop fuel cs' idx' acc').2 = none →
    (∀ x ∈ (tokLoop fuel cs' idx' acc').1, Unprotected x.1 = true) →
    (tokLoop fuel' cs idx acc).2 = none ∧
    (tokLoop fuel' cs idx acc).1.map (·.1) = (tokLoop fuel cs' idx' acc').1.map (·.1) := by
  induction fuel with
  | zero => intro cs cs' _ fuel' idx idx' acc acc' _ _ h; rw [tokLoop_zero] at h; cases h
  | succ fuel ih =>
    intro cs cs' h fuel' idx idx' acc acc' hf hacc hok hun
    obtain ⟨f', rfl⟩ : ∃ f', fuel' = f' + 1 := ⟨fuel' - 1, by omega⟩
    rcases skipWs_ins_cases w hw h with ⟨h1, h2⟩ | ⟨c, t, t', h1, h2, h3⟩
    · rw [tokLoop_succ_nil f' cs idx acc h1, tokLoop_succ_nil fuel cs' idx' acc' h2]
      refine ⟨rfl, ?_⟩
      simp only [List.map_reverse, hacc]
    · cases hn : nextToken (F := F) (c :: t') with
      | tok tk rest' =>
        obtain ⟨a', b', e'⟩ := tokLoop_succ_tok fuel cs' idx' acc' c t' h2 tk rest' hn
        rw [e'] at hok hun ⊢
        have hu : Unprotected tk = true :=
          hun _ (tokLoop_acc_mem fuel rest' b' _ hok (tk, a', b') (List.mem_cons_self ..))
        obtain ⟨rest, hn', hr⟩ := nextToken_del_unprotected w hw c (Ins.cons c h3) tk rest' hu hn
        obtain ⟨a, b, e⟩ := tokLoop_succ_tok f' cs idx acc c t h1 tk rest hn'
        rw [e]
        exact ih hr f' b b' _ _ (by omega) (by simp only [List.map_cons, hacc]) hok hun
      | illegalChar =>
        exact absurd hok (tokLoop_succ_err fuel cs' idx' acc' c t' h2 (by intro tk rest h; rw [hn] at h; cases h))
      | unterminated =>
        exact absurd hok (tokLoop_succ_err fuel cs' idx' acc' c t' h2 (by intro tk rest h; rw [hn] at h; cases h))
      | invalidNumber r =>
        exact absurd hok (tokLoop_succ_err fuel cs' idx' acc' c t' h2 (by intro tk rest h; rw [hn] at h; cases h))

/-- Non-vacuity: the hypotheses of the line theorem hold for `GOTOX` (keyword GOTO, then
    the identifier `X`), so `GO TOX` gives the same two tokens. -/
example : tokenize (F := Unit) "GO TOX".toList 0 = .ok [.kw .Goto, .symbol ['X']] :=
  tokenize_ins_unprotected ' ' (by decide) (line := "GOTOX".toList)
    (Ins.cons 'G' (Ins.cons 'O' (Ins.here _))) _ (by rfl)
    (by intro t ht; simp only [List.mem_cons, List.not_mem_nil, or_false] at ht; rcases ht with rfl | rfl <;> rfl)

end Abasic.Props.C12
