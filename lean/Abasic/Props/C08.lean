import Abasic.Interp
/-
  C08 — INPUT suspends and resumes without disturbing the rest of the program.
-/
namespace Abasic.Props.C08
open Abasic

variable {F : Type} [NumOps F]

omit [NumOps F] in
/-- Searching backwards from just after an INPUT token finds that token. -/
theorem find_input (ts : List (Token F)) (i : Nat) (t : Token F) (h : ts[i]? = some t)
    (hk : t.isKw .Input = true) : findInputBefore ts (i + 1) = some i := by
  simp [findInputBefore, h, hk]

/-- Reaching INPUT with no pending reply: the interpreter awaits input with the
    cursor back ON the INPUT token; nothing else changes (the read counter aside). -/
theorem input_suspend (ev : Evals F) (σ : St F) (ts : List (Token F)) (i : Nat) (t : Token F)
    (hin : σ.input = none)
    (hts : tokens σ = .ok ts σ)
    (hidx : σ.loc.idx = i + 1) (ht : ts[i]? = some t) (hk : t.isKw .Input = true) :
    inputStatement ev σ =
      .ok () { σ with loc := { σ.loc with idx := i }, state := .awaitingInput, reads := σ.reads + 1 } := by
  have hf := find_input ts i t ht hk
  simp [inputStatement, takeInput, bind, M.bindM, M.get, hin, pure, M.pureM, rewindAndAwaitInput,
    rewindBeforeInput, hts, hidx, hf, M.set, M.modify]

/-- The reply is read as DATA items: the first one and whether anything is left over. -/
theorem reply_parse (σ : St F) (text : Str) (h : σ.input = some text) :
    takeInput σ = .ok (some ((parseData (F := F) text).1, decide ((parseData (F := F) text).2 < len8 text)))
      { σ with input := none } := by
  simp [takeInput, bind, M.bindM, M.get, h, M.set, pure, M.pureM]

/-- Text offered to a numeric variable is a DATA TYPE MISMATCH of the coercion,
    which INPUT turns into REENTER (never into an error). -/
theorem text_to_numeric (name : Str) (s : Str) (h : endsWithDollar name = false) :
    Value.coerceFromData (F := F) name (.str s) = .error .dataTypeMismatch := by
  simp [Value.coerceFromData, h]

/-- A numeric item suits a numeric variable, any item suits a string variable. -/
theorem item_suits (name : Str) (e : DataElement F) (h : endsWithDollar name = true ∨ ∃ x, e = .num x) :
    ∃ v, Value.coerceFromData name e = .ok v ∧ v.matchesName name = true := by
  rcases h with h | ⟨x, rfl⟩
  · cases e <;> simp [Value.coerceFromData, h, Value.matchesName]
  · by_cases hd : endsWithDollar name = true
    · simp [Value.coerceFromData, hd, Value.matchesName]
    · have hd' : endsWithDollar name = false := by simpa using hd
      simp [Value.coerceFromData, hd', Value.matchesName]

/-- Non-vacuity: the cursor just after `INPUT` in `PRINT : INPUT X`. -/
example : findInputBefore (F := Unit) [.kw .Print, .kw .Colon, .kw .Input, .symbol ['X']] 3 = some 2 := by decide

end Abasic.Props.C08
