import Abasic.Interp
import Abasic.Proofs.CursorLemmas
/-
  C08 — INPUT suspends and resumes without disturbing the rest of the program.
-/
namespace Abasic.Props.C08
open Abasic

variable {F : Type} [NumOps F]

omit [NumOps F] in
/-- Searching backwards from just after an INPUT token finds that token. -/
theorem find_input (ts : List (Token F)) (i : Nat) (t : Token F) (h : ts[i]? = some t)
    (hk : t.isKw .Input = true) : findInputBefore ts (i + 1) = some i := by
  simp [findInputBefore, h, hk]

/-- Reaching INPUT with no pending reply: the interpreter awaits input with the
    cursor back ON the INPUT token; nothing else changes (the read counter aside). -/
theorem input_suspend (ev : Evals F) (σ : St F) (ts : List (Token F)) (i : Nat) (t : Token F)
    (hin : σ.input = none)
    (hts : tokens σ = .ok ts σ)
    (hidx : σ.loc.idx = i + 1) (ht : ts[i]? = some t) (hk : t.isKw .Input = true) :
    inputStatement ev σ =
      .ok () { σ with loc := { σ.loc with idx := i }, state := .awaitingInput, reads := σ.reads + 1 } := by
  have hf := find_input ts i t ht hk
  simp [inputStatement, takeInput, bind, M.bindM, M.get, hin, pure, M.pureM, rewindAndAwaitInput,
    rewindBeforeInput, hts, hidx, hf, M.set, M.modify]

/-- The reply is read as DATA items: the first one and whether anything is left over. -/
theorem reply_parse (σ : St F) (text : Str) (h : σ.input = some text) :
    takeInput σ = .ok (some ((parseData (F := F) text).1, decide ((parseData (F := F) text).2 < len8 text)))
      { σ with input := none } := by
  simp [takeInput, bind, M.bindM, M.get, h, M.set, pure, M.pureM]

/-- Text offered to a numeric variable is a DATA TYPE MISMATCH of the coercion,
    which INPUT turns into REENTER (never into an error). -/
theorem text_to_numeric (name : Str) (s : Str) (h : endsWithDollar name = false) :
    Value.coerceFromData (F := F) name (.str s) = .error .dataTypeMismatch := by
  simp [Value.coerceFromData, h]

/-- A numeric item suits a numeric variable, any item suits a string variable. -/
theorem item_suits (name : Str) (e : DataElement F) (h : endsWithDollar name = true ∨ ∃ x, e = .num x) :
    ∃ v, Value.coerceFromData name e = .ok v ∧ v.matchesName name = true := by
  rcases h with h | ⟨x, rfl⟩
  · cases e <;> simp [Value.coerceFromData, h, Value.matchesName]
  · by_cases hd : endsWithDollar name = true
    · simp [Value.coerceFromData, hd, Value.matchesName]
    · have hd' : endsWithDollar name = false := by simpa using hd
      simp [Value.coerceFromData, hd', Value.matchesName]

/-! ### the resumed turn -/

omit [NumOps F] in
/-- The current line's tokens do not depend on the pending reply, the cursor
    index, the read counter or the output queue. -/
theorem tokens_stable (σ σ' : St F) (ts : List (Token F)) (h : tokens σ = .ok ts σ)
    (hl : σ'.lines = σ.lines) (hi : σ'.imm = σ.imm) (hloc : σ'.loc.line = σ.loc.line) :
    tokens σ' = .ok ts σ' := Proofs.Cursor.tokens_congr σ σ' ts h hl hi hloc

/-- A successful coercion produces a value of the variable's type. -/
theorem coerce_matches (name : Str) (e : DataElement F) (v : Value F)
    (h : Value.coerceFromData name e = .ok v) : v.matchesName name = true := by
  unfold Value.coerceFromData at h
  by_cases hd : endsWithDollar name = true
  · rw [if_pos hd] at h
    cases e <;> (simp only [Except.ok.injEq] at h; subst h; simp [Value.matchesName, hd])
  · rw [if_neg hd] at h
    cases e with
    | str s => cases h
    | num x => simp only [Except.ok.injEq] at h; subst h; simpa [Value.matchesName] using hd

/-- `parse_lvalue` on a scalar target: the symbol is consumed, one look-ahead
    read sees that no `(` follows. -/
theorem parseLValue_scalar (ev : Evals F) (σ : St F) (ts : List (Token F)) (name : Str)
    (hts : tokens σ = .ok ts σ)
    (hsym : ts[σ.loc.idx]? = some (.symbol name))
    (hnp : ts[σ.loc.idx + 1]? ≠ some (.kw .LeftParen)) :
    parseLValue ev σ =
      .ok { name := name, index := none }
        { σ with loc := { σ.loc with idx := σ.loc.idx + 1 }, reads := σ.reads + 2 } := by
  have h1 := Proofs.Cursor.next_some σ ts _ hts hsym
  have hts' : tokens ({ σ with reads := σ.reads + 1, loc := { σ.loc with idx := σ.loc.idx + 1 } } : St F) =
      .ok ts { σ with reads := σ.reads + 1, loc := { σ.loc with idx := σ.loc.idx + 1 } } :=
    Proofs.Cursor.tokens_congr σ _ ts hts rfl rfl rfl
  have h2 := Proofs.Cursor.peekIsKw_false _ ts .LeftParen hts' (by
    intro t hq
    cases t with
    | kw k => cases k <;> first | rfl | (exfalso; exact hnp hq)
    | _ => rfl)
  simp only [parseLValue, bind, M.bindM, h1, optionalArrayIndex, h2, pure, M.pureM]
  rfl

/-- **input_resume_scalar.**  The resumed INPUT turn with a reply whose first
    item suits the (scalar) target: the turn is exactly the assignment of the
    coerced value, plus `?EXTRA IGNORED` precisely when the reply held more
    than one item or text after the terminating colon. -/
theorem input_resume_scalar (ev : Evals F) (σ : St F) (ts : List (Token F)) (text name : Str)
    (first : DataElement F) (rest : List (DataElement F)) (n : Nat) (v : Value F)
    (hin : σ.input = some text)
    (hts : tokens σ = .ok ts σ)
    (hsym : ts[σ.loc.idx]? = some (.symbol name))
    (hnp : ts[σ.loc.idx + 1]? ≠ some (.kw .LeftParen))
    (hpd : parseData (F := F) text = (first :: rest, n))
    (hco : Value.coerceFromData name first = .ok v) :
    inputStatement ev σ =
      .ok () { σ with input := none, loc := { σ.loc with idx := σ.loc.idx + 1 }, vars := alSet name v σ.vars, reads := σ.reads + 2, out := if (!rest.isEmpty || decide (n < len8 text)) = true then .extraIgnored :: σ.out else σ.out } := by
  have hm := coerce_matches name first v hco
  have htk := reply_parse σ text hin
  rw [hpd] at htk
  have hts' : tokens ({ σ with input := none } : St F) = .ok ts { σ with input := none } :=
    Proofs.Cursor.tokens_congr σ _ ts hts rfl rfl rfl
  have hlv := parseLValue_scalar ev ({ σ with input := none } : St F) ts name hts' hsym hnp
  simp only [inputStatement, bind, M.bindM, htk, hlv, hco, assignValue, setVar, hm, if_true, M.modify]
  by_cases hx : (!rest.isEmpty || decide (n < len8 text)) = true
  · rw [if_pos hx, if_pos hx]; rfl
  · rw [if_neg hx, if_neg hx]; rfl

omit [NumOps F] in
/-- Searching backwards from two tokens after an INPUT token, the token in
    between not being INPUT, finds that INPUT token. -/
theorem find_input_skip (ts : List (Token F)) (i : Nat) (t u : Token F) (h : ts[i]? = some t)
    (hk : t.isKw .Input = true) (hu : ts[i + 1]? = some u) (huk : u.isKw .Input = false) :
    findInputBefore ts (i + 2) = some i := by
  simp [findInputBefore, h, hk, hu, huk]

/-- **input_reenter_scalar.**  The resumed INPUT turn with a reply whose first
    item does not suit the (scalar, numeric) target: `?REENTER` is emitted, the
    reply is consumed, the interpreter awaits input again with the cursor back
    ON the INPUT token; variables, arrays, stack, loops (indeed everything
    else but the read counter) are untouched. -/
theorem input_reenter_scalar (ev : Evals F) (σ : St F) (ts : List (Token F)) (text name : Str)
    (first : DataElement F) (rest : List (DataElement F)) (n : Nat)
    (hin : σ.input = some text)
    (hts : tokens σ = .ok ts σ)
    (hidx : σ.loc.idx ≥ 1)
    (hinp : ts[σ.loc.idx - 1]? = some (.kw .Input))
    (hsym : ts[σ.loc.idx]? = some (.symbol name))
    (hnp : ts[σ.loc.idx + 1]? ≠ some (.kw .LeftParen))
    (hpd : parseData (F := F) text = (first :: rest, n))
    (hco : Value.coerceFromData name first = .error .dataTypeMismatch) :
    inputStatement ev σ =
      .ok () { σ with input := none, loc := { σ.loc with idx := σ.loc.idx - 1 }, state := .awaitingInput, out := .reenter :: σ.out, reads := σ.reads + 4 } := by
  obtain ⟨i, hi⟩ : ∃ i, σ.loc.idx = i + 1 := ⟨σ.loc.idx - 1, by omega⟩
  rw [hi] at hsym hnp hinp
  simp only [Nat.add_sub_cancel] at hinp
  have htk := reply_parse σ text hin
  rw [hpd] at htk
  have hts' : tokens ({ σ with input := none } : St F) = .ok ts { σ with input := none } :=
    Proofs.Cursor.tokens_congr σ _ ts hts rfl rfl rfl
  have hlv := parseLValue_scalar ev ({ σ with input := none } : St F) ts name hts'
    (by simpa [hi] using hsym) (by simpa [hi] using hnp)
  have hf : findInputBefore ts (i + 2) = some i :=
    find_input_skip ts i _ _ hinp (by simp [Token.isKw]) hsym (by simp [Token.isKw])
  have hts'' : ∀ s : St F, s.lines = σ.lines → s.imm = σ.imm → s.loc.line = σ.loc.line →
      tokens s = .ok ts s := fun s a b c => Proofs.Cursor.tokens_congr σ s ts hts a b c
  simp only [inputStatement, bind, M.bindM, htk, hlv, hco, emit, M.modify, rewindAndAwaitInput,
    rewindBeforeInput, M.get]
  have hts2 := hts'' { σ with input := none, loc := { σ.loc with idx := σ.loc.idx + 1 }, reads := σ.reads + 2, out := .reenter :: σ.out } rfl rfl rfl
  simp only [hts2]
  simp only [hi, hf, M.set, Nat.add_sub_cancel]
  congr 1
  have : i + 1 + 1 - i = 2 := by omega
  simp only [this]

/-- **reply_roundtrip.**  The text handed to `provide_input` is exactly what the
    resumed INPUT statement parses: `takeInput` after `provideInput text`
    yields the DATA parse of `text` (and whether bytes were left over), and
    consumes the reply. -/
theorem reply_roundtrip (σ : St F) (text : Str) (h : σ.state = .awaitingInput) :
    (do provideInput text; takeInput) σ =
      .ok (some ((parseData (F := F) text).1, decide ((parseData (F := F) text).2 < len8 text)))
        { σ with input := none, state := .running } := by
  have hp : provideInput text σ = .ok () { σ with input := some text, state := .running } := by
    simp [provideInput, bind, M.bindM, M.get, h, M.set]
  simp only [bind, M.bindM, hp]
  exact reply_parse _ text rfl

/-- Non-vacuity of `input_reenter_scalar`'s cursor hypotheses: `10 INPUT X`
    resumed with the cursor just after INPUT. -/
example : let ts : List (Token Unit) := [.kw .Input, .symbol ['X']]
    ts[1 - 1]? = some (.kw .Input) ∧ ts[1]? = some (.symbol ['X']) ∧ ts[1 + 1]? ≠ some (.kw .LeftParen) := by
  exact ⟨rfl, rfl, by simp⟩

/-- Non-vacuity: the cursor just after `INPUT` in `PRINT : INPUT X`. -/
example : findInputBefore (F := Unit) [.kw .Print, .kw .Colon, .kw .Input, .symbol ['X']] 3 = some 2 := by decide

end Abasic.Props.C08
