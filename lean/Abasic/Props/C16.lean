import Abasic.Interp
/-
  C16 — runtime state stays within its caps and obeys name-suffix typing.

  Proved here, for every state: each operation that can grow the subroutine
  stack, the loop stack or the array table either respects the cap / typing
  invariant or fails with OUT OF MEMORY leaving that structure untouched.
  These are the ONLY places in the model where those structures grow
  (`gosubLine`, `pushFunctionCall`, `startLoop`, `ArrayV.create`, `setVar`,
  `arraySet`, `bindArgs`).  The lift to every reachable state of every session
  (an induction over the whole evaluator) is listed as open.
-/
namespace Abasic.Props.C16
open Abasic

variable {F : Type} [NumOps F]

theorem caps : Extracted.stackLimit = 32 ∧ Extracted.maxDimTotalElements = 10000 ∧
    Extracted.defaultArraySize = 10 := by decide

omit [NumOps F] in
/-- GOSUB: the frame cap is respected; at the cap it is OUT OF MEMORY and the stack is untouched. -/
theorem gosub_cap (n : Nat) (σ : St F) (h : σ.stack.length ≤ Extracted.stackLimit) :
    (∀ σ', gosubLine n σ = .ok () σ' → σ'.stack.length ≤ Extracted.stackLimit) ∧
    (∀ e σ', gosubLine n σ = .err e σ' → σ'.stack = σ.stack) ∧
    (σ.stack.length = Extracted.stackLimit → gosubLine n σ = .err { err := .oomStack } σ) := by
  by_cases hcap : σ.stack.length = Extracted.stackLimit
  · have : gosubLine n σ = .err { err := .oomStack } σ := by
      simp [gosubLine, bind, M.bindM, M.get, hcap, M.fail]
    refine ⟨?_, ?_, fun _ => this⟩
    · intro σ' h'; rw [this] at h'; simp at h'
    · intro e σ' h'; rw [this] at h'; simp only [Res.err.injEq] at h'; rw [← h'.2]
  · have hb : (σ.stack.length == Extracted.stackLimit) = false := by simpa using hcap
    have hlt : σ.stack.length < Extracted.stackLimit := Nat.lt_of_le_of_ne h hcap
    by_cases hl : σ.lines.has n = true
    · have : gosubLine n σ =
          .ok () { σ with bp := none, loc := { line := some n, idx := 0 }, stack := { ret := σ.loc, vars := [] } :: σ.stack } := by
        simp [gosubLine, gotoLine, bind, M.bindM, M.get, hb, M.modify, hl, M.set]
      refine ⟨?_, ?_, fun h' => absurd h' hcap⟩
      · intro σ' h'; rw [this] at h'; simp only [Res.ok.injEq, true_and] at h'; rw [← h']; simp; omega
      · intro e σ' h'; rw [this] at h'; simp at h'
    · have hl' : σ.lines.has n = false := by simpa using hl
      have : gosubLine n σ = .err { err := .undefinedStatement } { σ with bp := none } := by
        simp [gosubLine, gotoLine, bind, M.bindM, M.get, hb, M.modify, hl', M.fail]
      refine ⟨?_, ?_, fun h' => absurd h' hcap⟩
      · intro σ' h'; rw [this] at h'; simp at h'
      · intro e σ' h'; rw [this] at h'; simp only [Res.err.injEq] at h'; rw [← h'.2]

omit [NumOps F] in
/-- User-function calls share the same stack and the same cap. -/
theorem call_cap (name : Str) (b : List (Str × Value F)) (σ : St F) (h : σ.stack.length ≤ Extracted.stackLimit) :
    (∀ σ', pushFunctionCall name b σ = .ok () σ' → σ'.stack.length ≤ Extracted.stackLimit) ∧
    (σ.stack.length = Extracted.stackLimit → pushFunctionCall name b σ = .err { err := .oomStack } σ) := by
  by_cases hcap : σ.stack.length = Extracted.stackLimit
  · have : pushFunctionCall name b σ = .err { err := .oomStack } σ := by
      simp [pushFunctionCall, bind, M.bindM, M.get, hcap, M.fail]
    exact ⟨fun σ' h' => by rw [this] at h'; simp at h', fun _ => this⟩
  · have hb : (σ.stack.length == Extracted.stackLimit) = false := by simpa using hcap
    have hlt : σ.stack.length < Extracted.stackLimit := Nat.lt_of_le_of_ne h hcap
    refine ⟨?_, fun h' => absurd h' hcap⟩
    intro σ' h'
    cases hf : alGet name σ.fns with
    | none => simp [pushFunctionCall, bind, M.bindM, M.get, hb, hf, M.rpanic] at h'
    | some d =>
      simp [pushFunctionCall, bind, M.bindM, M.get, hb, hf, M.set] at h'
      rw [← h']; simp; omega

/-- product of the dimension sizes -/
def prod : List Nat → Nat
  | [] => 1
  | d :: ds => d * prod ds

omit [NumOps F] in
theorem dimSizes_spec (idx : List Nat) (total : Nat) (acc : List Nat) (dims : List Nat) (t : Nat)
    (h : dimSizes idx total acc = .ok (dims, t)) (hacc : total = prod acc.reverse) :
    t = prod dims := by
  induction idx generalizing total acc with
  | nil =>
    simp [dimSizes] at h
    rw [← h.1, ← h.2]; exact hacc
  | cons m rest ih =>
    simp only [dimSizes] at h
    split at h
    · simp at h
    · split at h
      · simp at h
      · apply ih _ _ h
        simp only [List.reverse_cons]
        have : ∀ (l : List Nat) (x : Nat), prod (l ++ [x]) = prod l * x := by
          intro l x; induction l with
          | nil => simp [prod]
          | cons y ys ihy => simp [prod, ihy, Nat.mul_assoc]
        rw [this, hacc]

def isStr : ArrayV F → Bool
  | .strs _ _ => true
  | .nums _ _ => false

/-- DIM / implicit creation: an array that gets created has exactly
    `∏ dims` cells, at most 10000, and the kind its name's suffix demands. -/
theorem create_spec (name : Str) (idx : List Nat) (a : ArrayV F) (h : ArrayV.create name idx = .ok a) :
    a.cellCount = prod a.dims ∧ a.cellCount ≤ Extracted.maxDimTotalElements ∧
    isStr a = endsWithDollar name := by
  unfold ArrayV.create at h
  by_cases he : idx.isEmpty = true
  · simp [he] at h
  · simp only [he, Bool.false_eq_true, ↓reduceIte] at h
    cases hd : dimSizes idx 1 [] with
    | error e => simp [hd] at h
    | ok p =>
      obtain ⟨dims, total⟩ := p
      have hprod := dimSizes_spec idx 1 [] dims total hd (by simp [prod])
      simp only [hd] at h
      by_cases hgt : total > Extracted.maxDimTotalElements
      · simp [hgt] at h
      · have hle : total ≤ Extracted.maxDimTotalElements := by omega
        simp only [hgt, ↓reduceIte] at h
        by_cases hs : endsWithDollar name = true
        · simp only [hs, ↓reduceIte, Except.ok.injEq] at h
          subst h
          simp [ArrayV.cellCount, ArrayV.dims, isStr, hs, ← hprod, hle]
        · have hs' : endsWithDollar name = false := by simpa using hs
          simp only [hs', Bool.false_eq_true, ↓reduceIte, Except.ok.injEq] at h
          subst h
          simp [ArrayV.cellCount, ArrayV.dims, isStr, hs', ← hprod, hle]

omit [NumOps F] in
/-- Scalars: a value is stored under a name only if its kind matches the suffix. -/
theorem setVar_typed (name : Str) (v : Value F) (σ σ' : St F) (h : setVar name v σ = .ok () σ') :
    v.matchesName name = true ∧ σ'.vars = alSet name v σ.vars := by
  by_cases hm : v.matchesName name = true
  · simp [setVar, hm, M.modify] at h
    exact ⟨hm, by rw [← h]⟩
  · have hm' : v.matchesName name = false := by simpa using hm
    simp [setVar, hm', M.fail] at h

/-- Non-vacuity: the largest array that fits and the smallest that does not. -/
example : (ArrayV.create (F := Unit) ['A'] [99, 99]).toOption.isSome = true ∧
          (ArrayV.create (F := Unit) ['A'] [99, 100]).toOption.isSome = false := by decide

end Abasic.Props.C16
