import Abasic.Interp
/-
  C16 — runtime state stays within its caps and obeys name-suffix typing.

  Proved here, for every state: each operation that can grow the subroutine
  stack, the loop stack or the array table either respects the cap / typing
  invariant or fails with OUT OF MEMORY leaving that structure untouched.
  These are the ONLY places in the model where those structures grow
  (`gosubLine`, `pushFunctionCall`, `startLoop`, `ArrayV.create`, `setVar`,
  `arraySet`, `bindArgs`).  The lift to every reachable state of every session
  (an induction over the whole evaluator) is listed as open.
-/
namespace Abasic.Props.C16
open Abasic

variable {F : Type} [NumOps F]

theorem caps : Extracted.stackLimit = 32 ∧ Extracted.maxDimTotalElements = 10000 ∧
    Extracted.defaultArraySize = 10 := by decide

omit [NumOps F] in
/-- GOSUB: the frame cap is respected; at the cap it is OUT OF MEMORY and the stack is untouched. -/
theorem gosub_cap (n : Nat) (σ : St F) (h : σ.stack.length ≤ Extracted.stackLimit) :
    (∀ σ', gosubLine n σ = .ok () σ' → σ'.stack.length ≤ Extracted.stackLimit) ∧
    (∀ e σ', gosubLine n σ = .err e σ' → σ'.stack = σ.stack) ∧
    (σ.stack.length = Extracted.stackLimit → gosubLine n σ = .err { err := .oomStack } σ) := by
  by_cases hcap : σ.stack.length = Extracted.stackLimit
  · have : gosubLine n σ = .err { err := .oomStack } σ := by
      simp [gosubLine, bind, M.bindM, M.get, hcap, M.fail]
    refine ⟨?_, ?_, fun _ => this⟩
    · intro σ' h'; rw [this] at h'; simp at h'
    · intro e σ' h'; rw [this] at h'; simp only [Res.err.injEq] at h'; rw [← h'.2]
  · have hb : (σ.stack.length == Extracted.stackLimit) = false := by simpa using hcap
    have hlt : σ.stack.length < Extracted.stackLimit := Nat.lt_of_le_of_ne h hcap
    by_cases hl : σ.lines.has n = true
    · have : gosubLine n σ =
          .ok () { σ with bp := none, loc := { line := some n, idx := 0 }, stack := { ret := σ.loc, vars := [] } :: σ.stack } := by
        simp [gosubLine, gotoLine, bind, M.bindM, M.get, hb, M.modify, hl, M.set]
      refine ⟨?_, ?_, fun h' => absurd h' hcap⟩
      · intro σ' h'; rw [this] at h'; simp only [Res.ok.injEq, true_and] at h'; rw [← h']; simp; omega
      · intro e σ' h'; rw [this] at h'; simp at h'
    · have hl' : σ.lines.has n = false := by simpa using hl
      have : gosubLine n σ = .err { err := .undefinedStatement } { σ with bp := none } := by
        simp [gosubLine, gotoLine, bind, M.bindM, M.get, hb, M.modify, hl', M.fail]
      refine ⟨?_, ?_, fun h' => absurd h' hcap⟩
      · intro σ' h'; rw [this] at h'; simp at h'
      · intro e σ' h'; rw [this] at h'; simp only [Res.err.injEq] at h'; rw [← h'.2]

omit [NumOps F] in
/-- User-function calls share the same stack and the same cap. -/
theorem call_cap (name : Str) (b : List (Str × Value F)) (σ : St F) (h : σ.stack.length ≤ Extracted.stackLimit) :
    (∀ σ', pushFunctionCall name b σ = .ok () σ' → σ'.stack.length ≤ Extracted.stackLimit) ∧
    (σ.stack.length = Extracted.stackLimit → pushFunctionCall name b σ = .err { err := .oomStack } σ) := by
  by_cases hcap : σ.stack.length = Extracted.stackLimit
  · have : pushFunctionCall name b σ = .err { err := .oomStack } σ := by
      simp [pushFunctionCall, bind, M.bindM, M.get, hcap, M.fail]
    exact ⟨fun σ' h' => by rw [this] at h'; simp at h', fun _ => this⟩
  · have hb : (σ.stack.length == Extracted.stackLimit) = false := by simpa using hcap
    have hlt : σ.stack.length < Extracted.stackLimit := Nat.lt_of_le_of_ne h hcap
    refine ⟨?_, fun h' => absurd h' hcap⟩
    intro σ' h'
    cases hf : alGet name σ.fns with
    | none => simp [pushFunctionCall, bind, M.bindM, M.get, hb, hf, M.rpanic] at h'
    | some d =>
      simp [pushFunctionCall, bind, M.bindM, M.get, hb, hf, M.set] at h'
      rw [← h']; simp; omega

/-- product of the dimension sizes -/
def prod : List Nat → Nat
  | [] => 1
  | d :: ds => d * prod ds

omit [NumOps F] in
theorem dimSizes_spec (idx : List Nat) (total : Nat) (acc : List Nat) (dims : List Nat) (t : Nat)
    (h : dimSizes idx total acc = .ok (dims, t)) (hacc : total = prod acc.reverse) :
    t = prod dims := by
  induction idx generalizing total acc with
  | nil =>
    simp [dimSizes] at h
    rw [← h.1, ← h.2]; exact hacc
  | cons m rest ih =>
    simp only [dimSizes] at h
    split at h
    · simp at h
    · split at h
      · simp at h
      · apply ih _ _ h
        simp only [List.reverse_cons]
        have : ∀ (l : List Nat) (x : Nat), prod (l ++ [x]) = prod l * x := by
          intro l x; induction l with
          | nil => simp [prod]
          | cons y ys ihy => simp [prod, ihy, Nat.mul_assoc]
        rw [this, hacc]

def isStr : ArrayV F → Bool
  | .strs _ _ => true
  | .nums _ _ => false

/-- DIM / implicit creation: an array that gets created has exactly
    `∏ dims` cells, at most 10000, and the kind its name's suffix demands. -/
theorem create_spec (name : Str) (idx : List Nat) (a : ArrayV F) (h : ArrayV.create name idx = .ok a) :
    a.cellCount = prod a.dims ∧ a.cellCount ≤ Extracted.maxDimTotalElements ∧
    isStr a = endsWithDollar name := by
  unfold ArrayV.create at h
  by_cases he : idx.isEmpty = true
  · simp [he] at h
  · simp only [he, Bool.false_eq_true, ↓reduceIte] at h
    cases hd : dimSizes idx 1 [] with
    | error e => simp [hd] at h
    | ok p =>
      obtain ⟨dims, total⟩ := p
      have hprod := dimSizes_spec idx 1 [] dims total hd (by simp [prod])
      simp only [hd] at h
      by_cases hgt : total > Extracted.maxDimTotalElements
      · simp [hgt] at h
      · have hle : total ≤ Extracted.maxDimTotalElements := by omega
        simp only [hgt, ↓reduceIte] at h
        by_cases hs : endsWithDollar name = true
        · simp only [hs, ↓reduceIte, Except.ok.injEq] at h
          subst h
          simp [ArrayV.cellCount, ArrayV.dims, isStr, hs, ← hprod, hle]
        · have hs' : endsWithDollar name = false := by simpa using hs
          simp only [hs', Bool.false_eq_true, ↓reduceIte, Except.ok.injEq] at h
          subst h
          simp [ArrayV.cellCount, ArrayV.dims, isStr, hs', ← hprod, hle]

omit [NumOps F] in
/-- Scalars: a value is stored under a name only if its kind matches the suffix. -/
theorem setVar_typed (name : Str) (v : Value F) (σ σ' : St F) (h : setVar name v σ = .ok () σ') :
    v.matchesName name = true ∧ σ'.vars = alSet name v σ.vars := by
  by_cases hm : v.matchesName name = true
  · simp [setVar, hm, M.modify] at h
    exact ⟨hm, by rw [← h]⟩
  · have hm' : v.matchesName name = false := by simpa using hm
    simp [setVar, hm', M.fail] at h

/-! ### the loop stack: FOR / NEXT -/

/-- the variable names of the open loops, most recent first -/
def loopNames (l : List (LoopInfo F)) : List Str := l.map (·.sym)

omit [NumOps F] in
theorem removeLoop_some (sym : Str) (l : List (LoopInfo F)) (info : LoopInfo F) (rest : List (LoopInfo F))
    (h : removeLoop sym l = some (info, rest)) :
    info.sym = sym ∧ ∃ inner, l = inner ++ info :: rest ∧ ∀ x ∈ inner, x.sym ≠ sym := by
  induction l with
  | nil => simp [removeLoop] at h
  | cons x xs ih =>
    simp only [removeLoop] at h
    by_cases hx : x.sym = sym
    · simp only [hx, beq_self_eq_true, ↓reduceIte, Option.some.injEq, Prod.mk.injEq] at h
      obtain ⟨h1, h2⟩ := h
      subst h1 h2
      exact ⟨hx, [], by simp, by simp⟩
    · have hb : (x.sym == sym) = false := by simpa using hx
      simp only [hb, Bool.false_eq_true, ↓reduceIte] at h
      obtain ⟨h1, inner, h2, h3⟩ := ih h
      refine ⟨h1, x :: inner, by simp [h2], ?_⟩
      intro y hy
      rcases List.mem_cons.mp hy with rfl | hy
      · exact hx
      · exact h3 y hy

omit [NumOps F] in
theorem removeLoop_none (sym : Str) (l : List (LoopInfo F)) :
    removeLoop sym l = none ↔ sym ∉ loopNames l := by
  induction l with
  | nil => simp [removeLoop, loopNames]
  | cons x xs ih =>
    simp only [removeLoop, loopNames, List.map_cons, List.mem_cons, not_or]
    by_cases hx : x.sym = sym
    · simp [hx]
    · have hb : (x.sym == sym) = false := by simpa using hx
      simp only [hb, Bool.false_eq_true, ↓reduceIte]
      rw [ih]
      exact ⟨fun h => ⟨fun e => hx e.symm, h⟩, fun h => h.2⟩

omit [NumOps F] in
/-- `remove_loop_with_name` finds the most recent loop for `sym` and drops it
    together with everything opened after it; it finds nothing exactly when no
    open loop has that name. -/
theorem removeLoop_spec (sym : Str) (l : List (LoopInfo F)) :
    (∀ info rest, removeLoop sym l = some (info, rest) →
      info.sym = sym ∧ ∃ inner, l = inner ++ info :: rest ∧ ∀ x ∈ inner, x.sym ≠ sym) ∧
    (removeLoop sym l = none ↔ sym ∉ loopNames l) :=
  ⟨removeLoop_some sym l, removeLoop_none sym l⟩

omit [NumOps F] in
theorem removeLoop_length_lt (sym : Str) (l : List (LoopInfo F)) (info : LoopInfo F) (rest : List (LoopInfo F))
    (h : removeLoop sym l = some (info, rest)) : rest.length < l.length := by
  obtain ⟨_, inner, hl, _⟩ := removeLoop_some sym l info rest h
  rw [hl]; simp; omega

omit [NumOps F] in
theorem removeLoop_nodup (sym : Str) (l : List (LoopInfo F)) (info : LoopInfo F) (rest : List (LoopInfo F))
    (h : removeLoop sym l = some (info, rest)) (hn : (loopNames l).Nodup) :
    (loopNames rest).Nodup ∧ sym ∉ loopNames rest := by
  obtain ⟨hs, inner, hl, _⟩ := removeLoop_some sym l info rest h
  rw [hl] at hn
  simp only [loopNames, List.map_append, List.map_cons] at hn
  have h2 := (List.nodup_append.mp hn).2.1
  have h3 := List.nodup_cons.mp h2
  rw [hs] at h3
  exact ⟨h3.2, h3.1⟩

omit [NumOps F] in
/-- the loop that was found, put back on what is left: still no duplicates, and not longer -/
theorem removeLoop_reinsert (sym : Str) (l : List (LoopInfo F)) (info : LoopInfo F) (rest : List (LoopInfo F))
    (h : removeLoop sym l = some (info, rest)) :
    (info :: rest).length ≤ l.length ∧ ((loopNames l).Nodup → (loopNames (info :: rest)).Nodup) := by
  obtain ⟨_, inner, hl, _⟩ := removeLoop_some sym l info rest h
  constructor
  · rw [hl]; simp
  · intro hn
    rw [hl] at hn
    simp only [loopNames, List.map_append] at hn
    exact (List.nodup_append.mp hn).2.1

/-- what `startLoop` leaves of the loop stack before pushing -/
def afterRemove (sym : Str) (l : List (LoopInfo F)) : List (LoopInfo F) :=
  match removeLoop sym l with
  | some (_, rest) => rest
  | none => l

omit [NumOps F] in
theorem afterRemove_spec (sym : Str) (l : List (LoopInfo F)) (hn : (loopNames l).Nodup) :
    (afterRemove sym l).length ≤ l.length ∧ (loopNames (afterRemove sym l)).Nodup ∧
    sym ∉ loopNames (afterRemove sym l) ∧
    (sym ∈ loopNames l → (afterRemove sym l).length < l.length) ∧
    (sym ∉ loopNames l → afterRemove sym l = l) := by
  unfold afterRemove
  cases h : removeLoop sym l with
  | none =>
    have hnot := (removeLoop_none sym l).mp h
    exact ⟨Nat.le_refl _, hn, hnot, fun hin => absurd hin hnot, fun _ => rfl⟩
  | some p =>
    obtain ⟨info, rest⟩ := p
    have hlt := removeLoop_length_lt sym l info rest h
    have hnd := removeLoop_nodup sym l info rest h hn
    refine ⟨Nat.le_of_lt hlt, hnd.1, hnd.2, fun _ => hlt, fun hnot => ?_⟩
    have := (removeLoop_none sym l).mpr hnot
    rw [h] at this; simp at this

omit [NumOps F] in
/-- `start_loop`, computed: the three possible outcomes. -/
theorem startLoop_eq (sym : Str) (a b c : F) (σ : St F) :
    startLoop sym a b c σ =
      if (afterRemove sym σ.loops).length = Extracted.stackLimit then
        .err { err := .oomStack } { σ with loops := afterRemove sym σ.loops }
      else if (Value.num a : Value F).matchesName sym = true then
        .ok () { σ with loops := { loc := σ.loc, sym := sym, toV := b, stepV := c } :: afterRemove sym σ.loops,
                        vars := alSet sym (.num a) σ.vars }
      else
        .err { err := .typeMismatch }
          { σ with loops := { loc := σ.loc, sym := sym, toV := b, stepV := c } :: afterRemove sym σ.loops } := by
  unfold afterRemove
  cases h : removeLoop sym σ.loops with
  | none =>
    by_cases hcap : σ.loops.length = Extracted.stackLimit
    · simp [startLoop, bind, M.bindM, M.modify, M.get, h, hcap, M.fail]
    · have hb : (σ.loops.length == Extracted.stackLimit) = false := by simpa using hcap
      by_cases hm : (Value.num a : Value F).matchesName sym = true
      · simp [startLoop, setVar, bind, M.bindM, M.modify, M.get, M.set, h, hcap, hb, hm]
      · have hm' : (Value.num a : Value F).matchesName sym = false := by simpa using hm
        simp [startLoop, setVar, bind, M.bindM, M.modify, M.get, M.set, M.fail, h, hcap, hb, hm']
  | some p =>
    obtain ⟨info, rest⟩ := p
    by_cases hcap : rest.length = Extracted.stackLimit
    · simp [startLoop, bind, M.bindM, M.modify, M.get, h, hcap, M.fail]
    · have hb : (rest.length == Extracted.stackLimit) = false := by simpa using hcap
      by_cases hm : (Value.num a : Value F).matchesName sym = true
      · simp [startLoop, setVar, bind, M.bindM, M.modify, M.get, M.set, h, hcap, hb, hm]
      · have hm' : (Value.num a : Value F).matchesName sym = false := by simpa using hm
        simp [startLoop, setVar, bind, M.bindM, M.modify, M.get, M.set, M.fail, h, hcap, hb, hm']

omit [NumOps F] in
/-- FOR: the loop-stack cap and the one-loop-per-variable invariant are kept by
    every outcome; a new variable at the cap is OUT OF MEMORY with the state
    untouched; re-entering a FOR for an open variable never grows the stack. -/
theorem for_cap (sym : Str) (a b c : F) (σ : St F)
    (h : σ.loops.length ≤ Extracted.stackLimit) (hn : (loopNames σ.loops).Nodup) :
    (∀ σ', startLoop sym a b c σ = .ok () σ' →
      σ'.loops.length ≤ Extracted.stackLimit ∧ (loopNames σ'.loops).Nodup) ∧
    (∀ e σ', startLoop sym a b c σ = .err e σ' →
      σ'.loops.length ≤ Extracted.stackLimit ∧ (loopNames σ'.loops).Nodup) ∧
    (sym ∉ loopNames σ.loops → σ.loops.length = Extracted.stackLimit →
      startLoop sym a b c σ = .err { err := .oomStack } σ) ∧
    (∀ σ', sym ∈ loopNames σ.loops → startLoop sym a b c σ = .ok () σ' →
      σ'.loops.length ≤ σ.loops.length) := by
  obtain ⟨hle, hnd, hnot, hlt, hsame⟩ := afterRemove_spec sym σ.loops hn
  have hpush : (afterRemove sym σ.loops).length ≠ Extracted.stackLimit →
      (({ loc := σ.loc, sym := sym, toV := b, stepV := c } : LoopInfo F) :: afterRemove sym σ.loops).length
          ≤ Extracted.stackLimit ∧
      (loopNames (({ loc := σ.loc, sym := sym, toV := b, stepV := c } : LoopInfo F) :: afterRemove sym σ.loops)).Nodup := by
    intro hne
    constructor
    · simp only [List.length_cons]; omega
    · simp only [loopNames, List.map_cons]
      exact List.nodup_cons.mpr ⟨hnot, hnd⟩
  rw [startLoop_eq]
  refine ⟨?_, ?_, ?_, ?_⟩
  · intro σ' h'
    by_cases hcap : (afterRemove sym σ.loops).length = Extracted.stackLimit
    · simp [hcap] at h'
    · by_cases hm : (Value.num a : Value F).matchesName sym = true
      · simp only [hcap, hm, ↓reduceIte, Res.ok.injEq, true_and] at h'
        rw [← h']; exact hpush hcap
      · simp [hcap, hm] at h'
  · intro e σ' h'
    by_cases hcap : (afterRemove sym σ.loops).length = Extracted.stackLimit
    · simp only [hcap, ↓reduceIte, Res.err.injEq] at h'
      rw [← h'.2]; exact ⟨by simpa using Nat.le_of_eq hcap, hnd⟩
    · by_cases hm : (Value.num a : Value F).matchesName sym = true
      · simp [hcap, hm] at h'
      · have hm' : (Value.num a : Value F).matchesName sym = false := by simpa using hm
        simp only [hcap, hm', Bool.false_eq_true, ↓reduceIte, Res.err.injEq] at h'
        rw [← h'.2]; exact hpush hcap
  · intro hni hcap
    rw [hsame hni]
    simp [hcap]
  · intro σ' hin h'
    have := hlt hin
    by_cases hcap : (afterRemove sym σ.loops).length = Extracted.stackLimit
    · simp [hcap] at h'
    · by_cases hm : (Value.num a : Value F).matchesName sym = true
      · simp only [hcap, hm, ↓reduceIte, Res.ok.injEq, true_and] at h'
        rw [← h']; simp only [List.length_cons]; omega
      · simp [hcap, hm] at h'

/-- `end_loop`: whatever happens, the loop stack of the resulting state is the
    old one, or what `removeLoop` left, with or without the loop it found. -/
theorem endLoop_loops (sym : Str) (σ : St F) :
    (∀ σ', endLoop sym σ = .ok () σ' →
      σ'.loops = σ.loops ∨ ∃ info rest, removeLoop sym σ.loops = some (info, rest) ∧
        (σ'.loops = info :: rest ∨ σ'.loops = rest)) ∧
    (∀ e σ', endLoop sym σ = .err e σ' →
      σ'.loops = σ.loops ∨ ∃ info rest, removeLoop sym σ.loops = some (info, rest) ∧
        (σ'.loops = info :: rest ∨ σ'.loops = rest)) := by
  cases hv : getVar σ sym with
  | str s =>
    have : endLoop sym σ = .err { err := .typeMismatch } σ := by
      simp [endLoop, bind, M.bindM, M.get, hv, M.fail]
    rw [this]
    exact ⟨fun σ' h' => by simp at h', fun e σ' h' => by simp only [Res.err.injEq] at h'; rw [← h'.2]; exact .inl rfl⟩
  | num cur =>
    cases hr : removeLoop sym σ.loops with
    | none =>
      have : endLoop sym σ = .err { err := .nextWithoutFor } σ := by
        simp [endLoop, bind, M.bindM, M.get, hv, hr, M.fail]
      rw [this]
      exact ⟨fun σ' h' => by simp at h', fun e σ' h' => by simp only [Res.err.injEq] at h'; rw [← h'.2]; exact .inl rfl⟩
    | some p =>
      obtain ⟨info, rest⟩ := p
      constructor
      · intro σ' h'
        refine .inr ⟨info, rest, rfl, ?_⟩
        by_cases hm : (Value.num (NumOps.add cur info.stepV) : Value F).matchesName sym = true
        · by_cases hc : (if NumOps.ge info.stepV NumOps.zero then NumOps.le (NumOps.add cur info.stepV) info.toV
              else NumOps.ge (NumOps.add cur info.stepV) info.toV) = true
          · simp [endLoop, setVar, bind, M.bindM, M.get, hv, hr, M.set, M.modify, hc, hm] at h'
            rw [← h']; exact .inl rfl
          · simp [endLoop, setVar, bind, M.bindM, M.get, hv, hr, M.set, M.modify, hc, hm] at h'
            rw [← h']; exact .inr rfl
        · by_cases hc : (if NumOps.ge info.stepV NumOps.zero then NumOps.le (NumOps.add cur info.stepV) info.toV
              else NumOps.ge (NumOps.add cur info.stepV) info.toV) = true
          · simp [endLoop, setVar, bind, M.bindM, M.get, hv, hr, M.set, M.fail, hc, hm] at h'
          · simp [endLoop, setVar, bind, M.bindM, M.get, hv, hr, M.set, M.fail, hc, hm] at h'
      · intro e σ' h'
        refine .inr ⟨info, rest, rfl, ?_⟩
        by_cases hm : (Value.num (NumOps.add cur info.stepV) : Value F).matchesName sym = true
        · by_cases hc : (if NumOps.ge info.stepV NumOps.zero then NumOps.le (NumOps.add cur info.stepV) info.toV
              else NumOps.ge (NumOps.add cur info.stepV) info.toV) = true
          · simp [endLoop, setVar, bind, M.bindM, M.get, hv, hr, M.set, M.modify, hc, hm] at h'
          · simp [endLoop, setVar, bind, M.bindM, M.get, hv, hr, M.set, M.modify, hc, hm] at h'
        · by_cases hc : (if NumOps.ge info.stepV NumOps.zero then NumOps.le (NumOps.add cur info.stepV) info.toV
              else NumOps.ge (NumOps.add cur info.stepV) info.toV) = true
          · simp [endLoop, setVar, bind, M.bindM, M.get, hv, hr, M.set, M.fail, hc, hm] at h'
            rw [← h'.2]; exact .inl rfl
          · simp [endLoop, setVar, bind, M.bindM, M.get, hv, hr, M.set, M.fail, hc, hm] at h'
            rw [← h'.2]; exact .inr rfl

omit [NumOps F] in
theorem loops_shrink (sym : Str) (l l' : List (LoopInfo F))
    (h : l' = l ∨ ∃ info rest, removeLoop sym l = some (info, rest) ∧ (l' = info :: rest ∨ l' = rest)) :
    l'.length ≤ l.length ∧ ((loopNames l).Nodup → (loopNames l').Nodup) := by
  rcases h with rfl | ⟨info, rest, hr, h⟩
  · exact ⟨Nat.le_refl _, id⟩
  · rcases h with h | h <;> rw [h]
    · exact removeLoop_reinsert sym l info rest hr
    · exact ⟨Nat.le_of_lt (removeLoop_length_lt sym l info rest hr),
        fun hn => (removeLoop_nodup sym l info rest hr hn).1⟩

/-- NEXT: no outcome grows the loop stack or introduces a duplicate name. -/
theorem next_cap (sym : Str) (σ : St F) :
    (∀ σ', endLoop sym σ = .ok () σ' →
      σ'.loops.length ≤ σ.loops.length ∧ ((loopNames σ.loops).Nodup → (loopNames σ'.loops).Nodup)) ∧
    (∀ e σ', endLoop sym σ = .err e σ' →
      σ'.loops.length ≤ σ.loops.length ∧ ((loopNames σ.loops).Nodup → (loopNames σ'.loops).Nodup)) :=
  ⟨fun σ' h' => loops_shrink sym _ _ ((endLoop_loops sym σ).1 σ' h'),
   fun e σ' h' => loops_shrink sym _ _ ((endLoop_loops sym σ).2 e σ' h')⟩


/-- Non-vacuity: FOR I inside FOR I / FOR J replaces both by the one new loop. -/
example : (match startLoop (F := Unit) ['I'] () () ()
      { loops := [{ loc := {}, sym := ['J'], toV := (), stepV := () }, { loc := {}, sym := ['I'], toV := (), stepV := () }] } with
    | .ok () σ' => loopNames σ'.loops
    | .err _ _ => []) = [['I']] := by decide

/-- Non-vacuity: at the cap a FOR for a new variable is OUT OF MEMORY. -/
example : (match startLoop (F := Unit) ['I'] () () ()
      { loops := List.replicate 32 { loc := {}, sym := ['J'], toV := (), stepV := () } } with
    | .ok () _ => none
    | .err e σ' => some (e.err, σ'.loops.length)) = some (.oomStack, 32) := by decide

/-- Non-vacuity: the largest array that fits and the smallest that does not. -/
example : (ArrayV.create (F := Unit) ['A'] [99, 99]).toOption.isSome = true ∧
          (ArrayV.create (F := Unit) ['A'] [99, 100]).toOption.isSome = false := by decide

end Abasic.Props.C16
