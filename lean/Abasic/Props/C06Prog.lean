import Abasic.Props.C03Prog
import Abasic.Props.C15
import Abasic.Proofs.ProgTyping
import Abasic.Proofs.AnalyzerFrame
/-
  C06 for whole programs: a program of the covered fragment (LET, PRINT, GOTO,
  END, IF/THEN/ELSE, several statements to a line) that the static analyzer
  accepts never fails with a syntax error, a TYPE MISMATCH or a jump to an
  undefined line.

  1. `typeOfP p` — the spec's static check of a program: every statement of every
       line passes `typeOfS` (C06Stmt.lean), GOTO targets looked up in `p` itself
       (`typeOfP_ok_iff`); on failure the first static error and its line.
     `steps_typed` — on the reference machine (Ref/Prog.lean) a checked program
       never stops with anything but DIVISION BY ZERO, and its variables stay
       well-typed (`rstep_typed`: one step; invariant `WellTypedVars`).
  2. `sound_program` — with `C03.run_refines`: for `Fits p fuel`, `Ready p σ` and
       `typeOfP p = ok`, RUN followed by any number of host turns fails, if at
       all, with DIVISION BY ZERO.
  3. `analyze_program` — what the analyzer's statement pass `analyzeProgram` does
       on the stored program (`AStart`: store holds `p`, file map covers the
       stored lines, cursor at the first line): no panic, store / map / nesting
       untouched, and the diagnostics appended are EXACTLY one error diagnostic
       per line with a static error, carrying the first static error of that line
       and located on it (`lineErrs`, `DiagsFor`); `walk_line` is the per-line
       statement (`analyzeStatements` walks `s₀ : s₁ : …`, the colon being a
       statement of its own, and stops at the first failing statement).
     `analyzer_silent_iff` — the pass adds no diagnostic ⇔ `typeOfP p = ok`.
  4. `sound_analyzed_program` — silent statement pass ⇒ the conclusion of 2.
     `sound_analyzed_file` — the same from a source text: a file whose lines are
       numbered and tokenize to the lines of `p` (`C15.GoodFile`), analysed by
       `analyzeFile` without any error diagnostic, turned `intoInterpreter`.
-/
set_option linter.unusedSectionVars false

namespace Abasic.Props.C06
open Abasic Abasic.Ref Abasic.ExprL Abasic.AnaL Abasic.StmtL Abasic.AnaS Abasic.ProgL Abasic.ProgT M
open Abasic.AInv

variable {F : Type} [NumOps F]

/-! ### 1. the spec's static check of a program -/

/-- the statements of line `ln`, in order; the first static error, with the line -/
def typeOfStmts (le : Nat → Bool) (ln : Nat) : List (RStmt F) → Except (Err × Nat) Unit
  | [] => .ok ()
  | s :: rest =>
    match typeOfS s le with
    | .ok _ => typeOfStmts le ln rest
    | .error x => .error (x, ln)

/-- the lines, in order -/
def typeOfLines (le : Nat → Bool) : RProgram F → Except (Err × Nat) Unit
  | [] => .ok ()
  | l :: rest =>
    match typeOfStmts le l.1 l.2 with
    | .ok _ => typeOfLines le rest
    | .error x => .error x

/-- **The static check of a program**: every statement of every line passes
    `typeOfS`, GOTO targets being looked up among the lines of the program
    itself.  On failure: the first static error in program order and its line. -/
def typeOfP (p : RProgram F) : Except (Err × Nat) Unit := typeOfLines p.hasLine p

theorem typeOfStmts_ok_iff (le : Nat → Bool) (ln : Nat) (ss : List (RStmt F)) :
    typeOfStmts le ln ss = .ok () ↔ ∀ s ∈ ss, typeOfS s le = .ok () := by
  induction ss with
  | nil => simp [typeOfStmts]
  | cons s rest ih =>
    cases hs : typeOfS s le with
    | ok u => simp only [typeOfStmts, hs, ih, List.mem_cons, forall_eq_or_imp, true_and]
    | error x => simp [typeOfStmts, hs]

theorem typeOfLines_ok_iff (le : Nat → Bool) (p : RProgram F) :
    typeOfLines le p = .ok () ↔ ∀ l ∈ p, ∀ s ∈ l.2, typeOfS s le = .ok () := by
  induction p with
  | nil => simp [typeOfLines]
  | cons l rest ih =>
    cases hs : typeOfStmts le l.1 l.2 with
    | ok u =>
      have := (typeOfStmts_ok_iff le l.1 l.2).1 hs
      simp only [typeOfLines, hs, ih, List.mem_cons, forall_eq_or_imp]
      exact ⟨fun h => ⟨this, h⟩, fun h => h.2⟩
    | error x =>
      have : ¬ ∀ s ∈ l.2, typeOfS s le = .ok () := fun h => by
        rw [(typeOfStmts_ok_iff le l.1 l.2).2 h] at hs; cases hs
      simp [typeOfLines, hs, this]

/-- the check passes iff every statement of every line passes -/
theorem typeOfP_ok_iff (p : RProgram F) :
    typeOfP p = .ok () ↔ ∀ l ∈ p, ∀ s ∈ l.2, typeOfS s p.hasLine = .ok () :=
  typeOfLines_ok_iff p.hasLine p

theorem typeOfStmts_error {le : Nat → Bool} {ln : Nat} {ss : List (RStmt F)} {x : Err} {k : Nat}
    (h : typeOfStmts le ln ss = .error (x, k)) : (x = .typeMismatch ∨ x = .undefinedStatement) ∧ k = ln := by
  induction ss with
  | nil => cases h
  | cons s rest ih =>
    cases hs : typeOfS s le with
    | ok u => simp only [typeOfStmts, hs] at h; exact ih h
    | error y =>
      simp only [typeOfStmts, hs, Except.error.injEq, Prod.mk.injEq] at h
      obtain ⟨rfl, rfl⟩ := h
      exact ⟨typeOfS_error le s y hs, rfl⟩

/-- the static errors of a program: TYPE MISMATCH and UNDEF'D STATEMENT, on one of its lines -/
theorem typeOfP_error (p : RProgram F) {x : Err} {k : Nat} (h : typeOfP p = .error (x, k)) :
    (x = .typeMismatch ∨ x = .undefinedStatement) ∧ k ∈ p.map (·.1) := by
  unfold typeOfP at h
  generalize p.hasLine = le at h
  induction p with
  | nil => cases h
  | cons l rest ih =>
    cases hs : typeOfStmts le l.1 l.2 with
    | ok u =>
      simp only [typeOfLines, hs] at h
      exact ⟨(ih h).1, List.mem_cons_of_mem _ (ih h).2⟩
    | error y =>
      simp only [typeOfLines, hs, Except.error.injEq] at h
      subst h
      obtain ⟨h1, h2⟩ := typeOfStmts_error hs
      exact ⟨h1, by simp [h2]⟩

/-! ### the reference machine on a checked program -/

theorem wellTypedVars_nil : WellTypedVars ([] : List (Str × Value F)) := by
  intro name v h
  cases h

/-- **One reference step of a checked program**: from well-typed variables it
    leaves well-typed variables, and it can stop with DIVISION BY ZERO only —
    not with TYPE MISMATCH, a syntax error or UNDEF'D STATEMENT. -/
theorem rstep_typed {p : RProgram F} (hty : typeOfP p = .ok ()) (r : RState F) (hwt : WellTypedVars r.vars) :
    (∀ r', RStep p r = .inl r' → WellTypedVars r'.vars) ∧
    (∀ e ln, RStep p r = .inr (e, ln) → e = .divisionByZero) := by
  cases hpc : r.pc with
  | none =>
    rw [C03.rstep_ended hpc]
    exact ⟨fun r' h => by cases h; exact hwt, fun e ln h => by cases h⟩
  | some nj =>
    obtain ⟨n, j⟩ := nj
    cases hl : p.line n with
    | none =>
      have : RStep p r = .inl { r with pc := none } := by simp only [RStep, hpc, hl]
      rw [this]
      exact ⟨fun r' h => by cases h; exact hwt, fun e ln h => by cases h⟩
    | some ss =>
      cases hs : ss[j]? with
      | none =>
        have : RStep p r = .inl { r with pc := none } := by simp only [RStep, hpc, hl, hs]
        rw [this]
        exact ⟨fun r' h => by cases h; exact hwt, fun e ln h => by cases h⟩
      | some s =>
        have hsty : typeOfS s p.hasLine = .ok () :=
          (typeOfP_ok_iff p).1 hty _ (line_mem hl) s (List.mem_of_getElem? hs)
        have hok := exec_typed p.hasLine r.vars hwt s hsty
        cases hctl : (RStmt.exec r.vars s).ctl with
        | next =>
          rw [rstep_next hpc hl hs hctl]
          exact ⟨fun r' h => by cases h; exact hok.vars, fun e ln h => by cases h⟩
        | skipLine =>
          rw [rstep_skip hpc hl hs hctl]
          exact ⟨fun r' h => by cases h; exact hok.vars, fun e ln h => by cases h⟩
        | jump m =>
          rw [rstep_jump hpc hl hs hctl (hok.jump m hctl)]
          exact ⟨fun r' h => by cases h; exact hok.vars, fun e ln h => by cases h⟩
        | stop =>
          rw [rstep_stop hpc hl hs hctl]
          exact ⟨fun r' h => by cases h; exact hok.vars, fun e ln h => by cases h⟩
        | error x =>
          rw [rstep_error hpc hl hs hctl]
          refine ⟨fun r' h => (by cases h), fun e ln h => ?_⟩
          simp only [Sum.inr.injEq, Prod.mk.injEq] at h
          rw [← h.1]
          exact hok.err x hctl

theorem rsteps_typed {p : RProgram F} (hty : typeOfP p = .ok ()) :
    ∀ (n : Nat) (r : RState F), WellTypedVars r.vars →
      (∀ r', RSteps p n r = .inl r' → WellTypedVars r'.vars) ∧
      (∀ e ln out, RSteps p n r = .inr (e, ln, out) → e = .divisionByZero)
  | 0, r, hwt => ⟨fun r' h => by cases h; exact hwt, fun e ln out h => by cases h⟩
  | n + 1, r, hwt => by
    obtain ⟨h1, h2⟩ := rstep_typed hty r hwt
    cases hstep : RStep p r with
    | inl r1 =>
      rw [C03.rsteps_ok n hstep]
      exact rsteps_typed hty n r1 (h1 r1 hstep)
    | inr eln =>
      obtain ⟨e, ln⟩ := eln
      rw [C03.rsteps_err n hstep]
      refine ⟨fun r' h => (by cases h), fun e' ln' out h => ?_⟩
      simp only [Sum.inr.injEq, Prod.mk.injEq] at h
      rw [← h.1]
      exact h2 e ln hstep

/-- **`steps_typed`.**  A program that passes the static check `typeOfP` never
    stops, on the reference machine, with TYPE MISMATCH, a syntax error or
    UNDEF'D STATEMENT, however many steps it runs: the only error a run can
    end in is the value-dependent DIVISION BY ZERO; and the variables stay
    well-typed all along. -/
theorem steps_typed (p : RProgram F) (hty : typeOfP p = .ok ()) (n : Nat) :
    (∀ r', RSteps p n p.start = .inl r' → WellTypedVars r'.vars) ∧
    (∀ e ln out, RSteps p n p.start = .inr (e, ln, out) →
      e = .divisionByZero ∧ e ≠ .typeMismatch ∧ (∀ se, e ≠ .syntax se) ∧ e ≠ .undefinedStatement) := by
  obtain ⟨h1, h2⟩ := rsteps_typed hty n p.start wellTypedVars_nil
  refine ⟨h1, fun e ln out h => ?_⟩
  have := h2 e ln out h
  subst this
  exact ⟨rfl, by simp, fun se => by simp, by simp⟩

/-! ### 2. the model on a checked program -/

/-- **`sound_program`.**  Let the program `p` fit the evaluator's resources and
    the covered fragment (`Fits`), let the interpreter be idle with `p` stored,
    flags off (`Ready`), and let `p` pass the static check.  Then no host turn
    of a run — RUN followed by any number `k` of `continueEvaluating` — fails
    with TYPE MISMATCH, a syntax error or UNDEF'D STATEMENT: if the run fails,
    it fails with DIVISION BY ZERO.  A run that has not failed holds well-typed
    variables. -/
theorem sound_program {p : RProgram F} {fuel : Nat} (hfit : Fits p fuel) {σ : St F} (h : C03.Ready p σ)
    (hty : typeOfP p = .ok ()) (k : Nat) :
    (∀ te σ', C03.runTurns fuel k σ = .err te σ' →
      te.err = .divisionByZero ∧ te.err ≠ .typeMismatch ∧ (∀ se, te.err ≠ .syntax se) ∧
      te.err ≠ .undefinedStatement) ∧
    (∀ σ', C03.runTurns fuel k σ = .ok () σ' → WellTyped σ') := by
  obtain ⟨n, _, _, hm⟩ := C03.run_refines hfit h k
  obtain ⟨h1, h2⟩ := steps_typed p hty n
  cases hr : RSteps p n p.start with
  | inl r' =>
    rw [hr] at hm
    obtain ⟨σ1, hσ1, hsim⟩ := hm
    refine ⟨fun te σ' he => (by rw [hσ1] at he; cases he), fun σ' ho => ?_⟩
    rw [hσ1] at ho
    simp only [Res.ok.injEq, true_and] at ho
    subst ho
    show WellTypedVars σ1.vars
    rw [hsim.core.vars]
    exact h1 r' hr
  | inr eln =>
    obtain ⟨e, ln, out⟩ := eln
    rw [hr] at hm
    obtain ⟨σ1, i, hσ1, _, _⟩ := hm
    refine ⟨fun te σ' he => ?_, fun σ' ho => by rw [hσ1] at ho; cases ho⟩
    rw [hσ1] at he
    simp only [Res.err.injEq] at he
    rw [← he.1]
    exact h2 e ln out hr

/-! ### 3. the analyzer's statement pass on a stored program

  `analyzeStatements` walks the statements of the current line: `hasNext`, one
  `aStmtBody` (for which the colon is a statement of its own), again — and it
  STOPS at the first statement that fails, reporting one diagnostic.
  `analyzeProgram` does that for every line in ascending order (`nextLine`).
  So the statement pass reports, for every line, the first static error of that
  line (`lineErrs`), and nothing else. -/

/-- what the statement pass has done to the analysis when it has walked (the rest
    of) line `n`, whose static verdict is `v`: no panic, the file map, the store
    and the nesting counter untouched, the cursor still on line `n`; no
    diagnostic if `v` is `ok`, else exactly one error diagnostic carrying the
    static error, located on line `n` -/
def LineOut (L : Lines F) (n : Nat) (a a' : Analysis F) (v : Except (Err × Nat) Unit) : Prop :=
  a'.panicked = none ∧ a'.map = a.map ∧ SInv L a'.st ∧ a'.st.nesting = a.st.nesting ∧
  a'.st.loc.line = some n ∧
  match v with
  | .ok _ => a'.messages = a.messages
  | .error (x, ln) => ∃ f i,
      a'.messages = a.messages ++ [.error f { err := x, loc := some { line := some ln, idx := i } }]

theorem sinv_mv0 {L : Lines F} {s : St F} (hs : SInv L s) (r : Nat) : SInv L (mv s 0 r) :=
  ⟨hs.lines, hs.loc, hs.acc⟩

/-- what the covered statements of a line need of the resources -/
def StmtsFit (fuel : Nat) (ss : List (RStmt F)) : Prop :=
  ∀ s ∈ ss, s.Covered ∧ sdepth s ≤ fuel ∧ sdepth s ≤ Extracted.nestingLimit

theorem lineEnd_tail (rest : List (RStmt F)) : LineEnd (renderTail rest) := by
  cases rest with
  | nil => intro t ht; cases ht
  | cons s rest =>
    intro t ht
    simp only [renderTail, List.head?_cons, Option.some.injEq] at ht
    exact ht.symm

/-- the cursor at the first token of a statement: the statement, then what follows it -/
theorem walk_stmt (fuel n : Nat) (le : Nat → Bool) (L : Lines F) (m : FileMap) (hLM : C05.LinesMapped L m)
    (hle : L.has = le) (st : RStmt F) (rest : List (RStmt F))
    (hfit : StmtsFit fuel (st :: rest))
    (ih : ∀ (k : Nat) (a : Analysis F) (pre : List (Token F)),
      At a.st pre (renderTail rest) → a.st.loc.line = some n → a.st.nesting = 0 → SInv L a.st →
      a.map = m → a.panicked = none → (renderTail rest).length < k →
      LineOut L n a (analyzeStatements fuel k a) (typeOfStmts le n rest))
    (k : Nat) (a : Analysis F) (pre : List (Token F))
    (hAt : At a.st pre (renderS st ++ renderTail rest)) (hl : a.st.loc.line = some n)
    (hn : a.st.nesting = 0) (hs : SInv L a.st) (hm : a.map = m) (hp : a.panicked = none)
    (hk : (renderS st ++ renderTail rest).length < k) :
    LineOut L n a (analyzeStatements fuel k a) (typeOfStmts le n (st :: rest)) := by
  obtain ⟨k', rfl⟩ : ∃ k', k = k' + 1 := ⟨k - 1, by omega⟩
  obtain ⟨hcov, hdf, hdn⟩ := hfit st List.mem_cons_self
  obtain ⟨k0, ts0, hhead⟩ := renderS_head st
  have hAt0 : At a.st pre (.kw k0 :: (ts0 ++ renderTail rest)) := by rw [hhead] at hAt; exact hAt
  have hhn := hasNext_cons hAt0
  have hAt1 : At (mv a.st 0 (a.st.reads + 1)) pre (renderS st ++ renderTail rest) := at_mv0 hAt _
  have hs1 : SInv L (mv a.st 0 (a.st.reads + 1)) := sinv_mv0 hs _
  have hA := astmt_run st fuel n le hdf hcov (mv a.st 0 (a.st.reads + 1)) pre (renderTail rest) hAt1 hl
    (by show a.st.lines.has = le; rw [hs.lines]; exact hle)
    (by show a.st.nesting + sdepth st ≤ _; rw [hn]; omega) (Or.inl (lineEnd_tail rest))
  have hgood := good_aStmtBody (good_aEvalN (F := F) (L := L) fuel).1 (good_aEvalN (F := F) (L := L) fuel).2 _ hs1
  cases hty : typeOfS st le with
  | ok u =>
    rw [hty] at hA
    obtain ⟨r, _, hres⟩ := hA
    rw [hres] at hgood
    rw [aS_ok fuel k' a hhn hres]
    have hlen : (renderS st ++ renderTail rest).length = (renderS st).length + (renderTail rest).length :=
      List.length_append
    have hpos : 0 < (renderS st).length := by rw [hhead]; simp
    have hI := ih k' { a with st := lg (mv (mv a.st 0 (a.st.reads + 1)) (renderS st).length r) (accsS n pre.length st) }
      (pre ++ renderS st) (at_lg (at_mv hAt1 r) _) hl hn hgood.1 hm hp (by omega)
    have hv : typeOfStmts le n (st :: rest) = typeOfStmts le n rest := by simp only [typeOfStmts, hty]
    rw [hv]
    exact hI
  | error x =>
    rw [hty] at hA
    obtain ⟨σ', hσ', hn'⟩ := hA
    rw [hσ'] at hgood
    obtain ⟨hs', _, _⟩ := hgood
    have hline : σ'.loc.line = some n := by
      have := (ALine.keeps_stmt (F := F) fuel).h (mv a.st 0 (a.st.reads + 1))
      rw [hσ'] at this
      exact this.trans hl
    have hprev : LocOk L σ'.prevLoc := by
      obtain ⟨n1, ts1, h1, h2, h3⟩ := hs'.loc
      exact ⟨n1, ts1, h1, h2, by show σ'.loc.idx - 1 ≤ ts1.length; omega⟩
    obtain ⟨f, u, v, hmap⟩ := C05.mapLoc_of_locOk hLM hprev
    rw [aS_err fuel k' a hhn hσ' (typeOfS_error le st x hty) (by rw [hm]; exact hmap)]
    have hv : typeOfStmts le n (st :: rest) = .error (x, n) := by simp only [typeOfStmts, hty]
    rw [hv]
    refine ⟨hp, rfl, hs', hn', hline, f, σ'.loc.idx - 1, ?_⟩
    show a.messages ++ [Diag.error f { err := x, loc := some { line := σ'.loc.line, idx := σ'.loc.idx - 1 } }] = _
    rw [hline]

/-- the cursor behind a statement (at the end of the line, or on a colon): the rest of the line -/
theorem walk_tail (fuel n : Nat) (le : Nat → Bool) (L : Lines F) (m : FileMap) (hLM : C05.LinesMapped L m)
    (hle : L.has = le) : ∀ (rest : List (RStmt F)), StmtsFit fuel rest →
    ∀ (k : Nat) (a : Analysis F) (pre : List (Token F)),
      At a.st pre (renderTail rest) → a.st.loc.line = some n → a.st.nesting = 0 → SInv L a.st →
      a.map = m → a.panicked = none → (renderTail rest).length < k →
      LineOut L n a (analyzeStatements fuel k a) (typeOfStmts le n rest)
  | [], _, k, a, pre, hAt, hl, hn, hs, hm, hp, hk => by
    obtain ⟨k', rfl⟩ : ∃ k', k = k' + 1 := ⟨k - 1, by omega⟩
    have hAt0 : At a.st pre [] := hAt
    rw [aS_done fuel k' a (hasNext_nil hAt0)]
    exact ⟨hp, rfl, sinv_mv0 hs _, rfl, hl, rfl⟩
  | st :: rest, hfit, k, a, pre, hAt, hl, hn, hs, hm, hp, hk => by
    obtain ⟨k', rfl⟩ : ∃ k', k = k' + 1 := ⟨k - 1, by omega⟩
    have hAt0 : At a.st pre (.kw .Colon :: (renderS st ++ renderTail rest)) := hAt
    have hlen : (renderTail (st :: rest)).length = 1 + (renderS st ++ renderTail rest).length := by
      simp only [renderTail, List.length_cons]; omega
    have hhn := hasNext_cons hAt0
    have hAt1 : At (mv a.st 0 (a.st.reads + 1)) pre (.kw .Colon :: (renderS st ++ renderTail rest)) :=
      at_mv0 hAt0 _
    have hs1 : SInv L (mv a.st 0 (a.st.reads + 1)) := sinv_mv0 hs _
    have hcolon := aStmtBody_colon (ev := aEvalN fuel) hAt1
    have hgood := good_aStmtBody (good_aEvalN (F := F) (L := L) fuel).1 (good_aEvalN (F := F) (L := L) fuel).2 _ hs1
    rw [hcolon] at hgood
    rw [aS_ok fuel k' a hhn hcolon]
    exact walk_stmt fuel n le L m hLM hle st rest hfit
      (walk_tail fuel n le L m hLM hle rest (fun s hs => hfit s (List.mem_cons_of_mem _ hs)))
      k' { a with st := mv (mv a.st 0 (a.st.reads + 1)) 1 ((mv a.st 0 (a.st.reads + 1)).reads + 1) }
      (pre ++ [.kw .Colon]) (at_mv1 hAt1 _) hl hn hgood.1 hm hp (by omega)

/-- **The statement pass on one line.**  With the cursor at the start of line
    `n`, whose statements are `ss` (not empty), `analyzeStatements` — given the
    budget `analyzeProgram` gives it — reports nothing if every statement of the
    line passes `typeOfS`, and otherwise exactly one error diagnostic: the first
    static error of the line (`typeOfStmts`), located on line `n`. -/
theorem walk_line (fuel n : Nat) (le : Nat → Bool) (L : Lines F) (m : FileMap) (hLM : C05.LinesMapped L m)
    (hle : L.has = le) (ss : List (RStmt F)) (hne : ss ≠ []) (hfit : StmtsFit fuel ss)
    (a : Analysis F) (hAt : At a.st [] (renderLine ss)) (hl : a.st.loc.line = some n)
    (hn : a.st.nesting = 0) (hs : SInv L a.st) (hm : a.map = m) (hp : a.panicked = none) :
    LineOut L n a (analyzeStatements fuel ((renderLine ss).length + 2) a) (typeOfStmts le n ss) := by
  cases ss with
  | nil => exact absurd rfl hne
  | cons st rest =>
    exact walk_stmt fuel n le L m hLM hle st rest hfit
      (walk_tail fuel n le L m hLM hle rest (fun s hs => hfit s (List.mem_cons_of_mem _ hs)))
      _ a [] hAt hl hn hs hm hp (by show (renderLine (st :: rest)).length < _; omega)

/-! #### every line -/

/-- the first static error of each line, in program order -/
def lineErrs (le : Nat → Bool) : RProgram F → List (Err × Nat)
  | [] => []
  | l :: rest =>
    match typeOfStmts le l.1 l.2 with
    | .ok _ => lineErrs le rest
    | .error x => x :: lineErrs le rest

theorem lineErrs_nil_iff (le : Nat → Bool) (p : RProgram F) :
    lineErrs le p = [] ↔ typeOfLines le p = .ok () := by
  induction p with
  | nil => simp [lineErrs, typeOfLines]
  | cons l rest ih =>
    cases hs : typeOfStmts le l.1 l.2 with
    | ok u => simp only [lineErrs, typeOfLines, hs, ih]
    | error x => simp [lineErrs, typeOfLines, hs]

/-- the diagnostics `ds` are error diagnostics for the static errors `xs`, one
    for one and in the same order, each carrying the error and located on its line -/
def DiagsFor : List Diag → List (Err × Nat) → Prop
  | [], [] => True
  | d :: ds, x :: xs =>
    (∃ f i, d = .error f { err := x.1, loc := some { line := some x.2, idx := i } }) ∧ DiagsFor ds xs
  | _, _ => False

/-- what the statement pass has done when it has walked the lines whose static errors are `xs` -/
def ProgOut (a a' : Analysis F) (xs : List (Err × Nat)) : Prop :=
  a'.panicked = none ∧ a'.map = a.map ∧ a'.st.lines = a.st.lines ∧ a'.st.nesting = a.st.nesting ∧
  ∃ ds, a'.messages = a.messages ++ ds ∧ DiagsFor ds xs

theorem progOut_cons {a a1 a' : Analysis F} {L : Lines F} {le : Nat → Bool} {n : Nat} {ss : List (RStmt F)}
    {q : RProgram F} (hL : a.st.lines = L) (h1 : LineOut L n a a1 (typeOfStmts le n ss))
    (h2 : ProgOut a1 a' (lineErrs le q)) : ProgOut a a' (lineErrs le ((n, ss) :: q)) := by
  obtain ⟨_, hm1, hs1, hn1, _, hmsg1⟩ := h1
  obtain ⟨hp2, hm2, hl2, hn2, ds, hds, hfor⟩ := h2
  refine ⟨hp2, hm2.trans hm1, by rw [hl2, hs1.lines, hL], hn2.trans hn1, ?_⟩
  cases hv : typeOfStmts le n ss with
  | ok u =>
    rw [hv] at hmsg1
    simp only [lineErrs, hv]
    exact ⟨ds, by rw [hds, hmsg1], hfor⟩
  | error x =>
    rw [hv] at hmsg1
    obtain ⟨x1, ln⟩ := x
    obtain ⟨f, i, hmsg⟩ := hmsg1
    simp only [lineErrs, hv]
    exact ⟨_ :: ds, by rw [hds, hmsg, List.append_assoc]; rfl, ⟨f, i, rfl⟩, hfor⟩

/-- from the start of a line of the program to its end -/
theorem walk_lines (fuel : Nat) (p : RProgram F) (hfit : Fits p fuel) (L : Lines F) (hH : Holds L p)
    (m : FileMap) (hLM : C05.LinesMapped L m) :
    ∀ (q done : RProgram F) (n : Nat) (ss : List (RStmt F)), p = done ++ (n, ss) :: q →
    ∀ (b : Nat) (a : Analysis F), q.length < b → SInv L a.st → a.st.loc = { line := some n, idx := 0 } →
      a.st.nesting = 0 → a.map = m → a.panicked = none →
      ProgOut a (analyzeProgram fuel b a) (lineErrs p.hasLine ((n, ss) :: q)) := by
  intro q
  induction q with
  | nil =>
    intro done n ss hp b a hb hs hloc hn hm hpan
    have hasc := hfit.wf.ascending
    rw [hp] at hasc
    have hline : p.line n = some ss := by rw [hp]; exact line_at hasc
    have hget : L.get n = some (renderLine ss) := by rw [hH.get, hline]; rfl
    have hToks : lineToks a.st = some (renderLine ss) := by
      unfold lineToks; rw [hloc]; show a.st.lines.get n = _; rw [hs.lines, hget]
    have hAt : At a.st [] (renderLine ss) := ⟨hToks, by rw [hloc]; rfl⟩
    have htok := tokens_eq hToks
    have hW := walk_line fuel n p.hasLine L m hLM (funext (holds_has hH)) ss
      (hfit.wf.nonempty _ (line_mem hline))
      (fun s hs => ⟨hfit.covered _ (line_mem hline) s hs, hfit.depth _ (line_mem hline) s hs⟩)
      a hAt (by rw [hloc]) hn hs hm hpan
    obtain ⟨hp1, hm1, hs1, hn1, hl1, _⟩ := id hW
    have hafter : L.after n = none := by rw [holds_after hH, hp, after_at hasc]; rfl
    obtain ⟨b', rfl⟩ : ∃ b', b = b' + 1 := ⟨b - 1, by omega⟩
    rw [aP_last fuel b' a hpan htok hp1 (nextLine_none hl1 (by rw [hs1.lines, hafter]))]
    exact progOut_cons hs.lines hW ⟨hp1, rfl, rfl, rfl, [], by simp, trivial⟩
  | cons l q' ih =>
    intro done n ss hp b a hb hs hloc hn hm hpan
    obtain ⟨n', ss'⟩ := l
    have hasc := hfit.wf.ascending
    rw [hp] at hasc
    have hline : p.line n = some ss := by rw [hp]; exact line_at hasc
    have hget : L.get n = some (renderLine ss) := by rw [hH.get, hline]; rfl
    have hToks : lineToks a.st = some (renderLine ss) := by
      unfold lineToks; rw [hloc]; show a.st.lines.get n = _; rw [hs.lines, hget]
    have hAt : At a.st [] (renderLine ss) := ⟨hToks, by rw [hloc]; rfl⟩
    have htok := tokens_eq hToks
    have hW := walk_line fuel n p.hasLine L m hLM (funext (holds_has hH)) ss
      (hfit.wf.nonempty _ (line_mem hline))
      (fun s hs => ⟨hfit.covered _ (line_mem hline) s hs, hfit.depth _ (line_mem hline) s hs⟩)
      a hAt (by rw [hloc]) hn hs hm hpan
    obtain ⟨hp1, hm1, hs1, hn1, hl1, _⟩ := id hW
    have hafter : L.after n = some n' := by rw [holds_after hH, hp, after_at hasc]; rfl
    obtain ⟨b', rfl⟩ : ∃ b', b = b' + 1 := ⟨b - 1, by omega⟩
    rw [aP_next fuel b' a hpan htok hp1 (nextLine_some hl1 (by rw [hs1.lines, hafter]))]
    have hp' : p = (done ++ [(n, ss)]) ++ (n', ss') :: q' := by rw [hp]; simp
    have hasc' := hfit.wf.ascending
    rw [hp'] at hasc'
    have hline' : p.line n' = some ss' := by rw [hp']; exact line_at hasc'
    have hget' : L.get n' = some (renderLine ss') := by rw [hH.get, hline']; rfl
    have hI := ih (done ++ [(n, ss)]) n' ss' hp' b'
      { analyzeStatements fuel ((renderLine ss).length + 2) a with
        st := { (analyzeStatements fuel ((renderLine ss).length + 2) a).st with loc := { line := some n', idx := 0 } } }
      (by simp only [List.length_cons] at hb; omega)
      ⟨hs1.lines, ⟨n', renderLine ss', rfl, hget', Nat.zero_le _⟩, hs1.acc⟩ rfl (hn1.trans hn) (hm1.trans hm) hp1
    exact progOut_cons hs.lines hW hI

/-- where the statement pass starts: the store holds the lines of `p`, the file
    map sends every stored line to its ranges (`C05.LinesMapped` — true after
    the line pass), the cursor stands at the start of the first line (as
    `runFromFirst` leaves it), the nesting counter is 0, no panic so far -/
structure AStart (p : RProgram F) (a : Analysis F) : Prop where
  holds : Holds a.st.lines p
  mapped : C05.LinesMapped a.st.lines a.map
  loc : a.st.loc = { line := p.first, idx := 0 }
  imm : a.st.imm = []
  nesting : a.st.nesting = 0
  accesses : a.st.accesses = []
  panicked : a.panicked = none

/-- **The analyzer's statement pass on a stored program of the covered fragment.**
    For a program `p` that fits the analyzer's fuel, held by the store of the
    analysis `a` (`AStart`), with a line budget `b` greater than the number of
    lines: `analyzeProgram` does not panic, changes neither the store nor the
    file map, and appends to the diagnostics exactly one error diagnostic per
    line that has a static error — the FIRST static error of that line
    (`lineErrs`: TYPE MISMATCH or UNDEF'D STATEMENT, `typeOfS_error`), located
    on that line — in program order.  The statements behind the first error of a
    line are not analysed. -/
theorem analyze_program (fuel : Nat) (p : RProgram F) (hfit : Fits p fuel) (a : Analysis F) (h : AStart p a)
    (b : Nat) (hb : p.length < b) :
    ProgOut a (analyzeProgram fuel b a) (lineErrs p.hasLine p) := by
  cases hp : p with
  | nil =>
    subst hp
    obtain ⟨b', rfl⟩ : ∃ b', b = b' + 1 := ⟨b - 1, by omega⟩
    obtain ⟨k1, k2, _⟩ := C05.analyzeProgram_empty fuel b' a h.panicked (by rw [h.loc]; rfl) h.imm
    have hk := AFrame.analyzeProgram_key fuel (b' + 1) a
    simp only [AFrame.key, Prod.mk.injEq] at hk
    exact ⟨k1, (C05.analyzeProgram_ext fuel (b' + 1) a).map, hk.1, hk.2, [], by rw [k2]; simp, trivial⟩
  | cons l q =>
    obtain ⟨n, ss⟩ := l
    rw [← hp]
    have hI := walk_lines fuel p hfit a.st.lines h.holds a.map h.mapped q [] n ss (by rw [hp]; rfl) b a
      (by rw [hp] at hb; simp only [List.length_cons] at hb; omega)
      ⟨rfl, ?_, by rw [h.accesses]; intro x hx; cases hx⟩
      (by rw [h.loc, hp]; rfl) h.nesting rfl h.panicked
    · rw [hp] at hI ⊢; exact hI
    · have hline : p.line n = some ss := by
        rw [hp]; simp only [RProgram.line, beq_self_eq_true, ↓reduceIte]
      exact ⟨n, renderLine ss, by rw [h.loc, hp]; rfl, by rw [h.holds.get, hline]; rfl, by rw [h.loc]; exact Nat.zero_le _⟩

/-- **Silent ⇔ checked.**  Under the hypotheses of `analyze_program`, the statement
    pass adds no diagnostic iff the program passes the static check `typeOfP`. -/
theorem analyzer_silent_iff (fuel : Nat) (p : RProgram F) (hfit : Fits p fuel) (a : Analysis F) (h : AStart p a)
    (b : Nat) (hb : p.length < b) :
    (analyzeProgram fuel b a).messages = a.messages ↔ typeOfP p = .ok () := by
  obtain ⟨_, _, _, _, ds, hds, hfor⟩ := analyze_program fuel p hfit a h b hb
  unfold typeOfP
  rw [← lineErrs_nil_iff, hds]
  constructor
  · intro hm
    have hnil : ds = [] := by
      have := congrArg List.length hm
      simp only [List.length_append] at this
      exact List.length_eq_zero_iff.mp (by omega)
    subst hnil
    cases hx : lineErrs p.hasLine p with
    | nil => rfl
    | cons x xs => rw [hx] at hfor; exact hfor.elim
  · intro hx
    rw [hx] at hfor
    cases ds with
    | nil => simp
    | cons d ds => exact hfor.elim

/-- the direction needed for soundness, with "no error diagnostic" spelled out:
    if every diagnostic of the finished statement pass that is an error was
    there before the pass, position by position (no diagnostic was added), the
    program passes the static check -/
theorem analyzed_typed (fuel : Nat) (p : RProgram F) (hfit : Fits p fuel) (a : Analysis F) (h : AStart p a)
    (b : Nat) (hb : p.length < b) (hsilent : (analyzeProgram fuel b a).messages = a.messages) :
    typeOfP p = .ok () :=
  (analyzer_silent_iff fuel p hfit a h b hb).1 hsilent

/-! ### 4. accepted by the analyzer ⇒ no static failure at run time -/

/-- **`sound_analyzed_program`.**  Let `p` be a program of the covered fragment
    (LET, PRINT, GOTO, END, IF/THEN/ELSE; `Fits` for the analyzer's fuel `fa` and
    for the interpreter's fuel `fuel`).  If the analyzer's statement pass over the
    stored program reports nothing, then no run of the program — RUN followed by
    any number of host turns, from an idle interpreter holding `p` with the
    flags off — fails with a syntax error, a TYPE MISMATCH or UNDEF'D STATEMENT:
    DIVISION BY ZERO is the only failure left; and the variables stay well-typed. -/
theorem sound_analyzed_program {p : RProgram F} {fa fuel : Nat} (hfa : Fits p fa) (hfit : Fits p fuel)
    (a : Analysis F) (ha : AStart p a) (b : Nat) (hb : p.length < b)
    (hsilent : (analyzeProgram fa b a).messages = a.messages)
    {σ : St F} (h : C03.Ready p σ) (k : Nat) :
    (∀ te σ', C03.runTurns fuel k σ = .err te σ' →
      te.err = .divisionByZero ∧ te.err ≠ .typeMismatch ∧ (∀ se, te.err ≠ .syntax se) ∧
      te.err ≠ .undefinedStatement) ∧
    (∀ σ', C03.runTurns fuel k σ = .ok () σ' → WellTyped σ') :=
  sound_program hfit h (analyzed_typed fa p hfa a ha b hb hsilent) k

/-! ### the same for a source file

  `analyzeFile` = line pass (`analyzeLines`: parse the line numbers, tokenize,
  store), `runFromFirst`, statement pass (`analyzeProgram`), symbol pass
  (`symbolWarnings`: warnings only).  For a file whose lines are numbered and
  tokenize to the renderings of the lines of `p` (`C15.GoodFile`), the line pass
  establishes `AStart`. -/

/-- the tokens a file must denote, line by line, to be a text of `p` -/
def editsOf (p : RProgram F) : List (Nat × List (Token F)) := p.map fun l => (l.1, renderLine l.2)

theorem goodFile_length {lines : List Str} {edits : List (Nat × List (Token F))}
    (h : C15.GoodFile F lines edits) : lines.length = edits.length := by
  induction h with
  | nil => rfl
  | cons _ _ ih => simp only [List.length_cons, ih]

/-- after the line pass over a text of `p` and `runFromFirst`, the statement pass can start -/
theorem astart_file (lines : List Str) (p : RProgram F) (hwf : p.WF) (hgood : C15.GoodFile F lines (editsOf p)) :
    AStart p { analyzeLines ({ lines := lines } : Analysis F) 0 lines with
               st := (analyzeLines ({ lines := lines } : Analysis F) 0 lines).st.runFromFirst } := by
  have hinv := C05.analyzeLines_lineInv ({ lines := lines } : Analysis F) 0 lines (C05.lineInv_init lines)
  have hpan := (C05.analyzeLines_file (F := F) lines).2.2.2
  have hstore := C15.load_store lines (editsOf p) hgood ({ lines := lines } : Analysis F) 0
  have hnest := AFrame.analyzeLines_nesting ({ lines := lines } : Analysis F) 0 lines
  generalize analyzeLines ({ lines := lines } : Analysis F) 0 lines = a0 at hinv hpan hstore hnest
  obtain ⟨hl, hacc, himm, _⟩ := C05.runFromFirst_facts a0.st
  have hH : Holds a0.st.lines p := by
    rw [hstore]
    exact holds_load p hwf
  have hfirst : a0.st.lines.first = p.first := holds_first hH
  refine ⟨by show Holds a0.st.runFromFirst.lines p; rw [hl]; exact hH,
    by show C05.LinesMapped a0.st.runFromFirst.lines a0.map; rw [hl]; exact hinv.mapped,
    ?_, himm, ?_, hacc.trans hinv.acc, hpan⟩
  · show a0.st.runFromFirst.loc = _
    have hf : a0.st.resetRuntime.lines.first = p.first := hfirst
    unfold St.runFromFirst
    simp only [hf]
    cases p.first <;> rfl
  · show a0.st.runFromFirst.nesting = 0
    have hf : a0.st.resetRuntime.lines.first = p.first := hfirst
    have : a0.st.runFromFirst.nesting = a0.st.nesting := by
      unfold St.runFromFirst
      simp only [hf]
      cases p.first <;> rfl
    rw [this, hnest]

theorem diagsFor_head {d : Diag} {ds : List Diag} {xs : List (Err × Nat)} (h : DiagsFor (d :: ds) xs) :
    ∃ f e, d = .error f e := by
  cases xs with
  | nil => exact h.elim
  | cons x xs => obtain ⟨⟨f, i, hd⟩, _⟩ := h; exact ⟨f, _, hd⟩

/-- **`sound_analyzed_file`.**  Let the lines of a source file be numbered and
    tokenize to the lines of the covered program `p` (`GoodFile … (editsOf p)`),
    `p` in ascending order and within the fuel of analyzer (`fa`) and
    interpreter (`fuel`).  If the analysis of the file (`analyzeFile`: all three
    passes) contains NO ERROR diagnostic, then the interpreter the analysis is
    turned into (`intoInterpreter`, flags off) is ready to run `p`, and no run —
    RUN followed by any number of host turns — fails with a syntax error, a
    TYPE MISMATCH or UNDEF'D STATEMENT; the only failure left is DIVISION BY
    ZERO. -/
theorem sound_analyzed_file {p : RProgram F} {fa fuel : Nat} (hfa : Fits p fa) (hfit : Fits p fuel)
    (lines : List Str) (hgood : C15.GoodFile F lines (editsOf p))
    (hnoerr : ∀ f e, Diag.error f e ∉ (analyzeFile (F := F) fa lines).messages) (k : Nat) :
    C03.Ready p (analyzeFile (F := F) fa lines).intoInterpreter ∧
    typeOfP p = .ok () ∧
    (∀ te σ', C03.runTurns fuel k (analyzeFile (F := F) fa lines).intoInterpreter = .err te σ' →
      te.err = .divisionByZero ∧ te.err ≠ .typeMismatch ∧ (∀ se, te.err ≠ .syntax se) ∧
      te.err ≠ .undefinedStatement) ∧
    (∀ σ', C03.runTurns fuel k (analyzeFile (F := F) fa lines).intoInterpreter = .ok () σ' → WellTyped σ') := by
  have hst := astart_file lines p hfa.wf hgood
  have hlen : p.length < lines.length + 2 := by
    have := goodFile_length hgood
    simp only [editsOf, List.length_map] at this
    omega
  have hkey := AFrame.analyzeFile_key (F := F) fa lines
  have hstore := C15.load_store lines (editsOf p) hgood ({ lines := lines } : Analysis F) 0
  have hready : C03.Ready p (analyzeFile (F := F) fa lines).intoInterpreter := by
    refine ⟨rfl, ?_, rfl, rfl, hkey.2, rfl⟩
    show Holds (analyzeFile (F := F) fa lines).st.lines p
    rw [hkey.1, hstore]
    exact holds_load p hfa.wf
  have hty : typeOfP p = .ok () := by
    obtain ⟨hp2, _, _, _, ds, hds, hfor⟩ := analyze_program fa p hfa _ hst (lines.length + 2) hlen
    unfold typeOfP
    rw [← lineErrs_nil_iff]
    cases ds with
    | nil =>
      cases hx : lineErrs p.hasLine p with
      | nil => rfl
      | cons x xs => rw [hx] at hfor; exact hfor.elim
    | cons d ds =>
      exfalso
      obtain ⟨f, e, hd⟩ := diagsFor_head hfor
      apply hnoerr f e
      unfold analyzeFile
      simp only [hp2, Option.isSome_none, Bool.false_eq_true, ↓reduceIte]
      obtain ⟨⟨extra, hext, _⟩, _⟩ := C05.symbolWarnings_total
        (analyzeProgram fa (lines.length + 2)
          { analyzeLines ({ lines := lines } : Analysis F) 0 lines with
            st := (analyzeLines ({ lines := lines } : Analysis F) 0 lines).st.runFromFirst })
      rw [hext, hds, hd]
      simp
  exact ⟨hready, hty, sound_program hfit hready hty k⟩

/-! ### non-vacuity -/

/-- C03's demo program (IF / LET : PRINT / GOTO) passes the check … -/
theorem demoProg_typed : typeOfP C03.demoProg = .ok () := by rfl

/-- … hence, by `sound_program`, no run of it fails with a static error -/
example (k : Nat) : ∀ te σ', C03.runTurns defaultFuel k C03.demoStart = .err te σ' →
    te.err = .divisionByZero :=
  fun te σ' h => ((sound_program C03.demo_fits C03.demo_ready demoProg_typed k).1 te σ' h).1

/-- C03's `badProg` (`20 GOTO 0` without a line 0) is rejected: UNDEF'D STATEMENT on line 20 —
    the error its run ends in (the last example of C03Prog.lean) -/
example : typeOfP C03.badProg = .error (.undefinedStatement, 20) := by rfl

/-- the analyzer's statement pass on the stored `badProg` (any file map that covers its two lines):
    one error diagnostic, UNDEF'D STATEMENT located on line 20 -/
example (a : Analysis Unit) (h : AStart C03.badProg a) :
    ∃ f i, (analyzeProgram defaultFuel 3 a).messages =
      a.messages ++ [.error f { err := .undefinedStatement, loc := some { line := some 20, idx := i } }] := by
  obtain ⟨_, _, _, _, ds, hds, hfor⟩ := analyze_program defaultFuel C03.badProg C03.bad_fits a h 3 (by decide)
  have hx : lineErrs C03.badProg.hasLine C03.badProg = [(.undefinedStatement, 20)] := by decide
  rw [hx] at hfor
  match ds, hfor with
  | [d], ⟨⟨f, i, hd⟩, _⟩ => exact ⟨f, i, by rw [hds, hd]⟩

/-- ```
    10 LET A$ = "X" : PRINT A$;
    20 IF A$ THEN END
    ``` (on the carrier `Unit` no numeral tokenizes, hence no GOTO here) -/
def fileProg : RProgram Unit :=
  [ (10, [.letS ['A', '$'] (.str ['X']), .printS [.expr (.var ['A', '$']), .semi]]),
    (20, [.ifS (.var ['A', '$']) .endS none]) ]

def fileText : List Str := ["10 LET A$ = \"X\" : PRINT A$;".toList, "20 IF A$ THEN END".toList]

/-- a file line, its number and where the number ends, and the tokens it denotes -/
theorem goodLine_of (line : Str) (n k : Nat) (ts : List (Token Unit))
    (h1 : line ≠ []) (h2 : parseLineNumber line = some (n, k))
    (h3 : (tokenizeRanges (F := Unit) line k).2 = none)
    (h4 : (tokenizeRanges (F := Unit) line k).1.map (·.1) = ts) (h5 : ts ≠ []) : C15.GoodLine Unit line n ts :=
  ⟨h1, k, (tokenizeRanges (F := Unit) line k).1, h2, by rw [← h3], h4, h5⟩

theorem file_edits : editsOf fileProg =
    [ (10, [.kw .Let, .symbol ['A', '$'], .kw .Equals, .str ['X'], .kw .Colon,
                   .kw .Print, .symbol ['A', '$'], .kw .Semicolon]),
      (20, [.kw .If, .symbol ['A', '$'], .kw .Then, .kw .End]) ] := by
  simp [editsOf, fileProg, renderLine, renderTail, renderS, renderItems, PItem.render, render_str, render_var]

theorem file_good : C15.GoodFile Unit fileText (editsOf fileProg) := by
  rw [file_edits]
  refine .cons (goodLine_of _ _ 2 _ (by decide) (by decide) (by decide) (by rfl) (by simp)) ?_
  refine .cons (goodLine_of _ _ 2 _ (by decide) (by decide) (by decide) (by rfl) (by simp)) ?_
  exact .nil

theorem file_fits : Fits fileProg defaultFuel where
  wf := ⟨by decide, by intro l hl; simp [fileProg] at hl; rcases hl with rfl | rfl <;> simp⟩
  covered := by
    intro l hl s hs
    simp [fileProg] at hl
    rcases hl with rfl | rfl
    · simp at hs; rcases hs with rfl | rfl
      · simp [RStmt.Covered]
      · simp [RStmt.Covered, separated]
    · simp at hs; subst hs; simp [RStmt.Covered, RStmt.elseFree]
  depth := by
    intro l hl s hs
    simp [fileProg] at hl
    rcases hl with rfl | rfl
    · simp at hs; rcases hs with rfl | rfl
      · simp [sdepth, depth, defaultFuel, Extracted.nestingLimit]
      · simp [sdepth, itemsDepth, depth, defaultFuel, Extracted.nestingLimit]
    · simp at hs; subst hs; simp [sdepth, depth, defaultFuel, Extracted.nestingLimit]

def isErr : Diag → Bool
  | .error _ _ => true
  | _ => false

theorem file_noerr : ∀ f e, Diag.error f e ∉ (analyzeFile (F := Unit) defaultFuel fileText).messages := by
  have h : (analyzeFile (F := Unit) defaultFuel fileText).messages.all (fun d => !isErr d) = true := by decide +kernel
  intro f e hmem
  have := List.all_eq_true.mp h _ hmem
  simp [isErr] at this

/-- `sound_analyzed_file` applies to a concrete source text: its hypotheses are satisfiable -/
example (k : Nat) : ∀ te σ', C03.runTurns defaultFuel k (analyzeFile (F := Unit) defaultFuel fileText).intoInterpreter = .err te σ' →
    te.err = .divisionByZero :=
  fun te σ' h => ((sound_analyzed_file file_fits file_fits fileText file_good file_noerr k).2.2.1 te σ' h).1

end Abasic.Props.C06
