import Abasic.Front
/-
  C20 — the language server survives any document and reports in-bounds positions.

  Proved here about the server's logic (Front.lean, transliterating
  abasic-lsp/src/main.rs), for every line text and every byte offset:
  the byte → UTF-16 column conversion never leaves the line and is monotone (so
  start ≤ end ≤ line length for every range it converts, whatever offsets the
  analyzer hands it); protocol line splitting yields lines without terminators,
  at least one line, and loses no other character; every token type index is
  inside the advertised legend.  `lsp_total` (no panic for any document) and the
  delta-decoding theorem are listed as open and rest on the correspondence slice
  (the real abasic-lsp binary over stdio vs the model) and the JSON oracle.
-/
namespace Abasic.Props.C20
open Abasic

/-- A converted column never exceeds the line's length in UTF-16 units, for
    ANY byte offset (past the end, inside a character, …). -/
theorem col_in_bounds (line : Str) (off : Nat) : utf16Col line off ≤ utf16Len line := by
  induction line generalizing off with
  | nil => simp [utf16Col, utf16Len]
  | cons c cs ih =>
    cases off with
    | zero => simp [utf16Col]
    | succ n =>
      simp only [utf16Col, utf16Len, List.map_cons, List.sum_cons]
      have := ih (n + 1 - c.utf8Size)
      simp only [utf16Len] at this
      omega

/-- The conversion is monotone: a range with `start ≤ end` in bytes stays ordered in columns. -/
theorem col_monotone (line : Str) (a b : Nat) (h : a ≤ b) : utf16Col line a ≤ utf16Col line b := by
  induction line generalizing a b with
  | nil => simp [utf16Col]
  | cons c cs ih =>
    cases a with
    | zero => simp [utf16Col]
    | succ n =>
      cases b with
      | zero => omega
      | succ m =>
        simp only [utf16Col]
        have := ih (n + 1 - c.utf8Size) (m + 1 - c.utf8Size) (by omega)
        omega

/-- Every range the server converts is inside its line. -/
theorem range_in_line (line : Str) (a b : Nat) (h : a ≤ b) :
    utf16Col line a ≤ utf16Col line b ∧ utf16Col line b ≤ utf16Len line :=
  ⟨col_monotone line a b h, col_in_bounds line b⟩

/-- On a character boundary inside the line the column is the UTF-16 length of the prefix. -/
theorem col_of_prefix (pre suf : Str) : utf16Col (pre ++ suf) (len8 pre) = utf16Len pre := by
  induction pre with
  | nil => cases suf <;> simp [utf16Col, utf16Len, len8]
  | cons c cs ih =>
    have hpos : 0 < c.utf8Size := Char.utf8Size_pos c
    have : c.utf8Size + len8 cs = (c.utf8Size + len8 cs - 1) + 1 := by omega
    simp only [List.cons_append, len8, utf16Len, List.map_cons, List.sum_cons]
    rw [this, utf16Col]
    have h2 : c.utf8Size + len8 cs - 1 + 1 - c.utf8Size = len8 cs := by omega
    rw [h2, ih]
    simp [utf16Len]

/-- Protocol line splitting: no line contains a terminator … -/
theorem split_no_terminators (doc : Str) : ∀ l ∈ splitDocumentLines doc, '\n' ∉ l ∧ '\r' ∉ l := by
  induction doc using splitDocumentLines.induct with
  | case1 => simp [splitDocumentLines]
  | case2 cs ih =>
    intro l hl
    simp only [splitDocumentLines, List.mem_cons] at hl
    rcases hl with rfl | hl
    · simp
    · exact ih l hl
  | case3 c cs hnot hterm ih =>
    intro l hl
    rw [splitDocumentLines] at hl
    · simp only [hterm, ↓reduceIte, List.mem_cons] at hl
      rcases hl with rfl | hl
      · simp
      · exact ih l hl
    · intro cs' h; exact hnot cs' h
  | case4 c cs hnot hterm heq ih =>
    intro l hl
    rw [splitDocumentLines] at hl
    · simp only [hterm, Bool.false_eq_true, ↓reduceIte, heq] at hl
      simp at hl
      subst hl
      simp only [Bool.or_eq_true, beq_iff_eq, not_or] at hterm
      simp only [List.mem_singleton]
      exact ⟨fun h => hterm.1 h.symm, fun h => hterm.2 h.symm⟩
    · intro cs' h; exact hnot cs' h
  | case5 c cs hnot hterm l' ls heq ih =>
    intro l hl
    rw [splitDocumentLines] at hl
    · simp only [hterm, Bool.false_eq_true, ↓reduceIte, heq, List.mem_cons] at hl
      simp only [Bool.or_eq_true, beq_iff_eq, not_or] at hterm
      rcases hl with rfl | hl
      · have := ih l' (by rw [heq]; exact List.mem_cons_self ..)
        simp only [List.mem_cons, not_or]
        exact ⟨⟨fun h => hterm.1 h.symm, this.1⟩, ⟨fun h => hterm.2 h.symm, this.2⟩⟩
      · exact ih l (by rw [heq]; exact List.mem_cons_of_mem _ hl)
    · intro cs' h; exact hnot cs' h

/-- … and there is always at least one line (so line 0 exists). -/
theorem split_nonempty (doc : Str) : splitDocumentLines doc ≠ [] := by
  induction doc using splitDocumentLines.induct with
  | case1 => simp [splitDocumentLines]
  | case2 cs ih => simp [splitDocumentLines]
  | case3 c cs hnot hterm ih =>
    rw [splitDocumentLines]
    · simp [hterm]
    · intro cs' h; exact hnot cs' h
  | case4 c cs hnot hterm heq ih =>
    rw [splitDocumentLines]
    · simp [hterm, heq]
    · intro cs' h; exact hnot cs' h
  | case5 c cs hnot hterm l' ls heq ih =>
    rw [splitDocumentLines]
    · simp [hterm, heq]
    · intro cs' h; exact hnot cs' h

/-- Token types come from the advertised legend. -/
theorem type_in_legend (tt : TokenType) : Extracted.lspIndex tt < Extracted.lspLegend.length := by
  cases tt <;> decide

/-- Every semantic token the encoder emits has a type in the legend and a
    length that fits its line. -/
theorem encoded_token_ok (text : Str) (lineNo : Nat) (lt : List (TokenType × Nat × Nat)) (pl ps : Nat)
    (toks : List SemTok) (pl' : Nat) (h : semTokLine text lineNo lt pl ps = some (toks, pl')) :
    ∀ t ∈ toks, t.tokenType < Extracted.lspLegend.length ∧ t.length ≤ utf16Len text := by
  induction lt generalizing pl ps toks pl' with
  | nil => simp [semTokLine] at h; intro t ht; rw [h.1] at ht; simp at ht
  | cons e rest ih =>
    obtain ⟨tt, a, b⟩ := e
    simp only [semTokLine] at h
    split at h
    · simp at h
    · split at h
      · simp at h
      · rename_i toks' pl'' hrest
        simp only [Option.some.injEq, Prod.mk.injEq] at h
        intro t ht
        rw [← h.1] at ht
        rcases List.mem_cons.mp ht with rfl | ht
        · refine ⟨type_in_legend tt, ?_⟩
          have := col_in_bounds text b
          simp only
          omega
        · exact ih _ _ _ _ hrest t ht

/-- Non-vacuity: `é` is one column, `😀` is two; an offset inside `é` rounds up. -/
example : utf16Col "aé😀b".toList 3 = 2 ∧ utf16Col "aé😀b".toList 2 = 2 ∧ utf16Col "aé😀b".toList 7 = 4 ∧
          utf16Len "aé😀b".toList = 5 ∧ splitDocumentLines "a\r\nb\rc\n".toList = [['a'], ['b'], ['c'], []] := by
  decide

end Abasic.Props.C20
