import Abasic.Props.C11Host
/-
  C11 for ANY number of edits (seed round 9: an implementation that invalidates
  by comparing an edit COUNTER would bring a function back after 2^16 edits).

  `afterEdits σ es` applies the edits `es` in order.  Whatever the number of
  edits - one or 65536 - and whatever happened between the run and the first of
  them, the state is the one the LAST edit produces from a state without any
  runtime reference (`edits_forget_runtime`), every runtime reference is gone
  (`edits_clear`), values are kept (`edits_keep_values`), and the future is the
  same as for the interpreter that had no runtime state at all when the edits
  began (`edits_then_same_future`).
-/
namespace Abasic.Props.C11
open Abasic Abasic.Props.C01

variable {F : Type} [NumOps F]

/-- a sequence of successful edits, in order -/
def afterEdits (σ : St F) : List (Nat × List (Token F)) → St F
  | [] => σ
  | (n, ts) :: es => afterEdits (afterEdit σ n ts) es

omit [NumOps F] in
theorem afterEdits_append (σ : St F) (es fs : List (Nat × List (Token F))) :
    afterEdits σ (es ++ fs) = afterEdits (afterEdits σ es) fs := by
  induction es generalizing σ with
  | nil => rfl
  | cons e es ih => obtain ⟨n, ts⟩ := e; simp [afterEdits, ih]

omit [NumOps F] in
/-- one edit or many: the runtime references the interpreter had before the first edit play no part -/
theorem edits_forget_runtime (σ : St F) (e : Nat × List (Token F)) (es : List (Nat × List (Token F))) :
    afterEdits σ (e :: es) = afterEdits (dropRuntime σ) (e :: es) := by
  obtain ⟨n, ts⟩ := e
  simp only [afterEdits]
  rw [edit_forgets_runtime]

omit [NumOps F] in
/-- after any non-empty sequence of edits every runtime reference is gone -/
theorem edits_clear (σ : St F) (e : Nat × List (Token F)) (es : List (Nat × List (Token F))) :
    let σ' := afterEdits σ (e :: es)
    σ'.bp = none ∧ σ'.stack = [] ∧ σ'.loops = [] ∧ σ'.fns = [] ∧ σ'.data = none ∧ σ'.loc = {} ∧ σ'.imm = [] := by
  induction es generalizing σ e with
  | nil =>
    obtain ⟨n, ts⟩ := e
    have h := edit_clears σ n ts
    simp only [afterEdits]
    exact ⟨h.1, h.2.1, h.2.2.1, h.2.2.2.1, h.2.2.2.2.1, h.2.2.2.2.2.1, h.2.2.2.2.2.2.1⟩
  | cons f fs ih =>
    obtain ⟨n, ts⟩ := e
    simpa only [afterEdits] using ih (afterEdit σ n ts) f

omit [NumOps F] in
/-- … and variables, arrays and the interpreter state are what they were -/
theorem edits_keep_values (σ : St F) (es : List (Nat × List (Token F))) :
    (afterEdits σ es).vars = σ.vars ∧ (afterEdits σ es).arrays = σ.arrays ∧ (afterEdits σ es).state = σ.state := by
  induction es generalizing σ with
  | nil => exact ⟨rfl, rfl, rfl⟩
  | cons e es ih =>
    obtain ⟨n, ts⟩ := e
    have h := edit_clears σ n ts
    have := ih (afterEdit σ n ts)
    simp only [afterEdits]
    exact ⟨this.1.trans h.2.2.2.2.2.2.2.1, this.2.1.trans h.2.2.2.2.2.2.2.2.1, this.2.2.trans h.2.2.2.2.2.2.2.2.2⟩

/-- whatever the host does next, it cannot tell how many edits there were before the last one's predecessors
    forgot the runtime state: the future after the edits is the future of the interpreter that had no runtime
    reference when the first edit was made -/
theorem edits_then_same_future (fuel : Nat) (cs : List Call) (σ : St F) (e : Nat × List (Token F))
    (es : List (Nat × List (Token F))) :
    applyCalls fuel cs (afterEdits σ (e :: es)) = applyCalls fuel cs (afterEdits (dropRuntime σ) (e :: es)) := by
  rw [edits_forget_runtime]

omit [NumOps F] in
/-- the function table in particular: empty after 1, 256, 65536 … edits (`List.replicate k`) -/
theorem function_table_empty_after (k : Nat) (σ : St F) (n : Nat) (ts : List (Token F)) :
    (afterEdits σ (List.replicate (k + 1) (n, ts))).fns = [] := by
  have h := edits_clear σ (n, ts) (List.replicate k (n, ts))
  simpa [List.replicate_succ] using h.2.2.2.1

/-- a state WITH a function, a subroutine frame, a loop and a breakpoint -/
def busy : St Toy :=
  { fns := [("FNA".toList, { args := [], line := 10, idx := 0 })]
    bp := some (110, 1)
    stack := [{ ret := {}, vars := [] }]
    loops := [{ loc := {}, sym := "I".toList, toV := (3 : Int), stepV := (1 : Int) }] }

/-- non-vacuity: it loses them all, after three edits as after one -/
example : (busy.fns ≠ [] ∧ busy.stack ≠ [] ∧ busy.loops ≠ [] ∧ busy.bp ≠ none) ∧
    (afterEdits busy [(30, []), (30, []), (40, [])]).fns = [] := by
  refine ⟨⟨by simp [busy], by simp [busy], by simp [busy], by simp [busy]⟩, ?_⟩
  exact (edits_clear _ (30, []) [(30, []), (40, [])]).2.2.2.1

end Abasic.Props.C11
