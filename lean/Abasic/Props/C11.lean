import Abasic.Props.C04
/-
  C11 — editing the program invalidates every runtime reference into it.
-/
namespace Abasic.Props.C11
open Abasic

variable {F : Type} [NumOps F]

/-- the state after a successful edit of line `n` -/
def afterEdit (σ : St F) (n : Nat) (ts : List (Token F)) : St F :=
  (σ.setImmediate []).setNumberedLine n ts

/-- A successfully tokenized numbered line, entered at any moment the
    interpreter is idle (fresh, at a breakpoint, inside loops or subroutines, with
    a half-read DATA list), yields exactly `afterEdit`. -/
theorem edit_result (fuel : Nat) (line : Str) (σ : St F) (n k : Nat) (ts : List (Token F))
    (hidle : σ.state = .idle)
    (hcmd : (commandWord line).bind Command.ofWord = none)
    (hn : parseLineNumber line = some (n, k))
    (ht : tokenize (F := F) line k = .ok ts) :
    startEvaluating fuel line σ = .ok () (afterEdit σ n ts) := by
  simp [startEvaluating, postprocess, evaluateImpl, hidle, maybeProcessCommand, hcmd, hn, ht,
    bind, M.bindM, M.get, M.modify, setImmediate, pure, M.pureM, afterEdit]

omit [NumOps F] in
/-- Every runtime reference into the old program is gone; variables and arrays are kept. -/
theorem edit_clears (σ : St F) (n : Nat) (ts : List (Token F)) :
    let σ' := afterEdit σ n ts
    σ'.bp = none ∧ σ'.stack = [] ∧ σ'.loops = [] ∧ σ'.fns = [] ∧ σ'.data = none ∧
    σ'.loc = {} ∧ σ'.imm = [] ∧ σ'.vars = σ.vars ∧ σ'.arrays = σ.arrays ∧ σ'.state = σ.state := by
  simp [afterEdit, St.setNumberedLine, St.setImmediate]

/-- CONT after an edit: CAN'T CONTINUE. -/
theorem cont_after_edit (fuel : Nat) (line : Str) (σ : St F)
    (hidle : σ.state = .idle) (hbp : σ.bp = none)
    (hcmd : (commandWord line).bind Command.ofWord = some .cont) :
    ∃ σ' e, startEvaluating fuel line σ = .err e σ' ∧ e.err = .cannotContinue ∧ σ'.state = .idle := by
  let σ₀ := (σ.setImmediate []).setImmediate []
  refine ⟨{ σ₀ with state := .idle }, σ₀.populate { err := .cannotContinue }, ?_, ?_, rfl⟩
  · simp [startEvaluating, postprocess, evaluateImpl, hidle, maybeProcessCommand, hcmd,
      continueFromBreakpoint, bind, M.bindM, M.get, M.modify, setImmediate, St.setImmediate, hbp, M.fail,
      pure, M.pureM, σ₀]
  · simp [St.populate]

omit [NumOps F] in
/-- RETURN with an empty subroutine stack: RETURN WITHOUT GOSUB (the statement
    level fact behind the probe; the stack is empty after every edit). -/
theorem return_without_gosub (σ : St F) (h : σ.stack = []) :
    ∃ σ', returnFromGosub σ = .err { err := .returnWithoutGosub } σ' := by
  refine ⟨{ σ with bp := none }, ?_⟩
  simp [returnFromGosub, bind, M.bindM, M.modify, M.get, h, M.fail]

/-- NEXT with no open loop for a numeric variable: NEXT WITHOUT FOR. -/
theorem next_without_for (σ : St F) (sym : Str) (x : F) (h : σ.loops = [])
    (hv : getVar σ sym = .num x) :
    endLoop sym σ = .err { err := .nextWithoutFor } σ := by
  simp [endLoop, bind, M.bindM, M.get, hv, h, removeLoop, M.fail]

/-- READ after an edit starts again from the first DATA item of the edited
    program: the cursor is rebuilt from the current lines. -/
theorem read_restarts (σ : St F) (h : σ.data = none)
    (chunks : List (Loc × List (DataElement F))) (hc : σ.lines.dataChunks = some chunks) :
    nextDataElement σ =
      .ok (DataIter.next { chunks := chunks } (chunks.length + 1)).1
        { σ with data := some (DataIter.next { chunks := chunks } (chunks.length + 1)).2 } := by
  simp only [nextDataElement, bind, M.bindM, M.get, h, hc, pure, M.pureM, M.modify]

omit [NumOps F] in
/-- A former function name is no longer a function: the call site falls back
    to an array reference (`userFunctionCall` declines). -/
theorem function_gone (ev : Evals F) (σ : St F) (name : Str) (h : σ.fns = []) :
    userFunctionCall ev name σ = .ok none σ := by
  simp [userFunctionCall, bind, M.bindM, M.get, h, alGet, pure, M.pureM]

/-- A rejected edit (tokenization error) invalidates nothing: breakpoint,
    stack (when a breakpoint is pending), loops, functions, data cursor,
    variables and arrays are as before. -/
theorem failed_edit_inert (fuel : Nat) (line : Str) (σ : St F) (e : TokErr)
    (hidle : σ.state = .idle)
    (hcmd : (commandWord line).bind Command.ofWord = none)
    (ht : tokenize (F := F) line ((parseLineNumber line).map (·.2) |>.getD 0) = .error e) :
    ∃ σ' te, startEvaluating fuel line σ = .err te σ' ∧
      σ'.bp = σ.bp ∧ σ'.loops = σ.loops ∧ σ'.fns = σ.fns ∧ σ'.data = σ.data ∧ σ'.lines = σ.lines ∧
      σ'.vars = σ.vars ∧ σ'.arrays = σ.arrays ∧ (σ.bp ≠ none → σ'.stack = σ.stack) := by
  let σ₀ := σ.setImmediate []
  refine ⟨{ σ₀ with state := .idle }, σ₀.populate { err := .syntax (.tokenization e) }, ?_, ?_⟩
  · cases hn : parseLineNumber line with
    | none =>
      simp only [hn, Option.map_none, Option.getD_none] at ht
      simp [startEvaluating, postprocess, evaluateImpl, hidle, maybeProcessCommand, hcmd, hn, ht,
        bind, M.bindM, M.get, M.modify, setImmediate, pure, M.pureM, M.fail, σ₀]
    | some p =>
      obtain ⟨n, k⟩ := p
      simp only [hn, Option.map_some, Option.getD_some] at ht
      simp [startEvaluating, postprocess, evaluateImpl, hidle, maybeProcessCommand, hcmd, hn, ht,
        bind, M.bindM, M.get, M.modify, setImmediate, pure, M.pureM, M.fail, σ₀]
  · refine ⟨rfl, rfl, rfl, rfl, rfl, rfl, rfl, ?_⟩
    intro hbp
    cases hb : σ.bp with
    | none => exact absurd hb hbp
    | some b => simp [σ₀, St.setImmediate, hb]

/-- Non-vacuity: a state inside a loop and a subroutine with a breakpoint. -/
example : let σ : St Unit := { bp := some (10, 1), stack := [{ ret := {}, vars := [] }],
                               loops := [{ loc := {}, sym := ['I'], toV := (), stepV := () }], fns := [(['F'], { args := [], line := 1, idx := 0 })] }
    (afterEdit σ 20 [.kw .End]).stack = [] ∧ (afterEdit σ 20 [.kw .End]).loops.length = 0 ∧ σ.state = .idle := by
  decide

end Abasic.Props.C11
