import Abasic.Props.C03Prog
import Abasic.Proofs.Stmt2All
/-
  C03, the control stack and DATA: FOR / NEXT, GOSUB / RETURN, READ / DATA /
  RESTORE, DIM and assignment to array cells, statement by statement and for
  whole programs.

  The reference semantics is Abasic/Ref/Stmt2.lean (`RStmt2`, `RStmt2.exec`:
  the rules are spelled out in its header) and Abasic/Ref/Prog2.lean (`RStep2`,
  `RSteps2`).  Proved here, about the model of the real code:

  * `stmt2_refines` — one activation of the statement evaluator on the rendering
    of a covered statement does what `RStmt2.exec` says (`Outcome`,
    Proofs/Prog2Rel.lean: the new variables, arrays, loop stack, GOSUB stack,
    DATA cursor and output; where the cursor goes; which error, on which line);
  * `turn2_colon`, `turn2_refines` — a turn on a colon stutters, a turn on a
    statement is exactly one `RStep2` (`Sim2`: the model's loop records and
    GOSUB frames are the reference ones with token positions for statement
    indexes — the position right behind the FOR / GOSUB statement, `AddrRel`);
  * `run2_start`, `run2_refines`, `run2_refines_steps`, `run2_ends`,
    `run2_fails` — whole runs, as in C03Prog.lean.

  Coverage (`Fits2`): as `Fits`, for the statements of `RStmt2`; the new
  statements are not covered as the branch of an IF (a restriction of the
  syntax `RStmt2`), and expressions cannot read array cells (`Ref.Expr` has no
  subscripted variables), so arrays are observed through errors only.
-/
set_option linter.unusedSectionVars false

namespace Abasic.Props.C03
open Abasic Abasic.Ref Abasic.ExprL Abasic.StmtL Abasic.ProgL Abasic.Prog2L Abasic.Stmt2L

variable {F : Type} [NumOps F]

/-! ### statements -/

/-- **Statement refinement** for LET, PRINT, GOTO, END, IF and FOR, NEXT, GOSUB,
    RETURN, READ, DATA, RESTORE, DIM, `LET a(i) = e`: with the model state `σ`
    corresponding to the reference state `r` (`SReady2`: `Mem`, `Env`, `RInv`, the
    cursor on statement `j` of line `n`), one activation of the statement
    evaluator realises the reference step `RStmt2.exec`. -/
theorem stmt2_refines {p : RProgram2 F} {r : RState2 F} {σ : St F} {n j : Nat} {ss : List (RStmt2 F)}
    {s : RStmt2 F} {fuel : Nat} (h : SReady2 p r σ n j ss s fuel) :
    Outcome p σ n ((preToks2 ss j).length + (renderS2 s).length) (renderLine2 ss).length
      (stmtBody (evalN fuel) σ) (s.exec (allData p) n j r).1 (s.exec (allData p) n j r).2 :=
  stmt2_run h

/-! ### the simulation relation -/

/-- the program fits the evaluator's resources and the coverage of the statement theorems -/
structure Fits2 (p : RProgram2 F) (fuel : Nat) : Prop where
  wf : p.WF
  covered : ∀ l ∈ p, ∀ s ∈ l.2, s.Covered
  depth : ∀ l ∈ p, ∀ s ∈ l.2, sdepth2 s ≤ fuel ∧ sdepth2 s ≤ Extracted.nestingLimit

/-- the cursor against the program counter `(n, j)`: running on line `n`, at the
    first token of statement `j` or (when `j > 0`) on the colon in front of it -/
def Pos2 (p : RProgram2 F) (n j : Nat) (σ : St F) : Prop :=
  σ.state = .running ∧ σ.loc.line = some n ∧
    ∃ ss, p.line n = some ss ∧ j < ss.length ∧
      (σ.loc.idx = (preToks2 ss j).length ∨ (0 < j ∧ σ.loc.idx + 1 = (preToks2 ss j).length))

/-- **The simulation relation.**  While the program runs: `Core2` (`Env`: the
    store holds the lines of the program, warnings and tracing off, nesting 0, no
    user functions; `Mem`: variables, arrays and output are the reference ones,
    the loop stack and the GOSUB stack correspond entry by entry, the DATA
    iterator stands where the reference cursor is; `RInv`) and the cursor stands
    where the program counter says.  After the end: idle, with the reference
    variables, arrays and output. -/
def Sim2 (p : RProgram2 F) (r : RState2 F) (σ : St F) : Prop :=
  match r.pc with
  | none => Final r σ
  | some (n, j) => Core2 p r σ ∧ Pos2 p n j σ

theorem preToks2_zero (ss : List (RStmt2 F)) : preToks2 ss 0 = [] := by
  cases ss <;> rfl

theorem landed2_sim {p : RProgram2 F} {r : RState2 F} {σ : St F} (h : Landed2 p r σ) : Sim2 p r σ := by
  unfold Landed2 at h
  unfold Sim2
  cases hpc : r.pc with
  | none => rw [hpc] at h; exact h
  | some nj =>
    obtain ⟨n, j⟩ := nj
    rw [hpc] at h
    obtain ⟨hc, hrun, ss, hl, hj, hline, hidx⟩ := h
    refine ⟨hc, hrun, hline, ss, hl, hj, ?_⟩
    by_cases h0 : j = 0
    · rw [if_pos h0] at hidx
      subst h0
      rw [preToks2_zero]
      exact Or.inl hidx
    · rw [if_neg h0] at hidx
      exact Or.inr ⟨Nat.pos_of_ne_zero h0, hidx⟩

/-- the outcome of a turn (or of RUN) against the outcome of a reference step from `r` -/
def TurnStep2 (p : RProgram2 F) (r : RState2 F) (res : Res F Unit) : RState2 F ⊕ (Err × Nat) → Prop
  | .inl r' => ∃ σ', res = .ok () σ' ∧ Sim2 p r' σ'
  | .inr (e, ln) => ∃ σ' i, res = .err { err := e, loc := some { line := some ln, idx := i } } σ' ∧
      σ'.state = .idle ∧ σ'.out = outRecs r.out

theorem turnStep2_of_stepsTo {p : RProgram2 F} {r : RState2 F} {σ σ0 : St F} {m : M F Unit}
    (x : RState2 F ⊕ (Err × Nat)) (hout : σ.out = outRecs r.out) (h : StepsTo2 p (m σ) σ x)
    (hpost : postprocess m σ0 = postprocess m σ) :
    TurnStep2 p r (postprocess m σ0) x := by
  rw [hpost]
  cases x with
  | inl r' =>
    obtain ⟨σ', hσ', hland⟩ := h
    exact ⟨σ', by unfold postprocess; rw [hσ'], landed2_sim hland⟩
  | inr eln =>
    obtain ⟨e, ln⟩ := eln
    obtain ⟨σ', i, hσ', ho, hpop⟩ := h
    refine ⟨{ σ' with state := .idle }, i, ?_, rfl, by show σ'.out = _; rw [ho, hout]⟩
    unfold postprocess
    rw [hσ']
    show Res.err (σ'.populate { err := e }) _ = _
    rw [hpop]

/-! ### one turn -/

/-- the hypotheses of the statement theorems hold at the start of a turn -/
theorem sready_turn {p : RProgram2 F} {fuel : Nat} (hfit : Fits2 p fuel) {r : RState2 F} {σ : St F}
    (hc : Core2 p r σ) {n j : Nat} {ss : List (RStmt2 F)} {s : RStmt2 F}
    (hl : p.line n = some ss) (hs : ss[j]? = some s)
    (hloc : σ.loc = { line := some n, idx := (preToks2 ss j).length }) :
    SReady2 p r (mv { σ with state := .running } 0 (σ.reads + 1)) n j ss s fuel where
  wf := hfit.wf
  env := ⟨hc.env.lines, hc.env.warnings, hc.env.tracing, hc.env.nesting, hc.env.fns⟩
  mem := ⟨hc.mem.vars, hc.mem.arrays, hc.mem.loops, hc.mem.stack, hc.mem.data, hc.mem.out⟩
  inv := hc.inv
  line := hl
  stmt := hs
  locline := by show σ.loc.line = _; rw [hloc]
  idx := by show σ.loc.idx + 0 = _; rw [hloc]; rfl
  fuel := (hfit.depth _ (line_mem hl) s (List.mem_of_getElem? hs)).1
  nest := (hfit.depth _ (line_mem hl) s (List.mem_of_getElem? hs)).2
  covered := hfit.covered _ (line_mem hl) s (List.mem_of_getElem? hs)

/-- the core of `turn2_refines` and `run2_start` -/
theorem rns2_refines {p : RProgram2 F} {fuel : Nat} (hfit : Fits2 p fuel) {r : RState2 F} {σ : St F}
    (hc : Core2 p r σ) {n j : Nat} {ss : List (RStmt2 F)} {s : RStmt2 F}
    (hpc : r.pc = some (n, j)) (hl : p.line n = some ss) (hs : ss[j]? = some s)
    (hloc : σ.loc = { line := some n, idx := (preToks2 ss j).length }) :
    StepsTo2 p (runNextStatement fuel σ) σ (RStep2 p r) :=
  rns2_stmt hfit.wf hc hpc hl hs hloc (stmt2_run (sready_turn hfit hc hl hs hloc))
    (exec2_inv (allData p) n j hc.inv s)

/-- **A turn on a colon.**  With the cursor on the colon in front of the
    statement the reference machine is at, a turn succeeds, moves the cursor to
    the first token of that statement and changes nothing else the simulation
    relation sees: the reference machine does not move. -/
theorem turn2_colon {p : RProgram2 F} {fuel : Nat} {r : RState2 F} {σ : St F}
    (h : Sim2 p r σ) {n j : Nat} {ss : List (RStmt2 F)} (hpc : r.pc = some (n, j)) (hl : p.line n = some ss)
    (hidx : σ.loc.idx + 1 = (preToks2 ss j).length) :
    ∃ σ', continueEvaluating fuel σ = .ok () σ' ∧ Sim2 p r σ' ∧ σ'.loc.idx = (preToks2 ss j).length := by
  unfold Sim2 at h
  rw [hpc] at h
  obtain ⟨hc, hrun, hline, ss', hl', hj, hcur⟩ := h
  rw [hl] at hl'
  cases hl'
  have h0 : 0 < j := by
    rcases hcur with hc' | hc'
    · omega
    · exact hc'.1
  obtain ⟨j', rfl⟩ : ∃ j', j = j' + 1 := ⟨j - 1, by omega⟩
  have hσ' := rns2_colon (fuel := fuel) hc.env hl hj hline hidx
  refine ⟨{ σ with state := .running, loc := { line := some n, idx := (preToks2 ss (j' + 1)).length },
                   reads := σ.reads + 1 + 1 + 1 }, ?_, ?_, rfl⟩
  · rw [C09.continue_is_one_turn fuel σ hrun]
    exact postprocess_ok hσ'
  · unfold Sim2
    rw [hpc]
    exact ⟨⟨⟨hc.env.lines, hc.env.warnings, hc.env.tracing, hc.env.nesting, hc.env.fns⟩,
      ⟨hc.mem.vars, hc.mem.arrays, hc.mem.loops, hc.mem.stack, hc.mem.data, hc.mem.out⟩, hc.inv⟩,
      rfl, rfl, ss, hl, hj, Or.inl rfl⟩

/-- **A turn on a statement is one reference step.**  With the cursor on the
    first token of the statement at the program counter, `continueEvaluating`
    does what `RStep2` says: on `.inl r'` it succeeds in a state related to `r'`;
    on `.inr (e, ln)` it fails with `e` located on line `ln` (for DATA TYPE
    MISMATCH: the line of the DATA statement), the interpreter is idle and the
    failing statement has printed nothing. -/
theorem turn2_refines {p : RProgram2 F} {fuel : Nat} (hfit : Fits2 p fuel) {r : RState2 F} {σ : St F}
    (h : Sim2 p r σ) {n j : Nat} {ss : List (RStmt2 F)} (hpc : r.pc = some (n, j)) (hl : p.line n = some ss)
    (hidx : σ.loc.idx = (preToks2 ss j).length) :
    TurnStep2 p r (continueEvaluating fuel σ) (RStep2 p r) := by
  unfold Sim2 at h
  rw [hpc] at h
  obtain ⟨hc, hrun, hline, ss', hl', hj, _⟩ := h
  rw [hl] at hl'
  cases hl'
  have hs : ss[j]? = some ss[j] := by simp [hj]
  have hloc : σ.loc = { line := some n, idx := (preToks2 ss j).length } := by
    rw [← hidx, ← hline]
  have hS := rns2_refines hfit hc hpc hl hs hloc
  rw [C09.continue_is_one_turn fuel σ hrun]
  exact turnStep2_of_stepsTo (RStep2 p r) hc.mem.out hS rfl

/-! ### RUN -/

/-- what RUN needs of the state it is typed into -/
structure PReady2 (p : RProgram2 F) (σ : St F) : Prop where
  idle : σ.state = .idle
  lines : Holds σ.lines p
  warnings : σ.warnings = false
  tracing : σ.tracing = false
  nesting : σ.nesting = 0
  out : σ.out = []

theorem rinv_start (p : RProgram2 F) : RInv p.start :=
  ⟨fun k v h => by simp [RProgram2.start, alGet] at h, fun k a h => by simp [RProgram2.start, alGet] at h⟩

/-- a turn on the empty immediate line: the interpreter falls idle -/
theorem rns_imm2 (fuel : Nat) (σ : St F) (hl : σ.loc = {}) (hi : σ.imm = []) :
    ∃ σ', runNextStatement fuel σ = .ok () σ' ∧ σ'.state = .idle ∧ σ'.vars = σ.vars ∧ σ'.arrays = σ.arrays ∧
      σ'.out = σ.out := by
  have hm : (M.modify fun s : St F => { s with state := .running }) σ = .ok () { σ with state := .running } := rfl
  have hAt : At ({ σ with state := .running } : St F) [] [] := by
    refine ⟨?_, by show σ.loc.idx = 0; rw [hl]⟩
    show (match σ.loc.line with | none => some σ.imm | some n => σ.lines.get n) = _
    rw [hl, hi]
    rfl
  rw [C09.turn_anatomy, bind_ok hm, bind_ok (hasNext_nil hAt)]
  refine ⟨_, sequence_imm (σ := mv { σ with state := .running } 0 (σ.reads + 1)) ?_ hi, rfl, rfl, rfl, rfl⟩
  show ({ line := σ.loc.line, idx := σ.loc.idx + 0 } : Loc) = {}
  rw [hl]

/-- **RUN is the first reference step**: it clears variables, arrays, both
    stacks and the DATA cursor, puts the cursor on the first line and runs its
    first statement in the same call. -/
theorem run2_start {p : RProgram2 F} {fuel : Nat} (hfit : Fits2 p fuel) {σ : St F} (h : PReady2 p σ) :
    TurnStep2 p p.start (startEvaluating fuel "RUN".toList σ) (RStep2 p p.start) := by
  rw [startEvaluating_run fuel σ h.idle]
  cases hp : p with
  | nil =>
    subst hp
    have hfirst : σ.lines.first = none := by rw [holds_first h.lines]; rfl
    obtain ⟨σ', hσ', hidle, hvars, harr, hout⟩ :=
      rns_imm2 fuel (runInit σ) (by rw [runInit_none hfirst]; rfl) (by rw [runInit_none hfirst]; rfl)
    have harr : σ'.arrays = [] := by rw [harr, runInit_none hfirst]; rfl
    refine ⟨σ', postprocess_ok hσ', ?_⟩
    show Final _ σ'
    rw [runInit_none hfirst] at hvars hout
    exact ⟨hidle, hvars, harr, hout.trans h.out⟩
  | cons l rest =>
    rw [← hp]
    have hfirstp : p.first = some l.1 := by rw [hp]; rfl
    have hfirst : σ.lines.first = some l.1 := by rw [holds_first h.lines, hfirstp]
    obtain ⟨ss, hl⟩ := first_line hfirstp
    have hlen := line_nonempty2 hfit.wf hl
    have hs : ss[0]? = some ss[0] := by simp [hlen]
    have hc : Core2 p p.start (runInit σ) := by
      rw [runInit_first hfirst]
      exact ⟨⟨h.lines, h.warnings, h.tracing, h.nesting, rfl⟩,
        ⟨rfl, rfl, Rel2.nil, Rel2.nil, rfl, h.out⟩, rinv_start p⟩
    have hpc : p.start.pc = some (l.1, 0) := by
      show (p.first.map fun n => (n, 0)) = _
      rw [hfirstp]; rfl
    have hloc : (runInit σ).loc = { line := some l.1, idx := (preToks2 ss 0).length } := by
      rw [runInit_first hfirst, preToks2_zero]; rfl
    have hS := rns2_refines hfit hc hpc hl hs hloc
    exact turnStep2_of_stepsTo (RStep2 p p.start) hc.mem.out hS rfl

/-! ### runs -/

/-- the outcome of a run of the model against the outcome of a run of the
    reference machine: related states, or the same error on the same line with
    the same PRINT records before it -/
def RunMatch2 (p : RProgram2 F) (res : Res F Unit) : RState2 F ⊕ (Err × Nat × List Str) → Prop
  | .inl r' => ∃ σ', res = .ok () σ' ∧ Sim2 p r' σ'
  | .inr (e, ln, out) => ∃ σ' i, res = .err { err := e, loc := some { line := some ln, idx := i } } σ' ∧
      σ'.state = .idle ∧ σ'.out = outRecs out

theorem rsteps2_ok {p : RProgram2 F} {r r' : RState2 F} (n : Nat) (h : RStep2 p r = .inl r') :
    RSteps2 p (n + 1) r = RSteps2 p n r' := by
  simp only [RSteps2, h]

theorem rsteps2_err {p : RProgram2 F} {r : RState2 F} {e : Err} {ln : Nat} (n : Nat)
    (h : RStep2 p r = .inr (e, ln)) : RSteps2 p (n + 1) r = .inr (e, ln, r.out) := by
  simp only [RSteps2, h]

theorem rstep2_ended {p : RProgram2 F} {r : RState2 F} (h : r.pc = none) : RStep2 p r = .inl r := by
  simp only [RStep2, h]

theorem sim2_idle {p : RProgram2 F} {r : RState2 F} {σ : St F} (h : Sim2 p r σ) (hpc : r.pc = none) :
    σ.state = .idle := by
  unfold Sim2 at h; rw [hpc] at h; exact h.1

theorem sim2_running {p : RProgram2 F} {r : RState2 F} {σ : St F} (h : Sim2 p r σ) {n j : Nat}
    (hpc : r.pc = some (n, j)) : Pos2 p n j σ := by
  unfold Sim2 at h; rw [hpc] at h; exact h.2

/-- **`k` turns are at most `k` reference steps** (a turn on a colon is none). -/
theorem turns2_refines {p : RProgram2 F} {fuel : Nat} (hfit : Fits2 p fuel) :
    ∀ (k : Nat) (r : RState2 F) (σ : St F), Sim2 p r σ →
      ∃ n, n ≤ k ∧ RunMatch2 p (turns fuel k σ) (RSteps2 p n r)
  | 0, r, σ, h => ⟨0, Nat.le_refl _, σ, rfl, h⟩
  | k + 1, r, σ, h => by
    cases hpc : r.pc with
    | none => exact ⟨0, Nat.zero_le _, σ, turns_idle fuel _ σ (sim2_idle h hpc), h⟩
    | some nj =>
      obtain ⟨n0, j⟩ := nj
      obtain ⟨hrun, hline, ss, hl, hj, hcur⟩ := sim2_running h hpc
      rcases hcur with hidx | ⟨_, hidx⟩
      · have hT := turn2_refines hfit h hpc hl hidx
        cases hstep : RStep2 p r with
        | inl r' =>
          rw [hstep] at hT
          obtain ⟨σ', hσ', hsim⟩ := hT
          obtain ⟨n, hn, hm⟩ := turns2_refines hfit k r' σ' hsim
          refine ⟨n + 1, by omega, ?_⟩
          rw [rsteps2_ok n hstep, turns_ok fuel k hrun hσ']
          exact hm
        | inr eln =>
          obtain ⟨e, ln⟩ := eln
          rw [hstep] at hT
          obtain ⟨σ', i, hσ', hidle, hout⟩ := hT
          refine ⟨1, by omega, ?_⟩
          rw [rsteps2_err 0 hstep, turns_err fuel k hrun hσ']
          exact ⟨σ', i, rfl, hidle, hout⟩
      · obtain ⟨σ', hσ', hsim, _⟩ := turn2_colon (fuel := fuel) h hpc hl hidx
        obtain ⟨n, hn, hm⟩ := turns2_refines hfit k r σ' hsim
        refine ⟨n, by omega, ?_⟩
        rw [turns_ok fuel k hrun hσ']
        exact hm

/-- **`n` reference steps are at most `2 n` turns.** -/
theorem steps2_refines {p : RProgram2 F} {fuel : Nat} (hfit : Fits2 p fuel) :
    ∀ (n : Nat) (r : RState2 F) (σ : St F), Sim2 p r σ →
      ∃ k, k ≤ 2 * n ∧ RunMatch2 p (turns fuel k σ) (RSteps2 p n r)
  | 0, r, σ, h => ⟨0, Nat.le_refl _, σ, rfl, h⟩
  | n + 1, r, σ, h => by
    cases hpc : r.pc with
    | none =>
      obtain ⟨k, hk, hm⟩ := steps2_refines hfit n r σ h
      refine ⟨k, by omega, ?_⟩
      rw [rsteps2_ok n (rstep2_ended hpc)]
      exact hm
    | some nj =>
      obtain ⟨n0, j⟩ := nj
      obtain ⟨hrun, hline, ss, hl, hj, hcur⟩ := sim2_running h hpc
      have atStmt : ∀ σ : St F, Sim2 p r σ → σ.state = .running → σ.loc.idx = (preToks2 ss j).length →
          ∃ k, k ≤ 2 * n + 1 ∧ RunMatch2 p (turns fuel k σ) (RSteps2 p (n + 1) r) := by
        intro σ h hrun hidx
        have hT := turn2_refines hfit h hpc hl hidx
        cases hstep : RStep2 p r with
        | inl r' =>
          rw [hstep] at hT
          obtain ⟨σ', hσ', hsim⟩ := hT
          obtain ⟨k, hk, hm⟩ := steps2_refines hfit n r' σ' hsim
          refine ⟨k + 1, by omega, ?_⟩
          rw [rsteps2_ok n hstep, turns_ok fuel k hrun hσ']
          exact hm
        | inr eln =>
          obtain ⟨e, ln⟩ := eln
          rw [hstep] at hT
          obtain ⟨σ', i, hσ', hidle, hout⟩ := hT
          refine ⟨1, by omega, ?_⟩
          rw [rsteps2_err n hstep, turns_err fuel 0 hrun hσ']
          exact ⟨σ', i, rfl, hidle, hout⟩
      rcases hcur with hidx | ⟨_, hidx⟩
      · obtain ⟨k, hk, hm⟩ := atStmt σ h hrun hidx
        exact ⟨k, by omega, hm⟩
      · obtain ⟨σ', hσ', hsim, hidx'⟩ := turn2_colon (fuel := fuel) h hpc hl hidx
        have hrun' : σ'.state = .running := (sim2_running hsim hpc).1
        obtain ⟨k, hk, hm⟩ := atStmt σ' hsim hrun' hidx'
        refine ⟨k + 1, by omega, ?_⟩
        rw [turns_ok fuel k hrun hσ']
        exact hm

/-- **Whole runs, by turns.**  RUN followed by `k` turns of the host loop does
    what `n` reference steps from the start of the program do, for some `n`
    between 1 and `k + 1`. -/
theorem run2_refines {p : RProgram2 F} {fuel : Nat} (hfit : Fits2 p fuel) {σ : St F} (h : PReady2 p σ) (k : Nat) :
    ∃ n, 1 ≤ n ∧ n ≤ k + 1 ∧ RunMatch2 p (runTurns fuel k σ) (RSteps2 p n p.start) := by
  have hT := run2_start hfit h
  unfold runTurns
  cases hstep : RStep2 p p.start with
  | inl r' =>
    rw [hstep] at hT
    obtain ⟨σ', hσ', hsim⟩ := hT
    obtain ⟨n, hn, hm⟩ := turns2_refines hfit k r' σ' hsim
    refine ⟨n + 1, by omega, by omega, ?_⟩
    rw [rsteps2_ok n hstep, hσ']
    exact hm
  | inr eln =>
    obtain ⟨e, ln⟩ := eln
    rw [hstep] at hT
    obtain ⟨σ', i, hσ', hidle, hout⟩ := hT
    refine ⟨1, by omega, by omega, ?_⟩
    rw [rsteps2_err 0 hstep, hσ']
    exact ⟨σ', i, rfl, hidle, hout⟩

/-- **Whole runs, by reference steps.**  `n + 1` reference steps from the start of
    the program are RUN followed by some `k ≤ 2 n` turns of the host loop. -/
theorem run2_refines_steps {p : RProgram2 F} {fuel : Nat} (hfit : Fits2 p fuel) {σ : St F} (h : PReady2 p σ)
    (n : Nat) : ∃ k, k ≤ 2 * n ∧ RunMatch2 p (runTurns fuel k σ) (RSteps2 p (n + 1) p.start) := by
  have hT := run2_start hfit h
  unfold runTurns
  cases hstep : RStep2 p p.start with
  | inl r' =>
    rw [hstep] at hT
    obtain ⟨σ', hσ', hsim⟩ := hT
    obtain ⟨k, hk, hm⟩ := steps2_refines hfit n r' σ' hsim
    refine ⟨k, hk, ?_⟩
    rw [rsteps2_ok n hstep, hσ']
    exact hm
  | inr eln =>
    obtain ⟨e, ln⟩ := eln
    rw [hstep] at hT
    obtain ⟨σ', i, hσ', hidle, hout⟩ := hT
    refine ⟨0, by omega, ?_⟩
    rw [rsteps2_err n hstep, hσ']
    exact ⟨σ', i, rfl, hidle, hout⟩

/-- **A program that ends, ends the same way in the model**: if the reference
    machine has reached its end after `n + 1` steps, then RUN and some `k ≤ 2 n`
    turns leave the interpreter idle, holding the reference variables and arrays,
    and the host takes exactly the reference PRINT records from the output queue. -/
theorem run2_ends {p : RProgram2 F} {fuel : Nat} (hfit : Fits2 p fuel) {σ : St F} (h : PReady2 p σ) (n : Nat)
    {r' : RState2 F} (hr : RSteps2 p (n + 1) p.start = .inl r') (hend : r'.pc = none) :
    ∃ k σ', k ≤ 2 * n ∧ runTurns fuel k σ = .ok () σ' ∧ σ'.state = .idle ∧ σ'.vars = r'.vars ∧
      σ'.arrays = r'.arrays ∧ (takeOutput σ').1 = r'.out.map Out.print := by
  obtain ⟨k, hk, hm⟩ := run2_refines_steps hfit h n
  rw [hr] at hm
  obtain ⟨σ', hσ', hsim⟩ := hm
  unfold Sim2 at hsim
  rw [hend] at hsim
  exact ⟨k, σ', hk, hσ', hsim.1, hsim.2.1, hsim.2.2.1, takeOutput_outRecs hsim.2.2.2⟩

/-- **A program that fails, fails the same way in the model**: the same error,
    attributed to the same line, after the same printed output. -/
theorem run2_fails {p : RProgram2 F} {fuel : Nat} (hfit : Fits2 p fuel) {σ : St F} (h : PReady2 p σ) (n : Nat)
    {e : Err} {ln : Nat} {out : List Str} (hr : RSteps2 p (n + 1) p.start = .inr (e, ln, out)) :
    ∃ k σ' i, k ≤ 2 * n ∧
      runTurns fuel k σ = .err { err := e, loc := some { line := some ln, idx := i } } σ' ∧
      σ'.state = .idle ∧ (takeOutput σ').1 = out.map Out.print := by
  obtain ⟨k, hk, hm⟩ := run2_refines_steps hfit h n
  rw [hr] at hm
  obtain ⟨σ', i, hσ', hidle, hout⟩ := hm
  exact ⟨k, σ', i, hk, hσ', hidle, takeOutput_outRecs hout⟩

/-! ### non-vacuity (on the degenerate carrier `Unit`: every number is `()`, `toU64 () = 0`, every comparison holds) -/

theorem ready2_compile (p : RProgram2 Unit) : PReady2 p ({ lines := compileP2 p } : St Unit) :=
  ⟨rfl, holds_compile p, rfl, rfl, rfl, rfl⟩

def errOf2 {α : Type} : Res Unit α → Option TErr
  | .ok _ _ => none
  | .err e _ => some e

/-- `0 GOSUB 0` -/
def gosubProg : RProgram2 Unit := [ (0, [.gosubS 0]) ]

theorem gosub_fits : Fits2 gosubProg defaultFuel where
  wf := ⟨by decide, by intro l hl; simp [gosubProg] at hl; subst hl; simp⟩
  covered := by
    intro l hl s hs
    simp [gosubProg] at hl; subst hl
    simp at hs; subst hs
    show NumOps.toU64 (NumOps.ofNat 0 : Unit) = 0
    rfl
  depth := by
    intro l hl s hs
    simp [gosubProg] at hl; subst hl
    simp at hs; subst hs
    simp [sdepth2]

/-- the reference machine: 32 frames are pushed, the 33rd GOSUB is OUT OF MEMORY on line 0 -/
theorem gosub_ref : RSteps2 gosubProg 33 gosubProg.start = .inr (.oomStack, 0, []) := rfl

/-- by computation on the model: RUN and 32 turns end in OUT OF MEMORY located on line 0 -/
example : errOf2 (runTurns defaultFuel 32 ({ lines := compileP2 gosubProg } : St Unit)) =
    some { err := .oomStack, loc := some { line := some 0, idx := 1 } } := by
  decide +kernel

/-- … and the same by the theorems -/
example : ∃ k σ' i, k ≤ 64 ∧ runTurns defaultFuel k ({ lines := compileP2 gosubProg } : St Unit) =
      .err { err := .oomStack, loc := some { line := some 0, idx := i } } σ' ∧ σ'.state = .idle :=
  let ⟨k, σ', i, hk, hr, hi, _⟩ := run2_fails gosub_fits (ready2_compile gosubProg) 32 gosub_ref
  ⟨k, σ', i, hk, hr, hi⟩

/-- ```
    10 READ A$, B$ : PRINT A$; : PRINT B$;
    20 DATA "X", 0
    30 RESTORE : READ C$ : PRINT C$; : END
    ``` -/
def dataProg : RProgram2 Unit :=
  [ (10, [.readS [['A', '$'], ['B', '$']], .printS [.expr (.var ['A', '$']), .semi],
          .printS [.expr (.var ['B', '$']), .semi]]),
    (20, [.dataS [.str ['X'], .num ()]]),
    (30, [.restoreS, .readS [['C', '$']], .printS [.expr (.var ['C', '$']), .semi], .endS]) ]

theorem data_fits : Fits2 dataProg defaultFuel where
  wf := ⟨by decide, by intro l hl; simp [dataProg] at hl; rcases hl with rfl | rfl | rfl <;> simp⟩
  covered := by
    intro l hl s hs
    simp [dataProg] at hl
    rcases hl with rfl | rfl | rfl
    · simp at hs; rcases hs with rfl | rfl | rfl <;> simp [RStmt2.Covered, RStmt.Covered, separated]
    · simp at hs; subst hs; simp [RStmt2.Covered]
    · simp at hs; rcases hs with rfl | rfl | rfl | rfl <;> simp [RStmt2.Covered, RStmt.Covered, separated]
  depth := by
    intro l hl s hs
    simp [dataProg] at hl
    rcases hl with rfl | rfl | rfl
    · simp at hs
      rcases hs with rfl | rfl | rfl <;>
        simp [sdepth2, sdepth, itemsDepth, depth, defaultFuel, Extracted.nestingLimit]
    · simp at hs; subst hs; simp [sdepth2]
    · simp at hs
      rcases hs with rfl | rfl | rfl | rfl <;>
        simp [sdepth2, sdepth, itemsDepth, depth, defaultFuel, Extracted.nestingLimit]

/-- the reference machine: eight steps to the end; the number read into `B$` is stored as its text -/
theorem data_ref : ∃ r', RSteps2 dataProg 8 dataProg.start = .inl r' ∧ r'.pc = none ∧
    r'.out = [['X'], ['0'], ['X']] := ⟨_, rfl, rfl, rfl⟩

/-- by the theorems: the model ends idle having printed `X`, `0`, `X` -/
example : ∃ k σ', k ≤ 14 ∧ runTurns defaultFuel k ({ lines := compileP2 dataProg } : St Unit) = .ok () σ' ∧
    σ'.state = .idle ∧ (takeOutput σ').1 = [.print ['X'], .print ['0'], .print ['X']] := by
  obtain ⟨r', hr, hend, hout⟩ := data_ref
  obtain ⟨k, σ', hk, hrun, hidle, _, _, ho⟩ := run2_ends data_fits (ready2_compile dataProg) 7 hr hend
  exact ⟨k, σ', hk, hrun, hidle, by rw [ho, hout]; rfl⟩

/-- ```
    10 READ A
    20 DATA "X"
    ``` -/
def dtmProg : RProgram2 Unit := [ (10, [.readS [['A']]]), (20, [.dataS [.str ['X']]]) ]

theorem dtm_fits : Fits2 dtmProg defaultFuel where
  wf := ⟨by decide, by intro l hl; simp [dtmProg] at hl; rcases hl with rfl | rfl <;> simp⟩
  covered := by
    intro l hl s hs
    simp [dtmProg] at hl
    rcases hl with rfl | rfl <;> simp at hs <;> subst hs <;> simp [RStmt2.Covered]
  depth := by
    intro l hl s hs
    simp [dtmProg] at hl
    rcases hl with rfl | rfl <;> simp at hs <;> subst hs <;> simp [sdepth2]

/-- the reference machine: DATA TYPE MISMATCH, reported for the line of the DATA statement -/
theorem dtm_ref : RSteps2 dtmProg 1 dtmProg.start = .inr (.dataTypeMismatch, 20, []) := rfl

/-- by the theorems: RUN fails with DATA TYPE MISMATCH located on line 20 (the READ is on line 10) -/
example : ∃ σ' i, runTurns defaultFuel 0 ({ lines := compileP2 dtmProg } : St Unit) =
      .err { err := .dataTypeMismatch, loc := some { line := some 20, idx := i } } σ' ∧ σ'.state = .idle := by
  obtain ⟨k, σ', i, hk, hr, hi, _⟩ := run2_fails dtm_fits (ready2_compile dtmProg) 0 dtm_ref
  have : k = 0 := by omega
  subst this
  exact ⟨σ', i, hr, hi⟩

/-- `10 FOR I = 0 TO 0 : PRINT "A"; : NEXT I` -/
def forProg : RProgram2 Unit :=
  [ (10, [.forS ['I'] (.num ()) (.num ()) none, .printS [.expr (.str ['A']), .semi], .nextS ['I']]) ]

theorem for_fits : Fits2 forProg defaultFuel where
  wf := ⟨by decide, by intro l hl; simp [forProg] at hl; subst hl; simp⟩
  covered := by
    intro l hl s hs
    simp [forProg] at hl; subst hl
    simp at hs
    rcases hs with rfl | rfl | rfl <;> simp [RStmt2.Covered, RStmt.Covered, separated]
  depth := by
    intro l hl s hs
    simp [forProg] at hl; subst hl
    simp at hs
    rcases hs with rfl | rfl | rfl <;>
      simp [sdepth2, sdepth, itemsDepth, depth, defaultFuel, Extracted.nestingLimit]

/-- the reference machine (on `Unit` every comparison holds, so the loop repeats): after
    FOR, PRINT, NEXT, PRINT, NEXT, PRINT it stands on the NEXT, one loop open, `AAA` printed -/
theorem for_ref : ∃ r', RSteps2 forProg 6 forProg.start = .inl r' ∧ r'.pc = some (10, 2) ∧
    r'.out = [['A'], ['A'], ['A']] ∧ r'.loops.length = 1 := ⟨_, rfl, rfl, rfl, rfl⟩

/-- by the theorems: within 10 turns after RUN the model is running on line 10 with `AAA` in the
    output queue and one loop record -/
example : ∃ k σ', k ≤ 10 ∧ runTurns defaultFuel k ({ lines := compileP2 forProg } : St Unit) = .ok () σ' ∧
    σ'.state = .running ∧ σ'.loc.line = some 10 ∧ (takeOutput σ').1 = [.print ['A'], .print ['A'], .print ['A']] ∧
    σ'.loops.length = 1 := by
  obtain ⟨r', hr, hpc, hout, hloops⟩ := for_ref
  obtain ⟨k, hk, hm⟩ := run2_refines_steps for_fits (ready2_compile forProg) 5
  rw [hr] at hm
  obtain ⟨σ', hσ', hsim⟩ := hm
  unfold Sim2 at hsim
  rw [hpc] at hsim
  obtain ⟨hc, hrun, hline, _⟩ := hsim
  refine ⟨k, σ', hk, hσ', hrun, hline, ?_, ?_⟩
  · rw [takeOutput_outRecs hc.mem.out, hout]; rfl
  · rw [← hc.mem.loops.length, hloops]

/-! ### two consequences of the array rules worth knowing -/

/-- `10 LET A(0,0,0,0) = 0` -/
def arr4Prog : RProgram2 Unit :=
  [ (10, [.letCellS ['A'] [.num (), .num (), .num (), .num ()] (.num ())]) ]

def arr4Lines : Lines Unit :=
  { map := [ (10, [.kw .Let, .symbol ['A'], .kw .LeftParen, .num (), .kw .Comma, .num (), .kw .Comma, .num (),
                   .kw .Comma, .num (), .kw .RightParen, .kw .Equals, .num ()]) ],
    sorted := [10] }

theorem arr4_compile : compileP2 arr4Prog = arr4Lines := by
  simp [compileP2, arr4Prog, arr4Lines, renderLine2, renderTail2, renderS2, renderSubs2, render_num]

/-- An array with four subscripts cannot be used without DIM: the implicit array
    would have 11⁴ = 14641 cells, more than the cap of 10000 — OUT OF MEMORY.
    By the reference machine, and by computation on the model. -/
theorem implicit_4d_oom :
    RSteps2 arr4Prog 1 arr4Prog.start = .inr (.oomArray, 10, []) ∧
    errOf2 (runTurns defaultFuel 0 ({ lines := compileP2 arr4Prog } : St Unit)) =
      some { err := .oomArray, loc := some { line := some 10, idx := 12 } } := by
  refine ⟨rfl, ?_⟩
  rw [arr4_compile]
  decide +kernel

/-- `10 LET A(0) = 0 : DIM A(0)` -/
def redimProg : RProgram2 Unit :=
  [ (10, [.letCellS ['A'] [.num ()] (.num ()), .dimS ['A'] [.num ()]]) ]

def redimLines : Lines Unit :=
  { map := [ (10, [.kw .Let, .symbol ['A'], .kw .LeftParen, .num (), .kw .RightParen, .kw .Equals, .num (),
                   .kw .Colon, .kw .Dim, .symbol ['A'], .kw .LeftParen, .num (), .kw .RightParen]) ],
    sorted := [10] }

theorem redim_compile : compileP2 redimProg = redimLines := by
  simp [compileP2, redimProg, redimLines, renderLine2, renderTail2, renderS2, renderSubs2, render_num]

/-- DIM of an array that was created implicitly by an earlier use is REDIM'D ARRAY. -/
theorem implicit_then_dim :
    RSteps2 redimProg 2 redimProg.start = .inr (.redimensionedArray, 10, []) ∧
    errOf2 (runTurns defaultFuel 2 ({ lines := compileP2 redimProg } : St Unit)) =
      some { err := .redimensionedArray, loc := some { line := some 10, idx := 12 } } := by
  refine ⟨rfl, ?_⟩
  rw [redim_compile]
  decide +kernel

end Abasic.Props.C03
