import Abasic.Proofs.LinesLemmas
import Abasic.Interp
/-
  C04 — the program store is a last-writer-wins map, listed and run in line order.

  `Lines` (Lines.lean) models BOTH indexes of program_lines.rs: the token map
  (`HashMap`) and the ordered set of line numbers (`BTreeSet`).  That they agree
  is a theorem here, not an assumption.
-/
namespace Abasic.Props.C04
open Abasic Abasic.Lines

variable {F : Type}

/-- The two indexes agree and the ordered index is strictly ascending. -/
structure WF (l : Lines F) : Prop where
  sorted : l.sorted.Pairwise (· < ·)
  agree : ∀ n, n ∈ l.sorted ↔ (l.get n).isSome

theorem wf_empty : WF ({} : Lines F) := ⟨by simp, by intro n; simp [Lines.get, getMap]⟩

/-- The store as a finite map: an edit writes (or erases, for an empty token
    list) exactly its own key — last writer wins. -/
theorem get_set (l : Lines F) (n m : Nat) (ts : List (Token F)) :
    (l.set n ts).get m = if m = n then (if ts.isEmpty then none else some ts) else l.get m := by
  unfold Lines.set Lines.get
  by_cases he : ts.isEmpty
  · simp only [he, ↓reduceIte, getMap_eraseMap]
  · simp only [he, Bool.false_eq_true, ↓reduceIte, getMap_setMap]

/-- `WF` is an invariant of every edit. -/
theorem wf_set (l : Lines F) (h : WF l) (n : Nat) (ts : List (Token F)) : WF (l.set n ts) := by
  constructor
  · unfold Lines.set
    split
    · exact sorted_eraseSorted n _ h.sorted
    · exact sorted_insertSorted n _ h.sorted
  · intro m
    rw [get_set]
    unfold Lines.set
    by_cases he : ts.isEmpty
    · simp only [he, ↓reduceIte, mem_eraseSorted]
      by_cases hm : m = n
      · simp [hm]
      · simp [hm, h.agree m]
    · simp only [he, Bool.false_eq_true, ↓reduceIte, mem_insertSorted]
      by_cases hm : m = n
      · simp [hm]
      · simp [hm, h.agree m]

/-- Every store reachable by edits from the empty one is well formed. -/
theorem wf_reachable (edits : List (Nat × List (Token F))) :
    WF (edits.foldl (fun l e => l.set e.1 e.2) ({} : Lines F)) := by
  suffices ∀ l : Lines F, WF l → WF (edits.foldl (fun l e => l.set e.1 e.2) l) from this _ wf_empty
  induction edits with
  | nil => intro l h; exact h
  | cons e es ih => intro l h; exact ih _ (wf_set l h e.1 e.2)

/-- The abstract spec: a finite map from line number to token list. -/
abbrev Spec (F : Type) := Nat → Option (List (Token F))
def Spec.edit (m : Spec F) (n : Nat) (ts : List (Token F)) : Spec F :=
  fun k => if k = n then (if ts.isEmpty then none else some ts) else m k

/-- Refinement: after any edit history the store denotes the map obtained by
    applying the same edits to the spec (including deletions by a bare number). -/
theorem store_refines (edits : List (Nat × List (Token F))) (l : Lines F) :
    (edits.foldl (fun l e => l.set e.1 e.2) l).get =
    edits.foldl (fun m e => Spec.edit m e.1 e.2) (l.get : Spec F) := by
  induction edits generalizing l with
  | nil => rfl
  | cons e es ih =>
    have : (l.set e.1 e.2).get = Spec.edit (l.get : Spec F) e.1 e.2 := by
      funext k
      simp [get_set, Spec.edit]
    rw [List.foldl_cons, ih, this, List.foldl_cons]

/-- Order of entry is irrelevant: edits to different line numbers commute —
    same map, same ordered index. -/
theorem set_comm (l : Lines F) (h : WF l) (n m : Nat) (a b : List (Token F)) (hnm : n ≠ m) :
    ((l.set n a).set m b).get = ((l.set m b).set n a).get ∧
    ((l.set n a).set m b).sorted = ((l.set m b).set n a).sorted := by
  have h1 := wf_set _ (wf_set l h n a) m b
  have h2 := wf_set _ (wf_set l h m b) n a
  have hget : ((l.set n a).set m b).get = ((l.set m b).set n a).get := by
    funext k
    simp only [get_set]
    by_cases hk : k = m
    · subst hk; simp [Ne.symm hnm]
    · by_cases hk2 : k = n
      · subst hk2; simp [hnm]
      · simp [hk, hk2]
  refine ⟨hget, sorted_ext _ _ h1.sorted h2.sorted ?_⟩
  intro x
  rw [h1.agree, h2.agree, hget]

/-- LIST never hits the `unwrap()`: it yields exactly the stored lines in
    ascending numeric order, each with the tokens last written for it. -/
theorem list_sorted (l : Lines F) (h : WF l) :
    ∃ entries, l.listTokens = some entries ∧ entries.map (·.1) = l.sorted ∧
      ∀ e ∈ entries, l.get e.1 = some e.2 := by
  unfold Lines.listTokens
  have hall : ∀ n ∈ l.sorted, (l.get n).isSome := fun n hn => (h.agree n).mp hn
  generalize l.sorted = keys at hall
  induction keys with
  | nil => exact ⟨[], rfl, rfl, by simp⟩
  | cons k ks ih =>
    obtain ⟨es, he, hk, hg⟩ := ih (fun n hn => hall n (List.mem_cons_of_mem _ hn))
    have hsome := hall k (List.mem_cons_self ..)
    obtain ⟨ts, hts⟩ := Option.isSome_iff_exists.mp hsome
    refine ⟨(k, ts) :: es, ?_, ?_, ?_⟩
    · simp [List.mapM_cons, hts, he]
    · simp [hk]
    · intro e hemem
      rcases List.mem_cons.mp hemem with rfl | hemem
      · exact hts
      · exact hg e hemem

/-- `after n` is the least stored line number greater than `n` — for every `n`
    (the model's numbers are unbounded; `n = 2^64 - 1` is not special). -/
theorem afterList_spec (n : Nat) (keys : List Nat) (hs : keys.Pairwise (· < ·)) :
    (∀ m, afterList n keys = some m → m ∈ keys ∧ n < m ∧ ∀ k ∈ keys, n < k → m ≤ k) ∧
    (afterList n keys = none → ∀ k ∈ keys, k ≤ n) := by
  induction keys with
  | nil => simp [afterList]
  | cons k ks ih =>
    have hk := List.pairwise_cons.mp hs
    have ih' := ih hk.2
    by_cases hlt : n < k
    · simp only [afterList, hlt, ↓reduceIte]
      constructor
      · intro m hm
        have : k = m := by simpa using hm
        subst this
        refine ⟨List.mem_cons_self .., hlt, ?_⟩
        intro j hj _
        rcases List.mem_cons.mp hj with rfl | hj
        · exact Nat.le_refl _
        · exact Nat.le_of_lt (hk.1 j hj)
      · intro h; simp at h
    · simp only [afterList, hlt, ↓reduceIte]
      constructor
      · intro m hm
        obtain ⟨h1, h2, h3⟩ := ih'.1 m hm
        refine ⟨List.mem_cons_of_mem _ h1, h2, ?_⟩
        intro j hj hjlt
        rcases List.mem_cons.mp hj with rfl | hj
        · omega
        · exact h3 j hj hjlt
      · intro hnone j hj
        rcases List.mem_cons.mp hj with rfl | hj
        · omega
        · exact ih'.2 hnone j hj

theorem after_least (l : Lines F) (h : WF l) (n : Nat) :
    (∀ m, l.after n = some m → m ∈ l.sorted ∧ n < m ∧ ∀ k ∈ l.sorted, n < k → m ≤ k) ∧
    (l.after n = none → ∀ k ∈ l.sorted, k ≤ n) :=
  afterList_spec n l.sorted h.sorted

/-- RUN order: starting at `first` and following `after` visits exactly the
    stored line numbers in ascending order. -/
def visit (l : Lines F) : Nat → Option Nat → List Nat
  | 0, _ => []
  | _ + 1, none => []
  | fuel + 1, some n => n :: visit l fuel (l.after n)

theorem afterList_cons_self (k : Nat) (ks : List Nat) (hs : (k :: ks).Pairwise (· < ·)) :
    afterList k (k :: ks) = ks.head? := by
  have hk := List.pairwise_cons.mp hs
  simp only [afterList, Nat.lt_irrefl, ↓reduceIte]
  cases ks with
  | nil => rfl
  | cons j js => simp [afterList, hk.1 j (List.mem_cons_self ..)]

theorem afterList_skip (n k : Nat) (ks : List Nat) (h : k < n) :
    afterList n (k :: ks) = afterList n ks := by
  simp only [afterList]
  have : ¬ n < k := by omega
  simp [this]

theorem run_order (l : Lines F) (h : WF l) :
    visit l (l.sorted.length + 1) l.first = l.sorted := by
  unfold Lines.first
  have hs := h.sorted
  -- generalise over the suffix still to be visited
  suffices ∀ (pre suf : List Nat), l.sorted = pre ++ suf →
      visit l (suf.length + 1) suf.head? = suf from this [] l.sorted rfl
  intro pre suf
  induction suf generalizing pre with
  | nil => intro _; simp [visit]
  | cons k ks ih =>
    intro hsplit
    simp only [List.head?_cons, List.length_cons, visit]
    congr 1
    have hafter : l.after k = ks.head? := by
      unfold Lines.after
      rw [hsplit]
      rw [hsplit] at hs
      have hsuf : (k :: ks).Pairwise (· < ·) := (List.pairwise_append.mp hs).2.1
      have hpre : ∀ a ∈ pre, a < k := fun a ha => (List.pairwise_append.mp hs).2.2 a ha k (List.mem_cons_self ..)
      clear hsplit ih hs
      induction pre with
      | nil => exact afterList_cons_self k ks hsuf
      | cons p ps ihp =>
        rw [List.cons_append, afterList_skip k p _ (hpre p (List.mem_cons_self ..))]
        exact ihp (fun a ha => hpre a (List.mem_cons_of_mem _ ha))
    rw [hafter]
    exact ih (pre ++ [k]) (by simp [hsplit])

/-! ### the interpreter level: what entering a line does to the store -/

variable [NumOps F]

/-- A successfully tokenized numbered line is written to the store (an empty
    token list, i.e. a bare number, deletes the line). -/
theorem submit_numbered (fuel : Nat) (line : Str) (σ : St F) (n k : Nat) (ts : List (Token F))
    (hidle : σ.state = .idle)
    (hcmd : (commandWord line).bind Command.ofWord = none)
    (hn : parseLineNumber line = some (n, k))
    (ht : tokenize (F := F) line k = .ok ts) :
    ∃ σ', startEvaluating fuel line σ = .ok () σ' ∧ σ'.lines = σ.lines.set n ts := by
  refine ⟨((σ.setImmediate []).setNumberedLine n ts), ?_, ?_⟩
  · simp [startEvaluating, postprocess, evaluateImpl, hidle, maybeProcessCommand, hcmd, hn, ht,
      bind, M.bindM, M.get, M.modify, setImmediate, pure, M.pureM]
  · simp [St.setNumberedLine, St.setImmediate]

/-- A line that fails to tokenize changes nothing in the store. -/
theorem submit_failed (fuel : Nat) (line : Str) (σ : St F) (e : TokErr)
    (hidle : σ.state = .idle)
    (hcmd : (commandWord line).bind Command.ofWord = none)
    (ht : tokenize (F := F) line ((parseLineNumber line).map (·.2) |>.getD 0) = .error e) :
    ∃ σ' te, startEvaluating fuel line σ = .err te σ' ∧ te.err = .syntax (.tokenization e) ∧
      σ'.lines = σ.lines := by
  let σ₀ := σ.setImmediate []
  refine ⟨{ σ₀ with state := .idle }, σ₀.populate { err := .syntax (.tokenization e) }, ?_, ?_, ?_⟩
  · cases hn : parseLineNumber line with
    | none =>
      simp only [hn, Option.map_none, Option.getD_none] at ht
      simp [startEvaluating, postprocess, evaluateImpl, hidle, maybeProcessCommand, hcmd, hn, ht,
        bind, M.bindM, M.get, M.modify, setImmediate, pure, M.pureM, M.fail, σ₀]
    | some p =>
      obtain ⟨n, k⟩ := p
      simp only [hn, Option.map_some, Option.getD_some] at ht
      simp [startEvaluating, postprocess, evaluateImpl, hidle, maybeProcessCommand, hcmd, hn, ht,
        bind, M.bindM, M.get, M.modify, setImmediate, pure, M.pureM, M.fail, σ₀]
  · simp [St.populate]
  · simp [σ₀, St.setImmediate]

/-- Non-vacuity: a concrete history with a replace, a delete and a re-add is
    well formed and lists in numeric order. -/
example :
    let l : Lines Unit := ((((({} : Lines Unit).set 20 [.kw .End]).set 10 [.kw .Stop]).set 20 []).set 5 [.kw .End]).set 10 [.kw .End]
    l.sorted = [5, 10] ∧ (l.get 10).isSome ∧ (l.get 20).isNone ∧ l.after 5 = some 10 ∧ l.after 10 = none := by
  decide

end Abasic.Props.C04
