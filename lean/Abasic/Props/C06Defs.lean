import Abasic.Proofs.DefsFirst
import Abasic.Props.C14More
/-
  C06 — the property's side condition "function definitions are each unique and executed before any
  use", discharged STATICALLY.

  `DefsAgree p g` (Abasic/Proofs/Typing3.lean) is the semantic form: at every statement the run reaches, the
  run-time function table holds exactly the definitions the analyzer had there.  `DefsFirst p`
  (Abasic/Proofs/DefsFirst.lean) is a decidable, purely syntactic criterion on the program text:

    (i)   the program begins with `k` lines that contain only DEF (and DATA) statements, and no later
          line contains a DEF (not even under an IF);
    (ii)  every function name is defined at most once;
    (iii) no GOTO / GOSUB / `THEN n` / `ELSE n` targets one of the first `k` lines;
    (iv)  no body of a DEF mentions (as call or as cell name) a function that is defined later in the text.

  * `defsAgree_of_defsFirst`       — `p.WF → DefsFirst p → typeOfP3 p = .ok () → DefsAgree p g`.
  * `sound_program3_static`, `sound_analyzed_file3_static` — `sound_program3` / `sound_analyzed_file3` with
                                     `DefsAgree` replaced by `DefsFirst p`.
  * `File3S.checked`               — the checked example of `File3`, through the static criterion.
  * `Two.*`                        — two functions (the second calls the first), a FOR loop, a GOSUB.

  Remark: the proof of `defsAgree_of_defsFirst` does not use (ii) (a redefinition that satisfies (iv)
  replaces the table entry and the signature alike); it is part of `DefsFirst` because the property asks
  for it.  `defsAgree_of_split` is the statement without it.
-/
set_option linter.unusedSectionVars false

namespace Abasic.Props.C06
open Abasic Abasic.Ref Abasic.ExprL Abasic.ExprL2 Abasic.Stmt3L

variable {F : Type} [NumOps F]

/-- **The static criterion, for an explicit split** `pre ++ post` of the program (no uniqueness of names needed). -/
theorem defsAgree_of_split {pre post : RProgram3 F} (hwf : RProgram3.WF (pre ++ post))
    (hpre : ∀ l ∈ pre, ∀ s ∈ l.2, isDefOrData s = true) (hpost : ∀ l ∈ post, ∀ s ∈ l.2, defFree s = true)
    (htg : ∀ l ∈ post, ∀ s ∈ l.2, ∀ m ∈ targets s, m ∉ pre.map (·.1)) (hnl : NoLaterUse (flatP pre))
    (hty : typeOfP3 (pre ++ post) = .ok ()) (g : Nat) : DefsAgree (pre ++ post) g :=
  defsAgree_of_inv (DFInv pre post) (dfInv_start hwf.ascending g)
    (fun _ _ hI hs => dfInv_step hwf.ascending hpre hpost htg hI hs)
    (fun _ _ _ hI hpc => dfInv_typed hty hpre hpost hnl hI hpc)

theorem defsAgree_of_defsFirstAt {p : RProgram3 F} {k : Nat} (hwf : p.WF) (hdf : DefsFirstAt p k)
    (hty : typeOfP3 p = .ok ()) (g : Nat) : DefsAgree p g := by
  obtain ⟨h1, h2, _, h4, h5⟩ := hdf
  have hp : p.take k ++ p.drop k = p := List.take_append_drop k p
  have := defsAgree_of_split (pre := p.take k) (post := p.drop k) (by rw [hp]; exact hwf) h1 h2 h4 h5
    (by rw [hp]; exact hty) g
  rw [hp] at this
  exact this

/-- **`defsAgree_of_defsFirst`.**  A well-formed program that begins with its function definitions
    (`DefsFirst`: (i)–(iv) above) and passes the static check satisfies the dynamic side condition of the
    property: in every state its run reaches, the function table holds exactly the definitions the analyzer
    had seen at the statement at the program counter. -/
theorem defsAgree_of_defsFirst {p : RProgram3 F} (hwf : p.WF) (hdf : DefsFirst p) (hty : typeOfP3 p = .ok ())
    (g : Nat) : DefsAgree p g := by
  obtain ⟨k, _, hk⟩ := hdf
  exact defsAgree_of_defsFirstAt hwf hk hty g

/-- **`sound_program3_static`.**  `sound_program3` with `DefsAgree` replaced by `DefsFirst p`. -/
theorem sound_program3_static {p : RProgram3 F} {fuel : Nat} (hfit : C03.Fits3 p) {σ : St F} (h : C03.PReady3 p σ)
    (hsafe : C03.SafeRun p fuel (p.start σ.rng)) (hty : typeOfP3 p = .ok ()) (hdf : DefsFirst p) (k : Nat) :
    (∀ te σ', C03.runTurns fuel k σ = .err te σ' →
      RunErr3 te.err ∧ te.err ≠ .typeMismatch ∧ (∀ se, te.err ≠ .syntax se) ∧
      te.err ≠ .undefinedStatement) ∧
    (∀ σ', C03.runTurns fuel k σ = .ok () σ' → WellTyped σ') :=
  sound_program3 hfit h hsafe hty (defsAgree_of_defsFirst hfit.wf hdf hty σ.rng) k

/-- the first half of `sound_analyzed_file3` (it needs no `DefsAgree`): a `GoodFile` text of `p` whose
    analysis contains no error diagnostic yields an interpreter ready to run `p`, and `p` passes `typeOfP3` -/
theorem analyzed_file3_checked {p : RProgram3 F} {fa : Nat} (hfa : AFits3 p fa)
    (lines : List Str) (hgood : C15.GoodFile F lines (editsOf3 p))
    (hnoerr : ∀ f e, Diag.error f e ∉ (analyzeFile (F := F) fa lines).messages) :
    C03.PReady3 p (analyzeFile (F := F) fa lines).intoInterpreter ∧ typeOfP3 p = .ok () := by
  have hst := astart_file3 lines p hfa.wf hgood
  have hlen : p.length < lines.length + 2 := by
    have := goodFile_length hgood
    simp only [editsOf3, List.length_map] at this
    omega
  have hkey := AFrame.analyzeFile_key (F := F) fa lines
  have hstore := C15.load_store lines (editsOf3 p) hgood ({ lines := lines } : Analysis F) 0
  have hready : C03.PReady3 p (analyzeFile (F := F) fa lines).intoInterpreter := by
    refine ⟨rfl, ?_, rfl, rfl, hkey.2, rfl, ?_⟩
    · show Prog3L.Holds (analyzeFile (F := F) fa lines).st.lines p
      rw [hkey.1, hstore]
      exact Prog3L.holds_load p hfa.wf
    · show 0 < Extracted.rngModulus
      unfold Extracted.rngModulus
      omega
  have hty : typeOfP3 p = .ok () := by
    obtain ⟨hp2, _, _, _, ds, hds, hfor⟩ := analyze_program3 fa p hfa _ hst (lines.length + 2) hlen
    unfold typeOfP3
    rw [← lineErrs3_nil_iff]
    cases ds with
    | nil =>
      cases hx : lineErrs3 p.hasLine (fun _ => none) p with
      | nil => rfl
      | cons x xs => rw [hx] at hfor; exact hfor.elim
    | cons d ds =>
      exfalso
      obtain ⟨f, e, hd⟩ := diagsFor_head hfor
      apply hnoerr f e
      unfold analyzeFile
      simp only [hp2, Option.isSome_none, Bool.false_eq_true, ↓reduceIte]
      obtain ⟨⟨extra, hext, _⟩, _⟩ := C05.symbolWarnings_total
        (analyzeProgram fa (lines.length + 2)
          { analyzeLines ({ lines := lines } : Analysis F) 0 lines with
            st := (analyzeLines ({ lines := lines } : Analysis F) 0 lines).st.runFromFirst })
      rw [hext, hds, hd]
      simp
  exact ⟨hready, hty⟩

/-- **`sound_analyzed_file3_static`.**  `sound_analyzed_file3` with the dynamic side condition `DefsAgree`
    replaced by the static criterion `DefsFirst p`: let the lines of a source file be numbered and tokenize to
    the lines of the program `p` (`GoodFile`), let `p` satisfy the analyzer's side conditions (`AFits3`).  If the
    analysis of the file contains NO ERROR diagnostic, then the interpreter the analysis is turned into is ready
    to run `p` and `p` passes the static check `typeOfP3`; if moreover `p` fits the covered fragment (`Fits3`),
    every state the reference machine reaches satisfies the side conditions on names and nesting (`SafeRun`), and
    `p` begins with its function definitions (`DefsFirst p`: each name defined once, in a prefix of DEF / DATA
    lines that no jump targets, no body mentioning a function defined later), then no run — RUN followed by any
    number of host turns — fails with a syntax error, a TYPE MISMATCH or UNDEF'D STATEMENT. -/
theorem sound_analyzed_file3_static {p : RProgram3 F} {fa fuel : Nat} (hfa : AFits3 p fa) (hfit : C03.Fits3 p)
    (lines : List Str) (hgood : C15.GoodFile F lines (editsOf3 p))
    (hnoerr : ∀ f e, Diag.error f e ∉ (analyzeFile (F := F) fa lines).messages)
    (hsafe : C03.SafeRun p fuel (p.start 0)) (hdf : DefsFirst p) (k : Nat) :
    C03.PReady3 p (analyzeFile (F := F) fa lines).intoInterpreter ∧
    typeOfP3 p = .ok () ∧
    (∀ te σ', C03.runTurns fuel k (analyzeFile (F := F) fa lines).intoInterpreter = .err te σ' →
      RunErr3 te.err ∧ te.err ≠ .typeMismatch ∧ (∀ se, te.err ≠ .syntax se) ∧
      te.err ≠ .undefinedStatement) ∧
    (∀ σ', C03.runTurns fuel k (analyzeFile (F := F) fa lines).intoInterpreter = .ok () σ' → WellTyped σ') :=
  sound_analyzed_file3 hfa hfit lines hgood hnoerr hsafe
    (defsAgree_of_defsFirst hfa.wf hdf (analyzed_file3_checked hfa lines hgood hnoerr).2 0) k

/-! ### the checked example of `File3`, through the static criterion -/

namespace File3S
open File3

/-- `10 DEF FNA(X) = X` / `20 PRINT FNA(A);` begins with its definitions: one line of them -/
theorem defsFirst : DefsFirst prog := ⟨1, by decide, by decide⟩

example : defsFirstB prog = true := (defsFirstB_iff prog).2 defsFirst

/-- `File3.defsAgree` without an invariant made by hand -/
theorem defsAgree' (g : Nat) : DefsAgree prog g := defsAgree_of_defsFirst fits.wf defsFirst (checked 0).1 g

/-- **`sound_analyzed_file3_static` applies to the concrete source text of `File3`**: `DefsAgree` is no longer
    proved by an invariant made by hand, but by evaluating the syntactic criterion. -/
theorem checked' (k : Nat) :
    typeOfP3 prog = .ok () ∧
    ∀ te σ', C03.runTurns defaultFuel k (analyzeFile (F := Unit) defaultFuel text).intoInterpreter = .err te σ' →
      RunErr3 te.err ∧ te.err ≠ .typeMismatch ∧ (∀ se, te.err ≠ .syntax se) ∧ te.err ≠ .undefinedStatement :=
  have h := sound_analyzed_file3_static afits fits text good noerr (C03.safeRun_of_static static 0) defsFirst k
  ⟨h.2.1, h.2.2.1⟩

end File3S

/-! ### a second example: two functions, a FOR loop, a GOSUB -/

namespace Two
attribute [local instance] C14.natOps

def fna : Str := ['F', 'N', 'A']
def fnb : Str := ['F', 'N', 'B']

/-- ```
    10 DEF FNA(X) = X + 1
    20 DEF FNB(X) = FNA(X) * FNA(1)
    25 DATA 7
    30 FOR I = 1 TO 3
    40 GOSUB 70
    50 NEXT I
    60 END
    70 PRINT FNB(I);
    80 RETURN
    ``` two functions, the second calling the first; a FOR loop whose body calls a subroutine that calls `FNB` -/
def prog : RProgram3 Nat :=
  [ (10, [ .defS fna [['X']] (.bin .add (.var ['X']) (.num 1)) ]),
    (20, [ .defS fnb [['X']] (.bin .mul (.call fna [.var ['X']]) (.call fna [.num 1])) ]),
    (25, [ .dataS [.num 7] ]),
    (30, [ .forS ['I'] (.num 1) (.num 3) none ]),
    (40, [ .gosubS 70 ]),
    (50, [ .nextS ['I'] ]),
    (60, [ .endS ]),
    (70, [ .printS [.expr (.call fnb [.var ['I']]), .semi] ]),
    (80, [ .returnS ]) ]

def text : List Str :=
  ["10 DEF FNA(X) = X + 1".toList, "20 DEF FNB(X) = FNA(X) * FNA(1)".toList, "25 DATA 7".toList,
   "30 FOR I = 1 TO 3".toList, "40 GOSUB 70".toList, "50 NEXT I".toList, "60 END".toList,
   "70 PRINT FNB(I);".toList, "80 RETURN".toList]

theorem edits : editsOf3 prog =
    [ (10, [.kw .Def, .symbol fna, .kw .LeftParen, .symbol ['X'], .kw .RightParen, .kw .Equals, .symbol ['X'],
            .kw .Plus, .num 1]),
      (20, [.kw .Def, .symbol fnb, .kw .LeftParen, .symbol ['X'], .kw .RightParen, .kw .Equals,
            .symbol fna, .kw .LeftParen, .symbol ['X'], .kw .RightParen, .kw .Multiply,
            .symbol fna, .kw .LeftParen, .num 1, .kw .RightParen]),
      (25, [.data [.num 7]]),
      (30, [.kw .For, .symbol ['I'], .kw .Equals, .num 1, .kw .To, .num 3]),
      (40, [.kw .Gosub, .num 70]),
      (50, [.kw .Next, .symbol ['I']]),
      (60, [.kw .End]),
      (70, [.kw .Print, .symbol fnb, .kw .LeftParen, .symbol ['I'], .kw .RightParen, .kw .Semicolon]),
      (80, [.kw .Return]) ] := by
  simp [editsOf3, prog, renderLine3, renderTail3, renderS3, renderTargets, renderItems3, PItem3.render, render2_var,
    render2_num, render2_call, renderArgs_one, render2_bin, fixP2, Expr2.prec, BinOp.prec, BinOp.token, NumOps.ofNat]

theorem goodLine_ofN (line : Str) (n k : Nat) (ts : List (Token Nat))
    (h1 : line ≠ []) (h2 : parseLineNumber line = some (n, k))
    (h3 : (tokenizeRanges (F := Nat) line k).2 = none)
    (h4 : (tokenizeRanges (F := Nat) line k).1.map (·.1) = ts) (h5 : ts ≠ []) : C15.GoodLine Nat line n ts :=
  ⟨h1, k, (tokenizeRanges (F := Nat) line k).1, h2, by rw [← h3], h4, h5⟩

theorem good : C15.GoodFile Nat text (editsOf3 prog) := by
  rw [edits]
  refine .cons (goodLine_ofN _ _ 2 _ (by decide) (by decide) (by decide) (by rfl) (by simp)) ?_
  refine .cons (goodLine_ofN _ _ 2 _ (by decide) (by decide) (by decide) (by rfl) (by simp)) ?_
  refine .cons (goodLine_ofN _ _ 2 _ (by decide) (by decide) (by decide) (by rfl) (by simp)) ?_
  refine .cons (goodLine_ofN _ _ 2 _ (by decide) (by decide) (by decide) (by rfl) (by simp)) ?_
  refine .cons (goodLine_ofN _ _ 2 _ (by decide) (by decide) (by decide) (by rfl) (by simp)) ?_
  refine .cons (goodLine_ofN _ _ 2 _ (by decide) (by decide) (by decide) (by rfl) (by simp)) ?_
  refine .cons (goodLine_ofN _ _ 2 _ (by decide) (by decide) (by decide) (by rfl) (by simp)) ?_
  refine .cons (goodLine_ofN _ _ 2 _ (by decide) (by decide) (by decide) (by rfl) (by simp)) ?_
  refine .cons (goodLine_ofN _ _ 2 _ (by decide) (by decide) (by decide) (by rfl) (by simp)) ?_
  exact .nil

theorem noerr : ∀ f e, Diag.error f e ∉ (analyzeFile (F := Nat) defaultFuel text).messages := by
  have h : (analyzeFile (F := Nat) defaultFuel text).messages.all (fun d => !isErr d) = true := by decide +kernel
  intro f e hmem
  have := List.all_eq_true.mp h _ hmem
  simp [isErr] at this

theorem fits : C03.Fits3 prog where
  wf := ⟨by decide, by intro l hl; simp [prog] at hl; rcases hl with rfl | rfl | rfl | rfl | rfl | rfl | rfl | rfl | rfl <;> simp⟩
  covered := by
    intro l hl s hs
    simp [prog] at hl
    rcases hl with rfl | rfl | rfl | rfl | rfl | rfl | rfl | rfl | rfl <;> (simp at hs; subst hs) <;>
      exact ⟨rfl, by simp [RStmt3.CoveredB, separated3, NumOps.toU64, NumOps.ofNat]⟩

theorem afits : AFits3 prog defaultFuel where
  wf := fits.wf
  lines := by
    simp only [prog, LinesFit3, StmtsFit3, and_true]
    refine ⟨⟨?_, ?_, ?_, ?_⟩, ⟨?_, ?_, ?_, ?_⟩, ⟨?_, ?_, ?_, ?_⟩, ⟨?_, ?_, ?_, ?_⟩, ⟨?_, ?_, ?_, ?_⟩, ⟨?_, ?_, ?_, ?_⟩,
      ⟨?_, ?_, ?_, ?_⟩, ⟨?_, ?_, ?_, ?_⟩, ⟨?_, ?_, ?_, ?_⟩⟩
    all_goals first
      | exact ⟨rfl, by simp [RStmt3.CoveredB, separated3, NumOps.toU64, NumOps.ofNat]⟩
      | (simp [asdepth, aitemsDepth, adepth, depth2, depthArgs, defaultFuel, Extracted.nestingLimit, Expr2.prec, BinOp.prec]; done)
      | (simp only [ResolvedS2, ResolvedItems2, Resolved2, Resolved2L, and_true]; decide)
      | simp [ResolvedS2, Resolved2]

def fnaDef : FnDefSpec Nat := { params := [['X']], body := .bin .add (.var ['X']) (.num 1) }
def fnbDef : FnDefSpec Nat := { params := [['X']], body := .bin .mul (.call fna [.var ['X']]) (.call fna [.num 1]) }

/-- the only definitions the program contains -/
theorem prog_defs {fns : List (Str × FnDefSpec Nat)} (h : FnsOf prog fns) (name : Str) (d : FnDefSpec Nat)
    (hg : alGet name fns = some d) : (name = fna ∧ d = fnaDef) ∨ (name = fnb ∧ d = fnbDef) := by
  obtain ⟨m, ss, s, hl, hs, hd⟩ := h name d hg
  have hmem := Prog3L.line_mem hl
  simp [prog] at hmem
  rcases hmem with ⟨_, rfl⟩ | ⟨_, rfl⟩ | ⟨_, rfl⟩ | ⟨_, rfl⟩ | ⟨_, rfl⟩ | ⟨_, rfl⟩ | ⟨_, rfl⟩ | ⟨_, rfl⟩ | ⟨_, rfl⟩ <;>
    (simp at hs; subst hs) <;> first | exact .inl hd | exact .inr hd | exact hd.elim

/-- a call of `FNA` nests one level (its body is flat) -/
theorem fna_depth {fns : List (Str × FnDefSpec Nat)} (h : FnsOf prog fns) (n : Nat) (a : Expr2 Nat)
    (ha : depth2 fns n a = 0) : depth2 fns n (.call fna [a]) = 1 := by
  rw [depth2.eq_def]
  simp only [depthArgs, ha]
  cases hg : alGet fna fns with
  | none => simp
  | some d =>
    rcases prog_defs h fna d hg with ⟨_, rfl⟩ | ⟨hh, _⟩
    · cases n with
      | zero => simp
      | succ n' => simp [fnaDef, depth2, Expr2.prec, BinOp.prec]
    · exact absurd hh (by decide)

/-- a call of `FNB` nests at most two levels -/
theorem fnb_depth {fns : List (Str × FnDefSpec Nat)} (h : FnsOf prog fns) (n : Nat) (a : Expr2 Nat)
    (ha : depth2 fns n a = 0) : depth2 fns n (.call fnb [a]) ≤ 2 := by
  rw [depth2.eq_def]
  simp only [depthArgs, ha]
  cases hg : alGet fnb fns with
  | none => simp
  | some d =>
    rcases prog_defs h fnb d hg with ⟨hh, _⟩ | ⟨_, rfl⟩
    · exact absurd hh (by decide)
    · cases n with
      | zero => simp
      | succ n' =>
        have h1 := fna_depth h n' (.var ['X']) (by simp [depth2])
        have h2 := fna_depth h n' (.num 1) (by simp [depth2])
        simp [fnbDef, depth2, Expr2.prec, BinOp.prec, h1, h2]

theorem static : C03.Static prog defaultFuel where
  ok := by
    intro fns hf
    refine ⟨fun name d hg => ?_, fun l hl s hs => ?_⟩
    · rcases prog_defs hf name d hg with ⟨_, rfl⟩ | ⟨_, rfl⟩
      · simp [fnaDef, Resolved]
      · simp only [fnbDef, Resolved, ResolvedL, and_true]; decide
    · have hb := fnb_depth hf callFuel (.var ['I']) (by simp [depth2])
      simp [prog] at hl
      rcases hl with rfl | rfl | rfl | rfl | rfl | rfl | rfl | rfl | rfl <;> (simp at hs; subst hs)
      · simp [ResolvedS, sdepth3]
      · simp [ResolvedS, sdepth3]
      · simp [ResolvedS, sdepth3]
      · simp [ResolvedS, sdepth3, Resolved, edepth, depth2, defaultFuel, Extracted.nestingLimit]
      · simp [ResolvedS, sdepth3]
      · simp [ResolvedS, sdepth3]
      · simp [ResolvedS, sdepth3]
      · refine ⟨?_, ?_, ?_⟩
        · simp only [ResolvedS, ResolvedItems, Resolved, ResolvedL, and_true]; decide
        · simp only [sdepth3, itemsDepth3, edepth, defaultFuel, Extracted.nestingLimit]; omega
        · simp only [sdepth3, itemsDepth3, edepth, Extracted.nestingLimit]; omega
      · simp [ResolvedS, sdepth3]


theorem typed : typeOfP3 prog = .ok () := by
  simp [typeOfP3, prog, typeOfLines3, typeOfStmts3, typeOfS3, typeAs, typeAny, typeStep2, typeItems3, lineOK,
    typeOf2, typeArgs, sigAfterS, sigAfterStmts, fna, fnb, VT.ofName, endsWithDollar, tierRule, tierOf,
    RProgram3.hasLine, RProgram3.line]

/-- the program begins with its definitions: three lines (two DEFs and a DATA line) — checked by evaluation -/
theorem defsFirst : DefsFirst prog := by decide

example : defsFirstB prog = true := by decide

/-- the dynamic side condition, from the static criterion -/
theorem defsAgree (g : Nat) : DefsAgree prog g := defsAgree_of_defsFirst fits.wf defsFirst typed g

/-- on the reference machine: whatever the generator state, the run can stop only with a `RunErr3` error -/
theorem ref_sound (g m : Nat) (x : Err) (ln : Nat) (out : List Str)
    (h : RSteps3 prog m (prog.start g) = .inr (x, ln, out)) :
    RunErr3 x ∧ x ≠ .typeMismatch ∧ (∀ s, x ≠ .syntax s) ∧ x ≠ .undefinedStatement :=
  rsteps3_typed typed g (defsAgree g) m x ln out h

/-- **`sound_analyzed_file3_static` applies to a concrete source text with two functions (the second calling
    the first), a FOR loop and a GOSUB** (carrier: natural numbers with decimal numerals, `C14.natOps`): the
    analysis of the file has no error diagnostic, the program passes `typeOfP3` and begins with its definitions,
    and no run of the interpreter built from the file fails with a syntax error, TYPE MISMATCH or UNDEF'D
    STATEMENT. -/
theorem checked (k : Nat) :
    typeOfP3 prog = .ok () ∧
    ∀ te σ', C03.runTurns defaultFuel k (analyzeFile (F := Nat) defaultFuel text).intoInterpreter = .err te σ' →
      RunErr3 te.err ∧ te.err ≠ .typeMismatch ∧ (∀ se, te.err ≠ .syntax se) ∧ te.err ≠ .undefinedStatement :=
  have h := sound_analyzed_file3_static afits fits text good noerr (C03.safeRun_of_static static 0) defsFirst k
  ⟨h.2.1, h.2.2.1⟩

/-! the clauses of the criterion at work (all by evaluation) -/

/-- a definition that is jumped over is not accepted … -/
example : ¬ DefsFirst (F := Nat)
    [ (10, [ .gotoS 30 ]), (20, [ .defS fna [['X']] (.var ['X']) ]), (30, [ .printS [.expr (.call fna [.num 1])] ]) ] := by
  decide

/-- … nor a jump back into the definitions (iii), … -/
example : ¬ DefsFirst (F := Nat) [ (10, [ .defS fna [['X']] (.var ['X']) ]), (20, [ .gotoS 10 ]) ] := by decide

/-- … nor a body that mentions a function defined later (iv), … -/
example : ¬ DefsFirst (F := Nat)
    [ (10, [ .defS fna [['X']] (.call fnb [.var ['X']]) ]), (20, [ .defS fnb [['X']] (.var ['X']) ]) ] := by
  decide

/-- … nor a second definition of a name (ii), nor a DEF under an IF (i); recursion is fine -/
example : ¬ DefsFirst (F := Nat)
    [ (10, [ .defS fna [['X']] (.var ['X']) ]), (20, [ .defS fna [['X']] (.num 1) ]) ] := by
  decide
example : ¬ DefsFirst (F := Nat) [ (10, [ .ifS (.var ['A']) (.defS fna [['X']] (.var ['X'])) none ]) ] := by decide
example : DefsFirst (F := Nat) [ (10, [ .defS fna [['X']] (.call fna [.var ['X']]) ]) ] := by decide

end Two

end Abasic.Props.C06
