import Abasic.Ref.Expr
/-
  C02 — expressions evaluate per the language's precedence, associativity and typing.

  The spec is `Ref.foldE` (value of a syntax tree) and `Ref.render` (tokens with
  minimal parentheses); the implementation side of the model is `exprBody`
  (Expr.lean).  Proved here: the rules of the fold that the property states —
  comparisons and logical operators yield 1 or 0 with the stated truthiness,
  division by zero and mixed operands are DIVISION BY ZERO / TYPE MISMATCH,
  redundant parentheses never change a value, ABS/INT — and the operator tables
  of the token-stream evaluator: each binary tier accepts exactly the operators
  of its precedence level, in the order OR < AND < comparison < +,- < *,/ < ^.
  Continued in C02More.lean (with Proofs/ExprLemmas.lean): `eval_render` — for
  EVERY syntax tree, the token-stream evaluator run on `render e` consumes
  exactly the rendering and returns `foldE e` (value case: same value, state
  unchanged but for the cursor and the read counter; error case: same error,
  nesting counter restored), with `paren_irrelevant_eval` as a corollary about
  the evaluator itself.  The correspondence slice (exhaustive small trees +
  random trees, implementation vs model vs the spec's fold computed by the Lean
  driver) ties evaluator, renderer and fold to the Rust code.
-/
namespace Abasic.Props.C02
open Abasic Abasic.Ref

variable {F : Type} [NumOps F]

/-- Comparisons yield 1 or 0, on two numbers or on two strings. -/
theorem cmp_yields_bool (c : CmpOp) (l r v : Value F) (h : (BinOp.cmp c).eval l r = .ok v) :
    v = .num NumOps.one ∨ v = .num NumOps.zero := by
  cases l <;> cases r <;> simp [BinOp.eval, Value.ofBool, NumOps.ofBool] at h
  · rw [← h]; split <;> simp
  · rw [← h]; split <;> simp

/-- Comparing a string with a number is a TYPE MISMATCH. -/
theorem cmp_mixed (c : CmpOp) (s : Str) (x : F) :
    (BinOp.cmp c).eval (.str s) (.num x) = .error .typeMismatch ∧
    (BinOp.cmp c).eval (.num x) (.str s) = .error .typeMismatch := by
  simp [BinOp.eval]

/-- AND / OR accept any operands, any non-zero number or non-empty string counting as true. -/
theorem logical_ops (l r : Value F) :
    BinOp.and.eval l r = .ok (Value.ofBool (l.toBool && r.toBool)) ∧
    BinOp.or.eval l r = .ok (Value.ofBool (l.toBool || r.toBool)) := by
  simp [BinOp.eval]

theorem truthiness (s : Str) (x : F) :
    (Value.str (F := F) s).toBool = !s.isEmpty ∧ (Value.num x).toBool = NumOps.ne x NumOps.zero := by
  simp [Value.toBool]

/-- Dividing by zero is DIVISION BY ZERO; arithmetic on a string is TYPE MISMATCH. -/
theorem division_by_zero (a b : F) (h : NumOps.eq b NumOps.zero = true) :
    BinOp.div.eval (.num a) (.num b) = .error .divisionByZero := by
  simp [BinOp.eval, h]

theorem arithmetic_mismatch (op : BinOp) (hop : op = .pow ∨ op = .mul ∨ op = .div ∨ op = .add ∨ op = .sub)
    (s : Str) (v : Value F) :
    op.eval (.str s) v = .error .typeMismatch ∧ op.eval v (.str s) = .error .typeMismatch := by
  rcases hop with rfl | rfl | rfl | rfl | rfl <;> cases v <;> simp [BinOp.eval]

/-- The unary operators: + is the identity, - negates a number (TYPE MISMATCH on a string), NOT yields 1 or 0. -/
theorem unary_ops (v : Value F) (s : Str) (x : F) :
    UnOp.pos.eval v = .ok v ∧ UnOp.neg.eval (.num x) = .ok (.num (NumOps.neg x)) ∧
    UnOp.neg.eval (.str (F := F) s) = .error .typeMismatch ∧ UnOp.not.eval v = .ok (Value.ofBool (!v.toBool)) := by
  simp [UnOp.eval]

/-- Redundant parentheses never change a result. -/
theorem paren_irrelevant (env : Str → Value F) (e : Expr F) : foldE env (.paren e) = foldE env e := rfl

/-- All binary operators group left to right: the fold of `a op b op' c` rendered
    without parentheses is that of `(a op b) op' c` whenever `op'` does not bind
    tighter — stated on the renderer: a left operand of equal strength needs no
    parentheses, a right operand of equal strength does. -/
theorem left_assoc_render (op : BinOp) (a b c : Expr F) (ha : a.prec = 8) (hb : b.prec = 8) (hc : c.prec = 8) :
    render (.bin op (.bin op a b) c) = render a ++ .kw (BinOp.token op) :: render b ++ .kw (BinOp.token op) :: render c ∧
    render (.bin op a (.bin op b c)) =
      render a ++ .kw (BinOp.token op) :: .kw .LeftParen :: (render b ++ .kw (BinOp.token op) :: render c) ++ [.kw .RightParen] := by
  have hp : ∀ (e : Expr F), e.prec = 8 → ∀ p, p ≤ 8 → renderAt p e = render e := by
    intro e he p hp
    unfold renderAt
    simp [he]; omega
  have hop : BinOp.prec op ≤ 7 := by cases op <;> simp [BinOp.prec]
  constructor
  · conv => lhs; unfold render
    have h1 : renderAt (BinOp.prec op) (.bin op a b) = render (.bin op a b) := by
      unfold renderAt; simp [Expr.prec]
    rw [h1, hp c hc _ (by omega)]
    conv => lhs; arg 1; unfold render
    rw [hp a ha _ (by omega), hp b hb _ (by omega)]
  · conv => lhs; unfold render
    have h1 : renderAt (BinOp.prec op + 1) (.bin op b c) =
        .kw .LeftParen :: render (.bin op b c) ++ [.kw .RightParen] := by
      unfold renderAt; simp [Expr.prec]
    rw [h1, hp a ha _ (by omega)]
    conv => lhs; arg 2; arg 2; arg 1; arg 2; unfold render
    rw [hp b hb _ (by omega), hp c hc _ (by omega)]
    simp

omit [NumOps F] in
/-- The operator tables of the six tiers of the token-stream evaluator are
    exactly the six precedence levels of the spec, in the same order. -/
theorem tier_tables (op : BinOp) :
    (orOps (F := F) (.kw (BinOp.token op)) = some op ↔ BinOp.prec op = 1) ∧
    (andOps (F := F) (.kw (BinOp.token op)) = some op ↔ BinOp.prec op = 2) ∧
    (cmpOps (F := F) (.kw (BinOp.token op)) = some op ↔ BinOp.prec op = 3) ∧
    (addOps (F := F) (.kw (BinOp.token op)) = some op ↔ BinOp.prec op = 4) ∧
    (mulOps (F := F) (.kw (BinOp.token op)) = some op ↔ BinOp.prec op = 5) ∧
    (powOps (F := F) (.kw (BinOp.token op)) = some op ↔ BinOp.prec op = 6) := by
  cases op with
  | cmp c => cases c <;> simp [orOps, andOps, cmpOps, addOps, mulOps, powOps, BinOp.token, BinOp.prec, CmpOp.ofToken]
  | _ => simp [orOps, andOps, cmpOps, addOps, mulOps, powOps, BinOp.token, BinOp.prec, CmpOp.ofToken]

/-- the order in which the tiers nest: OR outermost … ^ innermost, unary inside -/
theorem tier_order (ev : Evals F) :
    orExpr ev = level (level (level (level (level (level (unaryExpr ev) powOps) mulOps) addOps) cmpOps) andOps) orOps := rfl

/-- ABS and INT are absolute value and floor. -/
theorem abs_int (env : Str → Value F) (x : F) :
    foldE env (.abs (.num x)) = .ok (.num (NumOps.abs x)) ∧ foldE env (.int (.num x)) = .ok (.num (NumOps.floor x)) := by
  simp [foldE]

/-- Non-vacuity: `2 - 3 * 4` and `(2 - 3) * 4` render as they should. -/
example : (render (F := Unit) (.bin .sub (.num ()) (.bin .mul (.num ()) (.num ())))).length = 5 ∧
          (render (F := Unit) (.bin .mul (.bin .sub (.num ()) (.num ())) (.num ()))).length = 7 := by
  constructor <;> simp [render, renderAt, Expr.prec, BinOp.prec]

end Abasic.Props.C02
