import Abasic.Proofs.TraceStmt
import Abasic.Proofs.AccFrame
import Abasic.Proofs.CursorLemmas
import Abasic.Props.C09
import Abasic.Props.C15More
import Abasic.Props.C17
/-
  C17 (continued) — the trace records are the executed lines; the scalar
  warning fires exactly when specified.

  The output queue `σ.out` is newest-first.  `traces q` (Proofs/TraceFrame.lean)
  is the list of line numbers of the `Out.trace` records of `q`, in queue order.

  1. `trace_is_location` / `trace_immediate_none`: a statement activation
     `stmtBody (evalN n) σ` at a numbered location puts `Out.trace ln` directly on
     top of the old queue — it is the oldest record of the activation — and at an
     immediate location (or with tracing off) puts no trace record at all.
     READ OFF THE CODE: the statement under THEN / ELSE is a full activation
     (`(evalN (n+1)).stmt = stmtBody (evalN n)`), so it DOES trace again, on the
     same line (`nested_activation_traces`, `then_branch_is_activation`,
     `if_traces_twice`); it is the only source of further trace records, and a
     statement that does not start with IF has exactly one.  In general an
     activation on line `ln` yields `1 + k` records, all `Out.trace ln`, where `k`
     is the number of nested activations.
  2. `trace_is_path` as requested is therefore FALSE (`trace_is_path_false`).
     Proved instead: `trace_is_path_partial` (every turn that starts a
     statement on line `ln` contributes a non-empty block of `ln`s, in order) and
     `trace_is_path_noIf` (the records are exactly the path when no executed
     numbered statement starts with IF, in particular when the program contains
     no IF), each also for a whole RUN (`run_…`).
  3. `scalar_warn_iff`.
-/
namespace Abasic.Props.C17
open Abasic Abasic.Hoare Abasic.Trace

variable {F : Type} [NumOps F]

/-! ### the queue only grows -/

omit [NumOps F] in
/-- An action that commutes with putting older output under the queue (`Acc.Comm`,
    which the whole evaluator does) only ever pushes records on top of the queue. -/
theorem out_extends {α : Type} {m : M F α} (hm : ∀ d, Acc.Comm d m) (σ : St F) :
    (m σ).final.out = (m { σ with out := [] }).final.out ++ σ.out := by
  have hσ : σ = Acc.T { out := σ.out } ({ σ with out := [] } : St F) := by
    obtain ⟨lines, imm, loc, bp, stack, loops, data, fns, nesting, input, out, state, rng, vars, arrays,
      warnings, tracing, accesses, reads⟩ := σ
    simp [Acc.T]
  have h := (hm { out := σ.out }).h ({ σ with out := [] } : St F)
  rw [← hσ] at h
  rw [h]
  cases m ({ σ with out := [] } : St F) <;> rfl

/-! ### 1. one statement activation -/

/-- The general form: an activation started in `σ` first pushes its trace block
    `here σ` (one record `Out.trace ln` when tracing is on and the location is
    numbered, nothing otherwise) and then dispatches; everything pushed afterwards
    (`new`) contains, as trace records, only `k` further copies of that block, and
    none when the statement does not start with IF. -/
theorem activation (n : Nat) (σ : St F) :
    stmtBody (evalN n) σ = dispatch (evalN n) { σ with out := (here σ).map Out.trace ++ σ.out } ∧
    (stmtBody (evalN n) σ).final.tracing = σ.tracing ∧ (stmtBody (evalN n) σ).final.lines = σ.lines ∧
    ∃ new k, (stmtBody (evalN n) σ).final.out = new ++ ((here σ).map Out.trace ++ σ.out) ∧
      traces new = rep k (here σ) ∧ (curTok σ ≠ some (.kw .If) → k = 0) := by
  have heq : stmtBody (evalN n) σ = dispatch (evalN n) { σ with out := (here σ).map Out.trace ++ σ.out } := by
    unfold stmtBody
    simp only [bind, M.bindM, traceHere_eq]
  obtain ⟨he, hs⟩ := trace_evalN (F := F) n
  refine ⟨heq, ?_⟩
  rw [heq]
  generalize hσ1 : ({ σ with out := (here σ).map Out.trace ++ σ.out } : St F) = σ1
  have hhere : here σ1 = here σ := by rw [← hσ1]; rfl
  have hcur : curTok σ1 = curTok σ := by rw [← hσ1]; rfl
  have hout : σ1.out = (here σ).map Out.trace ++ σ.out := by rw [← hσ1]
  have htr : σ1.tracing = σ.tracing := by rw [← hσ1]
  have hli : σ1.lines = σ.lines := by rw [← hσ1]
  have hrep := hf_dispatch (evalN n) he (here σ) (hs _) σ1 hhere
  rw [respectsAt_iff_final] at hrep
  obtain ⟨h1, h2, k, h3⟩ := hrep
  have hext := out_extends (m := dispatch (evalN n))
    (fun d => Acc.comm_dispatch (evalN n) (Acc.comm_evalN n).1 (Acc.comm_evalN n).2) σ1
  refine ⟨h1.trans htr, h2.trans hli, ?_⟩
  by_cases hif : curTok σ = some (.kw .If)
  · refine ⟨_, k, by rw [← hout]; exact hext, ?_, fun h => absurd hif h⟩
    rw [hext, traces_append] at h3
    exact List.append_cancel_right h3
  · refine ⟨_, 0, by rw [← hout]; exact hext, ?_, fun _ => rfl⟩
    rw [rep_zero]
    have hnt := dispatch_notIf (evalN n) he σ1 (by rw [hcur]; exact hif)
    rw [respectsAt_iff_final] at hnt
    have := hnt.2.2
    rw [hext, traces_append] at this
    exact List.append_cancel_right (this.trans (List.nil_append _).symm)

/-- **trace_is_location.**  With tracing on, a statement activation at the
    numbered location `(some ln, idx)` is: push `Out.trace ln`, then dispatch.
    The queue is newest-first and only grows, so the final queue is
    `new ++ Out.trace ln :: σ.out`: the trace record sits directly on the old
    queue, below (= before, in the order `take_output` delivers) every other
    record `new` of this activation.  The trace records inside `new` are `k` more
    copies of `ln` — one per nested activation under THEN / ELSE — and there are
    none (`k = 0`) unless the statement starts with IF. -/
theorem trace_is_location (n : Nat) (σ : St F) (ln : Nat)
    (ht : σ.tracing = true) (hl : σ.loc.line = some ln) :
    stmtBody (evalN n) σ = dispatch (evalN n) { σ with out := .trace ln :: σ.out } ∧
    ∃ new k, (stmtBody (evalN n) σ).final.out = new ++ .trace ln :: σ.out ∧
      traces new = List.replicate k ln ∧ (curTok σ ≠ some (.kw .If) → k = 0) := by
  have hh : here σ = [ln] := by unfold here; rw [ht, hl]
  obtain ⟨h1, _, _, new, k, h2, h3, h4⟩ := activation n σ
  rw [hh] at h1 h2 h3
  exact ⟨h1, new, k, h2, by rw [h3, rep_singleton], h4⟩

/-- At an immediate location (or with tracing off) an activation pushes no trace
    record at all — not even from nested activations, which stay on the same line. -/
theorem trace_immediate_none (n : Nat) (σ : St F) (h : σ.loc.line = none ∨ σ.tracing = false) :
    stmtBody (evalN n) σ = dispatch (evalN n) σ ∧
    ∃ new, (stmtBody (evalN n) σ).final.out = new ++ σ.out ∧ traces new = [] := by
  have hh : here σ = [] := by
    unfold here
    cases h with
    | inl h => rw [h]; cases σ.tracing <;> rfl
    | inr h => rw [h]
  obtain ⟨h1, _, _, new, k, h2, h3, _⟩ := activation n σ
  rw [hh] at h1 h2 h3
  exact ⟨h1, new, h2, by rw [h3, rep_nil]⟩

/-- The nested statement IS a statement activation … -/
theorem nested_is_activation (n : Nat) : (evalN (F := F) (n + 1)).stmt = stmtBody (evalN n) := rfl

/-- … reached from THEN / ELSE whenever the next token is not a line number … -/
theorem then_branch_is_activation (n : Nat) (σ : St F) (ts : List (Token F))
    (hts : tokens σ = .ok ts σ) (hnum : ∀ x, ts[σ.loc.idx]? ≠ some (.num x)) :
    statementOrGoto (evalN (n + 1)) σ = nested (stmtBody (evalN n)) { σ with reads := σ.reads + 1 } := by
  unfold statementOrGoto
  simp only [bind, M.bindM, Proofs.Cursor.peek_eq σ ts hts]
  cases hk : ts[σ.loc.idx]? with
  | none => rfl
  | some t =>
    cases t with
    | num x => exact absurd hk (hnum x)
    | _ => rfl

/-- … so it traces AGAIN, on its own line, as the first thing it does one
    nesting level deeper … -/
theorem nested_activation_traces (ev : Evals F) (σ : St F) (ln : Nat)
    (ht : σ.tracing = true) (hl : σ.loc.line = some ln) (hcap : σ.nesting ≠ Extracted.nestingLimit) :
    nested (stmtBody ev) σ = nested (dispatch ev) { σ with out := .trace ln :: σ.out } := by
  have hb : (σ.nesting == Extracted.nestingLimit) = false := by simpa using hcap
  have hh : here ({ σ with nesting := σ.nesting + 1 } : St F) = [ln] := by
    unfold here; show (match σ.tracing, σ.loc.line with | true, some n => [n] | _, _ => []) = _; rw [ht, hl]
  unfold nested stmtBody
  simp only [bind, M.bindM, enterNested, M.get, hb, Bool.false_eq_true, ↓reduceIte, M.set, M.attempt,
    traceHere_eq, hh]
  rfl

/-- … unless the nesting cap refuses it, in which case nothing is recorded. -/
theorem nested_activation_at_cap (ev : Evals F) (σ : St F) (hcap : σ.nesting = Extracted.nestingLimit) :
    nested (stmtBody ev) σ = .err { err := .oomStack } σ := by
  simp [nested, bind, M.bindM, enterNested, M.get, hcap, M.fail]

/-- Concretely: `10 IF "A" THEN PRINT` with tracing on records line 10 twice. -/
theorem if_traces_twice :
    ((stmtBody (evalN 3)
      ({ tracing := true, loc := { line := some 10, idx := 0 },
         lines := { map := [(10, [.kw .If, .str ['A'], .kw .Then, .kw .Print])], sorted := [10] } } : St Unit)).final.out)
      = [.print ['\n'], .trace 10, .trace 10] := by
  decide +kernel


/-! ### 2. turns and runs -/

omit [NumOps F] in
open Abasic.Trace.Lift in
theorem nt_sequence : Respects NT (C09.sequence (F := F)) := by
  unfold C09.sequence
  respects_tac

/-- the line on which a turn's statement starts (as a list: empty when the turn
    starts no statement — no token left on the line — or the line is the immediate one) -/
def startLine (σ : St F) : List Nat := if (curTok σ).isSome then σ.loc.line.toList else []

omit [NumOps F] in
theorem here_of_tracing (σ : St F) (ht : σ.tracing = true) : here σ = σ.loc.line.toList := by
  unfold here; rw [ht]; cases σ.loc.line <;> rfl

/-- what a turn does to the trace records: `k ≥ 1` copies of the block `u`
    (`k = 1` under the condition `strict`) -/
def TurnRel (u : List Nat) (strict : Prop) (σ σ' : St F) : Prop :=
  σ'.tracing = σ.tracing ∧ σ'.lines = σ.lines ∧
  ∃ k, 1 ≤ k ∧ (strict → k = 1) ∧ traces σ'.out = rep k u ++ traces σ.out

omit [NumOps F] in
theorem TurnRel.of_nt {p : Prop} {σ σ' : St F} (h : NT σ σ') : TurnRel [] p σ σ' :=
  ⟨h.1, h.2.1, 1, Nat.le_refl _, fun _ => rfl, by rw [h.2.2, rep_nil]; rfl⟩

omit [NumOps F] in
theorem TurnRel.nt_right {u : List Nat} {p : Prop} {σ s s' : St F} (h : TurnRel u p σ s) (h' : NT s s') :
    TurnRel u p σ s' := by
  obtain ⟨a, b, k, c, d, e⟩ := h
  exact ⟨h'.1.trans a, h'.2.1.trans b, k, c, d, by rw [h'.2.2, e]⟩

omit [NumOps F] in
theorem TurnRel.nt_left {u : List Nat} {p : Prop} {σ s s' : St F} (h' : NT σ s) (h : TurnRel u p s s') :
    TurnRel u p σ s' := by
  obtain ⟨a, b, k, c, d, e⟩ := h
  exact ⟨a.trans h'.1, b.trans h'.2.1, k, c, d, by rw [e, h'.2.2]⟩

/-- One turn (`run_next_statement`) with tracing on: if it starts a statement on
    numbered line `ln`, it adds `k ≥ 1` records `Out.trace ln` and no other trace
    record, with `k = 1` unless the statement starts with IF; otherwise none. -/
theorem turn_traces (fuel : Nat) (σ : St F) (ht : σ.tracing = true) :
    TurnRel (startLine σ) (curTok σ ≠ some (.kw .If)) σ (runNextStatement fuel σ).final := by
  rw [C09.turn_anatomy, final_bind]
  show TurnRel _ _ σ (match (Res.ok () ({ σ with state := .running } : St F) : Res F Unit) with
    | .ok a s => _
    | .err _ s => s)
  simp only []
  generalize hσr : ({ σ with state := .running } : St F) = σr
  have hnt0 : NT σ σr := by rw [← hσr]; exact ⟨rfl, rfl, rfl⟩
  have hcur : curTok σr = curTok σ := by rw [← hσr]; rfl
  have hline : σr.loc.line = σ.loc.line := by rw [← hσr]
  have hlo : lineOf σr = lineOf σ := by rw [← hσr]; rfl
  refine TurnRel.nt_left hnt0 ?_
  have hsl : startLine σ = startLine σr := by unfold startLine; rw [hcur, hline]
  rw [hsl, ← hcur]
  have htr : σr.tracing = true := by rw [← hσr]; exact ht
  clear hσr hnt0 hcur hline hlo hsl ht σ
  rw [final_bind, hasNext_lineOf]
  unfold startLine curTok
  cases hl : lineOf σr with
  | none => exact TurnRel.of_nt ⟨rfl, rfl, rfl⟩
  | some ts =>
    simp only [Option.bind_some]
    generalize hσ2 : ({ σr with reads := σr.reads + 1 } : St F) = σ2
    have hnt1 : NT σr σ2 := by rw [← hσ2]; exact ⟨rfl, rfl, rfl⟩
    refine TurnRel.nt_left hnt1 ?_
    by_cases hb : (ts[σr.loc.idx]?).isSome = true
    case neg =>
      simp only [hb]
      show TurnRel [] _ σ2 (C09.sequence σ2).final
      exact TurnRel.of_nt (nt_sequence.final σ2)
    case pos =>
      simp only [hb, ↓reduceIte]
      rw [final_bind]
      obtain ⟨_, h2, h3, new, k, h4, h5, h6⟩ := activation fuel σ2
      have hh : here σ2 = σr.loc.line.toList := by
        rw [← hσ2]; exact here_of_tracing σr htr
      have hc2 : curTok σ2 = ts[σr.loc.idx]? := by
        rw [← hσ2]; show (lineOf σr).bind _ = _; rw [hl]; rfl
      have hrel : TurnRel σr.loc.line.toList (ts[σr.loc.idx]? ≠ some (.kw .If)) σ2
          (stmtBody (evalN fuel) σ2).final := by
        refine ⟨h2, h3, k + 1, Nat.succ_le_succ (Nat.zero_le _), ?_, ?_⟩
        · intro hne; rw [h6 (by rw [hc2]; exact hne)]
        · rw [h4, traces_append, traces_append, traces_map_trace, h5, hh, rep_succ', List.append_assoc]
      cases hr : stmtBody (evalN fuel) σ2 with
      | ok a s => rw [hr] at hrel; exact hrel.nt_right (nt_sequence.final s)
      | err e s => rw [hr] at hrel; exact hrel


/-- one host turn: `continue_evaluating`, whatever its outcome -/
def step (fuel : Nat) (σ : St F) : St F := (continueEvaluating fuel σ).final

/-- `k` turns -/
def turns (fuel : Nat) : Nat → St F → St F
  | 0, σ => σ
  | k + 1, σ => turns fuel k (step fuel σ)

/-- the line recorded before a turn: the cursor's line, when the interpreter is
    running and a statement starts there on a numbered line -/
def turnLine (σ : St F) : List Nat := if σ.state = .running then startLine σ else []

/-- **the path**: the line numbers of the locations at which each turn's
    statement started, oldest first -/
def path (fuel : Nat) : Nat → St F → List Nat
  | 0, _ => []
  | k + 1, σ => turnLine σ ++ path fuel k (step fuel σ)

omit [NumOps F] in
theorem final_postprocess {α : Type} (m : M F α) (σ : St F) :
    NT (m σ).final (postprocess m σ).final := by
  unfold postprocess
  cases m σ <;> exact ⟨rfl, rfl, rfl⟩

theorem step_traces (fuel : Nat) (σ : St F) (ht : σ.tracing = true) :
    TurnRel (turnLine σ) (curTok σ ≠ some (.kw .If)) σ (step fuel σ) := by
  unfold step turnLine continueEvaluating
  simp only [bind, M.bindM, M.get]
  by_cases hs : σ.state = .running
  · simp only [↓reduceIte, hs]
    exact (turn_traces fuel σ ht).nt_right (final_postprocess _ σ)
  · have hb : (σ.state != .running) = true := by simpa using hs
    simp only [hb, ↓reduceIte, hs]
    exact TurnRel.of_nt ⟨rfl, rfl, rfl⟩

/-- `k` copies of each line of the path -/
def expand : List Nat → List Nat → List Nat
  | ln :: p, c :: ks => List.replicate c ln ++ expand p ks
  | _, _ => []

theorem turns_tracing (fuel : Nat) (k : Nat) (σ : St F) (ht : σ.tracing = true) :
    (turns fuel k σ).tracing = true ∧ (turns fuel k σ).lines = σ.lines := by
  induction k generalizing σ with
  | zero => exact ⟨ht, rfl⟩
  | succ k ih =>
    obtain ⟨h1, h2, _⟩ := step_traces fuel σ ht
    obtain ⟨h3, h4⟩ := ih (step fuel σ) (h1.trans ht)
    exact ⟨h3, h4.trans h2⟩

omit [NumOps F] in
theorem turnLine_cases (σ : St F) : turnLine σ = [] ∨ ∃ ln, turnLine σ = [ln] ∧ σ.loc.line = some ln := by
  unfold turnLine startLine
  by_cases hs : σ.state = .running
  · rw [if_pos hs]
    by_cases hc : (curTok σ).isSome = true
    · rw [if_pos hc]
      cases hl : σ.loc.line with
      | none => exact Or.inl rfl
      | some ln => exact Or.inr ⟨ln, rfl, rfl⟩
    · rw [if_neg hc]; exact Or.inl rfl
  · rw [if_neg hs]; exact Or.inl rfl

/-- **trace_is_path_partial** (what is true for every program).  With tracing
    on, after `k` turns the trace records on the queue are, oldest first, the
    lines of the path, each repeated `c ≥ 1` times (`c - 1` = the number of nested
    THEN / ELSE activations of that turn).  The queue being newest-first, they
    appear reversed on top of the trace records that were there before. -/
theorem trace_is_path_partial (fuel k : Nat) (σ : St F) (ht : σ.tracing = true) :
    ∃ ks : List Nat, ks.length = (path fuel k σ).length ∧ (∀ c ∈ ks, 1 ≤ c) ∧
      traces (turns fuel k σ).out = (expand (path fuel k σ) ks).reverse ++ traces σ.out := by
  induction k generalizing σ with
  | zero => exact ⟨[], rfl, fun c h => (by cases h), rfl⟩
  | succ k ih =>
    obtain ⟨h1, _, c, hc, _, h3⟩ := step_traces fuel σ ht
    obtain ⟨ks, hlen, hks, htr⟩ := ih (step fuel σ) (h1.trans ht)
    show ∃ ks : List Nat, ks.length = (turnLine σ ++ path fuel k (step fuel σ)).length ∧ _ ∧
      traces (turns fuel k (step fuel σ)).out = (expand (turnLine σ ++ path fuel k (step fuel σ)) ks).reverse ++ _
    cases turnLine_cases σ with
    | inl h0 =>
      rw [h0] at h3 ⊢
      rw [rep_nil, List.nil_append] at h3
      exact ⟨ks, hlen, hks, by rw [htr, h3]; rfl⟩
    | inr h1 =>
      obtain ⟨ln, h0, _⟩ := h1
      rw [h0] at h3 ⊢
      refine ⟨c :: ks, by simp [hlen], ?_, ?_⟩
      · intro x hx
        cases hx with
        | head => exact hc
        | tail _ hx => exact hks x hx
      · show _ = (List.replicate c ln ++ expand (path fuel k (step fuel σ)) ks).reverse ++ _
        rw [htr, h3, rep_singleton, List.reverse_append, List.reverse_replicate, List.append_assoc]

/-- **trace_is_path** for runs in which no statement started on a numbered line
    begins with IF: the trace records are EXACTLY the path (newest first on the queue). -/
theorem trace_is_path_of_no_if (fuel k : Nat) (σ : St F) (ht : σ.tracing = true)
    (hno : ∀ j, j < k → (turns fuel j σ).loc.line ≠ none → curTok (turns fuel j σ) ≠ some (.kw .If)) :
    traces (turns fuel k σ).out = (path fuel k σ).reverse ++ traces σ.out := by
  induction k generalizing σ with
  | zero => rfl
  | succ k ih =>
    obtain ⟨h1, _, c, _, hc1, h3⟩ := step_traces fuel σ ht
    have htr := ih (step fuel σ) (h1.trans ht) (fun j hj => hno (j + 1) (Nat.succ_lt_succ hj))
    show traces (turns fuel k (step fuel σ)).out = (turnLine σ ++ path fuel k (step fuel σ)).reverse ++ _
    rw [htr, List.reverse_append, List.append_assoc]
    congr 1
    cases turnLine_cases σ with
    | inl h0 => rw [h0] at h3 ⊢; rw [h3, rep_nil]; rfl
    | inr h1 =>
      obtain ⟨ln, h0, hl⟩ := h1
      have := hc1 (hno 0 (Nat.zero_lt_succ k) (by show σ.loc.line ≠ none; rw [hl]; exact fun h => by cases h))
      rw [h0] at h3 ⊢
      rw [h3, this, rep_one]; rfl

/-- no line of the program contains the keyword IF -/
def NoIf (L : Lines F) : Prop := ∀ n ts, L.get n = some ts → Token.kw .If ∉ ts

omit [NumOps F] in
theorem curTok_noIf (σ : St F) (h : NoIf σ.lines) (hl : σ.loc.line ≠ none) : curTok σ ≠ some (.kw .If) := by
  unfold curTok lineOf
  cases hl' : σ.loc.line with
  | none => exact absurd hl' hl
  | some n =>
    simp only
    cases hg : σ.lines.get n with
    | none => intro hc; cases hc
    | some ts =>
      intro hc
      simp only [Option.bind_some] at hc
      exact h n ts hg (List.mem_of_getElem? hc)

/-- **trace_is_path_noIf**: for a program without IF the trace records are exactly the path. -/
theorem trace_is_path_noIf (fuel k : Nat) (σ : St F) (ht : σ.tracing = true) (hprog : NoIf σ.lines) :
    traces (turns fuel k σ).out = (path fuel k σ).reverse ++ traces σ.out := by
  refine trace_is_path_of_no_if fuel k σ ht (fun j _ hl => curTok_noIf _ ?_ hl)
  rw [(turns_tracing fuel j σ ht).2]; exact hprog


/-! ### a whole RUN: the command's own first turn, then `k` more turns -/

/-- the state in which RUN's first turn starts (RUN's reset applied) -/
def runStart (σ : St F) : St F := C10.resetForRun (σ.setImmediate [])

/-- the state after the host call `start_evaluating("RUN")` -/
def afterRun (fuel : Nat) (σ : St F) : St F := (startEvaluating fuel C15.RUN σ).final

/-- the state after RUN and `k` further `continue_evaluating` turns -/
def runEnd (fuel k : Nat) (σ : St F) : St F := turns fuel k (afterRun fuel σ)

/-- the path of RUN followed by `k` turns -/
def runPath (fuel k : Nat) (σ : St F) : List Nat := startLine (runStart σ) ++ path fuel k (afterRun fuel σ)

omit [NumOps F] in
theorem runStart_nt (σ : St F) : NT σ (runStart σ) := by
  unfold runStart C10.resetForRun St.runFromFirst St.resetRuntime St.setImmediate
  dsimp only
  split <;> exact ⟨rfl, rfl, rfl⟩

theorem run_first (fuel : Nat) (σ : St F) (hs : σ.state = .idle) (ht : σ.tracing = true) :
    TurnRel (startLine (runStart σ)) (curTok (runStart σ) ≠ some (.kw .If)) σ (afterRun fuel σ) := by
  unfold afterRun
  rw [C15.run_unfold fuel σ hs]
  have h0 := runStart_nt σ
  have h1 := turn_traces fuel (runStart σ) (h0.1.trans ht)
  refine TurnRel.nt_left h0 (TurnRel.nt_right ?_ (final_postprocess _ _))
  show TurnRel _ _ (runStart σ) ((runNextStatement fuel >>= fun _ => (pure () : M F Unit)) (runStart σ)).final
  rw [final_bind]
  cases hr : runNextStatement fuel (runStart σ) with
  | ok a s => rw [hr] at h1; exact h1
  | err e s => rw [hr] at h1; exact h1

omit [NumOps F] in
theorem startLine_cases (σ : St F) : startLine σ = [] ∨ ∃ ln, startLine σ = [ln] ∧ σ.loc.line = some ln := by
  unfold startLine
  by_cases hc : (curTok σ).isSome = true
  · rw [if_pos hc]
    cases hl : σ.loc.line with
    | none => exact Or.inl rfl
    | some ln => exact Or.inr ⟨ln, rfl, rfl⟩
  · rw [if_neg hc]; exact Or.inl rfl

/-- **run_trace_is_path_partial**: RUN (entered in an idle interpreter with
    tracing on) followed by `k` turns. -/
theorem run_trace_is_path_partial (fuel k : Nat) (σ : St F) (hs : σ.state = .idle) (ht : σ.tracing = true) :
    ∃ ks : List Nat, ks.length = (runPath fuel k σ).length ∧ (∀ c ∈ ks, 1 ≤ c) ∧
      traces (runEnd fuel k σ).out = (expand (runPath fuel k σ) ks).reverse ++ traces σ.out := by
  obtain ⟨h1, _, c, hc, _, h3⟩ := run_first fuel σ hs ht
  obtain ⟨ks, hlen, hks, htr⟩ := trace_is_path_partial fuel k (afterRun fuel σ) (h1.trans ht)
  unfold runEnd runPath
  cases startLine_cases (runStart σ) with
  | inl h0 =>
    rw [h0] at h3 ⊢
    rw [rep_nil, List.nil_append] at h3
    exact ⟨ks, hlen, hks, by rw [htr, h3]; rfl⟩
  | inr h1 =>
    obtain ⟨ln, h0, _⟩ := h1
    rw [h0] at h3 ⊢
    refine ⟨c :: ks, by simp [hlen], ?_, ?_⟩
    · intro x hx
      cases hx with
      | head => exact hc
      | tail _ hx => exact hks x hx
    · show _ = (List.replicate c ln ++ expand (path fuel k (afterRun fuel σ)) ks).reverse ++ _
      rw [htr, h3, rep_singleton, List.reverse_append, List.reverse_replicate, List.append_assoc]

/-- **run_trace_is_path_noIf**: for a program without IF, the trace records of a
    RUN followed by `k` turns are exactly the lines of the path, in order (the
    queue is newest-first, hence `reverse`); `take_output` then delivers them
    oldest first, i.e. as the path itself. -/
theorem run_trace_is_path_noIf (fuel k : Nat) (σ : St F) (hs : σ.state = .idle) (ht : σ.tracing = true)
    (hprog : NoIf σ.lines) :
    traces (runEnd fuel k σ).out = (runPath fuel k σ).reverse ++ traces σ.out := by
  obtain ⟨h1, h2, c, _, hc1, h3⟩ := run_first fuel σ hs ht
  have htr := trace_is_path_noIf fuel k (afterRun fuel σ) (h1.trans ht) (by rw [h2]; exact hprog)
  unfold runEnd runPath
  rw [htr, List.reverse_append, List.append_assoc]
  congr 1
  cases startLine_cases (runStart σ) with
  | inl h0 => rw [h0] at h3 ⊢; rw [h3, rep_nil]; rfl
  | inr h1 =>
    obtain ⟨ln, h0, hl⟩ := h1
    have := hc1 (curTok_noIf _ (by rw [(runStart_nt σ).2.1]; exact hprog)
      (by rw [hl]; exact fun h => by cases h))
    rw [h0] at h3 ⊢
    rw [h3, this, rep_one]; rfl

/-- **Counterexample to `trace_is_path` as requested.**  Program
    `10 IF "A" THEN PRINT`, tracing on, RUN (and no further turn): the path is
    `[10]` — one turn, one statement started, on line 10 — but the queue holds
    TWO records `Out.trace 10`, because the PRINT under THEN is a nested
    statement activation and traces again. -/
theorem trace_is_path_false :
    ∃ σ : St Unit, σ.state = .idle ∧ σ.tracing = true ∧ σ.out = [] ∧
      runPath 5 0 σ = [10] ∧ traces (runEnd 5 0 σ).out = [10, 10] :=
  ⟨{ tracing := true,
     lines := { map := [(10, [.kw .If, .str ['A'], .kw .Then, .kw .Print])], sorted := [10] } },
   by decide +kernel⟩

/-- Non-vacuity of the exact statement: `10 PRINT : PRINT` / `20 PRINT`, RUN and
    three more turns: path `[10, 10, 10, 20]` (the colon is a statement of its own). -/
example :
    let σ : St Unit := { tracing := true, lines := { map := [(10, [.kw .Print, .kw .Colon, .kw .Print]), (20, [.kw .Print])], sorted := [10, 20] } }
    runPath 5 3 σ = [10, 10, 10, 20] ∧ traces (runEnd 5 3 σ).out = [20, 10, 10, 10] := by
  decide +kernel

/-! ### the property as worded: trace records with immediate repeats collapsed -/

/-- remove immediate repeats: `[10,10,20,20,10] ↦ [10,20,10]` -/
def collapse : List Nat → List Nat
  | [] => []
  | a :: l => if l.head? = some a then collapse l else a :: collapse l

example : collapse [10, 10, 20, 20, 10] = [10, 20, 10] := by decide

theorem collapse_nil : collapse [] = [] := rfl

theorem collapse_cons (a : Nat) (l : List Nat) :
    collapse (a :: l) = if l.head? = some a then collapse l else a :: collapse l := rfl

theorem head?_collapse (l : List Nat) : (collapse l).head? = l.head? := by
  induction l with
  | nil => rfl
  | cons a l ih =>
    rw [collapse_cons]
    by_cases h : l.head? = some a
    · rw [if_pos h, ih, h]; rfl
    · rw [if_neg h]; rfl

/-- `collapse (a :: l)` only depends on `collapse l` -/
theorem collapse_cons_congr (a : Nat) {l l' : List Nat} (h : collapse l = collapse l') :
    collapse (a :: l) = collapse (a :: l') := by
  have hh : l.head? = l'.head? := by rw [← head?_collapse l, h, head?_collapse]
  rw [collapse_cons, collapse_cons, hh, h]

theorem collapse_append_congr (x : List Nat) {l l' : List Nat} (h : collapse l = collapse l') :
    collapse (x ++ l) = collapse (x ++ l') := by
  induction x with
  | nil => exact h
  | cons a x ih => exact collapse_cons_congr a ih

theorem collapse_replicate_append (c a : Nat) (l : List Nat) :
    collapse (List.replicate (c + 1) a ++ l) = collapse (a :: l) := by
  induction c with
  | zero => rfl
  | succ c ih =>
    have : List.replicate (c + 1 + 1) a ++ l = a :: (List.replicate (c + 1) a ++ l) := rfl
    rw [this, collapse_cons]
    have hh : (List.replicate (c + 1) a ++ l).head? = some a := rfl
    rw [if_pos hh, ih]

theorem expand_nil (ks : List Nat) : expand [] ks = [] := by
  cases ks <;> rfl

/-- **collapse_expand**: repeating each line of a path a positive number of times
    is invisible once immediate repeats are collapsed. -/
theorem collapse_expand (p ks : List Nat) (hks : ∀ c ∈ ks, 1 ≤ c) (hlen : ks.length = p.length) :
    collapse (expand p ks) = collapse p := by
  induction p generalizing ks with
  | nil => rw [expand_nil]
  | cons ln p ih =>
    cases ks with
    | nil => cases hlen
    | cons c ks =>
      have hc : 1 ≤ c := hks c (List.mem_cons_self ..)
      obtain ⟨c', rfl⟩ : ∃ c', c = c' + 1 := ⟨c - 1, by omega⟩
      show collapse (List.replicate (c' + 1) ln ++ expand p ks) = _
      rw [collapse_replicate_append]
      exact collapse_cons_congr ln
        (ih ks (fun x hx => hks x (List.mem_cons_of_mem _ hx)) (by simpa using hlen))

theorem collapse_snoc (l : List Nat) (a : Nat) :
    collapse (l ++ [a]) = if l.getLast? = some a then collapse l else collapse l ++ [a] := by
  induction l with
  | nil => rfl
  | cons b l ih =>
    cases l with
    | nil =>
      show collapse [b, a] = if some b = some a then collapse [b] else collapse [b] ++ [a]
      by_cases h : a = b
      · subst h; rfl
      · have h1 : ¬ (some b = some a) := fun hh => h (Option.some.inj hh).symm
        have h2 : ¬ ([a].head? = some b) := fun hh => h (Option.some.inj hh)
        rw [if_neg h1, collapse_cons, if_neg h2]; rfl
    | cons c l =>
      generalize hm : c :: l = m at ih ⊢
      have hl : (b :: m).getLast? = m.getLast? := by rw [← hm]; rfl
      have hh : (m ++ [a]).head? = m.head? := by rw [← hm]; rfl
      rw [List.cons_append, collapse_cons, hh, ih, hl, collapse_cons b m]
      by_cases h1 : m.head? = some b <;> by_cases h2 : m.getLast? = some a
      · simp only [if_pos h1, if_pos h2]
      · simp only [if_pos h1, if_neg h2]
      · simp only [if_neg h1, if_pos h2]
      · simp only [if_neg h1, if_neg h2]; rfl

/-- **collapse_reverse** -/
theorem collapse_reverse (l : List Nat) : collapse l.reverse = (collapse l).reverse := by
  induction l with
  | nil => rfl
  | cons a l ih =>
    rw [List.reverse_cons, collapse_snoc, List.getLast?_reverse, collapse_cons, ih]
    by_cases h : l.head? = some a
    · rw [if_pos h, if_pos h]
    · rw [if_neg h, if_neg h, List.reverse_cons]

/-- **trace_collapsed_is_path_from** (arbitrary initial queue).  Read oldest first,
    with immediate repeats collapsed, the trace records after `k` turns are the
    earlier trace records followed by the path. -/
theorem trace_collapsed_is_path_from (fuel k : Nat) (σ : St F) (ht : σ.tracing = true) :
    collapse (traces (turns fuel k σ).out).reverse =
      collapse ((traces σ.out).reverse ++ path fuel k σ) := by
  obtain ⟨ks, hlen, hks, htr⟩ := trace_is_path_partial fuel k σ ht
  rw [htr, List.reverse_append, List.reverse_reverse]
  exact collapse_append_congr _ (collapse_expand _ ks hks hlen)

/-- **trace_collapsed_is_path.**  The trace records, read in order (oldest first)
    with immediate repeats collapsed, name exactly the sequence of numbered lines
    execution passes through (the path with ITS immediate repeats collapsed: two
    consecutive statements on one line are one visit of that line). -/
theorem trace_collapsed_is_path (fuel k : Nat) (σ : St F) (ht : σ.tracing = true) (h0 : traces σ.out = []) :
    collapse (traces (turns fuel k σ).out).reverse = collapse (path fuel k σ) := by
  rw [trace_collapsed_is_path_from fuel k σ ht, h0]; rfl

/-- RUN followed by `k` turns, arbitrary initial queue. -/
theorem run_trace_collapsed_is_path_from (fuel k : Nat) (σ : St F) (hs : σ.state = .idle) (ht : σ.tracing = true) :
    collapse (traces (runEnd fuel k σ).out).reverse =
      collapse ((traces σ.out).reverse ++ runPath fuel k σ) := by
  obtain ⟨ks, hlen, hks, htr⟩ := run_trace_is_path_partial fuel k σ hs ht
  rw [htr, List.reverse_append, List.reverse_reverse]
  exact collapse_append_congr _ (collapse_expand _ ks hks hlen)

/-- **run_trace_collapsed_is_path.**  RUN entered in an idle interpreter with
    tracing on whose queue holds no trace record (e.g. the output was taken
    before RUN: `σ.out = []`), followed by `k` turns. -/
theorem run_trace_collapsed_is_path (fuel k : Nat) (σ : St F) (hs : σ.state = .idle) (ht : σ.tracing = true)
    (h0 : traces σ.out = []) :
    collapse (traces (runEnd fuel k σ).out).reverse = collapse (runPath fuel k σ) := by
  rw [run_trace_collapsed_is_path_from fuel k σ hs ht, h0]; rfl

/-- … in particular right after `take_output`. -/
theorem run_trace_collapsed_is_path_taken (fuel k : Nat) (σ : St F) (hs : σ.state = .idle) (ht : σ.tracing = true) :
    collapse (traces (runEnd fuel k (takeOutput σ).2).out).reverse = collapse (runPath fuel k (takeOutput σ).2) :=
  run_trace_collapsed_is_path fuel k _ hs ht rfl

/-- The IF program of `trace_is_path_false`, collapsed: records `[10, 10]`, path `[10]`. -/
example :
    let σ : St Unit := { tracing := true, lines := { map := [(10, [.kw .If, .str ['A'], .kw .Then, .kw .Print])], sorted := [10] } }
    collapse (traces (runEnd 5 0 σ).out).reverse = [10] ∧ collapse (runPath 5 0 σ) = [10] := by
  decide +kernel

/-! ### 3. the scalar-variable warning -/

/-- the text of the warning -/
def undeclaredVariableMsg (x : Str) : Str := "Use of undeclared variable '".toList ++ x ++ "'.".toList

/-- what reading the scalar `x` returns: the innermost FN-frame binding, else the
    variable, else the default for the name -/
def scalarValue (σ : St F) (x : Str) : Value F :=
  match findInStack x σ.stack with
  | some v => v
  | none => getVar σ x

/-- Reading a scalar variable in `term` (the token under the cursor is the
    identifier `x`, and it is not followed by `(`): the exact result. -/
theorem scalar_read (ev : Evals F) (σ : St F) (ts : List (Token F)) (x : Str)
    (hts : tokens σ = .ok ts σ) (hx : ts[σ.loc.idx]? = some (.symbol x))
    (hnp : ∀ t, ts[σ.loc.idx + 1]? = some t → t.isKw .LeftParen = false) :
    term ev σ = .ok (scalarValue σ x)
      { σ with loc := { σ.loc with idx := σ.loc.idx + 1 }, reads := σ.reads + 2,
               out := if (σ.warnings && (findInStack x σ.stack).isNone && !alHas x σ.vars) = true
                      then .warning (undeclaredVariableMsg x) σ.loc.line :: σ.out else σ.out } := by
  have hn := Proofs.Cursor.next_some σ ts (.symbol x) hts hx
  have hts1 := Proofs.Cursor.tokens_congr σ
    ({ σ with reads := σ.reads + 1, loc := { σ.loc with idx := σ.loc.idx + 1 } } : St F) ts hts rfl rfl rfl
  have hp := Proofs.Cursor.peekIsKw_false _ ts .LeftParen hts1 hnp
  have hnu : nextUnwrapped σ = .ok (.symbol x)
      ({ σ with reads := σ.reads + 1, loc := { σ.loc with idx := σ.loc.idx + 1 } } : St F) := by
    unfold nextUnwrapped; simp only [bind, M.bindM, hn, pure, M.pureM]
  have hp' : peekIsKw .LeftParen
      ({ σ with reads := σ.reads + 1, loc := { σ.loc with idx := σ.loc.idx + 1 } } : St F) =
      .ok false ({ σ with reads := σ.reads + 2, loc := { σ.loc with idx := σ.loc.idx + 1 } } : St F) := hp
  unfold term scalarValue
  simp only [bind, M.bindM, hnu, hp', Bool.false_eq_true, ↓reduceIte, M.get, pure]
  cases hf : findInStack x σ.stack with
  | some v =>
    simp only [Option.isNone_some, Bool.and_false, Bool.false_and, Bool.false_eq_true, ↓reduceIte]
    rfl
  | none =>
    simp only [Option.isNone_none, Bool.and_true]
    cases hw : (σ.warnings && !alHas x σ.vars) with
    | false =>
      simp only [Bool.false_eq_true, ↓reduceIte, M.pureM]
      rfl
    | true =>
      have hw' : σ.warnings = true := by
        cases h : σ.warnings <;> simp [h] at hw ⊢
      simp only [↓reduceIte, hw']
      rfl

/-- **scalar_warn_iff.**  Reading the scalar `x` emits the warning
    `Use of undeclared variable 'x'.` (tagged with the current line) iff warnings
    are on, `x` has never been assigned and no FN frame on the stack binds `x`;
    otherwise it emits nothing.  In both cases the value, the cursor and the read
    counter are the same, and nothing else changes. -/
theorem scalar_warn_iff (ev : Evals F) (σ : St F) (ts : List (Token F)) (x : Str)
    (hts : tokens σ = .ok ts σ) (hx : ts[σ.loc.idx]? = some (.symbol x))
    (hnp : ∀ t, ts[σ.loc.idx + 1]? = some t → t.isKw .LeftParen = false) :
    ((σ.warnings = true ∧ alGet x σ.vars = none ∧ findInStack x σ.stack = none) →
      term ev σ = .ok (scalarValue σ x)
        { σ with loc := { σ.loc with idx := σ.loc.idx + 1 }, reads := σ.reads + 2,
                 out := .warning (undeclaredVariableMsg x) σ.loc.line :: σ.out }) ∧
    (¬ (σ.warnings = true ∧ alGet x σ.vars = none ∧ findInStack x σ.stack = none) →
      term ev σ = .ok (scalarValue σ x)
        { σ with loc := { σ.loc with idx := σ.loc.idx + 1 }, reads := σ.reads + 2 }) := by
  have h := scalar_read ev σ ts x hts hx hnp
  have hiff : (σ.warnings && (findInStack x σ.stack).isNone && !alHas x σ.vars) = true ↔
      (σ.warnings = true ∧ alGet x σ.vars = none ∧ findInStack x σ.stack = none) := by
    unfold alHas
    cases σ.warnings <;> cases findInStack x σ.stack <;> cases alGet x σ.vars <;> simp
  constructor
  · intro hc; rw [h, if_pos (hiff.mpr hc)]
  · intro hc; rw [h, if_neg (fun hh => hc (hiff.mp hh))]

end Abasic.Props.C17
