import Abasic.Props.C03Read
/-
  C03 — READ: which of two failures that meet on one target is reported
  (seed round 9: an implementation that takes the DATA item BEFORE it works out
  the target reports OUT OF DATA where the documented order reports the failing
  subscript).

  For the reference step of a cell target (`readCellSpec`, refined by the model's
  `readLoop`: `read_cell_refines`):
  * `read_subscript_failure_first`: when the subscripts cannot be evaluated, THAT
    error is the outcome — whatever DATA there is or is not, and the DATA cursor
    does not move;
  * `read_out_of_data_after_subscripts`: OUT OF DATA is the outcome exactly when
    the subscripts were evaluated and no item is left — in the state the
    evaluation of the subscripts produced (its random draws, arrays it created).
-/
set_option linter.unusedSectionVars false

namespace Abasic.Props.C03
open Abasic Abasic.Ref

variable {F : Type} [NumOps F]

theorem read_subscript_failure_first (items : List (Nat × DataElement F)) (r : RState3 F) (name : Str)
    (idx : List (Expr2 F)) (err : Err) (h : evalIdx r idx = .error err) :
    readCellSpec items r name idx = (r, .error err) := by
  simp [readCellSpec, h]

theorem read_out_of_data_after_subscripts (items : List (Nat × DataElement F)) (r r1 : RState3 F) (name : Str)
    (idx : List (Expr2 F)) (index : List Nat) (h : evalIdx r idx = .ok (index, r1)) (hnone : items[r1.data]? = none) :
    readCellSpec items r name idx = (r1, .error .outOfData) := by
  simp [readCellSpec, h, hnone]

/-- the two together, as the seed's trigger: no DATA at all and a failing subscript — the subscript's error -/
theorem read_no_data_failing_subscript (r : RState3 F) (name : Str) (idx : List (Expr2 F)) (err : Err)
    (h : evalIdx r idx = .error err) :
    readCellSpec ([] : List (Nat × DataElement F)) r name idx = (r, .error err) :=
  read_subscript_failure_first [] r name idx err h

end Abasic.Props.C03

namespace Abasic.Props.C03
open Abasic Abasic.Ref

/-- non-vacuity (carrier `Unit`): `READ Q("s")` with no DATA at all is a TYPE MISMATCH, not OUT OF DATA -/
example : readCellSpec ([] : List (Nat × DataElement Unit)) ({} : RState3 Unit) "Q".toList [Expr2.str "s".toList]
    = (({} : RState3 Unit), Ctl2.error Err.typeMismatch) := by
  apply read_subscript_failure_first
  simp [evalIdx, foldIdx, fold2, subscript]

end Abasic.Props.C03
