import Abasic.Interp
import Abasic.Proofs.Transparency
/-
  C07 — break and CONT are transparent to the interrupted program.

  Proved here: breaking in at a numbered location and continuing from the
  breakpoint restores exactly the interrupted program's state — cursor,
  subroutine stack, loops, functions, data cursor, variables, arrays, pending
  reply, generator — for every state; the only traces are the BREAK record,
  the emptied immediate line and the `Running` state set by the CONT turn.
  `inspect_pure` (side-effect-free immediate statements at the breakpoint) and
  `assign_at_stop` are listed as open; the check rests for them on the
  correspondence slice and the interrupted-vs-uninterrupted oracle.
-/
namespace Abasic.Props.C07
open Abasic

variable {F : Type} [NumOps F]

omit [NumOps F] in
/-- Breaking in (by the host, or by a STOP statement — same code) records the
    interrupted location as the breakpoint and keeps the subroutine stack. -/
theorem break_records (σ : St F) (n i : Nat) (hloc : σ.loc = { line := some n, idx := i }) :
    breakAtCurrentLocation σ =
      .ok () { σ with state := .idle, out := .brk (some n) :: σ.out, bp := some (n, i), imm := [], loc := {} } := by
  simp [breakAtCurrentLocation, M.modify, St.progBreak, St.setImmediate, hloc]

omit [NumOps F] in
/-- `CONT`'s first half: continuing from the breakpoint puts the cursor back. -/
theorem cont_restores (σ : St F) (n i : Nat) (hbp : σ.bp = some (n, i)) :
    continueFromBreakpoint σ = .ok () { σ with imm := [], loc := { line := some n, idx := i }, bp := none } := by
  simp [continueFromBreakpoint, bind, M.bindM, setImmediate, M.modify, M.get, St.setImmediate, hbp, M.set]

omit [NumOps F] in
/-- Break followed by CONT's restore is the identity on everything the program
    can observe: only the BREAK record, the (dead) immediate line and the host
    state differ. -/
theorem break_cont (σ : St F) (n i : Nat) (hloc : σ.loc = { line := some n, idx := i }) (hbp : σ.bp = none) :
    ∃ σ₁ σ₂, breakAtCurrentLocation σ = .ok () σ₁ ∧ continueFromBreakpoint σ₁ = .ok () σ₂ ∧
      σ₂ = { σ with state := .idle, out := .brk (some n) :: σ.out, imm := [] } := by
  refine ⟨_, _, break_records σ n i hloc, cont_restores _ n i (by simp), ?_⟩
  cases σ
  simp_all

/-! ### the CONT turn -/

/-- `maybe_process_command` on a CONT line, breakpoint pending: restore the
    cursor, then run one statement. -/
theorem cont_process (fuel : Nat) (line : Str) (σ : St F) (n i : Nat)
    (hbp : σ.bp = some (n, i))
    (hcmd : (commandWord line).bind Command.ofWord = some .cont) :
    maybeProcessCommand fuel line σ =
      (do runNextStatement fuel; pure true)
        { σ with imm := [], loc := { line := some n, idx := i }, bp := none } := by
  simp only [maybeProcessCommand, hcmd, bind, M.bindM, cont_restores σ n i hbp]

/-- **cont_command.**  The CONT command entered at the prompt of an idle
    interpreter with a pending breakpoint `(n, i)`: the whole turn is "run the
    next statement" from the state whose cursor is back at the breakpoint, the
    breakpoint cleared and the immediate line emptied — nothing else differs
    (in particular the subroutine stack is kept, because a breakpoint is
    pending when the immediate line is reset). -/
theorem cont_command (fuel : Nat) (line : Str) (σ : St F) (n i : Nat)
    (hidle : σ.state = .idle) (hbp : σ.bp = some (n, i))
    (hcmd : (commandWord line).bind Command.ofWord = some .cont) :
    evaluateImpl fuel line σ =
      (do runNextStatement fuel; pure ())
        { σ with imm := [], loc := { line := some n, idx := i }, bp := none } := by
  have hset : setImmediate [] σ = .ok () { σ with imm := [], loc := {} } := by
    simp [setImmediate, M.modify, St.setImmediate, hbp]
  have hp := cont_process fuel line ({ σ with imm := [], loc := {} } : St F) n i hbp hcmd
  have hne : (σ.state != .idle) = false := by simp [hidle]
  simp only [evaluateImpl, bind, M.bindM, M.get, hne, Bool.false_eq_true, if_false, hset, hp]
  generalize runNextStatement fuel
    ({ σ with imm := [], loc := { line := some n, idx := i }, bp := none } : St F) = r
  cases r <;> rfl

/-- The command word of the line `CONT` is CONT. -/
theorem cont_word : (commandWord "CONT".toList).bind Command.ofWord = some .cont := by decide

/-- **break_cont_turn** (precise form).  For a running interpreter at a numbered
    location with no breakpoint pending, breaking in and then entering `CONT`
    is `postprocess (runNextStatement fuel)` — i.e. exactly the body of
    `continueEvaluating fuel` — started from a state that differs from `σ`
    only in the BREAK record prepended to `out` and the emptied (dead)
    immediate line; `continueEvaluating fuel σ` is the same computation started
    from `σ` itself.  (The `idle` state set by the break is overwritten by the
    first action of `runNextStatement`.) -/
theorem break_cont_turn (fuel : Nat) (σ : St F) (n i : Nat)
    (hrun : σ.state = .running)
    (hloc : σ.loc = { line := some n, idx := i }) (hbp : σ.bp = none) :
    (do breakAtCurrentLocation; startEvaluating fuel "CONT".toList) σ =
        postprocess (runNextStatement fuel) { σ with out := .brk (some n) :: σ.out, imm := [] } ∧
    continueEvaluating fuel σ = postprocess (runNextStatement fuel) σ := by
  constructor
  · have hb := break_records σ n i hloc
    have hc := cont_command fuel "CONT".toList
      ({ σ with state := .idle, out := .brk (some n) :: σ.out, bp := some (n, i), imm := [], loc := {} } : St F)
      n i rfl rfl cont_word
    simp only [bind, M.bindM, hb, startEvaluating, postprocess, hc]
    -- the state `idle` left by the break is overwritten by `runNextStatement`'s first action
    have hst : ∀ s : St F, runNextStatement fuel s = runNextStatement fuel { s with state := .running } := by
      intro s
      simp only [runNextStatement, bind, M.bindM, M.modify]
    rw [hst ({ σ with state := .idle, out := .brk (some n) :: σ.out, bp := none, imm := [], loc := { line := some n, idx := i } } : St F)]
    have hs : ({ σ with state := .running, out := .brk (some n) :: σ.out, bp := none, imm := [], loc := { line := some n, idx := i } } : St F) =
        { σ with out := .brk (some n) :: σ.out, imm := [] } := by
      cases σ; simp_all
    simp only [] at hs ⊢
    rw [hs]
    cases runNextStatement fuel ({ σ with out := .brk (some n) :: σ.out, imm := [] } : St F) <;> rfl
  · have hne : (σ.state != .running) = false := by simp [hrun]
    simp only [continueEvaluating, bind, M.bindM, M.get, hne, Bool.false_eq_true, if_false]

/-! ### transparency of the whole turn (and of every later turn)

  `break_cont_turn` reduces the question to: does `runNextStatement` care about
  the BREAK record in `out` and about the contents of the immediate line?  It
  does not — provided nothing points into the immediate line.  That proviso is
  necessary: a program started by an immediate `GOSUB 100 : …` has a return
  address in the immediate line, which the break erases
  (`break_cont_not_transparent_in_general` below).  With the cursor, all return
  addresses and all FOR loops in numbered lines (`numbered`), the two runs
  agree on the outcome and on every component of the state except `out` and
  `imm`; `out` differs by exactly the BREAK record, inserted where the break
  happened. -/

/-- every return address and every FOR loop start is in a numbered line -/
def numbered (σ : St F) : Prop :=
  σ.stack.all (fun f => f.ret.line.isSome) = true ∧ σ.loops.all (fun l => l.loc.line.isSome) = true

/-- `s'` is `s` with `extra` inserted in the output queue just above the
    records `base` that were already there; everything else but the immediate
    line is the same -/
def agreeModOut (base extra : List Out) (s s' : St F) : Prop :=
  ∃ pre im', s.out = pre ++ base ∧ s' = { s with out := pre ++ extra ++ base, imm := im' }

/-- same outcome (ok / the same error), states agreeing as above -/
def sameModOut {α : Type} (base extra : List Out) : Res F α → Res F α → Prop
  | .ok a s, .ok a' s' => a = a' ∧ agreeModOut base extra s s'
  | .err e s, .err e' s' => e = e' ∧ agreeModOut base extra s s'
  | _, _ => False

omit [NumOps F] in
theorem sameModOut_of_relRes {α : Type} (base extra : List Out) (r r' : Res F α)
    (h : Proofs.Sim.RelRes base (extra ++ base) r r') : sameModOut base extra r r' := by
  cases r <;> cases r' <;> simp only [Proofs.Sim.RelRes, sameModOut] at h ⊢
  · obtain ⟨ha, pre, im', ho, hs, _⟩ := h
    exact ⟨ha, pre, im', ho, by rw [hs, List.append_assoc]⟩
  · obtain ⟨ha, pre, im', ho, hs, _⟩ := h
    exact ⟨ha, pre, im', ho, by rw [hs, List.append_assoc]⟩

/-- **break_cont_transparent.**  Running interpreter at a numbered location, no
    breakpoint pending, nothing pointing into the immediate line.  Breaking in
    and entering `CONT` has the same outcome as simply continuing: the same
    result (ok, or the same error at the same location), and final states that
    agree on every component except the immediate line and the output queue,
    where the broken-into run has the one extra BREAK record — inserted below
    everything the continued statement printed and above everything printed
    before. -/
theorem break_cont_transparent (fuel : Nat) (σ : St F) (n i : Nat)
    (hrun : σ.state = .running)
    (hloc : σ.loc = { line := some n, idx := i }) (hbp : σ.bp = none) (hnum : numbered σ) :
    sameModOut σ.out [.brk (some n)]
      (continueEvaluating fuel σ)
      ((do breakAtCurrentLocation; startEvaluating fuel "CONT".toList) σ) := by
  obtain ⟨h1, h2⟩ := break_cont_turn fuel σ n i hrun hloc hbp
  rw [h1, h2]
  apply sameModOut_of_relRes
  refine (Proofs.Sim.sim_postprocess (Proofs.Sim.sim_runNextStatement fuel)).run σ _ ?_
  exact ⟨[], [], rfl, rfl, Or.inr ⟨by rw [hloc]; rfl, hnum.1, hnum.2⟩⟩

/-- … and the agreement persists: from related states (same everything but
    `out`/`imm`, `out` differing by records inserted at a fixed depth, and
    either the same immediate line or nothing pointing into it) every further
    `continueEvaluating` and `provideInput` turn has the same outcome and again
    related states.  (Instances of the general simulation theorem in
    `Abasic/Proofs/Transparency.lean`.) -/
theorem later_turns_agree (fuel : Nat) (base base' : List Out) (s s' : St F)
    (h : Proofs.Sim.Rel base base' s s') :
    Proofs.Sim.RelRes base base' (continueEvaluating fuel s) (continueEvaluating fuel s') ∧
    ∀ text, Proofs.Sim.RelRes base base' (provideInput text s) (provideInput text s') :=
  ⟨(Proofs.Sim.sim_continueEvaluating fuel).run s s' h,
   fun text => (Proofs.Sim.sim_provideInput text).run s s' h⟩

/-- The relation that `break_cont_transparent` establishes is the one
    `later_turns_agree` consumes. -/
theorem break_cont_related (fuel : Nat) (σ : St F) (n i : Nat)
    (hrun : σ.state = .running)
    (hloc : σ.loc = { line := some n, idx := i }) (hbp : σ.bp = none) (hnum : numbered σ) :
    Proofs.Sim.RelRes σ.out (.brk (some n) :: σ.out)
      (continueEvaluating fuel σ)
      ((do breakAtCurrentLocation; startEvaluating fuel "CONT".toList) σ) := by
  obtain ⟨h1, h2⟩ := break_cont_turn fuel σ n i hrun hloc hbp
  rw [h1, h2]
  refine (Proofs.Sim.sim_postprocess (Proofs.Sim.sim_runNextStatement fuel)).run σ _ ?_
  exact ⟨[], [], rfl, rfl, Or.inr ⟨by rw [hloc]; rfl, hnum.1, hnum.2⟩⟩

/-- the host's run loop: keep calling `continue_evaluating` while the
    interpreter is running, at most `k` times -/
def contTurns (fuel : Nat) : Nat → M F Unit
  | 0 => pure ()
  | k + 1 => do
    let s ← M.get
    if s.state == .running then do
      continueEvaluating fuel
      contTurns fuel k
    else pure ()

theorem sim_contTurns (fuel k : Nat) (base base' : List Out) :
    Proofs.Sim.SimM (F := F) base base' (contTurns fuel k) := by
  induction k with
  | zero => exact Proofs.Sim.sim_pure _
  | succ k ih =>
    unfold contTurns
    constructor
    intro s s' h
    refine Proofs.Sim.at_get_bind ?_
    have hr := h
    obtain ⟨pre, im', ho, rfl, hi⟩ := h
    dsimp only
    refine Proofs.Sim.at_ite ?_ (Proofs.Sim.at_pure _ hr)
    exact Proofs.Sim.at_bind ((Proofs.Sim.sim_continueEvaluating fuel).run _ _ hr)
      fun _ t t' ht => ih.run t t' ht

/-- **break_cont_run_transparent.**  The whole rest of the run, not just the
    interrupted statement: continuing for up to `k` further turns after
    break + CONT gives the same outcome as continuing undisturbed for the same
    number of turns — same result, same final state except for the immediate
    line and the single BREAK record in the output queue (below everything
    printed after the break, above everything printed before). -/
theorem break_cont_run_transparent (fuel k : Nat) (σ : St F) (n i : Nat)
    (hrun : σ.state = .running)
    (hloc : σ.loc = { line := some n, idx := i }) (hbp : σ.bp = none) (hnum : numbered σ) :
    sameModOut σ.out [.brk (some n)]
      ((do continueEvaluating fuel; contTurns fuel k) σ)
      ((do (do breakAtCurrentLocation; startEvaluating fuel "CONT".toList); contTurns fuel k) σ) := by
  apply sameModOut_of_relRes
  exact Proofs.Sim.at_bind (break_cont_related fuel σ n i hrun hloc hbp hnum)
    fun _ t t' ht => (sim_contTurns fuel k _ _).run t t' ht

/-- The `numbered` hypothesis cannot be dropped: line `100 RETURN` reached by a
    GOSUB issued from the immediate line `: …`.  Undisturbed, RETURN goes back
    into the immediate line and the interpreter keeps running it; after a
    break and CONT the immediate line is gone and the interpreter goes idle. -/
def cexState : St Unit :=
  { lines := { map := [(100, [.kw .Return])], sorted := [100] }, imm := [.kw .Colon],
    loc := { line := some 100, idx := 0 }, stack := [{ ret := { line := none, idx := 0 }, vars := [] }],
    state := .running }

def Res.st {α : Type} : Res F α → St F
  | .ok _ s => s
  | .err _ s => s

theorem break_cont_not_transparent_in_general :
    cexState.state = .running ∧ cexState.loc = { line := some 100, idx := 0 } ∧ cexState.bp = none ∧
    (Res.st (continueEvaluating 1 cexState)).state = .running ∧
    (Res.st ((do breakAtCurrentLocation; startEvaluating 1 "CONT".toList) cexState)).state = .idle := by
  decide

/-- Non-vacuity. -/
example : let σ : St Unit := { loc := { line := some 10, idx := 3 }, state := .running,
                               stack := [{ ret := { line := some 5, idx := 1 }, vars := [] }] }
    σ.loc = { line := some 10, idx := 3 } ∧ σ.bp = none := by decide

/-- Non-vacuity of `break_cont_transparent`: inside a subroutine and a FOR loop
    of a numbered program. -/
example : let σ : St Unit := { loc := { line := some 10, idx := 3 }, state := .running,
                               stack := [{ ret := { line := some 5, idx := 1 }, vars := [] }],
                               loops := [{ loc := { line := some 7, idx := 6 }, sym := ['I'], toV := (), stepV := () }] }
    σ.state = .running ∧ σ.loc = { line := some 10, idx := 3 } ∧ σ.bp = none ∧ numbered σ := by
  refine ⟨rfl, rfl, rfl, ?_, ?_⟩ <;> decide

end Abasic.Props.C07
