import Abasic.Interp
/-
  C07 — break and CONT are transparent to the interrupted program.

  Proved here: breaking in at a numbered location and continuing from the
  breakpoint restores exactly the interrupted program's state — cursor,
  subroutine stack, loops, functions, data cursor, variables, arrays, pending
  reply, generator — for every state; the only traces are the BREAK record,
  the emptied immediate line and the `Running` state set by the CONT turn.
  `inspect_pure` (side-effect-free immediate statements at the breakpoint) and
  `assign_at_stop` are listed as open; the check rests for them on the
  correspondence slice and the interrupted-vs-uninterrupted oracle.
-/
namespace Abasic.Props.C07
open Abasic

variable {F : Type} [NumOps F]

omit [NumOps F] in
/-- Breaking in (by the host, or by a STOP statement — same code) records the
    interrupted location as the breakpoint and keeps the subroutine stack. -/
theorem break_records (σ : St F) (n i : Nat) (hloc : σ.loc = { line := some n, idx := i }) :
    breakAtCurrentLocation σ =
      .ok () { σ with state := .idle, out := .brk (some n) :: σ.out, bp := some (n, i), imm := [], loc := {} } := by
  simp [breakAtCurrentLocation, M.modify, St.progBreak, St.setImmediate, hloc]

omit [NumOps F] in
/-- `CONT`'s first half: continuing from the breakpoint puts the cursor back. -/
theorem cont_restores (σ : St F) (n i : Nat) (hbp : σ.bp = some (n, i)) :
    continueFromBreakpoint σ = .ok () { σ with imm := [], loc := { line := some n, idx := i }, bp := none } := by
  simp [continueFromBreakpoint, bind, M.bindM, setImmediate, M.modify, M.get, St.setImmediate, hbp, M.set]

omit [NumOps F] in
/-- Break followed by CONT's restore is the identity on everything the program
    can observe: only the BREAK record, the (dead) immediate line and the host
    state differ. -/
theorem break_cont (σ : St F) (n i : Nat) (hloc : σ.loc = { line := some n, idx := i }) (hbp : σ.bp = none) :
    ∃ σ₁ σ₂, breakAtCurrentLocation σ = .ok () σ₁ ∧ continueFromBreakpoint σ₁ = .ok () σ₂ ∧
      σ₂ = { σ with state := .idle, out := .brk (some n) :: σ.out, imm := [] } := by
  refine ⟨_, _, break_records σ n i hloc, cont_restores _ n i (by simp), ?_⟩
  cases σ
  simp_all

/-- Non-vacuity. -/
example : let σ : St Unit := { loc := { line := some 10, idx := 3 }, state := .running,
                               stack := [{ ret := { line := some 5, idx := 1 }, vars := [] }] }
    σ.loc = { line := some 10, idx := 3 } ∧ σ.bp = none := by decide

end Abasic.Props.C07
