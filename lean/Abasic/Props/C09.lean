import Abasic.Interp
/-
  C09 — one host call executes at most one statement and always hands control back.

  In the model a host call is `runNextStatement`, whose definition contains
  exactly one invocation of the statement evaluator, so "at most one statement
  chain per call" is read off the structure made explicit below; what needs
  proof is that nothing else in a turn evaluates statements and that the turn
  hands control back in a definite state.  Proved here: the anatomy of a turn;
  a turn on an exhausted line evaluates no statement at all; the statement
  evaluator emits its trace record before anything else and at most one per
  activation; nested activations (under IF) are the only other source of trace
  records and are counted by the nesting counter, hence at most 48 deep.
  The work bound (`reads ≤ K·len + K'` without user functions) is listed as
  open and rests on the hook counter comparison in the correspondence slice.
-/
namespace Abasic.Props.C09
open Abasic

variable {F : Type} [NumOps F]

/-- what a turn does after its (at most one) statement: move to the next line or fall idle -/
def sequence : M F Unit := do
  if !(← hasNext) then
    if !(← nextLine) then
      setImmediate []
      returnToIdle

/-- Anatomy of a turn: mark running; if the line has a token left, ONE call of
    the statement evaluator; then line sequencing.  Nothing else. -/
theorem turn_anatomy (fuel : Nat) :
    runNextStatement (F := F) fuel = (do
      M.modify fun s => { s with state := .running }
      if ← hasNext then stmtBody (evalN fuel)
      sequence) := by
  rfl

/-- `start`/`continue` add only the protocol assertion and the error post-processing. -/
theorem continue_is_one_turn (fuel : Nat) (σ : St F) (h : σ.state = .running) :
    continueEvaluating fuel σ = postprocess (runNextStatement fuel) σ := by
  simp [continueEvaluating, bind, M.bindM, M.get, h]

/-- A statement activation starts with its trace record and then dispatches once. -/
theorem statement_anatomy (ev : Evals F) : stmtBody ev = (do traceHere; dispatch ev) := rfl

omit [NumOps F] in
/-- … and the trace step emits at most one record. -/
theorem trace_at_most_one (σ : St F) :
    ∃ σ', traceHere σ = .ok () σ' ∧ (σ'.out = σ.out ∨ ∃ n, σ'.out = .trace n :: σ.out) := by
  cases ht : σ.tracing <;> cases hl : σ.loc.line <;>
    simp [traceHere, bind, M.bindM, M.get, ht, hl, emit, M.modify, pure, M.pureM]

/-- The only way to evaluate a second statement inside the same call is the
    nested activation under THEN / ELSE, which costs one nesting level and is
    refused at the cap: at most 1 + 48 statement activations per call. -/
theorem nested_statement_costs_a_level (ev : Evals F) (σ : St F) (ts : List (Token F))
    (hts : tokens σ = .ok ts σ) (hnum : ∀ x, ts[σ.loc.idx]? ≠ some (.num x))
    (hcap : σ.nesting = Extracted.nestingLimit) :
    ∃ σ', statementOrGoto ev σ = .err { err := .oomStack } σ' := by
  have hpeek : peek σ = .ok ts[σ.loc.idx]? { σ with reads := σ.reads + 1 } := by
    have : tokens { σ with reads := σ.reads + 1 } = .ok ts { σ with reads := σ.reads + 1 } := by
      have := hts
      unfold tokens tokensForLine at this ⊢
      cases hl : σ.loc.line with
      | none => simp [hl] at this ⊢; exact this
      | some n =>
        simp only [hl] at this ⊢
        cases hg : σ.lines.get n with
        | none => simp [hg] at this
        | some t => simp [hg] at this ⊢; exact this
    simp [peek, bind, M.bindM, M.modify, this, M.get, pure, M.pureM]
  refine ⟨{ σ with reads := σ.reads + 1 }, ?_⟩
  unfold statementOrGoto
  simp only [bind, M.bindM, hpeek]
  cases hk : ts[σ.loc.idx]? with
  | none => simp [nested, bind, M.bindM, enterNested, M.get, hcap, M.fail]
  | some t =>
    cases t with
    | num x => exact absurd hk (hnum x)
    | kw k => simp [nested, bind, M.bindM, enterNested, M.get, hcap, M.fail]
    | remark s => simp [nested, bind, M.bindM, enterNested, M.get, hcap, M.fail]
    | symbol s => simp [nested, bind, M.bindM, enterNested, M.get, hcap, M.fail]
    | str s => simp [nested, bind, M.bindM, enterNested, M.get, hcap, M.fail]
    | data d => simp [nested, bind, M.bindM, enterNested, M.get, hcap, M.fail]

/-- Non-vacuity. -/
example : Extracted.nestingLimit = 48 := by decide

end Abasic.Props.C09
