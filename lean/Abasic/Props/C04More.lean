import Abasic.Props.C04
/-
  C04 (continued) — the line-number parser `parseLineNumber`.

  What the model's parser reads: a run of *ASCII white space* (`isAsciiWs`:
  space, TAB, LF, FF, CR — this is what line_number_parser.rs skips, not the
  narrower `isBasicWs`), then a non-empty maximal run of ASCII digits, whose
  decimal value must be `< 2^64`.  The second component of the result is the
  number of characters consumed, which is also the number of bytes (`len8`),
  since blanks and digits are ASCII.
-/
namespace Abasic.Props.C04
open Abasic

/-- `2^64`, kept behind a definition so that nothing tries to evaluate it against open terms. -/
def u64Bound : Nat := 2 ^ 64

theorem u64Bound_eq : u64Bound = 2 ^ 64 := rfl

/-- the value of a digit string, as the model computes it -/
abbrev decValue (ds : Str) : Nat := digitsValue ds 0

/-- `rest` does not start with a digit -/
def NoDigitHead : Str → Prop
  | [] => True
  | c :: _ => isAsciiDigit c = false

/-- The shape `parseLineNumber` accepts. -/
structure Decomp (s blanks digits rest : Str) : Prop where
  split : s = blanks ++ digits ++ rest
  blanks_ws : ∀ c ∈ blanks, isAsciiWs c = true
  digits_ne : digits ≠ []
  digits_dig : ∀ c ∈ digits, isAsciiDigit c = true
  maximal : NoDigitHead rest

/-! ### digits -/

theorem digit_not_ws (c : Char) (h : isAsciiDigit c = true) : isAsciiWs c = false := by
  have h1 : 48 ≤ c.toNat := by
    simp only [isAsciiDigit, Bool.and_eq_true, decide_eq_true_eq] at h
    exact h.1
  simp only [isAsciiWs, Bool.or_eq_false_iff, beq_eq_false_iff_ne, ne_eq]
  refine ⟨⟨⟨⟨?_, ?_⟩, ?_⟩, ?_⟩, ?_⟩ <;> (intro hc; subst hc; revert h1; decide)

theorem digit_range (c : Char) (h : isAsciiDigit c = true) : 48 ≤ c.toNat ∧ c.toNat ≤ 57 := by
  simp only [isAsciiDigit, Bool.and_eq_true, decide_eq_true_eq] at h
  exact ⟨h.1, h.2⟩

theorem digit_utf8Size (c : Char) (h : isAsciiDigit c = true) : c.utf8Size = 1 := by
  have := (digit_range c h).2
  have h' : c.val.toNat ≤ 127 := by
    show c.toNat ≤ 127
    omega
  simp only [Char.utf8Size]
  have : c.val ≤ 127 := by
    rw [UInt32.le_iff_toNat_le]; exact h'
  simp [this]

theorem ws_utf8Size (c : Char) (h : isAsciiWs c = true) : c.utf8Size = 1 := by
  simp only [isAsciiWs, Bool.or_eq_true, beq_iff_eq] at h
  rcases h with (((rfl | rfl) | rfl) | rfl) | rfl <;> rfl

theorem takeDigits_append (ds rest : Str) (hd : ∀ c ∈ ds, isAsciiDigit c = true)
    (hr : NoDigitHead rest) : takeDigits (ds ++ rest) = (ds, rest) := by
  induction ds with
  | nil =>
    cases rest with
    | nil => rfl
    | cons c cs => simp only [List.nil_append, takeDigits]; rw [if_neg]; simpa [NoDigitHead] using hr
  | cons d ds ih =>
    have hd0 := hd d (List.mem_cons_self ..)
    simp only [List.cons_append, takeDigits, hd0, ↓reduceIte,
      ih (fun c hc => hd c (List.mem_cons_of_mem _ hc))]

theorem takeDigits_spec (s : Str) :
    s = (takeDigits s).1 ++ (takeDigits s).2 ∧ (∀ c ∈ (takeDigits s).1, isAsciiDigit c = true) ∧
      NoDigitHead (takeDigits s).2 := by
  induction s with
  | nil => simp [takeDigits, NoDigitHead]
  | cons c cs ih =>
    by_cases hc : isAsciiDigit c = true
    · simp only [takeDigits, hc, ↓reduceIte]
      obtain ⟨h1, h2, h3⟩ := ih
      refine ⟨?_, ?_, h3⟩
      · simp only [List.cons_append]; rw [← h1]
      · intro x hx
        rcases List.mem_cons.mp hx with rfl | hx
        · exact hc
        · exact h2 x hx
    · simp only [takeDigits, hc, Bool.false_eq_true, ↓reduceIte]
      refine ⟨rfl, by simp, ?_⟩
      simpa [NoDigitHead] using hc

/-! ### `digitsValue` -/

theorem digitsValue_eq_ofDigitChars (ds : Str) (acc : Nat) :
    digitsValue ds acc = Nat.ofDigitChars 10 ds acc := by
  induction ds generalizing acc with
  | nil => simp [digitsValue]
  | cons c cs ih => rw [digitsValue, ih, Nat.ofDigitChars_cons, Nat.mul_comm]

theorem digitsValue_acc (ds : Str) (acc : Nat) :
    digitsValue ds acc = acc * 10 ^ ds.length + digitsValue ds 0 := by
  rw [digitsValue_eq_ofDigitChars, digitsValue_eq_ofDigitChars, Nat.ofDigitChars_eq_ofDigitChars_zero,
    Nat.mul_comm]

theorem digitsValue_append (ds es : Str) (acc : Nat) :
    digitsValue (ds ++ es) acc = digitsValue es (digitsValue ds acc) := by
  induction ds generalizing acc with
  | nil => rfl
  | cons c cs ih => simp only [List.cons_append, digitsValue, ih]

theorem digitsValue_cons (c : Char) (ds : Str) :
    decValue (c :: ds) = (c.toNat - 48) * 10 ^ ds.length + decValue ds := by
  show digitsValue (c :: ds) 0 = _
  rw [digitsValue, digitsValue_acc]
  simp

/-- A digit string of length `k` has a value below `10^k`. -/
theorem digitsValue_lt (ds : Str) (hd : ∀ c ∈ ds, isAsciiDigit c = true) :
    decValue ds < 10 ^ ds.length := by
  induction ds with
  | nil => simp [decValue, digitsValue]
  | cons c cs ih =>
    have ih' := ih (fun x hx => hd x (List.mem_cons_of_mem _ hx))
    have hr := digit_range c (hd c (List.mem_cons_self ..))
    rw [digitsValue_cons, List.length_cons, Nat.pow_succ]
    have : (c.toNat - 48) * 10 ^ cs.length ≤ 9 * 10 ^ cs.length :=
      Nat.mul_le_mul_right _ (by omega)
    omega

/-- Leading zeros do not matter (one zero). -/
theorem digitsValue_zero_cons (ds : Str) : decValue ('0' :: ds) = decValue ds := by
  show digitsValue ('0' :: ds) 0 = _
  rw [digitsValue]
  rfl

/-- Leading zeros do not matter (any number of them). -/
theorem digitsValue_dropZeros (ds : Str) : decValue (ds.dropWhile (· == '0')) = decValue ds := by
  induction ds with
  | nil => rfl
  | cons c cs ih =>
    by_cases hc : c = '0'
    · subst hc
      rw [List.dropWhile_cons_of_pos (by rfl), ih, digitsValue_zero_cons]
    · rw [List.dropWhile_cons_of_neg (by simpa using hc)]

theorem digitChar_inj (c d : Char) (hc : isAsciiDigit c = true) (hd : isAsciiDigit d = true)
    (h : c.toNat - 48 = d.toNat - 48) : c = d := by
  have h1 := digit_range c hc
  have h2 := digit_range d hd
  apply Char.ext
  apply UInt32.toNat_inj.mp
  show c.toNat = d.toNat
  omega

/-- Digit strings of the same length with the same value are equal. -/
theorem digitsValue_inj_same_length (ds es : Str) (hd : ∀ c ∈ ds, isAsciiDigit c = true)
    (he : ∀ c ∈ es, isAsciiDigit c = true) (hl : ds.length = es.length)
    (hv : decValue ds = decValue es) : ds = es := by
  induction ds generalizing es with
  | nil => cases es with
    | nil => rfl
    | cons _ _ => simp at hl
  | cons c cs ih =>
    cases es with
    | nil => simp at hl
    | cons d dt =>
      have hl' : cs.length = dt.length := by simpa using hl
      have hcs := fun x hx => hd x (List.mem_cons_of_mem c hx)
      have hdt := fun x hx => he x (List.mem_cons_of_mem d hx)
      have b1 := digitsValue_lt cs hcs
      have b2 := digitsValue_lt dt hdt
      rw [digitsValue_cons, digitsValue_cons, hl'] at hv
      rw [hl'] at b1
      generalize 10 ^ dt.length = P at hv b1 b2
      have hq : (c.toNat - 48) = (d.toNat - 48) := by
        have e1 : ((c.toNat - 48) * P + decValue cs) / P = c.toNat - 48 := by
          rw [Nat.mul_comm, Nat.mul_add_div (by omega), Nat.div_eq_of_lt b1]; rfl
        have e2 : ((d.toNat - 48) * P + decValue dt) / P = d.toNat - 48 := by
          rw [Nat.mul_comm, Nat.mul_add_div (by omega), Nat.div_eq_of_lt b2]; rfl
        rw [← e1, ← e2, hv]
      have hcd := digitChar_inj c d (hd c (List.mem_cons_self ..)) (he d (List.mem_cons_self ..)) hq
      rw [hq] at hv
      have hv' : decValue cs = decValue dt := by omega
      rw [hcd, ih dt hcs hdt hl' hv']

/-- A digit string without a leading zero has a value of at least `10^(length-1)`. -/
theorem digitsValue_ge (c : Char) (cs : Str) (hc : isAsciiDigit c = true) (h0 : c ≠ '0') :
    10 ^ cs.length ≤ decValue (c :: cs) := by
  have hr := digit_range c hc
  have : c.toNat ≠ 48 := by
    intro h
    apply h0
    apply Char.ext
    apply UInt32.toNat_inj.mp
    exact h
  rw [digitsValue_cons]
  have : 1 * 10 ^ cs.length ≤ (c.toNat - 48) * 10 ^ cs.length := Nat.mul_le_mul_right _ (by omega)
  omega

theorem dropZeros_head (ds : Str) :
    ds.dropWhile (· == '0') = [] ∨ ∃ c cs, ds.dropWhile (· == '0') = c :: cs ∧ c ≠ '0' := by
  cases h : ds.dropWhile (· == '0') with
  | nil => exact .inl rfl
  | cons c cs =>
    refine .inr ⟨c, cs, rfl, ?_⟩
    have := List.head?_dropWhile_not (· == '0') ds
    rw [h] at this
    simpa using this

/-- The value of a digit string is injective modulo leading zeros. -/
theorem digitsValue_inj (ds es : Str) (hd : ∀ c ∈ ds, isAsciiDigit c = true)
    (he : ∀ c ∈ es, isAsciiDigit c = true) (hv : decValue ds = decValue es) :
    ds.dropWhile (· == '0') = es.dropWhile (· == '0') := by
  rw [← digitsValue_dropZeros ds, ← digitsValue_dropZeros es] at hv
  have hd' : ∀ c ∈ ds.dropWhile (· == '0'), isAsciiDigit c = true :=
    fun c hc => hd c ((List.dropWhile_sublist _).subset hc)
  have he' : ∀ c ∈ es.dropWhile (· == '0'), isAsciiDigit c = true :=
    fun c hc => he c ((List.dropWhile_sublist _).subset hc)
  have h1 := dropZeros_head ds
  have h2 := dropZeros_head es
  generalize ds.dropWhile (· == '0') = a at *
  generalize es.dropWhile (· == '0') = b at *
  apply digitsValue_inj_same_length a b hd' he' _ hv
  -- lengths agree
  have key : ∀ (a b : Str), (∀ c ∈ a, isAsciiDigit c = true) → (∀ c ∈ b, isAsciiDigit c = true) →
      (a = [] ∨ ∃ c cs, a = c :: cs ∧ c ≠ '0') → decValue a = decValue b → ¬ b.length < a.length := by
    intro a b ha hb hz hv hlt
    rcases hz with rfl | ⟨c, cs, rfl, hc0⟩
    · simp at hlt
    · have g := digitsValue_ge c cs (ha c (List.mem_cons_self ..)) hc0
      have l := digitsValue_lt b hb
      have : 10 ^ b.length ≤ 10 ^ cs.length :=
        Nat.pow_le_pow_right (by omega) (by simp at hlt; omega)
      omega
  have k1 := key a b hd' he' h1 hv
  have k2 := key b a he' hd' h2 hv.symm
  omega

/-- Summary of item 2: a leading zero does not change the value, and two digit
    strings have the same value iff they agree after stripping leading zeros. -/
theorem lineno_value_digits :
    (∀ ds : Str, decValue ('0' :: ds) = decValue ds) ∧
    (∀ ds es : Str, (∀ c ∈ ds, isAsciiDigit c = true) → (∀ c ∈ es, isAsciiDigit c = true) →
      (decValue ds = decValue es ↔ ds.dropWhile (· == '0') = es.dropWhile (· == '0'))) := by
  refine ⟨digitsValue_zero_cons, fun ds es hd he => ⟨digitsValue_inj ds es hd he, fun h => ?_⟩⟩
  rw [← digitsValue_dropZeros ds, ← digitsValue_dropZeros es, h]

/-! ### the parser -/

theorem aux_skip (blanks s : Str) (k : Nat) (hb : ∀ c ∈ blanks, isAsciiWs c = true)
    (hnd : ∀ c ∈ blanks, isAsciiDigit c = false) :
    parseLineNumberAux (blanks ++ s) k = parseLineNumberAux s (k + blanks.length) := by
  induction blanks generalizing k with
  | nil => rfl
  | cons b bs ih =>
    have h1 := hb b (List.mem_cons_self ..)
    have h2 := hnd b (List.mem_cons_self ..)
    simp only [List.cons_append, parseLineNumberAux, h1, h2, Bool.false_eq_true, ↓reduceIte]
    rw [ih _ (fun c hc => hb c (List.mem_cons_of_mem _ hc)) (fun c hc => hnd c (List.mem_cons_of_mem _ hc))]
    simp only [List.length_cons]
    congr 1
    omega

theorem ws_not_digit (c : Char) (h : isAsciiWs c = true) : isAsciiDigit c = false := by
  cases hd : isAsciiDigit c with
  | false => rfl
  | true => rw [digit_not_ws c hd] at h; cases h

theorem aux_digits (d : Char) (ds rest : Str) (k : Nat)
    (hd : ∀ c ∈ d :: ds, isAsciiDigit c = true) (hr : NoDigitHead rest) :
    parseLineNumberAux (d :: ds ++ rest) k =
      if decValue (d :: ds) < u64Bound then some (decValue (d :: ds), k + (d :: ds).length) else none := by
  have ht := takeDigits_append (d :: ds) rest hd hr
  simp only [List.cons_append] at ht
  simp only [List.cons_append, parseLineNumberAux, hd d (List.mem_cons_self ..), ↓reduceIte, ht, u64Bound,
    decValue]
  rfl

/-- The parser on a decomposed input. -/
theorem parse_of_decomp (s blanks digits rest : Str) (h : Decomp s blanks digits rest) :
    parseLineNumber s =
      if decValue digits < u64Bound then some (decValue digits, blanks.length + digits.length) else none := by
  obtain ⟨hs, hb, hne, hd, hr⟩ := h
  cases digits with
  | nil => exact absurd rfl hne
  | cons d ds =>
    rw [hs, parseLineNumber, List.append_assoc, aux_skip blanks _ 0 hb (fun c hc => ws_not_digit c (hb c hc)),
      aux_digits d ds rest _ hd hr]
    simp

/-- Whatever the general helper returns comes from a decomposition of its input. -/
theorem aux_some (s : Str) (k n j : Nat) (h : parseLineNumberAux s k = some (n, j)) :
    ∃ blanks digits rest, Decomp s blanks digits rest ∧ n = decValue digits ∧ n < u64Bound ∧
      j = k + blanks.length + digits.length := by
  induction s generalizing k with
  | nil => simp [parseLineNumberAux] at h
  | cons c cs ih =>
    by_cases hc : isAsciiDigit c = true
    · obtain ⟨h1, h2, h3⟩ := takeDigits_spec (c :: cs)
      have hfst : (takeDigits (c :: cs)).1 ≠ [] := by simp [takeDigits, hc]
      simp only [parseLineNumberAux, hc, ↓reduceIte] at h
      by_cases hv : digitsValue (takeDigits (c :: cs)).1 0 < 2 ^ 64
      · rw [if_pos hv] at h
        simp only [Option.some.injEq, Prod.mk.injEq] at h
        refine ⟨[], (takeDigits (c :: cs)).1, (takeDigits (c :: cs)).2, ⟨by simpa using h1, by simp, hfst, h2, h3⟩,
          h.1.symm, by rw [← h.1]; exact hv, by rw [← h.2]; simp⟩
      · rw [if_neg hv] at h
        cases h
    · by_cases hw : isAsciiWs c = true
      · simp only [parseLineNumberAux, hc, Bool.false_eq_true, ↓reduceIte, hw] at h
        obtain ⟨bl, dg, rs, ⟨d1, d2, d3, d4, d5⟩, e1, e2, e3⟩ := ih _ h
        refine ⟨c :: bl, dg, rs, ⟨by simp [d1], ?_, d3, d4, d5⟩, e1, e2, by simp only [List.length_cons]; omega⟩
        intro x hx
        rcases List.mem_cons.mp hx with rfl | hx
        · exact hw
        · exact d2 x hx
      · simp [parseLineNumberAux, hc, hw] at h

/-- A decomposition is unique. -/
theorem decomp_unique (s b d r b' d' r' : Str) (h : Decomp s b d r) (h' : Decomp s b' d' r') :
    b = b' ∧ d = d' ∧ r = r' := by
  have p1 := parse_of_decomp s b d r h
  -- go through the structure directly: induction on the blanks
  obtain ⟨hs, hb, hne, hd, hr⟩ := h
  obtain ⟨hs', hb', hne', hd', hr'⟩ := h'
  clear p1
  induction b generalizing s b' with
  | nil =>
    cases b' with
    | nil =>
      have e1 := takeDigits_append d r hd hr
      have e2 := takeDigits_append d' r' hd' hr'
      simp only [List.nil_append] at hs hs'
      rw [← hs] at e1
      rw [← hs', e1] at e2
      simp only [Prod.mk.injEq] at e2
      exact ⟨rfl, e2.1, e2.2⟩
    | cons x xs =>
      exfalso
      cases d with
      | nil => exact hne rfl
      | cons y ys =>
        rw [hs] at hs'
        simp only [List.nil_append, List.cons_append, List.cons.injEq] at hs'
        have := hd y (List.mem_cons_self ..)
        rw [hs'.1, ws_not_digit x (hb' x (List.mem_cons_self ..))] at this
        cases this
  | cons x xs ih =>
    cases b' with
    | nil =>
      exfalso
      cases d' with
      | nil => exact hne' rfl
      | cons y ys =>
        rw [hs] at hs'
        simp only [List.nil_append, List.cons_append, List.cons.injEq] at hs'
        have := hd' y (List.mem_cons_self ..)
        rw [← hs'.1, ws_not_digit x (hb x (List.mem_cons_self ..))] at this
        cases this
    | cons y ys =>
      rw [hs] at hs'
      simp only [List.cons_append, List.cons.injEq] at hs'
      obtain ⟨e1, e2, e3⟩ := ih (xs ++ d ++ r) ys rfl (fun c hc => hb c (List.mem_cons_of_mem _ hc))
        (by simpa using hs'.2) (fun c hc => hb' c (List.mem_cons_of_mem _ hc))
      exact ⟨by rw [hs'.1, e1], e2, e3⟩

/-- **Item 1, positive half.**  `parseLineNumber s = some (n, k)` iff `s` is
    ASCII blanks, then a non-empty maximal run of ASCII digits with decimal
    value `n < 2^64`, then anything; `k` is the number of characters consumed
    (`= blanks.length + digits.length`, which is also the number of bytes). -/
theorem lineno_parse_spec (s : Str) (n k : Nat) :
    parseLineNumber s = some (n, k) ↔
      ∃ blanks digits rest, Decomp s blanks digits rest ∧ n = decValue digits ∧ n < u64Bound ∧
        k = blanks.length + digits.length := by
  constructor
  · intro h
    obtain ⟨b, d, r, hD, e1, e2, e3⟩ := aux_some s 0 n k h
    exact ⟨b, d, r, hD, e1, e2, by omega⟩
  · rintro ⟨b, d, r, hD, e1, e2, e3⟩
    rw [parse_of_decomp s b d r hD, if_pos (e1 ▸ e2), e1, e3]

theorem len8_ascii (blanks digits : Str) (hb : ∀ c ∈ blanks, isAsciiWs c = true)
    (hd : ∀ c ∈ digits, isAsciiDigit c = true) :
    len8 (blanks ++ digits) = blanks.length + digits.length := by
  induction blanks with
  | nil =>
    simp only [List.nil_append, List.length_nil, Nat.zero_add]
    induction digits with
    | nil => rfl
    | cons c cs ih =>
      rw [len8, digit_utf8Size c (hd c (List.mem_cons_self ..)), ih (fun x hx => hd x (List.mem_cons_of_mem _ hx)),
        List.length_cons]
      omega
  | cons c cs ih =>
    rw [List.cons_append, len8, ws_utf8Size c (hb c (List.mem_cons_self ..)),
      ih (fun x hx => hb x (List.mem_cons_of_mem _ hx)), List.length_cons]
    omega

/-- The position returned is a byte position: the consumed prefix is ASCII. -/
theorem lineno_consumed_bytes (s blanks digits rest : Str) (h : Decomp s blanks digits rest) :
    len8 (blanks ++ digits) = blanks.length + digits.length :=
  len8_ascii blanks digits h.blanks_ws h.digits_dig

/-- **Item 1, negative half.**  `none` iff there is no decomposition, or the
    value of the digits is `≥ 2^64`. -/
theorem lineno_parse_none (s : Str) :
    parseLineNumber s = none ↔
      ¬ ∃ blanks digits rest, Decomp s blanks digits rest ∧ decValue digits < u64Bound := by
  constructor
  · rintro h ⟨b, d, r, hD, hv⟩
    rw [parse_of_decomp s b d r hD, if_pos hv] at h
    cases h
  · intro h
    cases hp : parseLineNumber s with
    | none => rfl
    | some p =>
      obtain ⟨n, k⟩ := p
      obtain ⟨b, d, r, hD, e1, e2, _⟩ := (lineno_parse_spec s n k).mp hp
      exact absurd ⟨b, d, r, hD, e1 ▸ e2⟩ h

/-- The same, with the two causes separated (the decomposition is unique, so
    "the value" is well defined). -/
theorem lineno_parse_none' (s : Str) :
    parseLineNumber s = none ↔
      (¬ ∃ blanks digits rest, Decomp s blanks digits rest) ∨
      (∃ blanks digits rest, Decomp s blanks digits rest ∧ u64Bound ≤ decValue digits) := by
  rw [lineno_parse_none]
  constructor
  · intro h
    by_cases hex : ∃ blanks digits rest, Decomp s blanks digits rest
    · obtain ⟨b, d, r, hD⟩ := hex
      refine .inr ⟨b, d, r, hD, ?_⟩
      apply Nat.le_of_not_lt
      intro hv
      exact h ⟨b, d, r, hD, hv⟩
    · exact .inl hex
  · rintro (h | ⟨b, d, r, hD, hv⟩) ⟨b', d', r', hD', hv'⟩
    · exact h ⟨b', d', r', hD'⟩
    · obtain ⟨_, e, _⟩ := decomp_unique s b d r b' d' r' hD hD'
      rw [← e] at hv'
      omega

/-! ### round trip with the decimal rendering LIST uses (`natToStr`, i.e. `Nat.repr`) -/

theorem toDigits_digits (n : Nat) : ∀ c ∈ Nat.toDigits 10 n, isAsciiDigit c = true := by
  intro c hc
  have := Nat.isDigit_of_mem_toDigits (b := 10) (by decide) (by decide) hc
  simp only [Char.isDigit, Bool.and_eq_true, decide_eq_true_eq, ge_iff_le] at this
  simp only [isAsciiDigit, Bool.and_eq_true, decide_eq_true_eq]
  exact ⟨Char.le_def.mpr this.1, Char.le_def.mpr this.2⟩

theorem decValue_toDigits (n : Nat) : decValue (Nat.toDigits 10 n) = n := by
  show digitsValue _ 0 = n
  rw [digitsValue_eq_ofDigitChars, Nat.ofDigitChars_ten_toDigits]

theorem decomp_toDigits (n : Nat) (rest : Str) (hr : NoDigitHead rest) :
    Decomp (Nat.toDigits 10 n ++ rest) [] (Nat.toDigits 10 n) rest :=
  ⟨rfl, by simp, Nat.toDigits_ne_nil, toDigits_digits n, hr⟩

/-- **Item 3.**  The decimal rendering of any `n < 2^64` parses back to `n`,
    consuming the whole numeral. -/
theorem lineno_roundtrip (n : Nat) (h : n < u64Bound) :
    parseLineNumber (Nat.repr n).toList = some (n, (Nat.repr n).length) := by
  have hD := decomp_toDigits n [] trivial
  rw [List.append_nil] at hD
  rw [Nat.toList_repr, parse_of_decomp _ _ _ _ hD, decValue_toDigits, if_pos h]
  simp [← Nat.toList_repr, String.length_toList]

/-- … in the form LIST prints it: `natToStr n`, followed by anything that does
    not start with a digit (LIST puts a blank there). -/
theorem lineno_roundtrip_list (n : Nat) (h : n < u64Bound) (rest : Str) (hr : NoDigitHead rest) :
    parseLineNumber (natToStr n ++ rest) = some (n, (natToStr n).length) := by
  have e : natToStr n = Nat.toDigits 10 n := by
    unfold natToStr
    rw [Nat.toString_eq_repr, Nat.toList_repr]
  rw [e, parse_of_decomp _ _ _ _ (decomp_toDigits n rest hr), decValue_toDigits, if_pos h]
  simp

/-- … and values `≥ 2^64` are rejected. -/
theorem lineno_too_big (n : Nat) (h : u64Bound ≤ n) : parseLineNumber (natToStr n) = none := by
  have e : natToStr n = Nat.toDigits 10 n := by
    unfold natToStr
    rw [Nat.toString_eq_repr, Nat.toList_repr]
  have hD := decomp_toDigits n [] trivial
  rw [List.append_nil] at hD
  rw [e, parse_of_decomp _ _ _ _ hD, decValue_toDigits, if_neg (by omega)]

/-! ### non-vacuity -/

example : parseLineNumber "  \t0010 PRINT".toList = some (10, 7) := by decide
example : parseLineNumber "10".toList = some (10, 2) := by decide
example : parseLineNumber "PRINT".toList = none := by decide
example : parseLineNumber " \n 7x".toList = some (7, 4) := by decide
example : Decomp "  \t0010 PRINT".toList "  \t".toList "0010".toList " PRINT".toList :=
  ⟨by decide, by decide, by decide, by decide, by show isAsciiDigit ' ' = false; decide⟩
/-- the largest accepted number and the smallest rejected one -/
example : parseLineNumber "18446744073709551615".toList = some (18446744073709551615, 20) := by decide
example : parseLineNumber "18446744073709551616".toList = none := by decide

end Abasic.Props.C04
