import Abasic.Props.C07More
import Abasic.Props.C01More
import Abasic.Proofs.InspectFrame
import Abasic.Proofs.AccFrame
import Abasic.Proofs.StmtLemmasG
/-
  C07 (leftovers).

  1. `inspect_returns` — an inspection (an immediate line of PRINT statements
     entered at a breakpoint) hands control back: after the starting turn and
     at most `|tokens| - 1` further `continue_evaluating` turns the interpreter
     is idle again (`inspect_returns`, `inspect_returns_exists`).
     `inspect_frame` — the full frame of an inspection: besides `InspectFrame`
     (C07More) the pending reply, the two flags, the nesting counter and the
     analyzer's log are untouched and the output queue has only gained
     `Out.print` / `Out.warning` records on top.
     `inspect_then_cont` — "inspect, then CONT behaves as CONT alone": when the
     inspection has neither auto-created an array nor drawn from the random
     generator, the CONT turn and any number of further turns yield the same
     outcome from the inspected state as from the state at the breakpoint;
     the final states differ in the inspection's own records — which sit in
     the queue exactly where they were put: above everything printed before
     the inspection, below everything printed after — and in the read counter.
     The two provisos cannot be dropped (`inspect_then_cont_needs_arrays`,
     `inspect_then_cont_needs_rng`): the statement with `ArrExt`-related
     arrays is false.
  2. `assign_at_stop_sub` — `assign_at_stop` inside subroutines and FOR loops.
-/
namespace Abasic.Props.C07
open Abasic Abasic.Proofs.NumInv Abasic.Proofs.XF Abasic.Proofs.XQ Abasic.Proofs.Inspect Abasic.Hoare

variable {F : Type} [NumOps F]

/-! ## 1. an inspection returns, and what it leaves behind -/

section returns

/-- the part of an inspection's frame that `InspectFrame` does not mention:
    pending reply, flags and analyzer log unchanged; the output queue has grown
    by `Out.print` / `Out.warning` records; the read counter has not decreased -/
structure QF (σ σ' : St F) : Prop where
  input : σ'.input = σ.input
  warnings : σ'.warnings = σ.warnings
  tracing : σ'.tracing = σ.tracing
  accesses : σ'.accesses = σ.accesses
  out : OutExt σ.out σ'.out
  reads : σ.reads ≤ σ'.reads

omit [NumOps F] in
theorem QF.refl (σ : St F) : QF σ σ := ⟨rfl, rfl, rfl, rfl, OutExt.refl _, Nat.le_refl _⟩

omit [NumOps F] in
theorem QF.trans {a b c : St F} (h1 : QF a b) (h2 : QF b c) : QF a c :=
  ⟨h2.input.trans h1.input, h2.warnings.trans h1.warnings, h2.tracing.trans h1.tracing,
   h2.accesses.trans h1.accesses, h1.out.trans h2.out, Nat.le_trans h1.reads h2.reads⟩

theorem qf_of {σ σ' : St F} (hx : RX σ σ') (hq : RQ σ σ') : QF σ σ' :=
  ⟨hx.input, hx.warnings, hx.tracing, hq.accesses, hq.out, hq.reads⟩

omit [NumOps F] in
theorem post_and {α : Type} {r : Res F α} {Q Q' : α → St F → Prop} {E E' : St F → Prop}
    (h : Post r Q E) (h' : Post r Q' E') : Post r (fun a s => Q a s ∧ Q' a s) (fun s => E s ∧ E' s) := by
  cases r with
  | ok a s => exact ⟨h, h'⟩
  | err e s => exact ⟨h, h'⟩

/-- one statement of an immediate PRINT line: the cursor moves forward -/
theorem stmt_q (fuel : Nat) (ts : List (Token F)) (σ : St F) (t : Token F)
    (ho : OnImm ts σ) (ht : ts[σ.loc.idx]? = some t) (hs : Safe t) :
    Post (stmtBody (evalN fuel) σ) (fun _ s => RQ σ s ∧ σ.loc.idx < s.loc.idx) (fun s => RQ σ s) := by
  have hl := lineToks_onImm ho
  have hnext := Proofs.Cursor.next_some σ ts t (ExprL.tokens_eq hl) ht
  have hq1 : RQ σ ({ σ with reads := σ.reads + 1, loc := { σ.loc with idx := σ.loc.idx + 1 } } : St F) :=
    rq_mk (Nat.le_succ _) rfl rfl (Nat.le_succ _)
  unfold stmtBody
  rw [ExprL.bind_ok (traceHere_imm σ ho.1)]
  unfold dispatch
  rw [ExprL.bind_ok hnext]
  have hprint : Post (printStatement (evalN fuel)
        ({ σ with reads := σ.reads + 1, loc := { σ.loc with idx := σ.loc.idx + 1 } } : St F))
      (fun _ s => RQ σ s ∧ σ.loc.idx < s.loc.idx) (fun s => RQ σ s) := by
    have hr := (rq_printStatement _ (rq_evalN_expr fuel)).final
      ({ σ with reads := σ.reads + 1, loc := { σ.loc with idx := σ.loc.idx + 1 } } : St F)
    cases hres : printStatement (evalN fuel)
        ({ σ with reads := σ.reads + 1, loc := { σ.loc with idx := σ.loc.idx + 1 } } : St F) with
    | err e s =>
      rw [hres] at hr
      exact IsFrame.trans hq1 hr
    | ok u s =>
      rw [hres] at hr
      exact ⟨IsFrame.trans hq1 hr, Nat.lt_of_lt_of_le (Nat.lt_succ_self _) hr.idx⟩
  rcases hs with rfl | rfl | rfl | rfl
  · exact hprint
  · exact hprint
  · exact ⟨hq1, Nat.lt_succ_self _⟩
  · exact hq1

/-- the first half of `run_next_statement` on such a line -/
theorem head_q (fuel : Nat) (ts : List (Token F)) (σ : St F)
    (ho : OnImm ts σ) (hs : SafeAt ts σ.loc.idx) :
    Post (headPart fuel σ)
      (fun _ s => RQ σ s ∧ ((ts[σ.loc.idx]?).isSome = true → σ.loc.idx < s.loc.idx))
      (fun s => RQ σ s) := by
  have hq1 : RQ σ ({ σ with reads := σ.reads + 1 } : St F) :=
    rq_mk (Nat.le_refl _) rfl rfl (Nat.le_succ _)
  unfold headPart
  rw [ExprL.bind_ok (hasNext_onImm ho)]
  cases ht : ts[σ.loc.idx]? with
  | none => exact ⟨hq1, fun h => by cases h⟩
  | some t =>
    simp only [Option.isSome_some, if_true]
    have ho1 : OnImm ts ({ σ with reads := σ.reads + 1 } : St F) := ho
    have := stmt_q fuel ts ({ σ with reads := σ.reads + 1 } : St F) t ho1 ht (hs t ht)
    cases hres : stmtBody (evalN fuel) ({ σ with reads := σ.reads + 1 } : St F) with
    | ok u s => rw [hres] at this; exact ⟨IsFrame.trans hq1 this.1, fun _ => this.2⟩
    | err e s => rw [hres] at this; exact IsFrame.trans hq1 this

/-- the second half, spelled out: with a token under the cursor nothing
    happens; at the end of the line the interpreter returns to idle -/
theorem tail_q (ts : List (Token F)) (σ : St F) (ho : OnImm ts σ) :
    tailPart σ = .ok ()
      (if (ts[σ.loc.idx]?).isSome = true then ({ σ with reads := σ.reads + 1 } : St F)
       else { ({ σ with reads := σ.reads + 1 } : St F).setImmediate [] with state := .idle }) := by
  unfold tailPart
  rw [ExprL.bind_ok (hasNext_onImm ho)]
  cases ht : ts[σ.loc.idx]? with
  | some t => rfl
  | none =>
    simp only [Option.isSome_none, Bool.not_false, if_true]
    have hnl : nextLine ({ σ with reads := σ.reads + 1 } : St F) = .ok false { σ with reads := σ.reads + 1 } := by
      simp only [nextLine, bind, M.bindM, M.get]
      rw [show ({ σ with reads := σ.reads + 1 } : St F).loc.line = none from ho.1]
      rfl
    rw [ExprL.bind_ok hnl]
    simp only [Bool.not_false, if_true]
    rw [idle_tail]
    rfl

/-- what a turn on such a line leaves: idle, or running on the same line at a
    safe position in front of a token -/
def After2 (ts : List (Token F)) (s : St F) : Prop :=
  s.state = .idle ∨ (s.state = .running ∧ OnImm ts s ∧ SafeAt ts s.loc.idx ∧ s.loc.idx < ts.length)

omit [NumOps F] in
theorem lt_length_of_isSome {ts : List (Token F)} {i : Nat} (h : (ts[i]?).isSome = true) : i < ts.length := by
  cases hq : ts[i]? with
  | none => rw [hq] at h; cases h
  | some t => exact (List.getElem?_eq_some_iff.1 hq).1

/-- **one `run_next_statement`** of an inspection: the frame `QF`, and progress -/
theorem inspect_turn_q (fuel : Nat) (ts : List (Token F)) (σ : St F)
    (ho : OnImm ts σ) (hs : SafeAt ts σ.loc.idx) (hpl : PrintLine ts) :
    Post (runNextStatement fuel σ)
      (fun _ s => QF σ s ∧ After2 ts s ∧ (s.state = .running → σ.loc.idx < s.loc.idx))
      (fun s => QF σ s) := by
  rw [runNextStatement_eq]
  have hor : OnImm ts ({ σ with state := .running } : St F) := ho
  have hq0 : QF σ ({ σ with state := .running } : St F) := ⟨rfl, rfl, rfl, rfl, OutExt.refl _, Nat.le_refl _⟩
  refine post_bind (σ := σ) (m := M.modify fun s => { s with state := .running })
    (Q := fun _ s => s = ({ σ with state := .running } : St F)) rfl fun _ s hs0 => ?_
  subst hs0
  have hhead := post_and (head_safe fuel ts _ hor hs hpl) (head_q fuel ts _ hor hs)
  refine post_bind (post_mono hhead (fun _ _ h => h) (fun s h => hq0.trans (qf_of h.1 h.2))) fun _ s2 hs2 => ?_
  obtain ⟨⟨hrx, hsafe⟩, hrq, hprog⟩ := hs2
  have ho2 : OnImm ts s2 := onImm_of_rx hrx hor
  rw [tail_q ts s2 ho2]
  have hq2 : QF σ s2 := hq0.trans (qf_of hrx hrq)
  by_cases hn : (ts[s2.loc.idx]?).isSome = true
  · rw [if_pos hn]
    have hq3 : QF s2 ({ s2 with reads := s2.reads + 1 } : St F) :=
      ⟨rfl, rfl, rfl, rfl, OutExt.refl _, Nat.le_succ _⟩
    refine ⟨hq2.trans hq3, Or.inr ⟨hrx.state, ho2, hsafe, lt_length_of_isSome hn⟩, fun _ => ?_⟩
    show σ.loc.idx < s2.loc.idx
    by_cases h0 : (ts[σ.loc.idx]?).isSome = true
    · exact hprog h0
    · exfalso
      have hle : σ.loc.idx ≤ s2.loc.idx := hrq.idx
      have hlt := lt_length_of_isSome hn
      have : σ.loc.idx < ts.length := Nat.lt_of_le_of_lt hle hlt
      have : (ts[σ.loc.idx]?).isSome = true := by
        rw [List.getElem?_eq_getElem this]; rfl
      exact h0 this
  · rw [if_neg hn]
    have hq3 : QF s2 ({ ({ s2 with reads := s2.reads + 1 } : St F).setImmediate [] with state := .idle } : St F) :=
      ⟨rfl, rfl, rfl, rfl, OutExt.refl _, Nat.le_succ _⟩
    exact ⟨hq2.trans hq3, Or.inl rfl, fun h => by cases h⟩

omit [NumOps F] in
theorem qf_idle {σ s : St F} (h : QF σ s) : QF σ ({ s with state := .idle } : St F) :=
  ⟨h.input, h.warnings, h.tracing, h.accesses, h.out, h.reads⟩

/-- … wrapped in `postprocess` -/
theorem inspect_turn_q_post (fuel : Nat) (ts : List (Token F)) (σ : St F)
    (ho : OnImm ts σ) (hs : SafeAt ts σ.loc.idx) (hpl : PrintLine ts) :
    Post (postprocess (runNextStatement fuel) σ)
      (fun _ s => QF σ s ∧ After2 ts s ∧ (s.state = .running → σ.loc.idx < s.loc.idx))
      (fun s => QF σ s ∧ s.state = .idle) := by
  have h := inspect_turn_q fuel ts σ ho hs hpl
  unfold postprocess
  cases hr : runNextStatement fuel σ with
  | ok a s => rw [hr] at h; exact h
  | err e s => rw [hr] at h; exact ⟨qf_idle h, rfl⟩

/-- the further turns of an inspection respect `QF` (any number of them) -/
theorem contTurns_qf (fuel : Nat) (ts : List (Token F)) (hpl : PrintLine ts) :
    ∀ (k : Nat) (s : St F), After2 ts s → QF s (contTurns fuel k s).final := by
  intro k
  induction k with
  | zero => intro s _; exact QF.refl s
  | succ k ih =>
    intro s hs
    unfold contTurns
    rcases hs with hi | ⟨hr, ho, hsafe, hlt⟩
    · have : (s.state == .running) = false := by rw [hi]; rfl
      simp only [bind, M.bindM, M.get, this, Bool.false_eq_true, if_false]
      exact QF.refl s
    · have hc : continueEvaluating fuel s = postprocess (runNextStatement fuel) s := by
        have hne : (s.state != .running) = false := by simp [hr]
        simp only [continueEvaluating, bind, M.bindM, M.get, hne, Bool.false_eq_true, if_false]
      have ht := inspect_turn_q_post fuel ts s ho hsafe hpl
      have hrun : (s.state == .running) = true := by rw [hr]; rfl
      show QF s ((M.get >>= fun s' => if (s'.state == .running) = true then
          (continueEvaluating fuel >>= fun _ => contTurns fuel k) else pure ()) s).final
      simp only [bind, M.bindM, M.get, hrun, if_true]
      rw [hc]
      cases hres : postprocess (runNextStatement fuel) s with
      | err e s1 => rw [hres] at ht; exact ht.1
      | ok u s1 => rw [hres] at ht; exact ht.1.trans (ih s1 ht.2.1)

/-- the further turns of an inspection: with `k` turns left and at most `k`
    tokens left on the line, the interpreter ends idle -/
theorem contTurns_q (fuel : Nat) (ts : List (Token F)) (hpl : PrintLine ts) :
    ∀ (k : Nat) (s : St F), After2 ts s → (s.state = .running → ts.length ≤ s.loc.idx + k) →
      QF s (contTurns fuel k s).final ∧ (contTurns fuel k s).final.state = .idle := by
  intro k
  induction k with
  | zero =>
    intro s hs hk
    rcases hs with hi | ⟨hr, _, _, hlt⟩
    · exact ⟨QF.refl s, hi⟩
    · have := hk hr; omega
  | succ k ih =>
    intro s hs hk
    unfold contTurns
    rcases hs with hi | ⟨hr, ho, hsafe, hlt⟩
    · have : (s.state == .running) = false := by rw [hi]; rfl
      simp only [bind, M.bindM, M.get, this, Bool.false_eq_true, if_false]
      exact ⟨QF.refl s, hi⟩
    · have hc : continueEvaluating fuel s = postprocess (runNextStatement fuel) s := by
        have hne : (s.state != .running) = false := by simp [hr]
        simp only [continueEvaluating, bind, M.bindM, M.get, hne, Bool.false_eq_true, if_false]
      have ht := inspect_turn_q_post fuel ts s ho hsafe hpl
      have hrun : (s.state == .running) = true := by rw [hr]; rfl
      show QF s ((M.get >>= fun s' => if (s'.state == .running) = true then
          (continueEvaluating fuel >>= fun _ => contTurns fuel k) else pure ()) s).final ∧ _
      simp only [bind, M.bindM, M.get, hrun, if_true]
      rw [hc]
      cases hres : postprocess (runNextStatement fuel) s with
      | err e s1 =>
        rw [hres] at ht
        exact ht
      | ok u s1 =>
        rw [hres] at ht
        obtain ⟨hq, ha, hp⟩ := ht
        have := ih s1 ha (fun hr1 => by have := hp hr1; have := hk hr; omega)
        exact ⟨hq.trans this.1, this.2⟩

theorem contTurns_nesting (fuel : Nat) : ∀ (k : Nat) (s : St F), (contTurns fuel k s).final.nesting = s.nesting := by
  intro k
  induction k with
  | zero => intro s; rfl
  | succ k ih =>
    intro s
    unfold contTurns
    by_cases hr : (s.state == .running) = true
    · simp only [bind, M.bindM, M.get, hr, if_true]
      have h := C01.nesting_preserved_cont fuel s
      cases hres : continueEvaluating fuel s with
      | err e s1 => exact h.2 e s1 hres
      | ok u s1 => exact (ih s1).trans (h.1 u s1 hres)
    · simp only [bind, M.bindM, M.get, hr]
      rfl

/-- the state in which the starting turn of an immediate line runs -/
theorem start_immediate (fuel : Nat) (line : Str) (ts : List (Token F)) (σ : St F)
    (hidle : σ.state = .idle)
    (hcmd : (commandWord line).bind Command.ofWord = none)
    (hnum : parseLineNumber line = none)
    (htok : tokenize (F := F) line 0 = .ok ts) :
    startEvaluating fuel line σ =
      postprocess (runNextStatement fuel) ((σ.setImmediate []).setImmediate ts) := by
  unfold startEvaluating postprocess
  rw [evaluateImpl_immediate fuel line ts σ hidle hcmd hnum htok]

/-- the frame `QF` of an inspection, and its return to idle -/
theorem inspect_qf (fuel k : Nat) (line : Str) (ts : List (Token F)) (σ : St F)
    (hidle : σ.state = .idle) (hbp : σ.bp.isSome = true)
    (hcmd : (commandWord line).bind Command.ofWord = none)
    (hnum : parseLineNumber line = none)
    (htok : tokenize (F := F) line 0 = .ok ts)
    (hpl : PrintLine ts) :
    QF σ ((do startEvaluating fuel line; contTurns fuel k) σ).final ∧
      (ts.length ≤ k + 1 → ((do startEvaluating fuel line; contTurns fuel k) σ).final.state = .idle) := by
  have hstart := start_immediate fuel line ts σ hidle hcmd hnum htok
  have ho : OnImm ts ((σ.setImmediate []).setImmediate ts) := ⟨rfl, rfl, hbp⟩
  have hq0 : QF σ ((σ.setImmediate []).setImmediate ts) := ⟨rfl, rfl, rfl, rfl, OutExt.refl _, Nat.le_refl _⟩
  have ht := inspect_turn_q_post fuel ts _ ho hpl.1 hpl
  rw [← hstart] at ht
  rw [final_bind]
  cases hres : startEvaluating fuel line σ with
  | err e s1 =>
    rw [hres] at ht
    exact ⟨hq0.trans ht.1, fun _ => ht.2⟩
  | ok u s1 =>
    rw [hres] at ht
    obtain ⟨hq, ha, hp⟩ := ht
    refine ⟨?_, fun hk => ?_⟩
    · rcases ha with hi | ⟨hr, ho1, hs1, hlt⟩
      · have := contTurns_q fuel ts hpl k s1 (Or.inl hi) (fun hr => by rw [hi] at hr; cases hr)
        exact (hq0.trans hq).trans this.1
      · exact (hq0.trans hq).trans (contTurns_qf fuel ts hpl k s1 (Or.inr ⟨hr, ho1, hs1, hlt⟩))
    · refine (contTurns_q fuel ts hpl k s1 ha (fun hr => ?_)).2
      have := hp hr
      have h0 : ((σ.setImmediate []).setImmediate ts).loc.idx = 0 := rfl
      omega

/-- **inspect_returns.**  An inspection hands control back.  In the situation
    of `inspect_pure` — an idle interpreter with a breakpoint pending, an
    immediate line whose tokens `ts` form PRINT statements, with arbitrary
    expressions — the starting turn followed by `k ≥ |ts| - 1` further
    `continue_evaluating` turns (the host's run loop `contTurns`, which stops
    calling as soon as the interpreter is not running) ends with the
    interpreter idle: every turn that leaves it running has moved the cursor
    forward on the line, and a turn that finds no token returns to idle. -/
theorem inspect_returns (fuel k : Nat) (line : Str) (ts : List (Token F)) (σ : St F)
    (hidle : σ.state = .idle) (hbp : σ.bp.isSome = true)
    (hcmd : (commandWord line).bind Command.ofWord = none)
    (hnum : parseLineNumber line = none)
    (htok : tokenize (F := F) line 0 = .ok ts)
    (hpl : PrintLine ts) (hk : ts.length ≤ k + 1) :
    ((do startEvaluating fuel line; contTurns fuel k) σ).final.state = .idle :=
  (inspect_qf fuel k line ts σ hidle hbp hcmd hnum htok hpl).2 hk

/-- … in the form "within a bounded number of turns": some `k ≤ 2·|ts| + 1`
    (indeed `k = |ts|`) further turns suffice. -/
theorem inspect_returns_exists (fuel : Nat) (line : Str) (ts : List (Token F)) (σ : St F)
    (hidle : σ.state = .idle) (hbp : σ.bp.isSome = true)
    (hcmd : (commandWord line).bind Command.ofWord = none)
    (hnum : parseLineNumber line = none)
    (htok : tokenize (F := F) line 0 = .ok ts)
    (hpl : PrintLine ts) :
    ∃ k, k ≤ 2 * ts.length + 1 ∧
      ((do startEvaluating fuel line; contTurns fuel k) σ).final.state = .idle :=
  ⟨ts.length, by omega, inspect_returns fuel _ line ts σ hidle hbp hcmd hnum htok hpl (by omega)⟩

/-- the nesting counter after an inspection is what it was -/
theorem inspect_nesting (fuel k : Nat) (line : Str) (σ : St F) :
    ((do startEvaluating fuel line; contTurns fuel k) σ).final.nesting = σ.nesting := by
  rw [final_bind]
  have h := C01.nesting_preserved_start fuel line σ
  cases hres : startEvaluating fuel line σ with
  | err e s1 => exact h.2 e s1 hres
  | ok u s1 => exact (contTurns_nesting fuel k s1).trans (h.1 u s1 hres)

/-- **inspect_frame.**  Everything an inspection leaves behind, in one
    statement: `InspectFrame` (breakpoint, stack, loops, data cursor, functions,
    variables, program lines unchanged; arrays extended by default arrays),
    `QF` (pending reply, flags, analyzer log unchanged; the queue has gained
    `Out.print` / `Out.warning` records on top), the nesting counter unchanged;
    and with `k ≥ |ts| - 1` the interpreter is idle. -/
theorem inspect_frame (fuel k : Nat) (line : Str) (ts : List (Token F)) (σ : St F)
    (hidle : σ.state = .idle) (hbp : σ.bp.isSome = true)
    (hcmd : (commandWord line).bind Command.ofWord = none)
    (hnum : parseLineNumber line = none)
    (htok : tokenize (F := F) line 0 = .ok ts)
    (hpl : PrintLine ts) :
    let σ' := ((do startEvaluating fuel line; contTurns fuel k) σ).final
    InspectFrame σ σ' ∧ QF σ σ' ∧ σ'.nesting = σ.nesting ∧ (ts.length ≤ k + 1 → σ'.state = .idle) :=
  ⟨(inspect_pure fuel k line ts σ hidle hbp hcmd hnum htok hpl).1,
   (inspect_qf fuel k line ts σ hidle hbp hcmd hnum htok hpl).1,
   inspect_nesting fuel k line σ,
   (inspect_qf fuel k line ts σ hidle hbp hcmd hnum htok hpl).2⟩

end returns

/-! ### inspect, then CONT -/

section thenCont

/-- `s'` is `s` with `extra` inserted in the output queue just above the records
    `base` that were already there, and with another value of the read counter
    (the `verif-hooks` statistic); everything else — the immediate line
    included — is the same -/
def agreeModOutReads (base extra : List Out) (s s' : St F) : Prop :=
  ∃ pre r, s.out = pre ++ base ∧ s' = { s with out := pre ++ extra ++ base, reads := r }

/-- same outcome (ok / the same error), states agreeing as above -/
def sameModOutReads {α : Type} (base extra : List Out) : Res F α → Res F α → Prop
  | .ok a s, .ok a' s' => a = a' ∧ agreeModOutReads base extra s s'
  | .err e s, .err e' s' => e = e' ∧ agreeModOutReads base extra s s'
  | _, _ => False

omit [NumOps F] in
/-- up to the read counter this is `agreeModOut` of C07 -/
theorem agreeModOut_of_reads {base extra : List Out} {s s' : St F} (h : agreeModOutReads base extra s s') :
    agreeModOut base extra s { s' with reads := s.reads } := by
  obtain ⟨pre, r, ho, rfl⟩ := h
  exact ⟨pre, s.imm, ho, rfl⟩

omit [NumOps F] in
/-- An action that commutes with putting older output under the queue and with
    shifting the read counter (`Acc.Comm`, which every host call has) cannot
    tell a state from the same state with further records on its queue and
    another read count: same value / same error, and the further records stay
    where they were, under everything the action pushes. -/
theorem acc_two_runs {α : Type} {m : M F α} (hm : ∀ d, Acc.Comm d m) (τ : St F) (extra : List Out) (r : Nat) :
    sameModOutReads τ.out extra (m τ) (m { τ with out := extra ++ τ.out, reads := r }) := by
  let τ₀ : St F := { τ with out := [], reads := 0, accesses := [] }
  have e1 : m τ = Acc.mapRes (Acc.T { out := τ.out, reads := τ.reads, accesses := τ.accesses }) (m τ₀) :=
    (hm { out := τ.out, reads := τ.reads, accesses := τ.accesses }).h τ₀
  have e2 : m { τ with out := extra ++ τ.out, reads := r } =
      Acc.mapRes (Acc.T { out := extra ++ τ.out, reads := r, accesses := τ.accesses }) (m τ₀) :=
    (hm { out := extra ++ τ.out, reads := r, accesses := τ.accesses }).h τ₀
  rw [e1, e2]
  cases m τ₀ with
  | ok a s0 =>
    refine ⟨rfl, s0.out, r + s0.reads, rfl, ?_⟩
    simp only [Acc.T, List.append_assoc]
  | err e s0 =>
    refine ⟨rfl, s0.out, r + s0.reads, rfl, ?_⟩
    simp only [Acc.T, List.append_assoc]

theorem acc_contTurns (d : Acc.Add) (fuel : Nat) : ∀ k, Acc.Comm d (contTurns (F := F) fuel k) := by
  intro k
  induction k with
  | zero => exact Acc.Comm.pure _
  | succ k ih =>
    unfold contTurns
    refine Acc.Comm.get_bind_ro (fun s => ?_) (fun s => rfl)
    by_cases h : (s.state == .running) = true
    · rw [if_pos h]
      exact Acc.Comm.bind (Acc.comm_continueEvaluating fuel) (fun _ => ih)
    · rw [if_neg h]
      exact Acc.Comm.pure _

/-- the CONT turn and `j` further turns, as one action on the state with the cursor restored -/
def contRun (fuel j : Nat) : M F Unit :=
  postprocess (do runNextStatement fuel; pure ()) >>= fun _ => contTurns fuel j

theorem acc_contRun (d : Acc.Add) (fuel j : Nat) : Acc.Comm d (contRun (F := F) fuel j) := by
  unfold contRun
  refine Acc.Comm.bind (Acc.comm_postprocess ?_) (fun _ => acc_contTurns d fuel j)
  exact Acc.Comm.bind (Acc.comm_runNextStatement fuel) (fun _ => Acc.Comm.pure _)

/-- the CONT command (any spelling) at an idle prompt with the breakpoint `(n, i)` pending,
    followed by the host's run loop -/
theorem cont_run_eq (fuel j : Nat) (cl : Str) (s : St F) (n i : Nat)
    (hidle : s.state = .idle) (hbp : s.bp = some (n, i))
    (hcl : (commandWord cl).bind Command.ofWord = some .cont) :
    (do startEvaluating fuel cl; contTurns fuel j) s =
      contRun fuel j { s with imm := [], loc := { line := some n, idx := i }, bp := none } := by
  have h1 : startEvaluating fuel cl s =
      postprocess (do runNextStatement fuel; pure ()) { s with imm := [], loc := { line := some n, idx := i }, bp := none } := by
    unfold startEvaluating postprocess
    rw [cont_command fuel cl s n i hidle hbp hcl]
  show M.bindM (startEvaluating fuel cl) (fun _ => contTurns fuel j) s = M.bindM _ _ _
  unfold M.bindM
  rw [h1]

/-- **inspect_then_cont.**  "Inspect, then CONT behaves as CONT alone."

    `σ` is an idle interpreter with the breakpoint `(n, i)` pending (a program
    stopped by STOP or by a break-in).  `σ'` is the state after an inspection:
    an immediate line of PRINT statements with arbitrary expressions, run to
    completion (`k ≥ |ts| - 1` further turns, `inspect_returns`).  IF the
    inspection has not auto-created an array (`σ'.arrays = σ.arrays`) and has
    not drawn from the random generator (`σ'.rng = σ.rng`), THEN the records
    `extra` it left on the queue are `Out.print` / `Out.warning` records on top
    of `σ.out`, and entering CONT (in any spelling `cl`) and letting the host
    continue for up to `j` further turns has the same outcome from `σ'` as
    from `σ`: the same result (ok, or the same error at the same location), and
    final states that agree on every component except the output queue —
    where the inspected run has `extra`, below everything printed after the
    inspection and above everything printed before it — and the read counter.

    Both provisos are necessary (`inspect_then_cont_needs_arrays`,
    `inspect_then_cont_needs_rng` below); everything else the comparison needs
    — lines, breakpoint, stack, loops, data cursor, functions, variables,
    pending reply, flags, nesting counter, analyzer log — is PROVED unchanged by
    `inspect_frame`. -/
theorem inspect_then_cont (fuel k j : Nat) (line cl : Str) (ts : List (Token F)) (σ σ' : St F) (n i : Nat)
    (hidle : σ.state = .idle) (hbp : σ.bp = some (n, i))
    (hcmd : (commandWord line).bind Command.ofWord = none)
    (hnum : parseLineNumber line = none)
    (htok : tokenize (F := F) line 0 = .ok ts)
    (hpl : PrintLine ts) (hk : ts.length ≤ k + 1)
    (hσ' : σ' = ((do startEvaluating fuel line; contTurns fuel k) σ).final)
    (hcl : (commandWord cl).bind Command.ofWord = some .cont)
    (harr : σ'.arrays = σ.arrays) (hrng : σ'.rng = σ.rng) :
    ∃ extra, σ'.out = extra ++ σ.out ∧ (∀ x ∈ extra, isPW x = true) ∧
      sameModOutReads σ.out extra
        ((do startEvaluating fuel cl; contTurns fuel j) σ)
        ((do startEvaluating fuel cl; contTurns fuel j) σ') := by
  have hbp' : σ.bp.isSome = true := by rw [hbp]; rfl
  obtain ⟨hif, hqf, hnest, hid⟩ := inspect_frame fuel k line ts σ hidle hbp' hcmd hnum htok hpl
  rw [← hσ'] at hif hqf hnest hid
  have hidle' : σ'.state = .idle := hid hk
  obtain ⟨extra, hout, hpw⟩ := hqf.out
  refine ⟨extra, hout, hpw, ?_⟩
  rw [cont_run_eq fuel j cl σ n i hidle hbp hcl,
    cont_run_eq fuel j cl σ' n i hidle' (hif.bp.trans hbp) hcl]
  have hτ : ({ σ' with imm := [], loc := { line := some n, idx := i }, bp := none } : St F) =
      { ({ σ with imm := [], loc := { line := some n, idx := i }, bp := none } : St F) with
        out := extra ++ ({ σ with imm := [], loc := { line := some n, idx := i }, bp := none } : St F).out,
        reads := σ'.reads } := by
    have h1 := hif.lines
    have h2 := hif.stack
    have h3 := hif.loops
    have h4 := hif.data
    have h5 := hif.fns
    have h6 := hif.vars
    have h7 := hqf.input
    have h8 := hqf.warnings
    have h9 := hqf.tracing
    have h10 := hqf.accesses
    have h11 := hidle'.trans hidle.symm
    clear hif hqf hid hσ' hpw hidle hidle' hbp hbp'
    obtain ⟨lines, imm, loc, bp, stack, loops, data, fns, nesting, input, out, state, rng, vars, arrays,
      warnings, tracing, accesses, reads⟩ := σ
    obtain ⟨lines', imm', loc', bp', stack', loops', data', fns', nesting', input', out', state', rng', vars', arrays',
      warnings', tracing', accesses', reads'⟩ := σ'
    simp only at h1 h2 h3 h4 h5 h6 h7 h8 h9 h10 h11 hnest hout harr hrng
    subst h1 h2 h3 h4 h5 h6 h7 h8 h9 h10 h11 hnest hout harr hrng
    rfl
  rw [hτ]
  exact acc_two_runs (fun d => acc_contRun d fuel j) _ extra σ'.reads

omit [NumOps F] in
/-- a state of a run (`RunInv`) with a breakpoint pending is stopped there:
    idle, on the emptied immediate line, return addresses and loops numbered -/
theorem runInv_at_breakpoint (σ : St F) (h : RunInv σ) (b : Nat × Nat) (hbp : σ.bp = some b) :
    σ.state = .idle ∧ σ.loc.line = none ∧ σ.imm = [] ∧ numbered σ := by
  obtain ⟨hn, (⟨_, hb⟩ | ⟨h1, h2, h3⟩)⟩ := h
  · rw [hbp] at hb; cases hb
  · exact ⟨h3, h1, h2, hn⟩

/-- **inspect_then_cont** for a state of a run: `RunInv σ` (which every state
    reached from RUN by `continue_evaluating`, `provide_input`, break-ins and
    CONT commands satisfies, `run_numbered`) with the breakpoint `(n, i)`
    pending.  The interpreter is then idle at the breakpoint, and the
    conclusion of `inspect_then_cont` holds. -/
theorem inspect_then_cont_runInv (fuel k j : Nat) (line cl : Str) (ts : List (Token F)) (σ σ' : St F) (n i : Nat)
    (hinv : RunInv σ) (hbp : σ.bp = some (n, i))
    (hcmd : (commandWord line).bind Command.ofWord = none)
    (hnum : parseLineNumber line = none)
    (htok : tokenize (F := F) line 0 = .ok ts)
    (hpl : PrintLine ts) (hk : ts.length ≤ k + 1)
    (hσ' : σ' = ((do startEvaluating fuel line; contTurns fuel k) σ).final)
    (hcl : (commandWord cl).bind Command.ofWord = some .cont)
    (harr : σ'.arrays = σ.arrays) (hrng : σ'.rng = σ.rng) :
    σ.state = .idle ∧ σ'.state = .idle ∧ InspectFrame σ σ' ∧
    ∃ extra, σ'.out = extra ++ σ.out ∧ (∀ x ∈ extra, isPW x = true) ∧
      sameModOutReads σ.out extra
        ((do startEvaluating fuel cl; contTurns fuel j) σ)
        ((do startEvaluating fuel cl; contTurns fuel j) σ') := by
  have hidle := (runInv_at_breakpoint σ hinv (n, i) hbp).1
  have hbp' : σ.bp.isSome = true := by rw [hbp]; rfl
  refine ⟨hidle, ?_, ?_, inspect_then_cont fuel k j line cl ts σ σ' n i hidle hbp hcmd hnum htok hpl hk hσ' hcl harr hrng⟩
  · rw [hσ']; exact inspect_returns fuel k line ts σ hidle hbp' hcmd hnum htok hpl hk
  · rw [hσ']; exact (inspect_pure fuel k line ts σ hidle hbp' hcmd hnum htok hpl).1

/-- … and for the states of an actual run: RUN from an idle interpreter followed by any turns
    `tsr` (continue / reply / break-in / CONT), ending with a breakpoint pending. -/
theorem inspect_then_cont_run (fuel k j : Nat) (line cl : Str) (ts : List (Token F)) (σ₀ σ' : St F)
    (tsr : List Turn) (n i : Nat) (hidle₀ : σ₀.state = .idle)
    (hbp : (afterTurns fuel tsr (startEvaluating fuel "RUN".toList σ₀).final).bp = some (n, i))
    (hcmd : (commandWord line).bind Command.ofWord = none)
    (hnum : parseLineNumber line = none)
    (htok : tokenize (F := F) line 0 = .ok ts)
    (hpl : PrintLine ts) (hk : ts.length ≤ k + 1)
    (hσ' : σ' = ((do startEvaluating fuel line; contTurns fuel k)
      (afterTurns fuel tsr (startEvaluating fuel "RUN".toList σ₀).final)).final)
    (hcl : (commandWord cl).bind Command.ofWord = some .cont)
    (harr : σ'.arrays = (afterTurns fuel tsr (startEvaluating fuel "RUN".toList σ₀).final).arrays)
    (hrng : σ'.rng = (afterTurns fuel tsr (startEvaluating fuel "RUN".toList σ₀).final).rng) :
    ∃ extra, σ'.out = extra ++ (afterTurns fuel tsr (startEvaluating fuel "RUN".toList σ₀).final).out ∧
      (∀ x ∈ extra, isPW x = true) ∧
      sameModOutReads (afterTurns fuel tsr (startEvaluating fuel "RUN".toList σ₀).final).out extra
        ((do startEvaluating fuel cl; contTurns fuel j) (afterTurns fuel tsr (startEvaluating fuel "RUN".toList σ₀).final))
        ((do startEvaluating fuel cl; contTurns fuel j) σ') :=
  (inspect_then_cont_runInv fuel k j line cl ts _ σ' n i (run_numbered fuel σ₀ hidle₀ tsr) hbp
    hcmd hnum htok hpl hk hσ' hcl harr hrng).2.2.2

/-! #### the two provisos are necessary -/

/-- did the run succeed? -/
def Res.isOk {α : Type} : Res F α → Bool
  | .ok _ _ => true
  | .err _ _ => false

omit [NumOps F] in
theorem sameModOutReads_isOk {α : Type} {base extra : List Out} {r r' : Res F α}
    (h : sameModOutReads base extra r r') : Res.isOk r = Res.isOk r' := by
  cases r <;> cases r' <;> first | rfl | exact h.elim

omit [NumOps F] in
theorem sameModOutReads_rng {α : Type} {base extra : List Out} {r r' : Res F α}
    (h : sameModOutReads base extra r r') : r.final.rng = r'.final.rng := by
  cases r <;> cases r' <;> first | exact h.elim | skip
  · obtain ⟨_, pre, k, _, hs⟩ := h
    rw [hs]; rfl
  · obtain ⟨_, pre, k, _, hs⟩ := h
    rw [hs]; rfl

/-- the program `10 DIM A(B)`, broken into at its start -/
def cexDim : St Unit :=
  { lines := { map := [(10, [.kw .Dim, .symbol ['A'], .kw .LeftParen, .symbol ['B'], .kw .RightParen])], sorted := [10] },
    bp := some (10, 0) }

omit [NumOps F] in
theorem printLine_five {t1 t2 t3 t4 : Token F} (h1 : t1 ≠ .kw .Colon) (h2 : t2 ≠ .kw .Colon)
    (h3 : t3 ≠ .kw .Colon) (h4 : t4 ≠ .kw .Colon) : PrintLine [.kw .Print, t1, t2, t3, t4] := by
  refine ⟨fun t ht => ?_, fun p hp => ?_⟩
  · simp only [List.getElem?_cons_zero, Option.some.injEq] at ht
    exact Or.inl ht.symm
  · exfalso
    rcases p with _ | _ | _ | _ | _ | p
    · simp at hp
    · simp only [List.getElem?_cons_succ, List.getElem?_cons_zero, Option.some.injEq] at hp; exact h1 hp
    · simp only [List.getElem?_cons_succ, List.getElem?_cons_zero, Option.some.injEq] at hp; exact h2 hp
    · simp only [List.getElem?_cons_succ, List.getElem?_cons_zero, Option.some.injEq] at hp; exact h3 hp
    · simp only [List.getElem?_cons_succ, List.getElem?_cons_zero, Option.some.injEq] at hp; exact h4 hp
    · simp at hp



/-- **The proviso on arrays cannot be dropped** — and the statement "CONT after
    an inspection is CONT alone up to `ArrExt`-related arrays" is FALSE.
    Program `10 DIM A(B)`, stopped in front of the DIM; the inspection
    `PRINT A(B)` (a legal `inspect_pure` line; it returns to idle and draws no
    random number) auto-creates the default array `A`; CONT then fails with
    REDIMENSIONED ARRAY, whereas CONT without the inspection succeeds.  Hence
    the two runs are not related by `sameModOutReads` for any `extra`. -/
theorem inspect_then_cont_needs_arrays :
    ∃ (line : Str) (ts : List (Token Unit)),
      cexDim.state = .idle ∧ cexDim.bp = some (10, 0) ∧
      (commandWord line).bind Command.ofWord = none ∧ parseLineNumber line = none ∧
      tokenize (F := Unit) line 0 = .ok ts ∧ PrintLine ts ∧
      (((do startEvaluating 5 line; contTurns 5 5) cexDim).final.state = .idle ∧
       ((do startEvaluating 5 line; contTurns 5 5) cexDim).final.rng = cexDim.rng ∧
       Res.isOk ((do startEvaluating 5 "CONT".toList; contTurns 5 0) cexDim) = true ∧
       Res.isOk ((do startEvaluating 5 "CONT".toList; contTurns 5 0)
          ((do startEvaluating 5 line; contTurns 5 5) cexDim).final) = false ∧
       ∀ extra, ¬ sameModOutReads cexDim.out extra
          ((do startEvaluating 5 "CONT".toList; contTurns 5 0) cexDim)
          ((do startEvaluating 5 "CONT".toList; contTurns 5 0)
            ((do startEvaluating 5 line; contTurns 5 5) cexDim).final)) := by
  refine ⟨"PRINT A(B)".toList, [.kw .Print, .symbol ['A'], .kw .LeftParen, .symbol ['B'], .kw .RightParen],
    rfl, rfl, by decide +kernel, by decide +kernel, by rfl,
    printLine_five (fun h => by cases h) (fun h => by cases h) (fun h => by cases h) (fun h => by cases h), ?_⟩
  have h1 : Res.isOk ((do startEvaluating 5 "CONT".toList; contTurns 5 0) cexDim) = true := by decide +kernel
  have h2 : Res.isOk ((do startEvaluating 5 "CONT".toList; contTurns 5 0)
      ((do startEvaluating 5 "PRINT A(B)".toList; contTurns 5 5) cexDim).final) = false := by decide +kernel
  have hne : ¬ (Res.isOk ((do startEvaluating 5 "CONT".toList; contTurns 5 0) cexDim) =
      Res.isOk ((do startEvaluating 5 "CONT".toList; contTurns 5 0)
        ((do startEvaluating 5 "PRINT A(B)".toList; contTurns 5 5) cexDim).final)) := by
    rw [h1, h2]; decide
  exact ⟨by decide +kernel, by decide +kernel, h1, h2, fun extra => mt sameModOutReads_isOk hne⟩

section rng
/-- numbers none of which is zero: `RND(x)` always draws -/
@[reducible] def instNZ : NumOps Unit := { (inferInstance : NumOps Unit) with eq := fun _ _ => false }
attribute [local instance] instNZ

/-- the program `10 X = RND(B)`, broken into at its start -/
def cexRnd : St Unit :=
  { lines := { map := [(10, [.symbol ['X'], .kw .Equals, .symbol ['R', 'N', 'D'], .kw .LeftParen, .symbol ['B'],
                             .kw .RightParen])], sorted := [10] },
    bp := some (10, 0) }

/-- **The proviso on the random generator cannot be dropped.**  Program
    `10 X = RND(B)` stopped in front of the assignment; the inspection
    `PRINT RND(B)` (it returns to idle and creates no array) advances the
    generator; after CONT the generator — and with real numbers the value of
    `X` — differs between the inspected and the uninspected run. -/
theorem inspect_then_cont_needs_rng :
    ∃ (line : Str) (ts : List (Token Unit)),
      cexRnd.state = .idle ∧ cexRnd.bp = some (10, 0) ∧
      (commandWord line).bind Command.ofWord = none ∧ parseLineNumber line = none ∧
      tokenize (F := Unit) line 0 = .ok ts ∧ PrintLine ts ∧
      (((do startEvaluating 5 line; contTurns 5 5) cexRnd).final.state = .idle ∧
       ((do startEvaluating 5 line; contTurns 5 5) cexRnd).final.arrays.length = cexRnd.arrays.length ∧
       ((do startEvaluating 5 "CONT".toList; contTurns 5 0) cexRnd).final.rng ≠
         ((do startEvaluating 5 "CONT".toList; contTurns 5 0)
            ((do startEvaluating 5 line; contTurns 5 5) cexRnd).final).final.rng ∧
       ∀ extra, ¬ sameModOutReads cexRnd.out extra
          ((do startEvaluating 5 "CONT".toList; contTurns 5 0) cexRnd)
          ((do startEvaluating 5 "CONT".toList; contTurns 5 0)
            ((do startEvaluating 5 line; contTurns 5 5) cexRnd).final)) := by
  refine ⟨"PRINT RND(B)".toList, [.kw .Print, .symbol ['R', 'N', 'D'], .kw .LeftParen, .symbol ['B'], .kw .RightParen],
    rfl, rfl, by decide +kernel, by decide +kernel, by rfl,
    printLine_five (fun h => by cases h) (fun h => by cases h) (fun h => by cases h) (fun h => by cases h), ?_⟩
  have h1 : ((do startEvaluating 5 "CONT".toList; contTurns 5 0) cexRnd).final.rng ≠
      ((do startEvaluating 5 "CONT".toList; contTurns 5 0)
        ((do startEvaluating 5 "PRINT RND(B)".toList; contTurns 5 5) cexRnd).final).final.rng := by decide +kernel
  exact ⟨by decide +kernel, by decide +kernel, h1, fun extra => mt sameModOutReads_rng h1⟩

end rng

/-- the program `10 X = B` inside a subroutine, broken into at its start -/
def okDemo : St Unit :=
  { lines := { map := [(10, [.symbol ['X'], .kw .Equals, .symbol ['B']])], sorted := [10] },
    bp := some (10, 0), stack := [{ ret := { line := some 5, idx := 2 }, vars := [] }] }

/-- Non-vacuity of `inspect_then_cont`: the inspection `PRINT X` of `okDemo`
    meets every hypothesis (two tokens, `k = 1` further turn). -/
example :
    okDemo.state = .idle ∧ okDemo.bp = some (10, 0) ∧
    (commandWord "PRINT X".toList).bind Command.ofWord = none ∧ parseLineNumber "PRINT X".toList = none ∧
    tokenize (F := Unit) "PRINT X".toList 0 = .ok [.kw .Print, .symbol ['X']] ∧
    ((do startEvaluating 5 "PRINT X".toList; contTurns 5 1) okDemo).final.arrays = okDemo.arrays ∧
    ((do startEvaluating 5 "PRINT X".toList; contTurns 5 1) okDemo).final.rng = okDemo.rng :=
  ⟨rfl, rfl, by decide +kernel, by decide +kernel, by rfl,
   (by decide +kernel : ((do startEvaluating 5 "PRINT X".toList; contTurns 5 1) okDemo).final.arrays = []),
   by decide +kernel⟩

example : PrintLine ([.kw .Print, .symbol ['X']] : List (Token Unit)) := by
  refine ⟨fun t ht => ?_, fun p hp => ?_⟩
  · simp only [List.getElem?_cons_zero, Option.some.injEq] at ht
    exact Or.inl ht.symm
  · exfalso
    rcases p with _ | _ | p
    · simp at hp
    · simp at hp
    · simp at hp

end thenCont

/-! ## 2. assignment at a STOP inside a subroutine or a FOR loop -/

section assignSub
open Abasic.Ref Abasic.ExprL Abasic.StmtL

omit [NumOps F] in
/-- GOSUB frames bind no variable: a stack of GOSUB frames (what a program
    without user-function calls in progress has) answers no variable lookup -/
theorem findInStack_gosub (stack : List (Frame F)) (h : ∀ f ∈ stack, f.vars = []) (sym : Str) :
    findInStack sym stack = none := by
  induction stack with
  | nil => rfl
  | cons f rest ih =>
    have hf : f.vars = [] := h f (List.mem_cons_self ..)
    simp only [findInStack, hf, alGet]
    exact ih (fun g hg => h g (List.mem_cons_of_mem _ hg))

/-- **LET with a non-empty GOSUB stack** (`C03.let_refines` without the
    hypothesis `σ.stack = []`): it is enough that no frame on the stack binds a
    variable (`ExprG.Quiet`).  FOR loops are unconstrained. -/
theorem let_refines_sub (x : Str) (e : Expr F) (n : Nat) (σ : St F) (pre rest : List (Token F))
    (hAt : At σ pre (renderS (.letS x e) ++ rest))
    (hq : ∀ sym, findInStack sym σ.stack = none) (hw : σ.warnings = false) (htr : σ.tracing = false)
    (hnest : σ.nesting + sdepth (.letS x e) ≤ Extracted.nestingLimit) (hfuel : sdepth (.letS x e) ≤ n)
    (hrest : StmtEnd rest) :
    (∀ v, foldE (envOf σ.vars) e = .ok v → v.matchesName x = true → ∃ k, σ.reads < k ∧
      stmtBody (evalN n) σ = .ok ()
        { σ with vars := alSet x v σ.vars,
                 loc := { σ.loc with idx := pre.length + (renderS (.letS x e)).length }, reads := k }) ∧
    (∀ v, foldE (envOf σ.vars) e = .ok v → v.matchesName x = false → ∃ σ',
      stmtBody (evalN n) σ = .err { err := .typeMismatch } σ' ∧ σ'.nesting = σ.nesting) ∧
    (∀ err, foldE (envOf σ.vars) e = .error err → ∃ σ',
      stmtBody (evalN n) σ = .err { err := err } σ' ∧ σ'.nesting = σ.nesting) := by
  have hR := StmtG.let_run x e n σ pre rest 0 hAt ⟨hq, hw⟩ htr hfuel hnest (ends_of_stmtEnd hrest 6)
  refine ⟨fun v hv hm => ?_, fun v hv hm => ?_, fun err hv => ?_⟩
  · have hr : RStmt.exec σ.vars (.letS x e) = { vars := alSet x v σ.vars, out := [], ctl := .next } := by
      simp only [RStmt.exec, hv, hm, ↓reduceIte]
    rw [hr] at hR
    exact hR
  · have hr : RStmt.exec σ.vars (.letS x e) = { vars := σ.vars, out := [], ctl := .error .typeMismatch } := by
      simp only [RStmt.exec, hv, hm, Bool.false_eq_true, ↓reduceIte]
    rw [hr] at hR
    exact hR
  · have hr : RStmt.exec σ.vars (.letS x e) = { vars := σ.vars, out := [], ctl := .error err } := by
      simp only [RStmt.exec, hv]
    rw [hr] at hR
    exact hR

/-- **assign_at_stop_sub.**  `assign_at_stop` for a STOP inside a subroutine
    and / or a FOR loop: the GOSUB stack `σ.stack` and the loop stack `σ.loops`
    are arbitrary, provided no frame on the stack binds a variable (true of
    GOSUB frames, `findInStack_gosub`; a frame of a user-function call in
    progress would shadow variables).  A program stopped by the STOP that
    stands at `pre` in line `n`; at the breakpoint the user enters `LET x = e`;
    CONT restores the cursor.  Compared with one activation of the statement
    evaluator on the program `L'` that has `LET x = e` in place of the STOP:
    both end with `x` set to `v`, every other variable, the arrays, the GOSUB
    stack (kept by the break: a breakpoint is pending when the immediate line
    is installed and when it is reset), the FOR loops, functions, data cursor,
    generator, pending reply and flags as they were; the cursor just behind the
    STOP in the one and just behind the LET in the other. -/
theorem assign_at_stop_sub (x : Str) (e : Expr F) (fuel n : Nat) (σ : St F) (pre rest : List (Token F))
    (L' : Lines F)
    (hline : σ.lines.get n = some (pre ++ .kw .Stop :: rest))
    (hline' : L'.get n = some (pre ++ renderS (.letS x e) ++ rest))
    (hloc : σ.loc = { line := some n, idx := pre.length })
    (hbp : σ.bp = none) (himm : σ.imm = [])
    (hq : ∀ sym, findInStack sym σ.stack = none)
    (hw : σ.warnings = false) (htr : σ.tracing = false)
    (hnest : σ.nesting + sdepth (.letS x e) ≤ Extracted.nestingLimit) (hfuel : sdepth (.letS x e) ≤ fuel)
    (hrest : StmtEnd rest)
    (v : Value F) (hv : foldE (envOf σ.vars) e = .ok v) (hm : v.matchesName x = true) :
    ∃ σ₁ σ₂ σ₃ σB k₁ k₂,
      stmtBody (evalN fuel) σ = .ok () σ₁ ∧
      (do setImmediate (renderS (.letS x e)); stmtBody (evalN fuel)) σ₁ = .ok () σ₂ ∧
      continueFromBreakpoint σ₂ = .ok () σ₃ ∧
      stmtBody (evalN fuel) { σ with lines := L' } = .ok () σB ∧
      σ₃ = { σ with vars := alSet x v σ.vars, loc := { line := some n, idx := pre.length + 1 },
                    out := .brk (some n) :: σ.out, state := .idle, reads := k₁ } ∧
      σB = { σ with lines := L', vars := alSet x v σ.vars,
                    loc := { line := some n, idx := pre.length + (renderS (.letS x e)).length }, reads := k₂ } := by
  -- STOP
  have hAt : At σ pre (.kw .Stop :: rest) :=
    ⟨by unfold lineToks; rw [hloc]; exact hline, by rw [hloc]⟩
  have h1 := stop_stmt fuel n σ pre rest hAt (by rw [hloc]) htr
  -- the immediate LET
  let σ₁ : St F := { σ with state := .idle, out := .brk (some n) :: σ.out, bp := some (n, pre.length + 1),
                            imm := [], loc := {}, reads := σ.reads + 1 }
  let σ₁' : St F := σ₁.setImmediate (renderS (.letS x e))
  have hAt1 : At σ₁' [] (renderS (.letS x e) ++ []) := ⟨by rw [List.append_nil]; rfl, rfl⟩
  obtain ⟨k₁, _, h2⟩ := (let_refines_sub x e fuel σ₁' [] [] hAt1 hq hw htr hnest hfuel
    (fun t ht => by simp at ht)).1 v hv hm
  -- in place
  have hAt2 : At ({ σ with lines := L' } : St F) pre (renderS (.letS x e) ++ rest) :=
    ⟨by
      unfold lineToks
      show (match σ.loc.line with | none => _ | some n => L'.get n) = _
      rw [hloc, ← List.append_assoc]; exact hline', by show σ.loc.idx = _; rw [hloc]⟩
  obtain ⟨k₂, _, h3⟩ := (let_refines_sub x e fuel _ pre rest hAt2 hq hw htr hnest hfuel hrest).1 v hv hm
  let σ₂ : St F := { σ₁' with vars := alSet x v σ₁'.vars,
                              loc := { σ₁'.loc with idx := ([] : List (Token F)).length + (renderS (.letS x e)).length },
                              reads := k₁ }
  let σ₃ : St F := { σ₂ with imm := [], loc := { line := some n, idx := pre.length + 1 }, bp := none }
  refine ⟨σ₁, σ₂, σ₃, _, k₁, k₂, h1, h2, cont_restores σ₂ n (pre.length + 1) ?_, h3, ?_, ?_⟩
  · simp [σ₂, σ₁', σ₁, St.setImmediate]
  · simp [σ₃, σ₂, σ₁', σ₁, St.setImmediate, himm, hbp]
  · simp [hloc]

/-- … in particular inside subroutines: every frame on the stack is a GOSUB
    frame (`vars = []`, as `gosubLine` pushes them) -/
theorem assign_at_stop_gosub (x : Str) (e : Expr F) (fuel n : Nat) (σ : St F) (pre rest : List (Token F))
    (L' : Lines F)
    (hline : σ.lines.get n = some (pre ++ .kw .Stop :: rest))
    (hline' : L'.get n = some (pre ++ renderS (.letS x e) ++ rest))
    (hloc : σ.loc = { line := some n, idx := pre.length })
    (hbp : σ.bp = none) (himm : σ.imm = [])
    (hstack : ∀ f ∈ σ.stack, f.vars = [])
    (hw : σ.warnings = false) (htr : σ.tracing = false)
    (hnest : σ.nesting + sdepth (.letS x e) ≤ Extracted.nestingLimit) (hfuel : sdepth (.letS x e) ≤ fuel)
    (hrest : StmtEnd rest)
    (v : Value F) (hv : foldE (envOf σ.vars) e = .ok v) (hm : v.matchesName x = true) :
    ∃ σ₁ σ₂ σ₃ σB k₁ k₂,
      stmtBody (evalN fuel) σ = .ok () σ₁ ∧
      (do setImmediate (renderS (.letS x e)); stmtBody (evalN fuel)) σ₁ = .ok () σ₂ ∧
      continueFromBreakpoint σ₂ = .ok () σ₃ ∧
      stmtBody (evalN fuel) { σ with lines := L' } = .ok () σB ∧
      σ₃ = { σ with vars := alSet x v σ.vars, loc := { line := some n, idx := pre.length + 1 },
                    out := .brk (some n) :: σ.out, state := .idle, reads := k₁ } ∧
      σB = { σ with lines := L', vars := alSet x v σ.vars,
                    loc := { line := some n, idx := pre.length + (renderS (.letS x e)).length }, reads := k₂ } :=
  assign_at_stop_sub x e fuel n σ pre rest L' hline hline' hloc hbp himm (findInStack_gosub σ.stack hstack)
    hw htr hnest hfuel hrest v hv hm

/-- … and when the assignment fails, it fails with the same error at the
    breakpoint and in place (any stack without variable bindings, any loops). -/
theorem assign_at_stop_sub_error (x : Str) (e : Expr F) (fuel n : Nat) (σ : St F) (pre rest : List (Token F))
    (L' : Lines F)
    (hline : σ.lines.get n = some (pre ++ .kw .Stop :: rest))
    (hline' : L'.get n = some (pre ++ renderS (.letS x e) ++ rest))
    (hloc : σ.loc = { line := some n, idx := pre.length })
    (hq : ∀ sym, findInStack sym σ.stack = none)
    (hw : σ.warnings = false) (htr : σ.tracing = false)
    (hnest : σ.nesting + sdepth (.letS x e) ≤ Extracted.nestingLimit) (hfuel : sdepth (.letS x e) ≤ fuel)
    (hrest : StmtEnd rest)
    (err : Err)
    (hv : foldE (envOf σ.vars) e = .error err ∨
      (err = .typeMismatch ∧ ∃ v, foldE (envOf σ.vars) e = .ok v ∧ v.matchesName x = false)) :
    ∃ σ₁ σ₂ σB,
      stmtBody (evalN fuel) σ = .ok () σ₁ ∧
      (do setImmediate (renderS (.letS x e)); stmtBody (evalN fuel)) σ₁ = .err { err := err } σ₂ ∧
      stmtBody (evalN fuel) { σ with lines := L' } = .err { err := err } σB := by
  have hAt : At σ pre (.kw .Stop :: rest) :=
    ⟨by unfold lineToks; rw [hloc]; exact hline, by rw [hloc]⟩
  have h1 := stop_stmt fuel n σ pre rest hAt (by rw [hloc]) htr
  let σ₁ : St F := { σ with state := .idle, out := .brk (some n) :: σ.out, bp := some (n, pre.length + 1),
                            imm := [], loc := {}, reads := σ.reads + 1 }
  let σ₁' : St F := σ₁.setImmediate (renderS (.letS x e))
  have hAt1 : At σ₁' [] (renderS (.letS x e) ++ []) := ⟨by rw [List.append_nil]; rfl, rfl⟩
  have hAt2 : At ({ σ with lines := L' } : St F) pre (renderS (.letS x e) ++ rest) :=
    ⟨by
      unfold lineToks
      show (match σ.loc.line with | none => _ | some n => L'.get n) = _
      rw [hloc, ← List.append_assoc]; exact hline', by show σ.loc.idx = _; rw [hloc]⟩
  have hA := let_refines_sub x e fuel σ₁' [] [] hAt1 hq hw htr hnest hfuel (fun t ht => by simp at ht)
  have hB := let_refines_sub x e fuel _ pre rest hAt2 hq hw htr hnest hfuel hrest
  rcases hv with hv | ⟨rfl, v, hv, hm⟩
  · obtain ⟨s2, h2, _⟩ := hA.2.2 err hv
    obtain ⟨s3, h3, _⟩ := hB.2.2 err hv
    exact ⟨σ₁, s2, s3, h1, h2, h3⟩
  · obtain ⟨s2, h2, _⟩ := hA.2.1 v hv hm
    obtain ⟨s3, h3, _⟩ := hB.2.1 v hv hm
    exact ⟨σ₁, s2, s3, h1, h2, h3⟩

/-- **assign_at_stop_sub_turns.**  The same comparison with the three host
    calls spelled out (as `assign_at_stop_turns`), inside subroutines / loops:
    the turn that executes the STOP, the immediate line `line` (any text that
    is not a command, has no line number and tokenises to `LET x = e`), and
    `CONT`, which is `run_next_statement` from `σ₃`. -/
theorem assign_at_stop_sub_turns (x : Str) (e : Expr F) (fuel n : Nat) (σ : St F) (pre rest : List (Token F))
    (L' : Lines F) (line : Str)
    (hline : σ.lines.get n = some (pre ++ .kw .Stop :: rest))
    (hline' : L'.get n = some (pre ++ renderS (.letS x e) ++ rest))
    (hloc : σ.loc = { line := some n, idx := pre.length })
    (hrun : σ.state = .running)
    (hbp : σ.bp = none) (himm : σ.imm = [])
    (hq : ∀ sym, findInStack sym σ.stack = none)
    (hw : σ.warnings = false) (htr : σ.tracing = false)
    (hnest : σ.nesting + sdepth (.letS x e) ≤ Extracted.nestingLimit) (hfuel : sdepth (.letS x e) ≤ fuel)
    (hrest : StmtEnd rest)
    (hcmd : (commandWord line).bind Command.ofWord = none)
    (hnum : parseLineNumber line = none)
    (htok : tokenize (F := F) line 0 = .ok (renderS (.letS x e)))
    (v : Value F) (hv : foldE (envOf σ.vars) e = .ok v) (hm : v.matchesName x = true) :
    ∃ σ₁ σ₂ σ₃ σB k₁ k₂,
      continueEvaluating fuel σ = .ok () σ₁ ∧ σ₁.state = .idle ∧
      startEvaluating fuel line σ₁ = .ok () σ₂ ∧ σ₂.state = .idle ∧
      startEvaluating fuel "CONT".toList σ₂ = postprocess (do runNextStatement fuel; pure ()) σ₃ ∧
      stmtBody (evalN fuel) { σ with lines := L' } = .ok () σB ∧
      σ₃ = { σ with vars := alSet x v σ.vars, loc := { line := some n, idx := pre.length + 1 },
                    out := .brk (some n) :: σ.out, state := .idle, reads := k₁ } ∧
      σB = { σ with lines := L', vars := alSet x v σ.vars,
                    loc := { line := some n, idx := pre.length + (renderS (.letS x e)).length }, reads := k₂ } := by
  -- turn 1: the STOP
  have hlt : lineToks σ = some (pre ++ .kw .Stop :: rest) := by unfold lineToks; rw [hloc]; exact hline
  have hidx : (pre ++ Token.kw (F := F) .Stop :: rest)[σ.loc.idx]? = some (.kw .Stop) := by
    rw [hloc]; simp
  let σ0 : St F := { σ with state := .running, reads := σ.reads + 1 }
  have hAt0 : At σ0 pre (.kw .Stop :: rest) := ⟨hlt, by show σ.loc.idx = _; rw [hloc]⟩
  have hstop := stop_stmt fuel n σ0 pre rest hAt0 (by show σ.loc.line = _; rw [hloc]) htr
  have hstep1 := runNextStatement_step fuel hlt hidx hstop
  let s1 : St F := { σ0 with state := .idle, out := .brk (some n) :: σ0.out, bp := some (n, pre.length + 1),
                             imm := [], loc := {}, reads := σ0.reads + 1 }
  have htail1 : tailPart s1 = .ok () { ({ s1 with reads := s1.reads + 1 } : St F).setImmediate [] with state := .idle } :=
    tailPart_imm_end (ts := []) rfl rfl rfl
  let σ₁ : St F := { ({ s1 with reads := s1.reads + 1 } : St F).setImmediate [] with state := .idle }
  have hT1 : continueEvaluating fuel σ = .ok () σ₁ := by
    have hne : (σ.state != .running) = false := by simp [hrun]
    simp only [continueEvaluating, bind, M.bindM, M.get, hne, Bool.false_eq_true, if_false, postprocess]
    rw [hstep1, htail1]
  -- turn 2: the immediate LET
  let ts : List (Token F) := renderS (.letS x e)
  let σi : St F := (σ₁.setImmediate []).setImmediate ts
  have hstart : startEvaluating fuel line σ₁ = postprocess (runNextStatement fuel) σi := by
    unfold startEvaluating postprocess
    rw [Abasic.Proofs.Inspect.evaluateImpl_immediate fuel line ts σ₁ rfl hcmd hnum htok]
  obtain ⟨kw, tl, hts⟩ := renderS_head (.letS x e)
  have hlti : lineToks σi = some ts := rfl
  have hidxi : ts[σi.loc.idx]? = some (.kw kw) := by
    show ts[0]? = _
    show (renderS (.letS x e))[0]? = _
    rw [hts]; rfl
  let σi' : St F := { σi with state := .running, reads := σi.reads + 1 }
  have hAti : At σi' [] (renderS (.letS x e) ++ []) := ⟨by rw [List.append_nil]; rfl, rfl⟩
  obtain ⟨k₁, _, h2⟩ := (let_refines_sub x e fuel σi' [] [] hAti hq hw htr hnest hfuel
    (fun t ht => by simp at ht)).1 v hv hm
  have hstep2 := runNextStatement_step fuel hlti hidxi h2
  let s2 : St F := { σi' with vars := alSet x v σi'.vars,
                              loc := { σi'.loc with idx := ([] : List (Token F)).length + (renderS (.letS x e)).length },
                              reads := k₁ }
  have htail2 : tailPart s2 = .ok () { ({ s2 with reads := s2.reads + 1 } : St F).setImmediate [] with state := .idle } := by
    refine tailPart_imm_end (ts := ts) rfl rfl ?_
    show ts[([] : List (Token F)).length + (renderS (.letS x e)).length]? = none
    simp [ts]
  let σ₂ : St F := { ({ s2 with reads := s2.reads + 1 } : St F).setImmediate [] with state := .idle }
  have hT2 : startEvaluating fuel line σ₁ = .ok () σ₂ := by
    rw [hstart]
    unfold postprocess
    rw [hstep2, htail2]
  -- turn 3: CONT
  have hbp2 : σ₂.bp = some (n, pre.length + 1) := rfl
  have hT3 := cont_command fuel "CONT".toList σ₂ n (pre.length + 1) rfl hbp2 cont_word
  let σ₃ : St F := { σ₂ with imm := [], loc := { line := some n, idx := pre.length + 1 }, bp := none }
  -- in place
  have hAt2 : At ({ σ with lines := L' } : St F) pre (renderS (.letS x e) ++ rest) :=
    ⟨by
      unfold lineToks
      show (match σ.loc.line with | none => _ | some n => L'.get n) = _
      rw [hloc, ← List.append_assoc]; exact hline', by show σ.loc.idx = _; rw [hloc]⟩
  obtain ⟨k₂, _, h3⟩ := (let_refines_sub x e fuel _ pre rest hAt2 hq hw htr hnest hfuel hrest).1 v hv hm
  refine ⟨σ₁, σ₂, σ₃, _, k₁ + 1, k₂, hT1, rfl, hT2, rfl, ?_, h3, ?_, ?_⟩
  · unfold startEvaluating postprocess
    rw [hT3]
  · simp [σ₃, σ₂, s2, σi', σi, σ₁, s1, σ0, St.setImmediate, himm, hbp]
  · simp [hloc]

/-- Non-vacuity of `assign_at_stop_gosub`: inside a subroutine and a FOR loop. -/
example : let σ : St Unit := { loc := { line := some 10, idx := 3 }, state := .running,
                               stack := [{ ret := { line := some 5, idx := 1 }, vars := [] }],
                               loops := [{ loc := { line := some 7, idx := 6 }, sym := ['I'], toV := (), stepV := () }] }
    σ.bp = none ∧ σ.imm = [] ∧ (∀ f ∈ σ.stack, f.vars = []) ∧ σ.stack ≠ [] ∧ σ.loops ≠ [] := by
  refine ⟨rfl, rfl, ?_, ?_, ?_⟩
  · intro f hf
    rcases List.mem_singleton.1 hf with rfl
    rfl
  · exact fun h => by cases h
  · exact fun h => by cases h

end assignSub

end Abasic.Props.C07
