import Abasic.Proofs.Stmt3TProg
import Abasic.Props.C03Input
/-
  C03 / C08 — the INPUT machine WITHOUT the hypothesis `BaseTurns`.

  Props/C03Input.lean proves the run theorems of the reference machine with
  INPUT (`hostTurns_refines`, `run3_input_refines`, `runI_start`) under the
  hypothesis `BaseTurns q fuel`: a turn with the cursor on a statement of
  Ref/Stmt3.lean is the reference step of that statement ALSO when other
  statements of the program (of the same line, too) are INPUTs.  Here that
  hypothesis is proved for every program (`baseTurns`), and the run theorems
  are restated without it (`hostTurns_refines'`, `run3_input_refines'`,
  `runI_start'`).

  Route taken: (B), RE-RUN.  The statement lemmas of Proofs/Stmt3Base … Stmt3Def
  look at the program only through the relations `Sync` / `Pos` / `Outcome3` /
  `Mem3`; Proofs/Stmt3TRel.lean redefines those for programs with INPUT
  statements (`ProgT`), and Proofs/Stmt3TLemmas … Stmt3TProg are the original
  files over the new definitions (no existing file is changed).  What INPUT
  contributes: its rendering holds no DATA token, begins with a token that is
  neither `:` nor ELSE, and has a fixed length — so DATA chunks, return
  addresses, loop addresses and the ELSE / colon tests behind a statement are
  what they are without it.  Two differences to `Mem3` of Stmt3Rel.lean are
  carried along: the output of the model is the PRINT records of the reference
  state in front of the log of the INPUT machine (`ProgT.base`), and no reply
  is pending (`Mem3.input`; no statement of Ref/Stmt3.lean touches it).
-/
set_option linter.unusedSectionVars false

namespace Abasic.Props.C03
open Abasic Abasic.Ref Abasic.ExprL Abasic.ExprL2 Abasic.StmtL Abasic.ProgL Abasic.Prog3L Abasic.Prog3I
open Abasic.InputL

variable {F : Type} [NumOps F]

/-! ### the relations of Stmt3TRel.lean against those of Stmt3Input.lean -/

/-- the program of the re-run development for the reference state `x`: `q`, and
    what was emitted before the last reply was taken (newest first) -/
def progOf (q : RProgramI F) (x : RStateI F) : Stmt3T.ProgT F := ⟨q, x.log.reverse⟩

theorem out_split (x : RStateI F) : x.output.reverse = outRecs x.st.out ++ x.log.reverse := by
  simp only [RStateI.output, outRecs, List.reverse_append]

theorem mem3_of_memI {q : RProgramI F} {x : RStateI F} {σ : St F} (h : MemI q x σ) :
    Stmt3T.Mem3 (progOf q x) x.st σ :=
  ⟨h.vars, h.arrays, h.rng, h.loops, h.stack, h.data, h.out.trans (out_split x), h.fns, h.fnLines, h.input⟩

/-- back: for ANY reference state `r'` in place of `x.st` (log and prompt flag of `x`) -/
theorem memI_of_mem3 {q : RProgramI F} {x : RStateI F} {r' : RState3 F} {σ : St F} (b : Bool)
    (h : Stmt3T.Mem3 (progOf q x) r' σ) : MemI q { x with st := r', prompted := b } σ :=
  ⟨h.vars, h.arrays, h.rng, h.loops, h.stack, h.data,
    h.out.trans (out_split { x with st := r', prompted := b }).symm, h.fns, h.fnLines, h.input⟩

theorem core3_of_coreI {q : RProgramI F} {x : RStateI F} {σ : St F} (h : CoreI q x σ) :
    Stmt3T.Core3 (progOf q x) x.st σ :=
  ⟨⟨h.env.lines, h.env.warnings, h.env.tracing⟩, mem3_of_memI h.mem, h.inv, h.nesting⟩

theorem coreI_of_core3 {q : RProgramI F} {x : RStateI F} {r' : RState3 F} {σ : St F} (b : Bool)
    (h : Stmt3T.Core3 (progOf q x) r' σ) : CoreI q { x with st := r', prompted := b } σ :=
  ⟨⟨h.env.lines, h.env.warnings, h.env.tracing⟩, memI_of_mem3 b h.mem, h.inv, h.nesting⟩

/-- the simulation relation of the re-run development is `Sync` (prompt flag off) -/
theorem sync_of_sim3 {q : RProgramI F} {x : RStateI F} {r' : RState3 F} {σ : St F}
    (h : Stmt3T.Sim3 (progOf q x) r' σ) : Sync q { x with st := r', prompted := false } σ := by
  unfold Stmt3T.Sim3 at h
  unfold Sync
  show match r'.pc with
    | none => FinalI { x with st := r', prompted := false } σ
    | some (n, j) => CoreI q { x with st := r', prompted := false } σ ∧
        (if false = true then AwaitI q n j σ else PosI q n j σ)
  cases hpc : r'.pc with
  | none =>
    rw [hpc] at h
    obtain ⟨h1, h2, h3, h4⟩ := h
    exact ⟨h1, h2, h3, h4.trans (out_split { x with st := r', prompted := false }).symm⟩
  | some nj =>
    obtain ⟨n, j⟩ := nj
    rw [hpc] at h
    exact ⟨coreI_of_core3 false h.1, h.2⟩

/-! ### `BaseTurns` -/

/-- **`BaseTurns` holds for every program that `FitsI`.**  A turn
    (`run_next_statement`) with the cursor on a statement of Ref/Stmt3.lean
    standing on a line of a program with INPUT statements — on the same line or
    elsewhere — is the reference step of that statement (`RStepI`): the model
    lands in `Sync` with the next reference state, or fails with the same
    error, nothing printed, located on the same line (or, for an error in the
    body of a user function, on the line of a definition). -/
theorem baseTurns (q : RProgramI F) (fuel : Nat) (hfit : FitsI q) : BaseTurns q fuel := by
  intro x σ n j ss s replies hok hc hp hpc hl hs hloc
  have hc3 := core3_of_coreI hc
  have hready : Stmt3T.SReady3 (progOf q x) x.st (mv { σ with state := .running } 0 (σ.reads + 1)) n j ss s fuel :=
    { wf := hfit.wf
      env := ⟨hc.env.lines, hc.env.warnings, hc.env.tracing⟩
      mem := hc3.mem.congr rfl rfl rfl rfl rfl rfl rfl rfl rfl
      inv := hc.inv
      nesting := hc.nesting
      line := hl
      stmt := hs
      locline := by show σ.loc.line = _; rw [hloc]
      idx := by show σ.loc.idx + 0 = _; rw [hloc]; rfl
      covered := hfit.covered (n, ss) (line_memI hl) s (List.mem_of_getElem? hs)
      bodies := hok.bodies
      resolved := (hok.stmt n j ss s hpc hl hs).1
      fuel := (hok.stmt n j ss s hpc hl hs).2.1
      nest := (hok.stmt n j ss s hpc hl hs).2.2 }
  have hS := Stmt3T.rns3_stmt (fuel := fuel) hfit.wf hc3 hpc hl hs hloc (Stmt3T.stmt3_run hready)
    (Stmt3L.exec3_inv (allDataI q) n j s x.st hc.inv)
  have hstep : RStepI q x replies =
      match RStepB q x.st n j s with
      | .inl r' => .inl ({ x with st := r' }, replies)
      | .inr e => .inr e := by
    simp only [RStepI, hpc, hl, hs]
    rfl
  rw [hstep]
  have hS' : Stmt3T.StepsTo3 (progOf q x) x.st (runNextStatement fuel σ) σ (RStepB q x.st n j s) := hS
  cases hb : RStepB q x.st n j s with
  | inl r' =>
    rw [hb] at hS'
    obtain ⟨σ', hσ', hsim⟩ := hS'
    refine ⟨σ', hσ', ?_⟩
    have := sync_of_sim3 hsim
    have hx : ({ x with st := r', prompted := false } : RStateI F) = { x with st := r' } := by
      cases x; simp only at hp; subst hp; rfl
    rw [hx] at this
    exact this
  | inr eln =>
    obtain ⟨e, ln⟩ := eln
    rw [hb] at hS'
    exact hS'

/-! ### the run theorems of C03Input.lean without the hypothesis -/

/-- **`k` host turns are at most `k` reference steps**, with the same replies
    consumed (`hostTurns_refines` without `BaseTurns`). -/
theorem hostTurns_refines' {q : RProgramI F} {fuel : Nat} (hfit : FitsI q)
    (k : Nat) (x : RStateI F) (rs : List Str) (σ : St F) (h : Sync q x σ) (hsafe : SafeRunI q fuel x rs) :
    ∃ n, n ≤ k ∧ RunMatchI q (hostTurns fuel k rs σ) (RStepsI q n x rs) :=
  hostTurns_refines hfit (baseTurns q fuel hfit) k x rs σ h hsafe

/-- **RUN is the first reference step** (`runI_start` without `BaseTurns`). -/
theorem runI_start' {q : RProgramI F} {fuel : Nat} (hfit : FitsI q) {σ : St F}
    (h : PReadyI q σ) (rs : List Str) (hok : StepOkI q fuel (q.start σ.rng)) :
    TurnStepI q (q.start σ.rng) (startEvaluating fuel "RUN".toList σ) (RStepI q (q.start σ.rng) rs) :=
  runI_start hfit (baseTurns q fuel hfit) h rs hok

/-- **Whole runs with INPUT** (`run3_input_refines` without `BaseTurns`).  RUN
    followed by `k` turns of the host loop with the replies `replies` does what
    `n` steps of the reference machine of Ref/Prog3Input.lean with the same
    replies do, for some `n` between 1 and `k + 1`: the final states are in
    `Sync` and the same replies are left; or both fail with the same error,
    after the same output, on the same line.  Hypotheses: the program is well
    formed and its `base` statements are `Covered` (`FitsI`), the state RUN is
    typed into holds the program (`PReadyI`), and the side conditions on names,
    fuel and nesting hold along the reference run (`SafeRunI`). -/
theorem run3_input_refines' {q : RProgramI F} {fuel : Nat} (hfit : FitsI q) {σ : St F}
    (h : PReadyI q σ) (replies : List Str) (hsafe : SafeRunI q fuel (q.start σ.rng) replies) (k : Nat) :
    ∃ n, 1 ≤ n ∧ n ≤ k + 1 ∧ RunMatchI q (runHost fuel replies k σ) (RStepsI q n (q.start σ.rng) replies) :=
  run3_input_refines hfit (baseTurns q fuel hfit) h replies hsafe k

/-! ### a sufficient condition on the program text for `SafeRunI` (`Static` of C03All.lean) -/

open Abasic.Stmt3L (Defines exec_fns)

/-- line `m` of the program has a statement that defines `name` as `d` -/
def DefAtI (q : RProgramI F) (m : Nat) (name : Str) (d : FnDefSpec F) : Prop :=
  ∃ ss s, q.line m = some ss ∧ RStmtI.base s ∈ ss ∧ Defines s name d

/-- every function of the table was defined by a DEF statement of the program -/
def FnsOfI (q : RProgramI F) (fns : List (Str × FnDefSpec F)) : Prop :=
  ∀ name d, alGet name fns = some d → ∃ m, DefAtI q m name d

/-- For every function table made of definitions that occur in the program: the
    bodies and all `base` statements of the program use names consistently with
    it, and all `base` statements fit the fuel and the nesting cap. -/
structure StaticI (q : RProgramI F) (fuel : Nat) : Prop where
  ok : ∀ fns : List (Str × FnDefSpec F), FnsOfI q fns →
    (∀ name d, alGet name fns = some d → Resolved fns d.body) ∧
    ∀ l ∈ q, ∀ s, RStmtI.base s ∈ l.2 → ResolvedS fns s ∧ sdepth3 fns s ≤ fuel ∧ sdepth3 fns s ≤ Extracted.nestingLimit

theorem stepB_fns {q : RProgramI F} {r r' : RState3 F} {n j : Nat} {s : RStmt3 F}
    (h : RStepB q r n j s = .inl r') : r'.fns = (s.exec (allDataI q) n j r).1.fns := by
  unfold RStepB at h
  generalize RStmt3.exec (allDataI q) n j r s = ex at h
  obtain ⟨r1, ctl⟩ := ex
  cases ctl with
  | next => cases h; rfl
  | skipLine => cases h; rfl
  | jump m =>
    simp only at h
    split at h
    · cases h; rfl
    · cases h
  | stop => cases h; rfl
  | resume a b => cases h; rfl
  | error e => cases h
  | errorAt e ln => cases h

theorem fnsOfI_step {q : RProgramI F} {x x' : RStateI F} {rs rs' : List Str} (h : FnsOfI q x.st.fns)
    (hs : RStepI q x rs = .inl (x', rs')) : FnsOfI q x'.st.fns := by
  unfold RStepI at hs
  cases hpc : x.st.pc with
  | none =>
    rw [hpc] at hs
    simp only [Sum.inl.injEq, Prod.mk.injEq] at hs
    rw [← hs.1]; exact h
  | some nj =>
    obtain ⟨n, j⟩ := nj
    rw [hpc] at hs
    simp only at hs
    cases hl : q.line n with
    | none =>
      rw [hl] at hs
      simp only [Sum.inl.injEq, Prod.mk.injEq] at hs
      rw [← hs.1]; exact h
    | some ss =>
      rw [hl] at hs
      simp only at hs
      cases hsj : ss[j]? with
      | none =>
        rw [hsj] at hs
        simp only [Sum.inl.injEq, Prod.mk.injEq] at hs
        rw [← hs.1]; exact h
      | some s0 =>
        rw [hsj] at hs
        cases s0 with
        | base s =>
          simp only at hs
          cases hb : RStepB q x.st n j s with
          | inr e => rw [hb] at hs; cases hs
          | inl r' =>
            rw [hb] at hs
            simp only [Sum.inl.injEq, Prod.mk.injEq] at hs
            rw [← hs.1]
            show FnsOfI q r'.fns
            rw [stepB_fns hb]
            intro name d hd
            rcases (exec_fns (allDataI q) n j s x.st).1 name d hd with h' | h'
            · exact h name d h'
            · exact ⟨n, ss, s, hl, List.mem_of_getElem? hsj, h'⟩
        | input t =>
          simp only at hs
          by_cases hp : x.prompted = false
          · rw [if_pos hp] at hs
            simp only [Sum.inl.injEq, Prod.mk.injEq] at hs
            rw [← hs.1]; exact h
          · rw [if_neg hp] at hs
            cases rs with
            | nil =>
              simp only [Sum.inl.injEq, Prod.mk.injEq] at hs
              rw [← hs.1]; exact h
            | cons text rest =>
              simp only at hs
              cases hr : readReply (F := F) t.name text with
              | accept v extra =>
                rw [hr] at hs
                simp only [Sum.inl.injEq, Prod.mk.injEq] at hs
                rw [← hs.1]; exact h
              | reenter =>
                rw [hr] at hs
                simp only [Sum.inl.injEq, Prod.mk.injEq] at hs
                rw [← hs.1]; exact h

theorem fnsOfI_steps {q : RProgramI F} : ∀ (m : Nat) (x x' : RStateI F) (rs rs' : List Str), FnsOfI q x.st.fns →
    RStepsI q m x rs = .inl (x', rs') → FnsOfI q x'.st.fns
  | 0, x, x', rs, rs', h, hs => by
    simp only [RStepsI, Sum.inl.injEq, Prod.mk.injEq] at hs
    rw [← hs.1]; exact h
  | m + 1, x, x', rs, rs', h, hs => by
    rw [RStepsI] at hs
    cases hst : RStepI q x rs with
    | inl xr =>
      obtain ⟨x1, rs1⟩ := xr
      rw [hst] at hs
      exact fnsOfI_steps m x1 x' rs1 rs' (fnsOfI_step h hst) hs
    | inr e =>
      rw [hst] at hs
      obtain ⟨e, n⟩ := e
      cases hs

theorem stepOkI_of_static {q : RProgramI F} {fuel : Nat} (h : StaticI q fuel) {x : RStateI F}
    (ht : FnsOfI q x.st.fns) : StepOkI q fuel x := by
  obtain ⟨h1, h2⟩ := h.ok x.st.fns ht
  exact ⟨h1, fun n j ss s _ hl hs => h2 (n, ss) (line_memI hl) s (List.mem_of_getElem? hs)⟩

/-- **The side conditions along the run follow from `StaticI`**, whatever the replies. -/
theorem safeRunI_of_static {q : RProgramI F} {fuel : Nat} (h : StaticI q fuel) (g : Nat) (rs : List Str) :
    SafeRunI q fuel (q.start g) rs :=
  fun m x' rs' hm => stepOkI_of_static h (fnsOfI_steps m _ x' rs rs' (fun name d hd => by cases hd) hm)

/-- **Whole runs with INPUT, static hypotheses only.**  For a program that is
    well formed, whose `base` statements are covered (`FitsI`) and use names,
    fuel and nesting consistently (`StaticI`): RUN and `k` turns of the host
    loop with ANY replies do what between 1 and `k + 1` steps of the reference
    machine with INPUT do with the same replies. -/
theorem run3_input_refines_static {q : RProgramI F} {fuel : Nat} (hfit : FitsI q) (hst : StaticI q fuel) {σ : St F}
    (h : PReadyI q σ) (replies : List Str) (k : Nat) :
    ∃ n, 1 ≤ n ∧ n ≤ k + 1 ∧ RunMatchI q (runHost fuel replies k σ) (RStepsI q n (q.start σ.rng) replies) :=
  run3_input_refines' hfit h replies (safeRunI_of_static hst σ.rng replies) k

/-! ### non-vacuity: `DemoI.prog` of C03Input.lean — PRINT and INPUT on the same line

  ```
  10 PRINT "A"; : INPUT X$ : PRINT X$;
  20 INPUT N : PRINT "B";
  ``` -/

namespace DemoI

theorem prog_fits : FitsI prog where
  wf := ⟨by decide, by intro l hl; simp [prog] at hl; rcases hl with rfl | rfl <;> simp⟩
  covered := by
    intro l hl s hs
    simp [prog] at hl
    rcases hl with rfl | rfl
    · simp at hs
      rcases hs with rfl | rfl <;> exact ⟨rfl, by simp [RStmt3.CoveredB, separated3]⟩
    · simp at hs
      subst hs
      exact ⟨rfl, by simp [RStmt3.CoveredB, separated3]⟩

/-- the program has no DEF: every table made of its definitions is empty -/
theorem prog_nofns {fns : List (Str × FnDefSpec Unit)} (h : FnsOfI prog fns) (name : Str) : alGet name fns = none := by
  cases hg : alGet name fns with
  | none => rfl
  | some d =>
    obtain ⟨m, ss, s, hl, hs, hd⟩ := h name d hg
    have hmem := line_memI hl
    simp [prog] at hmem
    rcases hmem with ⟨_, rfl⟩ | ⟨_, rfl⟩
    · simp at hs
      rcases hs with rfl | rfl <;> exact hd.elim
    · simp at hs
      subst hs
      exact hd.elim

theorem prog_static : StaticI prog defaultFuel where
  ok := by
    intro fns hf
    refine ⟨fun name d hg => ?_, fun l hl s hs => ?_⟩
    · rw [prog_nofns hf name] at hg; cases hg
    · simp [prog] at hl
      rcases hl with rfl | rfl
      · simp at hs
        rcases hs with rfl | rfl
        · refine ⟨by simp [ResolvedS, ResolvedItems, Resolved], ?_, ?_⟩ <;>
            simp [sdepth3, itemsDepth3, edepth, depth2, defaultFuel, Extracted.nestingLimit]
        · refine ⟨by simp [ResolvedS, ResolvedItems, Resolved], ?_, ?_⟩ <;>
            simp [sdepth3, itemsDepth3, edepth, depth2, defaultFuel, Extracted.nestingLimit]
      · simp at hs
        subst hs
        refine ⟨by simp [ResolvedS, ResolvedItems, Resolved], ?_, ?_⟩ <;>
          simp [sdepth3, itemsDepth3, edepth, depth2, defaultFuel, Extracted.nestingLimit]

theorem prog_ready : PReadyI prog ({ lines := compilePI prog } : St Unit) :=
  ⟨rfl, holds_compileI prog, rfl, rfl, rfl, rfl, by show (0 : Nat) < Extracted.rngModulus; decide⟩

/-- By the theorems, no assumption left: the run of `model_run` (C03Input.lean)
    — RUN and 12 host turns with the replies `HI, THERE`, `X`, `1` on a program
    that has PRINT statements in front of and behind an INPUT on the same line
    — is a run of the reference machine with INPUT with the same replies. -/
example : ∃ n, 1 ≤ n ∧ n ≤ 13 ∧
    RunMatchI prog (runHost defaultFuel replies 12 ({ lines := compilePI prog } : St Unit))
      (RStepsI prog n (prog.start 0) replies) :=
  run3_input_refines_static prog_fits prog_static prog_ready replies 12

end DemoI

end Abasic.Props.C03
