import Abasic.Props.C03All
import Abasic.Proofs.ExprFrame
/-
  C03 (leftover b) — the exact line of an error raised inside a function body.

  `run3_fails` states the line of such an error as "the statement's line or the
  line of a DEF".  READ OFF THE CODE (`userFunctionCall`, Expr.lean; the call
  proper is `callBody`, Proofs/ExprFrame.lean): the call moves the cursor to the
  definition (`pushFunctionCall`: line and token index stored by DEF), evaluates
  the body there, and when the body fails it LOCATES the error before it pops
  the frame (`populate`):
    * an error that has no location yet — raised by a primitive while THIS body
      was being evaluated — gets the location just before the cursor, which
      stands on the line of the DEF of this function (the body of a function is
      an expression, and expression evaluation never leaves the line: `RX`);
    * an error that already has a location — it was located by a call made
      further in — is passed on unchanged.
  Every error that leaves a body is located (`body_error_located`), so "has no
  location yet" is exactly "no inner call was being evaluated".  Hence the line
  reported is the line of the DEF of the INNERMOST function whose body was being
  evaluated when the primitive failed:

  `fn_error_line_depth1`   — one call whose body fails by itself,
  `fn_error_line_passes`   — a call whose body fails inside an inner call,
  `fn_error_line_exact`    — nested calls, by induction on the depth of the chain
                             (`Blames`),
  `fn_error_line_host`     — the host call reports that location unchanged,
  `nested_body_error_line` — by computation: three lines, the error two calls deep.
-/
set_option linter.unusedSectionVars false

namespace Abasic.Props.C03
open Abasic Abasic.Hoare Abasic.Proofs.XF M

variable {F : Type} [NumOps F]

/-- the state in which the body of the function defined at `d` starts: the frame
    pushed (return address, arguments), the cursor on the definition -/
def bodyStart (σ : St F) (d : FnDef) (b : List (Str × Value F)) : St F :=
  { σ with stack := { ret := σ.loc, vars := b } :: σ.stack, loc := { line := some d.line, idx := d.idx } }

/-- the state a failed call leaves: the body's final state with the frame popped
    and the cursor back at the call -/
def afterCall (σ s : St F) : St F := { s with stack := σ.stack, loc := σ.loc }

omit [NumOps F] in
/-- an error that has a location keeps it -/
theorem populate_located (s : St F) (e : TErr) (h : e.loc.isSome = true) : s.populate e = e := by
  unfold St.populate
  rw [if_pos h]

omit [NumOps F] in
/-- an error without location (other than DATA TYPE MISMATCH, which no expression
    raises) is located just before the cursor -/
theorem populate_fresh (s : St F) (e : TErr) (h : e.loc = none) (hnd : e.err ≠ .dataTypeMismatch) :
    s.populate e = { err := e.err, loc := some { line := s.loc.line, idx := s.loc.idx - 1 } } := by
  obtain ⟨err, loc⟩ := e
  simp only at h hnd
  subst h
  exact ProgL.populate_nd s hnd

omit [NumOps F] in
/-- **every error that leaves a function body is located** (DATA TYPE MISMATCH
    apart, which is located by the DATA cursor) -/
theorem body_error_located (s : St F) (e : TErr) :
    (s.populate e).loc.isSome = true ∨ e.err = .dataTypeMismatch := by
  by_cases h : e.loc.isSome = true
  · rw [populate_located s e h]; exact Or.inl h
  · by_cases hnd : e.err = .dataTypeMismatch
    · exact Or.inr hnd
    · have h0 : e.loc = none := by
        cases hl : e.loc with
        | none => rfl
        | some l => rw [hl] at h; exact absurd rfl h
      rw [populate_fresh s e h0 hnd]
      exact Or.inl rfl

/-- the call proper when the body fails: the error is located in the body's
    final state, the frame is popped, the cursor put back -/
theorem callBody_body_fails (ev : Evals F) (he : Respects RX ev.expr) (name : Str) (b : List (Str × Value F))
    (σ : St F) (d : FnDef) (e : TErr) (s : St F)
    (hcap : σ.stack.length ≠ Extracted.stackLimit) (hd : alGet name σ.fns = some d)
    (hb : ev.expr (bodyStart σ d b) = .err e s) :
    callBody ev name b σ = .err (s.populate e) (afterCall σ s) ∧ s.loc.line = some d.line := by
  have hx := he.final (bodyStart σ d b)
  rw [hb] at hx
  have hs : s.stack = { ret := σ.loc, vars := b } :: σ.stack := hx.stack
  have hl : s.loc.line = some d.line := hx.line
  refine ⟨?_, hl⟩
  have hc : ¬ ((σ.stack.length == Extracted.stackLimit) = true) := by simpa using hcap
  rw [callBody_eq, if_neg hc, hd]
  dsimp only
  have hb' : ev.expr { σ with stack := { ret := σ.loc, vars := b } :: σ.stack,
                              loc := { line := some d.line, idx := d.idx } } = .err e s := hb
  rw [hb']
  dsimp only
  rw [hs]
  rfl

/-- **fn_error_line_depth1.**  A call of the function `name`, defined by the DEF
    on line `d.line`, whose body fails by itself — the error `e` comes out of the
    body's evaluation without a location, i.e. no inner call had located it —
    reports the error on line `d.line`, the line of that DEF (token index: just
    before the cursor at the moment of the failure), whatever line the call
    stands on. -/
theorem fn_error_line_depth1 (ev : Evals F) (he : Respects RX ev.expr) (name : Str) (b : List (Str × Value F))
    (σ : St F) (d : FnDef) (e : TErr) (s : St F)
    (hcap : σ.stack.length ≠ Extracted.stackLimit) (hd : alGet name σ.fns = some d)
    (hb : ev.expr (bodyStart σ d b) = .err e s) (hfresh : e.loc = none) (hnd : e.err ≠ .dataTypeMismatch) :
    callBody ev name b σ =
      .err { err := e.err, loc := some { line := some d.line, idx := s.loc.idx - 1 } } (afterCall σ s) := by
  obtain ⟨h1, h2⟩ := callBody_body_fails ev he name b σ d e s hcap hd hb
  rw [h1, populate_fresh s e hfresh hnd, h2]

/-- **fn_error_line_passes.**  A call whose body fails with an error that is
    already located — by a call made further in — reports it unchanged: the
    attribution of the innermost call wins. -/
theorem fn_error_line_passes (ev : Evals F) (he : Respects RX ev.expr) (name : Str) (b : List (Str × Value F))
    (σ : St F) (d : FnDef) (e : TErr) (s : St F)
    (hcap : σ.stack.length ≠ Extracted.stackLimit) (hd : alGet name σ.fns = some d)
    (hb : ev.expr (bodyStart σ d b) = .err e s) (hloc : e.loc.isSome = true) :
    callBody ev name b σ = .err e (afterCall σ s) := by
  obtain ⟨h1, _⟩ := callBody_body_fails ev he name b σ d e s hcap hd hb
  rw [h1, populate_located s e hloc]

/-! ### nested calls -/

/-- `Blames n σ name b te fi di`: the call of `name` (arguments bound as `b`) in
    state `σ`, at fuel `n`, reports the error `te`, and the primitive that failed
    was evaluated in the body of the function `fi`, defined at `di` — the
    INNERMOST function whose body was being evaluated at that moment.
    `own`: the body of `name` failed by itself (no location yet, so no inner call
    was involved: `body_error_located`).  `inner`: the body of `name` failed with
    the very error an inner call (of `namei`, in some state `σi`, with less fuel)
    reported, which in turn blames `fi`. -/
inductive Blames : Nat → St F → Str → List (Str × Value F) → TErr → Str → FnDef → Prop
  | own (n : Nat) (σ : St F) (name : Str) (b : List (Str × Value F)) (d : FnDef) (e : TErr) (s : St F) :
      σ.stack.length ≠ Extracted.stackLimit → alGet name σ.fns = some d →
      (evalN n).expr (bodyStart σ d b) = .err e s → e.loc = none → e.err ≠ .dataTypeMismatch →
      Blames n σ name b (s.populate e) name d
  | inner (n m : Nat) (σ σi : St F) (name namei fi : Str) (b bi : List (Str × Value F)) (d di : FnDef)
      (e : TErr) (s : St F) :
      m < n → σ.stack.length ≠ Extracted.stackLimit → alGet name σ.fns = some d →
      (evalN n).expr (bodyStart σ d b) = .err e s → Blames m σi namei bi e fi di →
      Blames n σ name b e fi di

/-- **fn_error_line_exact.**  By induction on the depth of the chain of calls:
    the outermost call reports the error on the line of the DEF of the innermost
    function whose body was being evaluated when the primitive failed (and that
    function was defined by that DEF when it was called). -/
theorem fn_error_line_exact {n : Nat} {σ : St F} {name : Str} {b : List (Str × Value F)} {te : TErr}
    {fi : Str} {di : FnDef} (h : Blames n σ name b te fi di) :
    (∃ s, callBody (evalN n) name b σ = .err te (afterCall σ s)) ∧
    (∃ i, te.loc = some { line := some di.line, idx := i }) ∧
    (∃ σi : St F, alGet fi σi.fns = some di) := by
  induction h with
  | own n σ name b d e s hcap hd hb hfresh hnd =>
    have h1 := fn_error_line_depth1 (evalN n) (rx_evalN_expr n) name b σ d e s hcap hd hb hfresh hnd
    have h2 := callBody_body_fails (evalN n) (rx_evalN_expr n) name b σ d e s hcap hd hb
    refine ⟨⟨s, h2.1⟩, ⟨s.loc.idx - 1, ?_⟩, ⟨σ, hd⟩⟩
    rw [populate_fresh s e hfresh hnd, h2.2]
  | inner n m σ σi name namei fi b bi d di e s _ hcap hd hb _ ih =>
    obtain ⟨_, ⟨i, hi⟩, hdef⟩ := ih
    have hloc : e.loc.isSome = true := by rw [hi]; rfl
    exact ⟨⟨s, fn_error_line_passes (evalN n) (rx_evalN_expr n) name b σ d e s hcap hd hb hloc⟩, ⟨i, hi⟩, hdef⟩

omit [NumOps F] in
/-- **fn_error_line_host.**  The host call (`postprocess`) locates only errors
    that have no location: the location given inside the function body is what
    the caller of `start_evaluating` / `continue_evaluating` sees. -/
theorem fn_error_line_host {α : Type} (m : M F α) (σ s : St F) (te : TErr) (h : m σ = .err te s)
    (hloc : te.loc.isSome = true) : postprocess m σ = .err te { s with state := .idle } := by
  unfold postprocess
  rw [h]
  dsimp only
  rw [populate_located s te hloc]

/-! ### by computation: an error two calls deep -/

namespace Demo3

def fnc : Str := ['F', 'N', 'C']

/-- ```
    0 DEF FNB(X) = X + "A"
    10 DEF FNC(X) = FNB(X)
    20 PRINT FNC(0)
    ``` -/
def nestedLines : Lines Unit :=
  { map := [ (0, [.kw .Def, .symbol fnb, .kw .LeftParen, .symbol ['X'], .kw .RightParen, .kw .Equals, .symbol ['X'],
                  .kw .Plus, .str ['A']]),
             (10, [.kw .Def, .symbol fnc, .kw .LeftParen, .symbol ['X'], .kw .RightParen, .kw .Equals,
                   .symbol fnb, .kw .LeftParen, .symbol ['X'], .kw .RightParen]),
             (20, [.kw .Print, .symbol fnc, .kw .LeftParen, .num (), .kw .RightParen]) ],
    sorted := [0, 10, 20] }

/-- TYPE MISMATCH raised in the body of FNB, called from the body of FNC, called
    from line 20: reported on line 0 — the DEF of FNB, the innermost function —
    not on line 10 (the DEF of FNC) and not on line 20 (the statement). -/
theorem nested_body_error_line :
    errOf3 (runTurns defaultFuel 2 ({ lines := nestedLines } : St Unit)) =
      some { err := .typeMismatch, loc := some { line := some 0, idx := 8 } } := by
  decide +kernel

end Demo3

#print axioms fn_error_line_exact
#print axioms fn_error_line_depth1

end Abasic.Props.C03
