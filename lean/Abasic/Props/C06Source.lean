import Abasic.Analyzer
import Abasic.Props.C02Source
/-
  C06 — the analyzer is a fork of the evaluator: both forks have, in the Rust
  source as it is NOW, the same operator tiers in the same order and dispatch
  statements on the same tokens; and the model's two walkers use exactly those.

  `Extracted.anaChain`, `anaUnary`, `evalStmtKws`, `anaStmtKws` … are regenerated
  on every run by tools/extract.py from expression.rs, expression_analyzer.rs,
  statement.rs and statement_analyzer.rs.  A statement or operator added to one
  fork only stops these theorems from checking.
-/
namespace Abasic.Props.C06
open Abasic

variable {F : Type} [NumOps F]

/-- the two forks have the same binary tiers, in the same order, and the same unary operators -/
theorem source_same_tiers : Extracted.anaChain = Extracted.evalChain ∧ Extracted.anaUnary = Extracted.evalUnary := by
  decide

/-- the two forks dispatch statements on the same tokens -/
theorem source_same_dispatch :
    (∀ k, k ∈ Extracted.evalStmtKws ↔ k ∈ Extracted.anaStmtKws) ∧ Extracted.evalStmtOther = Extracted.anaStmtOther := by
  refine ⟨fun k => ?_, by decide⟩
  cases k <;> decide

/-- the model's analyzer nests the same tiers as the model's evaluator (and hence, by
    `C02.tiers_from_source`, as the source) -/
theorem model_analyzer_tiers (ev : AEvals F) :
    aOrExpr ev =
      aLevel (aLevel (aLevel (aLevel (aLevel (aLevel (aUnary ev) powOps .arith) mulOps .arith) addOps .arith) cmpOps .cmp) andOps .logic) orOps .logic :=
  rfl

/-- a keyword the source's dispatcher does not list is a syntax error in the model's evaluator … -/
theorem dispatch_unknown_kw (ev : Evals F) (k : Kw) (hk : k ∉ Extracted.evalStmtKws) (σ σ' : St F)
    (h : next σ = .ok (some (.kw k)) σ') :
    dispatch ev σ = .err { err := .syntax .unexpectedToken } σ' := by
  unfold dispatch
  simp only [bind, M.bindM, h]
  cases k <;> first | (exact absurd (by decide) hk) | rfl

/-- … and in the model's analyzer -/
theorem aStmt_unknown_kw (ev : AEvals F) (k : Kw) (hk : k ∉ Extracted.anaStmtKws) (σ σ' : St F)
    (h : next σ = .ok (some (.kw k)) σ') :
    aStmtBody ev σ = .err { err := .syntax .unexpectedToken } σ' := by
  unfold aStmtBody
  simp only [bind, M.bindM, h]
  cases k <;> first | (exact absurd (by decide) hk) | rfl

/-- payload tokens: string and numeric literals never start a statement in either walker -/
theorem dispatch_literal (ev : Evals F) (aev : AEvals F) (σ σ' : St F) (t : Token F)
    (ht : (∃ s, t = .str s) ∨ (∃ x, t = .num x)) (h : next σ = .ok (some t) σ') :
    dispatch ev σ = .err { err := .syntax .unexpectedToken } σ' ∧
    aStmtBody aev σ = .err { err := .syntax .unexpectedToken } σ' := by
  rcases ht with ⟨s, rfl⟩ | ⟨x, rfl⟩ <;> (constructor <;> (first | unfold dispatch | unfold aStmtBody) <;> simp only [bind, M.bindM, h] <;> rfl)

end Abasic.Props.C06
