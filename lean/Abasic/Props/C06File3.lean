import Abasic.Proofs.Analyzer3
import Abasic.Props.C06Loops
/-
  C06 for the unified machine (`RProgram3`: every statement kind, expressions of
  the full language, DEF FN): from the analyzer's verdict on a source file to the
  static check `typeOfP3`, and on to the run-time theorem `sound_program3`.

  1. `astmt3_run` (Abasic/Proofs/Analyzer3.lean) — the analyzer's statement pass on the
     rendering of one covered statement.
  2. `walk_stmt3` / `walk_tail3` / `walk_line3` / `walk_lines3` / `analyze_program3` — the
     statement pass over all lines, in line order: exactly one located error
     diagnostic per line that has a static error w.r.t. the signatures THE ANALYZER
     has accumulated when it reaches the line (`lineErrs3`: after a line that
     failed, these are the signatures of `sigWalkStmts`, not those of `sigAt` — the
     rest of a failing line is not analysed, a DEF with a rejected body has been
     recorded).  `analyzer_silent_iff3`: no new message ⇔ `typeOfP3 p = .ok ()`.
  3. `sound_analyzed_file3` — a `GoodFile` text of `p` without error diagnostic: `p`
     passes `typeOfP3`, and under `Fits3`, `SafeRun`, `DefsAgree` no run fails with
     a syntax error, TYPE MISMATCH or UNDEF'D STATEMENT.
  4. `DefsFirst`, `defsAgree_of_defsFirst` — a static sufficient condition for
     `DefsAgree`; a checked example.

  The analyzer's own side conditions (`AFits3`): every statement is covered, fits the
  analyzer's fuel and the nesting cap with its ANALYZER depth (`asdepth`: function
  bodies are not entered) and uses names consistently with the signatures the
  analyzer holds when it reaches it (`ResolvedS2`).
-/
set_option linter.unusedSectionVars false

namespace Abasic.Props.C06
open Abasic Abasic.Ref Abasic.ExprL Abasic.ExprL2 Abasic.AnaL Abasic.StmtL Abasic.AnaS Abasic.ProgL Abasic.ProgT
open Abasic.Prog3L M Abasic.AInv

variable {F : Type} [NumOps F]


/-! ### 1'. accepted ⇔ typed, for one covered statement -/

/-- **`analyzer_accepts_iff_typed3`.**  Let the cursor of `σ` stand on the numbered line `ln`, at the rendering
    of the covered statement `s` followed by the end of the line or a colon, with `asdepth s` levels of room
    in the fuel and under the nesting cap, names used consistently with the signatures of `σ`.  Then the
    analyzer reports no error on the statement iff the statement is typed (`Typed3`) w.r.t. the signatures
    of `σ` and the stored lines. -/
theorem analyzer_accepts_iff_typed3 (s : RStmt3 F) (n ln : Nat) (σ : St F) (pre rest : List (Token F))
    (hAt : At σ pre (renderS3 s ++ rest)) (hl : σ.loc.line = some ln) (hd : asdepth s ≤ n)
    (hn : σ.nesting + asdepth s ≤ Extracted.nestingLimit) (hcov : s.Covered) (hE : LineEnd rest)
    (hres : ResolvedS2 (sigOf σ.fns) s) :
    (∃ σ', aStmtBody (aEvalN n) σ = .ok () σ') ↔ Typed3 (sigOf σ.fns) σ.lines.has s := by
  have hA := astmt3_run s n ln σ.lines.has hd hcov.1 hcov.2 (sigOf σ.fns) σ pre rest hAt hl rfl rfl hn
    (Or.inl hE) hres
  rw [typeOfS3A_covered _ s _ hcov.2] at hA
  rw [← typeOfS3_ok_iff]
  cases hty : typeOfS3 (sigOf σ.fns) σ.lines.has s with
  | ok u =>
    rw [hty] at hA
    obtain ⟨σ', hσ', _⟩ := hA
    exact ⟨fun _ => rfl, fun _ => ⟨σ', hσ'⟩⟩
  | error x =>
    rw [hty] at hA
    obtain ⟨σ', hσ', _⟩ := hA
    constructor
    · rintro ⟨σ'', hσ''⟩; rw [hσ'] at hσ''; cases hσ''
    · intro h; cases h

/-- … and a statement that is not typed is reported with one of the three static errors -/
theorem analyzer_rejects_untyped3 (s : RStmt3 F) (n ln : Nat) (σ : St F) (pre rest : List (Token F))
    (hAt : At σ pre (renderS3 s ++ rest)) (hl : σ.loc.line = some ln) (hd : asdepth s ≤ n)
    (hn : σ.nesting + asdepth s ≤ Extracted.nestingLimit) (hcov : s.Covered) (hE : LineEnd rest)
    (hres : ResolvedS2 (sigOf σ.fns) s) (hty : ¬ Typed3 (sigOf σ.fns) σ.lines.has s) :
    ∃ x σ', aStmtBody (aEvalN n) σ = .err { err := x } σ' ∧
      (x = .typeMismatch ∨ (∃ se, x = .syntax se) ∨ x = .undefinedStatement) := by
  have hA := astmt3_run s n ln σ.lines.has hd hcov.1 hcov.2 (sigOf σ.fns) σ pre rest hAt hl rfl rfl hn
    (Or.inl hE) hres
  rw [typeOfS3A_covered _ s _ hcov.2] at hA
  cases h : typeOfS3 (sigOf σ.fns) σ.lines.has s with
  | ok u => exact absurd ((typeOfS3_ok_iff _ _ s).1 h) hty
  | error x =>
    rw [h] at hA
    obtain ⟨σ', hσ', _⟩ := hA
    exact ⟨x, σ', hσ', typeOfS3_error _ _ s x h⟩

/-! ### 2a. the signatures the analyzer accumulates -/

/-- the signatures after the analyzer has walked the statements of a line: it stops at the first error -/
def sigWalkStmts (le : Nat → Bool) : Sig → List (RStmt3 F) → Sig
  | sig, [] => sig
  | sig, s :: rest =>
    match typeOfS3 sig le s with
    | .ok _ => sigWalkStmts le (sigAfterS sig s) rest
    | .error _ => sigFailS le sig s

theorem sigWalkStmts_ok (le : Nat → Bool) (ln : Nat) : ∀ (ss : List (RStmt3 F)) (sig : Sig),
    typeOfStmts3 le ln sig ss = .ok () → sigWalkStmts le sig ss = sigAfterStmts sig ss
  | [], _, _ => rfl
  | s :: rest, sig, h => by
    simp only [typeOfStmts3] at h
    cases hs : typeOfS3 sig le s with
    | error x => rw [hs] at h; cases h
    | ok u =>
      rw [hs] at h
      simp only [sigWalkStmts, hs, sigAfterStmts]
      exact sigWalkStmts_ok le ln rest _ h

/-- what the analyzer needs of the statements of a line it reaches with the signatures `sig` -/
def StmtsFit3 (fa : Nat) : Sig → List (RStmt3 F) → Prop
  | _, [] => True
  | sig, s :: rest =>
    s.Covered ∧ asdepth s ≤ fa ∧ asdepth s ≤ Extracted.nestingLimit ∧ ResolvedS2 sig s ∧
      StmtsFit3 fa (sigAfterS sig s) rest

def LinesFit3 (fa : Nat) (le : Nat → Bool) : Sig → RProgram3 F → Prop
  | _, [] => True
  | sig, l :: rest => StmtsFit3 fa sig l.2 ∧ LinesFit3 fa le (sigWalkStmts le sig l.2) rest

/-- **The analyzer's side conditions** on a program: well formed; every statement covered, within the
    analyzer's fuel `fa` and the nesting cap (analyzer depth), names used consistently with the signatures
    the analyzer holds when it reaches the statement. -/
structure AFits3 (p : RProgram3 F) (fa : Nat) : Prop where
  wf : p.WF
  lines : LinesFit3 fa p.hasLine (fun _ => none) p

/-- the first static error of each line, in program order, each line checked w.r.t. the signatures the
    analyzer has accumulated when it reaches it -/
def lineErrs3 (le : Nat → Bool) : Sig → RProgram3 F → List (Err × Nat)
  | _, [] => []
  | sig, l :: rest =>
    match typeOfStmts3 le l.1 sig l.2 with
    | .ok _ => lineErrs3 le (sigWalkStmts le sig l.2) rest
    | .error x => x :: lineErrs3 le (sigWalkStmts le sig l.2) rest

theorem lineErrs3_nil_iff (le : Nat → Bool) : ∀ (p : RProgram3 F) (sig : Sig),
    lineErrs3 le sig p = [] ↔ typeOfLines3 le sig p = .ok ()
  | [], _ => by simp [lineErrs3, typeOfLines3]
  | l :: rest, sig => by
    cases hs : typeOfStmts3 le l.1 sig l.2 with
    | ok u =>
      simp only [lineErrs3, typeOfLines3, hs, sigWalkStmts_ok le l.1 l.2 sig hs]
      exact lineErrs3_nil_iff le rest _
    | error x => simp [lineErrs3, typeOfLines3, hs]

/-! ### 2b. one line -/

/-- `LineOut` (Abasic/Props/C06Prog.lean), and the signatures of the state the pass leaves -/
def LineOut3 (L : Lines F) (n : Nat) (a a' : Analysis F) (v : Except (Err × Nat) Unit) (sig' : Sig) : Prop :=
  LineOut L n a a' v ∧ sigOf a'.st.fns = sig'

theorem lineEnd_tail3 (rest : List (RStmt3 F)) : LineEnd (renderTail3 rest) := by
  cases rest with
  | nil => intro t ht; cases ht
  | cons s rest =>
    intro t ht
    simp only [renderTail3, List.head?_cons, Option.some.injEq] at ht
    exact ht.symm

/-- a statement the analyzer rejects with a static error (TYPE MISMATCH, a syntax error, UNDEF'D
    STATEMENT): one diagnostic, and the rest of the line is NOT analysed -/
theorem aS_err3 (fuel k : Nat) (a : Analysis F) {st st' : St F} {x : Err} {f u v : Nat}
    (h : hasNext a.st = .ok true st)
    (h2 : aStmtBody (aEvalN fuel) st = .err { err := x } st')
    (hx : x = .typeMismatch ∨ (∃ se, x = .syntax se) ∨ x = .undefinedStatement)
    (hmap : a.map.mapLoc st'.prevLoc = some (f, u, v)) :
    analyzeStatements fuel (k + 1) a =
      { a with st := st', messages := a.messages ++ [.error f { err := x, loc := some st'.prevLoc }] } := by
  rw [analyzeStatements]
  simp only [h, h2]
  rcases hx with rfl | ⟨se, rfl⟩ | rfl
  · rw [populate_nd st' (by simp)]
    simp only [Option.bind_some, hmap]
  · rw [populate_nd st' (by simp)]
    simp only [Option.bind_some, hmap]
  · rw [populate_nd st' (by simp)]
    simp only [Option.bind_some, hmap]

/-- the cursor at the first token of a statement: the statement, then what follows it -/
theorem walk_stmt3 (fuel n : Nat) (le : Nat → Bool) (L : Lines F) (m : FileMap) (hLM : C05.LinesMapped L m)
    (hle : L.has = le) (sig : Sig) (st : RStmt3 F) (rest : List (RStmt3 F))
    (hfit : StmtsFit3 fuel sig (st :: rest))
    (ih : ∀ (k : Nat) (a : Analysis F) (pre : List (Token F)),
      At a.st pre (renderTail3 rest) → a.st.loc.line = some n → a.st.nesting = 0 → SInv L a.st →
      sigOf a.st.fns = sigAfterS sig st →
      a.map = m → a.panicked = none → (renderTail3 rest).length < k →
      LineOut3 L n a (analyzeStatements fuel k a) (typeOfStmts3 le n (sigAfterS sig st) rest)
        (sigWalkStmts le (sigAfterS sig st) rest))
    (k : Nat) (a : Analysis F) (pre : List (Token F))
    (hAt : At a.st pre (renderS3 st ++ renderTail3 rest)) (hl : a.st.loc.line = some n)
    (hn : a.st.nesting = 0) (hs : SInv L a.st) (hsig : sigOf a.st.fns = sig) (hm : a.map = m)
    (hp : a.panicked = none) (hk : (renderS3 st ++ renderTail3 rest).length < k) :
    LineOut3 L n a (analyzeStatements fuel k a) (typeOfStmts3 le n sig (st :: rest))
      (sigWalkStmts le sig (st :: rest)) := by
  obtain ⟨k', rfl⟩ : ∃ k', k = k' + 1 := ⟨k - 1, by omega⟩
  obtain ⟨hcov, hdf, hdn, hres, _⟩ := hfit
  obtain ⟨t0, ts0, hhead, _⟩ := Stmt3L.renderS3_head_nonnum st hcov.1
  have hAt0 : At a.st pre (t0 :: (ts0 ++ renderTail3 rest)) := by rw [hhead] at hAt; exact hAt
  have hhn := hasNext_cons hAt0
  have hAt1 : At (mv a.st 0 (a.st.reads + 1)) pre (renderS3 st ++ renderTail3 rest) := at_mv0 hAt _
  have hs1 : SInv L (mv a.st 0 (a.st.reads + 1)) := sinv_mv0 hs _
  have hA := astmt3_run st fuel n le hdf hcov.1 hcov.2 sig (mv a.st 0 (a.st.reads + 1)) pre (renderTail3 rest)
    hAt1 hl (by show a.st.lines.has = le; rw [hs.lines]; exact hle) hsig
    (by show a.st.nesting + asdepth st ≤ _; rw [hn]; omega) (Or.inl (lineEnd_tail3 rest)) hres
  rw [typeOfS3A_covered le st sig hcov.2] at hA
  have hgood := good_aStmtBody (good_aEvalN (F := F) (L := L) fuel).1 (good_aEvalN (F := F) (L := L) fuel).2 _ hs1
  have hline := (ALine.keeps_stmt (F := F) fuel).h (mv a.st 0 (a.st.reads + 1))
  have hframe := (AFrame.keeps_stmt (F := F) fuel).h (mv a.st 0 (a.st.reads + 1))
  cases hty : typeOfS3 sig le st with
  | ok u =>
    rw [hty] at hA
    obtain ⟨σ', hres', hAt', hsig'⟩ := hA
    rw [hres'] at hgood hline hframe
    rw [aS_ok fuel k' a hhn hres']
    have hlen : (renderS3 st ++ renderTail3 rest).length = (renderS3 st).length + (renderTail3 rest).length :=
      List.length_append
    have hpos : 0 < (renderS3 st).length := by rw [hhead]; simp
    have hl' : σ'.loc.line = some n := (show σ'.loc.line = a.st.loc.line from hline).trans hl
    have hn' : σ'.nesting = 0 := (show σ'.nesting = a.st.nesting from (Prod.mk.inj hframe).2).trans hn
    have hI := ih k' { a with st := σ' } (pre ++ renderS3 st) hAt' hl' hn' hgood.1 hsig' hm hp (by omega)
    have hv : typeOfStmts3 le n sig (st :: rest) = typeOfStmts3 le n (sigAfterS sig st) rest := by
      simp only [typeOfStmts3, hty]
    have hw : sigWalkStmts le sig (st :: rest) = sigWalkStmts le (sigAfterS sig st) rest := by
      simp only [sigWalkStmts, hty]
    rw [hv, hw]
    obtain ⟨⟨g1, g2, g3, g4, g5, g6⟩, g7⟩ := hI
    exact ⟨⟨g1, g2, g3, g4.trans (hn'.trans hn.symm), g5, g6⟩, g7⟩
  | error x =>
    rw [hty] at hA
    obtain ⟨σ', hσ', hsig'⟩ := hA
    rw [hσ'] at hgood hline hframe
    obtain ⟨hs', _, _⟩ := hgood
    have hline' : σ'.loc.line = some n := (show σ'.loc.line = a.st.loc.line from hline).trans hl
    have hn' : σ'.nesting = a.st.nesting := (Prod.mk.inj hframe).2
    have hprev : LocOk L σ'.prevLoc := by
      obtain ⟨n1, ts1, h1, h2, h3⟩ := hs'.loc
      exact ⟨n1, ts1, h1, h2, by show σ'.loc.idx - 1 ≤ ts1.length; omega⟩
    obtain ⟨f, u, v, hmap⟩ := C05.mapLoc_of_locOk hLM hprev
    rw [aS_err3 fuel k' a hhn hσ' (typeOfS3_error sig le st x hty) (by rw [hm]; exact hmap)]
    have hv : typeOfStmts3 le n sig (st :: rest) = .error (x, n) := by simp only [typeOfStmts3, hty]
    have hw : sigWalkStmts le sig (st :: rest) = sigFailS le sig st := by simp only [sigWalkStmts, hty]
    rw [hv, hw]
    refine ⟨⟨hp, rfl, hs', hn', hline', f, σ'.loc.idx - 1, ?_⟩, hsig'⟩
    show a.messages ++ [Diag.error f { err := x, loc := some { line := σ'.loc.line, idx := σ'.loc.idx - 1 } }] = _
    rw [hline']

/-- the cursor behind a statement (at the end of the line, or on a colon): the rest of the line -/
theorem walk_tail3 (fuel n : Nat) (le : Nat → Bool) (L : Lines F) (m : FileMap) (hLM : C05.LinesMapped L m)
    (hle : L.has = le) : ∀ (rest : List (RStmt3 F)) (sig : Sig), StmtsFit3 fuel sig rest →
    ∀ (k : Nat) (a : Analysis F) (pre : List (Token F)),
      At a.st pre (renderTail3 rest) → a.st.loc.line = some n → a.st.nesting = 0 → SInv L a.st →
      sigOf a.st.fns = sig →
      a.map = m → a.panicked = none → (renderTail3 rest).length < k →
      LineOut3 L n a (analyzeStatements fuel k a) (typeOfStmts3 le n sig rest) (sigWalkStmts le sig rest)
  | [], sig, _, k, a, pre, hAt, hl, hn, hs, hsig, hm, hp, hk => by
    obtain ⟨k', rfl⟩ : ∃ k', k = k' + 1 := ⟨k - 1, by omega⟩
    have hAt0 : At a.st pre [] := hAt
    rw [aS_done fuel k' a (hasNext_nil hAt0)]
    exact ⟨⟨hp, rfl, sinv_mv0 hs _, rfl, hl, rfl⟩, hsig⟩
  | st :: rest, sig, hfit, k, a, pre, hAt, hl, hn, hs, hsig, hm, hp, hk => by
    obtain ⟨k', rfl⟩ : ∃ k', k = k' + 1 := ⟨k - 1, by omega⟩
    have hAt0 : At a.st pre (.kw .Colon :: (renderS3 st ++ renderTail3 rest)) := hAt
    have hlen : (renderTail3 (st :: rest)).length = 1 + (renderS3 st ++ renderTail3 rest).length := by
      simp only [renderTail3, List.length_cons]; omega
    have hhn := hasNext_cons hAt0
    have hAt1 : At (mv a.st 0 (a.st.reads + 1)) pre (.kw .Colon :: (renderS3 st ++ renderTail3 rest)) :=
      at_mv0 hAt0 _
    have hs1 : SInv L (mv a.st 0 (a.st.reads + 1)) := sinv_mv0 hs _
    have hcolon := aStmtBody_colon (ev := aEvalN fuel) hAt1
    have hgood := good_aStmtBody (good_aEvalN (F := F) (L := L) fuel).1 (good_aEvalN (F := F) (L := L) fuel).2 _ hs1
    rw [hcolon] at hgood
    rw [aS_ok fuel k' a hhn hcolon]
    exact walk_stmt3 fuel n le L m hLM hle sig st rest hfit
      (fun k a pre h1 h2 h3 h4 h5 h6 h7 h8 =>
        walk_tail3 fuel n le L m hLM hle rest (sigAfterS sig st) hfit.2.2.2.2 k a pre h1 h2 h3 h4 h5 h6 h7 h8)
      k' { a with st := mv (mv a.st 0 (a.st.reads + 1)) 1 ((mv a.st 0 (a.st.reads + 1)).reads + 1) }
      (pre ++ [.kw .Colon]) (at_mv1 hAt1 _) hl hn hgood.1 hsig hm hp (by omega)

/-- **The statement pass on one line** of an `RProgram3`, reached with the signatures `sig`: nothing
    if every statement of the line is typed w.r.t. the signatures accumulated along the line, otherwise
    exactly one error diagnostic, the first static error of the line, located on it; the signatures
    of the state it leaves are `sigWalkStmts le sig ss`. -/
theorem walk_line3 (fuel n : Nat) (le : Nat → Bool) (L : Lines F) (m : FileMap) (hLM : C05.LinesMapped L m)
    (hle : L.has = le) (sig : Sig) (ss : List (RStmt3 F)) (hne : ss ≠ []) (hfit : StmtsFit3 fuel sig ss)
    (a : Analysis F) (hAt : At a.st [] (renderLine3 ss)) (hl : a.st.loc.line = some n)
    (hn : a.st.nesting = 0) (hs : SInv L a.st) (hsig : sigOf a.st.fns = sig) (hm : a.map = m)
    (hp : a.panicked = none) :
    LineOut3 L n a (analyzeStatements fuel ((renderLine3 ss).length + 2) a) (typeOfStmts3 le n sig ss)
      (sigWalkStmts le sig ss) := by
  cases ss with
  | nil => exact absurd rfl hne
  | cons st rest =>
    exact walk_stmt3 fuel n le L m hLM hle sig st rest hfit
      (fun k a pre h1 h2 h3 h4 h5 h6 h7 h8 =>
        walk_tail3 fuel n le L m hLM hle rest (sigAfterS sig st) hfit.2.2.2.2 k a pre h1 h2 h3 h4 h5 h6 h7 h8)
      _ a [] hAt hl hn hs hsig hm hp (by show (renderLine3 (st :: rest)).length < _; omega)

/-! ### 2c. all lines -/

theorem progOut_cons3 {a a1 a' : Analysis F} {L : Lines F} {le : Nat → Bool} {n : Nat} {ss : List (RStmt3 F)}
    {q : RProgram3 F} {sig : Sig} (hL : a.st.lines = L)
    (h1 : LineOut L n a a1 (typeOfStmts3 le n sig ss))
    (h2 : ProgOut a1 a' (lineErrs3 le (sigWalkStmts le sig ss) q)) :
    ProgOut a a' (lineErrs3 le sig ((n, ss) :: q)) := by
  obtain ⟨_, hm1, hs1, hn1, _, hmsg1⟩ := h1
  obtain ⟨hp2, hm2, hl2, hn2, ds, hds, hfor⟩ := h2
  refine ⟨hp2, hm2.trans hm1, by rw [hl2, hs1.lines, hL], hn2.trans hn1, ?_⟩
  cases hv : typeOfStmts3 le n sig ss with
  | ok u =>
    rw [hv] at hmsg1
    simp only [lineErrs3, hv]
    exact ⟨ds, by rw [hds, hmsg1], hfor⟩
  | error x =>
    rw [hv] at hmsg1
    obtain ⟨x1, ln⟩ := x
    obtain ⟨f, i, hmsg⟩ := hmsg1
    simp only [lineErrs3, hv]
    exact ⟨_ :: ds, by rw [hds, hmsg, List.append_assoc]; rfl, ⟨f, i, rfl⟩, hfor⟩

theorem line_at3 {done q : RProgram3 F} {n : Nat} {ss : List (RStmt3 F)}
    (h : ((done ++ (n, ss) :: q).map (·.1)).Pairwise (· < ·)) :
    RProgram3.line (done ++ (n, ss) :: q) n = some ss := by
  induction done with
  | nil => simp only [List.nil_append, RProgram3.line, beq_self_eq_true, ↓reduceIte]
  | cons l done ih =>
    obtain ⟨k, ss'⟩ := l
    simp only [List.cons_append, List.map_cons] at h
    have h' := List.pairwise_cons.mp h
    have hk : k < n := h'.1 n (by simp)
    have hb : (k == n) = false := by simp only [beq_eq_false_iff_ne, ne_eq]; omega
    simp only [List.cons_append, RProgram3.line, hb, Bool.false_eq_true, ↓reduceIte]
    exact ih h'.2

theorem after_at3 {done q : RProgram3 F} {n : Nat} {ss : List (RStmt3 F)}
    (h : ((done ++ (n, ss) :: q).map (·.1)).Pairwise (· < ·)) :
    RProgram3.after (done ++ (n, ss) :: q) n = q.head?.map (·.1) := by
  unfold RProgram3.after
  induction done with
  | nil =>
    simp only [List.nil_append, List.map_cons] at h ⊢
    have h' := List.pairwise_cons.mp h
    rw [List.find?_cons_of_neg (by simp)]
    cases q with
    | nil => rfl
    | cons l q' =>
      have : n < l.1 := h'.1 l.1 (by simp)
      simp only [List.map_cons, List.head?_cons, Option.map_some]
      rw [List.find?_cons_of_pos (by simpa using this)]
  | cons l done ih =>
    simp only [List.cons_append, List.map_cons] at h ⊢
    have h' := List.pairwise_cons.mp h
    have hk : l.1 < n := h'.1 n (by simp)
    rw [List.find?_cons_of_neg (by simp only [decide_eq_true_eq]; omega)]
    exact ih h'.2

/-- from the start of a line of the program to its end -/
theorem walk_lines3 (fuel : Nat) (p : RProgram3 F) (hwf : p.WF) (L : Lines F) (hH : Holds L p)
    (m : FileMap) (hLM : C05.LinesMapped L m) :
    ∀ (q done : RProgram3 F) (n : Nat) (ss : List (RStmt3 F)), p = done ++ (n, ss) :: q →
    ∀ (sig : Sig) (b : Nat) (a : Analysis F), LinesFit3 fuel p.hasLine sig ((n, ss) :: q) → q.length < b →
      SInv L a.st → a.st.loc = { line := some n, idx := 0 } →
      a.st.nesting = 0 → sigOf a.st.fns = sig → a.map = m → a.panicked = none →
      ProgOut a (analyzeProgram fuel b a) (lineErrs3 p.hasLine sig ((n, ss) :: q)) := by
  intro q
  induction q with
  | nil =>
    intro done n ss hp sig b a hfit hb hs hloc hn hsig hm hpan
    have hasc := hwf.ascending
    rw [hp] at hasc
    have hline : p.line n = some ss := by rw [hp]; exact line_at3 hasc
    have hget : L.get n = some (renderLine3 ss) := by rw [hH.get, hline]; rfl
    have hToks : lineToks a.st = some (renderLine3 ss) := by
      unfold lineToks; rw [hloc]; show a.st.lines.get n = _; rw [hs.lines, hget]
    have hAt : At a.st [] (renderLine3 ss) := ⟨hToks, by rw [hloc]; rfl⟩
    have htok := tokens_eq hToks
    have hW := walk_line3 fuel n p.hasLine L m hLM (funext (Prog3L.holds_has hH)) sig ss
      (hwf.nonempty _ (Prog3L.line_mem hline)) hfit.1 a hAt (by rw [hloc]) hn hs hsig hm hpan
    obtain ⟨⟨hp1, hm1, hs1, hn1, hl1, _⟩, _⟩ := id hW
    have hafter : L.after n = none := by rw [Prog3L.holds_after hH, hp, after_at3 hasc]; rfl
    obtain ⟨b', rfl⟩ : ∃ b', b = b' + 1 := ⟨b - 1, by omega⟩
    rw [aP_last fuel b' a hpan htok hp1 (nextLine_none hl1 (by rw [hs1.lines, hafter]))]
    exact progOut_cons3 hs.lines hW.1 ⟨hp1, rfl, rfl, rfl, [], by simp [lineErrs3], trivial⟩
  | cons l q' ih =>
    intro done n ss hp sig b a hfit hb hs hloc hn hsig hm hpan
    obtain ⟨n', ss'⟩ := l
    have hasc := hwf.ascending
    rw [hp] at hasc
    have hline : p.line n = some ss := by rw [hp]; exact line_at3 hasc
    have hget : L.get n = some (renderLine3 ss) := by rw [hH.get, hline]; rfl
    have hToks : lineToks a.st = some (renderLine3 ss) := by
      unfold lineToks; rw [hloc]; show a.st.lines.get n = _; rw [hs.lines, hget]
    have hAt : At a.st [] (renderLine3 ss) := ⟨hToks, by rw [hloc]; rfl⟩
    have htok := tokens_eq hToks
    have hW := walk_line3 fuel n p.hasLine L m hLM (funext (Prog3L.holds_has hH)) sig ss
      (hwf.nonempty _ (Prog3L.line_mem hline)) hfit.1 a hAt (by rw [hloc]) hn hs hsig hm hpan
    obtain ⟨⟨hp1, hm1, hs1, hn1, hl1, _⟩, hsig1⟩ := id hW
    have hafter : L.after n = some n' := by rw [Prog3L.holds_after hH, hp, after_at3 hasc]; rfl
    obtain ⟨b', rfl⟩ : ∃ b', b = b' + 1 := ⟨b - 1, by omega⟩
    rw [aP_next fuel b' a hpan htok hp1 (nextLine_some hl1 (by rw [hs1.lines, hafter]))]
    have hp' : p = (done ++ [(n, ss)]) ++ (n', ss') :: q' := by rw [hp]; simp
    have hasc' := hwf.ascending
    rw [hp'] at hasc'
    have hline' : p.line n' = some ss' := by rw [hp']; exact line_at3 hasc'
    have hget' : L.get n' = some (renderLine3 ss') := by rw [hH.get, hline']; rfl
    have hI := ih (done ++ [(n, ss)]) n' ss' hp' (sigWalkStmts p.hasLine sig ss) b'
      { analyzeStatements fuel ((renderLine3 ss).length + 2) a with
        st := { (analyzeStatements fuel ((renderLine3 ss).length + 2) a).st with loc := { line := some n', idx := 0 } } }
      hfit.2 (by simp only [List.length_cons] at hb; omega)
      ⟨hs1.lines, ⟨n', renderLine3 ss', rfl, hget', Nat.zero_le _⟩, hs1.acc⟩ rfl (hn1.trans hn) hsig1
      (hm1.trans hm) hp1
    exact progOut_cons3 hs.lines hW.1 hI

/-- where the statement pass starts (as `AStart2`, for a program of `RProgram3`): moreover no function
    is defined -/
structure AStart3 (p : RProgram3 F) (a : Analysis F) : Prop where
  holds : Holds a.st.lines p
  mapped : C05.LinesMapped a.st.lines a.map
  loc : a.st.loc = { line := p.first, idx := 0 }
  imm : a.st.imm = []
  nesting : a.st.nesting = 0
  accesses : a.st.accesses = []
  fns : a.st.fns = []
  panicked : a.panicked = none

/-- **The analyzer's statement pass on a stored program of the unified machine**: no panic, store and
    file map untouched, and exactly one error diagnostic per line with a static error — the first static
    error of that line w.r.t. the signatures accumulated so far (`lineErrs3`), located on it — in program
    order. -/
theorem analyze_program3 (fuel : Nat) (p : RProgram3 F) (hfit : AFits3 p fuel) (a : Analysis F)
    (h : AStart3 p a) (b : Nat) (hb : p.length < b) :
    ProgOut a (analyzeProgram fuel b a) (lineErrs3 p.hasLine (fun _ => none) p) := by
  cases hp : p with
  | nil =>
    subst hp
    obtain ⟨b', rfl⟩ : ∃ b', b = b' + 1 := ⟨b - 1, by omega⟩
    obtain ⟨k1, k2, _⟩ := C05.analyzeProgram_empty fuel b' a h.panicked (by rw [h.loc]; rfl) h.imm
    have hk := AFrame.analyzeProgram_key fuel (b' + 1) a
    simp only [AFrame.key, Prod.mk.injEq] at hk
    exact ⟨k1, (C05.analyzeProgram_ext fuel (b' + 1) a).map, hk.1, hk.2, [], by rw [k2]; simp, trivial⟩
  | cons l q =>
    obtain ⟨n, ss⟩ := l
    rw [← hp]
    have hsig0 : sigOf a.st.fns = fun _ => none := by rw [h.fns]; rfl
    have hI := walk_lines3 fuel p hfit.wf a.st.lines h.holds a.map h.mapped q [] n ss (by rw [hp]; rfl)
      (fun _ => none) b a (by have := hfit.lines; rw [hp] at this ⊢; exact this)
      (by rw [hp] at hb; simp only [List.length_cons] at hb; omega)
      ⟨rfl, ?_, by rw [h.accesses]; intro x hx; cases hx⟩
      (by rw [h.loc, hp]; rfl) h.nesting hsig0 rfl h.panicked
    · rw [hp] at hI ⊢; exact hI
    · have hline : p.line n = some ss := by
        rw [hp]; simp only [RProgram3.line, beq_self_eq_true, ↓reduceIte]
      exact ⟨n, renderLine3 ss, by rw [h.loc, hp]; rfl, by rw [h.holds.get, hline]; rfl, by rw [h.loc]; exact Nat.zero_le _⟩

/-- **Silent ⇔ checked**, for the unified machine: the analyzer's statement pass over the stored program
    adds no message iff the program passes the static check `typeOfP3`. -/
theorem analyzer_silent_iff3 (fuel : Nat) (p : RProgram3 F) (hfit : AFits3 p fuel) (a : Analysis F)
    (h : AStart3 p a) (b : Nat) (hb : p.length < b) :
    (analyzeProgram fuel b a).messages = a.messages ↔ typeOfP3 p = .ok () := by
  obtain ⟨_, _, _, _, ds, hds, hfor⟩ := analyze_program3 fuel p hfit a h b hb
  unfold typeOfP3
  rw [← lineErrs3_nil_iff, hds]
  constructor
  · intro hm
    have hnil : ds = [] := by
      have := congrArg List.length hm
      simp only [List.length_append] at this
      exact List.length_eq_zero_iff.mp (by omega)
    subst hnil
    cases hx : lineErrs3 p.hasLine (fun _ => none) p with
    | nil => rfl
    | cons x xs => rw [hx] at hfor; exact hfor.elim
  · intro hx
    rw [hx] at hfor
    cases ds with
    | nil => simp
    | cons d ds => exact hfor.elim

/-! ### 3. from the analyzer's verdict to the run-time theorem -/

/-- **`sound_analyzed_program3`.**  If the analyzer's statement pass over the stored program `p` reports
    nothing, then `p` passes `typeOfP3`, and — under the hypotheses of `sound_program3` — no run of `p`
    fails with a syntax error, a TYPE MISMATCH or UNDEF'D STATEMENT. -/
theorem sound_analyzed_program3 {p : RProgram3 F} {fa fuel : Nat} (hfa : AFits3 p fa) (hfit : C03.Fits3 p)
    (a : Analysis F) (ha : AStart3 p a) (b : Nat) (hb : p.length < b)
    (hsilent : (analyzeProgram fa b a).messages = a.messages)
    {σ : St F} (h : C03.PReady3 p σ) (hsafe : C03.SafeRun p fuel (p.start σ.rng)) (hda : DefsAgree p σ.rng)
    (k : Nat) :
    typeOfP3 p = .ok () ∧
    (∀ te σ', C03.runTurns fuel k σ = .err te σ' →
      RunErr3 te.err ∧ te.err ≠ .typeMismatch ∧ (∀ se, te.err ≠ .syntax se) ∧
      te.err ≠ .undefinedStatement) ∧
    (∀ σ', C03.runTurns fuel k σ = .ok () σ' → WellTyped σ') :=
  ⟨(analyzer_silent_iff3 fa p hfa a ha b hb).1 hsilent,
   sound_program3 hfit h hsafe ((analyzer_silent_iff3 fa p hfa a ha b hb).1 hsilent) hda k⟩

/-- the tokens a file must denote, line by line, to be a text of `p` -/
def editsOf3 (p : RProgram3 F) : List (Nat × List (Token F)) := p.map fun l => (l.1, renderLine3 l.2)

/-- after the line pass over a text of `p` and `runFromFirst`, the statement pass can start -/
theorem astart_file3 (lines : List Str) (p : RProgram3 F) (hwf : p.WF) (hgood : C15.GoodFile F lines (editsOf3 p)) :
    AStart3 p { analyzeLines ({ lines := lines } : Analysis F) 0 lines with
               st := (analyzeLines ({ lines := lines } : Analysis F) 0 lines).st.runFromFirst } := by
  have hinv := C05.analyzeLines_lineInv ({ lines := lines } : Analysis F) 0 lines (C05.lineInv_init lines)
  have hpan := (C05.analyzeLines_file (F := F) lines).2.2.2
  have hstore := C15.load_store lines (editsOf3 p) hgood ({ lines := lines } : Analysis F) 0
  have hnest := AFrame.analyzeLines_nesting ({ lines := lines } : Analysis F) 0 lines
  generalize analyzeLines ({ lines := lines } : Analysis F) 0 lines = a0 at hinv hpan hstore hnest
  obtain ⟨hl, hacc, himm, _⟩ := C05.runFromFirst_facts a0.st
  have hH : Holds a0.st.lines p := by
    rw [hstore]
    exact Prog3L.holds_load p hwf
  have hfirst : a0.st.lines.first = p.first := Prog3L.holds_first hH
  have hf : a0.st.resetRuntime.lines.first = p.first := hfirst
  refine ⟨by show Holds a0.st.runFromFirst.lines p; rw [hl]; exact hH,
    by show C05.LinesMapped a0.st.runFromFirst.lines a0.map; rw [hl]; exact hinv.mapped,
    ?_, himm, ?_, hacc.trans hinv.acc, ?_, hpan⟩
  · show a0.st.runFromFirst.loc = _
    unfold St.runFromFirst
    simp only [hf]
    cases p.first <;> rfl
  · show a0.st.runFromFirst.nesting = 0
    have : a0.st.runFromFirst.nesting = a0.st.nesting := by
      unfold St.runFromFirst
      simp only [hf]
      cases p.first <;> rfl
    rw [this, hnest]
  · show a0.st.runFromFirst.fns = []
    unfold St.runFromFirst
    simp only [hf]
    cases p.first <;> rfl

/-- **`sound_analyzed_file3`.**  Let the lines of a source file be numbered and tokenize to the lines of the
    program `p` of the unified machine (`GoodFile`), let `p` satisfy the analyzer's side conditions
    (`AFits3`).  If the analysis of the file (`analyzeFile`: all three passes) contains NO ERROR diagnostic,
    then the interpreter the analysis is turned into is ready to run `p` and `p` passes the static check
    `typeOfP3`; if moreover `p` fits the covered fragment (`Fits3`), every state the reference machine
    reaches satisfies the side conditions on names and nesting (`SafeRun`), and every definition is in force
    exactly where the analyzer assumed it (`DefsAgree`, the property's dynamic side condition), then no run —
    RUN followed by any number of host turns — fails with a syntax error, a TYPE MISMATCH or UNDEF'D
    STATEMENT: a failure is one of `RunErr3`.  (The generator state of a freshly loaded interpreter is 0.) -/
theorem sound_analyzed_file3 {p : RProgram3 F} {fa fuel : Nat} (hfa : AFits3 p fa) (hfit : C03.Fits3 p)
    (lines : List Str) (hgood : C15.GoodFile F lines (editsOf3 p))
    (hnoerr : ∀ f e, Diag.error f e ∉ (analyzeFile (F := F) fa lines).messages)
    (hsafe : C03.SafeRun p fuel (p.start 0)) (hda : DefsAgree p 0) (k : Nat) :
    C03.PReady3 p (analyzeFile (F := F) fa lines).intoInterpreter ∧
    typeOfP3 p = .ok () ∧
    (∀ te σ', C03.runTurns fuel k (analyzeFile (F := F) fa lines).intoInterpreter = .err te σ' →
      RunErr3 te.err ∧ te.err ≠ .typeMismatch ∧ (∀ se, te.err ≠ .syntax se) ∧
      te.err ≠ .undefinedStatement) ∧
    (∀ σ', C03.runTurns fuel k (analyzeFile (F := F) fa lines).intoInterpreter = .ok () σ' → WellTyped σ') := by
  have hst := astart_file3 lines p hfa.wf hgood
  have hlen : p.length < lines.length + 2 := by
    have := goodFile_length hgood
    simp only [editsOf3, List.length_map] at this
    omega
  have hkey := AFrame.analyzeFile_key (F := F) fa lines
  have hstore := C15.load_store lines (editsOf3 p) hgood ({ lines := lines } : Analysis F) 0
  have hready : C03.PReady3 p (analyzeFile (F := F) fa lines).intoInterpreter := by
    refine ⟨rfl, ?_, rfl, rfl, hkey.2, rfl, ?_⟩
    · show Holds (analyzeFile (F := F) fa lines).st.lines p
      rw [hkey.1, hstore]
      exact Prog3L.holds_load p hfa.wf
    · show 0 < Extracted.rngModulus
      unfold Extracted.rngModulus
      omega
  have hty : typeOfP3 p = .ok () := by
    obtain ⟨hp2, _, _, _, ds, hds, hfor⟩ := analyze_program3 fa p hfa _ hst (lines.length + 2) hlen
    unfold typeOfP3
    rw [← lineErrs3_nil_iff]
    cases ds with
    | nil =>
      cases hx : lineErrs3 p.hasLine (fun _ => none) p with
      | nil => rfl
      | cons x xs => rw [hx] at hfor; exact hfor.elim
    | cons d ds =>
      exfalso
      obtain ⟨f, e, hd⟩ := diagsFor_head hfor
      apply hnoerr f e
      unfold analyzeFile
      simp only [hp2, Option.isSome_none, Bool.false_eq_true, ↓reduceIte]
      obtain ⟨⟨extra, hext, _⟩, _⟩ := C05.symbolWarnings_total
        (analyzeProgram fa (lines.length + 2)
          { analyzeLines ({ lines := lines } : Analysis F) 0 lines with
            st := (analyzeLines ({ lines := lines } : Analysis F) 0 lines).st.runFromFirst })
      rw [hext, hds, hd]
      simp
  exact ⟨hready, hty, sound_program3 hfit hready hsafe hty hda k⟩

/-! ### 4. discharging `DefsAgree` -/

/-- **A proof principle for `DefsAgree`**: an invariant of the reference machine that holds at the start,
    is kept by every reference step, and implies the agreement at the program counter. -/
theorem defsAgree_of_inv {p : RProgram3 F} {g : Nat} (I : RState3 F → Prop) (h0 : I (p.start g))
    (hstep : ∀ r r', I r → RStep3 p r = .inl r' → I r')
    (hI : ∀ r n j, I r → r.pc = some (n, j) → FnsTyped (sigAt p n j) r.fns) : DefsAgree p g := by
  have key : ∀ (m : Nat) (r r' : RState3 F), I r → RSteps3 p m r = .inl r' → I r' := by
    intro m
    induction m with
    | zero => intro r r' hr h; cases h; exact hr
    | succ m ih =>
      intro r r' hr h
      cases hs : RStep3 p r with
      | inl r1 =>
        rw [C03.rsteps3_ok m hs] at h
        exact ih r1 r' (hstep r r1 hr hs) h
      | inr x =>
        obtain ⟨e, ln⟩ := x
        rw [C03.rsteps3_err m hs] at h
        cases h
  intro m r' n j hm hpc
  exact hI r' n j (key m _ r' h0 hm) hpc

theorem not_defines_of_defFree : ∀ (s : RStmt3 F) (name : Str) (d : FnDefSpec F), defFree s = true →
    ¬ Stmt3L.Defines s name d
  | .defS _ _ _, _, _, h => by simp [defFree] at h
  | .ifS _ a none, name, d, h => by
    simp only [defFree] at h
    simp only [Stmt3L.Defines]
    exact not_defines_of_defFree a name d h
  | .ifS _ a (some b), name, d, h => by
    simp only [defFree, Bool.and_eq_true] at h
    simp only [Stmt3L.Defines]
    exact fun h' => h'.elim (not_defines_of_defFree a name d h.1) (not_defines_of_defFree b name d h.2)
  | .letS _ _, _, _, _ => by simp [Stmt3L.Defines]
  | .printS _, _, _, _ => by simp [Stmt3L.Defines]
  | .gotoS _, _, _, _ => by simp [Stmt3L.Defines]
  | .endS, _, _, _ => by simp [Stmt3L.Defines]
  | .lineS _, _, _, _ => by simp [Stmt3L.Defines]
  | .forS _ _ _ _, _, _, _ => by simp [Stmt3L.Defines]
  | .nextS _, _, _, _ => by simp [Stmt3L.Defines]
  | .gosubS _, _, _, _ => by simp [Stmt3L.Defines]
  | .returnS, _, _, _ => by simp [Stmt3L.Defines]
  | .readS _, _, _, _ => by simp [Stmt3L.Defines]
  | .dataS _, _, _, _ => by simp [Stmt3L.Defines]
  | .restoreS, _, _, _ => by simp [Stmt3L.Defines]
  | .dimS _ _, _, _, _ => by simp [Stmt3L.Defines]
  | .letCellS _ _ _, _, _, _ => by simp [Stmt3L.Defines]

theorem sigAfterStmts_defFree : ∀ (ss : List (RStmt3 F)) (sig : Sig), (∀ s ∈ ss, defFree s = true) →
    sigAfterStmts sig ss = sig
  | [], _, _ => rfl
  | s :: rest, sig, h => by
    simp only [sigAfterStmts]
    rw [sigAfterS_defFree s sig (h s List.mem_cons_self)]
    exact sigAfterStmts_defFree rest sig (fun s' hs' => h s' (List.mem_cons_of_mem _ hs'))

theorem sigAtL_defFree : ∀ (p : RProgram3 F) (sig : Sig) (n j : Nat), (∀ l ∈ p, ∀ s ∈ l.2, defFree s = true) →
    sigAtL sig p n j = sig
  | [], _, _, _, _ => rfl
  | (k, ss) :: rest, sig, n, j, h => by
    simp only [sigAtL]
    by_cases hk : (k == n) = true
    · rw [if_pos hk]
      exact sigAfterStmts_defFree _ sig (fun s hs => h (k, ss) List.mem_cons_self s (List.mem_of_mem_take hs))
    · rw [if_neg hk, sigAfterStmts_defFree ss sig (h (k, ss) List.mem_cons_self)]
      exact sigAtL_defFree rest sig n j (fun l hl => h l (List.mem_cons_of_mem _ hl))

/-- **A static sufficient condition for `DefsAgree`** (the trivial one): a program without any DEF. -/
theorem defsAgree_of_noDef {p : RProgram3 F} (hnd : ∀ l ∈ p, ∀ s ∈ l.2, defFree s = true) (g : Nat) :
    DefsAgree p g := by
  intro m r' n j hm _
  have htab := Stmt3L.tableOf_steps m _ r' (Stmt3L.tableOf_start p g) hm
  have hnone := C03.fnsOf_nil_of_noDef
    (fun l hl s hs name d => not_defines_of_defFree s name d (hnd l hl s hs)) htab.1
  unfold sigAt
  rw [sigAtL_defFree p _ n j hnd]
  intro f
  simp only [hnone f]

/-! ### 5. a checked example (on the degenerate carrier `Unit`; no numeral tokenizes there) -/

namespace File3
open Abasic.Stmt3L

def fna : Str := ['F', 'N', 'A']
def fnaDef : FnDefSpec Unit := { params := [['X']], body := .var ['X'] }

/-- ```
    10 DEF FNA(X) = X
    20 PRINT FNA(A);
    ``` -/
def prog : RProgram3 Unit :=
  [ (10, [ .defS fna [['X']] (.var ['X']) ]),
    (20, [ .printS [.expr (.call fna [.var ['A']]), .semi] ]) ]

def text : List Str := ["10 DEF FNA(X) = X".toList, "20 PRINT FNA(A);".toList]

theorem edits : editsOf3 prog =
    [ (10, [.kw .Def, .symbol fna, .kw .LeftParen, .symbol ['X'], .kw .RightParen, .kw .Equals, .symbol ['X']]),
      (20, [.kw .Print, .symbol fna, .kw .LeftParen, .symbol ['A'], .kw .RightParen, .kw .Semicolon]) ] := by
  simp [editsOf3, prog, renderLine3, renderTail3, renderS3, renderTargets, renderItems3, PItem3.render, render2_var,
    render2_call, renderArgs_one]

theorem good : C15.GoodFile Unit text (editsOf3 prog) := by
  rw [edits]
  refine .cons (goodLine_of _ _ 2 _ (by decide) (by decide) (by decide) (by rfl) (by simp)) ?_
  refine .cons (goodLine_of _ _ 2 _ (by decide) (by decide) (by decide) (by rfl) (by simp)) ?_
  exact .nil

theorem fits : C03.Fits3 prog where
  wf := ⟨by decide, by intro l hl; simp [prog] at hl; rcases hl with rfl | rfl <;> simp⟩
  covered := by
    intro l hl s hs
    simp [prog] at hl
    rcases hl with rfl | rfl
    · simp at hs; subst hs; exact ⟨rfl, by simp [RStmt3.CoveredB]⟩
    · simp at hs; subst hs; exact ⟨rfl, by simp [RStmt3.CoveredB, separated3]⟩

theorem afits : AFits3 prog defaultFuel where
  wf := fits.wf
  lines := by
    simp only [prog, LinesFit3, StmtsFit3, and_true]
    refine ⟨⟨⟨rfl, by simp [RStmt3.CoveredB]⟩, ?_, ?_, ?_⟩, ⟨⟨rfl, by simp [RStmt3.CoveredB, separated3]⟩, ?_, ?_, ?_⟩⟩
    · simp [asdepth, adepth, depth2, defaultFuel]
    · simp [asdepth, adepth, depth2, Extracted.nestingLimit]
    · simp [ResolvedS2, Resolved2]
    · simp [asdepth, aitemsDepth, adepth, depth2, depthArgs, defaultFuel]
    · simp [asdepth, aitemsDepth, adepth, depth2, depthArgs, Extracted.nestingLimit]
    · simp only [ResolvedS2, ResolvedItems2, Resolved2, Resolved2L, and_true]
      decide

theorem noerr : ∀ f e, Diag.error f e ∉ (analyzeFile (F := Unit) defaultFuel text).messages := by
  have h : (analyzeFile (F := Unit) defaultFuel text).messages.all (fun d => !isErr d) = true := by decide +kernel
  intro f e hmem
  have := List.all_eq_true.mp h _ hmem
  simp [isErr] at this

/-- the only definition the program contains -/
theorem prog_defs {fns : List (Str × FnDefSpec Unit)} (h : FnsOf prog fns) (name : Str) (d : FnDefSpec Unit)
    (hg : alGet name fns = some d) : name = fna ∧ d = fnaDef := by
  obtain ⟨m, ss, s, hl, hs, hd⟩ := h name d hg
  have hmem := Prog3L.line_mem hl
  simp [prog] at hmem
  rcases hmem with ⟨_, rfl⟩ | ⟨_, rfl⟩
  · simp at hs; subst hs; exact hd
  · simp at hs; subst hs; exact hd.elim

theorem call_depth {fns : List (Str × FnDefSpec Unit)} (h : FnsOf prog fns) :
    depth2 fns callFuel (.call fna [.var ['A']]) = 1 := by
  cases hg : alGet fna fns with
  | none =>
    rw [depth2.eq_def]
    simp [depthArgs, depth2, hg]
  | some d =>
    obtain ⟨_, rfl⟩ := prog_defs h fna d hg
    show depth2 fns (32 + 1) _ = 1
    rw [depth2_call_some fns 32 _ _ fnaDef hg]
    simp [depthArgs, depth2, fnaDef]

theorem static : C03.Static prog defaultFuel where
  ok := by
    intro fns hf
    refine ⟨fun name d hg => ?_, fun l hl s hs => ?_⟩
    · obtain ⟨_, rfl⟩ := prog_defs hf name d hg
      simp [fnaDef, Resolved]
    · simp [prog] at hl
      rcases hl with rfl | rfl
      · simp at hs; subst hs
        simp [ResolvedS, sdepth3]
      · simp at hs; subst hs
        refine ⟨?_, ?_, ?_⟩
        · simp only [ResolvedS, ResolvedItems, Resolved, ResolvedL, and_true]
          decide
        · simp [sdepth3, itemsDepth3, edepth, call_depth hf, defaultFuel, Extracted.nestingLimit]
        · simp [sdepth3, itemsDepth3, edepth, call_depth hf, Extracted.nestingLimit]

/-- the invariant of the run: before the DEF nothing is defined, behind it exactly `FNA` -/
def Inv (r : RState3 Unit) : Prop :=
  (r.pc = some (10, 0) ∧ r.fns = []) ∨ (r.pc = some (20, 0) ∧ r.fns = [(fna, fnaDef)]) ∨ r.pc = none

/-- the side condition "defined before use, once" holds for this program -/
theorem defsAgree : DefsAgree prog 0 := by
  refine defsAgree_of_inv Inv (Or.inl ⟨rfl, rfl⟩) ?_ ?_
  · intro r r' hI h
    rcases hI with ⟨hpc, hf⟩ | ⟨hpc, hf⟩ | hpc
    · have hl : prog.line 10 = some [ .defS fna [['X']] (.var ['X']) ] := rfl
      simp only [RStep3, hpc, hl, List.getElem?_cons_zero, RStmt3.exec] at h
      cases h
      exact Or.inr (Or.inl ⟨rfl, by simp [hf, alSet, fnaDef]⟩)
    · have hl : prog.line 20 = some [ .printS [.expr (.call fna [.var ['A']]), .semi] ] := rfl
      simp only [RStep3, hpc, hl, List.getElem?_cons_zero, RStmt3.exec] at h
      cases hp : printText3 r [.expr (.call fna [.var ['A']]), .semi] false [] with
      | error e => rw [hp] at h; cases h
      | ok q =>
        obtain ⟨txt, r1⟩ := q
        rw [hp] at h
        cases h
        exact Or.inr (Or.inr rfl)
    · rw [C03.rstep3_ended hpc] at h
      cases h
      exact Or.inr (Or.inr hpc)
  · intro r n j hI hpc'
    rcases hI with ⟨hpc, hf⟩ | ⟨hpc, hf⟩ | hpc
    · rw [hpc] at hpc'
      cases hpc'
      intro f
      simp [sigAt, sigAtL, prog, sigAfterStmts, hf, alGet]
    · rw [hpc] at hpc'
      cases hpc'
      intro f
      by_cases hff : f = fna
      · subst hff
        simp [sigAt, sigAtL, prog, sigAfterStmts, sigAfterS, hf, alGet, fnaDef, typeOf2, fna, VT.ofName, endsWithDollar]
      · have hff' : ¬ fna = f := fun h => hff h.symm
        simp [sigAt, sigAtL, prog, sigAfterStmts, sigAfterS, hf, alGet, hff, hff']
    · rw [hpc] at hpc'; cases hpc'

/-- **`sound_analyzed_file3` applies to a concrete source text with a DEF and a call of the function**:
    the analysis of the file has no error diagnostic, the program passes `typeOfP3`, and no run of the
    interpreter built from the file fails with a syntax error, TYPE MISMATCH or UNDEF'D STATEMENT. -/
theorem checked (k : Nat) :
    typeOfP3 prog = .ok () ∧
    ∀ te σ', C03.runTurns defaultFuel k (analyzeFile (F := Unit) defaultFuel text).intoInterpreter = .err te σ' →
      RunErr3 te.err ∧ te.err ≠ .typeMismatch ∧ (∀ se, te.err ≠ .syntax se) ∧ te.err ≠ .undefinedStatement :=
  have h := sound_analyzed_file3 afits fits text good noerr (C03.safeRun_of_static static 0) defsAgree k
  ⟨h.2.1, h.2.2.1⟩

end File3

end Abasic.Props.C06

