import Abasic.Props.C17
/-
  C17 — `DIM X` without parentheses declares nothing (seed round 10: an implementation that stores the default value
  there makes the later "use of undeclared variable" warning disappear).

  For the immediate line / numbered line whose tokens at the cursor are `X` followed by anything but `(` (or by nothing):
  the DIM statement succeeds, moves the cursor past the name, counts two token reads, and leaves variables, arrays and
  the output queue exactly as they were - so whether a later read of X warns is what it was before the DIM.
-/
namespace Abasic.Props.C17
open Abasic

variable {F : Type} [NumOps F]

/-- the token at the cursor and the one behind it, on an immediate line -/
theorem dim_scalar_declares_nothing (ev : Evals F) (σ : St F) (name : Str) (rest : List (Token F))
    (himm : σ.loc.line = none) (hidx : σ.loc.idx = 0) (htoks : σ.imm = Token.symbol name :: rest)
    (hnot : ∀ t, rest.head? = some t → t.isKw .LeftParen = false) :
    ∃ σ', dimStatement ev σ = .ok () σ' ∧ σ'.vars = σ.vars ∧ σ'.arrays = σ.arrays ∧ σ'.out = σ.out ∧
      σ'.loc.idx = 1 ∧ σ'.imm = σ.imm := by
  cases hr : rest with
  | nil =>
    subst hr
    refine ⟨{ σ with reads := σ.reads + 1 + 1, loc := { σ.loc with idx := σ.loc.idx + 1 } }, ?_, ?_⟩
    · simp [dimStatement, parseLValue, next, peek, advance, optionalArrayIndex, peekIsKw, tokens, tokensForLine,
        bind, M.bindM, M.get, M.modify, pure, M.pureM, himm, hidx, htoks]
    · simp [hidx]
  | cons t ts =>
    subst hr
    have ht : t.isKw .LeftParen = false := hnot t rfl
    refine ⟨{ σ with reads := σ.reads + 1 + 1, loc := { σ.loc with idx := σ.loc.idx + 1 } }, ?_, ?_⟩
    · simp [dimStatement, parseLValue, next, peek, advance, optionalArrayIndex, peekIsKw, tokens, tokensForLine,
        bind, M.bindM, M.get, M.modify, pure, M.pureM, himm, hidx, htoks, ht]
    · simp [hidx]

/-- in particular X is as unassigned after `DIM X` as it was before: the lookup a read makes is unchanged -/
theorem dim_scalar_keeps_unassigned (ev : Evals F) (σ : St F) (name : Str) (rest : List (Token F))
    (himm : σ.loc.line = none) (hidx : σ.loc.idx = 0) (htoks : σ.imm = Token.symbol name :: rest)
    (hnot : ∀ t, rest.head? = some t → t.isKw .LeftParen = false) (x : Str) :
    ∃ σ', dimStatement ev σ = .ok () σ' ∧ alGet x σ'.vars = alGet x σ.vars := by
  obtain ⟨σ', h, hv, _⟩ := dim_scalar_declares_nothing ev σ name rest himm hidx htoks hnot
  exact ⟨σ', h, by rw [hv]⟩

/-- non-vacuity: the immediate line `X` (what is left of `DIM X` behind the keyword), nothing stored -/
example (ev : Evals Unit) : ∃ σ', dimStatement ev ({ imm := [Token.symbol "X".toList] } : St Unit) = .ok () σ' ∧
    alGet "X".toList σ'.vars = none := by
  obtain ⟨σ', h, hv⟩ := dim_scalar_keeps_unassigned ev ({ imm := [Token.symbol "X".toList] } : St Unit) "X".toList [] rfl rfl rfl
    (by intro t ht; cases ht) "X".toList
  exact ⟨σ', h, by rw [hv]; rfl⟩

end Abasic.Props.C17
