import Abasic.Props.C08
import Abasic.Props.C03Stmt
import Abasic.Proofs.InputLemmas
/-
  C08 (continued) — INPUT suspends and resumes correctly wherever it sits.

  Throughout, the current line is `pre ++ INPUT :: target ++ rest` for ARBITRARY
  `pre` and `rest` (`At σ pre post`: the line is `pre ++ post`, the cursor stands
  at `|pre|`), and the state `σ` is otherwise arbitrary (any GOSUB / FN stack,
  any open loops, data cursor, functions, breakpoint, tracing flag, warnings).

  1. array targets: `input_resume_array`, `input_reenter_array` (subscripts
     abstract), `input_resume_array_render`, `input_reenter_array_render`
     (subscripts written as expression trees);
  2. whole turns on a scalar target: `input_stmt_suspend`, `input_stmt_resume`,
     `input_stmt_reenter`, `input_turn`, `input_turn_more`, `input_turn_reenter`,
     `input_equals_assignment`;
  3. placement: `Frame`, `placement_independent_stmt`, `placement_independent`,
     `placement_independent_array`, and the exception
     `input_resumes_into_else`, `then_input_else_resumes_into_else`.
-/
namespace Abasic.Props.C08
open Abasic Abasic.Ref Abasic.ExprL Abasic.StmtL Abasic.InputL

variable {F : Type} [NumOps F]

/-! ### the reply -/

/-- a reply holds more than INPUT takes: a second item, or bytes the DATA
    parser did not consume -/
def surplus (more : List (DataElement F)) (n : Nat) (text : Str) : Bool :=
  !more.isEmpty || decide (n < len8 text)

/-- `?EXTRA IGNORED`, or nothing -/
def extraOut (b : Bool) : List Out := if b then [.extraIgnored] else []

omit [NumOps F] in
theorem extraOut_iff (b : Bool) : Out.extraIgnored ∈ extraOut b ↔ b = true := by
  cases b <;> simp [extraOut]

omit [NumOps F] in
theorem emitExtra_eq (b : Bool) (σ : St F) :
    (if b = true then emit .extraIgnored else pure PUnit.unit : M F PUnit) σ =
      .ok () { σ with out := extraOut b ++ σ.out } := by
  cases b <;> rfl

omit [NumOps F] in
theorem at_input_none {σ : St F} {pre post : List (Token F)} (h : At σ pre post) :
    At ({ σ with input := none } : St F) pre post := ⟨h.1, h.2⟩

/-- the common prefix of every resumed INPUT: the reply is taken and parsed,
    then the target is parsed -/
theorem input_resumed_eq (ev : Evals F) (σ : St F) (text : Str)
    (first : DataElement F) (more : List (DataElement F)) (n : Nat)
    (hin : σ.input = some text) (hpd : parseData (F := F) text = (first :: more, n)) :
    inputStatement ev σ =
      (parseLValue ev >>= fun lv =>
        match Value.coerceFromData lv.name first with
        | .ok v => do
          assignValue lv v
          if surplus more n text then emit .extraIgnored
        | .error .dataTypeMismatch => do
          emit .reenter
          rewindAndAwaitInput
        | .error e => M.fail e) ({ σ with input := none } : St F) := by
  have htk := reply_parse σ text hin
  rw [hpd] at htk
  unfold inputStatement
  rw [bind_ok htk]
  rfl

/-! ### 1. array targets -/

/-- **input_resume_array** (subscripts abstract).  The cursor stands just behind
    INPUT, on `name ( …`, and a reply is pending.  If evaluating the subscript
    list from there (reply already taken, name and `(` look-ahead read) yields
    `idx` in the state `σ₁`, and storing into the cell succeeds (`storeCell`:
    the array exists or is created with the default size, the subscripts are
    in range), then the statement ends in `σ₁` with that cell written, the
    undeclared-array warning when warnings are on, and `?EXTRA IGNORED`
    precisely when the reply had a surplus. The reply is gone (`σ₁.input` is
    what the subscripts left of `none`). -/
theorem input_resume_array (ev : Evals F) (σ σ₁ : St F) (pre post : List (Token F)) (text name : Str)
    (first : DataElement F) (more : List (DataElement F)) (n : Nat) (v : Value F) (idx : List Nat)
    (arrs' : List (Str × ArrayV F))
    (hin : σ.input = some text)
    (hAt : At σ pre (.symbol name :: .kw .LeftParen :: post))
    (hpd : parseData (F := F) text = (first :: more, n))
    (hco : Value.coerceFromData name first = .ok v)
    (hix : arrayIndex ev (mv ({ σ with input := none } : St F) 1 (σ.reads + 1 + 1)) = .ok idx σ₁)
    (hst : storeCell name idx v σ₁.arrays = some arrs') :
    inputStatement ev σ =
      .ok () { σ₁ with arrays := arrs',
                       out := extraOut (surplus more n text) ++ (warnOut name σ₁ ++ σ₁.out) } := by
  have hlv : parseLValue ev ({ σ with input := none } : St F) = .ok { name := name, index := some idx } σ₁ := by
    rw [parseLValue_array_at (at_input_none hAt)]
    exact bind_ok hix
  have ha : assignValue { name := name, index := some idx } v σ₁ =
      .ok () { σ₁ with arrays := arrs', out := warnOut name σ₁ ++ σ₁.out } := by
    unfold assignValue
    show (warnUndeclaredArray name >>= fun _ => arraySet name idx v) σ₁ = _
    rw [bind_ok (warnUndeclaredArray_eq name σ₁)]
    exact arraySet_of_storeCell name idx v _ arrs' hst
  rw [input_resumed_eq ev σ text first more n hin hpd, bind_ok hlv]
  simp only [hco]
  rw [bind_ok ha]
  exact emitExtra_eq _ _

/-- **input_reenter_array** (subscripts abstract).  As above, but the first item
    of the reply does not suit the target (text for a numeric array).  The
    subscripts ARE evaluated first — whatever they did stays (`σ₁`) — then
    `?REENTER` is emitted and the cursor goes back ON the INPUT token, awaiting
    input.  The target array itself is not touched: in particular it is NOT
    auto-created (`arrays` is `σ₁.arrays`).  `mid` is the stretch between INPUT
    and the cursor of `σ₁` (the target), which must hold no INPUT token. -/
theorem input_reenter_array (ev : Evals F) (σ σ₁ : St F) (pre mid post post' : List (Token F))
    (text name : Str) (first : DataElement F) (more : List (DataElement F)) (n : Nat) (idx : List Nat)
    (hin : σ.input = some text)
    (hAt : At σ (pre ++ [.kw .Input]) (.symbol name :: .kw .LeftParen :: post))
    (hpd : parseData (F := F) text = (first :: more, n))
    (hco : Value.coerceFromData name first = .error .dataTypeMismatch)
    (hix : arrayIndex ev (mv ({ σ with input := none } : St F) 1 (σ.reads + 1 + 1)) = .ok idx σ₁)
    (hAt₁ : At σ₁ (pre ++ .kw .Input :: mid) post') (hmid : ∀ t ∈ mid, t.isKw .Input = false) :
    inputStatement ev σ =
      .ok () { σ₁ with loc := { σ₁.loc with idx := pre.length }, state := .awaitingInput,
                       out := .reenter :: σ₁.out, reads := σ₁.reads + (mid.length + 1) } := by
  have hlv : parseLValue ev ({ σ with input := none } : St F) = .ok { name := name, index := some idx } σ₁ := by
    rw [parseLValue_array_at (at_input_none hAt)]
    exact bind_ok hix
  rw [input_resumed_eq ev σ text first more n hin hpd, bind_ok hlv]
  simp only [hco]
  have hem : emit .reenter σ₁ = .ok () ({ σ₁ with out := .reenter :: σ₁.out } : St F) := rfl
  rw [bind_ok hem]
  have hl : lineToks ({ σ₁ with out := .reenter :: σ₁.out } : St F) = some (pre ++ .kw .Input :: (mid ++ post')) := by
    show lineToks σ₁ = _
    rw [hAt₁.1, List.append_assoc, List.cons_append]
  have hi : ({ σ₁ with out := .reenter :: σ₁.out } : St F).loc.idx = pre.length + 1 + mid.length := by
    show σ₁.loc.idx = _
    rw [hAt₁.2, List.length_append, List.length_cons]; omega
  have hf : findInputBefore (pre ++ .kw .Input :: (mid ++ post'))
      ({ σ₁ with out := .reenter :: σ₁.out } : St F).loc.idx = some pre.length := by
    rw [hi]; exact findInputBefore_mid pre mid post' hmid
  rw [rewindAndAwaitInput_at hl hf, hi]
  have : pre.length + 1 + mid.length - pre.length = mid.length + 1 := by omega
  rw [this]

/-- **input_resume_array_render.**  `INPUT name(e₁, …, eₖ)` with the subscripts
    written as expression trees (no GOSUB / FN frames, warnings off, room for
    their nesting): the subscripts have no side effects, so the resumed
    statement changes exactly: the reply (cleared), the cursor (behind the `)`),
    the cell of the array (`storeCell`, creating the default array when
    needed), the output (`?EXTRA IGNORED` iff surplus) and the read counter. -/
theorem input_resume_array_render (f : Nat) (σ : St F) (pre rest : List (Token F)) (text name : Str)
    (e : Expr F) (es : List (Expr F))
    (first : DataElement F) (more : List (DataElement F)) (n : Nat) (v : Value F) (idx : List Nat)
    (arrs' : List (Str × ArrayV F))
    (hin : σ.input = some text)
    (hAt : At σ pre (.symbol name :: .kw .LeftParen :: (renderSubs (e :: es) ++ .kw .RightParen :: rest)))
    (hq : Quiet σ) (hfit : SubsFit f σ (e :: es))
    (hpd : parseData (F := F) text = (first :: more, n))
    (hco : Value.coerceFromData name first = .ok v)
    (hv : subsVal (getVar σ) (e :: es) = some idx)
    (hst : storeCell name idx v σ.arrays = some arrs') :
    ∃ r, σ.reads < r ∧
      inputStatement (evalN f) σ =
        .ok () { σ with input := none,
                        loc := { σ.loc with idx := σ.loc.idx + (1 + (1 + (renderSubs (e :: es)).length + 1)) },
                        arrays := arrs', out := extraOut (surplus more n text) ++ σ.out, reads := r } := by
  have hAt1 := at_mv1 (at_input_none hAt) (σ.reads + 1 + 1)
  obtain ⟨r, hr, hix⟩ := arrayIndex_render f e es (mv ({ σ with input := none } : St F) 1 (σ.reads + 1 + 1))
    _ rest idx hAt1 hq hfit hv
  rw [mv_mv] at hix
  simp only [mv_reads] at hr
  refine ⟨r, by omega, ?_⟩
  rw [input_resume_array (evalN f) σ _ pre _ text name first more n v idx arrs' hin hAt hpd hco hix hst]
  have hw : warnOut name (mv ({ σ with input := none } : St F) (1 + (1 + (renderSubs (e :: es)).length + 1)) r) = [] :=
    warnOut_off hq.2
  rw [hw]
  rfl

/-- **input_reenter_array_render.**  The same statement with an unsuitable
    reply: nothing changes except that the reply is consumed, `?REENTER` is
    emitted, the cursor is back ON the INPUT token, the interpreter awaits
    input, and the read counter has grown.  In particular `arrays` is
    untouched: the target array is not auto-created by a rejected reply. -/
theorem input_reenter_array_render (f : Nat) (σ : St F) (pre rest : List (Token F)) (text name : Str)
    (e : Expr F) (es : List (Expr F))
    (first : DataElement F) (more : List (DataElement F)) (n : Nat) (idx : List Nat)
    (hin : σ.input = some text)
    (hAt : At σ (pre ++ [.kw .Input])
      (.symbol name :: .kw .LeftParen :: (renderSubs (e :: es) ++ .kw .RightParen :: rest)))
    (hq : Quiet σ) (hfit : SubsFit f σ (e :: es))
    (hpd : parseData (F := F) text = (first :: more, n))
    (hco : Value.coerceFromData name first = .error .dataTypeMismatch)
    (hv : subsVal (getVar σ) (e :: es) = some idx) :
    ∃ r, σ.reads < r ∧
      inputStatement (evalN f) σ =
        .ok () { σ with input := none, loc := { σ.loc with idx := pre.length }, state := .awaitingInput,
                        out := .reenter :: σ.out, reads := r } := by
  have hAt1 := at_mv1 (at_input_none hAt) (σ.reads + 1 + 1)
  obtain ⟨r, hr, hix⟩ := arrayIndex_render f e es (mv ({ σ with input := none } : St F) 1 (σ.reads + 1 + 1))
    _ rest idx hAt1 hq hfit hv
  rw [mv_mv] at hix
  simp only [mv_reads] at hr
  have hAt2 : At (mv ({ σ with input := none } : St F) (1 + (1 + (renderSubs (e :: es)).length + 1)) r)
      (pre ++ .kw .Input :: (.symbol name :: .kw .LeftParen :: (renderSubs (e :: es) ++ [.kw .RightParen]))) rest := by
    refine ⟨?_, ?_⟩
    · show lineToks σ = _
      rw [hAt.1]
      simp only [List.append_assoc, List.cons_append, List.nil_append]
    · show σ.loc.idx + (1 + (1 + (renderSubs (e :: es)).length + 1)) = _
      rw [hAt.2]
      simp only [List.length_append, List.length_cons, List.length_nil]
      omega
  have hmid : ∀ t ∈ (Token.symbol name :: .kw .LeftParen :: (renderSubs (e :: es) ++ [.kw .RightParen])),
      t.isKw .Input = false := by
    intro t ht
    simp only [List.mem_cons, List.mem_append, List.not_mem_nil, or_false] at ht
    rcases ht with rfl | rfl | ht | rfl
    · rfl
    · rfl
    · exact renderSubs_not_input _ t ht
    · rfl
  have h := input_reenter_array (evalN f) σ _ pre _ _ rest text name first more n idx hin hAt hpd hco hix hAt2 hmid
  refine ⟨r + ((Token.symbol (F := F) name :: .kw .LeftParen :: (renderSubs (e :: es) ++ [.kw .RightParen])).length + 1),
    by omega, ?_⟩
  rw [h]
  rfl

/-! ### 2. whole turns on a scalar target -/

omit [NumOps F] in
theorem loc_idx_self {σ : St F} {k : Nat} (h : σ.loc.idx = k) : ({ σ.loc with idx := k } : Loc) = σ.loc := by
  rw [← h]

/-- the statement evaluator started ON an INPUT token: the trace record, the
    token read, then `evaluate_input_statement` -/
theorem stmtBody_input (ev : Evals F) (σ : St F) (pre post : List (Token F))
    (hAt : At σ pre (.kw .Input :: post)) :
    stmtBody ev σ = inputStatement ev (mv ({ σ with out := traceOut σ ++ σ.out } : St F) 1 (σ.reads + 1)) := by
  have hAt' : At ({ σ with out := traceOut σ ++ σ.out } : St F) pre (.kw .Input :: post) := ⟨hAt.1, hAt.2⟩
  unfold stmtBody
  rw [bind_ok (traceHere_eq σ)]
  unfold dispatch
  rw [bind_ok (next_eq hAt')]

/-- **Suspension, statement level.**  The statement evaluator started ON an
    INPUT token with no reply pending: the interpreter awaits input with the
    cursor still ON the INPUT token; besides that only the trace record (when
    tracing a numbered line) and the read counter change. -/
theorem input_stmt_suspend (ev : Evals F) (σ : St F) (pre rest : List (Token F))
    (hin : σ.input = none) (hAt : At σ pre (.kw .Input :: rest)) :
    stmtBody ev σ =
      .ok () { σ with state := .awaitingInput, out := traceOut σ ++ σ.out, reads := σ.reads + 1 + 1 } := by
  rw [stmtBody_input ev σ pre rest hAt]
  have htk : takeInput (mv ({ σ with out := traceOut σ ++ σ.out } : St F) 1 (σ.reads + 1)) =
      .ok none (mv ({ σ with out := traceOut σ ++ σ.out } : St F) 1 (σ.reads + 1)) := by
    simp only [takeInput, bind, M.bindM, M.get]
    have : (mv ({ σ with out := traceOut σ ++ σ.out } : St F) 1 (σ.reads + 1)).input = none := hin
    simp only [this, pure, M.pureM]
  unfold inputStatement
  rw [bind_ok htk]
  show rewindAndAwaitInput _ = _
  have hl : lineToks (mv ({ σ with out := traceOut σ ++ σ.out } : St F) 1 (σ.reads + 1)) =
      some (pre ++ .kw .Input :: ([] ++ rest)) := hAt.1
  have hi : (mv ({ σ with out := traceOut σ ++ σ.out } : St F) 1 (σ.reads + 1)).loc.idx = pre.length + 1 + 0 := by
    show σ.loc.idx + 1 = _
    rw [hAt.2]
  have hf : findInputBefore (pre ++ .kw .Input :: ([] ++ rest))
      (mv ({ σ with out := traceOut σ ++ σ.out } : St F) 1 (σ.reads + 1)).loc.idx = some pre.length := by
    rw [hi]; exact findInputBefore_mid pre [] rest (fun t ht => by cases ht)
  rw [rewindAndAwaitInput_at hl hf, hi]
  have h1 : pre.length + 1 + 0 - pre.length = 1 := by omega
  rw [h1]
  show Res.ok () ({ σ with loc := { σ.loc with idx := pre.length }, state := .awaitingInput, out := traceOut σ ++ σ.out, reads := σ.reads + 1 + 1 } : St F) = _
  rw [loc_idx_self hAt.2]

/-- **Resumption, statement level** (scalar target).  Started ON the INPUT token
    with a reply whose first item suits `name`: exactly the assignment
    `name := coerced first item`, the reply cleared, the cursor behind the
    statement, `?EXTRA IGNORED` iff surplus. -/
theorem input_stmt_resume (ev : Evals F) (σ : St F) (pre rest : List (Token F)) (text name : Str)
    (first : DataElement F) (more : List (DataElement F)) (n : Nat) (v : Value F)
    (hin : σ.input = some text)
    (hAt : At σ pre (.kw .Input :: .symbol name :: rest))
    (hnp : ∀ t, rest.head? = some t → t.isKw .LeftParen = false)
    (hpd : parseData (F := F) text = (first :: more, n))
    (hco : Value.coerceFromData name first = .ok v) :
    stmtBody ev σ =
      .ok () { σ with input := none, loc := { σ.loc with idx := σ.loc.idx + 2 },
                      vars := alSet name v σ.vars,
                      out := extraOut (surplus more n text) ++ (traceOut σ ++ σ.out),
                      reads := σ.reads + 1 + 1 + 1 } := by
  have hAt' : At ({ σ with out := traceOut σ ++ σ.out } : St F) pre (.kw .Input :: .symbol name :: rest) :=
    ⟨hAt.1, hAt.2⟩
  have hm := coerce_matches name first v hco
  rw [stmtBody_input ev σ pre _ hAt,
    input_resumed_eq ev (mv ({ σ with out := traceOut σ ++ σ.out } : St F) 1 (σ.reads + 1)) text first more n hin hpd,
    bind_ok (parseLValue_scalar_at (at_input_none (at_mv1 hAt' (σ.reads + 1))) hnp)]
  simp only [hco]
  have ha : ∀ s : St F, assignValue { name := name, index := none } v s =
      .ok () { s with vars := alSet name v s.vars } := by
    intro s
    simp only [assignValue, setVar, hm, ↓reduceIte, M.modify]
  rw [bind_ok (ha _)]
  exact (emitExtra_eq _ _).trans rfl

/-- **Rejection, statement level** (scalar target).  Started ON the INPUT token
    with a reply whose first item does not suit `name`: `?REENTER`, reply
    consumed, awaiting input, cursor still ON the INPUT token; nothing else but
    the trace record and the read counter changes. -/
theorem input_stmt_reenter (ev : Evals F) (σ : St F) (pre rest : List (Token F)) (text name : Str)
    (first : DataElement F) (more : List (DataElement F)) (n : Nat)
    (hin : σ.input = some text)
    (hAt : At σ pre (.kw .Input :: .symbol name :: rest))
    (hnp : ∀ t, rest.head? = some t → t.isKw .LeftParen = false)
    (hpd : parseData (F := F) text = (first :: more, n))
    (hco : Value.coerceFromData name first = .error .dataTypeMismatch) :
    stmtBody ev σ =
      .ok () { σ with input := none, state := .awaitingInput,
                      out := .reenter :: (traceOut σ ++ σ.out), reads := σ.reads + 1 + 1 + 1 + 2 } := by
  have hAt' : At ({ σ with out := traceOut σ ++ σ.out } : St F) pre (.kw .Input :: .symbol name :: rest) :=
    ⟨hAt.1, hAt.2⟩
  rw [stmtBody_input ev σ pre _ hAt,
    input_resumed_eq ev (mv ({ σ with out := traceOut σ ++ σ.out } : St F) 1 (σ.reads + 1)) text first more n hin hpd,
    bind_ok (parseLValue_scalar_at (at_input_none (at_mv1 hAt' (σ.reads + 1))) hnp)]
  simp only [hco]
  have hem : ∀ s : St F, emit .reenter s = .ok () ({ s with out := .reenter :: s.out } : St F) := fun _ => rfl
  rw [bind_ok (hem _)]
  have hl : lineToks ({ σ with input := none, loc := { σ.loc with idx := σ.loc.idx + 1 + 1 }, out := .reenter :: (traceOut σ ++ σ.out), reads := σ.reads + 1 + 1 + 1 } : St F) =
      some (pre ++ .kw .Input :: ([.symbol name] ++ rest)) := hAt.1
  have hf : findInputBefore (pre ++ .kw .Input :: ([.symbol name] ++ rest)) (σ.loc.idx + 1 + 1) = some pre.length := by
    rw [hAt.2]
    exact findInputBefore_mid pre [.symbol name] rest (fun t ht => by
      simp only [List.mem_singleton] at ht; subst ht; rfl)
  refine (rewindAndAwaitInput_at hl hf).trans ?_
  have h2 : σ.loc.idx + 1 + 1 - pre.length = 2 := by rw [hAt.2]; omega
  show Res.ok () ({ σ with input := none, loc := { σ.loc with idx := pre.length }, state := .awaitingInput, out := .reenter :: (traceOut σ ++ σ.out), reads := σ.reads + 1 + 1 + 1 + (σ.loc.idx + 1 + 1 - pre.length) } : St F) = _
  rw [h2, loc_idx_self hAt.2]

omit [NumOps F] in
theorem provideInput_eq (text : Str) (σ : St F) (h : σ.state = .awaitingInput) :
    provideInput text σ = .ok () { σ with input := some text, state := .running } := by
  simp [provideInput, bind, M.bindM, M.get, h, M.set]

omit [NumOps F] in
theorem at_mv0' {σ : St F} {pre post : List (Token F)} (h : At σ pre post) (r : Nat) : At (mv σ 0 r) pre post :=
  ⟨h.1, h.2⟩

/-- **input_turn.**  One whole INPUT turn on a scalar target, wherever it sits.
    From a running state with the cursor ON `INPUT name` and no reply pending:

    * `continue_evaluating` suspends: the state becomes `awaitingInput`, the
      cursor stays ON the INPUT token, nothing else changes (trace record and
      read counter aside);
    * `provide_input text` followed by `continue_evaluating` performs exactly
      `name := coerce (first item of text)`, emits `?EXTRA IGNORED` iff the
      reply had a surplus, and leaves the cursor behind the statement; then
      the ordinary end-of-statement bookkeeping `lineEndSt` runs (nothing but
      a read when more tokens follow on the line: `input_turn_more`). -/
theorem input_turn (fuel : Nat) (σ : St F) (pre rest : List (Token F)) (text name : Str)
    (first : DataElement F) (more : List (DataElement F)) (n : Nat) (v : Value F)
    (hs : σ.state = .running) (hin : σ.input = none)
    (hAt : At σ pre (.kw .Input :: .symbol name :: rest))
    (hnp : ∀ t, rest.head? = some t → t.isKw .LeftParen = false)
    (hpd : parseData (F := F) text = (first :: more, n))
    (hco : Value.coerceFromData name first = .ok v) :
    continueEvaluating fuel σ =
      .ok () { σ with state := .awaitingInput, out := traceOut σ ++ σ.out, reads := σ.reads + 4 } ∧
    (provideInput text >>= fun _ => continueEvaluating fuel)
        ({ σ with state := .awaitingInput, out := traceOut σ ++ σ.out, reads := σ.reads + 4 } : St F) =
      .ok () (lineEndSt { σ with vars := alSet name v σ.vars, loc := { σ.loc with idx := σ.loc.idx + 2 }, out := extraOut (surplus more n text) ++ (traceOut σ ++ (traceOut σ ++ σ.out)), reads := σ.reads + 8 }) := by
  constructor
  · have hst := input_stmt_suspend (evalN fuel) (mv σ 0 (σ.reads + 1)) pre _ hin (at_mv0' hAt _)
    have hAt' : At ({ mv σ 0 (σ.reads + 1) with state := .awaitingInput, out := traceOut (mv σ 0 (σ.reads + 1)) ++ (mv σ 0 (σ.reads + 1)).out, reads := (mv σ 0 (σ.reads + 1)).reads + 1 + 1 } : St F) pre
        (.kw .Input :: .symbol name :: rest) := ⟨hAt.1, hAt.2⟩
    rw [continue_ok hs hAt hst hAt', lineEndSt_more hAt']
    rfl
  · have hp := provideInput_eq text
      ({ σ with state := .awaitingInput, out := traceOut σ ++ σ.out, reads := σ.reads + 4 } : St F) rfl
    rw [bind_ok hp]
    have hAt1 : At ({ σ with input := some text, state := .running, out := traceOut σ ++ σ.out, reads := σ.reads + 4 } : St F) pre
        (.kw .Input :: .symbol name :: rest) := ⟨hAt.1, hAt.2⟩
    have hst := input_stmt_resume (evalN fuel) (mv ({ σ with input := some text, state := .running, out := traceOut σ ++ σ.out, reads := σ.reads + 4 } : St F) 0 (σ.reads + 4 + 1)) pre rest text name first more n v rfl
      (at_mv0' hAt1 _) hnp hpd hco
    have hAt2 : At ({ σ with vars := alSet name v σ.vars, loc := { σ.loc with idx := σ.loc.idx + 2 }, out := extraOut (surplus more n text) ++ (traceOut σ ++ (traceOut σ ++ σ.out)), reads := σ.reads + 8 } : St F)
        (pre ++ [.kw .Input, .symbol name]) rest := by
      refine ⟨?_, ?_⟩
      · show lineToks σ = _
        rw [hAt.1]; simp only [List.append_assoc, List.cons_append, List.nil_append]
      · show σ.loc.idx + 2 = _
        rw [hAt.2]; simp only [List.length_append, List.length_cons, List.length_nil]
    have hfin : ({ σ with vars := alSet name v σ.vars, loc := { σ.loc with idx := σ.loc.idx + 2 }, out := extraOut (surplus more n text) ++ (traceOut σ ++ (traceOut σ ++ σ.out)), reads := σ.reads + 8 } : St F) =
        ({ σ with input := none, state := .running, vars := alSet name v σ.vars, loc := { σ.loc with idx := σ.loc.idx + 2 }, out := extraOut (surplus more n text) ++ (traceOut σ ++ (traceOut σ ++ σ.out)), reads := σ.reads + 8 } : St F) := by
      cases σ
      simp only at hs hin
      subst hs; subst hin
      rfl
    rw [hfin] at hAt2 ⊢
    exact continue_ok (σ := ({ σ with input := some text, state := .running, out := traceOut σ ++ σ.out, reads := σ.reads + 4 } : St F)) rfl hAt1 hst hAt2

/-- `input_turn` when more tokens follow the statement on its line (a colon, an
    ELSE, …): the end-of-statement bookkeeping is one more read. -/
theorem input_turn_more (fuel : Nat) (σ : St F) (pre post : List (Token F)) (t : Token F) (text name : Str)
    (first : DataElement F) (more : List (DataElement F)) (n : Nat) (v : Value F)
    (hs : σ.state = .running) (hin : σ.input = none)
    (hAt : At σ pre (.kw .Input :: .symbol name :: t :: post))
    (hnp : t.isKw .LeftParen = false)
    (hpd : parseData (F := F) text = (first :: more, n))
    (hco : Value.coerceFromData name first = .ok v) :
    continueEvaluating fuel σ =
      .ok () { σ with state := .awaitingInput, out := traceOut σ ++ σ.out, reads := σ.reads + 4 } ∧
    (provideInput text >>= fun _ => continueEvaluating fuel)
        ({ σ with state := .awaitingInput, out := traceOut σ ++ σ.out, reads := σ.reads + 4 } : St F) =
      .ok () { σ with vars := alSet name v σ.vars, loc := { σ.loc with idx := σ.loc.idx + 2 }, out := extraOut (surplus more n text) ++ (traceOut σ ++ (traceOut σ ++ σ.out)), reads := σ.reads + 9 } := by
  obtain ⟨h1, h2⟩ := input_turn fuel σ pre (t :: post) text name first more n v hs hin hAt
    (fun u hu => by simp only [List.head?_cons, Option.some.injEq] at hu; subst hu; exact hnp) hpd hco
  refine ⟨h1, ?_⟩
  rw [h2]
  have hAt2 : At ({ σ with vars := alSet name v σ.vars, loc := { σ.loc with idx := σ.loc.idx + 2 }, out := extraOut (surplus more n text) ++ (traceOut σ ++ (traceOut σ ++ σ.out)), reads := σ.reads + 8 } : St F)
      (pre ++ [.kw .Input, .symbol name]) (t :: post) := by
    refine ⟨?_, ?_⟩
    · show lineToks σ = _
      rw [hAt.1]; simp only [List.append_assoc, List.cons_append, List.nil_append]
    · show σ.loc.idx + 2 = _
      rw [hAt.2]; simp only [List.length_append, List.length_cons, List.length_nil]
  rw [lineEndSt_more hAt2]
  rfl

/-- **input_turn_reenter.**  The second half of the turn with an unsuitable
    reply: back to the suspended state — `awaitingInput`, cursor ON the INPUT
    token — with `?REENTER` (and a second trace record) in the output; the
    variables are untouched. -/
theorem input_turn_reenter (fuel : Nat) (σ : St F) (pre rest : List (Token F)) (text name : Str)
    (first : DataElement F) (more : List (DataElement F)) (n : Nat)
    (hin : σ.input = none)
    (hAt : At σ pre (.kw .Input :: .symbol name :: rest))
    (hnp : ∀ t, rest.head? = some t → t.isKw .LeftParen = false)
    (hpd : parseData (F := F) text = (first :: more, n))
    (hco : Value.coerceFromData name first = .error .dataTypeMismatch) :
    (provideInput text >>= fun _ => continueEvaluating fuel)
        ({ σ with state := .awaitingInput, out := traceOut σ ++ σ.out, reads := σ.reads + 4 } : St F) =
      .ok () { σ with state := .awaitingInput, out := .reenter :: (traceOut σ ++ (traceOut σ ++ σ.out)), reads := σ.reads + 11 } := by
  have hp := provideInput_eq text
    ({ σ with state := .awaitingInput, out := traceOut σ ++ σ.out, reads := σ.reads + 4 } : St F) rfl
  rw [bind_ok hp]
  have hAt1 : At ({ σ with input := some text, state := .running, out := traceOut σ ++ σ.out, reads := σ.reads + 4 } : St F) pre
      (.kw .Input :: .symbol name :: rest) := ⟨hAt.1, hAt.2⟩
  have hst := input_stmt_reenter (evalN fuel) (mv ({ σ with input := some text, state := .running, out := traceOut σ ++ σ.out, reads := σ.reads + 4 } : St F) 0 (σ.reads + 4 + 1)) pre rest text name first more n rfl
    (at_mv0' hAt1 _) hnp hpd hco
  have hAt2 : At ({ σ with input := none, state := .awaitingInput, out := .reenter :: (traceOut σ ++ (traceOut σ ++ σ.out)), reads := σ.reads + 4 + 1 + 1 + 1 + 1 + 2 } : St F) pre
      (.kw .Input :: .symbol name :: rest) := ⟨hAt.1, hAt.2⟩
  have hc : continueEvaluating fuel ({ σ with input := some text, state := .running, out := traceOut σ ++ σ.out, reads := σ.reads + 4 } : St F) =
      .ok () (lineEndSt ({ σ with input := none, state := .awaitingInput, out := .reenter :: (traceOut σ ++ (traceOut σ ++ σ.out)), reads := σ.reads + 4 + 1 + 1 + 1 + 1 + 2 } : St F)) :=
    continue_ok rfl hAt1 hst hAt2
  rw [hc, lineEndSt_more hAt2]
  have hfin : ({ σ with state := .awaitingInput, out := .reenter :: (traceOut σ ++ (traceOut σ ++ σ.out)), reads := σ.reads + 11 } : St F) =
      ({ σ with input := none, state := .awaitingInput, out := .reenter :: (traceOut σ ++ (traceOut σ ++ σ.out)), reads := σ.reads + 11 } : St F) := by
    cases σ
    simp only at hin
    subst hin
    rfl
  rw [hfin]
  rfl

/-! ### INPUT as an assignment -/

/-- the literal that denotes a value -/
def litOf : Value F → Expr F
  | .num x => .num x
  | .str s => .str s

theorem foldE_litOf (env : Str → Value F) (v : Value F) : foldE env (litOf v) = .ok v := by
  cases v <;> simp [litOf, foldE]

theorem renderS_let_lit_length (name : Str) (v : Value F) :
    (renderS (.letS name (litOf v))).length = 4 := by
  cases v <;> simp [renderS, litOf, render_num, render_str]

/-- **input_equals_assignment.**  The resumed INPUT turn and the turn of
    `LET name = <literal of the coerced value>` standing in its place (same
    `pre`, same `rest`) are the same state transformer: `vars := alSet name v vars`,
    the cursor just behind the respective statement (2 resp. 4 tokens), then
    the same end-of-statement bookkeeping `lineEndSt`.  INPUT additionally
    clears the reply and may emit `?EXTRA IGNORED` (and the trace record, which
    `SReady` switches off for the LET side); the read counters differ.
    The LET side is `let_refines` (C03Stmt). -/
theorem input_equals_assignment (n : Nat) (σI σL : St F) (pre rest : List (Token F)) (text name : Str)
    (first : DataElement F) (more : List (DataElement F)) (k : Nat) (v : Value F)
    (hsI : σI.state = .running) (hsL : σL.state = .running)
    (hin : σI.input = some text)
    (hAtI : At σI pre (.kw .Input :: .symbol name :: rest))
    (hL : C03.SReady σL pre (.letS name (litOf v)) rest n)
    (hpd : parseData (F := F) text = (first :: more, k))
    (hco : Value.coerceFromData name first = .ok v) :
    ∃ kI kL,
      continueEvaluating n σI = .ok () (lineEndSt { σI with input := none, vars := alSet name v σI.vars, loc := { σI.loc with idx := pre.length + 2 }, out := extraOut (surplus more k text) ++ (traceOut σI ++ σI.out), reads := kI }) ∧
      continueEvaluating n σL = .ok () (lineEndSt { σL with vars := alSet name v σL.vars, loc := { σL.loc with idx := pre.length + 4 }, reads := kL }) := by
  have hm := coerce_matches name first v hco
  have hnp : ∀ t, rest.head? = some t → t.isKw .LeftParen = false := by
    intro t ht
    rcases hL.ends.stmtEnd t ht with rfl | rfl <;> rfl
  -- the INPUT side
  have hstI := input_stmt_resume (evalN n) (mv σI 0 (σI.reads + 1)) pre rest text name first more k v hin
    (at_mv0' hAtI _) hnp hpd hco
  have hAtI2 : At ({ σI with input := none, vars := alSet name v σI.vars, loc := { σI.loc with idx := pre.length + 2 }, out := extraOut (surplus more k text) ++ (traceOut σI ++ σI.out), reads := σI.reads + 1 + 1 + 1 + 1 } : St F)
      (pre ++ [.kw .Input, .symbol name]) rest := by
    refine ⟨?_, ?_⟩
    · show lineToks σI = _
      rw [hAtI.1]; simp only [List.append_assoc, List.cons_append, List.nil_append]
    · show pre.length + 2 = _
      simp only [List.length_append, List.length_cons, List.length_nil]
  have hcI : continueEvaluating n σI = .ok () (lineEndSt ({ σI with input := none, vars := alSet name v σI.vars, loc := { σI.loc with idx := pre.length + 2 }, out := extraOut (surplus more k text) ++ (traceOut σI ++ σI.out), reads := σI.reads + 1 + 1 + 1 + 1 } : St F)) := by
    refine continue_ok hsI hAtI ?_ hAtI2
    rw [hstI]
    have : (mv σI 0 (σI.reads + 1)).loc.idx + 2 = pre.length + 2 := by
      show σI.loc.idx + 0 + 2 = _; rw [hAtI.2]
    rw [this]
    rfl
  -- the LET side
  have hL' : C03.SReady (mv σL 0 (σL.reads + 1)) pre (.letS name (litOf v)) rest n :=
    { toks := ExprL.tokens_eq (by rw [lineToks_mv]; exact (C03.SReady.at hL).1 ▸ by rw [List.append_assoc])
      idx := hL.idx, stack := hL.stack, warnings := hL.warnings, tracing := hL.tracing,
      nesting := hL.nesting, fuel := hL.fuel, covered := hL.covered, ends := hL.ends }
  obtain ⟨kL, _, hstL⟩ := (C03.let_refines name (litOf v) n _ pre rest hL').1 v (foldE_litOf _ v) hm
  rw [renderS_let_lit_length] at hstL
  have hAtL : At σL pre (renderS (.letS name (litOf v)) ++ rest) := C03.SReady.at hL
  obtain ⟨kw, ts, hhead⟩ := renderS_head (.letS name (litOf v))
  have hAtL0 : At σL pre (.kw kw :: (ts ++ rest)) := by rw [hhead] at hAtL; exact hAtL
  have hAtL2 : At ({ σL with vars := alSet name v σL.vars, loc := { σL.loc with idx := pre.length + 4 }, reads := kL } : St F)
      (pre ++ renderS (.letS name (litOf v))) rest := by
    refine ⟨?_, ?_⟩
    · show lineToks σL = _
      rw [hAtL.1, List.append_assoc]
    · show pre.length + 4 = _
      rw [List.length_append, renderS_let_lit_length]
  exact ⟨_, kL, hcI, continue_ok hsL hAtL0 hstL hAtL2⟩

/-- agreement of two states on everything but the program text, the cursor, the
    pending reply and the read counter -/
structure SameStore (σ σ' : St F) : Prop where
  bp : σ'.bp = σ.bp
  stack : σ'.stack = σ.stack
  loops : σ'.loops = σ.loops
  data : σ'.data = σ.data
  fns : σ'.fns = σ.fns
  nesting : σ'.nesting = σ.nesting
  out : σ'.out = σ.out
  state : σ'.state = σ.state
  rng : σ'.rng = σ.rng
  vars : σ'.vars = σ.vars
  arrays : σ'.arrays = σ.arrays
  warnings : σ'.warnings = σ.warnings
  tracing : σ'.tracing = σ.tracing
  accesses : σ'.accesses = σ.accesses

/-- **input_equals_assignment, on equal stores.**  If the INPUT program and the
    LET program are in states that agree on everything but the program text,
    the cursor, the reply and the read counter, the reply has exactly one item,
    and a token follows the statement on its line, then after the resumed INPUT
    turn resp. the LET turn they still agree on all of that, the reply is
    gone, and each cursor stands just behind its statement on its line. -/
theorem input_equals_assignment_same (n : Nat) (σI σL : St F) (pre post : List (Token F)) (t : Token F)
    (text name : Str) (first : DataElement F) (k : Nat) (v : Value F)
    (hsI : σI.state = .running)
    (hin : σI.input = some text) (hinL : σL.input = none)
    (hAtI : At σI pre (.kw .Input :: .symbol name :: t :: post))
    (hL : C03.SReady σL pre (.letS name (litOf v)) (t :: post) n)
    (hsame : SameStore σI σL)
    (hpd : parseData (F := F) text = ([first], k)) (hall : ¬ k < len8 text)
    (hco : Value.coerceFromData name first = .ok v) :
    ∃ σI' σL', continueEvaluating n σI = .ok () σI' ∧ continueEvaluating n σL = .ok () σL' ∧
      SameStore σI' σL' ∧ σI'.input = none ∧ σL'.input = none ∧
      σI'.vars = alSet name v σI.vars ∧
      σI'.loc = { σI.loc with idx := pre.length + 2 } ∧ σL'.loc = { σL.loc with idx := pre.length + 4 } ∧
      σI'.lines = σI.lines ∧ σI'.imm = σI.imm ∧ σL'.lines = σL.lines ∧ σL'.imm = σL.imm := by
  have hsL : σL.state = .running := by rw [hsame.state, hsI]
  obtain ⟨kI, kL, hI, hLt⟩ := input_equals_assignment n σI σL pre (t :: post) text name first [] k v hsI hsL hin hAtI hL hpd hco
  have htrI : σI.tracing = false := by rw [← hsame.tracing]; exact hL.tracing
  have hsur : surplus ([] : List (DataElement F)) k text = false := by
    simp only [surplus, List.isEmpty_nil, Bool.not_true, Bool.false_or, decide_eq_false_iff_not]
    exact hall
  have hAtI2 : At ({ σI with input := none, vars := alSet name v σI.vars, loc := { σI.loc with idx := pre.length + 2 }, out := extraOut (surplus ([] : List (DataElement F)) k text) ++ (traceOut σI ++ σI.out), reads := kI } : St F)
      (pre ++ [.kw .Input, .symbol name]) (t :: post) := by
    refine ⟨?_, ?_⟩
    · show lineToks σI = _
      rw [hAtI.1]; simp only [List.append_assoc, List.cons_append, List.nil_append]
    · show pre.length + 2 = _
      simp only [List.length_append, List.length_cons, List.length_nil]
  have hAtL : At σL pre (renderS (.letS name (litOf v)) ++ t :: post) := C03.SReady.at hL
  have hAtL2 : At ({ σL with vars := alSet name v σL.vars, loc := { σL.loc with idx := pre.length + 4 }, reads := kL } : St F)
      (pre ++ renderS (.letS name (litOf v))) (t :: post) := by
    refine ⟨?_, ?_⟩
    · show lineToks σL = _
      rw [hAtL.1, List.append_assoc]
    · show pre.length + 4 = _
      rw [List.length_append, renderS_let_lit_length]
  rw [lineEndSt_more hAtI2] at hI
  rw [lineEndSt_more hAtL2] at hLt
  refine ⟨_, _, hI, hLt, ?_, rfl, hinL, rfl, rfl, rfl, rfl, rfl, rfl, rfl⟩
  have hout : extraOut (surplus ([] : List (DataElement F)) k text) ++ (traceOut σI ++ σI.out) = σI.out := by
    rw [hsur, traceOut_off htrI]; rfl
  exact { bp := hsame.bp, stack := hsame.stack, loops := hsame.loops, data := hsame.data, fns := hsame.fns,
          nesting := hsame.nesting, out := by show σL.out = _; rw [hout]; exact hsame.out,
          state := hsame.state, rng := hsame.rng,
          vars := by show alSet name v σL.vars = alSet name v σI.vars; rw [hsame.vars],
          arrays := hsame.arrays, warnings := hsame.warnings, tracing := hsame.tracing,
          accesses := hsame.accesses }

/-! ### 3. placement independence -/

/-- everything INPUT never touches: program text, current line number,
    breakpoint, GOSUB / FN stack, open loops, data cursor, functions, nesting
    counter, random seed, flags, analyzer table -/
structure Frame (σ σ' : St F) : Prop where
  lines : σ'.lines = σ.lines
  imm : σ'.imm = σ.imm
  line : σ'.loc.line = σ.loc.line
  bp : σ'.bp = σ.bp
  stack : σ'.stack = σ.stack
  loops : σ'.loops = σ.loops
  data : σ'.data = σ.data
  fns : σ'.fns = σ.fns
  nesting : σ'.nesting = σ.nesting
  rng : σ'.rng = σ.rng
  warnings : σ'.warnings = σ.warnings
  tracing : σ'.tracing = σ.tracing
  accesses : σ'.accesses = σ.accesses

omit [NumOps F] in
theorem Frame.refl (σ : St F) : Frame σ σ :=
  ⟨rfl, rfl, rfl, rfl, rfl, rfl, rfl, rfl, rfl, rfl, rfl, rfl, rfl⟩

/-- a frame whose thirteen equations hold by computation -/
local macro "frame_rfl" : term => `(⟨rfl, rfl, rfl, rfl, rfl, rfl, rfl, rfl, rfl, rfl, rfl, rfl, rfl⟩)

/-- **placement_independent (suspension).**  For ANY tokens `pre` in front of the
    INPUT and `rest` behind it, and ANY state (stack, loops, …): the statement
    evaluator started on the INPUT token with no reply pending changes only
    `state` (now awaiting input), `out` (trace record) and `reads`; the cursor
    is ON the INPUT token. -/
theorem placement_independent_suspend (ev : Evals F) (σ : St F) (pre rest : List (Token F))
    (hin : σ.input = none) (hAt : At σ pre (.kw .Input :: rest)) :
    ∃ σ', stmtBody ev σ = .ok () σ' ∧ Frame σ σ' ∧ σ'.state = .awaitingInput ∧ σ'.loc = σ.loc ∧
      σ'.input = none ∧ σ'.vars = σ.vars ∧ σ'.arrays = σ.arrays ∧ σ'.out = traceOut σ ++ σ.out :=
  ⟨_, input_stmt_suspend ev σ pre rest hin hAt, frame_rfl, rfl, rfl, hin, rfl, rfl, rfl⟩

/-- **placement_independent (resumption).**  Likewise with a suitable reply:
    only `input` (cleared), `loc.idx` (two tokens on), the target variable,
    `out` and `reads` change. -/
theorem placement_independent_resume (ev : Evals F) (σ : St F) (pre rest : List (Token F)) (text name : Str)
    (first : DataElement F) (more : List (DataElement F)) (n : Nat) (v : Value F)
    (hin : σ.input = some text)
    (hAt : At σ pre (.kw .Input :: .symbol name :: rest))
    (hnp : ∀ t, rest.head? = some t → t.isKw .LeftParen = false)
    (hpd : parseData (F := F) text = (first :: more, n))
    (hco : Value.coerceFromData name first = .ok v) :
    ∃ σ', stmtBody ev σ = .ok () σ' ∧ Frame σ σ' ∧ σ'.state = σ.state ∧ σ'.loc.idx = σ.loc.idx + 2 ∧
      σ'.input = none ∧ alGet name σ'.vars = some v ∧ (∀ y, y ≠ name → alGet y σ'.vars = alGet y σ.vars) ∧
      σ'.arrays = σ.arrays ∧ σ'.out = extraOut (surplus more n text) ++ (traceOut σ ++ σ.out) :=
  ⟨_, input_stmt_resume ev σ pre rest text name first more n v hin hAt hnp hpd hco, frame_rfl, rfl, rfl, rfl,
    alGet_alSet_same name v σ.vars, fun y hy => alGet_alSet_other name y v σ.vars hy, rfl, rfl⟩

/-- **placement_independent (rejection).**  Likewise with an unsuitable reply:
    only `input` (consumed), `state` (awaiting input again), `out` and `reads`
    change; the cursor is back ON the INPUT token. -/
theorem placement_independent_reenter (ev : Evals F) (σ : St F) (pre rest : List (Token F)) (text name : Str)
    (first : DataElement F) (more : List (DataElement F)) (n : Nat)
    (hin : σ.input = some text)
    (hAt : At σ pre (.kw .Input :: .symbol name :: rest))
    (hnp : ∀ t, rest.head? = some t → t.isKw .LeftParen = false)
    (hpd : parseData (F := F) text = (first :: more, n))
    (hco : Value.coerceFromData name first = .error .dataTypeMismatch) :
    ∃ σ', stmtBody ev σ = .ok () σ' ∧ Frame σ σ' ∧ σ'.state = .awaitingInput ∧ σ'.loc = σ.loc ∧
      σ'.input = none ∧ σ'.vars = σ.vars ∧ σ'.arrays = σ.arrays ∧
      σ'.out = .reenter :: (traceOut σ ++ σ.out) :=
  ⟨_, input_stmt_reenter ev σ pre rest text name first more n hin hAt hnp hpd hco, frame_rfl, rfl, rfl, rfl, rfl,
    rfl, rfl⟩

/-- **placement_independent** (whole turn).  `INPUT name` followed by any token
    `t` (a colon, an ELSE, …) after ANY prefix `pre` — THEN branch, ELSE branch,
    behind a colon, FOR body, subroutine — in ANY running state: the suspending
    call and the resuming call of `continue_evaluating` both leave program
    text, line, breakpoint, stack, loops, data cursor, functions, nesting,
    seed, flags and arrays alone; the suspended state differs from the start
    only in `state`, `out`, `reads`; the resumed state has the reply cleared,
    the cursor two tokens on, `name` set and every other variable as before. -/
theorem placement_independent (fuel : Nat) (σ : St F) (pre post : List (Token F)) (t : Token F) (text name : Str)
    (first : DataElement F) (more : List (DataElement F)) (n : Nat) (v : Value F)
    (hs : σ.state = .running) (hin : σ.input = none)
    (hAt : At σ pre (.kw .Input :: .symbol name :: t :: post))
    (hnp : t.isKw .LeftParen = false)
    (hpd : parseData (F := F) text = (first :: more, n))
    (hco : Value.coerceFromData name first = .ok v) :
    ∃ σs σr,
      continueEvaluating fuel σ = .ok () σs ∧
      Frame σ σs ∧ σs.state = .awaitingInput ∧ σs.loc = σ.loc ∧ σs.input = none ∧ σs.vars = σ.vars ∧
        σs.arrays = σ.arrays ∧
      (provideInput text >>= fun _ => continueEvaluating fuel) σs = .ok () σr ∧
      Frame σ σr ∧ σr.state = .running ∧ σr.loc.idx = σ.loc.idx + 2 ∧ σr.input = none ∧
        alGet name σr.vars = some v ∧ (∀ y, y ≠ name → alGet y σr.vars = alGet y σ.vars) ∧
        σr.arrays = σ.arrays ∧
        σr.out = extraOut (surplus more n text) ++ (traceOut σ ++ (traceOut σ ++ σ.out)) := by
  obtain ⟨h1, h2⟩ := input_turn_more fuel σ pre post t text name first more n v hs hin hAt hnp hpd hco
  exact ⟨_, _, h1, frame_rfl, rfl, rfl, hin, rfl, rfl, h2, frame_rfl, hs, rfl, hin,
    alGet_alSet_same name v σ.vars, fun y hy => alGet_alSet_other name y v σ.vars hy, rfl, rfl⟩

/-- **placement_independent (array target).**  `INPUT name(e₁, …, eₖ)` with
    subscripts written as expression trees, at the statement level
    (`inputStatement`, cursor just behind INPUT), after ANY `pre` and before ANY
    `rest`: a suitable reply changes only `input`, `loc.idx`, the array `name`
    (cell written, every other array as before), `out`, `reads`; an unsuitable
    one only `input`, `loc.idx` (back ON INPUT), `state`, `out`, `reads`. -/
theorem placement_independent_array (f : Nat) (σ : St F) (pre rest : List (Token F)) (text name : Str)
    (e : Expr F) (es : List (Expr F))
    (first : DataElement F) (more : List (DataElement F)) (n : Nat) (idx : List Nat)
    (hin : σ.input = some text)
    (hAt : At σ (pre ++ [.kw .Input])
      (.symbol name :: .kw .LeftParen :: (renderSubs (e :: es) ++ .kw .RightParen :: rest)))
    (hq : Quiet σ) (hfit : SubsFit f σ (e :: es))
    (hpd : parseData (F := F) text = (first :: more, n))
    (hv : subsVal (getVar σ) (e :: es) = some idx) :
    (∀ v arrs', Value.coerceFromData name first = .ok v → storeCell name idx v σ.arrays = some arrs' →
      ∃ σ', inputStatement (evalN f) σ = .ok () σ' ∧ Frame σ σ' ∧ σ'.state = σ.state ∧ σ'.input = none ∧
        σ'.loc.idx = σ.loc.idx + (1 + (1 + (renderSubs (e :: es)).length + 1)) ∧ σ'.vars = σ.vars ∧
        σ'.arrays = arrs' ∧ (∀ y, y ≠ name → alGet y σ'.arrays = alGet y σ.arrays) ∧
        σ'.out = extraOut (surplus more n text) ++ σ.out) ∧
    (Value.coerceFromData name first = .error .dataTypeMismatch →
      ∃ σ', inputStatement (evalN f) σ = .ok () σ' ∧ Frame σ σ' ∧ σ'.state = .awaitingInput ∧ σ'.input = none ∧
        σ'.loc.idx = pre.length ∧ σ'.vars = σ.vars ∧ σ'.arrays = σ.arrays ∧ σ'.out = .reenter :: σ.out) := by
  constructor
  · intro v arrs' hco hst
    obtain ⟨r, _, hr⟩ := input_resume_array_render f σ (pre ++ [.kw .Input]) rest text name e es first more n v idx
      arrs' hin hAt hq hfit hpd hco hv hst
    obtain ⟨_, _, _, _, _, _, _, _, _, _, _, hother⟩ := storeCell_spec hst
    exact ⟨_, hr, frame_rfl, rfl, rfl, rfl, rfl, rfl, hother, rfl⟩
  · intro hco
    obtain ⟨r, _, hr⟩ := input_reenter_array_render f σ pre rest text name e es first more n idx hin hAt hq hfit hpd
      hco hv
    exact ⟨_, hr, frame_rfl, rfl, rfl, rfl, rfl, rfl, rfl⟩

/-! ### the exception: `THEN INPUT … ELSE` on one line (KF-ELSE-RESUME) -/

/-- The statement evaluator started ON an ELSE token fails: ELSE is not a
    statement. -/
theorem stmt_on_else (ev : Evals F) (σ : St F) (pre post : List (Token F))
    (hAt : At σ pre (.kw .Else :: post)) :
    stmtBody ev σ = .err { err := .syntax .unexpectedToken }
      (mv ({ σ with out := traceOut σ ++ σ.out } : St F) 1 (σ.reads + 1)) := by
  have hAt' : At ({ σ with out := traceOut σ ++ σ.out } : St F) pre (.kw .Else :: post) := ⟨hAt.1, hAt.2⟩
  unfold stmtBody
  rw [bind_ok (traceHere_eq σ)]
  unfold dispatch
  rw [bind_ok (next_eq hAt')]
  rfl

/-- A turn started with the cursor ON an ELSE token: `?SYNTAX ERROR`
    (UNEXPECTED TOKEN) located at the ELSE, and the interpreter goes idle. -/
theorem turn_on_else (fuel : Nat) (σ : St F) (pre post : List (Token F))
    (hs : σ.state = .running) (hAt : At σ pre (.kw .Else :: post)) :
    continueEvaluating fuel σ =
      .err { err := .syntax .unexpectedToken, loc := some { line := σ.loc.line, idx := pre.length } }
        { σ with state := .idle, loc := { σ.loc with idx := σ.loc.idx + 1 }, out := traceOut σ ++ σ.out, reads := σ.reads + 2 } := by
  rw [continue_eq hs hAt]
  have hst := stmt_on_else (evalN fuel) (mv σ 0 (σ.reads + 1)) pre post (at_mv0' hAt _)
  rw [postprocess_err (bind_err hst)]
  have hidx : σ.loc.idx + 0 + 1 - 1 = pre.length := by rw [hAt.2]; omega
  simp only [St.populate, St.prevLoc, mv, hidx]
  rfl

/-- **input_resumes_into_else.**  `INPUT name ELSE …` (after any `pre`, e.g.
    `IF c THEN`), suspended ON the INPUT token.  The reply is accepted and
    `name` assigned as anywhere else, and the resumed turn ends normally — with
    the cursor ON the ELSE token, because the IF that would have discarded the
    ELSE part is no longer executing.  The next turn therefore runs `ELSE` as
    a statement and fails with `?SYNTAX ERROR` (UNEXPECTED TOKEN) at the ELSE;
    the interpreter goes idle.  The assignment survives. -/
theorem input_resumes_into_else (fuel : Nat) (σ : St F) (pre post : List (Token F)) (text name : Str)
    (first : DataElement F) (more : List (DataElement F)) (n : Nat) (v : Value F)
    (hs : σ.state = .awaitingInput)
    (hAt : At σ pre (.kw .Input :: .symbol name :: .kw .Else :: post))
    (hpd : parseData (F := F) text = (first :: more, n))
    (hco : Value.coerceFromData name first = .ok v) :
    ∃ σr, (provideInput text >>= fun _ => continueEvaluating fuel) σ = .ok () σr ∧
      σr = { σ with input := none, state := .running, vars := alSet name v σ.vars, loc := { σ.loc with idx := σ.loc.idx + 2 }, out := extraOut (surplus more n text) ++ (traceOut σ ++ σ.out), reads := σ.reads + 5 } ∧
      At σr (pre ++ [.kw .Input, .symbol name]) (.kw .Else :: post) ∧
      continueEvaluating fuel σr =
        .err { err := .syntax .unexpectedToken, loc := some { line := σ.loc.line, idx := pre.length + 2 } }
          { σr with state := .idle, loc := { σ.loc with idx := σ.loc.idx + 3 }, out := traceOut σ ++ σr.out, reads := σ.reads + 7 } := by
  have hp := provideInput_eq text σ hs
  have hAt1 : At ({ σ with input := some text, state := .running } : St F) pre
      (.kw .Input :: .symbol name :: .kw .Else :: post) := ⟨hAt.1, hAt.2⟩
  have hst := input_stmt_resume (evalN fuel) (mv ({ σ with input := some text, state := .running } : St F) 0 (σ.reads + 1))
    pre (.kw .Else :: post) text name first more n v rfl (at_mv0' hAt1 _)
    (fun u hu => by simp only [List.head?_cons, Option.some.injEq] at hu; subst hu; rfl) hpd hco
  have hAt2 : At ({ σ with input := none, state := .running, vars := alSet name v σ.vars, loc := { σ.loc with idx := σ.loc.idx + 2 }, out := extraOut (surplus more n text) ++ (traceOut σ ++ σ.out), reads := σ.reads + 1 + 1 + 1 + 1 } : St F)
      (pre ++ [.kw .Input, .symbol name]) (.kw .Else :: post) := by
    refine ⟨?_, ?_⟩
    · show lineToks σ = _
      rw [hAt.1]; simp only [List.append_assoc, List.cons_append, List.nil_append]
    · show σ.loc.idx + 2 = _
      rw [hAt.2]; simp only [List.length_append, List.length_cons, List.length_nil]
  have hc : continueEvaluating fuel ({ σ with input := some text, state := .running } : St F) =
      .ok () (lineEndSt ({ σ with input := none, state := .running, vars := alSet name v σ.vars, loc := { σ.loc with idx := σ.loc.idx + 2 }, out := extraOut (surplus more n text) ++ (traceOut σ ++ σ.out), reads := σ.reads + 1 + 1 + 1 + 1 } : St F)) :=
    continue_ok rfl hAt1 hst hAt2
  rw [lineEndSt_more hAt2] at hc
  have hAt3 : At ({ σ with input := none, state := .running, vars := alSet name v σ.vars, loc := { σ.loc with idx := σ.loc.idx + 2 }, out := extraOut (surplus more n text) ++ (traceOut σ ++ σ.out), reads := σ.reads + 5 } : St F)
      (pre ++ [.kw .Input, .symbol name]) (.kw .Else :: post) := ⟨hAt2.1, hAt2.2⟩
  refine ⟨_, ?_, rfl, hAt3, ?_⟩
  · rw [bind_ok hp, hc]; rfl
  · rw [turn_on_else fuel _ _ post rfl hAt3]
    have hl : (pre ++ [Token.kw (F := F) .Input, .symbol name]).length = pre.length + 2 := by
      simp only [List.length_append, List.length_cons, List.length_nil]
    rw [hl]
    rfl

/-- **IF c THEN INPUT name ELSE …: the first turn.**  With a true condition the
    INPUT inside the THEN branch suspends like any other: awaiting input, the
    cursor ON the INPUT token (the IF and its condition lie behind it), the
    nesting counter restored, nothing else changed. -/
theorem then_input_suspends (n : Nat) (σ : St F) (pre post : List (Token F)) (c : Expr F) (cv : Value F)
    (hs : σ.state = .running) (hin : σ.input = none)
    (hAt : At σ pre (.kw .If :: (render c ++ .kw .Then :: .kw .Input :: post)))
    (hq : Quiet σ) (htr : σ.tracing = false) (hd : depth c + 1 ≤ n)
    (hn : σ.nesting + (depth c + 1) ≤ Extracted.nestingLimit)
    (hc : foldE (getVar σ) c = .ok cv) (hb : cv.toBool = true) :
    ∃ k, σ.reads < k ∧
      continueEvaluating n σ =
        .ok () { σ with loc := { σ.loc with idx := σ.loc.idx + (1 + (render c).length + 1) }, state := .awaitingInput, reads := k } := by
  obtain ⟨n', rfl⟩ : ∃ n', n = n' + 1 := ⟨n - 1, by omega⟩
  have hAt0 := at_mv0' hAt (σ.reads + 1)
  have hif : ∃ r, (mv σ 0 (σ.reads + 1)).reads < r ∧
      stmtBody (evalN (n' + 1)) (mv σ 0 (σ.reads + 1)) =
        ifRest (evalN (n' + 1)) cv.toBool (mv (mv σ 0 (σ.reads + 1)) (1 + (render c).length + 1) r) := by
    have := if_cond c (n' + 1) (mv σ 0 (σ.reads + 1)) pre _ hAt0 (hq.mv _ _) htr hd hn
    rw [getVar_mv, hc] at this
    exact this
  obtain ⟨r, hr, hrun⟩ := hif
  simp only [mv_reads] at hr
  rw [hb, mv_mv] at hrun
  have hAt1 : At (mv σ (0 + (1 + (render c).length + 1)) r) (pre ++ [.kw .If] ++ render c ++ [.kw .Then])
      (.kw .Input :: post) := by
    have := if_at c hAt0 r
    rwa [mv_mv] at this
  have hsog := statementOrGoto_kw (ev := evalN (n' + 1)) hAt1
  rw [mv_mv] at hsog
  simp only [mv_reads] at hsog
  have hAtN : At (nest (mv σ (0 + (1 + (render c).length + 1) + 0) (r + 1)) (σ.nesting + 1))
      (pre ++ [.kw .If] ++ render c ++ [.kw .Then]) (.kw .Input :: post) :=
    ⟨hAt1.1, by show σ.loc.idx + _ = _; rw [← hAt1.2]; rfl⟩
  have hinner := input_stmt_suspend (evalN n')
    (nest (mv σ (0 + (1 + (render c).length + 1) + 0) (r + 1)) (σ.nesting + 1))
    (pre ++ [.kw .If] ++ render c ++ [.kw .Then]) post hin hAtN
  have htr' : traceOut (nest (mv σ (0 + (1 + (render c).length + 1) + 0) (r + 1)) (σ.nesting + 1)) = [] :=
    traceOut_off htr
  rw [htr'] at hinner
  have hnested := nested_ok (m := stmtBody (evalN n')) (σ := mv σ (0 + (1 + (render c).length + 1) + 0) (r + 1))
    (by show σ.nesting < _; omega) hinner rfl
  have hstmt : (evalN (F := F) (n' + 1)).stmt = stmtBody (evalN n') := rfl
  rw [hstmt, hnested] at hsog
  have hAt2 : At (nest ({ nest (mv σ (0 + (1 + (render c).length + 1) + 0) (r + 1)) (σ.nesting + 1) with state := .awaitingInput, out := [] ++ σ.out, reads := r + 1 + 1 + 1 } : St F) σ.nesting)
      (pre ++ [.kw .If] ++ render c ++ [.kw .Then]) (.kw .Input :: post) :=
    ⟨hAt1.1, by show σ.loc.idx + _ = _; rw [← hAt1.2]; rfl⟩
  have htail := tailElse_no hAt2 (fun u hu => by
    simp only [List.head?_cons, Option.some.injEq] at hu; subst hu; rfl)
  have hst : stmtBody (evalN (n' + 1)) (mv σ 0 (σ.reads + 1)) =
      .ok () ({ σ with loc := { σ.loc with idx := σ.loc.idx + (1 + (render c).length + 1) }, state := .awaitingInput, reads := r + 1 + 1 + 1 + 1 } : St F) := by
    rw [hrun]
    show (statementOrGoto (evalN (n' + 1)) >>= fun _ => tailElse) _ = _
    rw [bind_ok hsog]
    refine htail.trans ?_
    simp only [mv, nest, Nat.zero_add, Nat.add_zero, List.nil_append]
  have hAt3 : At ({ σ with loc := { σ.loc with idx := σ.loc.idx + (1 + (render c).length + 1) }, state := .awaitingInput, reads := r + 1 + 1 + 1 + 1 } : St F)
      (pre ++ [.kw .If] ++ render c ++ [.kw .Then]) (.kw .Input :: post) :=
    ⟨hAt1.1, by show σ.loc.idx + _ = _; rw [← hAt1.2]; simp only [mv_idx, Nat.zero_add]⟩
  refine ⟨r + 1 + 1 + 1 + 1 + 1, by omega, ?_⟩
  rw [continue_ok hs hAt hst hAt3, lineEndSt_more hAt3]
  rfl

/-- **then_input_else_resumes_into_else** (the known finding KF-ELSE-RESUME as a
    theorem about the model).  On a line `… IF c THEN INPUT name ELSE …` with a
    true condition, from a running state with the cursor on the IF:

    1. the first turn suspends ON the INPUT token (awaiting input);
    2. `provide_input` + `continue_evaluating` assign `name`, and end — running —
       with the cursor ON the ELSE token;
    3. the next `continue_evaluating` fails with `?SYNTAX ERROR` (UNEXPECTED
       TOKEN) located at that ELSE, and the interpreter is idle. -/
theorem then_input_else_resumes_into_else (n : Nat) (σ : St F) (pre post : List (Token F)) (c : Expr F)
    (cv : Value F) (text name : Str) (first : DataElement F) (more : List (DataElement F)) (m : Nat) (v : Value F)
    (hs : σ.state = .running) (hin : σ.input = none)
    (hAt : At σ pre (.kw .If :: (render c ++ .kw .Then :: .kw .Input :: .symbol name :: .kw .Else :: post)))
    (hq : Quiet σ) (htr : σ.tracing = false) (hd : depth c + 1 ≤ n)
    (hn : σ.nesting + (depth c + 1) ≤ Extracted.nestingLimit)
    (hc : foldE (getVar σ) c = .ok cv) (hb : cv.toBool = true)
    (hpd : parseData (F := F) text = (first :: more, m))
    (hco : Value.coerceFromData name first = .ok v) :
    ∃ σ₁ σ₂ σ₃,
      continueEvaluating n σ = .ok () σ₁ ∧ σ₁.state = .awaitingInput ∧
        At σ₁ (pre ++ [.kw .If] ++ render c ++ [.kw .Then]) (.kw .Input :: .symbol name :: .kw .Else :: post) ∧
      (provideInput text >>= fun _ => continueEvaluating n) σ₁ = .ok () σ₂ ∧ σ₂.state = .running ∧
        σ₂.vars = alSet name v σ.vars ∧
        At σ₂ (pre ++ [.kw .If] ++ render c ++ [.kw .Then] ++ [.kw .Input, .symbol name]) (.kw .Else :: post) ∧
      continueEvaluating n σ₂ =
        .err { err := .syntax .unexpectedToken,
               loc := some { line := σ.loc.line, idx := (pre ++ [Token.kw .If] ++ render c ++ [Token.kw .Then]).length + 2 } } σ₃ ∧
        σ₃.state = .idle ∧ σ₃.vars = alSet name v σ.vars := by
  obtain ⟨k, _, h1⟩ := then_input_suspends n σ pre (.symbol name :: .kw .Else :: post) c cv hs hin hAt hq htr hd hn hc hb
  have hAt1 : At ({ σ with loc := { σ.loc with idx := σ.loc.idx + (1 + (render c).length + 1) }, state := .awaitingInput, reads := k } : St F)
      (pre ++ [.kw .If] ++ render c ++ [.kw .Then]) (.kw .Input :: .symbol name :: .kw .Else :: post) := by
    have := if_at c hAt k
    exact ⟨this.1, this.2⟩
  obtain ⟨σr, h2, hσr, hAt2, h3⟩ := input_resumes_into_else n _ _ post text name first more m v rfl hAt1 hpd hco
  refine ⟨_, σr, _, h1, rfl, hAt1, h2, ?_, ?_, hAt2, h3, ?_, ?_⟩
  · rw [hσr]
  · rw [hσr]
  · rfl
  · show σr.vars = _
    rw [hσr]

/-! ### non-vacuity and end-to-end checks on the executable model -/

/-- what a host sees of a result: the error and its location, the state, the
    cursor, the output (oldest first), the names of the variables and arrays -/
structure Obs where
  err : Option Err
  eloc : Option Loc
  state : IState
  idx : Nat
  out : List Out
  vars : List Str
  arrays : List Str
  deriving DecidableEq

def observe (r : Res Unit Unit) : Obs :=
  match r with
  | .ok _ s => ⟨none, none, s.state, s.loc.idx, s.out.reverse, s.vars.map (·.1), s.arrays.map (·.1)⟩
  | .err e s => ⟨some e.err, e.loc, s.state, s.loc.idx, s.out.reverse, s.vars.map (·.1), s.arrays.map (·.1)⟩

/-- sequencing of host calls on results -/
def thenCall (r : Res Unit Unit) (m : M Unit Unit) : Res Unit Unit :=
  match r with
  | .ok _ s => m s
  | .err e s => .err e s

/-- `IF "A" THEN INPUT X$ ELSE PRINT "N"` -/
def elseLine : List (Token Unit) :=
  [.kw .If, .str ['A'], .kw .Then, .kw .Input, .symbol ['X', '$'], .kw .Else, .kw .Print, .str ['N']]

/-- KF-ELSE-RESUME on the executable model, default fuel: turn 1 suspends on the
    INPUT token (index 3); the reply `HI` is accepted (X$ set) and turn 2 ends
    running with the cursor on the ELSE token (index 5); turn 3 fails with
    SYNTAX ERROR (UNEXPECTED TOKEN) located at index 5 and the state is idle. -/
example :
    observe (continueEvaluating defaultFuel ({ imm := elseLine, state := .running } : St Unit)) =
      ⟨none, none, .awaitingInput, 3, [], [], []⟩ ∧
    observe (thenCall (thenCall (continueEvaluating defaultFuel ({ imm := elseLine, state := .running } : St Unit))
        (provideInput ['H', 'I'])) (continueEvaluating defaultFuel)) =
      ⟨none, none, .running, 5, [], [['X', '$']], []⟩ ∧
    observe (thenCall (thenCall (thenCall (continueEvaluating defaultFuel ({ imm := elseLine, state := .running } : St Unit))
        (provideInput ['H', 'I'])) (continueEvaluating defaultFuel)) (continueEvaluating defaultFuel)) =
      ⟨some (.syntax .unexpectedToken), some { line := none, idx := 5 }, .idle, 6, [], [['X', '$']], []⟩ := by
  refine ⟨?_, ?_, ?_⟩ <;> decide +kernel

/-- The hypotheses of `then_input_else_resumes_into_else` are satisfiable (that
    very line, any fuel ≥ 1). -/
example : ∃ σ₁ σ₂ σ₃,
    continueEvaluating 1 ({ imm := elseLine, state := .running } : St Unit) = .ok () σ₁ ∧
    σ₁.state = .awaitingInput ∧
    (provideInput ['H', 'I'] >>= fun _ => continueEvaluating 1) σ₁ = .ok () σ₂ ∧ σ₂.state = .running ∧
    continueEvaluating 1 σ₂ = .err { err := .syntax .unexpectedToken, loc := some { line := none, idx := 5 } } σ₃ ∧
    σ₃.state = .idle := by
  have hr : render (.str ['A'] : Expr Unit) = [.str ['A']] := render_str _
  have h := then_input_else_resumes_into_else (F := Unit) 1 { imm := elseLine, state := .running } [] [.kw .Print, .str ['N']]
    (.str ['A']) (.str ['A']) ['H', 'I'] ['X', '$'] (.str ['H', 'I']) [] 2 (.str ['H', 'I']) rfl rfl
    ⟨by rw [hr]; rfl, rfl⟩ ⟨rfl, rfl⟩ rfl (by simp [depth]) (by simp [depth, Extracted.nestingLimit])
    (by simp [foldE]) (by simp [Value.toBool]) rfl (by simp [Value.coerceFromData, endsWithDollar])
  obtain ⟨σ₁, σ₂, σ₃, h1, h2, _, h3, h4, _, _, h5, h6, _⟩ := h
  rw [hr] at h5
  exact ⟨σ₁, σ₂, σ₃, h1, h2, h3, h4, h5, h6⟩

/-- `INPUT A(B(1))` (numeric target) resumed with the reply `X`: REENTER, and
    the array `B` that the subscript touched has been auto-created and stays,
    while the target array `A` has not been created.  (Subscripts with side
    effects are evaluated before the reply is checked, and again on the next
    attempt.) -/
example :
    observe (inputStatement (evalN defaultFuel)
      ({ imm := [.kw .Input, .symbol ['A'], .kw .LeftParen, .symbol ['B'], .kw .LeftParen, .num (), .kw .RightParen, .kw .RightParen],
         loc := { idx := 1 }, input := some ['X'], state := .running } : St Unit)) =
      ⟨none, none, .awaitingInput, 0, [.reenter], [], [['B']]⟩ := by
  decide +kernel

/-- `INPUT A$(1)` resumed with `X, Y`: the cell is stored in the auto-created
    array, `?EXTRA IGNORED`, cursor behind the `)`. -/
example :
    observe (inputStatement (evalN defaultFuel)
      ({ imm := [.kw .Input, .symbol ['A', '$'], .kw .LeftParen, .num (), .kw .RightParen],
         loc := { idx := 1 }, input := some ['X', ',', 'Y'], state := .running } : St Unit)) =
      ⟨none, none, .running, 5, [.extraIgnored], [], [['A', '$']]⟩ := by
  decide +kernel

/-- The hypotheses of `input_resume_array_render` are satisfiable: `INPUT A$(1)`
    with the reply `X`. -/
example : ∃ r arrs',
    inputStatement (evalN 1)
      ({ imm := [.kw .Input, .symbol ['A', '$'], .kw .LeftParen, .num (), .kw .RightParen],
         loc := { idx := 1 }, input := some ['X'], state := .running } : St Unit) =
    .ok () { imm := [.kw .Input, .symbol ['A', '$'], .kw .LeftParen, .num (), .kw .RightParen],
             loc := { idx := 5 }, input := none, state := .running, arrays := arrs', reads := r } := by
  have hr : renderSubs [(.num () : Expr Unit)] = [.num ()] := by rw [renderSubs, render_num]
  have hst : ∃ arrs', storeCell (F := Unit) ['A', '$'] [0] (.str ['X']) [] = some arrs' := by
    cases h : storeCell (F := Unit) ['A', '$'] [0] (.str ['X']) [] with
    | some a => exact ⟨a, rfl⟩
    | none =>
      exfalso
      have : (storeCell (F := Unit) ['A', '$'] [0] (.str ['X']) []).isSome = true := by decide +kernel
      rw [h] at this
      cases this
  obtain ⟨arrs', hst⟩ := hst
  obtain ⟨r, _, h⟩ := input_resume_array_render (F := Unit) 1
    { imm := [.kw .Input, .symbol ['A', '$'], .kw .LeftParen, .num (), .kw .RightParen],
      loc := { idx := 1 }, input := some ['X'], state := .running }
    [.kw .Input] [] ['X'] ['A', '$'] (.num ()) [] (.str ['X']) [] 1 (.str ['X']) [0] arrs' rfl
    ⟨by rw [hr]; rfl, rfl⟩ ⟨rfl, rfl⟩
    (by intro e he; simp only [List.mem_singleton] at he; subst he; simp [depth, Extracted.nestingLimit])
    rfl (by simp [Value.coerceFromData, endsWithDollar])
    (by simp [subsVal, subVal, foldE, NumOps.toI64]) hst
  refine ⟨r, arrs', ?_⟩
  rw [h, hr]
  rfl

end Abasic.Props.C08
