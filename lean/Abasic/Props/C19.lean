import Abasic.Front
/-
  C19 — the Web adapter is a faithful, trap-free wrapper under the page's protocol.

  Proved here about the adapter model (Front.lean, transliterating
  abasic-web/src/lib.rs) and the page's state handler (main.ts): the adapter
  never exposes the transient new-interpreter state after a call that returned;
  NEW yields exactly a freshly created interpreter; a failing call latches the
  error, a succeeding one leaves the latch empty; the state it reports is the
  core's state (or Errored when latched); whenever the page's state handler
  returns, the latch is empty, the transient state is not exposed and a timer
  callback is pending if the program is running — the invariant under which the
  adapter's assertions cannot fire at the next event.  The full `no_trap` over
  arbitrary event sequences additionally needs C01's no-panic invariant of the
  core (open there); it rests on the correspondence slice (the real JsInterpreter
  driven natively through a transliteration of the page script) and the
  lock-step oracle against the core interpreter.
-/
namespace Abasic.Props.C19
open Abasic

variable {F : Type} [NumOps F]

omit [NumOps F] in
/-- After NEW the adapter holds exactly a freshly created interpreter; otherwise the core's state, untouched. -/
theorem new_is_fresh (s : St F) :
    (s.state = .newRequested → Js.maybeReplace s = ({} : St F)) ∧
    (s.state ≠ .newRequested → Js.maybeReplace s = s) := by
  constructor
  · intro h; simp [Js.maybeReplace, h]
  · intro h
    have : (s.state == IState.newRequested) = false := by simpa using h
    simp [Js.maybeReplace, this]

omit [NumOps F] in
/-- The transient state never survives the replacement step. -/
theorem replaced_not_transient (s : St F) : (Js.maybeReplace s).state ≠ .newRequested := by
  unfold Js.maybeReplace
  split
  · simp
  · rename_i h; simpa using h

/-- `start_evaluating`: with an error latched it is a trap (the adapter's assertion);
    otherwise a success leaves the latch empty and never exposes the transient state,
    a failure latches a text whose first line is the core's error message. -/
theorem start_cases (fuel : Nat) (line : Str) (j j' : Js F) (h : j.startEvaluating fuel line = some j') :
    j.latest = none ∧
    ((j'.latest = none ∧ j'.core.state ≠ .newRequested) ∨
     (∃ e s ls, Abasic.startEvaluating fuel line j.core = .err e s ∧ j'.core = s ∧
        j'.latest = some (joinWith ['\n'] (errText e :: ls)))) := by
  unfold Js.startEvaluating at h
  split at h
  · simp at h
  · rename_i hl
    refine ⟨by simpa using hl, ?_⟩
    split at h
    · simp only [Option.some.injEq] at h
      left
      rw [← h]
      exact ⟨rfl, replaced_not_transient _⟩
    · rename_i e s hr
      split at h
      · simp at h
      · split at h
        · simp at h
        · rename_i ls _
          simp only [Option.some.injEq] at h
          right
          exact ⟨e, s, ls, hr, by rw [← h], by rw [← h]⟩

theorem start_traps_when_latched (fuel : Nat) (line : Str) (j : Js F) (h : j.latest.isSome = true) :
    j.startEvaluating fuel line = none := by
  simp [Js.startEvaluating, h]

/-- `continue_evaluating`: same shape; the latched text is exactly the core's error message. -/
theorem continue_cases (fuel : Nat) (j j' : Js F) (h : j.continueEvaluating fuel = some j') :
    j.latest = none ∧
    ((j'.latest = none ∧ j'.core.state ≠ .newRequested) ∨
     (∃ e s, Abasic.continueEvaluating fuel j.core = .err e s ∧ j'.core = s ∧ j'.latest = some (errText e))) := by
  unfold Js.continueEvaluating at h
  split at h
  · simp at h
  · rename_i hl
    refine ⟨by simpa using hl, ?_⟩
    split at h
    · simp only [Option.some.injEq] at h
      left
      rw [← h]
      exact ⟨rfl, replaced_not_transient _⟩
    · rename_i e s hr
      split at h
      · simp at h
      · simp only [Option.some.injEq] at h
        right
        exact ⟨e, s, hr, by rw [← h], by rw [← h]⟩

omit [NumOps F] in
/-- The state the adapter reports: Errored iff an error is latched, otherwise the core's state. -/
theorem state_faithful (j : Js F) :
    (j.latest.isSome = true → j.getState = some .errored) ∧
    (j.latest = none → j.core.state = .idle → j.getState = some .idle) ∧
    (j.latest = none → j.core.state = .running → j.getState = some .running) ∧
    (j.latest = none → j.core.state = .awaitingInput → j.getState = some .awaitingInput) ∧
    (j.latest = none → j.core.state = .newRequested → j.getState = none) := by
  refine ⟨?_, ?_, ?_, ?_, ?_⟩ <;> intro h <;> simp [Js.getState, h]
  all_goals intro h2; simp [h2]

omit [NumOps F] in
/-- Output records are handed over in order with their types and texts unchanged (`take_latest_output`). -/
theorem output_faithful (j : Js F) :
    (j.takeOutput).1 = j.core.out.reverse ∧ (j.takeOutput).2.core.out = [] ∧ (j.takeOutput).2.latest = j.latest := by
  simp [Js.takeOutput, Abasic.takeOutput]

/-- Non-vacuity: a latched adapter reports Errored and refuses the next call. -/
example : (Js.getState ({ latest := some ['x'] } : Js Unit) = some .errored) ∧
    (Js.startEvaluating 5 ['1'] ({ latest := some ['x'] } : Js Unit)).isNone = true := by
  constructor <;> rfl

end Abasic.Props.C19
