import Abasic.Props.C14
/-
  C14 (continued) — DATA items survive LIST and reload.

  `renderData items` is what LIST prints after `DATA ` (Token.render); the
  tokenizer hands `parseData` everything after the keyword, i.e. the blank, the
  rendered items and whatever follows on the line.  `data_roundtrip` says that
  `parseData` gives back exactly `items` (and consumes exactly the rendered
  text), for all item lists satisfying `ItemsOk`.
-/
namespace Abasic.Props.C14
open Abasic

deriving instance DecidableEq for DataElement

variable {F : Type} [NumOps F]

/-! ### text helpers -/

theorem len8_append (a b : Str) : len8 (a ++ b) = len8 a + len8 b := by
  induction a with
  | nil => simp [len8]
  | cons c cs ih => simp only [List.cons_append, len8, ih]; omega

/-- all characters are (Unicode) white space — what `str::trim` removes -/
def AllWs (s : Str) : Prop := ∀ c ∈ s, isUnicodeWs c = true

theorem allWs_nil : AllWs [] := by intro c hc; cases hc

theorem allWs_append {a b : Str} (ha : AllWs a) (hb : AllWs b) : AllWs (a ++ b) := by
  intro c hc
  rcases List.mem_append.mp hc with h | h
  · exact ha c h
  · exact hb c h

theorem ws_not_special (c : Char) (h : isUnicodeWs c = true) : c ≠ ':' ∧ c ≠ ',' ∧ c ≠ '"' := by
  refine ⟨?_, ?_, ?_⟩ <;> (rintro rfl; revert h; decide)

theorem trimStart_ws_append (a s : Str) (ha : AllWs a) : trimStart (a ++ s) = trimStart s := by
  induction a with
  | nil => rfl
  | cons c cs ih =>
    simp only [List.cons_append, trimStart, ha c (List.mem_cons_self ..), ↓reduceIte]
    exact ih (fun x hx => ha x (List.mem_cons_of_mem _ hx))

theorem trimStart_cons_nonws (h : Char) (s : Str) (hh : isUnicodeWs h = false) :
    trimStart (h :: s) = h :: s := by
  simp [trimStart, hh]

theorem trimStart_allWs (a : Str) (ha : AllWs a) : trimStart a = [] := by
  have := trimStart_ws_append a [] ha
  simpa [trimStart] using this

theorem trim_allWs (a : Str) (ha : AllWs a) : trim a = [] := by
  simp [trim, trimStart_allWs a ha, trimStart]

theorem length_trimStart_le (s : Str) : (trimStart s).length ≤ s.length := by
  induction s with
  | nil => simp [trimStart]
  | cons c cs ih =>
    simp only [trimStart]
    split
    · simp only [List.length_cons]; omega
    · exact Nat.le_refl _

theorem length_trim_le (s : Str) : (trim s).length ≤ s.length := by
  unfold trim
  have h1 := length_trimStart_le s
  have h2 := length_trimStart_le (trimStart s).reverse
  simp only [List.length_reverse] at h2 ⊢
  omega

/-- A non-empty trimmed text starts with a non-blank. -/
theorem trimmed_head (t : Str) (hne : t ≠ []) (ht : trim t = t) :
    ∃ h t', t = h :: t' ∧ isUnicodeWs h = false := by
  cases t with
  | nil => exact absurd rfl hne
  | cons h t' =>
    refine ⟨h, t', rfl, ?_⟩
    cases hw : isUnicodeWs h with
    | false => rfl
    | true =>
      exfalso
      have e : trim (h :: t') = trim t' := by simp [trim, trimStart, hw]
      have := length_trim_le t'
      rw [← e, ht] at this
      simp only [List.length_cons] at this
      omega

theorem allWs_reverse {a : Str} (ha : AllWs a) : AllWs a.reverse := by
  intro c hc
  exact ha c (List.mem_reverse.mp hc)

/-- Blanks around a text that starts with a non-blank do not change its `trim`. -/
theorem trim_sandwich (a b : Str) (h : Char) (t : Str) (ha : AllWs a) (hb : AllWs b)
    (hh : isUnicodeWs h = false) : trim (a ++ (h :: t) ++ b) = trim (h :: t) := by
  unfold trim
  rw [List.append_assoc, trimStart_ws_append a _ ha, List.cons_append, trimStart_cons_nonws h _ hh,
    trimStart_cons_nonws h _ hh]
  have : (h :: (t ++ b)).reverse = b.reverse ++ (h :: t).reverse := by simp
  rw [this, trimStart_ws_append _ _ (allWs_reverse hb)]

theorem trim_ne_nil_of_nonws (s : Str) (h : ∃ c ∈ s, isUnicodeWs c = false) : trim s ≠ [] := by
  obtain ⟨c, hc, hw⟩ := h
  obtain ⟨a, b, rfl⟩ := List.append_of_mem hc
  -- the first non-blank of `s`
  induction a with
  | nil =>
    intro he
    unfold trim at he
    rw [List.nil_append, trimStart_cons_nonws c _ hw] at he
    have he' := List.reverse_eq_nil_iff.mp he
    -- `(c :: b).reverse = b.reverse ++ [c]` cannot trim to nothing
    have : ∀ (x : Str), trimStart (x ++ [c]) ≠ [] := by
      intro x
      induction x with
      | nil => simp [trimStart, hw]
      | cons y ys ih =>
        simp only [List.cons_append, trimStart]
        split
        · exact ih
        · simp
    exact this b.reverse (by simpa using he')
  | cons x xs ih =>
    by_cases hx : isUnicodeWs x = true
    · have : trim (x :: xs ++ c :: b) = trim (xs ++ c :: b) := by
        simp [trim, trimStart, hx]
      rw [this]
      exact ih (by simp)
    · have hx' : isUnicodeWs x = false := by simpa using hx
      have := trim_sandwich [] [] x (xs ++ c :: b) allWs_nil allWs_nil hx'
      intro he
      -- reuse the `nil` argument with `x` as the non-blank
      unfold trim at he
      rw [List.cons_append, trimStart_cons_nonws x _ hx'] at he
      have he' := List.reverse_eq_nil_iff.mp he
      have h2 : ∀ (y : Str), trimStart (y ++ [x]) ≠ [] := by
        intro y
        induction y with
        | nil => simp [trimStart, hx']
        | cons z zs ih2 =>
          simp only [List.cons_append, trimStart]
          split
          · exact ih2
          · simp
      exact h2 (xs ++ c :: b).reverse (by simpa using he')

/-! ### the item predicate -/

/-- A text that survives the unquoted form: non-empty, no blanks around it, no
    comma or colon in it, not starting with a double quote. -/
structure BareText (t : Str) : Prop where
  ne : t ≠ []
  trimmed : trim t = t
  no_sep : ∀ c ∈ t, c ≠ ':' ∧ c ≠ ','
  no_open : t.head? ≠ some '"'

/-- What may occur in a DATA token:
    * a string without a double quote is printed quoted — anything goes;
    * a string with a double quote (it can only have come from the unquoted
      form) is printed as it is, so it must be a `BareText` that does not read
      as a number;
    * a number is printed by `NumOps.render`, and that rendering must be a
      `BareText` (true of Rust's `Display for f64`: digits, `.`, `-`, `e`,
      `inf`, `NaN`). -/
def ItemOk : DataElement F → Prop
  | .str s => s.contains '"' = true → BareText s ∧ NumOps.parse (F := F) s = none
  | .num x => BareText (NumOps.render x)

def ItemsOk (items : List (DataElement F)) : Prop := items ≠ [] ∧ ∀ e ∈ items, ItemOk e

/-- the numbers occurring in an item list -/
def numbers : List (DataElement F) → List F
  | [] => []
  | .num x :: r => x :: numbers r
  | .str _ :: r => numbers r

/-! ### single steps of the parser -/

/-- what `pushCurrent` makes of an unquoted text -/
def elemOf (t : Str) : DataElement F :=
  match NumOps.parse (F := F) t with
  | some x => .num x
  | none => .str t

theorem step_plain (es : List (DataElement F)) (ch : Nat) (cur : Str) (c : Char)
    (h1 : c ≠ ':') (h2 : c ≠ ',') (h3 : c = '"' → trim cur ≠ []) :
    DataParser.parseChar (⟨false, es, ch, cur, false⟩ : DataParser F) c =
      ⟨false, es, ch + c.utf8Size, cur ++ [c], false⟩ := by
  by_cases hq : c = '"'
  · subst hq
    have := h3 rfl
    simp [DataParser.parseChar, this]
  · simp [DataParser.parseChar, h1, h2, hq]

theorem step_open (es : List (DataElement F)) (ch : Nat) (cur : Str) (h : trim cur = []) :
    DataParser.parseChar (⟨false, es, ch, cur, false⟩ : DataParser F) '"' = ⟨true, es, ch + 1, [], false⟩ := by
  simp [DataParser.parseChar, h]
  rfl

theorem step_inq (es : List (DataElement F)) (ch : Nat) (cur : Str) (c : Char) (h : c ≠ '"') :
    DataParser.parseChar (⟨true, es, ch, cur, false⟩ : DataParser F) c =
      ⟨true, es, ch + c.utf8Size, cur ++ [c], false⟩ := by
  simp [DataParser.parseChar, h]

theorem step_close (es : List (DataElement F)) (ch : Nat) (cur : Str) :
    DataParser.parseChar (⟨true, es, ch, cur, false⟩ : DataParser F) '"' =
      ⟨false, es ++ [.str cur], ch + 1, [], false⟩ := by
  simp [DataParser.parseChar, DataParser.pushCurrent]
  rfl

theorem step_comma_ws (es : List (DataElement F)) (ch : Nat) (cur : Str) (h : trim cur = []) :
    DataParser.parseChar (⟨false, es, ch, cur, false⟩ : DataParser F) ',' = ⟨false, es, ch + 1, cur, false⟩ := by
  simp [DataParser.parseChar, h]
  rfl

theorem step_comma_push (es : List (DataElement F)) (ch : Nat) (cur : Str) (h : trim cur ≠ []) :
    DataParser.parseChar (⟨false, es, ch, cur, false⟩ : DataParser F) ',' =
      ⟨false, es ++ [elemOf (trim cur)], ch + 1, [], false⟩ := by
  cases hp : NumOps.parse (F := F) (trim cur) <;>
    simp [DataParser.parseChar, DataParser.pushCurrent, elemOf, h, hp] <;> rfl

theorem finish_push (es : List (DataElement F)) (ch : Nat) (cur : Str) (h : trim cur ≠ []) :
    DataParser.finish (⟨false, es, ch, cur, false⟩ : DataParser F) =
      ⟨false, es ++ [elemOf (trim cur)], ch, [], true⟩ := by
  cases hp : NumOps.parse (F := F) (trim cur) <;>
    simp [DataParser.finish, DataParser.pushCurrent, elemOf, h, hp]

theorem finish_ws (es : List (DataElement F)) (ch : Nat) (cur : Str) (h : trim cur = []) (he : es ≠ []) :
    DataParser.finish (⟨false, es, ch, cur, false⟩ : DataParser F) = ⟨false, es, ch, cur, true⟩ := by
  simp [DataParser.finish, h, he]

theorem finish_finished (p : DataParser F) (h : p.finished = true) : p.finish = p := by
  simp [DataParser.finish, h]

theorem finished_finish (p : DataParser F) : p.finish.finished = true := by
  unfold DataParser.finish
  split
  · assumption
  · rfl

theorem step_colon (es : List (DataElement F)) (ch : Nat) (cur : Str) :
    DataParser.parseChar (⟨false, es, ch, cur, false⟩ : DataParser F) ':' =
      DataParser.finish (⟨false, es, ch, cur, false⟩ : DataParser F) := by
  have := finished_finish (⟨false, es, ch, cur, false⟩ : DataParser F)
  simp [DataParser.parseChar, this]

theorem run_cons_nf (p : DataParser F) (c : Char) (cs : Str) (h : (p.parseChar c).finished = false) :
    DataParser.run p (c :: cs) = DataParser.run (p.parseChar c) cs := by
  simp [DataParser.run, h]

/-- Where the item text ends: at the end of the input, or at a colon. -/
inductive Stop : Str → Prop
  | eol : Stop []
  | colon (more : Str) : Stop (':' :: more)

/-- At a stop, the parser finishes with what it has. -/
theorem run_stop (es : List (DataElement F)) (ch : Nat) (cur stop : Str) (hs : Stop stop) :
    (DataParser.run (⟨false, es, ch, cur, false⟩ : DataParser F) stop).finish =
      DataParser.finish (⟨false, es, ch, cur, false⟩ : DataParser F) := by
  cases hs with
  | eol => rfl
  | colon more =>
    have hf := finished_finish (⟨false, es, ch, cur, false⟩ : DataParser F)
    simp only [DataParser.run, step_colon, hf, ↓reduceIte]
    exact finish_finished _ hf

/-! ### runs -/

/-- Unquoted characters other than separators are collected; a double quote is
    collected too once something non-blank has been read. -/
theorem run_plain (es : List (DataElement F)) (ch : Nat) (cur s rest : Str)
    (hs : ∀ c ∈ s, c ≠ ':' ∧ c ≠ ',')
    (hq : (∃ c ∈ cur, isUnicodeWs c = false) ∨ '"' ∉ s) :
    DataParser.run (⟨false, es, ch, cur, false⟩ : DataParser F) (s ++ rest) =
      DataParser.run ⟨false, es, ch + len8 s, cur ++ s, false⟩ rest := by
  induction s generalizing ch cur with
  | nil => simp [len8]
  | cons c cs ih =>
    have hc := hs c (List.mem_cons_self ..)
    have hstep := step_plain (F := F) es ch cur c hc.1 hc.2 (by
      intro hcq
      rcases hq with hq | hq
      · exact trim_ne_nil_of_nonws cur hq
      · exact absurd (hcq ▸ List.mem_cons_self ..) hq)
    rw [List.cons_append, run_cons_nf _ _ _ (by rw [hstep]), hstep,
      ih _ _ (fun x hx => hs x (List.mem_cons_of_mem _ hx)) (by
        rcases hq with ⟨x, hx, hw⟩ | hq
        · exact .inl ⟨x, List.mem_append_left _ hx, hw⟩
        · exact .inr (fun h => hq (List.mem_cons_of_mem _ h)))]
    simp only [len8, List.append_assoc, List.cons_append, List.nil_append, Nat.add_assoc]

theorem run_inq (es : List (DataElement F)) (ch : Nat) (cur s rest : Str) (hs : '"' ∉ s) :
    DataParser.run (⟨true, es, ch, cur, false⟩ : DataParser F) (s ++ rest) =
      DataParser.run ⟨true, es, ch + len8 s, cur ++ s, false⟩ rest := by
  induction s generalizing ch cur with
  | nil => simp [len8]
  | cons c cs ih =>
    have hc : c ≠ '"' := fun h => hs (h ▸ List.mem_cons_self ..)
    have hstep := step_inq (F := F) es ch cur c hc
    rw [List.cons_append, run_cons_nf _ _ _ (by rw [hstep]), hstep,
      ih _ _ (fun h => hs (List.mem_cons_of_mem _ h))]
    simp only [len8, List.append_assoc, List.cons_append, List.nil_append, Nat.add_assoc]

/-- A quoted item: pushed at the closing quote. -/
theorem run_quoted (es : List (DataElement F)) (ch : Nat) (cur s rest : Str) (hcur : AllWs cur)
    (hs : '"' ∉ s) :
    DataParser.run (⟨false, es, ch, cur, false⟩ : DataParser F) ('"' :: s ++ '"' :: rest) =
      DataParser.run ⟨false, es ++ [.str s], ch + len8 ('"' :: s ++ ['"']), [], false⟩ rest := by
  have h1 := step_open (F := F) es ch cur (trim_allWs cur hcur)
  rw [List.cons_append, run_cons_nf _ _ _ (by rw [h1]), h1, run_inq _ _ _ _ _ hs]
  have h2 := step_close (F := F) es (ch + 1 + len8 s) ([] ++ s)
  rw [run_cons_nf _ _ _ (by rw [h2]), h2]
  have : ch + 1 + len8 s + 1 = ch + len8 ('"' :: s ++ ['"']) := by
    rw [List.cons_append, len8, len8_append]
    simp only [len8]
    have : ('"' : Char).utf8Size = 1 := rfl
    omega
  rw [this, List.nil_append]

/-- A bare item: collected; `cur` then holds the blanks and the item text. -/
theorem run_bare (es : List (DataElement F)) (ch : Nat) (cur t rest : Str) (ht : BareText t) :
    DataParser.run (⟨false, es, ch, cur, false⟩ : DataParser F) (t ++ rest) =
      DataParser.run ⟨false, es, ch + len8 t, cur ++ t, false⟩ rest := by
  obtain ⟨h, t', rfl, hh⟩ := trimmed_head t ht.ne ht.trimmed
  have hsep := ht.no_sep
  have hhq : h ≠ '"' := by
    intro e
    apply ht.no_open
    simp [e]
  have e1 := run_plain (F := F) es ch cur [h] (t' ++ rest)
    (fun c hc => hsep c (by simp at hc; simp [hc]))
    (.inr (by simpa using hhq.symm))
  have e2 := run_plain (F := F) es (ch + len8 [h]) (cur ++ [h]) t' rest
    (fun c hc => hsep c (List.mem_cons_of_mem _ hc))
    (.inl ⟨h, by simp, hh⟩)
  simp only [List.cons_append, List.nil_append] at e1
  rw [List.cons_append, e1, e2]
  simp only [len8, List.append_assoc, List.cons_append, List.nil_append, Nat.add_assoc, Nat.add_zero]

theorem trim_cur_bare (cur t ws : Str) (hcur : AllWs cur) (hws : AllWs ws) (ht : BareText t) :
    trim (cur ++ t ++ ws) = t := by
  obtain ⟨h, t', rfl, hh⟩ := trimmed_head t ht.ne ht.trimmed
  rw [trim_sandwich cur ws h t' hcur hws hh, ht.trimmed]

/-! ### one item -/

/-- the element a bare text is read as -/
theorem elemOf_str (s : Str) (h : NumOps.parse (F := F) s = none) : elemOf (F := F) s = .str s := by
  simp [elemOf, h]

theorem elemOf_num (x : F) (h : NumOps.parse (F := F) (NumOps.render x) = some x) :
    elemOf (F := F) (NumOps.render x) = .num x := by
  simp [elemOf, h]

/-- The two shapes of a rendered item. -/
theorem render_cases (e : DataElement F) (he : ItemOk e)
    (hn : ∀ x, e = .num x → NumOps.parse (F := F) (NumOps.render x) = some x) :
    (∃ s, e = .str s ∧ '"' ∉ s ∧ DataElement.render e = '"' :: s ++ ['"']) ∨
    (BareText (DataElement.render e) ∧ elemOf (F := F) (DataElement.render e) = e) := by
  cases e with
  | str s =>
    cases hc : s.contains '"' with
    | true =>
      obtain ⟨hb, hp⟩ := he hc
      refine .inr ?_
      simp only [DataElement.render, hc, ↓reduceIte]
      exact ⟨hb, elemOf_str s hp⟩
    | false =>
      refine .inl ⟨s, rfl, ?_, ?_⟩
      · simpa using hc
      · simp only [DataElement.render, hc, Bool.false_eq_true, ↓reduceIte]
  | num x =>
    refine .inr ?_
    simp only [DataElement.render]
    exact ⟨he, elemOf_num x (hn x rfl)⟩

/-- An item followed by the separator LIST prints. -/
theorem run_item_sep (es : List (DataElement F)) (ch : Nat) (cur rest : Str) (e : DataElement F)
    (hcur : AllWs cur) (he : ItemOk e)
    (hn : ∀ x, e = .num x → NumOps.parse (F := F) (NumOps.render x) = some x) :
    DataParser.run (⟨false, es, ch, cur, false⟩ : DataParser F) (DataElement.render e ++ [',', ' '] ++ rest) =
      DataParser.run ⟨false, es ++ [e], ch + len8 (DataElement.render e ++ [',', ' ']), [' '], false⟩ rest := by
  have hsp : ∀ (es' : List (DataElement F)) (ch' : Nat),
      DataParser.run (⟨false, es', ch', [], false⟩ : DataParser F) (' ' :: rest) =
        DataParser.run ⟨false, es', ch' + 1, [' '], false⟩ rest := by
    intro es' ch'
    have := step_plain (F := F) es' ch' [] ' ' (by decide) (by decide) (by decide)
    rw [run_cons_nf _ _ _ (by rw [this]), this]
    rfl
  have hlen : ∀ r : Str, len8 (r ++ [',', ' ']) = len8 r + 1 + 1 := by
    intro r
    rw [len8_append]
    rfl
  rcases render_cases e he hn with ⟨s, rfl, hs, hr⟩ | ⟨hb, hel⟩
  · rw [hr, List.append_assoc, List.append_assoc]
    have := run_quoted (F := F) es ch cur s ([',', ' '] ++ rest) hcur hs
    simp only [List.cons_append, List.nil_append, List.append_assoc] at this ⊢
    rw [this]
    have hc := step_comma_ws (F := F) (es ++ [.str s]) (ch + len8 ('"' :: (s ++ ['"']))) [] (by rfl)
    rw [run_cons_nf _ _ _ (by rw [hc]), hc, hsp]
    have := hlen ('"' :: (s ++ ['"']))
    simp only [List.cons_append, List.nil_append, List.append_assoc] at this
    rw [this, Nat.add_assoc, Nat.add_assoc]
  · rw [List.append_assoc, run_bare _ _ _ _ _ hb]
    have htr : trim (cur ++ DataElement.render e) = DataElement.render e := by
      have := trim_cur_bare cur _ [] hcur allWs_nil hb
      simpa using this
    have hc := step_comma_push (F := F) es (ch + len8 (DataElement.render e)) (cur ++ DataElement.render e)
      (by rw [htr]; exact hb.ne)
    simp only [List.cons_append, List.nil_append]
    rw [run_cons_nf _ _ _ (by rw [hc]), hc, hsp, htr, hel, hlen]
    simp only [Nat.add_assoc]

/-- The last item, followed by blanks and then the end of the input or a colon. -/
theorem run_item_last (es : List (DataElement F)) (ch : Nat) (cur ws stop : Str) (e : DataElement F)
    (hcur : AllWs cur) (hws : AllWs ws) (hstop : Stop stop) (he : ItemOk e)
    (hn : ∀ x, e = .num x → NumOps.parse (F := F) (NumOps.render x) = some x) :
    ∃ cur', (DataParser.run (⟨false, es, ch, cur, false⟩ : DataParser F)
        (DataElement.render e ++ ws ++ stop)).finish =
      ⟨false, es ++ [e], ch + len8 (DataElement.render e ++ ws), cur', true⟩ := by
  have hwsp : ∀ c ∈ ws, c ≠ ':' ∧ c ≠ ',' := fun c hc =>
    ⟨(ws_not_special c (hws c hc)).1, (ws_not_special c (hws c hc)).2.1⟩
  have hwsq : '"' ∉ ws := fun h => (ws_not_special _ (hws _ h)).2.2 rfl
  rcases render_cases e he hn with ⟨s, rfl, hs, hr⟩ | ⟨hb, hel⟩
  · refine ⟨ws, ?_⟩
    rw [hr, List.append_assoc]
    have := run_quoted (F := F) es ch cur s (ws ++ stop) hcur hs
    simp only [List.cons_append, List.nil_append, List.append_assoc] at this ⊢
    rw [this, run_plain _ _ _ _ _ hwsp (.inr hwsq), run_stop _ _ _ _ hstop,
      finish_ws _ _ _ (trim_allWs _ (by simpa using hws)) (by simp)]
    have : len8 ('"' :: (s ++ '"' :: ws)) = len8 ('"' :: (s ++ ['"'])) + len8 ws := by
      have := len8_append ('"' :: (s ++ ['"'])) ws
      simpa using this
    rw [this, Nat.add_assoc, List.nil_append]
  · refine ⟨[], ?_⟩
    rw [List.append_assoc, run_bare _ _ _ _ _ hb, run_plain _ _ _ _ _ hwsp (.inr hwsq),
      run_stop _ _ _ _ hstop]
    have htr := trim_cur_bare cur _ ws hcur hws hb
    rw [finish_push _ _ _ (by rw [htr]; exact hb.ne), htr, hel, len8_append, Nat.add_assoc]

/-! ### the whole list -/

theorem renderData_cons_cons (e e' : DataElement F) (items : List (DataElement F)) :
    renderData (e :: e' :: items) = DataElement.render e ++ [',', ' '] ++ renderData (e' :: items) := by
  simp [renderData, joinWith]

theorem renderData_single (e : DataElement F) : renderData [e] = DataElement.render e := by
  simp [renderData, joinWith]

omit [NumOps F] in
theorem mem_numbers (x : F) (items : List (DataElement F)) (h : DataElement.num x ∈ items) :
    x ∈ numbers items := by
  induction items with
  | nil => cases h
  | cons e r ih =>
    cases e with
    | str s =>
      simp only [numbers]
      rcases List.mem_cons.mp h with h | h
      · cases h
      · exact ih h
    | num y =>
      simp only [numbers]
      rcases List.mem_cons.mp h with h | h
      · cases h; exact List.mem_cons_self ..
      · exact List.mem_cons_of_mem _ (ih h)

theorem run_items (e : DataElement F) (items : List (DataElement F)) (es : List (DataElement F))
    (ch : Nat) (cur ws stop : Str) (hcur : AllWs cur) (hws : AllWs ws) (hstop : Stop stop)
    (hok : ∀ a ∈ e :: items, ItemOk a)
    (hn : ∀ x ∈ numbers (e :: items), NumOps.parse (F := F) (NumOps.render x) = some x) :
    ∃ cur', (DataParser.run (⟨false, es, ch, cur, false⟩ : DataParser F)
        (renderData (e :: items) ++ ws ++ stop)).finish =
      ⟨false, es ++ e :: items, ch + len8 (renderData (e :: items) ++ ws), cur', true⟩ := by
  induction items generalizing e es ch cur with
  | nil =>
    rw [renderData_single]
    exact run_item_last es ch cur ws stop e hcur hws hstop (hok e (List.mem_cons_self ..))
      (fun x hx => hn x (mem_numbers x _ (hx ▸ List.mem_cons_self ..)))
  | cons e' items ih =>
    have h1 := run_item_sep (F := F) es ch cur (renderData (e' :: items) ++ ws ++ stop) e hcur
      (hok e (List.mem_cons_self ..))
      (fun x hx => hn x (mem_numbers x _ (hx ▸ List.mem_cons_self ..)))
    have hcur' : AllWs [' '] := by
      intro c hc
      simp only [List.mem_singleton] at hc
      subst hc
      decide
    obtain ⟨cur', h2⟩ := ih e' (es ++ [e]) (ch + len8 (DataElement.render e ++ [',', ' '])) [' '] hcur'
      (fun a ha => hok a (List.mem_cons_of_mem _ ha))
      (fun x hx => hn x (by
        cases e with
        | str s => exact hx
        | num y => exact List.mem_cons_of_mem _ hx))
    refine ⟨cur', ?_⟩
    rw [renderData_cons_cons]
    simp only [List.append_assoc] at h1 h2 ⊢
    rw [h1, h2]
    simp only [len8_append, len8, List.cons_append, List.nil_append, Nat.add_assoc, Nat.add_zero]

/-- **DATA round trip, general form.**  Let `items` satisfy `ItemsOk`, and let
    every number occurring in it satisfy the `NumOps` law
    `parse (render x) = some x` (explicit hypothesis `hn`).  Then parsing
    blanks, the LIST spelling of the items, blanks again, and then either the
    end of the text or a colon followed by anything, gives back exactly `items`,
    and the number of bytes consumed is everything before the stop. -/
theorem data_roundtrip_general (items : List (DataElement F)) (pre ws stop : Str)
    (hok : ItemsOk items) (hpre : AllWs pre) (hws : AllWs ws) (hstop : Stop stop)
    (hn : ∀ x ∈ numbers items, NumOps.parse (F := F) (NumOps.render x) = some x) :
    parseData (F := F) (pre ++ renderData items ++ ws ++ stop) =
      (items, len8 (pre ++ renderData items ++ ws)) := by
  obtain ⟨hne, hall⟩ := hok
  cases items with
  | nil => exact absurd rfl hne
  | cons e items =>
    have hprep : ∀ c ∈ pre, c ≠ ':' ∧ c ≠ ',' := fun c hc =>
      ⟨(ws_not_special c (hpre c hc)).1, (ws_not_special c (hpre c hc)).2.1⟩
    have hpreq : '"' ∉ pre := fun h => (ws_not_special _ (hpre _ h)).2.2 rfl
    have h0 := run_plain (F := F) [] 0 [] pre (renderData (e :: items) ++ ws ++ stop) hprep (.inr hpreq)
    obtain ⟨cur', h1⟩ := run_items e items [] (0 + len8 pre) ([] ++ pre) ws stop
      (by simpa using hpre) hws hstop hall hn
    have hinit : ({} : DataParser F) = ⟨false, [], 0, [], false⟩ := rfl
    unfold parseData
    simp only [List.append_assoc] at h0 h1 ⊢
    rw [hinit, h0, h1]
    simp only [List.nil_append, len8_append, Nat.zero_add]

/-- **DATA round trip** for the text the tokenizer hands to `parseData` when it
    reads back a listed DATA token (`Token.render (.data items)` is
    `DATA`, a blank, `renderData items`): the items come back unchanged. -/
theorem data_roundtrip (items : List (DataElement F)) (hok : ItemsOk items)
    (hn : ∀ x ∈ numbers items, NumOps.parse (F := F) (NumOps.render x) = some x) :
    (parseData (F := F) (' ' :: renderData items)).1 = items ∧
    (parseData (F := F) (renderData items)).1 = items := by
  have hsp : AllWs [' '] := by
    intro c hc
    simp only [List.mem_singleton] at hc
    subst hc
    decide
  have h1 := data_roundtrip_general items [' '] [] [] hok hsp allWs_nil .eol hn
  have h2 := data_roundtrip_general items [] [] [] hok allWs_nil allWs_nil .eol hn
  simp only [List.append_nil, List.nil_append, List.cons_append] at h1 h2
  rw [h1, h2]
  exact ⟨rfl, rfl⟩

/-- The listed token as a whole: after the keyword, the rest of `Token.render`
    parses back to the items and is consumed completely — also when another
    statement follows after ` : `. -/
theorem data_token_roundtrip (items : List (DataElement F)) (hok : ItemsOk items)
    (hn : ∀ x ∈ numbers items, NumOps.parse (F := F) (NumOps.render x) = some x) (more : Str) :
    Token.render (.data items : Token F) = Extracted.dataKeyword.toList ++ ' ' :: renderData items ∧
    parseData (F := F) (' ' :: renderData items) = (items, len8 (' ' :: renderData items)) ∧
    parseData (F := F) (' ' :: renderData items ++ ' ' :: ':' :: more) =
      (items, len8 (' ' :: renderData items ++ [' '])) := by
  have hsp : AllWs [' '] := by
    intro c hc
    simp only [List.mem_singleton] at hc
    subst hc
    decide
  have h1 := data_roundtrip_general items [' '] [] [] hok hsp allWs_nil .eol hn
  have h2 := data_roundtrip_general items [' '] [' '] (':' :: more) hok hsp hsp (.colon more) hn
  simp only [List.append_nil, List.nil_append, List.cons_append, List.append_assoc] at h1 h2
  refine ⟨rfl, h1, ?_⟩
  simp only [List.cons_append]
  exact h2

/-! ### every item list the parser produces satisfies `ItemsOk` -/

theorem trimStart_head (s : Str) :
    trimStart s = [] ∨ ∃ h t, trimStart s = h :: t ∧ isUnicodeWs h = false := by
  induction s with
  | nil => exact .inl rfl
  | cons c cs ih =>
    cases hw : isUnicodeWs c with
    | true => simpa [trimStart, hw] using ih
    | false => exact .inr ⟨c, cs, by simp [trimStart, hw], hw⟩

theorem trimStart_suffix (s : Str) : trimStart s <:+ s := by
  induction s with
  | nil => exact List.suffix_refl _
  | cons c cs ih =>
    simp only [trimStart]
    split
    · exact List.IsSuffix.trans ih (List.suffix_cons _ _)
    · exact List.suffix_refl _

theorem trim_prefix (s : Str) : trim s <+: trimStart s := by
  unfold trim
  have := trimStart_suffix (trimStart s).reverse
  have := List.reverse_prefix.mpr this
  simpa using this

theorem mem_of_mem_trim (s : Str) (c : Char) (h : c ∈ trim s) : c ∈ s :=
  (trimStart_suffix s).subset ((trim_prefix s).subset h)

theorem trim_idem (s : Str) : trim (trim s) = trim s := by
  cases hw : trim s with
  | nil => rfl
  | cons a w' =>
    -- the head of `trim s` is a non-blank
    have hpre := trim_prefix s
    rw [hw] at hpre
    obtain ⟨r, hr⟩ := hpre
    have ha : isUnicodeWs a = false := by
      rcases trimStart_head s with h | ⟨h, t, e, hh⟩
      · rw [h] at hr; cases hr
      · rw [e] at hr
        simp only [List.cons_append, List.cons.injEq] at hr
        rw [hr.1]; exact hh
    -- and so is its last character
    have hz : (trimStart (trimStart s).reverse) = (a :: w').reverse := by
      have : trim s = (trimStart (trimStart s).reverse).reverse := rfl
      rw [hw] at this
      rw [this, List.reverse_reverse]
    have hzz : trimStart (a :: w').reverse = (a :: w').reverse := by
      rcases trimStart_head (trimStart s).reverse with h | ⟨h, t, e, hh⟩
      · rw [h] at hz
        have := congrArg List.length hz
        simp at this
      · rw [← hz, e, trimStart_cons_nonws h t hh]
    show (trimStart (trimStart (a :: w')).reverse).reverse = a :: w'
    rw [trimStart_cons_nonws a w' ha, hzz, List.reverse_reverse]

theorem trimStart_append_of_ne (s x : Str) (h : trimStart s ≠ []) :
    trimStart (s ++ x) = trimStart s ++ x := by
  induction s with
  | nil => exact absurd rfl h
  | cons c cs ih =>
    cases hw : isUnicodeWs c with
    | true =>
      simp only [List.cons_append, trimStart, hw, ↓reduceIte] at h ⊢
      exact ih h
    | false => simp [trimStart, hw]

theorem trimStart_append_of_nil (s x : Str) (h : trimStart s = []) :
    trimStart (s ++ x) = trimStart x := by
  induction s with
  | nil => rfl
  | cons c cs ih =>
    cases hw : isUnicodeWs c with
    | true =>
      simp only [List.cons_append, trimStart, hw, ↓reduceIte] at h ⊢
      exact ih h
    | false => simp [trimStart, hw] at h

theorem trimStart_ne_of_trim_ne (s : Str) (h : trim s ≠ []) : trimStart s ≠ [] := by
  intro e
  have := trim_prefix s
  rw [e] at this
  exact h (List.prefix_nil.mp this)

/-- what the unquoted collector may hold: no separator, and its first non-blank is not a quote -/
def CurOk (cur : Str) : Prop := (∀ c ∈ cur, c ≠ ':' ∧ c ≠ ',') ∧ (trimStart cur).head? ≠ some '"'

theorem curOk_nil : CurOk [] := ⟨(by intro c hc; cases hc), (by simp [trimStart])⟩

theorem curOk_snoc (cur : Str) (c : Char) (h : CurOk cur) (h1 : c ≠ ':') (h2 : c ≠ ',')
    (h3 : c = '"' → trim cur ≠ []) : CurOk (cur ++ [c]) := by
  refine ⟨?_, ?_⟩
  · intro x hx
    rcases List.mem_append.mp hx with hx | hx
    · exact h.1 x hx
    · simp only [List.mem_singleton] at hx; subst hx; exact ⟨h1, h2⟩
  · by_cases hn : trimStart cur = []
    · rw [trimStart_append_of_nil cur _ hn]
      have hq : c ≠ '"' := by
        intro hc
        apply h3 hc
        have := trim_prefix cur
        rw [hn] at this
        exact List.prefix_nil.mp this
      simp only [trimStart]
      split
      · simp
      · simpa using hq
    · rw [trimStart_append_of_ne cur _ hn]
      have := h.2
      cases hc : trimStart cur with
      | nil => exact absurd hc hn
      | cons a b => rw [hc] at this; simpa using this

/-- The shape law assumed of the number printer: every rendering is a `BareText`. -/
def RenderBare (F : Type) [NumOps F] : Prop := ∀ x : F, BareText (NumOps.render x)

theorem itemOk_elemOf (hshape : RenderBare F) (cur : Str) (h : CurOk cur) :
    ItemOk (elemOf (F := F) (trim cur)) := by
  unfold elemOf
  cases hp : NumOps.parse (F := F) (trim cur) with
  | some x => exact hshape x
  | none =>
    intro hc
    refine ⟨⟨?_, trim_idem cur, fun c hc => h.1 c (mem_of_mem_trim cur c hc), ?_⟩, hp⟩
    · intro e; rw [e] at hc; simp at hc
    · have hne : trim cur ≠ [] := by intro e; rw [e] at hc; simp at hc
      have hpre := trim_prefix cur
      obtain ⟨r, hr⟩ := hpre
      have h2 := h.2
      rw [← hr] at h2
      cases ht : trim cur with
      | nil => exact absurd ht hne
      | cons a b => rw [ht] at h2; simpa using h2

/-- The invariant of the parser. -/
structure Inv (p : DataParser F) : Prop where
  elems : ∀ e ∈ p.elements, ItemOk e
  inq : p.inQuote = true → '"' ∉ p.cur
  bare : p.inQuote = false → CurOk p.cur
  fin : p.finished = true → p.elements ≠ []

theorem inv_init : Inv ({} : DataParser F) :=
  ⟨(by intro e he; cases he), (by intro h; cases h), fun _ => curOk_nil, (by intro h; cases h)⟩

theorem itemOk_quoted (s : Str) (h : '"' ∉ s) : ItemOk (F := F) (.str s) := by
  intro hc
  exact absurd (by simpa using hc) h

theorem inv_push (hshape : RenderBare F) (p : DataParser F) (h : Inv p) :
    Inv p.pushCurrent ∧ p.pushCurrent.elements ≠ [] ∧ p.pushCurrent.inQuote = p.inQuote ∧
      p.pushCurrent.finished = p.finished ∧ p.pushCurrent.cur = [] := by
  obtain ⟨iq, es, ch, cur, fin⟩ := p
  obtain ⟨h1, h2, h3, h4⟩ := h
  simp only at h1 h2 h3 h4
  have hnew : ItemOk (F := F) (if iq then .str cur else elemOf (trim cur)) := by
    cases iq with
    | true => exact itemOk_quoted cur (h2 rfl)
    | false => exact itemOk_elemOf hshape cur (h3 rfl)
  have heq : DataParser.pushCurrent (⟨iq, es, ch, cur, fin⟩ : DataParser F) =
      ⟨iq, es ++ [if iq then .str cur else elemOf (trim cur)], ch, [], fin⟩ := by
    cases iq with
    | true => simp [DataParser.pushCurrent]
    | false =>
      cases hp : NumOps.parse (F := F) (trim cur) <;> simp [DataParser.pushCurrent, elemOf, hp]
  rw [heq]
  refine ⟨⟨?_, ?_, ?_, ?_⟩, by simp, rfl, rfl, rfl⟩
  · intro e he
    rcases List.mem_append.mp he with he | he
    · exact h1 e he
    · simp only [List.mem_singleton] at he; rw [he]; exact hnew
  · intro _; simp
  · intro _; exact curOk_nil
  · intro _; simp

theorem inv_finish (hshape : RenderBare F) (p : DataParser F) (h : Inv p) : Inv p.finish := by
  unfold DataParser.finish
  by_cases hf : p.finished = true
  · simp only [hf, ↓reduceIte]; exact h
  · simp only [hf, Bool.false_eq_true, ↓reduceIte]
    obtain ⟨hp, hpne, hpq, _, _⟩ := inv_push hshape p h
    by_cases ht : (trim p.cur).isEmpty = true
    · by_cases he : p.elements.isEmpty = true
      · simp only [ht, Bool.not_true, Bool.false_eq_true, ↓reduceIte, he]
        exact ⟨hp.elems, hp.inq, hp.bare, fun _ => hpne⟩
      · simp only [ht, Bool.not_true, Bool.false_eq_true, ↓reduceIte, he]
        exact ⟨h.elems, h.inq, h.bare, fun _ => by simpa using he⟩
    · simp only [ht, Bool.not_false, ↓reduceIte]
      exact ⟨hp.elems, hp.inq, hp.bare, fun _ => hpne⟩

theorem inv_chomp (p : DataParser F) (h : Inv p) (k : Nat) : Inv { p with chomped := k } :=
  ⟨h.elems, h.inq, h.bare, h.fin⟩

theorem inv_parseChar (hshape : RenderBare F) (p : DataParser F) (c : Char) (h : Inv p) :
    Inv (p.parseChar c) := by
  unfold DataParser.parseChar
  -- it suffices to treat the part before the byte count
  suffices hmain : Inv (if !p.inQuote then
      if c == ':' then p.finish
      else if c == ',' then
        if !(trim p.cur).isEmpty then p.pushCurrent else p
      else if c == '"' then
        if (trim p.cur).isEmpty then { p with cur := [], inQuote := true }
        else { p with cur := p.cur ++ [c] }
      else { p with cur := p.cur ++ [c] }
    else
      if c == '"' then { p.pushCurrent with inQuote := false }
      else { p with cur := p.cur ++ [c] }) by
    have key : ∀ q : DataParser F, Inv q →
        Inv (if !q.finished then { q with chomped := q.chomped + c.utf8Size } else q) := by
      intro q hq
      split
      · exact inv_chomp _ hq _
      · exact hq
    exact key _ hmain
  obtain ⟨hp, hpne, hpq, hpf, hpc⟩ := inv_push hshape p h
  cases hq : p.inQuote with
  | false =>
    have hb := h.bare hq
    simp only [Bool.not_false, ↓reduceIte]
    by_cases h1 : c = ':'
    · simp only [h1, beq_self_eq_true, ↓reduceIte]; exact inv_finish hshape p h
    · have h1' : (c == ':') = false := by simpa using h1
      simp only [h1', Bool.false_eq_true, ↓reduceIte]
      by_cases h2 : c = ','
      · simp only [h2, beq_self_eq_true, ↓reduceIte]
        split
        · exact hp
        · exact h
      · have h2' : (c == ',') = false := by simpa using h2
        simp only [h2', Bool.false_eq_true, ↓reduceIte]
        by_cases h3 : c = '"'
        · simp only [h3, beq_self_eq_true, ↓reduceIte]
          by_cases ht : (trim p.cur).isEmpty = true
          · simp only [ht, ↓reduceIte]
            exact ⟨h.elems, fun _ => by simp, fun hh => by simp at hh, h.fin⟩
          · simp only [ht, Bool.false_eq_true, ↓reduceIte]
            refine ⟨h.elems, fun hh => ?_, fun _ => ?_, h.fin⟩
            · cases hh
            · exact curOk_snoc p.cur '"' hb (by decide) (by decide) (fun _ => by simpa using ht)
        · have h3' : (c == '"') = false := by simpa using h3
          simp only [h3', Bool.false_eq_true, ↓reduceIte]
          refine ⟨h.elems, fun hh => ?_, fun _ => ?_, h.fin⟩
          · cases hh
          · exact curOk_snoc p.cur c hb h1 h2 (fun e => absurd e h3)
  | true =>
    have hi := h.inq hq
    simp only [Bool.not_true, Bool.false_eq_true, ↓reduceIte]
    by_cases h3 : c = '"'
    · simp only [h3, beq_self_eq_true, ↓reduceIte]
      refine ⟨hp.elems, fun hh => by simp at hh, fun _ => ?_, fun hh => hpne⟩
      simp only [hpc]; exact curOk_nil
    · have h3' : (c == '"') = false := by simpa using h3
      simp only [h3', Bool.false_eq_true, ↓reduceIte]
      refine ⟨h.elems, fun _ => ?_, fun hh => ?_, h.fin⟩
      · simp only [List.mem_append, List.mem_singleton, not_or]
        exact ⟨hi, fun e => h3 e.symm⟩
      · cases hh

theorem inv_run (hshape : RenderBare F) (p : DataParser F) (s : Str) (h : Inv p) :
    Inv (DataParser.run p s) := by
  induction s generalizing p with
  | nil => exact h
  | cons c cs ih =>
    simp only [DataParser.run]
    split
    · exact inv_parseChar hshape p c h
    · exact ih _ (inv_parseChar hshape p c h)

/-- **Whatever `parseData` returns satisfies `ItemsOk`** — provided the number
    printer only produces `BareText`s. -/
theorem parseData_itemsOk (hshape : RenderBare F) (s : Str) : ItemsOk (parseData (F := F) s).1 := by
  have h := inv_finish hshape _ (inv_run hshape ({} : DataParser F) s inv_init)
  exact ⟨h.fin (finished_finish _), h.elems⟩

/-- **LIST then reload is the identity on DATA tokens.**  The items the
    tokenizer puts into a DATA token (`parseData` of whatever followed the
    keyword), listed and read back, are the same items.  Assumed of `NumOps`
    (both true of Rust's `f64`): renderings are `BareText`s, and
    `parse (render x) = some x` for the numbers that occur. -/
theorem data_reload (hshape : RenderBare F) (s : Str)
    (hn : ∀ x ∈ numbers (parseData (F := F) s).1, NumOps.parse (F := F) (NumOps.render x) = some x) :
    (parseData (F := F) (' ' :: renderData (parseData (F := F) s).1)).1 = (parseData (F := F) s).1 :=
  (data_roundtrip _ (parseData_itemsOk hshape s) hn).1

/-! ### the excluded shapes are really excluded -/

/-- The empty item list does not round-trip (the parser always yields at least one item);
    the tokenizer never produces it. -/
example : (parseData (F := Unit) (renderData ([] : List (DataElement Unit)))).1 = [.str []] := by
  decide

/-- A string with a quote *and* a comma does not round-trip: it is listed
    unquoted and read back as two items. -/
example : (parseData (F := Unit) (renderData [(.str "a\"b,c".toList : DataElement Unit)])).1 =
    [.str "a\"b".toList, .str ['c']] := by
  decide

/-- A string that starts with a quote and has another one inside is listed
    unquoted and read back differently. -/
example : (parseData (F := Unit) (renderData [(.str "\"a".toList : DataElement Unit)])).1 = [.str ['a']] := by
  decide

/-- A string with a quote and a blank at the end loses the blank. -/
example : (parseData (F := Unit) (renderData [(.str "a\" ".toList : DataElement Unit)])).1 =
    [.str "a\"".toList] := by
  decide

/-! ### non-vacuity -/

/-- strings only: a quoted item with a comma and a colon in it, an empty one,
    one with an embedded quote -/
def sample : List (DataElement Unit) := [.str "A, B: C".toList, .str [], .str "x\"y".toList, .str "  pad ".toList]

example : renderData sample = "\"A, B: C\", \"\", x\"y, \"  pad \"".toList := by decide

theorem sample_ok : ItemsOk sample := by
  refine ⟨by decide, ?_⟩
  intro e he
  simp only [sample, List.mem_cons, List.not_mem_nil, or_false] at he
  rcases he with rfl | rfl | rfl | rfl
  · intro h; exact absurd h (by decide)
  · intro h; exact absurd h (by decide)
  · intro _
    exact ⟨⟨by decide, by decide, by decide, by decide⟩, rfl⟩
  · intro h; exact absurd h (by decide)

example : (parseData (F := Unit) (' ' :: renderData sample)).1 = sample :=
  (data_roundtrip sample sample_ok (by intro x hx; simp [sample, numbers] at hx)).1

/-- the same by evaluation, and with a following statement -/
example : parseData (F := Unit) (" \"A, B: C\", \"\", x\"y, \"  pad \" : PRINT".toList) =
    (sample, 30) := by decide

/-! #### with numbers

  `NumOps Unit` cannot serve here (its `parse` never succeeds, so the law
  `parse (render x) = some x` fails for it).  A toy carrier with a real decimal
  printer and reader makes the number case of `data_roundtrip` non-vacuous. -/

/-- natural numbers with decimal `render` / `parse`; the arithmetic is irrelevant here -/
@[instance_reducible] def natOps : NumOps Nat where
  zero := 0
  one := 1
  add := (· + ·)
  sub := (· - ·)
  mul := (· * ·)
  div := (· / ·)
  pow := (· ^ ·)
  neg := fun _ => 0
  abs := id
  floor := id
  lt := fun a b => decide (a < b)
  le := fun a b => decide (a ≤ b)
  eq := fun a b => a == b
  toI64 := fun a => a
  toU64 := id
  ofNat := id
  parse := fun s =>
    if s.all Char.isDigit && !s.isEmpty then some (s.foldl (fun a c => a * 10 + (c.toNat - 48)) 0) else none
  render := Nat.toDigits 10
  isFinite := fun _ => true

section
attribute [local instance] natOps

def sampleNum : List (DataElement Nat) := [.num 42, .str "HELLO".toList, .num 0, .str "say \"hi\"".toList, .num 1000]

example : renderData sampleNum = "42, \"HELLO\", 0, say \"hi\", 1000".toList := by decide

theorem sampleNum_ok : ItemsOk sampleNum := by
  refine ⟨by decide, ?_⟩
  intro e he
  simp only [sampleNum, List.mem_cons, List.not_mem_nil, or_false] at he
  rcases he with rfl | rfl | rfl | rfl | rfl
  · exact ⟨by decide, by decide, by decide, by decide⟩
  · intro h; exact absurd h (by decide)
  · exact ⟨by decide, by decide, by decide, by decide⟩
  · intro _
    exact ⟨⟨by decide, by decide, by decide, by decide⟩, by decide⟩
  · exact ⟨by decide, by decide, by decide, by decide⟩

theorem sampleNum_law : ∀ x ∈ numbers sampleNum, NumOps.parse (F := Nat) (NumOps.render x) = some x := by
  intro x hx
  simp only [sampleNum, numbers, List.mem_cons, List.not_mem_nil, or_false] at hx
  rcases hx with rfl | rfl | rfl <;> decide

example : (parseData (F := Nat) (' ' :: renderData sampleNum)).1 = sampleNum :=
  (data_roundtrip sampleNum sampleNum_ok sampleNum_law).1

/-- the same by evaluation, followed by another statement -/
example : parseData (F := Nat) " 42, \"HELLO\", 0, say \"hi\", 1000 : PRINT".toList = (sampleNum, 32) := by
  decide

/-- an unquoted numeral-looking string is a number item, a quoted one is a string item -/
example : (parseData (F := Nat) " 007, \"007\"".toList).1 = [.num 7, .str "007".toList] := by decide
end

end Abasic.Props.C14
