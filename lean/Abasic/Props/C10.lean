import Abasic.Interp
/-
  C10 — RUN starts from a clean slate regardless of session history.

  `fresh σ` is a newly created interpreter that holds the same program, the same
  random-number state and the same flags as `σ` (plus the bookkeeping the model
  adds: the not-yet-taken output queue, the read counter).  The theorem says the
  RUN command cannot tell `σ` from `fresh σ`, whatever `σ`'s variables, arrays,
  loops, stack, functions, data cursor, breakpoint, location, immediate line or
  pending reply are.  The only hypothesis besides "idle" is that the nesting
  counter is 0, which is its value between host calls (`nested` restores it on
  every path); that invariant is part of C01's well-formedness.
-/
namespace Abasic.Props.C10
open Abasic

variable {F : Type} [NumOps F]

def fresh (σ : St F) : St F :=
  { lines := σ.lines, rng := σ.rng, warnings := σ.warnings, tracing := σ.tracing,
    out := σ.out, reads := σ.reads, accesses := σ.accesses }

/-- what the RUN command does to the state before executing the first statement -/
def resetForRun (s : St F) : St F :=
  ({ s with input := none, vars := [], arrays := [] }).runFromFirst

omit [NumOps F] in
/-- RUN's reset overwrites every piece of session history. -/
theorem reset_forgets (σ : St F) (hn : σ.nesting = 0) :
    resetForRun ({ σ.setImmediate [] with state := .running }) =
    resetForRun ({ (fresh σ).setImmediate [] with state := .running }) := by
  simp [resetForRun, St.runFromFirst, St.resetRuntime, St.setImmediate, fresh, hn]

/-- The RUN command, entered at the prompt of an idle interpreter, behaves
    exactly as in a freshly started interpreter holding the same program, the
    same generator state and the same flags: same outcome, same resulting state
    (hence, `step` being a function, the same future for the same later calls). -/
theorem run_clean (fuel : Nat) (line : Str) (σ : St F)
    (hidle : σ.state = .idle) (hn : σ.nesting = 0)
    (hrun : (commandWord line).bind Command.ofWord = some .run) :
    startEvaluating fuel line σ = startEvaluating fuel line (fresh σ) := by
  have hfresh : (fresh σ).state = .idle := rfl
  have key : ∀ s : St F, s.state = .idle →
      evaluateImpl fuel line s =
      (fun s' => (do runNextStatement fuel; pure ()) s') (resetForRun (s.setImmediate [])) := by
    intro s hs
    simp [evaluateImpl, hs, maybeProcessCommand, hrun, bind, M.bindM, M.get, M.modify, setImmediate,
      pure, M.pureM, resetForRun]
    cases runNextStatement fuel
      (({ s.setImmediate [] with input := none, vars := [], arrays := [] } : St F).runFromFirst) <;> rfl
  have hreset : resetForRun (σ.setImmediate []) = resetForRun ((fresh σ).setImmediate []) := by
    simp [resetForRun, St.runFromFirst, St.resetRuntime, St.setImmediate, fresh, hn, hidle]
  simp only [startEvaluating, postprocess]
  rw [key σ hidle, key (fresh σ) hfresh, hreset]

omit [NumOps F] in
/-- … in particular nothing of the old run can be read back: variables, arrays,
    loops, stack, functions, data cursor, breakpoint and pending reply are at
    their initial values when the first statement starts. -/
theorem run_resets_everything (σ : St F) :
    let s := resetForRun (σ.setImmediate [])
    s.vars = [] ∧ s.arrays = [] ∧ s.loops = [] ∧ s.stack = [] ∧ s.fns = [] ∧ s.data = none ∧
    s.bp = none ∧ s.input = none ∧ s.imm = [] := by
  simp [resetForRun, St.runFromFirst, St.resetRuntime, St.setImmediate]
  cases σ.lines.first <;> simp

/-- Non-vacuity: a state full of history satisfies the hypotheses. -/
example : let σ : St Unit := { vars := [("X".toList, .str [])], bp := some (10, 2), input := some ['4'],
                               loops := [{ loc := {}, sym := ['I'], toV := (), stepV := () }] }
    σ.state = .idle ∧ σ.nesting = 0 ∧ (commandWord " run".toList).bind Command.ofWord = some .run := by
  decide

end Abasic.Props.C10
