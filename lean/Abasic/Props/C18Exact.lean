import Abasic.Props.C18Host
/-
  C18 — the scaled value `n / 2^33` is exactly representable and lies in [0, 1).

  `rngValue n = NumOps.div (NumOps.ofNat n) (NumOps.ofNat 2^33)` is computed in the
  abstract number carrier.  The IEEE-754 guarantee for a division is: the result is
  the correctly rounded EXACT quotient, so when the exact quotient is itself a
  double, the division returns it.  IEEE arithmetic is not formalised here; what is
  proved is

  1. (`quotient_is_double`, `seed_is_double`, `modulus_is_double`) for every
     `n < 2^33` the operands `n`, `2^33` and the exact quotient `n / 2^33` are
     finite binary64 numbers `m · 2^e` (`m < 2^53`, `-1074 ≤ e ≤ 971`): no
     rounding takes place in `seed as f64`, `MODULUS as f64` and in the division;
  2. (`scaled_in_unit_interval`) the exact quotient is in [0, 1), and below 1 by at
     least `2^-33`;
  3. (`distinct_states_distinct_values`, `distinct_states_distinct_doubles`) the
     exact quotients of different states are different, hence so are the doubles;
  4. (`rnd_value_in_range`, `rnd_value_injective`, `rnd_result_in_range`, …) under
     the explicit hypothesis class `ExactDiv F` — "dividing a natural number below
     2^53 by a power of two 2^k, k ≤ 63, is exact and the carrier's `<` on such
     quotients is the order of the rationals" — the carrier element `rngValue σ.rng`
     is `≥ 0`, `< 1` and determines `σ.rng`, in every state a host can reach.

  Rationals are avoided by cross-multiplying.  All statements that mention the
  literals 2^33 / 2^53 together with an open term are proved from generic lemmas
  (an arbitrary denominator `d`, an arbitrary exponent `k`) instantiated once, or by
  `omega`; nothing here unfolds a power against an open term.
-/
namespace Abasic.Props.C18
open Abasic Abasic.Props.C01

/-! ### 1. the exact quotient is a double -/

/-- `m · 2^e` is a finite non-negative binary64 number (normal or subnormal): the
    significand has at most 53 bits and the exponent of its last bit is between
    `-1074` (smallest subnormal) and `971 = 1023 - 52`. -/
def IsBinary64 (m : Nat) (e : Int) : Prop := m < 2 ^ 53 ∧ -1074 ≤ e ∧ e ≤ 971

/-- `m · 2^e = n / d`, without rationals: both sides multiplied by `d · 2^(-e)`
    (one of `e.toNat`, `(-e).toNat` is 0). -/
def ValueIsQuot (m : Nat) (e : Int) (n d : Nat) : Prop :=
  m * 2 ^ e.toNat * d = n * 2 ^ (-e).toNat

theorem toNat_neg_ofNat (k : Nat) : (-(k : Int)).toNat = 0 := by omega
theorem toNat_neg_neg_ofNat (k : Nat) : (-(-(k : Int))).toNat = k := by omega

/-- generic form: `n / 2^k` is `n · 2^(-k)` — the significand is the numerator itself -/
theorem valueIsQuot_dyadic (n k : Nat) : ValueIsQuot n (-(k : Int)) n (2 ^ k) := by
  unfold ValueIsQuot
  rw [toNat_neg_ofNat, toNat_neg_neg_ofNat, Nat.pow_zero, Nat.mul_one]

theorem two33_le_two53 : 2 ^ 33 ≤ 2 ^ 53 := Nat.pow_le_pow_right (by decide) (by decide)

theorem lt_two53_of_lt_two33 {n : Nat} (h : n < 2 ^ 33) : n < 2 ^ 53 :=
  Nat.lt_of_lt_of_le h two33_le_two53

/-- generic form: a numerator below 2^53 over a power of two `2^k`, `k ≤ 1074`, is a double -/
theorem dyadic_is_double (m k : Nat) (hm : m < 2 ^ 53) (hk : k ≤ 1074) :
    IsBinary64 m (-(k : Int)) ∧ ValueIsQuot m (-(k : Int)) m (2 ^ k) :=
  ⟨⟨hm, by omega, by omega⟩, valueIsQuot_dyadic m k⟩

/-- **The exact quotient `n / 2^33` is a binary64 number**, namely `n · 2^-33`. -/
theorem quotient_is_double (n : Nat) (h : n < 2 ^ 33) :
    ∃ m e, IsBinary64 m e ∧ ValueIsQuot m e n (2 ^ 33) :=
  ⟨n, -((33 : Nat) : Int), (dyadic_is_double n 33 (lt_two53_of_lt_two33 h) (by decide)).1,
    valueIsQuot_dyadic n 33⟩

/-- the same with the witnesses named: significand `n`, exponent `-33` -/
theorem quotient_is_double' (n : Nat) (h : n < 2 ^ 33) :
    IsBinary64 n (-33) ∧ ValueIsQuot n (-33) n (2 ^ 33) :=
  ⟨(dyadic_is_double n 33 (lt_two53_of_lt_two33 h) (by decide)).1, valueIsQuot_dyadic n 33⟩

/-- the numerator `seed as f64` is exact: `n = n · 2^0` with `n < 2^53` -/
theorem seed_is_double (n : Nat) (h : n < 2 ^ 33) : IsBinary64 n 0 ∧ ValueIsQuot n 0 n 1 :=
  ⟨⟨lt_two53_of_lt_two33 h, by decide, by decide⟩, by
    unfold ValueIsQuot
    show n * 2 ^ 0 * 1 = n * 2 ^ 0
    rw [Nat.mul_one]⟩

/-- the denominator `MODULUS as f64` is exact: `2^33 = 2^33 · 2^0 = 1 · 2^33` -/
theorem modulus_is_double :
    IsBinary64 Extracted.rngModulus 0 ∧ ValueIsQuot Extracted.rngModulus 0 (2 ^ 33) 1 ∧
    IsBinary64 1 33 ∧ ValueIsQuot 1 33 (2 ^ 33) 1 := by
  refine ⟨⟨?_, by decide, by decide⟩, ?_, ⟨by decide, by decide, by decide⟩, ?_⟩
  · rw [constants.1]; exact Nat.pow_lt_pow_right (by decide) (by decide)
  · unfold ValueIsQuot; rw [constants.1]; decide
  · unfold ValueIsQuot; decide

/-! ### 2. the exact quotient is in [0, 1) -/

/-- `0 ≤ n/2^33 < 1` cross-multiplied (`0/1 ≤ n/2^33`, `n/2^33 < 1/1`), and the distance to 1
    is at least `2^-33` (`n/2^33 + 1/2^33 ≤ 1`). -/
theorem scaled_in_unit_interval (n : Nat) (h : n < 2 ^ 33) :
    0 * 2 ^ 33 ≤ n * 1 ∧ n * 1 < 1 * 2 ^ 33 ∧ n + 1 ≤ 2 ^ 33 := by
  omega

/-- the largest value is `(2^33 - 1) / 2^33 = 1 - 2^-33`, reached only by the state `2^33 - 1` -/
theorem scaled_max (n : Nat) (h : n < 2 ^ 33) : n * 1 ≤ (2 ^ 33 - 1) * 1 := by
  omega

/-! ### 3. different states, different values -/

/-- generic form -/
theorem quot_injective (n₁ n₂ d : Nat) (hd : 0 < d) (h : n₁ * d = n₂ * d) : n₁ = n₂ :=
  Nat.eq_of_mul_eq_mul_right hd h

/-- `n₁/2^33 ≠ n₂/2^33` cross-multiplied: the map state ↦ exact value is injective -/
theorem distinct_states_distinct_values (n₁ n₂ : Nat) (_h₁ : n₁ < 2 ^ 33) (_h₂ : n₂ < 2 ^ 33)
    (hne : n₁ ≠ n₂) : n₁ * 2 ^ 33 ≠ n₂ * 2 ^ 33 :=
  fun h => hne (quot_injective n₁ n₂ (2 ^ 33) (Nat.pow_pos (by decide)) h)

/-- the exact order of the values is the order of the states -/
theorem states_ordered_as_values (n₁ n₂ : Nat) : n₁ * 2 ^ 33 < n₂ * 2 ^ 33 ↔ n₁ < n₂ :=
  Nat.mul_lt_mul_right (Nat.pow_pos (by decide))

/-- generic form: one double `m · 2^e` is the quotient of at most one numerator -/
theorem valueIsQuot_numerator_unique (m : Nat) (e : Int) (n₁ n₂ d : Nat)
    (h₁ : ValueIsQuot m e n₁ d) (h₂ : ValueIsQuot m e n₂ d) : n₁ = n₂ := by
  unfold ValueIsQuot at h₁ h₂
  exact quot_injective n₁ n₂ (2 ^ (-e).toNat) (Nat.pow_pos (by decide)) (h₁.symm.trans h₂)

/-- **RND's exact value determines the generator state**: the same double `m · 2^e` cannot be
    the scaled value of two different states. -/
theorem distinct_states_distinct_doubles (m : Nat) (e : Int) (n₁ n₂ : Nat)
    (h₁ : ValueIsQuot m e n₁ (2 ^ 33)) (h₂ : ValueIsQuot m e n₂ (2 ^ 33)) : n₁ = n₂ :=
  valueIsQuot_numerator_unique m e n₁ n₂ (2 ^ 33) h₁ h₂

/-! ### 4. the model's `rngValue`, under an explicit exactness hypothesis on the carrier -/

section Carrier
variable {F : Type} [NumOps F]

/-- the carrier's quotient of `m` by `2^k` -/
def dyadic (F : Type) [NumOps F] (m k : Nat) : F :=
  NumOps.div (NumOps.ofNat m) (NumOps.ofNat (2 ^ k))

/-- **Hypothesis on the number carrier** (true of IEEE binary64; tested, not proved).
    For `m < 2^53` and `k ≤ 63` (both operands below 2^64, the documented domain of
    `NumOps.ofNat` = Rust's `u64 as f64`) the three numbers `m`, `2^k` and `m / 2^k` are doubles
    (`dyadic_is_double`), so `ofNat m`, `ofNat (2^k)` and the division are exact and
    `dyadic m k` is THE carrier element denoting `m · 2^-k`; the carrier's `<` on such elements
    is then the order of the rationals, here cross-multiplied.  `zero` and `one` are the
    quotients `0/1` and `1/1`. -/
class ExactDiv (F : Type) [NumOps F] : Prop where
  dyadic_lt : ∀ m₁ k₁ m₂ k₂ : Nat, m₁ < 2 ^ 53 → m₂ < 2 ^ 53 → k₁ ≤ 63 → k₂ ≤ 63 →
    NumOps.lt (dyadic F m₁ k₁) (dyadic F m₂ k₂) = decide (m₁ * 2 ^ k₂ < m₂ * 2 ^ k₁)
  zero_dyadic : (NumOps.zero : F) = dyadic F 0 0
  one_dyadic : (NumOps.one : F) = dyadic F 1 0

/-- The hypothesis as an executable test on sample points `(m₁, k₁, m₂, k₂)` (for the harness:
    run it on the executable carrier; samples outside the hypothesis' domain pass trivially). -/
def exactDivCheck (F : Type) [NumOps F] (samples : List (Nat × Nat × Nat × Nat)) : Bool :=
  samples.all fun (m₁, k₁, m₂, k₂) =>
    !(decide (m₁ < 2 ^ 53) && decide (m₂ < 2 ^ 53) && decide (k₁ ≤ 63) && decide (k₂ ≤ 63)) ||
    ((NumOps.lt (dyadic F m₁ k₁) (dyadic F m₂ k₂) == decide (m₁ * 2 ^ k₂ < m₂ * 2 ^ k₁)) &&
     (NumOps.lt (dyadic F m₁ k₁) (NumOps.one : F) == decide (m₁ < 2 ^ k₁)) &&
     (NumOps.lt (dyadic F m₁ k₁) (NumOps.zero : F) == false) &&
     (NumOps.lt (NumOps.zero : F) (dyadic F m₁ k₁) == decide (0 < m₁)))

/-- the model's scaling is the dyadic quotient by `2^33` -/
theorem rngValue_eq_dyadic (n : Nat) : rngValue (F := F) n = dyadic F n 33 := by
  unfold rngValue dyadic
  rw [constants.1]

variable [ExactDiv F]

/-- generic: the carrier's order on dyadic quotients with the same exponent is the order of
    the numerators -/
theorem dyadic_lt_same (m₁ m₂ k : Nat) (h₁ : m₁ < 2 ^ 53) (h₂ : m₂ < 2 ^ 53) (hk : k ≤ 63) :
    NumOps.lt (dyadic F m₁ k) (dyadic F m₂ k) = decide (m₁ < m₂) := by
  rw [ExactDiv.dyadic_lt m₁ k m₂ k h₁ h₂ hk hk]
  exact decide_eq_decide.mpr (Nat.mul_lt_mul_right (Nat.pow_pos (by decide)))

/-- generic: dyadic quotients with the same exponent are equal only for equal numerators -/
theorem dyadic_injective (m₁ m₂ k : Nat) (h₁ : m₁ < 2 ^ 53) (h₂ : m₂ < 2 ^ 53) (hk : k ≤ 63)
    (h : dyadic F m₁ k = dyadic F m₂ k) : m₁ = m₂ := by
  have a := dyadic_lt_same (F := F) m₁ m₂ k h₁ h₂ hk
  have b := dyadic_lt_same (F := F) m₂ m₁ k h₂ h₁ hk
  have c := dyadic_lt_same (F := F) m₂ m₂ k h₂ h₂ hk
  rw [h] at a b
  rw [c] at a b
  have a' : ¬ m₁ < m₂ := fun hlt => by
    rw [decide_eq_true hlt, decide_eq_false (Nat.lt_irrefl _)] at a; cases a
  have b' : ¬ m₂ < m₁ := fun hlt => by
    rw [decide_eq_true hlt, decide_eq_false (Nat.lt_irrefl _)] at b; cases b
  omega

/-- generic: `m / 2^k < 1` iff `m < 2^k` -/
theorem dyadic_lt_one (m k : Nat) (h : m < 2 ^ 53) (hk : k ≤ 63) :
    NumOps.lt (dyadic F m k) NumOps.one = decide (m < 2 ^ k) := by
  rw [ExactDiv.one_dyadic, ExactDiv.dyadic_lt m k 1 0 h (Nat.one_lt_two_pow (by decide)) hk (by decide),
    Nat.pow_zero, Nat.mul_one, Nat.one_mul]

/-- generic: `m / 2^k < 0` never -/
theorem dyadic_lt_zero (m k : Nat) (h : m < 2 ^ 53) (hk : k ≤ 63) :
    NumOps.lt (dyadic F m k) NumOps.zero = false := by
  rw [ExactDiv.zero_dyadic, ExactDiv.dyadic_lt m k 0 0 h (Nat.pow_pos (by decide)) hk (by decide),
    Nat.zero_mul]
  exact decide_eq_false (Nat.not_lt_zero _)

/-- generic: `0 < m / 2^k` iff `0 < m` -/
theorem dyadic_zero_lt (m k : Nat) (h : m < 2 ^ 53) (hk : k ≤ 63) :
    NumOps.lt NumOps.zero (dyadic F m k) = decide (0 < m) := by
  rw [ExactDiv.zero_dyadic, ExactDiv.dyadic_lt 0 0 m k (Nat.pow_pos (by decide)) h (by decide) hk,
    Nat.zero_mul, Nat.pow_zero, Nat.mul_one]

/-- the scaled value of a reduced state is `< 1` and not `< 0` in the carrier -/
theorem rngValue_in_range (n : Nat) (h : n < 2 ^ 33) :
    NumOps.lt (rngValue (F := F) n) NumOps.one = true ∧
    NumOps.lt (rngValue (F := F) n) NumOps.zero = false := by
  rw [rngValue_eq_dyadic]
  exact ⟨(dyadic_lt_one n 33 (lt_two53_of_lt_two33 h) (by decide)).trans (decide_eq_true h),
    dyadic_lt_zero n 33 (lt_two53_of_lt_two33 h) (by decide)⟩

/-- the carrier orders the scaled values of reduced states as the states -/
theorem rngValue_lt (n₁ n₂ : Nat) (h₁ : n₁ < 2 ^ 33) (h₂ : n₂ < 2 ^ 33) :
    NumOps.lt (rngValue (F := F) n₁) (rngValue (F := F) n₂) = decide (n₁ < n₂) := by
  rw [rngValue_eq_dyadic, rngValue_eq_dyadic]
  exact dyadic_lt_same n₁ n₂ 33 (lt_two53_of_lt_two33 h₁) (lt_two53_of_lt_two33 h₂) (by decide)

/-- the scaled values of different reduced states are different carrier elements -/
theorem rngValue_injective (n₁ n₂ : Nat) (h₁ : n₁ < 2 ^ 33) (h₂ : n₂ < 2 ^ 33)
    (h : rngValue (F := F) n₁ = rngValue (F := F) n₂) : n₁ = n₂ := by
  rw [rngValue_eq_dyadic, rngValue_eq_dyadic] at h
  exact dyadic_injective n₁ n₂ 33 (lt_two53_of_lt_two33 h₁) (lt_two53_of_lt_two33 h₂) (by decide) h

/-- the value is 0 exactly in the state 0 (`0 < value` iff `0 < state`) -/
theorem rngValue_pos (n : Nat) (h : n < 2 ^ 33) :
    NumOps.lt NumOps.zero (rngValue (F := F) n) = decide (0 < n) := by
  rw [rngValue_eq_dyadic]
  exact dyadic_zero_lt n 33 (lt_two53_of_lt_two33 h) (by decide)

/-- **In every state a host can reach, the value of the generator state is in [0, 1)**:
    `value < 1` and not `value < 0`, by the carrier's own comparison. -/
theorem rnd_value_in_range (fuel : Nat) (σ : St F) (h : Reachable fuel σ) :
    NumOps.lt (rngValue (F := F) σ.rng) NumOps.one = true ∧
    NumOps.lt (rngValue (F := F) σ.rng) NumOps.zero = false :=
  rngValue_in_range σ.rng (rng_reduced_of_reachable fuel σ h)

/-- … and so is the value of the NEXT state, the one `RND(1)` returns -/
theorem rnd_next_value_in_range (n : Nat) :
    NumOps.lt (rngValue (F := F) (lcg n)) NumOps.one = true ∧
    NumOps.lt (rngValue (F := F) (lcg n)) NumOps.zero = false :=
  rngValue_in_range (lcg n) (lcg_lt n)

/-- **In reachable states the value determines the generator state**: two reachable
    interpreters (reached with any fuels) whose current values are the same carrier element
    have the same generator state — hence the same future sequence. -/
theorem rnd_value_injective (fuel₁ fuel₂ : Nat) (σ₁ σ₂ : St F)
    (h₁ : Reachable fuel₁ σ₁) (h₂ : Reachable fuel₂ σ₂)
    (h : rngValue (F := F) σ₁.rng = rngValue (F := F) σ₂.rng) : σ₁.rng = σ₂.rng :=
  rngValue_injective σ₁.rng σ₂.rng (rng_reduced_of_reachable fuel₁ σ₁ h₁)
    (rng_reduced_of_reachable fuel₂ σ₂ h₂) h

/-- the carrier's `<` on the values of reachable states is `<` on the states -/
theorem rnd_value_lt (fuel₁ fuel₂ : Nat) (σ₁ σ₂ : St F)
    (h₁ : Reachable fuel₁ σ₁) (h₂ : Reachable fuel₂ σ₂) :
    NumOps.lt (rngValue (F := F) σ₁.rng) (rngValue (F := F) σ₂.rng) = decide (σ₁.rng < σ₂.rng) :=
  rngValue_lt σ₁.rng σ₂.rng (rng_reduced_of_reachable fuel₁ σ₁ h₁)
    (rng_reduced_of_reachable fuel₂ σ₂ h₂)

/-- **Whatever `RND(x)` returns in a reachable state is in [0, 1)** and is the value of the
    generator state it leaves behind. -/
theorem rnd_result_in_range (fuel : Nat) (σ : St F) (h : Reachable fuel σ) (x v : F) (σ' : St F)
    (hr : rnd x σ = .ok v σ') :
    v = rngValue σ'.rng ∧ σ'.rng < 2 ^ 33 ∧
    NumOps.lt v NumOps.one = true ∧ NumOps.lt v NumOps.zero = false := by
  have hs := rng_reduced_of_reachable fuel σ h
  cases hneg : NumOps.lt x (NumOps.zero : F) with
  | true => rw [rnd_negative x σ hneg] at hr; cases hr
  | false =>
    cases hz : NumOps.eq x (NumOps.zero : F) with
    | true =>
      rw [rnd_zero x σ hneg hz] at hr
      cases hr
      exact ⟨rfl, hs, rngValue_in_range _ hs⟩
    | false =>
      rw [rnd_positive x σ hs hneg hz] at hr
      cases hr
      exact ⟨rfl, lcg_lt _, rngValue_in_range _ (lcg_lt _)⟩

end Carrier

/-! ### 5. non-vacuity: the hypothesis class is satisfiable

  A carrier of unreduced non-negative fractions `num / den` with exact division and
  cross-multiplied comparison (no rounding at all) satisfies `ExactDiv`; the operations the
  class does not mention are arbitrary. -/

structure Frac where
  num : Nat
  den : Nat

instance : NumOps Frac where
  zero := ⟨0, 1⟩
  one := ⟨1, 1⟩
  add := fun a b => ⟨a.num * b.den + b.num * a.den, a.den * b.den⟩
  sub := fun a b => ⟨a.num * b.den - b.num * a.den, a.den * b.den⟩
  mul := fun a b => ⟨a.num * b.num, a.den * b.den⟩
  div := fun a b => ⟨a.num * b.den, a.den * b.num⟩
  pow := fun a _ => a
  neg := fun a => a
  abs := fun a => a
  floor := fun a => ⟨a.num / a.den, 1⟩
  lt := fun a b => decide (a.num * b.den < b.num * a.den)
  le := fun a b => decide (a.num * b.den ≤ b.num * a.den)
  eq := fun a b => decide (a.num * b.den = b.num * a.den)
  toI64 := fun a => ((a.num / a.den : Nat) : Int)
  toU64 := fun a => a.num / a.den
  ofNat := fun n => ⟨n, 1⟩
  parse := fun _ => none
  render := fun _ => []
  isFinite := fun _ => true

theorem frac_dyadic (m k : Nat) : dyadic Frac m k = ⟨m * 1, 1 * 2 ^ k⟩ := rfl

instance : ExactDiv Frac where
  dyadic_lt := fun m₁ k₁ m₂ k₂ _ _ _ _ => by
    rw [frac_dyadic, frac_dyadic]
    show decide (m₁ * 1 * (1 * 2 ^ k₂) < m₂ * 1 * (1 * 2 ^ k₁)) = _
    rw [Nat.mul_one, Nat.mul_one, Nat.one_mul, Nat.one_mul]
  zero_dyadic := rfl
  one_dyadic := rfl

/-- the theorems of section 4 instantiated: a session on the exact carrier -/
example :
    let σ : St Frac := applyCall 4 (.start "PRINT RND(1)".toList) (applyCall 4 (.seed 7) {})
    NumOps.lt (rngValue (F := Frac) σ.rng) NumOps.one = true ∧
    NumOps.lt (rngValue (F := Frac) σ.rng) NumOps.zero = false :=
  rnd_value_in_range 4 _ (.step (.start "PRINT RND(1)".toList) (.step (.seed 7) .init))

/-- the bounds are attained: the state `2^33 - 1` is reduced and its value is the largest -/
example : IsBinary64 (2 ^ 33 - 1) (-33) ∧ ValueIsQuot (2 ^ 33 - 1) (-33) (2 ^ 33 - 1) (2 ^ 33) ∧
    IsBinary64 0 (-33) ∧ ValueIsQuot 0 (-33) 0 (2 ^ 33) :=
  ⟨(quotient_is_double' _ (by decide)).1, (quotient_is_double' _ (by decide)).2,
   (quotient_is_double' 0 (by decide)).1, (quotient_is_double' 0 (by decide)).2⟩

end Abasic.Props.C18
