import Abasic.Props.C14Run
/-
  C14: `NumLaws` holds on a carrier with REAL numerals.

  `NumLaws Unit` (Props/C14Run.lean) is true only because the degenerate carrier
  parses nothing.  Here the laws are proved for the decimal carrier
  `Dec = Nat × Nat` of C14Run (`decOps`: all digits read as one number, number of
  fraction digits; `1.5 ↦ (15, 1)`, `.5 ↦ (5, 1)`, `1.50 ↦ (150, 2)`, `007 ↦ (7, 0)`):

    * `decParse_decRender` — for EVERY `x : Dec`, `decParse (decRender x) = some x`
      (the carrier keeps trailing zeros of the fraction, so no normalisation is needed;
      leading zeros of the integer part are not kept and not rendered);
    * `decRender_shape`  — the rendering is digits with at most one point inside;
    * `decRender_frac`   — a numeral that starts with the point is rendered `0.`+digits
      and the text after the zero parses back;
    * `numLaws_dec : NumLaws Dec` — all three laws hold for `decOps` as defined
      (no corrected carrier is needed).

  So `list_fixpoint`, `reload_same_run`, `reload_data_sequence` (and the other
  `reload_*` theorems) are instantiated on a carrier in which `1.5`, `.5` after an
  identifier and DATA numbers are numbers (section "instantiations").
-/
namespace Abasic.Props.C14
open Abasic Abasic.Hoare Abasic.Props.C01 Abasic.Props.C15
open Abasic.Props.C04 Abasic.DataRT

/-! ### digit texts -/

theorem digit_ne_point (c : Char) (h : isAsciiDigit c = true) : (c != '.') = true := by
  have hb := (Abasic.Props.C12.digit_bounds c).mp h
  simp only [bne_iff_ne, ne_eq]
  intro e; subst e; revert hb; decide

theorem takeWhile_digits (a b : Str) (ha : ∀ c ∈ a, isAsciiDigit c = true) :
    (a ++ '.' :: b).takeWhile (· != '.') = a := by
  induction a with
  | nil => simp
  | cons c a ih =>
    have hc := digit_ne_point c (ha c (List.mem_cons_self ..))
    rw [List.cons_append, List.takeWhile_cons, if_pos hc, ih (fun x hx => ha x (List.mem_cons_of_mem _ hx))]

theorem dropWhile_digits (a b : Str) (ha : ∀ c ∈ a, isAsciiDigit c = true) :
    (a ++ '.' :: b).dropWhile (· != '.') = '.' :: b := by
  induction a with
  | nil => simp
  | cons c a ih =>
    have hc := digit_ne_point c (ha c (List.mem_cons_self ..))
    rw [List.cons_append, List.dropWhile_cons, if_pos hc, ih (fun x hx => ha x (List.mem_cons_of_mem _ hx))]

theorem takeWhile_all_digits (a : Str) (ha : ∀ c ∈ a, isAsciiDigit c = true) :
    a.takeWhile (· != '.') = a := by
  induction a with
  | nil => rfl
  | cons c a ih =>
    have hc := digit_ne_point c (ha c (List.mem_cons_self ..))
    rw [List.takeWhile_cons, if_pos hc, ih (fun x hx => ha x (List.mem_cons_of_mem _ hx))]

theorem dropWhile_all_digits (a : Str) (ha : ∀ c ∈ a, isAsciiDigit c = true) :
    a.dropWhile (· != '.') = [] := by
  induction a with
  | nil => rfl
  | cons c a ih =>
    have hc := digit_ne_point c (ha c (List.mem_cons_self ..))
    rw [List.dropWhile_cons, if_pos hc, ih (fun x hx => ha x (List.mem_cons_of_mem _ hx))]

theorem all_digits_iff (a : Str) : a.all isAsciiDigit = true ↔ ∀ c ∈ a, isAsciiDigit c = true := by
  simp [List.all_eq_true]

/-- digits, a point, digits: the value of all the digits and the number of fraction digits -/
theorem decParse_point (a b : Str) (ha : ∀ c ∈ a, isAsciiDigit c = true) (hb : ∀ c ∈ b, isAsciiDigit c = true)
    (hne : a ++ b ≠ []) : decParse (a ++ '.' :: b) = some (digitsValue (a ++ b) 0, b.length) := by
  unfold decParse
  simp only [takeWhile_digits a b ha, dropWhile_digits a b ha, List.drop_succ_cons, List.drop_zero]
  have h1 : (a ++ b).isEmpty = false := by
    cases h : a ++ b with
    | nil => exact absurd h hne
    | cons _ _ => rfl
  have h2 : (a ++ b).all isAsciiDigit = true := by
    rw [all_digits_iff]
    intro c hc
    rcases List.mem_append.mp hc with h | h
    · exact ha c h
    · exact hb c h
  rw [h1, h2]
  rfl

/-- digits only -/
theorem decParse_plain (a : Str) (ha : ∀ c ∈ a, isAsciiDigit c = true) (hne : a ≠ []) :
    decParse a = some (digitsValue a 0, 0) := by
  unfold decParse
  simp only [takeWhile_all_digits a ha, dropWhile_all_digits a ha, List.drop_nil, List.append_nil]
  have h1 : a.isEmpty = false := by
    cases a with
    | nil => exact absurd rfl hne
    | cons _ _ => rfl
  have h2 : a.all isAsciiDigit = true := (all_digits_iff a).mpr ha
  rw [h1, h2]
  rfl

/-- what a successful parse of a text starting with the point says -/
theorem decParse_leading_point (d : Str) (x : Dec) (h : decParse ('.' :: d) = some x) :
    d ≠ [] ∧ (∀ c ∈ d, isAsciiDigit c = true) ∧ x = (digitsValue d 0, d.length) := by
  unfold decParse at h
  have e1 : ('.' :: d).takeWhile (· != '.') = [] := by simp
  have e2 : ('.' :: d).dropWhile (· != '.') = '.' :: d := by simp
  simp only [e1, e2, List.drop_succ_cons, List.drop_zero, List.nil_append] at h
  by_cases hc : (d.isEmpty || !d.all isAsciiDigit) = true
  · rw [if_pos hc] at h; cases h
  · rw [if_neg hc] at h
    simp only [Bool.or_eq_true, Bool.not_eq_true', not_or, Bool.not_eq_true, Bool.not_eq_false] at hc
    refine ⟨?_, (all_digits_iff d).mp hc.2, ?_⟩
    · intro e; rw [e] at hc; exact absurd hc.1 (by decide)
    · injection h with h; exact h.symm

/-! ### the padded digits of a value -/

/-- the digits of `x.1`, padded with zeros on the left to more than `x.2` digits -/
def padDigits (x : Dec) : Str :=
  List.replicate (x.2 + 1 - (Nat.toDigits 10 x.1).length) '0' ++ Nat.toDigits 10 x.1

theorem padDigits_digits (x : Dec) : ∀ c ∈ padDigits x, isAsciiDigit c = true := by
  intro c hc
  rcases List.mem_append.mp hc with h | h
  · rw [(List.mem_replicate.mp h).2]; decide
  · exact toDigits_digits x.1 c h

theorem padDigits_length (x : Dec) : x.2 + 1 ≤ (padDigits x).length := by
  unfold padDigits
  rw [List.length_append, List.length_replicate]
  omega

theorem padDigits_value (x : Dec) : digitsValue (padDigits x) 0 = x.1 := by
  unfold padDigits
  rw [digitsValue_append]
  have h0 : digitsValue (List.replicate (x.2 + 1 - (Nat.toDigits 10 x.1).length) '0') 0 = 0 := by
    rw [digitsValue_eq_ofDigitChars, Nat.ofDigitChars_replicate_zero, Nat.mul_zero]
  rw [h0]
  exact decValue_toDigits x.1

theorem decRender_eq (x : Dec) :
    decRender x = if x.2 = 0 then padDigits x
      else (padDigits x).take ((padDigits x).length - x.2) ++ '.' :: (padDigits x).drop ((padDigits x).length - x.2) :=
  rfl

/-! ### render, then parse -/

/-- **Every decimal is the parse of its rendering.** -/
theorem decParse_decRender (x : Dec) : decParse (decRender x) = some x := by
  rw [decRender_eq]
  have hd := padDigits_digits x
  have hl := padDigits_length x
  by_cases h0 : x.2 = 0
  · rw [if_pos h0, decParse_plain _ hd (by intro e; rw [e] at hl; simp at hl), padDigits_value]
    obtain ⟨v, k⟩ := x
    simp only at h0
    rw [h0]
  · rw [if_neg h0]
    have ha : ∀ c ∈ (padDigits x).take ((padDigits x).length - x.2), isAsciiDigit c = true :=
      fun c hc => hd c (List.mem_of_mem_take hc)
    have hb : ∀ c ∈ (padDigits x).drop ((padDigits x).length - x.2), isAsciiDigit c = true :=
      fun c hc => hd c (List.mem_of_mem_drop hc)
    rw [decParse_point _ _ ha hb (by rw [List.take_append_drop]; intro e; rw [e] at hl; simp at hl),
      List.take_append_drop, padDigits_value, List.length_drop]
    have : (padDigits x).length - ((padDigits x).length - x.2) = x.2 := by omega
    rw [this]

/-- The rendering is not empty, starts and ends with a digit, and consists of digits and
    points. -/
theorem decRender_shape (x : Dec) :
    ∃ h tl, decRender x = h :: tl ∧ isAsciiDigit h = true ∧
      (∀ l, (h :: tl).getLast? = some l → isAsciiDigit l = true) ∧ (∀ c ∈ h :: tl, digdot c = true) := by
  have hd := padDigits_digits x
  have hl := padDigits_length x
  rw [decRender_eq]
  by_cases h0 : x.2 = 0
  · rw [if_pos h0]
    cases hp : padDigits x with
    | nil => rw [hp] at hl; simp at hl
    | cons h tl =>
      rw [hp] at hd
      refine ⟨h, tl, rfl, hd h (List.mem_cons_self ..), ?_, ?_⟩
      · intro l hl'
        exact hd l (List.mem_of_getLast? hl')
      · intro c hc
        unfold digdot
        rw [hd c hc]; rfl
  · rw [if_neg h0]
    have hlen : 0 < (padDigits x).length - x.2 := by omega
    cases ht : (padDigits x).take ((padDigits x).length - x.2) with
    | nil =>
      have := congrArg List.length ht
      rw [List.length_take] at this
      simp only [List.length_nil] at this
      omega
    | cons h tl =>
      have hmem : ∀ c ∈ h :: tl, isAsciiDigit c = true := by
        intro c hc; rw [← ht] at hc; exact hd c (List.mem_of_mem_take hc)
      have hb : ∀ c ∈ (padDigits x).drop ((padDigits x).length - x.2), isAsciiDigit c = true :=
        fun c hc => hd c (List.mem_of_mem_drop hc)
      have hbne : (padDigits x).drop ((padDigits x).length - x.2) ≠ [] := by
        intro e
        have := congrArg List.length e
        rw [List.length_drop] at this
        simp only [List.length_nil] at this
        omega
      refine ⟨h, tl ++ '.' :: (padDigits x).drop ((padDigits x).length - x.2), rfl,
        hmem h (List.mem_cons_self ..), ?_, ?_⟩
      · intro l hl'
        have hmeml : l ∈ (padDigits x).drop ((padDigits x).length - x.2) := by
          rw [← List.cons_append, List.getLast?_append] at hl'
          cases hg : ((padDigits x).drop ((padDigits x).length - x.2)).getLast? with
          | none => exact absurd (List.getLast?_eq_none_iff.mp hg) hbne
          | some l' =>
            have hcons : ('.' :: (padDigits x).drop ((padDigits x).length - x.2)).getLast? = some l' := by
              rw [List.getLast?_cons, hg]; rfl
            rw [hcons] at hl'
            simp only [Option.some_or, Option.some.injEq] at hl'
            rw [← hl']
            exact List.mem_of_getLast? hg
        exact hb l hmeml
      · intro c hc
        rw [← List.cons_append] at hc
        unfold digdot
        rcases List.mem_append.mp hc with h1 | h1
        · rw [hmem c h1]; rfl
        · rcases List.mem_cons.mp h1 with h2 | h2
          · rw [h2]; rfl
          · rw [hb c h2]; rfl

/-- A value below 1 with at least one fraction digit is rendered `0.`+digits, and the text
    after the zero parses back to it. -/
theorem decRender_frac (x : Dec) (hk : 0 < x.2) (hv : x.1 < 10 ^ x.2) :
    ∃ tl, decRender x = '0' :: '.' :: tl ∧ decParse ('.' :: tl) = some x := by
  have hlen : (Nat.toDigits 10 x.1).length ≤ x.2 := (Nat.length_toDigits_le_iff (by decide) hk).mpr hv
  have hpos : 0 < (Nat.toDigits 10 x.1).length := Nat.length_toDigits_pos
  have hpad : padDigits x = '0' :: (List.replicate (x.2 - (Nat.toDigits 10 x.1).length) '0' ++ Nat.toDigits 10 x.1) := by
    unfold padDigits
    have : x.2 + 1 - (Nat.toDigits 10 x.1).length = (x.2 - (Nat.toDigits 10 x.1).length) + 1 := by omega
    rw [this, List.replicate_succ, List.cons_append]
  have hplen : (padDigits x).length = x.2 + 1 := by
    rw [hpad, List.length_cons, List.length_append, List.length_replicate]; omega
  refine ⟨List.replicate (x.2 - (Nat.toDigits 10 x.1).length) '0' ++ Nat.toDigits 10 x.1, ?_, ?_⟩
  · rw [decRender_eq, if_neg (by omega), hplen]
    have : x.2 + 1 - x.2 = 1 := by omega
    rw [this, hpad]
    rfl
  · have hd : ∀ c ∈ List.replicate (x.2 - (Nat.toDigits 10 x.1).length) '0' ++ Nat.toDigits 10 x.1,
        isAsciiDigit c = true := by
      intro c hc
      exact padDigits_digits x c (by rw [hpad]; exact List.mem_cons_of_mem _ hc)
    have hp := decParse_point [] _ (by intro c hc; cases hc) hd
      (by rw [List.nil_append]; intro e
          have := congrArg List.length e
          rw [List.length_append] at this
          simp only [List.length_nil] at this
          omega)
    rw [List.nil_append, List.nil_append] at hp
    rw [hp]
    have hval : digitsValue (List.replicate (x.2 - (Nat.toDigits 10 x.1).length) '0' ++ Nat.toDigits 10 x.1) 0 = x.1 := by
      have := padDigits_value x
      rw [hpad] at this
      have hz := digitsValue_zero_cons (List.replicate (x.2 - (Nat.toDigits 10 x.1).length) '0' ++ Nat.toDigits 10 x.1)
      unfold decValue at hz
      rw [← hz]; exact this
    rw [hval, List.length_append, List.length_replicate]
    have : x.2 - (Nat.toDigits 10 x.1).length + (Nat.toDigits 10 x.1).length = x.2 := by omega
    rw [this]

/-! ### the laws -/

section
attribute [local instance] decOps

theorem renderOK_dec (x : Dec) : RenderOK x := by
  obtain ⟨h, tl, e, _, _, hd⟩ := decRender_shape x
  refine ⟨h, tl, e, hd, ?_⟩
  show decParse (h :: tl) = some x
  rw [← e]; exact decParse_decRender x

theorem digit_not_unicodeWs (c : Char) (h : isAsciiDigit c = true) : isUnicodeWs c = false := by
  have hb := (Abasic.Props.C12.digit_bounds c).mp h
  unfold isUnicodeWs
  simp only [Bool.or_eq_false_iff, Bool.and_eq_false_iff, decide_eq_false_iff_not, beq_eq_false_iff_ne, ne_eq]
  omega

theorem dataNumOK_dec (x : Dec) : DataNumOK x := by
  obtain ⟨h, tl, e, hh, hlast, hd⟩ := decRender_shape x
  refine ⟨⟨h, tl, e, ⟨?_, ?_⟩, ?_, ?_⟩, decParse_decRender x⟩
  · show trimStart (decRender x) = decRender x
    rw [e]; exact trimStart_nws h tl (digit_not_unicodeWs h hh)
  · show trimStart (decRender x).reverse = (decRender x).reverse
    rw [e]
    cases hr : (h :: tl).reverse with
    | nil => rfl
    | cons l m =>
      have hl : (h :: tl).getLast? = some l := by
        rw [List.getLast?_eq_head?_reverse, hr]; rfl
      exact trimStart_nws l m (digit_not_unicodeWs l (hlast l hl))
  · intro e'; rw [e'] at hh; exact absurd hh (by decide)
  · intro c hc
    show c ≠ ',' ∧ c ≠ ':'
    have hdd : digdot c = true := hd c (by
      have : NumOps.render x = decRender x := rfl
      rw [this, e] at hc; exact hc)
    constructor
    · intro e'; rw [e'] at hdd; exact absurd hdd (by decide)
    · intro e'; rw [e'] at hdd; exact absurd hdd (by decide)

/-- **`numLaws_dec`.**  The three laws `list_fixpoint` and the reload theorems need hold for
    the decimal carrier `decOps` as defined in C14Run. -/
theorem numLaws_dec : NumLaws Dec where
  numeral := fun _ x _ _ _ _ => renderOK_dec x
  leadingPoint := fun d x _ hp _ => by
    obtain ⟨hne, hdig, hx⟩ := decParse_leading_point d x hp
    have hk : 0 < x.2 := by
      rw [hx]
      cases d with
      | nil => exact absurd rfl hne
      | cons _ _ => simp
    have hv : x.1 < 10 ^ x.2 := by rw [hx]; exact digitsValue_lt d hdig
    obtain ⟨tl, h1, h2⟩ := decRender_frac x hk hv
    exact .inr (.inl ⟨tl, h1, h2⟩)
  dataItem := fun _ x _ => dataNumOK_dec x

/-! ### instantiations on a program with real numerals -/

/-- the LIST fixed point for every line over `Dec` -/
theorem list_fixpoint_dec (line : Str) (ts : List (Token Dec)) (h : tokenize (F := Dec) line 0 = .ok ts) :
    tokenize (F := Dec) (listLine ts) 0 = .ok ts :=
  list_fixpoint numLaws_dec line ts h

/-- `print a.5;1.5;.25:data 1.5, .5,007, x 1` — a numeral after an identifier, numerals after
    operators, DATA numbers — as the tokenizer reads it, as LIST prints it, and read again -/
example :
    tokenize (F := Dec) "print a.5;1.5;.25:data 1.5, .5,007, x 1".toList 0 =
      .ok [.kw .Print, .symbol ['A'], .num (5, 1), .kw .Semicolon, .num (15, 1), .kw .Semicolon, .num (25, 2),
           .kw .Colon, .data [.num (15, 1), .num (5, 1), .num (7, 0), .str "x 1".toList]] ∧
    listLine (F := Dec) [.kw .Print, .symbol ['A'], .num (5, 1), .kw .Semicolon, .num (15, 1), .kw .Semicolon, .num (25, 2),
           .kw .Colon, .data [.num (15, 1), .num (5, 1), .num (7, 0), .str "x 1".toList]] =
      "PRINT A .5 ; 1.5 ; 0.25 : DATA 1.5, 0.5, 7, \"x 1\"".toList ∧
    tokenize (F := Dec) "PRINT A .5 ; 1.5 ; 0.25 : DATA 1.5, 0.5, 7, \"x 1\"".toList 0 =
      .ok [.kw .Print, .symbol ['A'], .num (5, 1), .kw .Semicolon, .num (15, 1), .kw .Semicolon, .num (25, 2),
           .kw .Colon, .data [.num (15, 1), .num (5, 1), .num (7, 0), .str "x 1".toList]] := by
  have h : tokenize (F := Dec) "print a.5;1.5;.25:data 1.5, .5,007, x 1".toList 0 =
      .ok [.kw .Print, .symbol ['A'], .num (5, 1), .kw .Semicolon, .num (15, 1), .kw .Semicolon, .num (25, 2),
           .kw .Colon, .data [.num (15, 1), .num (5, 1), .num (7, 0), .str "x 1".toList]] := by rfl
  have hl : listLine (F := Dec) [.kw .Print, .symbol ['A'], .num (5, 1), .kw .Semicolon, .num (15, 1), .kw .Semicolon, .num (25, 2),
           .kw .Colon, .data [.num (15, 1), .num (5, 1), .num (7, 0), .str "x 1".toList]] =
      "PRINT A .5 ; 1.5 ; 0.25 : DATA 1.5, 0.5, 7, \"x 1\"".toList := by decide +kernel
  refine ⟨h, hl, ?_⟩
  rw [← hl]
  exact list_fixpoint_dec _ _ h

/-- a program entered out of order: `1.5` in an expression, `.5` after an identifier,
    DATA numbers (with and without integer part, with leading zeros) and strings -/
def sessionE : St Dec :=
  applyCalls 50 [.start "40 PRINT A .5; B; C; D; A$".toList, .start "10 DATA 1.5, .25, 007, \"A, B\"".toList,
    .start "30 X = 1.5 : PRINT X; 2.50".toList, .start "20 READ B, C, D, A$".toList] {}

theorem sessionE_reachable : Reachable 50 sessionE := reachable_applyCalls 50 _ _ .init

theorem sessionE_idle : sessionE.state = .idle := by decide +kernel

/-- `reload_same_run` instantiated: RUN and whatever follows cannot tell the reloaded
    interpreter from the original … -/
theorem reload_same_run_dec (cs : List Call) :
    transcript 50 (runCall :: cs) (reload 50 sessionE) = transcript 50 (runCall :: cs) sessionE :=
  (reload_same_run numLaws_dec 50 50 sessionE sessionE_reachable sessionE_idle cs).1

/-- … `reload_data_sequence` instantiated: READ sees the same DATA items … -/
theorem reload_data_sequence_dec : (reload 50 sessionE).lines.dataChunks = sessionE.lines.dataChunks :=
  reload_data_sequence numLaws_dec 50 50 sessionE sessionE_reachable

/-- … LIST of the reloaded program is LIST of the program, and the store is the canonical one -/
theorem reload_list_dec : (reload 50 sessionE).lines.list = sessionE.lines.list :=
  reload_list numLaws_dec 50 50 sessionE sessionE_reachable

theorem reload_lines_dec : (reload 50 sessionE).lines = sessionE.lines.canon :=
  reload_lines_eq_partial numLaws_dec 50 50 sessionE sessionE_reachable

/-- The conclusions are not trivial (checked by evaluation): the listing, the DATA chunks
    with their numbers, the differing orders of the token maps, and the transcript of RUN and
    five further turns (one per statement), which prints `1.52.50` and `00.51.50.257A, B`. -/
theorem sessionE_facts :
    sessionE.lines.list = some ["10 DATA 1.5, 0.25, 7, \"A, B\"\n".toList, "20 READ B , C , D , A$\n".toList,
      "30 X = 1.5 : PRINT X ; 2.50\n".toList, "40 PRINT A .5 ; B ; C ; D ; A$\n".toList] ∧
    sessionE.lines.dataChunks =
      some [({ line := some 10, idx := 0 }, [.num (15, 1), .num (25, 2), .num (7, 0), .str "A, B".toList])] ∧
    sessionE.lines.map.map (·.1) = [40, 10, 30, 20] ∧ (reload 50 sessionE).lines.map.map (·.1) = [10, 20, 30, 40] ∧
    transcript 50 [runCall, .cont, .cont, .cont, .cont, .cont] sessionE =
      [(none, []), (none, []), (none, []), (none, []), (none, [.print "1.52.50\n".toList]),
       (none, [.print "00.51.50.257A, B\n".toList, .print "1.52.50\n".toList])] := by
  refine ⟨by decide +kernel, by decide +kernel, by decide +kernel, by decide +kernel, by decide +kernel⟩

end

end Abasic.Props.C14
