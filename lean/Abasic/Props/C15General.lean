import Abasic.Props.C15More
import Abasic.Props.C17Trace
/-
  C15 for EVERY file — what file mode and typed mode do with the lines outside
  `FileLines` (no line number / not tokenizable / a bare line number).

  * `cliRefuses_iff`: without `--skip-check` file mode refuses exactly when the
    analysis of the file has an error diagnostic; with it, never.
  * `lineEdit` / `typedEdit`: the program edit a line denotes in file mode / when
    typed.  They agree except on a numbered line without statements (`10`): typed, it
    DELETES line 10; in a file it is reported ("no statements, will not be defined")
    and changes nothing (`lineEdit_eq`).
  * `load_store_general`, `cliLoad_store`: for EVERY file the program `cliLoad` holds
    is the fold of the `lineEdit`s of its lines: the lines skipped are exactly the
    empty, unnumbered, untokenizable and statement-less ones (`lineEdit_eq_none_iff`).
  * `typed_line_store`: for EVERY line and EVERY state, typing the line changes the
    program store by `typedEdit` when the interpreter is idle and not at all otherwise.
    In particular no command and no immediate statement — whatever it executes —
    changes the stored program (frame property of `run_next_statement`,
    `le_runNextStatement`); the only writer is the numbered-line entry.
    (NEW does not edit the store either: it asks the HOST for a new interpreter,
    `state := newRequested`.)
  * `typed_store_general`: hence, when every line of the file is typed while the
    interpreter is idle (`TypedIdle`), the typed store is the fold of the `typedEdit`s.
    `typedIdle_of_quiet`: this holds when every line is numbered, a failing line, an
    empty immediate line or one of the commands LIST / TRACE / NOTRACE / INTERNALS /
    STATS.
  * `same_program_general`: both modes hold the same program when every line is typed
    at an idle prompt and no line is a bare line number.
  * Checked counterexamples for each excluded shape at the end.
-/
namespace Abasic.Props.C15
open Abasic Abasic.Hoare Abasic.Trace

variable {F : Type} [NumOps F]

/-! ### 1. when file mode refuses -/

/-- Without `--skip-check`, file mode refuses the file exactly when its analysis
    contains an error diagnostic (warnings never stop it). -/
theorem cliRefuses_iff (fuel : Nat) (text : Str) :
    cliRefuses (F := F) fuel false text = true ↔
      ∃ f e, Diag.error f e ∈ (analyzeText (F := F) fuel text).messages := by
  unfold cliRefuses
  simp only [Bool.not_false, Bool.true_and, List.any_eq_true]
  constructor
  · rintro ⟨d, hd, h⟩
    cases d with
    | warning f l m => cases h
    | error f e => exact ⟨f, e, hd⟩
  · rintro ⟨f, e, hd⟩
    exact ⟨_, hd, rfl⟩

/-- With `--skip-check` it never refuses. -/
theorem cliRefuses_skip (fuel : Nat) (text : Str) : cliRefuses (F := F) fuel true text = false := by
  simp [cliRefuses]

/-! #### a line that does not tokenize makes file mode refuse -/

/-- the diagnostics of `a0` are still diagnostics of `a` -/
def MsgSub (a0 a : Analysis F) : Prop := ∀ d ∈ a0.messages, d ∈ a.messages

omit [NumOps F] in
theorem MsgSub.refl (a : Analysis F) : MsgSub a a := fun _ h => h

omit [NumOps F] in
theorem MsgSub.trans {a0 a1 a2 : Analysis F} (h1 : MsgSub a0 a1) (h2 : MsgSub a1 a2) : MsgSub a0 a2 :=
  fun d hd => h2 d (h1 d hd)

omit [NumOps F] in
theorem MsgSub.same {a0 a : Analysis F} (h : a.messages = a0.messages) : MsgSub a0 a :=
  fun d hd => by rw [h]; exact hd

omit [NumOps F] in
theorem MsgSub.add {a0 a : Analysis F} (d0 : Diag) (h : a.messages = a0.messages ++ [d0]) : MsgSub a0 a :=
  fun d hd => by rw [h]; exact List.mem_append_left _ hd

theorem analyzeStatements_sub (fuel n : Nat) (a : Analysis F) : MsgSub a (analyzeStatements fuel n a) := by
  induction n generalizing a with
  | zero => exact MsgSub.same rfl
  | succ n ih =>
    unfold analyzeStatements
    cases hasNext a.st with
    | err e s => exact MsgSub.same rfl
    | ok b st =>
      cases b with
      | false => exact MsgSub.same rfl
      | true =>
        simp only
        cases aStmtBody (aEvalN fuel) st with
        | ok u st' => exact fun d hd => ih { a with st := st' } d hd
        | err e st' =>
          simp only
          split
          · exact MsgSub.same rfl
          · split
            · exact MsgSub.add _ rfl
            · exact MsgSub.same rfl

theorem analyzeProgram_step_sub (fuel n : Nat) (ih : ∀ a : Analysis F, MsgSub a (analyzeProgram fuel n a))
    (a a1 : Analysis F) (hk : MsgSub a a1) :
    MsgSub a (if a1.panicked.isSome then a1
      else
        match nextLine a1.st with
        | .ok true st => analyzeProgram fuel n { a1 with st := st }
        | .ok false st => { a1 with st := st }
        | .err e _ => { a1 with panicked := some (toString (repr e.err)) }) := by
  split
  · exact hk
  · cases nextLine a1.st with
    | err e s => exact hk
    | ok b st =>
      cases b with
      | false => exact hk
      | true => exact fun d hd => ih { a1 with st := st } d (hk d hd)

theorem analyzeProgram_sub (fuel n : Nat) (a : Analysis F) : MsgSub a (analyzeProgram fuel n a) := by
  induction n generalizing a with
  | zero => exact MsgSub.same rfl
  | succ n ih =>
    unfold analyzeProgram
    split
    · exact MsgSub.refl a
    · exact analyzeProgram_step_sub fuel n ih a _ (analyzeStatements_sub fuel _ a)

omit [NumOps F] in
theorem foldl_sub {β : Type} (f : Analysis F → β → Analysis F) (hf : ∀ a b, MsgSub a (f a b))
    (l : List β) (a : Analysis F) : MsgSub a (l.foldl f a) := by
  induction l generalizing a with
  | nil => exact MsgSub.refl a
  | cons b l ih => exact MsgSub.trans (hf a b) (ih _)

omit [NumOps F] in
theorem symbolWarnings_sub (a : Analysis F) : MsgSub a (symbolWarnings a) := by
  unfold symbolWarnings
  simp only
  apply foldl_sub
  intro a1 sym
  have emit : ∀ (locs : List (Str × Nat × Nat × Access)) (text : Str) (a2 : Analysis F),
      MsgSub a2 (locs.foldl (fun a (x : Str × Nat × Nat × Access) =>
        match x with
        | (_, n, i, _) =>
          match a.map.mapLoc { line := some n, idx := i } with
          | some (f, _, _) => { a with messages := a.messages ++ [.warning f (some (n, i)) text] }
          | none => { a with panicked := some "symbol warning: unwrap on None" }) a2) := by
    intro locs text a2
    apply foldl_sub
    intro a3 x
    obtain ⟨s, n, i, k⟩ := x
    simp only
    split
    · exact MsgSub.add _ rfl
    · exact MsgSub.same rfl
  split
  · exact emit _ _ _
  · split
    · exact emit _ _ _
    · exact MsgSub.refl _

theorem analyzeFile_sub (fuel : Nat) (lines : List Str) :
    MsgSub (analyzeLines ({ lines := lines } : Analysis F) 0 lines) (analyzeFile fuel lines) := by
  unfold analyzeFile
  simp only
  have h1 : MsgSub (analyzeLines ({ lines := lines } : Analysis F) 0 lines)
      { analyzeLines ({ lines := lines } : Analysis F) 0 lines with
        st := (analyzeLines ({ lines := lines } : Analysis F) 0 lines).st.runFromFirst } :=
    MsgSub.same rfl
  have h2 := MsgSub.trans h1 (analyzeProgram_sub fuel (lines.length + 2) _)
  split
  · exact h2
  · exact MsgSub.trans h2 (symbolWarnings_sub _)

theorem parse_nonempty {line : Str} {p : Nat × Nat} (hp : parseLineNumber line = some p) : line.isEmpty = false := by
  cases line with
  | nil => cases hp
  | cons _ _ => rfl

theorem analyzeLine_sub (a : Analysis F) (i : Nat) (line : Str) : MsgSub a (analyzeLine a i line) := by
  intro d hd
  by_cases he : line.isEmpty = true
  · simp only [analyzeLine, he, if_true]; exact hd
  · cases hp : parseLineNumber line with
    | none =>
      simp only [analyzeLine, he, hp, warnLine, Bool.false_eq_true, if_false]
      exact List.mem_append_left _ hd
    | some q =>
      obtain ⟨n, lnEnd⟩ := q
      cases ht : tokenizeRanges (F := F) line lnEnd with
      | mk toks err =>
        cases err with
        | none =>
          by_cases hh : a.st.lines.has n = true <;> by_cases hemp : toks.isEmpty = true <;>
            simp only [analyzeLine, he, hp, ht, hh, hemp, warnLine, Bool.false_eq_true, if_false, if_true] <;>
            simp [hd]
        | some e =>
          by_cases hh : a.st.lines.has n = true <;>
            simp only [analyzeLine, he, hp, ht, hh, warnLine, Bool.false_eq_true, if_false, if_true] <;>
            simp [hd]

/-- a numbered line that does not tokenize is reported as an error on its file line -/
theorem analyzeLine_error (a : Analysis F) (i : Nat) (line : Str) (n k : Nat) (rts : List (RangedToken F)) (e : TokErr)
    (hp : parseLineNumber line = some (n, k)) (ht : tokenizeRanges (F := F) line k = (rts, some e)) :
    Diag.error i { err := .syntax (.tokenization e) } ∈ (analyzeLine a i line).messages := by
  have he := parse_nonempty hp
  by_cases hh : a.st.lines.has n = true <;>
    simp only [analyzeLine, he, hp, ht, hh, warnLine, Bool.false_eq_true, if_false, if_true] <;>
    simp

theorem analyzeLines_sub (a : Analysis F) (i : Nat) (ls : List Str) : MsgSub a (analyzeLines a i ls) := by
  induction ls generalizing a i with
  | nil => exact MsgSub.refl a
  | cons l ls ih => exact MsgSub.trans (analyzeLine_sub a i l) (ih _ _)

theorem analyzeLines_error (a : Analysis F) (i : Nat) (ls : List Str) (line : Str) (hl : line ∈ ls)
    (n k : Nat) (rts : List (RangedToken F)) (e : TokErr)
    (hp : parseLineNumber line = some (n, k)) (ht : tokenizeRanges (F := F) line k = (rts, some e)) :
    ∃ f, Diag.error f { err := .syntax (.tokenization e) } ∈ (analyzeLines a i ls).messages := by
  induction ls generalizing a i with
  | nil => cases hl
  | cons l ls ih =>
    rcases List.mem_cons.mp hl with rfl | hl
    · exact ⟨i, analyzeLines_sub (analyzeLine a i line) (i + 1) ls _ (analyzeLine_error a i line n k rts e hp ht)⟩
    · exact ih _ _ hl

/-- **A numbered line that does not tokenize makes file mode refuse the file** (unless
    `--skip-check`, with which the line is simply skipped: `cliLoad_store`).  A line
    without a number never does by itself: it only draws the warning
    "Line has no line number, ignoring it." -/
theorem refuses_of_untokenizable (fuel : Nat) (text : Str) (line : Str) (hl : line ∈ splitLF text)
    (n k : Nat) (rts : List (RangedToken F)) (e : TokErr)
    (hp : parseLineNumber line = some (n, k)) (ht : tokenizeRanges (F := F) line k = (rts, some e)) :
    cliRefuses (F := F) fuel false text = true := by
  rw [cliRefuses_iff]
  obtain ⟨f, hf⟩ := analyzeLines_error ({ lines := splitLF text } : Analysis F) 0 (splitLF text) line hl n k rts e hp ht
  exact ⟨f, _, analyzeFile_sub fuel (splitLF text) _ hf⟩

/-! ### 2. the edit a line denotes -/

/-- what typing `line` at an idle prompt does to the program: a numbered line that
    tokenizes is stored under its number (`Lines.set`: an empty token list deletes) -/
def typedEdit (F : Type) [NumOps F] (line : Str) : Option (Nat × List (Token F)) :=
  match parseLineNumber line with
  | none => none
  | some (n, k) =>
    match tokenizeRanges (F := F) line k with
    | (rts, none) => some (n, rts.map (·.1))
    | (_, some _) => none

/-- what the analyzer's line pass (file mode) does to the program: as `typedEdit`, but a
    numbered line without statements is NOT an edit -/
def lineEdit (F : Type) [NumOps F] (line : Str) : Option (Nat × List (Token F)) :=
  match typedEdit F line with
  | none => none
  | some (n, ts) => if ts.isEmpty then none else some (n, ts)

/-- the program edits of a file, in order -/
def fileEdits (F : Type) [NumOps F] (lines : List Str) : List (Nat × List (Token F)) :=
  lines.filterMap (lineEdit F)

def applyEdit (e : Option (Nat × List (Token F))) (L : Lines F) : Lines F :=
  match e with
  | none => L
  | some (n, ts) => L.set n ts

def applyEdits (es : List (Nat × List (Token F))) (L : Lines F) : Lines F :=
  es.foldl (fun l e => l.set e.1 e.2) L

/-- the two differ only on bare line numbers -/
theorem lineEdit_eq (line : Str) :
    lineEdit F line = (typedEdit F line).filter fun e => !e.2.isEmpty := by
  unfold lineEdit
  cases typedEdit F line with
  | none => rfl
  | some e =>
    obtain ⟨n, ts⟩ := e
    cases h : ts.isEmpty <;> simp [Option.filter, h]

theorem parseLineNumber_nil : parseLineNumber [] = none := rfl

/-- The lines file mode skips are exactly: lines without a line number (empty lines
    among them), numbered lines that do not tokenize, numbered lines without statements. -/
theorem lineEdit_eq_none_iff (line : Str) :
    lineEdit F line = none ↔
      parseLineNumber line = none ∨
      ∃ n k, parseLineNumber line = some (n, k) ∧
        ((∃ rts e, tokenizeRanges (F := F) line k = (rts, some e)) ∨ tokenizeRanges (F := F) line k = ([], none)) := by
  unfold lineEdit typedEdit
  cases hp : parseLineNumber line with
  | none => simp
  | some p =>
    obtain ⟨n, k⟩ := p
    cases ht : tokenizeRanges (F := F) line k with
    | mk rts err =>
      cases err with
      | some e =>
        simp [ht]
        exact ⟨n, k, ⟨rfl, rfl⟩, .inl ⟨rts, e, ht⟩⟩
      | none =>
        cases rts with
        | nil =>
          simp [ht]
          exact ⟨n, k, ⟨rfl, rfl⟩, .inr ht⟩
        | cons r rts => simp [ht]

/-- a `GoodLine` denotes its edit in both modes -/
theorem GoodLine.edits {line : Str} {n : Nat} {ts : List (Token F)} (h : GoodLine F line n ts) :
    typedEdit F line = some (n, ts) ∧ lineEdit F line = some (n, ts) := by
  obtain ⟨_, k, rts, hp, ht, hm, hts⟩ := h
  have h1 : typedEdit F line = some (n, ts) := by simp only [typedEdit, hp, ht, hm]
  refine ⟨h1, ?_⟩
  have : ts.isEmpty = false := by cases ts with
    | nil => exact absurd rfl hts
    | cons _ _ => rfl
  simp only [lineEdit, h1, this, Bool.false_eq_true, if_false]

theorem FileLines.fileEdits {lines : List Str} {edits : List (Nat × List (Token F))}
    (h : FileLines F lines edits) : fileEdits F lines = edits := by
  induction h with
  | nil => rfl
  | good hl _ ih =>
    simp only [C15.fileEdits, List.filterMap_cons, hl.edits.2]
    exact congrArg _ ih
  | blank _ ih =>
    have : lineEdit F [] = none := rfl
    simp only [C15.fileEdits, List.filterMap_cons, this]
    exact ih

/-! ### 3. file mode, every file -/

/-- one line of the analyzer's line pass -/
theorem analyzeLine_store_general (a : Analysis F) (i : Nat) (line : Str) :
    (analyzeLine a i line).st.lines = applyEdit (lineEdit F line) a.st.lines := by
  by_cases he : line.isEmpty = true
  · have : line = [] := by cases line <;> simp_all
    subst this
    simp [analyzeLine, applyEdit, lineEdit, typedEdit, parseLineNumber_nil]
  · have he' : line.isEmpty = false := by simpa using he
    unfold analyzeLine lineEdit typedEdit
    simp only [he', Bool.false_eq_true, if_false]
    cases hp : parseLineNumber line with
    | none => simp [applyEdit, warnLine]
    | some p =>
      obtain ⟨n, k⟩ := p
      simp only
      cases ht : tokenizeRanges (F := F) line k with
      | mk rts err =>
        cases err with
        | some e => simp only [applyEdit]; split <;> rfl
        | none =>
          cases rts with
          | nil => simp only [List.isEmpty_nil, if_true, List.map_nil, applyEdit]; split <;> rfl
          | cons r rts =>
            simp only [List.isEmpty_cons, Bool.false_eq_true, if_false, List.map_cons, applyEdit,
              St.setNumberedLine, St.setImmediate]
            split <;> rfl

/-- **load_store_general.**  For EVERY list of lines — whatever they contain — the
    program store after the analyzer's line pass is the fold of the edits of the
    numbered, tokenizable, non-empty lines (generalises `load_store`, `load_store_fileLines`). -/
theorem load_store_general (lines : List Str) (a : Analysis F) (i : Nat) :
    (analyzeLines a i lines).st.lines = applyEdits (fileEdits F lines) a.st.lines := by
  induction lines generalizing a i with
  | nil => rfl
  | cons l ls ih =>
    simp only [analyzeLines, ih, analyzeLine_store_general, fileEdits, List.filterMap_cons]
    cases lineEdit F l with
    | none => rfl
    | some e => rfl

/-- `load_store` is the special case of a `GoodFile` … -/
theorem load_store_of_general (lines : List Str) (edits : List (Nat × List (Token F))) (h : GoodFile F lines edits)
    (a : Analysis F) (i : Nat) :
    (analyzeLines a i lines).st.lines = edits.foldl (fun l e => l.set e.1 e.2) a.st.lines := by
  rw [load_store_general, h.fileLines.fileEdits]; rfl

/-- **The program file mode runs, for EVERY file** (with `--skip-check`, or when the
    check passes: `skip_check_same_program`): the fold of the file's edits over the
    empty program.  Everything else in the loaded interpreter is initial or an option
    (`loaded_is_fresh`, `cli_flags_file`). -/
theorem cliLoad_store (fuel : Nat) (w t : Bool) (seed : Nat) (text : Str) :
    (cliLoad (F := F) fuel w t seed text).lines = applyEdits (fileEdits F (splitLF text)) {} := by
  have hk := AFrame.analyzeFile_key (F := F) fuel (splitLF text)
  rw [load_store_general] at hk
  simp only [cliLoad, cliConfigure, Analysis.intoInterpreter, analyzeText, hk.1]

/-- the whole loaded interpreter -/
theorem cliLoad_eq_general (fuel : Nat) (w t : Bool) (seed : Nat) (text : Str) :
    cliLoad (F := F) fuel w t seed text = entered w t seed (applyEdits (fileEdits F (splitLF text)) {}) := by
  have hk := AFrame.analyzeFile_key (F := F) fuel (splitLF text)
  rw [load_store_general] at hk
  simp only [cliLoad, cliConfigure, Analysis.intoInterpreter, analyzeText, hk.1, hk.2, entered]

/-! ### 4. nothing but the numbered-line entry writes the program store -/

/-- the frame: the program store is unchanged -/
def LinesEq (σ σ' : St F) : Prop := σ'.lines = σ.lines

instance : IsFrame (LinesEq (F := F)) where
  refl _ := rfl
  trans h1 h2 := Eq.trans h2 h1

omit [NumOps F] in
theorem le_of_nt {σ σ' : St F} (h : NT σ σ') : LinesEq σ σ' := h.2.1

omit [NumOps F] in
theorem le_of_rx {σ σ' : St F} (h : RX σ σ') : LinesEq σ σ' := h.2.1

namespace LinesFrame
scoped macro_rules | `(tactic| respects_leaf) => `(tactic| exact (rfl : _ = _))
end LinesFrame

/-- a statement activation — whatever it executes, nested statements included — does
    not change the stored program -/
theorem le_stmtBody (n : Nat) : Respects LinesEq (stmtBody (F := F) (evalN n)) := by
  apply respects_of_at
  intro σ
  rw [respectsAt_iff_final]
  exact (C17.activation n σ).2.2.1

open LinesFrame in
/-- one turn of the interpreter does not change the stored program -/
theorem le_runNextStatement (fuel : Nat) : Respects LinesEq (runNextStatement (F := F) fuel) := by
  rw [C09.turn_anatomy]
  have h1 : Respects LinesEq (hasNext (F := F)) := Lift.rx_hasNext.mono (fun _ _ => le_of_rx)
  have h2 := le_stmtBody (F := F) fuel
  have h3 : Respects LinesEq (C09.sequence (F := F)) := C17.nt_sequence.mono (fun _ _ => le_of_nt)
  respects_tac

omit [NumOps F] in
theorem le_setImmediate (ts : List (Token F)) : Respects LinesEq (setImmediate ts) :=
  (Lift.nt_setImmediate ts).mono (fun _ _ => le_of_nt)

omit [NumOps F] in
theorem runFromFirst_lines (σ : St F) : σ.runFromFirst.lines = σ.lines := by
  unfold St.runFromFirst St.resetRuntime St.setImmediate
  dsimp only
  split <;> rfl

open LinesFrame in
/-- no command changes the stored program (NEW only sets `newRequested`; RUN and CONT
    run a turn) -/
theorem le_maybeProcessCommand (fuel : Nat) (line : Str) :
    Respects LinesEq (maybeProcessCommand (F := F) fuel line) := by
  unfold maybeProcessCommand continueFromBreakpoint emit
  have := le_runNextStatement (F := F) fuel
  have := le_setImmediate (F := F)
  have hrun : Respects LinesEq (M.modify fun s : St F =>
      ({ s with input := none, vars := [], arrays := [] }).runFromFirst) := by
    apply respects_modify
    intro σ
    exact runFromFirst_lines _
  respects_tac

open LinesFrame in
/-- typing a line that denotes no edit — a command, an immediate statement, a line that
    does not tokenize — never changes the stored program, from any state -/
theorem le_evaluateImpl_no_edit (fuel : Nat) (line : Str) (h : typedEdit F line = none) :
    Respects LinesEq (evaluateImpl (F := F) fuel line) := by
  have := le_runNextStatement (F := F) fuel
  have := le_maybeProcessCommand (F := F) fuel line
  have := le_setImmediate (F := F)
  unfold evaluateImpl
  cases hp : parseLineNumber line with
  | none =>
    simp only []
    respects_tac
  | some p =>
    obtain ⟨n, k⟩ := p
    cases ht : tokenizeRanges (F := F) line k with
    | mk rts err =>
      cases err with
      | none => simp [typedEdit, hp, ht] at h
      | some e =>
        have htok : tokenize (F := F) line k = .error e := by simp [tokenize, ht]
        simp only [htok]
        respects_tac

omit [NumOps F] in
theorem final_postprocess_lines {α : Type} (m : M F α) (σ : St F) :
    (postprocess m σ).final.lines = (m σ).final.lines := (C17.final_postprocess m σ).2.1

/-- typing any line when the interpreter is NOT idle is the protocol assertion: nothing stored -/
theorem typed_not_idle (fuel : Nat) (line : Str) (σ : St F) (h : σ.state ≠ .idle) :
    startEvaluating fuel line σ =
      .err (σ.populate { err := .panic "assertion failed: state == Idle" }) { σ with state := .idle } := by
  have hb : (σ.state != .idle) = true := by simpa using h
  simp [startEvaluating, postprocess, evaluateImpl, bind, M.bindM, M.get, hb, M.rpanic]

/-- **What typing one line does to the program store** — every line, every state:
    at an idle prompt it applies the line's `typedEdit` (nothing for a line without a
    number or a line that does not tokenize, whatever else the line makes the
    interpreter do); when the interpreter is not idle, nothing. -/
theorem typed_line_store (fuel : Nat) (line : Str) (σ : St F) :
    (startEvaluating fuel line σ).final.lines =
      if σ.state = .idle then applyEdit (typedEdit F line) σ.lines else σ.lines := by
  by_cases hidle : σ.state = .idle
  · rw [if_pos hidle]
    cases hp : parseLineNumber line with
    | none =>
      have hte : typedEdit F line = none := by simp only [typedEdit, hp]
      rw [hte]
      unfold startEvaluating
      rw [final_postprocess_lines]
      exact (le_evaluateImpl_no_edit fuel line hte).final σ
    | some p =>
      obtain ⟨n, k⟩ := p
      have hcmd := numbered_not_command line _ hp
      cases ht : tokenizeRanges (F := F) line k with
      | mk rts err =>
        cases err with
        | none =>
          have hte : typedEdit F line = some (n, rts.map (·.1)) := by simp only [typedEdit, hp, ht]
          have htok : tokenize (F := F) line k = .ok (rts.map (·.1)) := by simp [tokenize, ht]
          have : startEvaluating fuel line σ = .ok () ((σ.setImmediate []).setNumberedLine n (rts.map (·.1))) := by
            simp [startEvaluating, postprocess, evaluateImpl, hidle, maybeProcessCommand, hcmd, hp, htok,
              bind, M.bindM, M.get, M.modify, setImmediate, pure, M.pureM]
          rw [this, hte]
          rfl
        | some e =>
          have hte : typedEdit F line = none := by simp only [typedEdit, hp, ht]
          rw [hte]
          unfold startEvaluating
          rw [final_postprocess_lines]
          exact (le_evaluateImpl_no_edit fuel line hte).final σ
  · rw [if_neg hidle, typed_not_idle fuel line σ hidle]
    rfl

/-! ### 5. typed mode, every file -/

theorem typeLines_cons (fuel : Nat) (l : Str) (ls : List Str) (s : St F) :
    typeLines fuel (l :: ls) s = typeLines fuel ls (startEvaluating fuel l s).final := by
  simp only [typeLines]
  cases startEvaluating fuel l s <;> rfl

/-- every line of the list is typed while the interpreter is idle (as lines typed at the
    prompt are: the prompt only appears when the interpreter is idle) -/
def TypedIdle (fuel : Nat) : List Str → St F → Prop
  | [], _ => True
  | l :: ls, s => s.state = .idle ∧ TypedIdle fuel ls (startEvaluating fuel l s).final

/-- the edits typing a file line by line makes -/
def typedEdits (F : Type) [NumOps F] (lines : List Str) : List (Nat × List (Token F)) :=
  lines.filterMap (typedEdit F)

/-- **typed_store_general.**  For EVERY list of lines: when each of them is typed at an
    idle prompt, the program store afterwards is the fold of the `typedEdit`s of the
    numbered tokenizable lines.  The lines that are not stored — commands, immediate
    statements, lines that do not tokenize — contribute nothing, whatever they execute
    (`typed_line_store`); the hypothesis is only needed because a line typed while the
    interpreter is running, awaiting input, or waiting to be replaced (after NEW) is
    not entered at all. -/
theorem typed_store_general (fuel : Nat) (lines : List Str) (s : St F) (h : TypedIdle fuel lines s) :
    (typeLines fuel lines s).lines = applyEdits (typedEdits F lines) s.lines := by
  induction lines generalizing s with
  | nil => rfl
  | cons l ls ih =>
    obtain ⟨hs, hrest⟩ := h
    rw [typeLines_cons, ih _ hrest, typed_line_store, if_pos hs]
    simp only [typedEdits, List.filterMap_cons]
    cases typedEdit F l with
    | none => rfl
    | some e => rfl

/-- without a bare line number among them, the typed edits are the file edits -/
theorem typedEdits_eq_fileEdits (lines : List Str)
    (hbare : ∀ l ∈ lines, ∀ n ts, typedEdit F l = some (n, ts) → ts ≠ []) :
    typedEdits F lines = fileEdits F lines := by
  induction lines with
  | nil => rfl
  | cons l ls ih =>
    have ih' := ih (fun l' hl' => hbare l' (List.mem_cons_of_mem _ hl'))
    simp only [typedEdits, fileEdits, List.filterMap_cons] at ih' ⊢
    have hl := hbare l (List.mem_cons_self ..)
    unfold lineEdit
    cases hte : typedEdit F l with
    | none => simp only; exact ih'
    | some e =>
      obtain ⟨n, ts⟩ := e
      have : ts.isEmpty = false := by
        cases ts with
        | nil => exact absurd rfl (hl n [] hte)
        | cons _ _ => rfl
      simp only [this, Bool.false_eq_true, if_false]
      exact congrArg _ ih'

/-- **same_program_general.**  File mode and typed mode hold the SAME PROGRAM for every
    file such that (1) each line is typed at an idle prompt and (2) no line is a bare
    line number.  Lines without a number, lines that do not tokenize, commands and
    immediate statements are all allowed — they are skipped by file mode and do not
    touch the store in typed mode.  Both conditions are necessary in general
    (`bare_number_differs`, `new_differs`, `busy_differs`). -/
theorem same_program_general (fuel : Nat) (w t : Bool) (seed : Nat) (text : Str)
    (hidle : TypedIdle fuel (splitLF text) (cliCreate (F := F) w t seed))
    (hbare : ∀ l ∈ splitLF text, ∀ n ts, typedEdit F l = some (n, ts) → ts ≠ []) :
    (cliLoad (F := F) fuel w t seed text).lines =
      (typeLines fuel (splitLF text) (cliCreate w t seed)).lines := by
  rw [cliLoad_store, typed_store_general fuel _ _ hidle, typedEdits_eq_fileEdits _ hbare]
  rfl

/-! ### 6. lines after which the prompt is idle again -/

/-- an error always returns the interpreter to idle -/
theorem idle_of_err (fuel : Nat) (line : Str) (σ σ' : St F) (e : TErr)
    (h : startEvaluating fuel line σ = .err e σ') : σ'.state = .idle := by
  unfold startEvaluating postprocess at h
  cases hm : evaluateImpl fuel line σ with
  | ok a s => rw [hm] at h; cases h
  | err e' s =>
    rw [hm] at h
    simp only [Res.err.injEq] at h
    rw [← h.2]

/-- a numbered line (stored, deleted or rejected) leaves the prompt idle -/
theorem idle_after_numbered (fuel : Nat) (line : Str) (σ : St F) (p : Nat × Nat)
    (hp : parseLineNumber line = some p) (hidle : σ.state = .idle) :
    (startEvaluating fuel line σ).final.state = .idle := by
  obtain ⟨n, k⟩ := p
  have hcmd := numbered_not_command line _ hp
  cases hr : startEvaluating fuel line σ with
  | err e s => exact idle_of_err fuel line σ s e hr
  | ok u s =>
    show s.state = .idle
    cases htok : tokenize (F := F) line k with
    | error e =>
      simp [startEvaluating, postprocess, evaluateImpl, hidle, maybeProcessCommand, hcmd, hp, htok,
        bind, M.bindM, M.get, M.modify, setImmediate, pure, M.pureM, M.fail] at hr
    | ok ts =>
      simp [startEvaluating, postprocess, evaluateImpl, hidle, maybeProcessCommand, hcmd, hp, htok,
        bind, M.bindM, M.get, M.modify, setImmediate, pure, M.pureM] at hr
      rw [← hr]
      exact hidle

/-- the commands that finish at once -/
def instant : Command → Bool
  | .list | .trace | .notrace | .internals | .stats => true
  | .run | .new | .cont => false

/-- LIST, TRACE, NOTRACE, INTERNALS, STATS leave the prompt idle -/
theorem idle_after_command (fuel : Nat) (line : Str) (σ : St F) (c : Command)
    (hc : (commandWord line).bind Command.ofWord = some c) (hi : instant c = true) (hidle : σ.state = .idle) :
    (startEvaluating fuel line σ).final.state = .idle := by
  cases hr : startEvaluating fuel line σ with
  | err e s => exact idle_of_err fuel line σ s e hr
  | ok u s =>
    show s.state = .idle
    cases c with
    | run => cases hi
    | new => cases hi
    | cont => cases hi
    | list =>
      cases hl : (σ.setImmediate []).lines.list with
      | none =>
        simp [startEvaluating, postprocess, evaluateImpl, hidle, maybeProcessCommand, hc, hl,
          bind, M.bindM, M.get, M.modify, setImmediate, M.rpanic] at hr
      | some ls =>
        simp [startEvaluating, postprocess, evaluateImpl, hidle, maybeProcessCommand, hc, hl,
          bind, M.bindM, M.get, M.set, M.modify, setImmediate, pure, M.pureM] at hr
        rw [← hr]; exact hidle
    | trace =>
      simp [startEvaluating, postprocess, evaluateImpl, hidle, maybeProcessCommand, hc,
        bind, M.bindM, M.get, M.modify, setImmediate, pure, M.pureM] at hr
      rw [← hr]; exact hidle
    | notrace =>
      simp [startEvaluating, postprocess, evaluateImpl, hidle, maybeProcessCommand, hc,
        bind, M.bindM, M.get, M.modify, setImmediate, pure, M.pureM] at hr
      rw [← hr]; exact hidle
    | internals =>
      simp [startEvaluating, postprocess, evaluateImpl, hidle, maybeProcessCommand, hc, emit,
        bind, M.bindM, M.get, M.modify, setImmediate, pure, M.pureM] at hr
      rw [← hr]; exact hidle
    | stats =>
      simp [startEvaluating, postprocess, evaluateImpl, hidle, maybeProcessCommand, hc, emit,
        bind, M.bindM, M.get, M.modify, setImmediate, pure, M.pureM] at hr
      rw [← hr]; exact hidle

/-- an immediate line without tokens (empty, blanks only) leaves the prompt idle -/
theorem idle_after_empty (fuel : Nat) (line : Str) (σ : St F)
    (hp : parseLineNumber line = none) (hc : (commandWord line).bind Command.ofWord = none)
    (htok : tokenize (F := F) line 0 = .ok []) (hidle : σ.state = .idle) :
    (startEvaluating fuel line σ).final.state = .idle := by
  cases hr : startEvaluating fuel line σ with
  | err e s => exact idle_of_err fuel line σ s e hr
  | ok u s =>
    show s.state = .idle
    simp [startEvaluating, postprocess, evaluateImpl, hidle, maybeProcessCommand, hc, hp, htok,
      runNextStatement, hasNext, peek, tokens, tokensForLine, nextLine, returnToIdle,
      bind, M.bindM, M.get, M.modify, setImmediate, pure, M.pureM, St.setImmediate] at hr
    rw [← hr]

/-- lines that provably leave the prompt idle, by their shape alone -/
def Quiet (F : Type) [NumOps F] (line : Str) : Prop :=
  (parseLineNumber line).isSome = true ∨
  (∃ c, (commandWord line).bind Command.ofWord = some c ∧ instant c = true) ∨
  (parseLineNumber line = none ∧ (commandWord line).bind Command.ofWord = none ∧
    (tokenize (F := F) line 0 = .ok [] ∨ ∃ e, tokenize (F := F) line 0 = .error e))

theorem idle_after_quiet (fuel : Nat) (line : Str) (σ : St F) (h : Quiet F line) (hidle : σ.state = .idle) :
    (startEvaluating fuel line σ).final.state = .idle := by
  rcases h with h | ⟨c, hc, hi⟩ | ⟨hp, hc, htok | ⟨e, htok⟩⟩
  · cases hp : parseLineNumber line with
    | none => rw [hp] at h; cases h
    | some p => exact idle_after_numbered fuel line σ p hp hidle
  · exact idle_after_command fuel line σ c hc hi hidle
  · exact idle_after_empty fuel line σ hp hc htok hidle
  · cases hr : startEvaluating fuel line σ with
    | err e' s => exact idle_of_err fuel line σ s e' hr
    | ok u s =>
      simp [startEvaluating, postprocess, evaluateImpl, hidle, maybeProcessCommand, hc, hp, htok,
        bind, M.bindM, M.get, M.modify, setImmediate, pure, M.pureM, M.fail] at hr

theorem typedIdle_of_quiet (fuel : Nat) (lines : List Str) (s : St F) (hs : s.state = .idle)
    (h : ∀ l ∈ lines, Quiet F l) : TypedIdle fuel lines s := by
  induction lines generalizing s with
  | nil => trivial
  | cons l ls ih =>
    exact ⟨hs, ih _ (idle_after_quiet fuel l s (h l (List.mem_cons_self ..)) hs)
      (fun l' hl' => h l' (List.mem_cons_of_mem _ hl'))⟩

/-- **same_program_quiet**: a file made of numbered lines (tokenizable or not), lines
    that do not tokenize, blank lines and LIST / TRACE / NOTRACE / INTERNALS / STATS
    commands, none of them a bare line number, gives the same program in both modes. -/
theorem same_program_quiet (fuel : Nat) (w t : Bool) (seed : Nat) (text : Str)
    (hq : ∀ l ∈ splitLF text, Quiet F l)
    (hbare : ∀ l ∈ splitLF text, ∀ n ts, typedEdit F l = some (n, ts) → ts ≠ []) :
    (cliLoad (F := F) fuel w t seed text).lines =
      (typeLines fuel (splitLF text) (cliCreate w t seed)).lines :=
  same_program_general fuel w t seed text (typedIdle_of_quiet fuel _ _ rfl hq) hbare

/-! ### 7. checked examples

  All with the `Unit` instance of the number type (no numeric literals), evaluated by the
  kernel.  In every counterexample the file is accepted by the static check or run with
  `--skip-check`; only the program stores are compared. -/

/-- a decidable form of "no bare line number" -/
def noBareCheck (F : Type) [NumOps F] (lines : List Str) : Bool :=
  lines.all fun l => match typedEdit F l with
    | some (_, ts) => !ts.isEmpty
    | none => true

theorem noBare_of_check (lines : List Str) (h : noBareCheck F lines = true) :
    ∀ l ∈ lines, ∀ n ts, typedEdit F l = some (n, ts) → ts ≠ [] := by
  intro l hl n ts hte hts
  have := List.all_eq_true.mp h l hl
  rw [hte, hts] at this
  cases this

instance decTypedIdle (fuel : Nat) : (ls : List Str) → (s : St F) → Decidable (TypedIdle fuel ls s)
  | [], _ => isTrue trivial
  | l :: ls, s =>
    have := decTypedIdle fuel ls (startEvaluating fuel l s).final
    inferInstanceAs (Decidable (s.state = .idle ∧ TypedIdle fuel ls (startEvaluating fuel l s).final))

/-- a file with every kind of line outside `FileLines` that the theorem allows: an
    unnumbered comment, a command, a numbered line that does not tokenize, an empty
    line, an immediate statement that really executes, a flag command -/
def mixedFile : Str := "REM\n10 END\nLIST\n20 \"x\n\nPRINT\nTRACE\n30 PRINT".toList

/-- the hypotheses of `same_program_general` hold for it (non-vacuity) … -/
theorem mixedFile_ok :
    TypedIdle 60 (splitLF mixedFile) (cliCreate (F := Unit) false false 0) ∧
    noBareCheck Unit (splitLF mixedFile) = true := by
  decide +kernel

/-- … so both modes hold the same program — lines 10 and 30 … -/
theorem mixedFile_same :
    (cliLoad (F := Unit) 60 false false 0 mixedFile).lines =
      (typeLines 60 (splitLF mixedFile) (cliCreate false false 0)).lines :=
  same_program_general 60 false false 0 mixedFile mixedFile_ok.1 (noBare_of_check _ mixedFile_ok.2)

theorem mixedFile_program : (cliLoad (F := Unit) 60 false false 0 mixedFile).lines.sorted = [10, 30] := by
  decide +kernel

/-- … although the static check refuses the file without `--skip-check` (line `20 "x`
    is an unterminated string). -/
theorem mixedFile_refused :
    cliRefuses (F := Unit) 60 false mixedFile = true ∧ cliRefuses (F := Unit) 60 true mixedFile = false := by
  decide +kernel

/-- **Excluded shape 1: a bare line number.**  Typed, `10` deletes line 10; in a file it
    only draws the warning "Line contains no statements and will not be defined." -/
theorem bare_number_differs :
    (cliLoad (F := Unit) 60 false false 0 "10 END\n10".toList).lines.sorted = [10] ∧
    (typeLines (F := Unit) 60 (splitLF "10 END\n10".toList) (cliCreate false false 0)).lines.sorted = [] ∧
    cliRefuses (F := Unit) 60 false "10 END\n10".toList = false ∧
    TypedIdle 60 (splitLF "10 END\n10".toList) (cliCreate (F := Unit) false false 0) := by
  decide +kernel

/-- **Excluded shape 2: NEW.**  File mode ignores the line (no line number) and keeps
    both numbered lines.  Typed, NEW does not touch the store but asks the host for a
    fresh interpreter (`newRequested`); `typeLines` has no host that replaces it, so
    the next line meets a non-idle interpreter and is not entered: the model keeps only
    line 10 (the real prompt would replace the interpreter and keep only line 20).
    Either way the programs differ from file mode's. -/
theorem new_differs :
    (cliLoad (F := Unit) 60 false false 0 "10 END\nNEW\n20 END".toList).lines.sorted = [10, 20] ∧
    (typeLines (F := Unit) 60 (splitLF "10 END\nNEW\n20 END".toList) (cliCreate false false 0)).lines.sorted = [10] ∧
    (typeLines (F := Unit) 60 (splitLF "10 END\nNEW".toList) (cliCreate false false 0)).state = .newRequested ∧
    cliRefuses (F := Unit) 60 false "10 END\nNEW\n20 END".toList = false := by
  decide +kernel

/-- **Excluded shape 3: a line that leaves the interpreter busy.**  An immediate line
    with two statements is still running after the first host call; RUN of a program
    with more than one statement likewise; INPUT leaves it awaiting input (at the real
    prompt the next line typed would be consumed as the reply).  The next line is then
    not entered, while file mode stores it. -/
theorem busy_differs :
    (cliLoad (F := Unit) 60 false false 0 "PRINT:PRINT\n10 END".toList).lines.sorted = [10] ∧
    (typeLines (F := Unit) 60 (splitLF "PRINT:PRINT\n10 END".toList) (cliCreate false false 0)).lines.sorted = [] ∧
    (typeLines (F := Unit) 60 ["PRINT:PRINT".toList] (cliCreate false false 0)).state = .running ∧
    (cliLoad (F := Unit) 60 false false 0 "INPUT A\n10 END".toList).lines.sorted = [10] ∧
    (typeLines (F := Unit) 60 (splitLF "INPUT A\n10 END".toList) (cliCreate false false 0)).lines.sorted = [] ∧
    (typeLines (F := Unit) 60 ["INPUT A".toList] (cliCreate false false 0)).state = .awaitingInput ∧
    (cliLoad (F := Unit) 60 false false 0 "10 PRINT\n20 PRINT\nRUN\n30 END".toList).lines.sorted = [10, 20, 30] ∧
    (typeLines (F := Unit) 60 (splitLF "10 PRINT\n20 PRINT\nRUN\n30 END".toList) (cliCreate false false 0)).lines.sorted = [10, 20] := by
  decide +kernel

/-- a single immediate statement, by contrast, is fine: the prompt is idle again -/
example : (typeLines (F := Unit) 60 ["PRINT".toList] (cliCreate false false 0)).state = .idle := by
  decide +kernel

end Abasic.Props.C15
