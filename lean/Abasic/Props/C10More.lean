import Abasic.Props.C10
import Abasic.Props.C01More
/-
  C10 (continued) — the nesting hypothesis of `run_clean` holds in every
  reachable state (C01More `nesting_zero_of_reachable`).
-/
namespace Abasic.Props.C10
open Abasic Abasic.Props.C01

variable {F : Type} [NumOps F]

/-- In every state a host can reach, an idle interpreter given RUN behaves exactly
    like a freshly started one holding the same program, generator state and flags. -/
theorem run_clean_reachable (fuel fuel' : Nat) (line : Str) (σ : St F)
    (hreach : Reachable fuel' σ) (hidle : σ.state = .idle)
    (hrun : (commandWord line).bind Command.ofWord = some .run) :
    startEvaluating fuel line σ = startEvaluating fuel line (fresh σ) :=
  run_clean fuel line σ hidle (nesting_zero_of_reachable fuel' σ hreach) hrun

/-- the same, for an explicit call sequence -/
theorem run_clean_after_calls (fuel : Nat) (line : Str) (cs : List Call)
    (hidle : (applyCalls (F := F) fuel cs {}).state = .idle)
    (hrun : (commandWord line).bind Command.ofWord = some .run) :
    startEvaluating fuel line (applyCalls (F := F) fuel cs {}) =
    startEvaluating fuel line (fresh (applyCalls (F := F) fuel cs {})) :=
  run_clean fuel line _ hidle (nesting_zero_reachable fuel cs) hrun

end Abasic.Props.C10
