import Abasic.Proofs.TranspLift
import Abasic.Props.C01More
import Abasic.Props.C17
/-
  C17 (continued) — `flags_transparent`: the warning and tracing flags never
  change what a program does.

  `erase σ` forgets the two flags and the Warning / Trace records of the output
  queue.  Every host call, from erase-equal states, has the same outcome (Ok, or
  the same error with the same location) and ends in erase-equal states; hence
  so does every session.  The proof lifts `Comm` (Proofs/Transp.lean) through
  the whole evaluator (Proofs/TranspLift.lean); TRACE / NOTRACE are handled at
  the `Sim` level.
-/
namespace Abasic.Props.C17
open Abasic Abasic.Hoare Abasic.Props.C01

variable {F : Type} [NumOps F]

/-- Expression and statement evaluation commute with erasure, at every fuel. -/
theorem eval_transparent (n : Nat) : Comm (evalN (F := F) n).expr ∧ Comm (evalN (F := F) n).stmt :=
  comm_evalN n

/-- Every host call is flag-transparent. -/
theorem call_transparent (fuel : Nat) (c : Call) : Sim (c.run (F := F) fuel) := by
  cases c with
  | start text => exact sim_startEvaluating fuel text
  | cont => exact sim_continueEvaluating fuel
  | reply text => exact (comm_provideInput text).sim
  | brk => exact comm_breakAtCurrentLocation.sim
  | seed n => exact (comm_randomize n).sim
  | output => exact (comm_modify (f := fun s => (takeOutput s).2) (fun σ => rfl)).sim

/-- the outcome of a call as the host sees it: `none` = Ok, `some e` = the error -/
def outcome {α : Type} : Res F α → Option TErr
  | .ok _ _ => none
  | .err e _ => some e

omit [NumOps F] in
theorem resSim_outcome {α : Type} {r₁ r₂ : Res F α} (h : ResSim r₁ r₂) :
    outcome r₁ = outcome r₂ ∧ erase r₁.final = erase r₂.final := by
  cases r₁ <;> cases r₂ <;> simp only [ResSim] at h
  · exact ⟨rfl, h.2⟩
  · exact ⟨by rw [outcome, outcome, h.1], h.2⟩

/-- One call: same outcome, erase-equal states. -/
theorem flags_transparent_call (fuel : Nat) (c : Call) (σ₁ σ₂ : St F) (h : erase σ₁ = erase σ₂) :
    outcome (c.run fuel σ₁) = outcome (c.run fuel σ₂) ∧
    erase (applyCall fuel c σ₁) = erase (applyCall fuel c σ₂) :=
  resSim_outcome (call_transparent fuel c σ₁ σ₂ h)

/-- the outcomes of a session, call by call -/
def outcomes (fuel : Nat) : List Call → St F → List (Option TErr)
  | [], _ => []
  | c :: cs, σ => outcome (c.run fuel σ) :: outcomes fuel cs (applyCall fuel c σ)

/-- **flags_transparent.**  Two sessions that start from erase-equal states
    (same program, variables, …; possibly different flags and different
    Warning / Trace records in the queue) and receive the same calls see the same
    outcome of every call and end in erase-equal states: same program state,
    same output apart from Warning / Trace records. -/
theorem flags_transparent (fuel : Nat) (cs : List Call) (σ₁ σ₂ : St F) (h : erase σ₁ = erase σ₂) :
    outcomes fuel cs σ₁ = outcomes fuel cs σ₂ ∧
    erase (applyCalls fuel cs σ₁) = erase (applyCalls fuel cs σ₂) := by
  induction cs generalizing σ₁ σ₂ with
  | nil => exact ⟨rfl, h⟩
  | cons c cs ih =>
    obtain ⟨ho, hs⟩ := flags_transparent_call fuel c σ₁ σ₂ h
    obtain ⟨ho', hs'⟩ := ih _ _ hs
    exact ⟨by rw [outcomes, outcomes, ho, ho'], hs'⟩

/-- In particular: a session started with any setting of the two flags, compared
    with the same session started with both flags off. -/
theorem flags_transparent_init (fuel : Nat) (cs : List Call) (w t : Bool) :
    let σ₁ := applyCalls (F := F) fuel cs { warnings := w, tracing := t }
    let σ₂ := applyCalls (F := F) fuel cs {}
    outcomes (F := F) fuel cs { warnings := w, tracing := t } = outcomes (F := F) fuel cs {} ∧
    σ₁.out.filter keepOut = σ₂.out.filter keepOut ∧
    σ₁.vars = σ₂.vars ∧ σ₁.arrays = σ₂.arrays ∧ σ₁.state = σ₂.state ∧ σ₁.loc = σ₂.loc ∧
    σ₁.stack = σ₂.stack ∧ σ₁.loops = σ₂.loops ∧ σ₁.rng = σ₂.rng ∧ σ₁.lines = σ₂.lines := by
  intro σ₁ σ₂
  obtain ⟨ho, hs⟩ := flags_transparent (F := F) fuel cs { warnings := w, tracing := t } {} rfl
  refine ⟨ho, ?_, ?_, ?_, ?_, ?_, ?_, ?_, ?_, ?_⟩
  · exact (congrArg St.out hs : (erase σ₁).out = (erase σ₂).out)
  · exact (congrArg St.vars hs : (erase σ₁).vars = (erase σ₂).vars)
  · exact (congrArg St.arrays hs : (erase σ₁).arrays = (erase σ₂).arrays)
  · exact (congrArg St.state hs : (erase σ₁).state = (erase σ₂).state)
  · exact (congrArg St.loc hs : (erase σ₁).loc = (erase σ₂).loc)
  · exact (congrArg St.stack hs : (erase σ₁).stack = (erase σ₂).stack)
  · exact (congrArg St.loops hs : (erase σ₁).loops = (erase σ₂).loops)
  · exact (congrArg St.rng hs : (erase σ₁).rng = (erase σ₂).rng)
  · exact (congrArg St.lines hs : (erase σ₁).lines = (erase σ₂).lines)

/-- Non-vacuity: erasure drops exactly the Warning / Trace records and the flags. -/
example : (erase (F := Unit) { warnings := true, tracing := true,
                               out := [.warning [] none, .print [], .trace 3, .brk none] }).out = [.print [], .brk none] ∧
          (erase (F := Unit) { warnings := true, tracing := true }).warnings = false := ⟨rfl, rfl⟩

end Abasic.Props.C17
