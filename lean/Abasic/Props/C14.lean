import Abasic.Lines
/-
  C14 — LIST output reloads to the same program.

  Proved here: the table facts the fixed-point argument needs (every keyword
  and operator spelling re-tokenizes to exactly its own token, whatever follows
  after a blank), the shape of a LIST line, and the spelling rules for DATA
  items and for a numeral after an identifier.  The theorem
  `list_fixpoint : tokenize s = ok ts → tokenize (listLine ts) = ok ts` for
  arbitrary token lists is listed as open (it needs C12's whole-line normal form
  plus the numeral respelling law of `NumOps`); the check rests for it on the
  correspondence slice (store → LIST → reload → LIST, implementation vs model)
  and the LIST-fixed-point / RUN-transcript oracle, which found and led to the
  repair of a genuine defect (`PRINT A .5`).
-/
namespace Abasic.Props.C14
open Abasic

variable {F : Type} [NumOps F]

/-- Every keyword / operator spelling printed by LIST tokenizes back to exactly
    that one token (a table fact over the spellings read from tokenizer.rs). -/
theorem kw_spelling_roundtrip (k : Kw) :
    tokenize (F := F) (Extracted.kwSpelling k).toList 0 = .ok [.kw k] := by
  cases k <;> rfl

/-- … also when the next token follows after the blank LIST puts between tokens. -/
theorem kw_then_blank (k : Kw) :
    ∃ r, nextToken (F := F) ((Extracted.kwSpelling k).toList ++ [' ']) = .tok (.kw k) r ∧ r = [' '] := by
  cases k <;> exact ⟨_, rfl, rfl⟩

/-- A LIST line is the line number, a blank, the spellings joined by single blanks, a newline. -/
theorem list_line_shape (l : Lines F) (entries : List (Nat × List (Token F)))
    (h : l.listTokens = some entries) :
    l.list = some (entries.map fun (n, ts) => natToStr n ++ ' ' :: joinWith [' '] (listSpellings none ts) ++ ['\n']) := by
  simp [Lines.list, h, listLine]

/-- DATA items: a string containing a double quote (which can only have come
    from the unquoted form) is listed as it is, every other string is quoted. -/
theorem data_string_spelling (s : Str) :
    DataElement.render (F := F) (.str s) = if s.contains '"' then s else '"' :: s ++ ['"'] := rfl

/-- A numeral after an identifier is listed without its leading zero (so it
    starts with the decimal point it must have been written with); the numeral 1
    (a leading-point numeral that rounded up) is listed as `.99999999999999999999`;
    everywhere else a numeral is listed as `Display` prints it. -/
theorem numeral_after_identifier (sym : Str) (x : F) (rest : List (Token F))
    (h : endsWithDollar sym = false) :
    listSpellings (some (.symbol sym)) (.num x :: rest) =
      (if NumOps.render x = ['0'] then ['.', '0']
       else if NumOps.render x = ['1'] then ".99999999999999999999".toList
       else if (NumOps.render x).head? = some '0' then (NumOps.render x).tail
       else NumOps.render x) ::
        listSpellings (some (.num x)) rest := by
  simp only [listSpellings, Token.render, h]
  by_cases h0 : NumOps.render x = ['0']
  · simp [h0]
  · by_cases h1 : NumOps.render x = ['1']
    · simp [h1]
    · by_cases h2 : (NumOps.render x).head? = some '0' <;> simp [h0, h1, h2]

theorem numeral_elsewhere (k : Kw) (x : F) (rest : List (Token F)) :
    listSpellings (some (.kw k)) (.num x :: rest) = NumOps.render x :: listSpellings (some (.num x)) rest := by
  simp [listSpellings, Token.render]

/-- Non-vacuity: the three spellings of one line. -/
example : listSpellings (F := Unit) none [.kw .Print, .symbol ['A'], .num ()] = ["PRINT".toList, ['A'], ['.', '0']] := by
  decide

end Abasic.Props.C14
