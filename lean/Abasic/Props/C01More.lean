import Abasic.Proofs.RelA
/-
  C01 (continued) — the nesting counter is restored by every host call, on
  every path, for every state; hence it is 0 in every reachable state.

  The proof is the generic lifting of Proofs/Lift.lean instantiated at the
  frame `RA σ σ' := σ'.nesting = σ.nesting` (Proofs/RelA.lean).
-/
namespace Abasic.Props.C01
open Abasic Abasic.Hoare

variable {F : Type} [NumOps F]

/-- Every expression / statement evaluation, at every fuel, restores the counter. -/
theorem nesting_preserved_evalN (n : Nat) :
    Respects RA (evalN (F := F) n).expr ∧ Respects RA (evalN (F := F) n).stmt :=
  respects_evalN n

theorem nesting_preserved_runNextStatement (fuel : Nat) (σ : St F) :
    (∀ a σ', runNextStatement fuel σ = .ok a σ' → σ'.nesting = σ.nesting) ∧
    (∀ e σ', runNextStatement fuel σ = .err e σ' → σ'.nesting = σ.nesting) :=
  (respects_runNextStatement (R := RA) fuel).at σ

theorem nesting_preserved_evaluateImpl (fuel : Nat) (line : Str) (σ : St F) :
    (∀ a σ', evaluateImpl fuel line σ = .ok a σ' → σ'.nesting = σ.nesting) ∧
    (∀ e σ', evaluateImpl fuel line σ = .err e σ' → σ'.nesting = σ.nesting) :=
  (respects_evaluateImpl (R := RA) fuel line).at σ

/-- `start_evaluating` leaves the nesting counter where it found it, whether it succeeds or fails. -/
theorem nesting_preserved_start (fuel : Nat) (line : Str) (σ : St F) :
    (∀ a σ', startEvaluating fuel line σ = .ok a σ' → σ'.nesting = σ.nesting) ∧
    (∀ e σ', startEvaluating fuel line σ = .err e σ' → σ'.nesting = σ.nesting) :=
  (respects_startEvaluating (R := RA) fuel line).at σ

/-- Same for `continue_evaluating`. -/
theorem nesting_preserved_cont (fuel : Nat) (σ : St F) :
    (∀ a σ', continueEvaluating fuel σ = .ok a σ' → σ'.nesting = σ.nesting) ∧
    (∀ e σ', continueEvaluating fuel σ = .err e σ' → σ'.nesting = σ.nesting) :=
  (respects_continueEvaluating (R := RA) fuel).at σ

/-- The calls a host can make (interpreter.rs public API). -/
inductive Call where
  | start (text : Str)
  | cont
  | reply (text : Str)
  | brk
  | seed (n : Nat)
  /-- `take_output` -/
  | output

/-- the action of a call that runs in `M` -/
def Call.run (fuel : Nat) : Call → M F Unit
  | .start text => startEvaluating fuel text
  | .cont => continueEvaluating fuel
  | .reply text => provideInput text
  | .brk => breakAtCurrentLocation
  | .seed n => randomize n
  | .output => M.modify fun s => (takeOutput s).2

/-- the state after a call, whether it returned `Ok` or `Err` -/
def applyCall (fuel : Nat) (c : Call) (σ : St F) : St F := (c.run fuel σ).final

def applyCalls (fuel : Nat) (cs : List Call) (σ : St F) : St F := cs.foldl (fun s c => applyCall fuel c s) σ

/-- states a host can bring a new interpreter into -/
inductive Reachable (fuel : Nat) : St F → Prop where
  | init : Reachable fuel {}
  | step {σ : St F} (c : Call) : Reachable fuel σ → Reachable fuel (applyCall fuel c σ)

/-- every host call respects every frame whose primitives do -/
theorem respects_call {R : St F → St F → Prop} [HostPrims R] (fuel : Nat) (c : Call) :
    Respects R (c.run (F := F) fuel) := by
  cases c with
  | start text => exact respects_startEvaluating fuel text
  | cont => exact respects_continueEvaluating fuel
  | reply text => exact respects_provideInput text
  | brk => exact respects_breakAtCurrentLocation
  | seed n => exact respects_randomize n
  | output => exact respects_modify (fun σ => Prims.sub (rns_same rfl rfl rfl))

theorem applyCall_frame {R : St F → St F → Prop} [HostPrims R] (fuel : Nat) (c : Call) (σ : St F) :
    R σ (applyCall fuel c σ) :=
  (respects_call fuel c).final σ

theorem applyCalls_frame {R : St F → St F → Prop} [HostPrims R] (fuel : Nat) (cs : List Call) (σ : St F) :
    R σ (applyCalls fuel cs σ) := by
  induction cs generalizing σ with
  | nil => exact IsFrame.refl σ
  | cons c cs ih => exact IsFrame.trans (applyCall_frame fuel c σ) (ih _)

theorem reachable_applyCalls (fuel : Nat) (cs : List Call) (σ : St F) (h : Reachable fuel σ) :
    Reachable fuel (applyCalls fuel cs σ) := by
  induction cs generalizing σ with
  | nil => exact h
  | cons c cs ih => exact ih _ (.step c h)

theorem reachable_iff (fuel : Nat) (σ : St F) :
    Reachable fuel σ ↔ ∃ cs, σ = applyCalls fuel cs {} := by
  constructor
  · intro h
    induction h with
    | init => exact ⟨[], rfl⟩
    | step c _ ih =>
      obtain ⟨cs, rfl⟩ := ih
      exact ⟨cs ++ [c], by simp [applyCalls, List.foldl_append]⟩
  · rintro ⟨cs, rfl⟩
    exact reachable_applyCalls fuel cs _ .init

/-- No call changes the nesting counter. -/
theorem nesting_preserved_call (fuel : Nat) (c : Call) (σ : St F) :
    (applyCall fuel c σ).nesting = σ.nesting :=
  applyCall_frame (R := RA) fuel c σ

/-- Starting from a new interpreter, after ANY sequence of host calls (in any
    order, protocol-respecting or not, succeeding or failing) the nesting
    counter is 0. -/
theorem nesting_zero_reachable (fuel : Nat) (cs : List Call) :
    (applyCalls (F := F) fuel cs {}).nesting = 0 :=
  applyCalls_frame (R := RA) fuel cs {}

theorem nesting_zero_of_reachable (fuel : Nat) (σ : St F) (h : Reachable fuel σ) : σ.nesting = 0 := by
  obtain ⟨cs, rfl⟩ := (reachable_iff fuel σ).1 h
  exact nesting_zero_reachable fuel cs

/-- … and while a call is in progress the counter never exceeds the cap: `nested`
    refuses to go deeper (`nested_refuses_at_cap`), so native recursion depth is
    bounded by `Extracted.nestingLimit`. -/
theorem nesting_zero_le_cap (fuel : Nat) (cs : List Call) :
    (applyCalls (F := F) fuel cs {}).nesting ≤ Extracted.nestingLimit := by
  rw [nesting_zero_reachable]; exact Nat.zero_le _

/-- Non-vacuity: a session that runs a program with nested expressions and a GOSUB. -/
example : (applyCalls (F := Unit) 5 [.start "10 GOSUB 20".toList, .start "RUN".toList, .cont, .brk] {}).nesting = 0 :=
  nesting_zero_reachable 5 _

end Abasic.Props.C01
