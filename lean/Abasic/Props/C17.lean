import Abasic.Interp
/-
  C17 — tracing and warnings never change what a program does.

  The flags are read at exactly three places in the model, mirroring the Rust
  code: `warn` (via `warnUndeclaredArray` and the scalar read in `term`) and
  `traceHere`.  Proved here, for every state: each of these only ever appends
  Warning / Trace records to the output queue and changes nothing else; with the
  flag off it is the identity; and exactly when each fires.  The lift "the whole
  evaluator commutes with erasing the flags and filtering the queue"
  (`flags_transparent`) is listed as open; the check rests for it on the
  correspondence slice and the four-configuration oracle.
-/
namespace Abasic.Props.C17
open Abasic

variable {F : Type} [NumOps F]

omit [NumOps F] in
/-- `warn` appends one Warning record iff warnings are enabled; nothing else changes. -/
theorem warn_effect (msg : Str) (σ : St F) :
    warn msg σ = .ok () (if σ.warnings then { σ with out := .warning msg σ.loc.line :: σ.out } else σ) := by
  by_cases h : σ.warnings = true
  · simp [warn, bind, M.bindM, M.get, h, emit, M.modify]
  · have h' : σ.warnings = false := by simpa using h
    simp [warn, bind, M.bindM, M.get, h', pure, M.pureM]

omit [NumOps F] in
/-- The array warning fires exactly when warnings are on and the array does not exist yet. -/
theorem array_warning_iff (name : Str) (σ : St F) :
    ((σ.warnings && !alHas name σ.arrays) = true →
      ∃ msg, warnUndeclaredArray name σ = .ok () { σ with out := .warning msg σ.loc.line :: σ.out }) ∧
    ((σ.warnings && !alHas name σ.arrays) = false → warnUndeclaredArray name σ = .ok () σ) := by
  constructor
  · intro h
    have hw : σ.warnings = true := by
      cases hw : σ.warnings <;> simp [hw] at h ⊢
    refine ⟨"Use of undeclared array '".toList ++ name ++ "'.".toList, ?_⟩
    have hb : (!alHas name σ.arrays) = true := by rw [hw] at h; simpa using h
    unfold warnUndeclaredArray
    simp only [bind, M.bindM, M.get, hw, hb, Bool.and_self, ↓reduceIte, warn_effect]
  · intro h
    unfold warnUndeclaredArray
    simp only [bind, M.bindM, M.get, h, Bool.false_eq_true, ↓reduceIte, pure, M.pureM]

omit [NumOps F] in
/-- The trace record: exactly one `Trace n` when tracing is on and the cursor is
    on numbered line `n`; nothing otherwise; nothing else changes. -/
theorem trace_effect (σ : St F) :
    traceHere σ = .ok () (match σ.tracing, σ.loc.line with
      | true, some n => { σ with out := .trace n :: σ.out }
      | _, _ => σ) := by
  cases ht : σ.tracing <;> cases hl : σ.loc.line <;>
    simp [traceHere, bind, M.bindM, M.get, ht, hl, emit, M.modify, pure, M.pureM]

/-- Non-vacuity. -/
example : let σ : St Unit := { warnings := true, tracing := true, loc := { line := some 10, idx := 0 } }
    σ.warnings = true ∧ σ.loc.line = some 10 := by decide

end Abasic.Props.C17
