import Abasic.Props.C12Prot
import Abasic.Proofs.C12Data
/-
  C12, the two open items.

  (a) On a line without protected tokens (it tokenizes without error and yields keywords /
      operators, numbers and identifiers only — no string literal, no REM, no DATA) *every*
      single insertion `Ins w line line'` is an insertion outside protected text
      (`InsOutside`).  So the theorem about lines without protected tokens
      (`tokenize_ins_unprotected`, proved by its own induction in C12More.lean) is a
      corollary of the general theorem `tokenize_ins_outside_iff`.

  (b) The DATA parser-level theorems `data_blank_start`, `data_blank_end`, `data_blank_eol`
      are connected to whole lines: a blank inserted into the payload of a DATA statement
      at the start of an item, around a quoted item, in front of a separating comma or at the
      end of the payload changes no token of the line (`tokenize_data_blank`).

  (c) Checked examples: a blank inside an unquoted DATA item, and letter case inside DATA
      items and remark text, DO change the token — these regions are excluded by the
      property itself.
-/
namespace Abasic.Props.C12
open Abasic

/-! ### list facts -/

/-- An insertion into `p ++ s` is an insertion into `p` (up to and including the position
    just behind `p`) or an insertion into `s`. -/
theorem Ins.append_cases {w : Char} (p : Str) : ∀ {s x : Str}, Ins w (p ++ s) x →
    (∃ p', x = p' ++ s ∧ Ins w p p') ∨ (∃ s', x = p ++ s' ∧ Ins w s s') := by
  induction p with
  | nil =>
    intro s x h
    exact Or.inr ⟨x, rfl, h⟩
  | cons c p ih =>
    intro s x h
    cases h with
    | same => exact Or.inl ⟨c :: p, rfl, Ins.same _⟩
    | here => exact Or.inl ⟨w :: c :: p, rfl, Ins.here _⟩
    | cons _ h' =>
      rcases ih h' with ⟨p', e, hp⟩ | ⟨s', e, hs⟩
      · exact Or.inl ⟨c :: p', by rw [e]; rfl, Ins.cons c hp⟩
      · exact Or.inr ⟨s', by rw [e]; rfl, hs⟩

variable {F : Type} [NumOps F]

/-! ### (a) lines without protected tokens -/

/-- "A line without protected tokens", in terms of the tokenizer's run: tokenizing succeeds
    and every token produced is a keyword/operator, a number or an identifier — no string
    literal, no REM, no DATA token.  (These are the two hypotheses of
    `tokenize_ins_unprotected`.) -/
def NoProtected (F : Type) [NumOps F] (line : Str) : Prop :=
  ∃ ts : List (Token F), tokenize (F := F) line 0 = .ok ts ∧ ∀ t ∈ ts, Unprotected t = true

omit [NumOps F] in
theorem closed_of_unprotected (tk : Token F) (h : Unprotected tk = true) : Closed tk = true := by
  cases tk <;> first | rfl | cases h

/-- Loop form: if the run on `cs` ends without error in unprotected tokens only, every
    single insertion into `cs` is outside protected text. -/
theorem tokList_unprotected_insOutside (w : Char) (n : Nat) :
    ∀ (cs cs' : Str), cs.length ≤ n → Ins w cs cs' → ∀ (fuel : Nat) (ts : List (Token F)),
    tokList (F := F) fuel cs = some ts → (∀ t ∈ ts, Unprotected t = true) → InsOutside F w cs cs' := by
  induction n with
  | zero =>
    intro cs cs' hlen hI fuel ts _ _
    cases hI with
    | same => exact InsOutside.same _
    | here => exact InsOutside.here _
    | cons c _ => simp only [List.length_cons] at hlen; omega
  | succ n ih =>
    intro cs cs' hlen hI fuel ts ht hun
    cases hI with
    | same => exact InsOutside.same _
    | here => exact InsOutside.here _
    | @cons c r r' h =>
      simp only [List.length_cons] at hlen
      cases fuel with
      | zero => rw [tokList_zero] at ht; cases ht
      | succ fuel =>
        by_cases hb : isBasicWs c = true
        · rw [tokList_blank (fuel + 1) c hb] at ht
          exact InsOutside.blank c hb (ih r r' (by omega) h (fuel + 1) ts ht hun)
        · have hc : isBasicWs c = false := by simpa using hb
          cases hn : nextToken (F := F) (c :: r) with
          | tok tk rest =>
            rw [tokList_nonblank_tok fuel c r hc tk rest hn] at ht
            cases hl : tokList (F := F) fuel rest with
            | none => rw [hl] at ht; cases ht
            | some ts' =>
              rw [hl] at ht
              simp only [Option.map_some] at ht
              injection ht with ht
              subst ht
              have hu : Unprotected tk = true := hun tk (List.mem_cons_self ..)
              have hun' : ∀ t ∈ ts', Unprotected t = true := fun t hm => hun t (List.mem_cons_of_mem _ hm)
              have hlt := nextToken_length c r tk rest hn
              simp only [List.length_cons] at hlt
              obtain ⟨pre, hp⟩ := nextToken_suffix c r tk rest hn
              cases pre with
              | nil =>
                simp only [List.nil_append] at hp
                rw [hp] at hlt
                simp only [List.length_cons] at hlt
                omega
              | cons d p =>
                rw [List.cons_append] at hp
                injection hp with hd hp
                subst hd; subst hp
                rcases Ins.append_cases p h with ⟨p', e, hi⟩ | ⟨rest', e, hi⟩
                · subst e
                  exact InsOutside.inTok d p p' rest tk hc hn hu hi
                · subst e
                  refine InsOutside.later d p rest rest' tk hc hn (closed_of_unprotected tk hu) ?_
                  refine ih rest rest' ?_ hi fuel ts' hl hun'
                  simp only [List.length_append] at hlen
                  omega
          | illegalChar =>
            rw [tokList_succ_err fuel (c :: r) c r (skipWs_nonblank c r hc)
              (by intro tk rest e; rw [hn] at e; cases e)] at ht
            cases ht
          | unterminated =>
            rw [tokList_succ_err fuel (c :: r) c r (skipWs_nonblank c r hc)
              (by intro tk rest e; rw [hn] at e; cases e)] at ht
            cases ht
          | invalidNumber x =>
            rw [tokList_succ_err fuel (c :: r) c r (skipWs_nonblank c r hc)
              (by intro tk rest e; rw [hn] at e; cases e)] at ht
            cases ht

/-- Open item (a).  On a line without protected tokens every single insertion — of any
    character `w`, at any position of the text handed to the tokenizer — is an insertion
    outside protected text. -/
theorem ins_unprotected_is_outside (w : Char) {line line' : Str} (h : Ins w line line')
    (ts : List (Token F)) (hok : tokenize (F := F) line 0 = .ok ts)
    (hun : ∀ t ∈ ts, Unprotected t = true) : InsOutside F w line line' :=
  tokList_unprotected_insOutside w line.length line line' (Nat.le_refl _) h _ ts
    ((tokenize_iff_tokList line ts).mp hok) hun

/-- The same with the predicate `NoProtected`. -/
theorem ins_noProtected_is_outside (w : Char) {line line' : Str} (h : Ins w line line')
    (hnp : NoProtected F line) : InsOutside F w line line' := by
  obtain ⟨ts, hok, hun⟩ := hnp
  exact ins_unprotected_is_outside w h ts hok hun

/-- `tokenize_ins_unprotected` (C12More.lean) as a corollary of `tokenize_ins_outside_iff`:
    same hypotheses, same conclusion. -/
theorem tokenize_ins_unprotected' (w : Char) (hw : isBasicWs w = true) {line line' : Str}
    (h : Ins w line line') (ts : List (Token F)) (hok : tokenize (F := F) line 0 = .ok ts)
    (hun : ∀ t ∈ ts, Unprotected t = true) : tokenize (F := F) line' 0 = .ok ts :=
  (tokenize_ins_outside_iff w hw (ins_unprotected_is_outside w h ts hok hun) ts).mp hok

/-- … and in the form of an equivalence: a line without protected tokens and the line with
    one blank inserted anywhere tokenize to the same tokens. -/
theorem tokenize_ins_noProtected_iff (w : Char) (hw : isBasicWs w = true) {line line' : Str}
    (h : Ins w line line') (hnp : NoProtected F line) (ts : List (Token F)) :
    tokenize (F := F) line 0 = .ok ts ↔ tokenize (F := F) line' 0 = .ok ts :=
  tokenize_ins_outside_iff w hw (ins_noProtected_is_outside w h hnp) ts

omit [NumOps F] in
/-- `Unprotected` spelled out: not a string literal, not a remark, not a DATA token. -/
theorem unprotected_iff (tk : Token F) :
    Unprotected tk = true ↔ (∀ s, tk ≠ .str s) ∧ (∀ s, tk ≠ .remark s) ∧ (∀ items, tk ≠ .data items) := by
  cases tk with
  | kw k => exact ⟨fun _ => ⟨fun _ h => (nomatch h), fun _ h => (nomatch h), fun _ h => (nomatch h)⟩, fun _ => rfl⟩
  | num x => exact ⟨fun _ => ⟨fun _ h => (nomatch h), fun _ h => (nomatch h), fun _ h => (nomatch h)⟩, fun _ => rfl⟩
  | symbol x => exact ⟨fun _ => ⟨fun _ h => (nomatch h), fun _ h => (nomatch h), fun _ h => (nomatch h)⟩, fun _ => rfl⟩
  | str x => exact ⟨fun h => (nomatch h), fun h => absurd rfl (h.1 x)⟩
  | remark x => exact ⟨fun h => (nomatch h), fun h => absurd rfl (h.2.1 x)⟩
  | data x => exact ⟨fun h => (nomatch h), fun h => absurd rfl (h.2.2 x)⟩

/-- The edited line has no protected tokens either (so the step can be iterated). -/
theorem noProtected_ins (w : Char) (hw : isBasicWs w = true) {line line' : Str}
    (h : Ins w line line') (hnp : NoProtected F line) : NoProtected F line' := by
  obtain ⟨ts, hok, hun⟩ := hnp
  exact ⟨ts, tokenize_ins_unprotected' w hw h ts hok hun, hun⟩

/-- (a), iterated: any number of blanks inserted anywhere in a line without protected tokens
    is a sequence of insertions outside protected text. -/
theorem insBlanks_noProtected_is_outside {line line' : Str} (h : InsBlanks line line')
    (hnp : NoProtected F line) : InsBlanksOutside F line line' ∧ NoProtected F line' := by
  induction h with
  | refl => exact ⟨InsBlanksOutside.refl _, hnp⟩
  | step w _ hw hi ih =>
    obtain ⟨h1, h2⟩ := ih
    exact ⟨InsBlanksOutside.step w h1 hw (ins_noProtected_is_outside w hi h2), noProtected_ins w hw hi h2⟩

/-- `tokenize_insBlanks_unprotected` (C12More.lean) as a corollary of
    `tokenize_insBlanks_outside_iff`. -/
theorem tokenize_insBlanks_unprotected' {line line' : Str} (h : InsBlanks line line') (ts : List (Token F))
    (hok : tokenize (F := F) line 0 = .ok ts) (hun : ∀ t ∈ ts, Unprotected t = true) :
    tokenize (F := F) line' 0 = .ok ts :=
  (tokenize_insBlanks_outside_iff (insBlanks_noProtected_is_outside h ⟨ts, hok, hun⟩).1 ts).mp hok

/-! ### (b) blanks in a DATA payload, for whole lines

  The payload of a DATA statement is the text between the last letter of the keyword and
  the first colon outside quotes (or the end of the line).  `DataBlankPos F a1 a2` says
  that the position between `a1` and `a2` in the payload `a1 ++ a2` is one of the
  positions where a blank does not matter.  Covered positions (all outside quotes):

  * where the current item is still blank (`trim cur = []`): the start of the payload,
    immediately after a separating comma, anywhere in a run of blanks in front of an item,
    immediately in front of the opening quote of a quoted item, immediately behind the
    closing quote of a quoted item (`data_state_start`, `data_state_after_comma`,
    `data_state_after_quote` show that these are such states);
  * immediately in front of a separating comma (`a2 = ',' :: _`), i.e. at the end of an
    unquoted item or behind a quoted one;
  * at the end of the payload (`a2 = []`), i.e. immediately in front of the terminating
    colon or at the end of the line.

  Not covered — because there a blank DOES change an item — is the inside of an unquoted
  item (`DATA a b` / `DATA ab`, see the examples below) and the inside of a quoted one.
  Runs of several blanks are obtained by inserting one blank after the other
  (`InsDataBlanks`). -/

def DataBlankPos (F : Type) [NumOps F] (a1 a2 : Str) : Prop :=
  (DataParser.run ({} : DataParser F) a1).finished = false ∧
  (DataParser.run ({} : DataParser F) a1).inQuote = false ∧
  (trim (DataParser.run ({} : DataParser F) a1).cur = [] ∨ (∃ s, a2 = ',' :: s) ∨ a2 = [])

/-- The parsed items are the same (`data_blank_start`, `data_blank_end`, `data_blank_eol`);
    `rest` is what follows the payload. -/
theorem parseData_blank_items (w : Char) (hw : isBasicWs w = true) (a1 a2 rest : Str)
    (hpos : DataBlankPos F a1 a2) (hrest : dataRest F (a1 ++ (a2 ++ rest)) = rest) :
    (parseData (F := F) (a1 ++ w :: (a2 ++ rest))).1 = (parseData (F := F) (a1 ++ (a2 ++ rest))).1 := by
  obtain ⟨hf, hq, hp⟩ := hpos
  rcases hp with he | ⟨s, rfl⟩ | rfl
  · exact data_blank_start a1 _ w hw hf hq he
  · exact data_blank_end a1 (s ++ rest) w ',' hw (Or.inl rfl) hf hq
  · simp only [List.nil_append] at hrest ⊢
    rcases dataRest_nil_or_colon (F := F) (a1 ++ rest) with h | ⟨r, h⟩
    · rw [hrest] at h
      subst h
      simp only [List.append_nil]
      exact data_blank_eol a1 w hw hf hq
    · rw [hrest] at h
      subst h
      exact data_blank_end a1 r w ':' hw (Or.inr rfl) hf hq

/-- One step of the tokenizer at a DATA statement (`kp` are the remaining characters of the
    keyword, possibly with blanks between them; the payload is `a1 ++ a2`; `rest` is what
    the statement leaves): with a blank inserted at a covered position of the payload the
    very same DATA token is produced and the very same text is left. -/
theorem nextToken_data_blank (w : Char) (hw : isBasicWs w = true) (c : Char) (kp a1 a2 rest : Str)
    (items : List (DataElement F))
    (hn : nextToken (F := F) (c :: (kp ++ (a1 ++ (a2 ++ rest)))) = .tok (.data items) rest)
    (hk : chompKeyword Extracted.dataKeyword.toList (c :: (kp ++ (a1 ++ (a2 ++ rest)))) =
      some (a1 ++ (a2 ++ rest)))
    (hpos : DataBlankPos F a1 a2) :
    nextToken (F := F) (c :: (kp ++ (a1 ++ w :: (a2 ++ rest)))) = .tok (.data items) rest := by
  have hI : Ins w (c :: (kp ++ (a1 ++ (a2 ++ rest)))) (c :: (kp ++ (a1 ++ w :: (a2 ++ rest)))) :=
    Ins.cons c (Ins.append_left kp (Ins.append_left a1 (Ins.here _)))
  obtain ⟨pre, e1, hloc⟩ := chompKeyword_local _ _ _ hk
  have hpre : c :: kp = pre := by
    have : (c :: kp) ++ (a1 ++ (a2 ++ rest)) = pre ++ (a1 ++ (a2 ++ rest)) := by rw [← e1]; rfl
    exact List.append_cancel_right this
  have hk' : chompKeyword Extracted.dataKeyword.toList (c :: (kp ++ (a1 ++ w :: (a2 ++ rest)))) =
      some (a1 ++ w :: (a2 ++ rest)) := by
    have : c :: (kp ++ (a1 ++ w :: (a2 ++ rest))) = pre ++ (a1 ++ w :: (a2 ++ rest)) := by
      rw [← hpre]; rfl
    rw [this]; exact hloc _
  rcases nextToken_ins_detail (F := F) w hw c hI with
    ⟨tk0, _, _, h1, _, hu, _⟩ | ⟨h1, _⟩ | ⟨q, q', e, e', h1, h2⟩ | ⟨_, _, _, _, h1, _⟩ | ⟨pl0, pl', h0, h0', h1, h2⟩
  · rw [hn] at h1; injection h1 with h1a _; subst h1a; cases hu
  · exact absurd hn (h1 _ _)
  · rw [hn] at h1
    cases hs : splitAtQuote q with
    | none => rw [hs] at h1; cases h1
    | some pr => rw [hs] at h1; simp only at h1; injection h1 with h1a _; cases h1a
  · rw [hn] at h1; injection h1 with h1a _; cases h1a
  · rw [hk] at h0; injection h0 with h0; subst h0
    rw [hk'] at h0'; injection h0' with h0'; subst h0'
    rw [hn] at h1
    injection h1 with h1a h1b
    injection h1a with h1a
    have hrest : dataRest F (a1 ++ (a2 ++ rest)) = rest := h1b.symm
    have e_items : (parseData (F := F) (a1 ++ w :: (a2 ++ rest))).1 = items := by
      rw [parseData_blank_items w hw a1 a2 rest hpos hrest, ← h1a]
    have e_rest : dropBytes (parseData (F := F) (a1 ++ w :: (a2 ++ rest))).2 (a1 ++ w :: (a2 ++ rest)) = rest :=
      (dataRest_blank a1 (a2 ++ rest) w hw hpos.1 hpos.2.1).trans hrest
    rw [h2, e_items, e_rest]

/-- `InsData F w line line'`: `line'` is `line` with one `w` inserted either outside
    protected text (`outside`, see `InsOutside`) or at a covered position inside the payload
    of a DATA statement that the tokenizer's run over `line` reaches:

    * `blank`, `later`, `afterData`: the run steps over a blank, over a token delimited by
      itself (keyword/operator, number, identifier, string literal), over a whole DATA
      statement up to its terminating colon — exactly as in `InsOutside`;
    * `inPayload`: the next token is a DATA statement — the matcher for the keyword DATA
      consumes `c :: kp` and leaves `a1 ++ a2 ++ rest`, the DATA token leaves `rest`, so the
      payload is `a1 ++ a2` — and `w` is inserted between `a1` and `a2`, a covered
      position (`DataBlankPos`). -/
inductive InsData (F : Type) [NumOps F] (w : Char) : Str → Str → Prop
  | outside {cs cs' : Str} : InsOutside F w cs cs' → InsData F w cs cs'
  | blank (b : Char) {cs cs' : Str} : isBasicWs b = true → InsData F w cs cs' →
      InsData F w (b :: cs) (b :: cs')
  | later (c : Char) (p rest rest' : Str) (tk : Token F) : isBasicWs c = false →
      nextToken (F := F) (c :: (p ++ rest)) = .tok tk rest → Closed tk = true →
      InsData F w rest rest' → InsData F w (c :: (p ++ rest)) (c :: (p ++ rest'))
  | afterData (c : Char) (p r r' : Str) (items : List (DataElement F)) : isBasicWs c = false →
      nextToken (F := F) (c :: (p ++ ':' :: r)) = .tok (.data items) (':' :: r) →
      InsData F w (':' :: r) (':' :: r') → InsData F w (c :: (p ++ ':' :: r)) (c :: (p ++ ':' :: r'))
  | inPayload (c : Char) (kp a1 a2 rest : Str) (items : List (DataElement F)) : isBasicWs c = false →
      nextToken (F := F) (c :: (kp ++ (a1 ++ (a2 ++ rest)))) = .tok (.data items) rest →
      chompKeyword Extracted.dataKeyword.toList (c :: (kp ++ (a1 ++ (a2 ++ rest)))) =
        some (a1 ++ (a2 ++ rest)) →
      DataBlankPos F a1 a2 →
      InsData F w (c :: (kp ++ (a1 ++ (a2 ++ rest)))) (c :: (kp ++ (a1 ++ w :: (a2 ++ rest))))

/-- It is a special case of `Ins`: exactly one character is inserted (or none). -/
theorem InsData.toIns {w : Char} {cs cs' : Str} (h : InsData F w cs cs') : Ins w cs cs' := by
  induction h with
  | outside h => exact h.toIns
  | blank b _ _ ih => exact Ins.cons b ih
  | later c p rest rest' tk _ _ _ _ ih => exact Ins.cons c (Ins.append_left p ih)
  | afterData c p r r' items _ _ _ ih => exact Ins.cons c (Ins.append_left p ih)
  | inPayload c kp a1 a2 rest items _ _ _ _ =>
    exact Ins.cons c (Ins.append_left kp (Ins.append_left a1 (Ins.here _)))

/-- the edit is at a covered position in the payload of the DATA statement met next -/
theorem tokList_inPayload (w : Char) (hw : isBasicWs w = true) (c : Char) (kp a1 a2 rest : Str)
    (items : List (DataElement F)) (hc : isBasicWs c = false)
    (hn : nextToken (F := F) (c :: (kp ++ (a1 ++ (a2 ++ rest)))) = .tok (.data items) rest)
    (hk : chompKeyword Extracted.dataKeyword.toList (c :: (kp ++ (a1 ++ (a2 ++ rest)))) =
      some (a1 ++ (a2 ++ rest)))
    (hpos : DataBlankPos F a1 a2) (fuel : Nat) :
    tokList (F := F) fuel (c :: (kp ++ (a1 ++ w :: (a2 ++ rest)))) =
      tokList (F := F) fuel (c :: (kp ++ (a1 ++ (a2 ++ rest)))) := by
  cases fuel with
  | zero => rfl
  | succ fuel =>
    rw [tokList_nonblank_tok fuel c _ hc _ _ hn,
      tokList_nonblank_tok fuel c _ hc _ _ (nextToken_data_blank w hw c kp a1 a2 rest items hn hk hpos)]

/-- Main lemma: such an insertion changes neither the tokens nor whether tokenizing
    fails, for any iteration budget. -/
theorem tokList_insData (w : Char) (hw : isBasicWs w = true) {cs cs' : Str} (h : InsData F w cs cs') :
    ∀ fuel, tokList (F := F) fuel cs' = tokList (F := F) fuel cs := by
  induction h with
  | outside h => exact tokList_insOutside w hw h
  | blank b hb _ ih => intro fuel; rw [tokList_blank fuel b hb, tokList_blank fuel b hb, ih fuel]
  | later c p rest rest' tk hc hn hcl hio ih => exact tokList_later w hw c p rest rest' tk hc hn hcl hio.toIns ih
  | afterData c p r r' items hc hn hio ih => exact tokList_afterData w hw c p r r' items hc hn hio.toIns ih
  | inPayload c kp a1 a2 rest items hc hn hk hpos => exact tokList_inPayload w hw c kp a1 a2 rest items hc hn hk hpos

/-- Open item (b).  A blank inserted outside protected text or at a covered position of the
    payload of a DATA statement (start of an item, around a quoted item, in front of a
    separating comma, end of the payload): the two lines tokenize to the very same token
    list — in particular the DATA token carries the same items — or both fail. -/
theorem tokenize_data_blank (w : Char) (hw : isBasicWs w = true) {line line' : Str}
    (h : InsData F w line line') (ts : List (Token F)) :
    tokenize (F := F) line 0 = .ok ts ↔ tokenize (F := F) line' 0 = .ok ts := by
  rw [tokenize_iff_tokList, tokenize_iff_tokList, tokList_insData w hw h,
    tokList_fuel_irrelevant (line'.length + 1) (line.length + 1) line]
  · have := h.toIns.length_le; omega
  · omega

/-- Any number of blanks, one after the other, each outside protected text or at a covered
    position of a DATA payload. -/
inductive InsDataBlanks (F : Type) [NumOps F] : Str → Str → Prop
  | refl (r : Str) : InsDataBlanks F r r
  | step {a b c : Str} (w : Char) : InsDataBlanks F a b → isBasicWs w = true → InsData F w b c →
      InsDataBlanks F a c

/-- (b), iterated: runs of blanks around DATA items (and anywhere outside protected text). -/
theorem tokenize_data_blanks {line line' : Str} (h : InsDataBlanks F line line') (ts : List (Token F)) :
    tokenize (F := F) line 0 = .ok ts ↔ tokenize (F := F) line' 0 = .ok ts := by
  induction h with
  | refl => exact Iff.rfl
  | step w _ hw hi ih => exact ih.trans (tokenize_data_blank w hw hi ts)

/-- (b) for a line that starts with the DATA statement, without the inductive relation:
    `c :: kp` is the keyword as typed, `a1 ++ a2` the payload, `rest` what follows it. -/
theorem tokenize_data_blank_first (w : Char) (hw : isBasicWs w = true) (c : Char) (kp a1 a2 rest : Str)
    (items : List (DataElement F)) (hc : isBasicWs c = false)
    (hn : nextToken (F := F) (c :: (kp ++ (a1 ++ (a2 ++ rest)))) = .tok (.data items) rest)
    (hk : chompKeyword Extracted.dataKeyword.toList (c :: (kp ++ (a1 ++ (a2 ++ rest)))) =
      some (a1 ++ (a2 ++ rest)))
    (hpos : DataBlankPos F a1 a2) (ts : List (Token F)) :
    tokenize (F := F) (c :: (kp ++ (a1 ++ (a2 ++ rest)))) 0 = .ok ts ↔
      tokenize (F := F) (c :: (kp ++ (a1 ++ w :: (a2 ++ rest)))) 0 = .ok ts :=
  tokenize_data_blank w hw (InsData.inPayload c kp a1 a2 rest items hc hn hk hpos) ts

/-! ### numbered lines: the text behind the line-number prefix

  A program line is tokenized with the bytes of its line number skipped
  (`tokenize line skip`).  With `line = pfx ++ body` and `skip = len8 pfx` this is
  `tokenize body 0`, so (a) and (b) hold for an insertion at any position behind the
  line-number prefix. -/

theorem tokenize_skip_iff_tokList (line : Str) (skip : Nat) (ts : List (Token F)) :
    tokenize (F := F) line skip = .ok ts ↔
      tokList (F := F) ((dropBytes skip line).length + 1) (dropBytes skip line) = some ts := by
  unfold tokenize tokenizeRanges
  simp only [Nat.succ_eq_add_one]
  have := tokLoop_spec (F := F) ((dropBytes skip line).length + 1) (dropBytes skip line) skip []
  generalize tokLoop (F := F) ((dropBytes skip line).length + 1) (dropBytes skip line) skip [] = p at this ⊢
  obtain ⟨l, e⟩ := p
  cases hl : tokList (F := F) ((dropBytes skip line).length + 1) (dropBytes skip line) with
  | none =>
    rw [hl] at this
    simp only at this
    cases e with
    | none => exact absurd rfl this
    | some e =>
      simp only
      constructor
      · intro h; cases h
      · intro h; cases h
  | some l' =>
    rw [hl] at this
    simp only [List.reverse_nil, List.map_nil, List.nil_append] at this
    obtain ⟨h1, h2⟩ := this
    subst h1
    simp only
    constructor
    · intro h; injection h with h; rw [← h, h2]
    · intro h; injection h with h; rw [h2, h]

theorem tokenize_after_prefix (pfx body : Str) (ts : List (Token F)) :
    tokenize (F := F) (pfx ++ body) (len8 pfx) = .ok ts ↔ tokenize (F := F) body 0 = .ok ts := by
  rw [tokenize_skip_iff_tokList, dropBytes_len8, tokenize_iff_tokList]

/-- (a) for a numbered line: every insertion behind the line-number prefix `pfx` of a line
    without protected tokens is outside protected text, and changes no token. -/
theorem ins_unprotected_is_outside_numbered (w : Char) (hw : isBasicWs w = true) (pfx : Str)
    {body body' : Str} (h : Ins w body body') (ts : List (Token F))
    (hok : tokenize (F := F) (pfx ++ body) (len8 pfx) = .ok ts) (hun : ∀ t ∈ ts, Unprotected t = true) :
    InsOutside F w body body' ∧ tokenize (F := F) (pfx ++ body') (len8 pfx) = .ok ts := by
  rw [tokenize_after_prefix] at hok ⊢
  exact ⟨ins_unprotected_is_outside w h ts hok hun, tokenize_ins_unprotected' w hw h ts hok hun⟩

/-- (b) for a numbered line. -/
theorem tokenize_data_blank_numbered (w : Char) (hw : isBasicWs w = true) (pfx : Str)
    {body body' : Str} (h : InsData F w body body') (ts : List (Token F)) :
    tokenize (F := F) (pfx ++ body) (len8 pfx) = .ok ts ↔
      tokenize (F := F) (pfx ++ body') (len8 pfx) = .ok ts := by
  rw [tokenize_after_prefix, tokenize_after_prefix]
  exact tokenize_data_blank w hw h ts

/-! ### examples for (a) and (b) -/

/-- (a), non-vacuity: `FOR I=ATOB` has no protected token, so `FOR I=A TOB` (a blank in the
    middle of what looks like an identifier) is an insertion outside protected text. -/
example : InsOutside Unit ' ' "FOR I=ATOB".toList "FOR I=A TOB".toList :=
  ins_unprotected_is_outside ' '
    (Ins.cons 'F' (Ins.cons 'O' (Ins.cons 'R' (Ins.cons ' ' (Ins.cons 'I' (Ins.cons '='
      (Ins.cons 'A' (Ins.here _))))))))
    [.kw .For, .symbol ['I'], .kw .Equals, .symbol ['A'], .kw .To, .symbol ['B']] (by rfl)
    (by decide)

/-- (b), non-vacuity, a DATA statement in the middle of a line: `PRINT X:DATA a,"b",c:Y` and
    `PRINT X:DATA a, "b",c:Y` (blank behind a comma = in front of a quoted item). -/
example : tokenize (F := Unit) "PRINT X:DATA a, \"b\",c:Y".toList 0 =
    .ok [.kw .Print, .symbol ['X'], .kw .Colon,
      .data [.str "a".toList, .str "b".toList, .str "c".toList], .kw .Colon, .symbol ['Y']] := by
  refine (tokenize_data_blank (line := "PRINT X:DATA a,\"b\",c:Y".toList) ' ' (by decide) ?_ _).mp (by rfl)
  refine InsData.later 'P' "RINT".toList " X:DATA a,\"b\",c:Y".toList " X:DATA a, \"b\",c:Y".toList
    (.kw .Print) (by decide) (by rfl) rfl ?_
  refine InsData.blank ' ' (by decide) ?_
  refine InsData.later 'X' [] ":DATA a,\"b\",c:Y".toList ":DATA a, \"b\",c:Y".toList
    (.symbol ['X']) (by decide) (by rfl) rfl ?_
  refine InsData.later ':' [] "DATA a,\"b\",c:Y".toList "DATA a, \"b\",c:Y".toList
    (.kw .Colon) (by decide) (by rfl) rfl ?_
  exact InsData.inPayload 'D' "ATA".toList " a,".toList "\"b\",c".toList ":Y".toList
    [.str "a".toList, .str "b".toList, .str "c".toList] (by decide) (by rfl) (by rfl)
    ⟨by decide, by decide, Or.inl (by decide)⟩

/-- (b), non-vacuity: in front of a comma (end of an unquoted item): `DATA a,b` / `DATA a ,b`. -/
example : tokenize (F := Unit) "DATA a ,b".toList 0 = .ok [.data [.str "a".toList, .str "b".toList]] :=
  (tokenize_data_blank_first ' ' (by decide) 'D' "ATA".toList " a".toList ",b".toList [] _
    (by decide) (by rfl) (by rfl) ⟨by decide, by decide, Or.inr (Or.inl ⟨_, rfl⟩)⟩ _).mp (by rfl)

/-- (b), non-vacuity: at the end of the payload in front of the colon: `DATA a:X` / `DATA a :X`. -/
example : tokenize (F := Unit) "DATA a :X".toList 0 =
    .ok [.data [.str "a".toList], .kw .Colon, .symbol ['X']] :=
  (tokenize_data_blank_first ' ' (by decide) 'D' "ATA".toList " a".toList [] ":X".toList _
    (by decide) (by rfl) (by rfl) ⟨by decide, by decide, Or.inr (Or.inr rfl)⟩ _).mp (by rfl)

/-- (b), non-vacuity: at the end of the line, behind a quoted item: `DATA "a"` / `DATA "a" `
    (with a TAB). -/
example : tokenize (F := Unit) "DATA \"a\"\t".toList 0 = .ok [.data [.str "a".toList]] :=
  (tokenize_data_blank_first '\t' (by decide) 'D' "ATA".toList " \"a\"".toList [] [] _
    (by decide) (by rfl) (by rfl) ⟨by decide, by decide, Or.inr (Or.inr rfl)⟩ _).mp (by rfl)

/-- (b), the excluded region: a blank INSIDE an unquoted item.  `DATA ab` and `DATA a b` differ
    by one inserted blank, the items — hence the tokens — differ, so this insertion is
    neither outside protected text nor at a covered DATA position. -/
theorem data_blank_inside_item_counterexample :
    Ins ' ' "DATA ab".toList "DATA a b".toList ∧
    tokenize (F := Unit) "DATA ab".toList 0 = .ok [.data [.str "ab".toList]] ∧
    tokenize (F := Unit) "DATA a b".toList 0 = .ok [.data [.str "a b".toList]] ∧
    tokenize (F := Unit) "DATA ab".toList 0 ≠ tokenize (F := Unit) "DATA a b".toList 0 ∧
    ¬ InsData Unit ' ' "DATA ab".toList "DATA a b".toList := by
  have h1 : tokenize (F := Unit) "DATA ab".toList 0 = .ok [.data [.str "ab".toList]] := by rfl
  have h3 : tokenize (F := Unit) "DATA a b".toList 0 = .ok [.data [.str "a b".toList]] := by rfl
  have hne : (Except.ok [Token.data [DataElement.str "ab".toList]] : Except TokErr (List (Token Unit))) ≠
      .ok [.data [.str "a b".toList]] := by
    intro h2
    injection h2 with h2; injection h2 with h2; injection h2 with h2
    injection h2 with h2; injection h2 with h2
    exact absurd h2 (by decide)
  refine ⟨Ins.cons 'D' (Ins.cons 'A' (Ins.cons 'T' (Ins.cons 'A' (Ins.cons ' ' (Ins.cons 'a' (Ins.here _)))))),
    h1, h3, ?_, ?_⟩
  · rw [h1, h3]; exact hne
  · intro h
    have h2 := (tokenize_data_blank (F := Unit) ' ' (by decide) h [.data [.str "ab".toList]]).mp h1
    rw [h3] at h2
    exact hne h2.symm

/-- … and the parser-level form of the same fact. -/
example : (parseData (F := Unit) " a b".toList).1.map DataElement.render ≠
    (parseData (F := Unit) " ab".toList).1.map DataElement.render := by decide

/-! ### (c) letter case inside remark text and DATA items is kept

  The tokenizer upper-cases keywords and identifiers only.  The text of a remark and the
  payload of a DATA statement are handed on as typed (`remark_text_verbatim`,
  `data_payload_verbatim`), and the DATA parser does not touch letter case either
  (`parseData_plain_item`: an unquoted item is its text, trimmed).  So a change of letter
  case there DOES change the token: the exclusion in the property is necessary
  (`tokenize_case_data`). -/

/-- The text of a remark is, character for character, what follows the keyword REM up to
    the end of the line. -/
theorem remark_text_verbatim (c : Char) (t pay rest : Str)
    (h : nextToken (F := F) (c :: t) = .tok (.remark pay) rest) :
    rest = [] ∧ chompKeyword Extracted.remKeyword.toList (c :: t) = some pay ∧ pay <:+ c :: t := by
  rcases nextToken_ins_detail (F := F) ' ' (by decide) c (Ins.same (c :: t)) with
    ⟨tk0, _, _, h1, _, hu, _⟩ | ⟨h1, _⟩ | ⟨q, _, e, _, h1, _⟩ | ⟨r, _, h0, _, h1, _⟩ | ⟨pl, _, _, _, h1, _⟩
  · rw [h] at h1; injection h1 with h1a _; subst h1a; cases hu
  · exact absurd h (h1 _ _)
  · rw [h] at h1
    cases hs : splitAtQuote q with
    | none => rw [hs] at h1; cases h1
    | some pr => rw [hs] at h1; simp only at h1; injection h1 with h1a _; cases h1a
  · rw [h] at h1
    injection h1 with h1a h1b
    injection h1a with h1a
    subst h1a; subst h1b
    exact ⟨rfl, h0, chompKeyword_suffix _ _ _ h0⟩
  · rw [h] at h1; injection h1 with h1a _; cases h1a

/-- The items of a DATA token are what `parse_data_until_colon` makes of the text that
    follows the keyword DATA, character for character. -/
theorem data_payload_verbatim (c : Char) (t rest : Str) (items : List (DataElement F))
    (h : nextToken (F := F) (c :: t) = .tok (.data items) rest) :
    ∃ pl, chompKeyword Extracted.dataKeyword.toList (c :: t) = some pl ∧ pl <:+ c :: t ∧
      items = (parseData (F := F) pl).1 ∧ rest = dataRest F pl := by
  rcases nextToken_ins_detail (F := F) ' ' (by decide) c (Ins.same (c :: t)) with
    ⟨tk0, _, _, h1, _, hu, _⟩ | ⟨h1, _⟩ | ⟨q, _, e, _, h1, _⟩ | ⟨r, _, _, _, h1, _⟩ | ⟨pl, _, h0, _, h1, _⟩
  · rw [h] at h1; injection h1 with h1a _; subst h1a; cases hu
  · exact absurd h (h1 _ _)
  · rw [h] at h1
    cases hs : splitAtQuote q with
    | none => rw [hs] at h1; cases h1
    | some pr => rw [hs] at h1; simp only at h1; injection h1 with h1a _; cases h1a
  · rw [h] at h1; injection h1 with h1a _; cases h1a
  · rw [h] at h1
    injection h1 with h1a h1b
    injection h1a with h1a
    exact ⟨pl, h0, chompKeyword_suffix _ _ _ h0, h1a, h1b⟩

/-- a character that is neither a separator nor a quote is appended to the current item -/
theorem parseChar_plain (p : DataParser F) (c : Char) (hc : c ≠ ':' ∧ c ≠ ',' ∧ c ≠ '"')
    (hq : p.inQuote = false) (hf : p.finished = false) :
    p.parseChar c = { p with cur := p.cur ++ [c], chomped := p.chomped + c.utf8Size } := by
  obtain ⟨h1, h2, h3⟩ := hc
  obtain ⟨q, els, ch, cur, fin⟩ := p
  simp only at hq hf
  subst hq; subst hf
  simp [DataParser.parseChar, h1, h2, h3]

theorem run_plain (s : Str) : ∀ (p : DataParser F), (∀ x ∈ s, x ≠ ':' ∧ x ≠ ',' ∧ x ≠ '"') →
    p.inQuote = false → p.finished = false →
    DataParser.run p s = { p with cur := p.cur ++ s, chomped := p.chomped + len8 s } := by
  induction s with
  | nil => intro p _ _ _; simp [DataParser.run, len8]
  | cons c cs ih =>
    intro p hs hq hf
    obtain ⟨q, els, ch, cur, fin⟩ := p
    simp only at hq hf
    subst hq; subst hf
    rw [DataParser.run_cons, parseChar_plain _ c (hs c (List.mem_cons_self ..)) rfl rfl]
    simp only [Bool.false_eq_true, ↓reduceIte]
    rw [ih _ (fun x hx => hs x (List.mem_cons_of_mem _ hx)) rfl rfl]
    simp only [List.append_assoc, List.singleton_append, len8, Nat.add_assoc]

/-- A payload without separator, colon and quote is one unquoted item: its text as typed,
    with the blanks at both ends removed — letter case is not touched. -/
theorem parseData_plain_item (s : Str) (hs : ∀ x ∈ s, x ≠ ':' ∧ x ≠ ',' ∧ x ≠ '"') :
    (parseData (F := F) s).1 =
      [match NumOps.parse (F := F) (trim s) with
       | some x => .num x
       | none => .str (trim s)] := by
  rw [parseData_items, run_plain s _ hs rfl rfl]
  by_cases he : trim s = [] <;>
  simp [DataParser.finish, DataParser.pushCurrent, he] <;>
  split <;> rename_i h <;> simp [h]

/-- Item 3.  Letter case inside DATA items (unquoted or quoted) and inside remark text is
    kept, not upper-cased: the lines below differ in the case of one letter only (`CaseEq`),
    yet the tokens differ; so such an edit is not a case change outside protected text
    (`CaseEqOutside`) — the exclusion in the property is necessary.  The keyword itself may
    be typed in any case (`data aB`, `rem aB`), the text behind it is still kept. -/
theorem tokenize_case_data :
    (CaseEq "DATA ab".toList "DATA aB".toList ∧
      tokenize (F := Unit) "DATA ab".toList 0 = .ok [.data [.str "ab".toList]] ∧
      tokenize (F := Unit) "DATA aB".toList 0 = .ok [.data [.str "aB".toList]] ∧
      tokenize (F := Unit) "data aB".toList 0 = .ok [.data [.str "aB".toList]] ∧
      tokenize (F := Unit) "DATA ab".toList 0 ≠ tokenize (F := Unit) "DATA aB".toList 0 ∧
      ¬ CaseEqOutside Unit "DATA ab".toList "DATA aB".toList) ∧
    (CaseEq "DATA \"ab\",c".toList "DATA \"aB\",c".toList ∧
      tokenize (F := Unit) "DATA \"ab\",c".toList 0 = .ok [.data [.str "ab".toList, .str "c".toList]] ∧
      tokenize (F := Unit) "DATA \"aB\",c".toList 0 = .ok [.data [.str "aB".toList, .str "c".toList]] ∧
      tokenize (F := Unit) "DATA \"ab\",c".toList 0 ≠ tokenize (F := Unit) "DATA \"aB\",c".toList 0 ∧
      ¬ CaseEqOutside Unit "DATA \"ab\",c".toList "DATA \"aB\",c".toList) ∧
    (CaseEq "REM ab".toList "REM aB".toList ∧
      tokenize (F := Unit) "REM ab".toList 0 = .ok [.remark " ab".toList] ∧
      tokenize (F := Unit) "REM aB".toList 0 = .ok [.remark " aB".toList] ∧
      tokenize (F := Unit) "rem aB".toList 0 = .ok [.remark " aB".toList] ∧
      tokenize (F := Unit) "REM ab".toList 0 ≠ tokenize (F := Unit) "REM aB".toList 0 ∧
      ¬ CaseEqOutside Unit "REM ab".toList "REM aB".toList) := by
  refine ⟨?_, ?_, ?_⟩
  · have h1 : tokenize (F := Unit) "DATA ab".toList 0 = .ok [.data [.str "ab".toList]] := by rfl
    have h2 : tokenize (F := Unit) "DATA aB".toList 0 = .ok [.data [.str "aB".toList]] := by rfl
    have hne : (Except.ok [Token.data [DataElement.str "ab".toList]] : Except TokErr (List (Token Unit))) ≠
        .ok [.data [.str "aB".toList]] := by
      intro h
      injection h with h; injection h with h; injection h with h
      injection h with h; injection h with h
      exact absurd h (by decide)
    refine ⟨?_, h1, h2, by rfl, by rw [h1, h2]; exact hne, ?_⟩
    · repeat (first | exact CaseEq.nil | refine CaseEq.cons (by decide) (by decide) ?_)
    · intro h
      have := tokenize_caseEq_outside (F := Unit) h _ h1
      rw [h2] at this
      exact hne this.symm
  · have h1 : tokenize (F := Unit) "DATA \"ab\",c".toList 0 =
        .ok [.data [.str "ab".toList, .str "c".toList]] := by rfl
    have h2 : tokenize (F := Unit) "DATA \"aB\",c".toList 0 =
        .ok [.data [.str "aB".toList, .str "c".toList]] := by rfl
    have hne : (Except.ok [Token.data [DataElement.str "ab".toList, .str "c".toList]] :
        Except TokErr (List (Token Unit))) ≠ .ok [.data [.str "aB".toList, .str "c".toList]] := by
      intro h
      injection h with h; injection h with h; injection h with h
      injection h with h; injection h with h
      exact absurd h (by decide)
    refine ⟨?_, h1, h2, by rw [h1, h2]; exact hne, ?_⟩
    · repeat (first | exact CaseEq.nil | refine CaseEq.cons (by decide) (by decide) ?_)
    · intro h
      have := tokenize_caseEq_outside (F := Unit) h _ h1
      rw [h2] at this
      exact hne this.symm
  · have h1 : tokenize (F := Unit) "REM ab".toList 0 = .ok [.remark " ab".toList] := by rfl
    have h2 : tokenize (F := Unit) "REM aB".toList 0 = .ok [.remark " aB".toList] := by rfl
    have hne : (Except.ok [Token.remark " ab".toList] : Except TokErr (List (Token Unit))) ≠
        .ok [.remark " aB".toList] := by
      intro h
      injection h with h; injection h with h; injection h with h
      exact absurd h (by decide)
    refine ⟨?_, h1, h2, by rfl, by rw [h1, h2]; exact hne, ?_⟩
    · repeat (first | exact CaseEq.nil | refine CaseEq.cons (by decide) (by decide) ?_)
    · intro h
      have := tokenize_caseEq_outside (F := Unit) h _ h1
      rw [h2] at this
      exact hne this.symm

end Abasic.Props.C12
