import Abasic.Props.C03Stmt
import Abasic.Proofs.AnalyzerStmt
/-
  C06 for statements: the static analyzer and the statement evaluator agree on
  the covered statement fragment (LET, PRINT lists, GOTO, END, IF/THEN/ELSE) —
  the statement-level analogue of Abasic/Props/C06More.lean.

  1. `typeOfS s lineExists` — the spec's static check of a statement tree (what the
       analyzer checks): LET `x = e`: `typeOf e` must be the type of the suffix of
       `x`; PRINT: every expression typed (any type); GOTO n: line n must exist
       (`aGotoOrGosub` looks it up in the stored lines: UNDEF'D STATEMENT
       otherwise); IF: the condition typed (ANY type: `aIf` drops it), then the
       THEN branch and the ELSE branch BOTH checked; END: nothing.
       `accsS` — the symbol accesses logged (reads of the expressions; for LET
       the write of `x`, logged after the right-hand side).
  2. `analyze_stmt` — under `ASReady` (numbered line, cursor on `renderS s`, room
       for `sdepth s` levels, `Covered`) `aStmtBody (aEvalN n)` succeeds iff
       `typeOfS s σ.lines.has = .ok ()` (`analyzer_accepts_stmt_iff`); it then has
       consumed exactly `renderS s` — for IF the cursor ends behind the ELSE
       branch (the evaluator's ends at the end of the line or behind the taken
       branch) —, logged `accsS`, changed nothing else; on `.error x` it fails
       with `x` (`typeOfS_error`: TYPE MISMATCH or UNDEF'D STATEMENT).
  3. `exec_typed` / `sound_stmt_ref` — check passed + well-typed variables ⇒ the
       reference step `RStmt.exec` never ends in TYPE MISMATCH or a syntax
       error (only DIVISION BY ZERO), keeps the variables well-typed, jumps only
       to existing lines;
     `sound_stmt`, `sound_stmt_analyzer`, `sound_stmt_same` — combined with
       `C03.stmt_refines`: the evaluator's `stmtBody` on the same rendering fails
       with nothing but DIVISION BY ZERO — not with UNDEF'D STATEMENT either,
       because the analyzer DOES check GOTO targets (`sound_stmt_other_lines`:
       if the check was made against another line table, UNDEF'D STATEMENT is
       the one extra possibility).
  4. The converse: `complete_simple` — a rejected LET / PRINT / GOTO fails in the
       evaluator too (same error, or DIVISION BY ZERO first); for IF it does NOT
       hold: `analyzer_rejects_dead_branch`, `analyzer_rejects_evaluator_runs`
       (an error in the branch that is not taken).  No statement of the covered
       fragment is accepted by the analyzer and fails with a type / syntax error
       in the evaluator: that is `sound_stmt`.

  The proof of 2 mirrors `StmtL.stmt_run`: one lemma per statement kind
  (`alet_run`, `aprint_run` over `aPrintLoop_run`, `agoto_run`, `aend_run`,
  `aif_none_run`, `aif_some_run`), tied together by recursion on the tree
  (`astmt_run`); the expressions go through `aexpr_eq` / `amain` of C06More.
-/
set_option linter.unusedSectionVars false

namespace Abasic.Props.C06
open Abasic Abasic.Ref Abasic.ExprL Abasic.AnaL Abasic.StmtL Abasic.AnaS M

variable {F : Type} [NumOps F]

/-! ### 1. the spec's static check of a statement -/

/-- every expression of a PRINT list is typed (any type will do) -/
def typeOfItems : List (PItem F) → Except Err Unit
  | [] => .ok ()
  | .expr e :: rest =>
    match typeOf e with
    | .ok _ => typeOfItems rest
    | .error x => .error x
  | .semi :: rest => typeOfItems rest
  | .comma :: rest => typeOfItems rest

/-- What the analyzer checks on a statement (`lineExists` = the stored line
    numbers): LET: the type of the right-hand side is the type the name's suffix
    announces; PRINT: every expression is typed; GOTO: the target exists; IF: the
    condition is typed (any type), and BOTH branches pass — the analyzer walks
    both, unlike the evaluator; END passes.  The first error in token order is
    the result. -/
def typeOfS : RStmt F → (lineExists : Nat → Bool) → Except Err Unit
  | .letS x e, _ =>
    match typeOf e with
    | .error err => .error err
    | .ok t => if VT.ofName x = t then .ok () else .error .typeMismatch
  | .printS items, _ => typeOfItems items
  | .gotoS n, le => if le n then .ok () else .error .undefinedStatement
  | .endS, _ => .ok ()
  | .ifS c t none, le =>
    match typeOf c with
    | .error err => .error err
    | .ok _ => typeOfS t le
  | .ifS c t (some e), le =>
    match typeOf c with
    | .error err => .error err
    | .ok _ =>
      match typeOfS t le with
      | .error err => .error err
      | .ok _ => typeOfS e le

/-- the accesses logged for a PRINT list standing at token index `off` -/
def accsItems (ln : Nat) : Nat → List (PItem F) → List Acc
  | _, [] => []
  | off, .expr e :: rest => accs ln off e ++ accsItems ln (off + (render e).length) rest
  | off, .semi :: rest => accsItems ln (off + 1) rest
  | off, .comma :: rest => accsItems ln (off + 1) rest

/-- the accesses logged for `renderS s` standing at token index `off` of line `ln` -/
def accsS (ln : Nat) : Nat → RStmt F → List Acc
  | off, .letS x e => accs ln (off + 3) e ++ [(x, ln, off + 1, .write)]
  | off, .printS items => accsItems ln (off + 1) items
  | _, .gotoS _ => []
  | _, .endS => []
  | off, .ifS c t none => accs ln (off + 1) c ++ accsS ln (off + 1 + (render c).length + 1) t
  | off, .ifS c t (some e) =>
    accs ln (off + 1) c ++ (accsS ln (off + 1 + (render c).length + 1) t ++
      accsS ln (off + 1 + (render c).length + 1 + (renderS t).length + 1) e)

theorem accsItems_congr (ln : Nat) {a b : Nat} (items : List (PItem F)) (h : a = b) :
    accsItems ln a items = accsItems ln b items := by subst h; rfl

theorem accsS_congr (ln : Nat) {a b : Nat} (s : RStmt F) (h : a = b) :
    accsS ln a s = accsS ln b s := by subst h; rfl

/-! ### 2. the analyzer on a rendered statement -/

/-- the normal form of a state reached by analyzer steps -/
theorem norm_state (σ : St F) (a b r r' : Nat) (A B : List Acc) :
    lg (mv (lg (mv σ a r) A) b r') B = lg (mv σ (a + b) r') (A ++ B) := fin_fin σ a r b r' A B

theorem aPrintLoop_run (n ln : Nat) (rest : List (Token F)) (hE : StmtEnd rest) (items : List (PItem F)) :
    ∀ (k : Nat) (σ : St F) (pre : List (Token F)),
      At σ pre (renderItems items ++ rest) → σ.loc.line = some ln → itemsDepth items ≤ n →
      σ.nesting + itemsDepth items ≤ Extracted.nestingLimit → separated items = true →
      (renderItems items).length < k →
      SAgrees (aPrintLoop (aEvalN n) k σ) (typeOfItems items) σ
        (fun r => .ok () (lg (mv σ (renderItems items).length r) (accsItems ln pre.length items))) := by
  induction items with
  | nil =>
    intro k σ pre hAt _ _ _ _ hk
    obtain ⟨k', rfl⟩ : ∃ k', k = k' + 1 := ⟨k - 1, by omega⟩
    have hAt' : At σ pre rest := hAt
    refine ⟨σ.reads + 1, by omega, ?_⟩
    rw [aPrintLoop_stop hAt' hE]
    show Res.ok () _ = Res.ok () (lg _ [])
    rw [lg_nil]
    rfl
  | cons i r ih =>
    intro k σ pre hAt hl hd hn hsep hk
    obtain ⟨k', rfl⟩ : ∃ k', k = k' + 1 := ⟨k - 1, by omega⟩
    have hsep' := sep_tail i r hsep
    cases i with
    | semi =>
      have hAt0 : At σ pre (.kw .Semicolon :: (renderItems r ++ rest)) := hAt
      have hlen : (renderItems (PItem.semi :: r)).length = 1 + (renderItems r).length := by
        simp only [renderItems, PItem.render, List.length_append, List.length_cons, List.length_nil]
      have hI := ih k' (mv σ 1 (σ.reads + 1 + 1)) _ (at_mv1 hAt0 _) hl hd hn hsep'
        (by rw [hlen] at hk; omega)
      rw [aPrintLoop_semi hAt0]
      show SAgrees _ (typeOfItems r) _ _
      refine sagrees_from hI (by simp only [mv_reads]; omega) rfl (fun r' => ?_)
      rw [mv_mv, hlen]
      congr 1
      apply fin_congr _ _ rfl
      show _ = accsItems ln (pre.length + 1) r
      apply accsItems_congr
      simp only [List.length_append, List.length_cons, List.length_nil]
    | comma =>
      have hAt0 : At σ pre (.kw .Comma :: (renderItems r ++ rest)) := hAt
      have hlen : (renderItems (PItem.comma :: r)).length = 1 + (renderItems r).length := by
        simp only [renderItems, PItem.render, List.length_append, List.length_cons, List.length_nil]
      have hI := ih k' (mv σ 1 (σ.reads + 1 + 1)) _ (at_mv1 hAt0 _) hl hd hn hsep'
        (by rw [hlen] at hk; omega)
      rw [aPrintLoop_comma hAt0]
      show SAgrees _ (typeOfItems r) _ _
      refine sagrees_from hI (by simp only [mv_reads]; omega) rfl (fun r' => ?_)
      rw [mv_mv, hlen]
      congr 1
      apply fin_congr _ _ rfl
      show _ = accsItems ln (pre.length + 1) r
      apply accsItems_congr
      simp only [List.length_append, List.length_cons, List.length_nil]
    | expr e =>
      have hAt0 : At σ pre (render e ++ (renderItems r ++ rest)) := by
        simpa only [renderItems, PItem.render, List.append_assoc] using hAt
      have hlen : (renderItems (PItem.expr e :: r)).length = (render e).length + (renderItems r).length := by
        simp only [renderItems, PItem.render, List.length_append]
      have hde : depth e + 1 ≤ n := by simp only [itemsDepth] at hd; omega
      have hdr : itemsDepth r ≤ n := by simp only [itemsDepth] at hd; omega
      have hne : σ.nesting + (depth e + 1) ≤ Extracted.nestingLimit := by simp only [itemsDepth] at hn; omega
      have hnr : σ.nesting + itemsDepth r ≤ Extracted.nestingLimit := by simp only [itemsDepth] at hn; omega
      obtain ⟨t, ts, hts, hpl⟩ := render_head e
      have hAt1 : At σ pre (t :: (ts ++ (renderItems r ++ rest))) := by rw [hts] at hAt0; exact hAt0
      have hX := aexpr_eq e (amain e).1 n ln (mv σ 0 (σ.reads + 1)) pre _ hde hne
        (sep_follow e r rest hsep hE) (at_mv0 hAt0 _) hl
      rw [aPrintLoop_expr hAt1 hpl]
      cases hev : typeOf e with
      | error x =>
        rw [hev] at hX
        obtain ⟨σ', hσ', hn'⟩ := hX
        have hty : typeOfItems (.expr e :: r) = .error x := by simp only [typeOfItems, hev]
        rw [hty]
        exact ⟨σ', bind_err hσ', hn'⟩
      | ok v =>
        rw [hev] at hX
        obtain ⟨r1, hr1, hσ1⟩ := hX
        simp only [mv_reads, mv_mv, Nat.zero_add] at hr1 hσ1
        have hty : typeOfItems (.expr e :: r) = typeOfItems r := by simp only [typeOfItems, hev]
        rw [hty, bind_ok hσ1]
        have hAt2 : At (lg (mv σ (render e).length r1) (accs ln pre.length e)) (pre ++ render e)
            (renderItems r ++ rest) := at_lg (at_mv hAt0 r1) _
        have hI := ih k' _ _ hAt2 hl hdr hnr hsep'
          (by have := render_pos e; rw [hlen] at hk; omega)
        refine sagrees_from hI (by simp only [lg_reads, mv_reads]; omega) rfl (fun r' => ?_)
        rw [norm_state, hlen]
        congr 1
        apply fin_congr _ _ rfl
        show _ = accs ln pre.length e ++ accsItems ln (pre.length + (render e).length) r
        congr 1
        apply accsItems_congr
        simp only [List.length_append]

/-! #### LET -/

theorem alet_run (x : Str) (e : Expr F) (n ln : Nat) (σ : St F) (pre rest : List (Token F)) (le : Nat → Bool)
    (hAt : At σ pre (renderS (.letS x e) ++ rest)) (hl : σ.loc.line = some ln)
    (hd : depth e + 1 ≤ n) (hn : σ.nesting + (depth e + 1) ≤ Extracted.nestingLimit)
    (hE : Ends 6 rest) :
    SAgrees (aStmtBody (aEvalN n) σ) (typeOfS (.letS x e) le) σ
      (fun r => .ok () (lg (mv σ (renderS (.letS x e)).length r) (accsS ln pre.length (.letS x e)))) := by
  have hAt0 : At σ pre (.kw .Let :: .symbol x :: .kw .Equals :: (render e ++ rest)) := by
    simpa only [renderS, List.cons_append] using hAt
  have hAt1 := at_mv1 hAt0 (σ.reads + 1)
  have hAt2 := at_mv1 hAt1 (σ.reads + 1 + 1)
  rw [mv_mv] at hAt2
  have hAt3 := at_mv0 hAt2 (σ.reads + 1 + 1 + 1)
  rw [mv_mv] at hAt3
  have hAt4 := at_mv1 hAt3 (σ.reads + 1 + 1 + 1 + 1)
  rw [mv_mv] at hAt4
  have hrun : aStmtBody (aEvalN n) σ =
      ((aEvalN n).expr >>= fun t =>
        aAssignValue { name := x, loc := { line := some ln, idx := pre.length + 1 }, arity := none } t)
        (mv σ (1 + 1 + 0 + 1) (σ.reads + 1 + 1 + 1 + 1)) := by
    rw [aStmtBody_let hAt0]
    unfold aLet
    rw [bind_ok (next_eq hAt1), mv_mv]
    simp only [mv_reads]
    show aAssignment (aEvalN n) x _ = _
    unfold aAssignment
    rw [bind_ok (prevLoc_eq (ln := ln) (i := pre.length + 1) (by rw [mv_line]; exact hl)
      (by rw [mv_idx, hAt.2]))]
    rw [bind_ok (aOptionalArrayIndex_none hAt2 rfl), mv_mv]
    simp only [mv_reads]
    rw [bind_ok (expect_eq hAt3 rfl), mv_mv]
    rfl
  have hX := aexpr_eq e (amain e).1 n ln (mv σ (1 + 1 + 0 + 1) (σ.reads + 1 + 1 + 1 + 1)) _ rest hd hn hE hAt4 hl
  rw [hrun]
  cases hev : typeOf e with
  | error err =>
    rw [hev] at hX
    obtain ⟨σ', hσ', hn'⟩ := hX
    have hty : typeOfS (.letS x e) le = .error err := by simp only [typeOfS, hev]
    rw [hty]
    exact ⟨σ', bind_err hσ', hn'⟩
  | ok t =>
    rw [hev] at hX
    obtain ⟨r, hr, hσ'⟩ := hX
    simp only [mv_reads, mv_mv] at hr hσ'
    rw [bind_ok hσ']
    by_cases ht : VT.ofName x = t
    · subst ht
      have hty : typeOfS (.letS x e) le = .ok () := by simp only [typeOfS, hev, ↓reduceIte]
      rw [hty]
      refine ⟨r, by omega, ?_⟩
      rw [aAssignValue_ok, lg_lg]
      congr 1
      apply fin_congr
      · simp only [renderS, List.length_cons]; omega
      · show _ = accs ln (pre.length + 3) e ++ [(x, ln, pre.length + 1, Access.write)]
        congr 1
        apply accs_congr
        simp only [List.length_append, List.length_cons, List.length_nil]
    · have hty : typeOfS (.letS x e) le = .error .typeMismatch := by simp only [typeOfS, hev, ht, ↓reduceIte]
      rw [hty]
      exact ⟨_, aAssignValue_err x ln _ none t ht _, rfl⟩

/-! #### PRINT -/

theorem aprint_run (items : List (PItem F)) (n ln : Nat) (σ : St F) (pre rest : List (Token F)) (le : Nat → Bool)
    (hAt : At σ pre (renderS (.printS items) ++ rest)) (hl : σ.loc.line = some ln)
    (hd : itemsDepth items ≤ n) (hn : σ.nesting + itemsDepth items ≤ Extracted.nestingLimit)
    (hsep : separated items = true) (hE : StmtEnd rest) :
    SAgrees (aStmtBody (aEvalN n) σ) (typeOfS (.printS items) le) σ
      (fun r => .ok () (lg (mv σ (renderS (.printS items)).length r) (accsS ln pre.length (.printS items)))) := by
  have hAt0 : At σ pre (.kw .Print :: (renderItems items ++ rest)) := by
    simpa only [renderS, List.cons_append] using hAt
  have hAt1 := at_mv1 hAt0 (σ.reads + 1)
  have hL := aPrintLoop_run n ln rest hE items ((pre ++ [Token.kw Kw.Print] ++ (renderItems items ++ rest)).length + 1)
    (mv σ 1 (σ.reads + 1)) _ hAt1 hl hd hn hsep
    (by simp only [List.length_append]; omega)
  rw [aStmtBody_print hAt0, bind_ok (lineBudget_eq hAt1.1)]
  show SAgrees _ (typeOfItems items) _ _
  refine sagrees_from hL (by simp only [mv_reads]; omega) rfl (fun r' => ?_)
  rw [mv_mv]
  congr 1
  apply fin_congr
  · simp only [renderS, List.length_cons]; omega
  · show _ = accsItems ln (pre.length + 1) items
    apply accsItems_congr
    simp only [List.length_append, List.length_cons, List.length_nil]

/-! #### GOTO, END -/

theorem agoto_run (m : Nat) (n ln : Nat) (σ : St F) (pre rest : List (Token F))
    (hAt : At σ pre (renderS (.gotoS m : RStmt F) ++ rest))
    (hround : NumOps.toU64 (NumOps.ofNat m : F) = m) :
    SAgrees (aStmtBody (aEvalN n) σ) (typeOfS (.gotoS m : RStmt F) σ.lines.has) σ
      (fun r => .ok () (lg (mv σ (renderS (.gotoS m : RStmt F)).length r) (accsS ln pre.length (.gotoS m : RStmt F)))) := by
  have hAt0 : At σ pre (.kw .Goto :: .num (NumOps.ofNat m) :: rest) := by
    simpa only [renderS, List.cons_append, List.nil_append] using hAt
  have hAt1 := at_mv1 hAt0 (σ.reads + 1)
  rw [aStmtBody_goto hAt0, aGotoOrGosub_eq hAt1, hround]
  have hl : (mv σ 1 (σ.reads + 1)).lines = σ.lines := rfl
  rw [hl]
  cases hh : σ.lines.has m with
  | true =>
    have hty : typeOfS (.gotoS m : RStmt F) σ.lines.has = .ok () := by simp only [typeOfS, hh, ↓reduceIte]
    rw [hty]
    refine ⟨σ.reads + 1 + 1, by omega, ?_⟩
    simp only [↓reduceIte, mv_mv, mv_reads]
    show Res.ok () _ = Res.ok () (lg _ [])
    rw [lg_nil]
    rfl
  | false =>
    have hty : typeOfS (.gotoS m : RStmt F) σ.lines.has = .error .undefinedStatement := by
      simp only [typeOfS, hh, Bool.false_eq_true, ↓reduceIte]
    rw [hty]
    exact ⟨mv (mv σ 1 (σ.reads + 1)) 1 ((mv σ 1 (σ.reads + 1)).reads + 1),
      by simp only [Bool.false_eq_true, ↓reduceIte], rfl⟩

theorem aend_run (n ln : Nat) (σ : St F) (pre rest : List (Token F)) (le : Nat → Bool)
    (hAt : At σ pre (renderS (.endS : RStmt F) ++ rest)) :
    SAgrees (aStmtBody (aEvalN n) σ) (typeOfS (.endS : RStmt F) le) σ
      (fun r => .ok () (lg (mv σ (renderS (.endS : RStmt F)).length r) (accsS ln pre.length (.endS : RStmt F)))) := by
  have hAt0 : At σ pre (.kw .End :: rest) := by
    simpa only [renderS, List.cons_append, List.nil_append] using hAt
  refine ⟨σ.reads + 1, by omega, ?_⟩
  rw [aStmtBody_end hAt0]
  show Res.ok () _ = Res.ok () (lg _ [])
  rw [lg_nil]
  rfl

/-! #### IF -/

/-- what `aIf` does after the condition and THEN: the THEN branch, and — unlike
    the evaluator, which runs one branch only — the ELSE branch too if there is one -/
def aIfRest (ev : AEvals F) : M F Unit :=
  aStatementOrGoto ev >>= fun _ => accept .Else >>= fun b => if b then aStatementOrGoto ev else pure ()

/-- the condition of an IF (any type is accepted) and THEN -/
theorem aif_cond (c : Expr F) (n ln : Nat) (σ : St F) (pre post : List (Token F))
    (hAt : At σ pre (.kw .If :: (render c ++ .kw .Then :: post))) (hl : σ.loc.line = some ln)
    (hd : depth c + 1 ≤ n) (hn : σ.nesting + (depth c + 1) ≤ Extracted.nestingLimit) :
    match typeOf c with
    | .ok _ => ∃ r, σ.reads < r ∧
        aStmtBody (aEvalN n) σ =
          aIfRest (aEvalN n) (lg (mv σ (1 + (render c).length + 1) r) (accs ln (pre.length + 1) c))
    | .error x => ∃ σ', aStmtBody (aEvalN n) σ = .err { err := x } σ' ∧ σ'.nesting = σ.nesting := by
  have hAt1 := at_mv1 hAt (σ.reads + 1)
  have hX := aexpr_eq c (amain c).1 n ln (mv σ 1 (σ.reads + 1)) _ _ hd hn (ends_then 6 post) hAt1 hl
  rw [aStmtBody_if hAt]
  cases hev : typeOf c with
  | error x =>
    rw [hev] at hX
    obtain ⟨σ', hσ', hn'⟩ := hX
    exact ⟨σ', by unfold aIf; exact bind_err hσ', hn'⟩
  | ok v =>
    rw [hev] at hX
    obtain ⟨r, hr, hσ'⟩ := hX
    simp only [mv_reads, mv_mv] at hr hσ'
    refine ⟨r + 1, by omega, ?_⟩
    unfold aIf
    rw [bind_ok hσ']
    have hAt2 : At (lg (mv σ (1 + (render c).length) r) (accs ln (pre ++ [Token.kw Kw.If]).length c))
        (pre ++ [.kw .If] ++ render c) (.kw .Then :: post) := by
      have := at_mv hAt1 r
      rw [mv_mv] at this
      exact at_lg this _
    rw [bind_ok (expect_eq hAt2 rfl), mv_lg, mv_mv]
    simp only [lg_reads, mv_reads]
    have hacc : accs ln (pre ++ [Token.kw Kw.If]).length c = accs ln (pre.length + 1) c :=
      accs_congr ln c (by simp only [List.length_append, List.length_cons, List.length_nil])
    rw [hacc]
    rfl

/-- running the statement `t` as a branch of an IF (`aStatementOrGoto`), given the
    analysis of `t` itself one nesting level deeper -/
theorem abranch_run (t : RStmt F) (n' : Nat) (S : St F) (pre' rest : List (Token F))
    (ty : Except Err Unit) (acc : List Acc)
    (hAt : At S pre' (renderS t ++ rest)) (hn : S.nesting < Extracted.nestingLimit)
    (hI : SAgrees (aStmtBody (aEvalN n') (nest (mv S 0 (S.reads + 1)) (S.nesting + 1))) ty
            (nest (mv S 0 (S.reads + 1)) (S.nesting + 1))
            (fun r => .ok () (lg (mv (nest (mv S 0 (S.reads + 1)) (S.nesting + 1)) (renderS t).length r) acc))) :
    SAgrees (aStatementOrGoto (aEvalN (n' + 1)) S) ty S
      (fun r => .ok () (lg (mv S (renderS t).length r) acc)) := by
  obtain ⟨k, ts, hhead⟩ := renderS_head t
  have hAt' : At S pre' (.kw k :: (ts ++ rest)) := by rw [hhead] at hAt; exact hAt
  rw [aStatementOrGoto_kw hAt']
  show SAgrees (nested (aStmtBody (aEvalN n')) _) _ _ _
  have h1 := sagrees_nested (m := aStmtBody (aEvalN n')) (σ := mv S 0 (S.reads + 1)) (renderS t).length acc hn hI
  exact sagrees_from h1 (by simp only [mv_reads]; omega) rfl (fun r => by rw [mv_mv, Nat.zero_add])

/-- IF without ELSE: after the THEN branch nothing more is read but the next token -/
theorem aifrest_none (ev : AEvals F) (S : St F) (pre' mid rest : List (Token F)) (ty : Except Err Unit)
    (A : List Acc) (hAt : At S pre' (mid ++ rest)) (hLE : LineEnd rest)
    (hB : SAgrees (aStatementOrGoto ev S) ty S (fun r => .ok () (lg (mv S mid.length r) A))) :
    SAgrees (aIfRest ev S) ty S (fun r => .ok () (lg (mv S mid.length r) A)) := by
  unfold aIfRest
  cases ty with
  | error x =>
    obtain ⟨σ', hσ', hn'⟩ := hB
    exact ⟨σ', bind_err hσ', hn'⟩
  | ok u =>
    obtain ⟨r2, hr2, hσ2⟩ := hB
    refine ⟨r2 + 1, by omega, ?_⟩
    rw [bind_ok hσ2]
    have hAt2 : At (lg (mv S mid.length r2) A) (pre' ++ mid) rest := at_lg (at_mv hAt r2) _
    rw [bind_ok (accept_no (k := .Else) hAt2 (fun t ht => by rw [hLE t ht]; rfl))]
    simp only [Bool.false_eq_true, ↓reduceIte, lg_reads, mv_reads]
    show Res.ok () _ = _
    rw [mv_lg, mv_mv]
    rfl

/-- IF with ELSE: the ELSE is consumed and the second branch analysed as well -/
theorem aifrest_some (ev : AEvals F) (S : St F) (pre' mid post : List (Token F)) (ty1 ty2 : Except Err Unit)
    (A B : List Acc) (elen : Nat) (hAt : At S pre' (mid ++ .kw .Else :: post))
    (hB : SAgrees (aStatementOrGoto ev S) ty1 S (fun r => .ok () (lg (mv S mid.length r) A)))
    (hB2 : ∀ r2, S.reads < r2 →
      SAgrees (aStatementOrGoto ev (mv (lg (mv S mid.length r2) A) 1 (r2 + 1))) ty2
        (mv (lg (mv S mid.length r2) A) 1 (r2 + 1))
        (fun r => .ok () (lg (mv (mv (lg (mv S mid.length r2) A) 1 (r2 + 1)) elen r) B))) :
    SAgrees (aIfRest ev S)
      (match ty1 with
       | .error x => .error x
       | .ok _ => ty2) S
      (fun r => .ok () (lg (mv S (mid.length + 1 + elen) r) (A ++ B))) := by
  unfold aIfRest
  cases ty1 with
  | error x =>
    obtain ⟨σ', hσ', hn'⟩ := hB
    exact ⟨σ', bind_err hσ', hn'⟩
  | ok u =>
    obtain ⟨r2, hr2, hσ2⟩ := hB
    rw [bind_ok hσ2]
    have hAt2 : At (lg (mv S mid.length r2) A) (pre' ++ mid) (.kw .Else :: post) := at_lg (at_mv hAt r2) _
    rw [bind_ok (accept_true hAt2 rfl)]
    simp only [↓reduceIte, lg_reads, mv_reads]
    refine sagrees_from (hB2 r2 hr2) (by simp only [mv_reads]; omega) rfl (fun r => ?_)
    rw [mv_lg, mv_mv, norm_state]

/-! #### every covered statement -/

/-- the statement of `analyze_stmt` for one tree and one amount of fuel, from any state -/
def AStmtOK (t : RStmt F) (n ln : Nat) (le : Nat → Bool) : Prop :=
  ∀ (σ : St F) (pre rest : List (Token F)),
    At σ pre (renderS t ++ rest) → σ.loc.line = some ln → σ.lines.has = le →
    σ.nesting + sdepth t ≤ Extracted.nestingLimit → EndFor t rest →
    SAgrees (aStmtBody (aEvalN n) σ) (typeOfS t le) σ
      (fun r => .ok () (lg (mv σ (renderS t).length r) (accsS ln pre.length t)))

/-- a branch of an IF from the statement of the branch -/
theorem abranch_ok (t : RStmt F) (n' ln : Nat) (le : Nat → Bool) (hT : AStmtOK t n' ln le)
    (S : St F) (pre' rest : List (Token F))
    (hAt : At S pre' (renderS t ++ rest)) (hl : S.loc.line = some ln) (hle : S.lines.has = le)
    (hn : S.nesting + (sdepth t + 1) ≤ Extracted.nestingLimit) (hE : EndFor t rest) :
    SAgrees (aStatementOrGoto (aEvalN (n' + 1)) S) (typeOfS t le) S
      (fun r => .ok () (lg (mv S (renderS t).length r) (accsS ln pre'.length t))) :=
  abranch_run t n' S pre' rest _ _ hAt (by omega)
    (hT (nest (mv S 0 (S.reads + 1)) (S.nesting + 1)) pre' rest (at_nest (at_mv0 hAt _) _) hl hle
      (by simp only [nest_nesting]; omega) hE)

theorem aif_none_run (c : Expr F) (t : RStmt F) (n' ln : Nat) (le : Nat → Bool) (hT : AStmtOK t n' ln le)
    (σ : St F) (pre rest : List (Token F))
    (hAt : At σ pre (renderS (.ifS c t none) ++ rest)) (hl : σ.loc.line = some ln) (hle : σ.lines.has = le)
    (hd : depth c + 1 ≤ n' + 1)
    (hn : σ.nesting + max (depth c + 1) (sdepth t + 1) ≤ Extracted.nestingLimit) (hLE : LineEnd rest) :
    SAgrees (aStmtBody (aEvalN (n' + 1)) σ) (typeOfS (.ifS c t none) le) σ
      (fun r => .ok () (lg (mv σ (renderS (.ifS c t none)).length r) (accsS ln pre.length (.ifS c t none)))) := by
  have hAt0 : At σ pre (.kw .If :: (render c ++ .kw .Then :: (renderS t ++ rest))) := by
    simpa only [renderS, List.cons_append, List.append_assoc] using hAt
  have hlen : (renderS (.ifS c t none)).length = 1 + (render c).length + 1 + (renderS t).length := by
    simp only [renderS, List.length_cons, List.length_append]; omega
  have hC := aif_cond c (n' + 1) ln σ pre _ hAt0 hl hd (by omega)
  cases hev : typeOf c with
  | error x =>
    rw [hev] at hC
    have hty : typeOfS (.ifS c t none) le = .error x := by simp only [typeOfS, hev]
    rw [hty]
    exact hC
  | ok v =>
    rw [hev] at hC
    obtain ⟨r, hr, hrun⟩ := hC
    have hty : typeOfS (.ifS c t none) le = typeOfS t le := by simp only [typeOfS, hev]
    rw [hty, hrun]
    have hAt3 : At (lg (mv σ (1 + (render c).length + 1) r) (accs ln (pre.length + 1) c))
        (pre ++ [.kw .If] ++ render c ++ [.kw .Then]) (renderS t ++ rest) := at_lg (if_at c hAt0 r) _
    have hB := abranch_ok t n' ln le hT _ _ rest hAt3 hl hle (by show σ.nesting + _ ≤ _; omega) (Or.inl hLE)
    have hR := aifrest_none (aEvalN (n' + 1)) _ _ (renderS t) rest _ _ hAt3 hLE hB
    refine sagrees_from hR (by simp only [lg_reads, mv_reads]; omega) rfl (fun r' => ?_)
    rw [norm_state]
    congr 1
    apply fin_congr
    · rw [hlen]
    · show _ = accs ln (pre.length + 1) c ++ accsS ln (pre.length + 1 + (render c).length + 1) t
      congr 1
      apply accsS_congr
      simp only [List.length_append, List.length_cons, List.length_nil]

theorem aif_some_run (c : Expr F) (t e : RStmt F) (n' ln : Nat) (le : Nat → Bool)
    (hT : AStmtOK t n' ln le) (hEl : AStmtOK e n' ln le) (hsimple : t.simple = true)
    (σ : St F) (pre rest : List (Token F))
    (hAt : At σ pre (renderS (.ifS c t (some e)) ++ rest)) (hl : σ.loc.line = some ln) (hle : σ.lines.has = le)
    (hd : depth c + 1 ≤ n' + 1)
    (hn : σ.nesting + max (depth c + 1) (max (sdepth t + 1) (sdepth e + 1)) ≤ Extracted.nestingLimit)
    (hLE : LineEnd rest) :
    SAgrees (aStmtBody (aEvalN (n' + 1)) σ) (typeOfS (.ifS c t (some e)) le) σ
      (fun r => .ok () (lg (mv σ (renderS (.ifS c t (some e))).length r)
        (accsS ln pre.length (.ifS c t (some e))))) := by
  have hAt0 : At σ pre (.kw .If :: (render c ++ .kw .Then ::
      (renderS t ++ .kw .Else :: (renderS e ++ rest)))) := by
    simpa only [renderS, List.cons_append, List.append_assoc] using hAt
  have hlen : (renderS (.ifS c t (some e))).length =
      1 + (render c).length + 1 + ((renderS t).length + 1 + (renderS e).length) := by
    simp only [renderS, List.length_cons, List.length_append]; omega
  have hC := aif_cond c (n' + 1) ln σ pre _ hAt0 hl hd (by omega)
  cases hev : typeOf c with
  | error x =>
    rw [hev] at hC
    have hty : typeOfS (.ifS c t (some e)) le = .error x := by simp only [typeOfS, hev]
    rw [hty]
    exact hC
  | ok v =>
    rw [hev] at hC
    obtain ⟨r, hr, hrun⟩ := hC
    have hty : typeOfS (.ifS c t (some e)) le =
        (match typeOfS t le with
         | .error x => .error x
         | .ok _ => typeOfS e le) := by simp only [typeOfS, hev]
    rw [hty, hrun]
    generalize hS : lg (mv σ (1 + (render c).length + 1) r) (accs ln (pre.length + 1) c) = S
    have hSr : S.reads = r := by rw [← hS]; rfl
    have hSn : S.nesting = σ.nesting := by rw [← hS]; rfl
    have hSl : S.loc.line = some ln := by rw [← hS]; exact hl
    have hSle : S.lines.has = le := by rw [← hS]; exact hle
    have hAt3 : At S (pre ++ [.kw .If] ++ render c ++ [.kw .Then])
        (renderS t ++ .kw .Else :: (renderS e ++ rest)) := by
      rw [← hS]; exact at_lg (if_at c hAt0 r) _
    have hB := abranch_ok t n' ln le hT S _ _ hAt3 hSl hSle (by rw [hSn]; omega)
      (Or.inr ⟨hsimple, stmtEnd_else _⟩)
    have hR := aifrest_some (aEvalN (n' + 1)) S _ (renderS t) (renderS e ++ rest) _
      (typeOfS e le) _
      (accsS ln (pre ++ [Token.kw Kw.If] ++ render c ++ [Token.kw Kw.Then] ++ renderS t ++ [Token.kw Kw.Else]).length e)
      (renderS e).length hAt3 hB
      (fun r2 hr2 => by
        have hAt4 : At (lg (mv S (renderS t).length r2)
            (accsS ln (pre ++ [Token.kw Kw.If] ++ render c ++ [Token.kw Kw.Then]).length t))
            (pre ++ [.kw .If] ++ render c ++ [.kw .Then] ++ renderS t) (.kw .Else :: (renderS e ++ rest)) :=
          at_lg (at_mv hAt3 r2) _
        have hAt5 := at_mv1 hAt4 (r2 + 1)
        exact abranch_ok e n' ln le hEl _ _ rest hAt5 hSl hSle (by show S.nesting + _ ≤ _; rw [hSn]; omega)
          (Or.inl hLE))
    refine sagrees_from hR (by rw [hSr]; omega) hSn (fun r' => ?_)
    rw [← hS, norm_state]
    congr 1
    apply fin_congr
    · rw [hlen]
    · show _ = accs ln (pre.length + 1) c ++ (accsS ln (pre.length + 1 + (render c).length + 1) t ++
        accsS ln (pre.length + 1 + (render c).length + 1 + (renderS t).length + 1) e)
      congr 2
      · apply accsS_congr
        simp only [List.length_append, List.length_cons, List.length_nil]
      · apply accsS_congr
        simp only [List.length_append, List.length_cons, List.length_nil]

theorem astmt_run : ∀ (s : RStmt F) (n ln : Nat) (le : Nat → Bool), sdepth s ≤ n → s.Covered → AStmtOK s n ln le
  | .letS x e, n, ln, le, hd, _ => fun σ pre rest hAt hl _ hn hE =>
    alet_run x e n ln σ pre rest le hAt hl hd hn (ends_of_stmtEnd hE.stmtEnd 6)
  | .printS items, n, ln, le, hd, hcov => fun σ pre rest hAt hl _ hn hE =>
    aprint_run items n ln σ pre rest le hAt hl hd hn hcov hE.stmtEnd
  | .gotoS m, n, ln, le, _, hcov => fun σ pre rest hAt _ hle _ _ => by
    subst hle
    exact agoto_run m n ln σ pre rest hAt hcov
  | .endS, n, ln, le, _, _ => fun σ pre rest hAt _ _ _ _ =>
    aend_run n ln σ pre rest le hAt
  | .ifS c t none, n, ln, le, hd, hcov => fun σ pre rest hAt hl hle hn hE => by
    have hLE : LineEnd rest := by
      rcases hE with h | h
      · exact h
      · exact absurd h.1 (by simp [RStmt.simple])
    obtain ⟨_, hcovt⟩ : t.elseFree = true ∧ t.Covered := by simpa only [RStmt.Covered] using hcov
    simp only [sdepth] at hd hn
    obtain ⟨n', rfl⟩ : ∃ n', n = n' + 1 := ⟨n - 1, by omega⟩
    exact aif_none_run c t n' ln le (astmt_run t n' ln le (by omega) hcovt) σ pre rest hAt hl hle
      (by omega) hn hLE
  | .ifS c t (some e), n, ln, le, hd, hcov => fun σ pre rest hAt hl hle hn hE => by
    have hLE : LineEnd rest := by
      rcases hE with h | h
      · exact h
      · exact absurd h.1 (by simp [RStmt.simple])
    obtain ⟨hsimple, hcovt, hcove⟩ : t.simple = true ∧ t.Covered ∧ e.Covered := by
      simpa only [RStmt.Covered] using hcov
    simp only [sdepth] at hd hn
    obtain ⟨n', rfl⟩ : ∃ n', n = n' + 1 := ⟨n - 1, by omega⟩
    exact aif_some_run c t e n' ln le (astmt_run t n' ln le (by omega) hcovt)
      (astmt_run e n' ln le (by omega) hcove) hsimple σ pre rest hAt hl hle (by omega) hn hLE

/-! ### 2. `analyze_stmt` -/

/-- The hypotheses of `analyze_stmt` — `C03.SReady` for the analyzer: the cursor
    of `σ` stands on the NUMBERED line `ln` (the analyzer only ever walks numbered
    lines: `logAccess` unwraps the line number), whose tokens are
    `pre ++ renderS s ++ rest`, at index `|pre|`; `sdepth s` levels of room under
    the nesting cap and in the fuel; the statement is `Covered`; `rest` is empty
    or begins with `:` (after a statement that is not an IF it may begin with
    ELSE).  Nothing is asked of the GOSUB stack, the warning or the tracing
    flag: the analyzer does not look at them. -/
structure ASReady (σ : St F) (ln : Nat) (pre : List (Token F)) (s : RStmt F) (rest : List (Token F))
    (n : Nat) : Prop where
  line : σ.loc.line = some ln
  toks : tokens σ = .ok (pre ++ renderS s ++ rest) σ
  idx : σ.loc.idx = pre.length
  nesting : σ.nesting + sdepth s ≤ Extracted.nestingLimit
  fuel : sdepth s ≤ n
  covered : s.Covered
  ends : EndFor s rest

theorem ASReady.of_sready {σ : St F} {ln : Nat} {pre rest : List (Token F)} {s : RStmt F} {n : Nat}
    (h : C03.SReady σ pre s rest n) (hl : σ.loc.line = some ln) : ASReady σ ln pre s rest n :=
  ⟨hl, h.toks, h.idx, h.nesting, h.fuel, h.covered, h.ends⟩

theorem ASReady.at {σ : St F} {ln : Nat} {pre rest : List (Token F)} {s : RStmt F} {n : Nat}
    (h : ASReady σ ln pre s rest n) : At σ pre (renderS s ++ rest) :=
  ⟨by rw [C02.lineToks_of_tokens h.toks, List.append_assoc], h.idx⟩

/-- **The analyzer on a rendered statement.**  For every covered statement `s`,
    one activation `aStmtBody` of the statement analyzer on `renderS s`
    succeeds iff the spec's check `typeOfS s` (against the stored lines of `σ`)
    succeeds; it then has consumed exactly `renderS s` — for IF that is the
    condition, THEN branch, and ELSE branch: the analyzer walks BOTH branches and
    ends behind the last one —, logged exactly `accsS ln |pre| s`, and changed
    nothing else (lines, variables, nesting counter, … are those of `σ`; the
    read counter grew).  If `typeOfS s` is an error the run fails with that
    error, the nesting counter restored. -/
theorem analyze_stmt (s : RStmt F) (n ln : Nat) (σ : St F) (pre rest : List (Token F))
    (h : ASReady σ ln pre s rest n) :
    (typeOfS s σ.lines.has = .ok () → ∃ r, σ.reads < r ∧
      aStmtBody (aEvalN n) σ =
        .ok () { σ with loc := { σ.loc with idx := pre.length + (renderS s).length }, reads := r,
                        accesses := σ.accesses ++ accsS ln pre.length s }) ∧
    (∀ x, typeOfS s σ.lines.has = .error x → ∃ σ',
      aStmtBody (aEvalN n) σ = .err { err := x } σ' ∧ σ'.nesting = σ.nesting) := by
  have hA := astmt_run s n ln σ.lines.has h.fuel h.covered σ pre rest h.at h.line rfl h.nesting h.ends
  constructor
  · intro ht
    rw [ht] at hA
    obtain ⟨r, hr, hσ⟩ := hA
    exact ⟨r, hr, by rw [hσ]; show Res.ok () (lg (mv σ _ r) _) = _; rw [fin_eq h.idx]⟩
  · intro x hx
    rw [hx] at hA
    exact hA

/-- the analyzer's verdict on a rendered statement is `typeOfS` -/
theorem analyze_stmt_outcome (s : RStmt F) (n ln : Nat) (σ : St F) (pre rest : List (Token F))
    (h : ASReady σ ln pre s rest n) :
    C02.outcome (aStmtBody (aEvalN n) σ) =
      (match typeOfS s σ.lines.has with
       | .ok u => .ok u
       | .error x => .error { err := x }) := by
  obtain ⟨h1, h2⟩ := analyze_stmt s n ln σ pre rest h
  cases hev : typeOfS s σ.lines.has with
  | ok u => obtain ⟨r, _, hr⟩ := h1 hev; rw [hr]; rfl
  | error x => obtain ⟨σ', hσ', _⟩ := h2 x hev; rw [hσ']; rfl

/-- accepted by the analyzer ⇔ passed by the spec's check -/
theorem analyzer_accepts_stmt_iff (s : RStmt F) (n ln : Nat) (σ : St F) (pre rest : List (Token F))
    (h : ASReady σ ln pre s rest n) :
    (∃ σ', aStmtBody (aEvalN n) σ = .ok () σ') ↔ typeOfS s σ.lines.has = .ok () := by
  obtain ⟨h1, h2⟩ := analyze_stmt s n ln σ pre rest h
  constructor
  · rintro ⟨σ', hσ'⟩
    cases hev : typeOfS s σ.lines.has with
    | ok u => rfl
    | error x =>
      obtain ⟨σ'', hσ'', _⟩ := h2 x hev
      rw [hσ''] at hσ'
      cases hσ'
  · intro ht
    obtain ⟨r, _, hr⟩ := h1 ht
    exact ⟨_, hr⟩

theorem typeOfItems_error (items : List (PItem F)) (x : Err) (h : typeOfItems items = .error x) :
    x = .typeMismatch := by
  induction items with
  | nil => simp [typeOfItems] at h
  | cons i r ih =>
    cases i with
    | semi => exact ih h
    | comma => exact ih h
    | expr e =>
      simp only [typeOfItems] at h
      cases hte : typeOf e with
      | error y => rw [hte] at h; simp only [Except.error.injEq] at h; subst h; exact typeOf_error e _ hte
      | ok t => rw [hte] at h; exact ih h

/-- the static errors of the covered fragment: TYPE MISMATCH and UNDEF'D STATEMENT -/
theorem typeOfS_error (le : Nat → Bool) : ∀ (s : RStmt F) (x : Err), typeOfS s le = .error x →
    x = .typeMismatch ∨ x = .undefinedStatement
  | .letS n e, x, h => by
    simp only [typeOfS] at h
    cases hte : typeOf e with
    | error y => rw [hte] at h; simp only [Except.error.injEq] at h; subst h; exact .inl (typeOf_error e _ hte)
    | ok t =>
      rw [hte] at h
      by_cases ht : VT.ofName n = t
      · simp [ht] at h
      · simp only [ht, ↓reduceIte, Except.error.injEq] at h; exact .inl h.symm
  | .printS items, x, h => .inl (typeOfItems_error items x h)
  | .gotoS m, x, h => by
    simp only [typeOfS] at h
    cases hm : le m with
    | true => simp [hm] at h
    | false => simp only [hm, Bool.false_eq_true, ↓reduceIte, Except.error.injEq] at h; exact .inr h.symm
  | .endS, x, h => by simp [typeOfS] at h
  | .ifS c t none, x, h => by
    simp only [typeOfS] at h
    cases hte : typeOf c with
    | error y => rw [hte] at h; simp only [Except.error.injEq] at h; subst h; exact .inl (typeOf_error c _ hte)
    | ok v => rw [hte] at h; exact typeOfS_error le t x h
  | .ifS c t (some e), x, h => by
    simp only [typeOfS] at h
    cases hte : typeOf c with
    | error y => rw [hte] at h; simp only [Except.error.injEq] at h; subst h; exact .inl (typeOf_error c _ hte)
    | ok v =>
      rw [hte] at h
      cases htt : typeOfS t le with
      | error y => rw [htt] at h; simp only [Except.error.injEq] at h; subst h; exact typeOfS_error le t _ htt
      | ok u => rw [htt] at h; exact typeOfS_error le e x h

/-! ### 3. soundness -/

/-- every stored variable holds a value of the kind its name announces
    (`WellTyped σ` is `WellTypedVars σ.vars`) -/
def WellTypedVars (vars : List (Str × Value F)) : Prop :=
  ∀ name v, alGet name vars = some v → v.matchesName name = true

theorem wellTyped_iff (σ : St F) : WellTyped σ ↔ WellTypedVars σ.vars := Iff.rfl

theorem wellTypedEnv_envOf {vars : List (Str × Value F)} (h : WellTypedVars vars) :
    WellTypedEnv (envOf vars) := by
  intro name
  unfold envOf
  cases hg : alGet name vars with
  | none => exact defaultFor_matches name
  | some v => exact h name v hg

theorem alSet_wellTyped {vars : List (Str × Value F)} {x : Str} {v : Value F}
    (h : WellTypedVars vars) (hm : v.matchesName x = true) : WellTypedVars (alSet x v vars) := by
  intro n w hw
  simp only [alGet_alSet] at hw
  by_cases hn : x = n
  · subst hn
    simp only [beq_self_eq_true, ↓reduceIte, Option.some.injEq] at hw
    subst hw; exact hm
  · have hb : (x == n) = false := by simpa using hn
    simp only [hb, Bool.false_eq_true, ↓reduceIte] at hw
    exact h n w hw

/-- a typed PRINT list prints, or stops with DIVISION BY ZERO -/
theorem printText_typed (env : Str → Value F) (henv : WellTypedEnv env) (items : List (PItem F)) :
    ∀ (b : Bool) (acc : Str), typeOfItems items = .ok () →
      (∃ text, printText env items b acc = .ok text) ∨ printText env items b acc = .error .divisionByZero := by
  induction items with
  | nil => intro b acc _; exact .inl ⟨_, rfl⟩
  | cons i r ih =>
    intro b acc h
    cases i with
    | semi => exact ih true acc h
    | comma => exact ih false _ h
    | expr e =>
      simp only [typeOfItems] at h
      cases hte : typeOf e with
      | error y => rw [hte] at h; cases h
      | ok t =>
        rw [hte] at h
        rcases (fold_typeOf env henv e).1 t hte with ⟨v, hv, _⟩ | hdz
        · simp only [printText, hv]
          exact ih false _ h
        · exact .inr (by simp only [printText, hdz])

omit [NumOps F] in
theorem closeLine_vars (r : RResult F) : r.closeLine.vars = r.vars := by
  unfold RResult.closeLine; cases r.ctl <;> rfl

omit [NumOps F] in
theorem closeLine_error (r : RResult F) (x : Err) (h : r.closeLine.ctl = .error x) : r.ctl = .error x := by
  by_cases hc : r.ctl = .next
  · rw [closeLine_next hc] at h; cases h
  · rw [closeLine_other hc] at h; exact h

omit [NumOps F] in
theorem closeLine_jump (r : RResult F) (m : Nat) (h : r.closeLine.ctl = .jump m) : r.ctl = .jump m := by
  by_cases hc : r.ctl = .next
  · rw [closeLine_next hc] at h; cases h
  · rw [closeLine_other hc] at h; exact h

/-- what the reference step of an accepted statement can do -/
structure ExecOK (le : Nat → Bool) (r : RResult F) : Prop where
  /-- the variables stay well-typed -/
  vars : WellTypedVars r.vars
  /-- the only error is the value-dependent DIVISION BY ZERO -/
  err : ∀ x, r.ctl = .error x → x = .divisionByZero
  /-- a jump goes to a line the check has seen -/
  jump : ∀ m, r.ctl = .jump m → le m = true

omit [NumOps F] in
theorem ExecOK.closeLine {le : Nat → Bool} {r : RResult F} (h : ExecOK le r) : ExecOK le r.closeLine :=
  ⟨by rw [closeLine_vars]; exact h.vars, fun x hx => h.err x (closeLine_error r x hx),
   fun m hm => h.jump m (closeLine_jump r m hm)⟩

omit [NumOps F] in
theorem execOK_plain {le : Nat → Bool} {r : RResult F} (hv : WellTypedVars r.vars)
    (hc : r.ctl = .next ∨ r.ctl = .skipLine ∨ r.ctl = .stop) : ExecOK le r := by
  refine ⟨hv, fun x hx => ?_, fun m hm => ?_⟩
  · rcases hc with hc | hc | hc <;> rw [hc] at hx <;> cases hx
  · rcases hc with hc | hc | hc <;> rw [hc] at hm <;> cases hm

omit [NumOps F] in
theorem execOK_dz {le : Nat → Bool} {r : RResult F} (hv : WellTypedVars r.vars)
    (hc : r.ctl = .error .divisionByZero) : ExecOK le r := by
  refine ⟨hv, fun x hx => ?_, fun m hm => ?_⟩
  · rw [hc] at hx; simp only [Ctl.error.injEq] at hx; exact hx.symm
  · rw [hc] at hm; cases hm

/-- **Soundness on the reference semantics.**  If the spec's check passes `s` and
    the variables are well-typed, the reference step of `s` does not end in TYPE
    MISMATCH nor in a syntax error (its only error is DIVISION BY ZERO), the
    variables it leaves are well-typed, and a jump it asks for goes to a line
    that exists according to `lineExists` (the analyzer checks GOTO targets —
    of both branches of an IF). -/
theorem exec_typed (le : Nat → Bool) (vars : List (Str × Value F)) (hwt : WellTypedVars vars) :
    ∀ (s : RStmt F), typeOfS s le = .ok () → ExecOK le (RStmt.exec vars s)
  | .letS x e, h => by
    simp only [typeOfS] at h
    cases hte : typeOf e with
    | error y => rw [hte] at h; cases h
    | ok t =>
      rw [hte] at h
      by_cases ht : VT.ofName x = t
      · rcases (fold_typeOf (envOf vars) (wellTypedEnv_envOf hwt) e).1 t hte with ⟨v, hv, hk⟩ | hdz
        · have hm : v.matchesName x = true := by
            rw [suffix_rule_agrees, hk, ← ht]; simp
          have hr : RStmt.exec vars (.letS x e) = { vars := alSet x v vars, out := [], ctl := .next } := by
            simp only [RStmt.exec, hv, hm, ↓reduceIte]
          rw [hr]
          exact execOK_plain (alSet_wellTyped hwt hm) (.inl rfl)
        · have hr : RStmt.exec vars (.letS x e) = { vars := vars, out := [], ctl := .error .divisionByZero } := by
            simp only [RStmt.exec, hdz]
          rw [hr]
          exact execOK_dz hwt rfl
      · simp [ht] at h
  | .printS items, h => by
    rcases printText_typed (envOf vars) (wellTypedEnv_envOf hwt) items false [] h with ⟨text, hp⟩ | hdz
    · have hr : RStmt.exec vars (.printS items) = { vars := vars, out := [text], ctl := .next } := by
        simp only [RStmt.exec, hp]
      rw [hr]
      exact execOK_plain hwt (.inl rfl)
    · have hr : RStmt.exec vars (.printS items) = { vars := vars, out := [], ctl := .error .divisionByZero } := by
        simp only [RStmt.exec, hdz]
      rw [hr]
      exact execOK_dz hwt rfl
  | .gotoS n, h => by
    simp only [typeOfS] at h
    cases hm : le n with
    | false => simp [hm] at h
    | true =>
      refine ⟨hwt, fun y hy => ?_, fun m hm' => ?_⟩
      · cases hy
      · simp only [RStmt.exec, Ctl.jump.injEq] at hm'; subst hm'; exact hm
  | .endS, _ => execOK_plain hwt (.inr (.inr rfl))
  | .ifS c t none, h => by
    simp only [typeOfS] at h
    cases hte : typeOf c with
    | error y => rw [hte] at h; cases h
    | ok tc =>
      rw [hte] at h
      rcases (fold_typeOf (envOf vars) (wellTypedEnv_envOf hwt) c).1 tc hte with ⟨v, hv, _⟩ | hdz
      · cases hb : v.toBool with
        | true =>
          rw [C03.exec_if_true vars c t v hv hb]
          exact exec_typed le vars hwt t h
        | false =>
          rw [C03.exec_if_false vars c t v hv hb]
          exact execOK_plain hwt (.inr (.inl rfl))
      · rw [C03.exec_if_error vars c t none _ hdz]
        exact execOK_dz hwt rfl
  | .ifS c t (some e), h => by
    simp only [typeOfS] at h
    cases hte : typeOf c with
    | error y => rw [hte] at h; cases h
    | ok tc =>
      rw [hte] at h
      cases htt : typeOfS t le with
      | error y => rw [htt] at h; cases h
      | ok u =>
        rw [htt] at h
        rcases (fold_typeOf (envOf vars) (wellTypedEnv_envOf hwt) c).1 tc hte with ⟨v, hv, _⟩ | hdz
        · cases hb : v.toBool with
          | true =>
            rw [C03.exec_if_true_else vars c t e v hv hb]
            exact (exec_typed le vars hwt t htt).closeLine
          | false =>
            rw [C03.exec_if_false_else vars c t e v hv hb]
            exact exec_typed le vars hwt e h
        · rw [C03.exec_if_error vars c t (some e) _ hdz]
          exact execOK_dz hwt rfl

/-- the same for a state: what `RStmt.exec σ.vars s` can be when the check passes -/
theorem sound_stmt_ref (s : RStmt F) (σ : St F) (hwt : WellTyped σ)
    (hty : typeOfS s σ.lines.has = .ok ()) :
    (RStmt.exec σ.vars s).ctl ≠ .error .typeMismatch ∧
    (∀ se, (RStmt.exec σ.vars s).ctl ≠ .error (.syntax se)) ∧
    (∀ x, (RStmt.exec σ.vars s).ctl = .error x → x = .divisionByZero) ∧
    WellTypedVars (RStmt.exec σ.vars s).vars ∧
    (∀ m, (RStmt.exec σ.vars s).ctl = .jump m → σ.lines.has m = true) := by
  have h := exec_typed σ.lines.has σ.vars hwt s hty
  refine ⟨fun hc => ?_, fun se hc => ?_, h.err, h.vars, h.jump⟩
  · have := h.err _ hc; cases this
  · have := h.err _ hc; cases this

/-- a run that realises a reference result satisfying `ExecOK`: it fails only with
    DIVISION BY ZERO — or with UNDEF'D STATEMENT for a jump to a line that is not
    stored — and a successful run leaves the variables well-typed -/
theorem refines_sound {res : Res F Unit} {σ : St F} {a eol : Nat} {r : RResult F} {le : Nat → Bool}
    (h : Refines res σ a eol r) (hok : ExecOK le r) :
    (∀ te σ', res = .err te σ' → te.err = .divisionByZero ∨
      (te.err = .undefinedStatement ∧ ∃ m, r.ctl = .jump m ∧ σ.lines.has m = false)) ∧
    (∀ σ', res = .ok () σ' → WellTyped σ') := by
  unfold Refines at h
  cases hc : r.ctl with
  | next =>
    rw [hc] at h
    obtain ⟨k, _, hres⟩ := h
    refine ⟨fun te σ' he => (by rw [hres] at he; cases he), fun σ' ho => ?_⟩
    rw [hres] at ho
    simp only [Res.ok.injEq, true_and] at ho
    subst ho; exact hok.vars
  | skipLine =>
    rw [hc] at h
    obtain ⟨k, _, hres⟩ := h
    refine ⟨fun te σ' he => (by rw [hres] at he; cases he), fun σ' ho => ?_⟩
    rw [hres] at ho
    simp only [Res.ok.injEq, true_and] at ho
    subst ho; exact hok.vars
  | stop =>
    rw [hc] at h
    obtain ⟨k, _, hres⟩ := h
    refine ⟨fun te σ' he => (by rw [hres] at he; cases he), fun σ' ho => ?_⟩
    rw [hres] at ho
    simp only [Res.ok.injEq, true_and] at ho
    subst ho; exact hok.vars
  | jump m =>
    rw [hc] at h
    cases hh : σ.lines.has m with
    | true =>
      obtain ⟨k, _, hres⟩ := h.1 hh
      refine ⟨fun te σ' he => (by rw [hres] at he; cases he), fun σ' ho => ?_⟩
      rw [hres] at ho
      simp only [Res.ok.injEq, true_and] at ho
      subst ho; exact hok.vars
    | false =>
      obtain ⟨σ'', hres, _⟩ := h.2 hh
      refine ⟨fun te σ' he => ?_, fun σ' ho => by rw [hres] at ho; cases ho⟩
      rw [hres] at he
      simp only [Res.err.injEq] at he
      rw [← he.1]
      exact .inr ⟨rfl, m, rfl, hh⟩
  | error x =>
    rw [hc] at h
    obtain ⟨σ'', hres, _⟩ := h
    have hx := hok.err x hc
    subst hx
    refine ⟨fun te σ' he => ?_, fun σ' ho => by rw [hres] at ho; cases ho⟩
    rw [hres] at he
    simp only [Res.err.injEq] at he
    rw [← he.1]
    exact .inl rfl

/-- **`sound_stmt`.**  If the spec's check passes the covered statement `s`
    against the stored lines of `σ` and the variables of `σ` are well-typed, then
    one activation of the statement EVALUATOR on `renderS s` (from a `C03.SReady`
    state) does not fail with TYPE MISMATCH, nor with a syntax error, nor with
    UNDEF'D STATEMENT (the analyzer checks GOTO targets): the only failure left
    is the value-dependent DIVISION BY ZERO; and a successful activation leaves
    the variables well-typed. -/
theorem sound_stmt (s : RStmt F) (n : Nat) (σ : St F) (pre rest : List (Token F))
    (h : C03.SReady σ pre s rest n) (hNE : NoElseLine σ) (hwt : WellTyped σ)
    (hty : typeOfS s σ.lines.has = .ok ()) :
    (∀ te σ', stmtBody (evalN n) σ = .err te σ' →
      te.err ≠ .typeMismatch ∧ (∀ se, te.err ≠ .syntax se) ∧ te.err ≠ .undefinedStatement ∧
      te.err = .divisionByZero) ∧
    (∀ σ', stmtBody (evalN n) σ = .ok () σ' → WellTyped σ') := by
  have hok := exec_typed σ.lines.has σ.vars hwt s hty
  obtain ⟨h1, h2⟩ := refines_sound (C03.stmt_refines s n σ pre rest h hNE) hok
  refine ⟨fun te σ' he => ?_, h2⟩
  rcases h1 te σ' he with hd | ⟨_, m, hm, hh⟩
  · rw [hd]
    exact ⟨by simp, fun se => by simp, by simp, rfl⟩
  · rw [hok.jump m hm] at hh; cases hh

/-- The same when the check was made against ANOTHER line table `le` (the
    analyzer's program differs from the interpreter's): UNDEF'D STATEMENT comes
    back as a possible failure, TYPE MISMATCH and syntax errors do not. -/
theorem sound_stmt_other_lines (s : RStmt F) (le : Nat → Bool) (n : Nat) (σ : St F) (pre rest : List (Token F))
    (h : C03.SReady σ pre s rest n) (hNE : NoElseLine σ) (hwt : WellTyped σ)
    (hty : typeOfS s le = .ok ()) :
    (∀ te σ', stmtBody (evalN n) σ = .err te σ' →
      te.err ≠ .typeMismatch ∧ (∀ se, te.err ≠ .syntax se) ∧
      (te.err = .divisionByZero ∨ te.err = .undefinedStatement)) ∧
    (∀ σ', stmtBody (evalN n) σ = .ok () σ' → WellTyped σ') := by
  have hok := exec_typed le σ.vars hwt s hty
  obtain ⟨h1, h2⟩ := refines_sound (C03.stmt_refines s n σ pre rest h hNE) hok
  refine ⟨fun te σ' he => ?_, h2⟩
  rcases h1 te σ' he with hd | ⟨hu, _⟩
  · rw [hd]
    exact ⟨by simp, fun se => by simp, .inl rfl⟩
  · rw [hu]
    exact ⟨by simp, fun se => by simp, .inr rfl⟩

/-- **C06 for statements.**  If the ANALYZER accepts the rendering of the covered
    statement `s` (run from any state `σa` standing on it, on a numbered line),
    then the EVALUATOR run on the same tokens — from any `SReady` state `σ` with
    the same stored line numbers and well-typed variables — does not fail with
    TYPE MISMATCH, a syntax error or UNDEF'D STATEMENT; it can only fail with
    DIVISION BY ZERO; and it keeps the variables well-typed. -/
theorem sound_stmt_analyzer (s : RStmt F)
    (na ln : Nat) (σa σa' : St F) (prea resta : List (Token F))
    (ha : ASReady σa ln prea s resta na) (hacc : aStmtBody (aEvalN na) σa = .ok () σa')
    (n : Nat) (σ : St F) (pre rest : List (Token F))
    (hr : C03.SReady σ pre s rest n) (hNE : NoElseLine σ) (hwt : WellTyped σ)
    (hlines : σ.lines.has = σa.lines.has) :
    (∀ te σ', stmtBody (evalN n) σ = .err te σ' →
      te.err ≠ .typeMismatch ∧ (∀ se, te.err ≠ .syntax se) ∧ te.err ≠ .undefinedStatement ∧
      te.err = .divisionByZero) ∧
    (∀ σ', stmtBody (evalN n) σ = .ok () σ' → WellTyped σ') := by
  have hty := (analyzer_accepts_stmt_iff s na ln σa prea resta ha).1 ⟨σa', hacc⟩
  rw [← hlines] at hty
  exact sound_stmt s n σ pre rest hr hNE hwt hty

/-- … and when analyzer and evaluator start from the SAME state. -/
theorem sound_stmt_same (s : RStmt F) (n ln : Nat) (σ σa' : St F) (pre rest : List (Token F))
    (hr : C03.SReady σ pre s rest n) (hl : σ.loc.line = some ln) (hNE : NoElseLine σ) (hwt : WellTyped σ)
    (hacc : aStmtBody (aEvalN n) σ = .ok () σa') :
    (∀ te σ', stmtBody (evalN n) σ = .err te σ' →
      te.err ≠ .typeMismatch ∧ (∀ se, te.err ≠ .syntax se) ∧ te.err ≠ .undefinedStatement ∧
      te.err = .divisionByZero) ∧
    (∀ σ', stmtBody (evalN n) σ = .ok () σ' → WellTyped σ') :=
  sound_stmt_analyzer s n ln σ σa' pre rest (ASReady.of_sready hr hl) hacc n σ pre rest hr hNE hwt rfl

/-! ### the converse, for statements that are not an IF -/

/-- a rejected PRINT list does not print: TYPE MISMATCH, unless a division by zero comes first -/
theorem printText_untyped (env : Str → Value F) (henv : WellTypedEnv env) (items : List (PItem F)) :
    ∀ (b : Bool) (acc : Str) (x : Err), typeOfItems items = .error x →
      printText env items b acc = .error .typeMismatch ∨ printText env items b acc = .error .divisionByZero := by
  induction items with
  | nil => intro b acc x h; simp [typeOfItems] at h
  | cons i r ih =>
    intro b acc x h
    cases i with
    | semi => exact ih true acc x h
    | comma => exact ih false _ x h
    | expr e =>
      simp only [typeOfItems] at h
      cases hte : typeOf e with
      | error y =>
        rcases (fold_typeOf env henv e).2 y hte with hf | hf
        · exact .inl (by simp only [printText, hf])
        · exact .inr (by simp only [printText, hf])
      | ok t =>
        rw [hte] at h
        rcases (fold_typeOf env henv e).1 t hte with ⟨v, hv, _⟩ | hdz
        · simp only [printText, hv]
          exact ih false _ x h
        · exact .inr (by simp only [printText, hdz])

/-- **Completeness on the reference semantics, without IF.**  If the spec's check
    rejects a statement that is not an IF, the reference step fails too: a
    rejected LET / PRINT ends in TYPE MISMATCH (or in a DIVISION BY ZERO met
    first), a rejected GOTO asks for a line that does not exist. -/
theorem exec_untyped_simple (le : Nat → Bool) (vars : List (Str × Value F)) (hwt : WellTypedVars vars) :
    ∀ (s : RStmt F), s.simple = true → ∀ x, typeOfS s le = .error x →
      (x = .typeMismatch ∧ ((RStmt.exec vars s).ctl = .error .typeMismatch ∨
                            (RStmt.exec vars s).ctl = .error .divisionByZero)) ∨
      (x = .undefinedStatement ∧ ∃ m, (RStmt.exec vars s).ctl = .jump m ∧ le m = false)
  | .letS n e, _, x, h => by
    simp only [typeOfS] at h
    cases hte : typeOf e with
    | error y =>
      rw [hte] at h
      simp only [Except.error.injEq] at h
      subst h
      refine .inl ⟨typeOf_error e _ hte, ?_⟩
      rcases (fold_typeOf (envOf vars) (wellTypedEnv_envOf hwt) e).2 y hte with hf | hf
      · exact .inl (by simp only [RStmt.exec, hf])
      · exact .inr (by simp only [RStmt.exec, hf])
    | ok t =>
      rw [hte] at h
      by_cases ht : VT.ofName n = t
      · simp [ht] at h
      · simp only [ht, ↓reduceIte, Except.error.injEq] at h
        refine .inl ⟨h.symm, ?_⟩
        rcases (fold_typeOf (envOf vars) (wellTypedEnv_envOf hwt) e).1 t hte with ⟨v, hv, hk⟩ | hdz
        · have hm : v.matchesName n = false := by
            rw [suffix_rule_agrees, hk]
            simpa using fun h' => ht h'.symm
          exact .inl (by simp only [RStmt.exec, hv, hm, Bool.false_eq_true, ↓reduceIte])
        · exact .inr (by simp only [RStmt.exec, hdz])
  | .printS items, _, x, h => by
    refine .inl ⟨typeOfItems_error items x h, ?_⟩
    rcases printText_untyped (envOf vars) (wellTypedEnv_envOf hwt) items false [] x h with hp | hp
    · exact .inl (by simp only [RStmt.exec, hp])
    · exact .inr (by simp only [RStmt.exec, hp])
  | .gotoS m, _, x, h => by
    simp only [typeOfS] at h
    cases hm : le m with
    | true => simp [hm] at h
    | false =>
      simp only [hm, Bool.false_eq_true, ↓reduceIte, Except.error.injEq] at h
      exact .inr ⟨h.symm, m, rfl, hm⟩
  | .endS, _, x, h => by simp [typeOfS] at h
  | .ifS _ _ none, hs, _, _ => by simp [RStmt.simple] at hs
  | .ifS _ _ (some _), hs, _, _ => by simp [RStmt.simple] at hs

/-- **Completeness for statements that are not an IF.**  If the spec's check (hence,
    by `analyze_stmt`, the analyzer) rejects a LET / PRINT / GOTO with `x`, the
    evaluator fails on the same tokens: with `x`, unless a DIVISION BY ZERO comes
    first.  (For IF this is false: `analyzer_rejects_evaluator_runs` below.) -/
theorem complete_simple (s : RStmt F) (hs : s.simple = true) (n : Nat) (σ : St F) (pre rest : List (Token F))
    (h : C03.SReady σ pre s rest n) (hNE : NoElseLine σ) (hwt : WellTyped σ) (x : Err)
    (hty : typeOfS s σ.lines.has = .error x) :
    ∃ σ', (stmtBody (evalN n) σ = .err { err := x } σ' ∨
           stmtBody (evalN n) σ = .err { err := .divisionByZero } σ') ∧ σ'.nesting = σ.nesting := by
  have hR := C03.stmt_refines s n σ pre rest h hNE
  unfold Refines at hR
  rcases exec_untyped_simple σ.lines.has σ.vars hwt s hs x hty with ⟨hx, hc | hc⟩ | ⟨hx, m, hc, hm⟩
  · subst hx
    rw [hc] at hR
    obtain ⟨σ', hσ', hn⟩ := hR
    exact ⟨σ', .inl hσ', hn⟩
  · rw [hc] at hR
    obtain ⟨σ', hσ', hn⟩ := hR
    exact ⟨σ', .inr hσ', hn⟩
  · subst hx
    rw [hc] at hR
    obtain ⟨σ', hσ', hn⟩ := hR.2 hm
    exact ⟨σ', .inl hσ', hn⟩

/-! ### non-vacuity -/

theorem asready_line (s : RStmt F) (ln : Nat) (rest : List (Token F)) (vars : List (Str × Value F)) (n : Nat)
    (hd : sdepth s ≤ Extracted.nestingLimit) (hn : sdepth s ≤ n) (hcov : s.Covered) (hrest : EndFor s rest) :
    ASReady (lineState ln ([] ++ renderS s ++ rest) vars) ln [] s rest n where
  line := rfl
  toks := tokens_lineState _ _ _
  idx := rfl
  nesting := by show 0 + sdepth s ≤ _; omega
  fuel := hn
  covered := hcov
  ends := hrest

theorem sready_line (s : RStmt F) (ln : Nat) (rest : List (Token F)) (vars : List (Str × Value F)) (n : Nat)
    (hd : sdepth s ≤ Extracted.nestingLimit) (hn : sdepth s ≤ n) (hcov : s.Covered) (hrest : EndFor s rest) :
    C03.SReady (lineState ln ([] ++ renderS s ++ rest) vars) [] s rest n where
  toks := tokens_lineState _ _ _
  idx := rfl
  stack := rfl
  warnings := rfl
  tracing := rfl
  nesting := by show 0 + sdepth s ≤ _; omega
  fuel := hn
  covered := hcov
  ends := hrest

omit [NumOps F] in
theorem noElseLine_lineState (ln : Nat) (ts : List (Token F)) (vars : List (Str × Value F))
    (h : ∀ t, ts.head? = some t → t.isKw .Else = false) : NoElseLine (lineState ln ts vars) := by
  intro m ts' hg
  simp only [lineState, Lines.get, Lines.getMap] at hg
  split at hg
  · simp only [Option.some.injEq] at hg; subst hg; exact h
  · cases hg

omit [NumOps F] in
theorem lineState_has (ln : Nat) (ts : List (Token F)) (vars : List (Str × Value F)) (m : Nat) :
    (lineState ln ts vars).lines.has m = (ln == m) := by
  simp only [lineState, Lines.has, Lines.get, Lines.getMap]
  cases ln == m <;> rfl

/-- `IF "A" THEN PRINT "X"; ELSE LET A$ = "B"` (C03's demo statement) passes the check … -/
theorem demoStmt_typed (le : Nat → Bool) : typeOfS (C03.demoStmt : RStmt F) le = .ok () := by
  simp [C03.demoStmt, typeOfS, typeOfItems, typeOf, VT.ofName, endsWithDollar]

/-- … so on line 10 holding it, with the default fuel, the analyzer accepts it,
    ends behind the ELSE branch (token 11) and logs the write of `A$` at token 8;
    and the evaluator, from that same state and whatever the (well-typed)
    variables, succeeds and keeps them well-typed. -/
example (vars : List (Str × Value F))
    (hwt : WellTyped (lineState 10 ([] ++ renderS (C03.demoStmt : RStmt F) ++ []) vars)) :
    (∃ r, aStmtBody (aEvalN defaultFuel) (lineState 10 ([] ++ renderS (C03.demoStmt : RStmt F) ++ []) vars) =
      .ok () { (lineState 10 ([] ++ renderS (C03.demoStmt : RStmt F) ++ []) vars) with
               loc := { line := some 10, idx := 11 }, reads := r,
               accesses := [(['A', '$'], 10, 8, .write)] }) ∧
    (∃ σ', stmtBody (evalN defaultFuel) (lineState 10 ([] ++ renderS (C03.demoStmt : RStmt F) ++ []) vars) =
      .ok () σ' ∧ WellTyped σ') := by
  have hd : sdepth (C03.demoStmt : RStmt F) = 2 := by
    simp [C03.demoStmt, sdepth, itemsDepth, depth]
  have hcov : (C03.demoStmt : RStmt F).Covered := by
    simp [C03.demoStmt, RStmt.Covered, RStmt.simple, separated]
  have hend : EndFor (C03.demoStmt : RStmt F) [] := Or.inl (by intro t ht; cases ht)
  have hA := asready_line (C03.demoStmt : RStmt F) 10 [] vars defaultFuel
    (by rw [hd]; decide) (by rw [hd]; unfold defaultFuel; omega) hcov hend
  have hS := sready_line (C03.demoStmt : RStmt F) 10 [] vars defaultFuel
    (by rw [hd]; decide) (by rw [hd]; unfold defaultFuel; omega) hcov hend
  constructor
  · obtain ⟨r, _, hr⟩ := (analyze_stmt _ _ _ _ _ _ hA).1 (demoStmt_typed _)
    refine ⟨r, ?_⟩
    rw [hr]
    have hacc : accsS 10 0 (C03.demoStmt : RStmt F) = [(['A', '$'], 10, 8, Access.write)] := by
      simp [C03.demoStmt, accsS, accsItems, accs, renderS, renderItems, PItem.render, render_str]
    simp [C03.demoStmt_render, lineState, hacc]
  · have hNE : NoElseLine (lineState 10 ([] ++ renderS (C03.demoStmt : RStmt F) ++ []) vars) :=
      noElseLine_lineState _ _ _ (fun t ht => by
        simp only [C03.demoStmt_render, List.nil_append, List.append_nil, List.head?_cons,
          Option.some.injEq] at ht
        subst ht; rfl)
    obtain ⟨h1, h2⟩ := sound_stmt _ _ _ _ _ hS hNE hwt (demoStmt_typed _)
    cases hrun : stmtBody (evalN defaultFuel) (lineState 10 ([] ++ renderS (C03.demoStmt : RStmt F) ++ []) vars) with
    | ok u σ' => exact ⟨σ', rfl, h2 σ' hrun⟩
    | err te σ' =>
      -- the condition `"A"` and both branches are division-free: no error is possible
      have hR := C03.stmt_refines _ _ _ _ _ hS hNE
      have hex : (RStmt.exec vars (C03.demoStmt : RStmt F)).ctl = .skipLine := by
        simp [C03.demoStmt, RStmt.exec, foldE, Value.toBool, printText, valueText, RResult.closeLine]
      have hv : (lineState 10 ([] ++ renderS (C03.demoStmt : RStmt F) ++ []) vars).vars = vars := rfl
      rw [hv] at hR
      unfold Refines at hR
      rw [hex] at hR
      obtain ⟨k, _, hk⟩ := hR
      rw [hk] at hrun
      cases hrun

/-! ### 4. where analyzer and evaluator differ on the covered fragment

  `sound_stmt` is the direction C06 asks for: accepted ⇒ no type / syntax
  failure (and no UNDEF'D STATEMENT).  The CONVERSE fails on the covered
  fragment, for a structural reason that is visible in `typeOfS` / `aIf`: the
  analyzer walks BOTH branches of an IF, the evaluator runs ONE.  An error in
  the branch that is not taken — a TYPE MISMATCH, or a GOTO to a line that does
  not exist — is reported by the analyzer and never met by the evaluator. -/

/-- `IF "A" THEN END ELSE LET A = "X"` -/
def deadMismatch : RStmt F := .ifS (.str ['A']) .endS (some (.letS ['A'] (.str ['X'])))

/-- `IF "A" THEN END ELSE GOTO 99` -/
def deadGoto : RStmt F := .ifS (.str ['A']) .endS (some (.gotoS 99))

theorem deadMismatch_render : renderS (deadMismatch : RStmt F) =
    [.kw .If, .str ['A'], .kw .Then, .kw .End, .kw .Else, .kw .Let, .symbol ['A'], .kw .Equals, .str ['X']] := by
  simp [deadMismatch, renderS, render_str]

/-- **The analyzer rejects a statement the evaluator runs** (spec level): the check
    answers TYPE MISMATCH resp. UNDEF'D STATEMENT (line 99 is not stored), the
    reference step is END's `stop` in both cases — the condition `"A"` is true
    and the ELSE branch is never executed. -/
theorem analyzer_rejects_dead_branch (vars : List (Str × Value F)) (le : Nat → Bool) (h99 : le 99 = false) :
    typeOfS (deadMismatch : RStmt F) le = .error .typeMismatch ∧
    (RStmt.exec vars (deadMismatch : RStmt F)).ctl = .stop ∧
    typeOfS (deadGoto : RStmt F) le = .error .undefinedStatement ∧
    (RStmt.exec vars (deadGoto : RStmt F)).ctl = .stop := by
  refine ⟨?_, ?_, ?_, ?_⟩
  · simp [deadMismatch, typeOfS, typeOf, VT.ofName, endsWithDollar]
  · simp [deadMismatch, RStmt.exec, foldE, Value.toBool, RResult.closeLine]
  · simp [deadGoto, typeOfS, typeOf, h99]
  · simp [deadGoto, RStmt.exec, foldE, Value.toBool, RResult.closeLine]

/-- **… and on the real functions**, from one and the same state (line 10 holding
    `IF "A" THEN END ELSE LET A = "X"`, default fuel, any variables): the
    statement ANALYZER fails with TYPE MISMATCH, the statement EVALUATOR
    succeeds (it executes END).  So "the evaluator runs without a type error ⇒
    the analyzer is silent" does not hold for IF; only the direction
    `sound_stmt` does. -/
theorem analyzer_rejects_evaluator_runs (vars : List (Str × Value F)) :
    C02.outcome (aStmtBody (aEvalN defaultFuel)
      (lineState 10 ([] ++ renderS (deadMismatch : RStmt F) ++ []) vars)) = .error { err := .typeMismatch } ∧
    ∃ σ', stmtBody (evalN defaultFuel)
      (lineState 10 ([] ++ renderS (deadMismatch : RStmt F) ++ []) vars) = .ok () σ' := by
  have hd : sdepth (deadMismatch : RStmt F) = 2 := by
    simp [deadMismatch, sdepth, depth]
  have hcov : (deadMismatch : RStmt F).Covered := by
    simp [deadMismatch, RStmt.Covered, RStmt.simple]
  have hend : EndFor (deadMismatch : RStmt F) [] := Or.inl (by intro t ht; cases ht)
  have hA := asready_line (deadMismatch : RStmt F) 10 [] vars defaultFuel
    (by rw [hd]; decide) (by rw [hd]; unfold defaultFuel; omega) hcov hend
  have hS := sready_line (deadMismatch : RStmt F) 10 [] vars defaultFuel
    (by rw [hd]; decide) (by rw [hd]; unfold defaultFuel; omega) hcov hend
  constructor
  · rw [analyze_stmt_outcome _ _ _ _ _ _ hA, (analyzer_rejects_dead_branch vars _ (by
      rw [lineState_has]; decide)).1]
  · have hNE : NoElseLine (lineState 10 ([] ++ renderS (deadMismatch : RStmt F) ++ []) vars) :=
      noElseLine_lineState _ _ _ (fun t ht => by
        simp only [deadMismatch_render, List.nil_append, List.append_nil, List.head?_cons,
          Option.some.injEq] at ht
        subst ht; rfl)
    have hR := C03.stmt_refines _ _ _ _ _ hS hNE
    have hv : (lineState 10 ([] ++ renderS (deadMismatch : RStmt F) ++ []) vars).vars = vars := rfl
    rw [hv] at hR
    unfold Refines at hR
    rw [(analyzer_rejects_dead_branch vars (fun _ => false) rfl).2.1] at hR
    obtain ⟨k, _, hk⟩ := hR
    exact ⟨_, hk⟩

end Abasic.Props.C06
