import Abasic.Props.C06FullEx
/-
  C06 — the known finding KF-NESTED-ELSE as a theorem about the model.

  `20 IF X THEN IF 1 THEN PRINT 5 ELSE PRINT 2 ELSE PRINT 3` is grammatical: as
  many ELSE as IF.  The analyzer gives the first ELSE to the inner IF, the second
  to the outer one, and reports nothing.  The interpreter's false-branch scan
  takes the FIRST ELSE on the line whichever IF it belongs to, runs `PRINT 2`, and
  the statement loop then meets the second ELSE as the start of a statement.
  No DEF, no function call, no INPUT: the side conditions of the property hold,
  and an analysed-clean program fails with a syntax error.  (The same facts are
  observed on the implementation by the c06 slice, family `surplus-else`.)
-/
namespace Abasic.Props.C06
open Abasic

attribute [local instance] C14.natOps

def nestedElseText : List Str :=
  ["10 X = 0".toList, "20 IF X THEN IF 1 THEN PRINT 5 ELSE PRINT 2 ELSE PRINT 3".toList, "30 PRINT 4".toList]

/-- analysis by evaluation: no panic, no error diagnostic, no message at all, and the stored program -/
theorem nested_else_aobs : aobs (analysis nestedElseText) =
    (none, [], 0, some ["10 X = 0\n".toList, "20 IF X THEN IF 1 THEN PRINT 5 ELSE PRINT 2 ELSE PRINT 3\n".toList, "30 PRINT 4\n".toList]) := by
  decide +kernel

/-- the analyzer reports nothing for the program -/
theorem nested_else_analyzer_silent : Silent (analysis nestedElseText) :=
  silent_of_aobs nested_else_aobs

/-- ... and the run of the handed-over program fails with SYNTAX ERROR (UNEXPECTED TOKEN) located at the second ELSE of
    line 20 (token 11), however many turns the host takes -/
theorem nested_else_run_fails : ∀ j,
    errOfR (runLoaded (2 + j) nestedElseText) =
      some { err := .syntax .unexpectedToken, loc := some { line := some 20, idx := 11 } } :=
  run_err_forever (by decide +kernel)

/-- the finding as a refutation of "analyzer silent => no syntax error" for a program without DEF, call or INPUT -/
theorem nested_else_counterexample :
    Silent (analysis nestedElseText) ∧
    ∃ te, errOfR (runLoaded 2 nestedElseText) = some te ∧ te.err = .syntax .unexpectedToken :=
  ⟨nested_else_analyzer_silent, _, nested_else_run_fails 0, rfl⟩

end Abasic.Props.C06
