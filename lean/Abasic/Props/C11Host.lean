import Abasic.Props.C11
import Abasic.Props.C01WF
import Abasic.Props.C16Store
import Abasic.Proofs.C11Eval
/-
  C11 at the host level — editing the program invalidates every runtime
  reference into it, as seen by whoever types the next line.

  1. `edit_forgets_runtime`, `edit_then_same_future`, `edit_congr`,
     `edit_future_congr`: the state after a successful edit is a function of
     the program text, variables, arrays, generator, flags, queues ONLY.
  2. host-level probes on `startEvaluating fuel LINE (afterEdit σ n ts)` for
     the literal lines CONT, RETURN, NEXT I, PRINT FNA(1), READ X, for every
     idle σ (nesting 0 where an expression is evaluated); fuel: any for
     CONT/RETURN/NEXT/READ, ≥ 1 for PRINT X, ≥ 2 for PRINT FNA(1).
  3. `edit_keeps_values`, `print_after_edit_host`.
  4. `probe_hypotheses_reachable` (side conditions hold in reachable states)
     and `probes_nonvacuous` (a kernel-checked reachable mid-run state for
     which the un-edited interpreter answers all five probes differently).

  The expression evaluations use Proofs/C11Eval.lean.
-/
namespace Abasic.Props.C11
open Abasic Abasic.Props.C01 Abasic.ExprL Abasic.Proofs.C11Eval

variable {F : Type} [NumOps F]

set_option linter.unusedSimpArgs false

theorem alGet_alSet_here {β : Type} (k : Str) (v : β) (l : List (Str × β)) :
    alGet k (alSet k v l) = some v := by
  induction l with
  | nil => simp [alSet, alGet]
  | cons p ps ih =>
    obtain ⟨k', v'⟩ := p
    by_cases hk : k' = k
    · simp [alSet, alGet, hk]
    · have hb : (k' == k) = false := by simpa using hk
      simp [alSet, alGet, hb, ih]

/-- forget every runtime reference into the program -/
def dropRuntime (σ : St F) : St F :=
  { σ with bp := none, stack := [], loops := [], fns := [], data := none, loc := {}, imm := [] }

omit [NumOps F] in
theorem edit_forgets_runtime (σ : St F) (n : Nat) (ts : List (Token F)) :
    afterEdit σ n ts = afterEdit (dropRuntime σ) n ts := by
  simp [afterEdit, dropRuntime, St.setNumberedLine, St.setImmediate]

theorem edit_then_same_future (fuel : Nat) (cs : List Call) (σ : St F) (n : Nat) (ts : List (Token F)) :
    applyCalls fuel cs (afterEdit σ n ts) = applyCalls fuel cs (afterEdit (dropRuntime σ) n ts) := by
  rw [← edit_forgets_runtime]

omit [NumOps F] in
/-- two states that differ only in runtime references into the program are indistinguishable after the
    same edit … -/
theorem edit_congr (σ₁ σ₂ : St F) (h : dropRuntime σ₁ = dropRuntime σ₂) (n : Nat) (ts : List (Token F)) :
    afterEdit σ₁ n ts = afterEdit σ₂ n ts := by
  rw [edit_forgets_runtime σ₁, edit_forgets_runtime σ₂, h]

/-- … by any later sequence of host calls. -/
theorem edit_future_congr (fuel : Nat) (cs : List Call) (σ₁ σ₂ : St F) (h : dropRuntime σ₁ = dropRuntime σ₂)
    (n : Nat) (ts : List (Token F)) :
    applyCalls fuel cs (afterEdit σ₁ n ts) = applyCalls fuel cs (afterEdit σ₂ n ts) := by
  rw [edit_congr σ₁ σ₂ h]

/-! ### the literal lines -/

theorem tok_return : tokenize (F := F) "RETURN".toList 0 = .ok [.kw .Return] := by rfl
theorem tok_next : tokenize (F := F) "NEXT I".toList 0 = .ok [.kw .Next, .symbol "I".toList] := by rfl
theorem tok_read : tokenize (F := F) "READ X".toList 0 = .ok [.kw .Read, .symbol "X".toList] := by rfl
theorem tok_printx : tokenize (F := F) "PRINT X".toList 0 = .ok [.kw .Print, .symbol "X".toList] := by rfl

/-- an error outcome of `start_evaluating` always leaves the interpreter idle -/
theorem start_err_idle {fuel : Nat} {line : Str} {σ σ' : St F} {e : TErr}
    (h : startEvaluating fuel line σ = .err e σ') : σ'.state = .idle := by
  simp only [startEvaluating, postprocess] at h
  cases hm : evaluateImpl fuel line σ with
  | ok a s => rw [hm] at h; cases h
  | err e0 s => rw [hm] at h; cases h; rfl

omit [NumOps F] in
theorem afterEdit_setImmediate (σ : St F) (n : Nat) (ts ts' : List (Token F)) :
    ((afterEdit σ n ts).setImmediate []).setImmediate ts' = { afterEdit σ n ts with imm := ts' } := by
  simp [afterEdit, St.setNumberedLine, St.setImmediate]

/-- an immediate (unnumbered, non-command) line typed right after an edit -/
theorem start_immediate_after_edit (fuel : Nat) (line : Str) (σ : St F) (n : Nat) (ts ts' : List (Token F))
    (hidle : σ.state = .idle)
    (hcmd : (commandWord line).bind Command.ofWord = none)
    (hn : parseLineNumber line = none)
    (ht : tokenize (F := F) line 0 = .ok ts') :
    startEvaluating fuel line (afterEdit σ n ts)
      = postprocess (runNextStatement fuel) { afterEdit σ n ts with imm := ts' } := by
  have hst : (afterEdit σ n ts).state = .idle := by rw [(edit_clears σ n ts).2.2.2.2.2.2.2.2.2]; exact hidle
  rw [← afterEdit_setImmediate]
  simp [startEvaluating, postprocess, evaluateImpl, hst, maybeProcessCommand, hcmd, hn, ht,
    bind, M.bindM, M.get, M.modify, setImmediate, pure, M.pureM]

/-- CONT typed after an edit -/
theorem cont_after_edit_host (fuel : Nat) (σ : St F) (n : Nat) (ts : List (Token F))
    (hidle : σ.state = .idle) :
    ∃ σ' e, startEvaluating fuel "CONT".toList (afterEdit σ n ts) = .err e σ' ∧
      e.err = .cannotContinue ∧ σ'.state = .idle :=
  cont_after_edit fuel _ _ (by rw [(edit_clears σ n ts).2.2.2.2.2.2.2.2.2]; exact hidle)
    (edit_clears σ n ts).1 (by decide)

/-- RETURN typed after an edit -/
theorem return_after_edit_host (fuel : Nat) (σ : St F) (n : Nat) (ts : List (Token F))
    (hidle : σ.state = .idle) :
    ∃ σ' e, startEvaluating fuel "RETURN".toList (afterEdit σ n ts) = .err e σ' ∧
      e.err = .returnWithoutGosub ∧ σ'.state = .idle := by
  rw [start_immediate_after_edit fuel _ σ n ts _ hidle (by decide) (by decide) tok_return]
  simp [postprocess, runNextStatement, hasNext, peek, tokens, tokensForLine, stmtBody, traceHere, dispatch,
    Abasic.next, advance, returnFromGosub,
    bind, M.bindM, M.get, M.modify, M.fail, pure, M.pureM, afterEdit, St.setNumberedLine, St.setImmediate]
  exact ⟨_, _, ⟨rfl, rfl⟩, by simp [St.populate], rfl⟩

/-- NEXT I typed after an edit (I a numeric variable) -/
theorem next_after_edit_host (fuel : Nat) (σ : St F) (n : Nat) (ts : List (Token F)) (x : F)
    (hidle : σ.state = .idle) (hv : getVar σ "I".toList = .num x) :
    ∃ σ' e, startEvaluating fuel "NEXT I".toList (afterEdit σ n ts) = .err e σ' ∧
      e.err = .nextWithoutFor ∧ σ'.state = .idle := by
  rw [start_immediate_after_edit fuel _ σ n ts _ hidle (by decide) (by decide) tok_next]
  simp [getVar] at hv
  simp [postprocess, runNextStatement, hasNext, peek, tokens, tokensForLine, stmtBody, traceHere, dispatch,
    Abasic.next, advance, nextStatement, endLoop, removeLoop, getVar, hv,
    bind, M.bindM, M.get, M.modify, M.fail, pure, M.pureM, afterEdit, St.setNumberedLine, St.setImmediate]
  exact ⟨_, _, ⟨rfl, rfl⟩, by simp [St.populate], rfl⟩

omit [NumOps F] in
theorem dataIter_next_empty (chunks : List (Loc × List (DataElement F)))
    (hall : ∀ c ∈ chunks, c.2 = []) (fuel ci : Nat) :
    (DataIter.next { chunks := chunks, ci := ci, ii := 0 } fuel).1 = none := by
  induction fuel generalizing ci with
  | zero => rfl
  | succ k ih =>
    unfold DataIter.next
    cases hc : chunks[ci]? with
    | none => rfl
    | some c =>
      obtain ⟨l, items⟩ := c
      have : items = [] := hall (l, items) (List.mem_of_getElem? hc)
      subst this
      simp only [List.getElem?_nil]
      exact ih (ci + 1)

/-- READ X typed after an edit: the first DATA item of the edited program. -/
theorem read_after_edit_host (fuel : Nat) (σ : St F) (n : Nat) (ts : List (Token F))
    (l : Loc) (v : F) (items : List (DataElement F)) (rest : List (Loc × List (DataElement F)))
    (hidle : σ.state = .idle)
    (hc : (afterEdit σ n ts).lines.dataChunks = some ((l, .num v :: items) :: rest)) :
    ∃ σ', startEvaluating fuel "READ X".toList (afterEdit σ n ts) = .ok () σ' ∧
      getVar σ' "X".toList = .num v ∧ σ'.vars = alSet "X".toList (.num v) σ.vars ∧
      σ'.data = some { chunks := (l, .num v :: items) :: rest, ci := 0, ii := 1 } ∧
      σ'.state = .idle := by
  rw [start_immediate_after_edit fuel _ σ n ts _ hidle (by decide) (by decide) tok_read]
  simp [afterEdit, St.setNumberedLine, St.setImmediate] at hc
  simp [postprocess, runNextStatement, hasNext, peek, tokens, tokensForLine, stmtBody, traceHere, dispatch,
    Abasic.next, advance, readStatement, lineBudget, readLoop, parseLValue, optionalArrayIndex, peekIsKw,
    nextDataElement, hc, DataIter.next, liftE, Value.coerceFromData, endsWithDollar, assignValue, setVar,
    Value.matchesName, accept, nextLine, returnToIdle, setImmediate,
    bind, M.bindM, M.get, M.set, M.modify, M.fail, pure, M.pureM, afterEdit, St.setNumberedLine, St.setImmediate]
  simp [getVar, alGet_alSet_here]

/-- READ X typed after an edit when the edited program has no DATA item. -/
theorem read_after_edit_host_nodata (fuel : Nat) (σ : St F) (n : Nat) (ts : List (Token F))
    (chunks : List (Loc × List (DataElement F)))
    (hidle : σ.state = .idle)
    (hc : (afterEdit σ n ts).lines.dataChunks = some chunks)
    (hnone : ∀ c ∈ chunks, c.2 = []) :
    ∃ σ' e, startEvaluating fuel "READ X".toList (afterEdit σ n ts) = .err e σ' ∧
      e.err = .outOfData ∧ σ'.vars = σ.vars ∧ σ'.state = .idle := by
  rw [start_immediate_after_edit fuel _ σ n ts _ hidle (by decide) (by decide) tok_read]
  simp [afterEdit, St.setNumberedLine, St.setImmediate] at hc
  have hnx := dataIter_next_empty chunks hnone (chunks.length + 1) 0
  simp [postprocess, runNextStatement, hasNext, peek, tokens, tokensForLine, stmtBody, traceHere, dispatch,
    Abasic.next, advance, readStatement, lineBudget, readLoop, parseLValue, optionalArrayIndex, peekIsKw,
    nextDataElement, hc, hnx,
    bind, M.bindM, M.get, M.set, M.modify, M.fail, pure, M.pureM, afterEdit, St.setNumberedLine, St.setImmediate]
  exact ⟨_, _, ⟨rfl, rfl⟩, by simp [St.populate], rfl, rfl⟩

/-! ### values are kept -/

/-- variables and arrays are untouched by the edit -/
theorem edit_keeps_values (σ : St F) (n : Nat) (ts : List (Token F)) :
    (∀ name, getVar (afterEdit σ n ts) name = getVar σ name) ∧
    (∀ name, alGet name (afterEdit σ n ts).arrays = alGet name σ.arrays) ∧
    (afterEdit σ n ts).vars = σ.vars ∧ (afterEdit σ n ts).arrays = σ.arrays := by
  simp [afterEdit, St.setNumberedLine, St.setImmediate, getVar]

/-- the warning `PRINT X` emits first when warnings are on and X was never assigned -/
def undeclaredX (σ : St F) : List Out :=
  if (σ.warnings && !alHas "X".toList σ.vars) = true
  then [Out.warning ("Use of undeclared variable '".toList ++ "X".toList ++ "'.".toList) none] else []

theorem unary_x (σ : St F) (n : Nat) (ts : List (Token F)) (k : Nat) (hnest : σ.nesting = 0) :
    unaryExpr (evalN k) (nest ({ afterEdit σ n ts with imm := [.kw .Print, .symbol "X".toList], loc := { idx := 1 }, state := .running, reads := σ.reads + 1 + 1 + 1 } : St F) (σ.nesting + 1))
      = .ok (getVar σ "X".toList)
          { afterEdit σ n ts with imm := [.kw .Print, .symbol "X".toList], loc := { idx := 2 }, state := .running, nesting := 1, reads := σ.reads + 7, out := undeclaredX σ ++ σ.out } := by
  cases hwv : σ.warnings <;> cases hav : alHas ['X'] σ.vars <;>
  simp [undeclaredX, nest, unaryExpr, tryNext, peek, tokens, tokensForLine, UnOp.ofToken, parenExpr, accept, Token.isKw,
    term, nextUnwrapped, Abasic.next, advance, peekIsKw, findInStack, warn, emit, hwv, hav, hnest, getVar,
    bind, M.bindM, M.get, M.set, M.modify, M.fail, pure, M.pureM, afterEdit, St.setNumberedLine, St.setImmediate]

theorem expr_x (σ : St F) (n : Nat) (ts : List (Token F)) (k : Nat) (hnest : σ.nesting = 0) :
    exprBody (evalN k) ({ afterEdit σ n ts with imm := [.kw .Print, .symbol "X".toList], loc := { idx := 1 }, state := .running, reads := σ.reads + 1 + 1 + 1 } : St F)
      = .ok (getVar σ "X".toList)
          { afterEdit σ n ts with imm := [.kw .Print, .symbol "X".toList], loc := { idx := 2 }, state := .running, reads := σ.reads + 13, out := undeclaredX σ ++ σ.out } := by
  have h := exprBody_of_unary (evalN k) _ _ _ [.kw .Print, .symbol "X".toList] []
    (by simp [afterEdit, St.setNumberedLine, St.setImmediate, hnest, Extracted.nestingLimit]) (unary_x σ n ts k hnest)
    (by simp [afterEdit, St.setNumberedLine, St.setImmediate, hnest]) ⟨rfl, rfl⟩ (ends_nil 6)
  rw [h]
  simp [nest, rd, afterEdit, St.setNumberedLine, St.setImmediate, hnest]

/-- PRINT X typed after an edit prints the value X had before the edit. -/
theorem print_after_edit_host (fuel : Nat) (σ : St F) (n : Nat) (ts : List (Token F))
    (hidle : σ.state = .idle) (hnest : σ.nesting = 0) (hfuel : 1 ≤ fuel) :
    ∃ σ', startEvaluating fuel "PRINT X".toList (afterEdit σ n ts) = .ok () σ' ∧
      σ'.out = .print (valueText (getVar σ "X".toList) ++ ['\n']) :: (undeclaredX σ ++ σ.out) ∧
      σ'.vars = σ.vars ∧ σ'.arrays = σ.arrays ∧ σ'.state = .idle := by
  rw [start_immediate_after_edit fuel _ σ n ts _ hidle (by decide) (by decide) tok_printx]
  obtain ⟨k, rfl⟩ : ∃ k, fuel = k + 1 := ⟨fuel - 1, by omega⟩
  have hx := expr_x σ n ts k hnest
  simp [afterEdit, St.setNumberedLine, St.setImmediate] at hx
  simp [postprocess, runNextStatement, hasNext, peek, tokens, tokensForLine, stmtBody, traceHere, dispatch,
    Abasic.next, advance, printStatement, lineBudget, printLoop, evalN, hx, Token.isKw, emit, nextLine, returnToIdle,
    setImmediate,
    bind, M.bindM, M.get, M.set, M.modify, M.fail, pure, M.pureM, afterEdit, St.setNumberedLine, St.setImmediate]

/-! ### a former function name is an array name -/

theorem nextToken_one (x : F) (hp : NumOps.parse (F := F) ['1'] = some x) (hf : NumOps.isFinite x = true) :
    nextToken (F := F) ['1', ')'] = .tok (.num x) [')'] := by
  have h1 : chompAnyKeyword ['1', ')'] = none := by decide
  have h2 : chompOneOrTwo ['1', ')'] = none := by decide
  have h3 : numLoop ['1', ')'] = (['1'], [')']) := by decide
  simp [nextToken, h1, h2, h3, hp, hf]

theorem tok_printfna (x : F) (hp : NumOps.parse (F := F) ['1'] = some x) (hf : NumOps.isFinite x = true) :
    tokenize (F := F) "PRINT FNA(1)".toList 0
      = .ok [.kw .Print, .symbol "FNA".toList, .kw .LeftParen, .num x, .kw .RightParen] := by
  have e1 : nextToken (F := F) "PRINT FNA(1)".toList = .tok (.kw .Print) " FNA(1)".toList := by rfl
  have e2 : nextToken (F := F) "FNA(1)".toList = .tok (.symbol "FNA".toList) "(1)".toList := by rfl
  have e3 : nextToken (F := F) "(1)".toList = .tok (.kw .LeftParen) "1)".toList := by rfl
  have e4 := nextToken_one x hp hf
  have e5 : nextToken (F := F) ")".toList = .tok (.kw .RightParen) [] := by rfl
  simp at e1 e2 e3 e5
  simp [tokenize, tokenizeRanges, dropBytes, tokLoop, skipWs, isBasicWs, isAsciiWs, e1, e2, e3, e4, e5]

def fnaToks (x : F) : List (Token F) := [.kw .Print, .symbol "FNA".toList, .kw .LeftParen, .num x, .kw .RightParen]

/-- the warning `PRINT FNA(1)` emits first when warnings are on (no array FNA exists) -/
def undeclaredFNA (σ : St F) : List Out :=
  if σ.warnings = true
  then [Out.warning ("Use of undeclared array '".toList ++ "FNA".toList ++ "'.".toList) none] else []

/-- the default-dimensioned numeric array -/
def defaultFNA (F : Type) [NumOps F] : ArrayV F := .nums [11] (List.replicate 11 NumOps.zero)

theorem unary_fna (σ : St F) (n : Nat) (ts : List (Token F)) (k : Nat) (x : F) (hnest : σ.nesting = 0)
    (hx : NumOps.toI64 x = 1) (hna : alGet "FNA".toList σ.arrays = none) :
    unaryExpr (evalN (k + 1)) (nest ({ afterEdit σ n ts with imm := fnaToks x, loc := { idx := 1 }, state := .running, reads := σ.reads + 1 + 1 + 1 } : St F) (σ.nesting + 1))
      = .ok (.num NumOps.zero)
          { afterEdit σ n ts with imm := fnaToks x, loc := { idx := 5 }, state := .running, nesting := 1, reads := σ.reads + 19, out := undeclaredFNA σ ++ σ.out, arrays := alSet "FNA".toList (defaultFNA F) σ.arrays } := by
  have hin := expr_num (evalN k) ({ afterEdit σ n ts with imm := fnaToks x, loc := { idx := 3 }, state := .running, nesting := 1, reads := σ.reads + 1 + 1 + 1 + 1 + 1 + 1 + 1 + 1 } : St F)
    [.kw .Print, .symbol "FNA".toList, .kw .LeftParen] [.kw .RightParen] x ⟨rfl, rfl⟩ (ends_rparen 6 []) (by simp [Extracted.nestingLimit])
  simp [fnaToks, mv, afterEdit, St.setNumberedLine, St.setImmediate] at hin
  simp [alGet] at hna
  cases hwv : σ.warnings <;> simp only [hwv] at hin <;>
  simp [fnaToks, undeclaredFNA, nest, unaryExpr, tryNext, peek, tokens, tokensForLine, UnOp.ofToken, parenExpr, accept, Token.isKw,
    term, nextUnwrapped, Abasic.next, advance, peekIsKw, functionCall, userFunctionCall, alGet, arrayIndex, expect, lineBudget,
    arrayIndexLoop, evalN, hin, hx, warnUndeclaredArray, alHas, hna, arrayGet, ensureArray, ArrayV.create, dimSizes, Extracted.defaultArraySize, Extracted.maxDimTotalElements, endsWithDollar, linearIndex, linearIndexAux, ArrayV.dims, defaultFNA, alGet_alSet_here, Extracted.builtinAbs, Extracted.builtinInt, Extracted.builtinRnd,
    findInStack, warn, emit, hwv, hnest, getVar,
    bind, M.bindM, M.get, M.set, M.modify, M.fail, pure, M.pureM, afterEdit, St.setNumberedLine, St.setImmediate]

theorem expr_fna (σ : St F) (n : Nat) (ts : List (Token F)) (k : Nat) (x : F) (hnest : σ.nesting = 0)
    (hx : NumOps.toI64 x = 1) (hna : alGet "FNA".toList σ.arrays = none) :
    exprBody (evalN (k + 1)) ({ afterEdit σ n ts with imm := fnaToks x, loc := { idx := 1 }, state := .running, reads := σ.reads + 1 + 1 + 1 } : St F)
      = .ok (.num NumOps.zero)
          { afterEdit σ n ts with imm := fnaToks x, loc := { idx := 5 }, state := .running, reads := σ.reads + 25, out := undeclaredFNA σ ++ σ.out, arrays := alSet "FNA".toList (defaultFNA F) σ.arrays } := by
  have h := exprBody_of_unary (evalN (k + 1)) _ _ _ (fnaToks x) []
    (by simp [afterEdit, St.setNumberedLine, St.setImmediate, hnest, Extracted.nestingLimit]) (unary_fna σ n ts k x hnest hx hna)
    (by simp [afterEdit, St.setNumberedLine, St.setImmediate, hnest]) ⟨rfl, rfl⟩ (ends_nil 6)
  rw [h]
  simp [nest, rd, afterEdit, St.setNumberedLine, St.setImmediate, hnest]

/-- PRINT FNA(1) typed after an edit: NOT a function call, whatever `σ.fns` held;
    the cell (1) of the default-dimensioned array FNA, i.e. zero. -/
theorem fn_after_edit_host (fuel : Nat) (σ : St F) (n : Nat) (ts : List (Token F)) (x : F)
    (hp : NumOps.parse (F := F) ['1'] = some x) (hf : NumOps.isFinite x = true) (hx : NumOps.toI64 x = 1)
    (hna : alGet "FNA".toList σ.arrays = none)
    (hidle : σ.state = .idle) (hnest : σ.nesting = 0) (hfuel : 2 ≤ fuel) :
    ∃ σ', startEvaluating fuel "PRINT FNA(1)".toList (afterEdit σ n ts) = .ok () σ' ∧
      σ'.out = .print (NumOps.render (NumOps.zero : F) ++ ['\n']) :: (undeclaredFNA σ ++ σ.out) ∧
      σ'.arrays = alSet "FNA".toList (defaultFNA F) σ.arrays ∧ σ'.stack = [] ∧ σ'.fns = [] ∧
      σ'.vars = σ.vars ∧ σ'.state = .idle := by
  rw [start_immediate_after_edit fuel _ σ n ts _ hidle (by decide) (by decide) (tok_printfna x hp hf)]
  obtain ⟨k, rfl⟩ : ∃ k, fuel = k + 2 := ⟨fuel - 2, by omega⟩
  have hx := expr_fna σ n ts k x hnest hx hna
  have he : (evalN (k + 2) : Evals F).expr = exprBody (evalN (k + 1)) := rfl
  simp [fnaToks, afterEdit, St.setNumberedLine, St.setImmediate] at hx
  simp [postprocess, runNextStatement, hasNext, peek, tokens, tokensForLine, stmtBody, traceHere, dispatch,
    Abasic.next, advance, printStatement, lineBudget, printLoop, he, hx, Token.isKw, emit, nextLine, returnToIdle,
    setImmediate, valueText,
    bind, M.bindM, M.get, M.set, M.modify, M.fail, pure, M.pureM, afterEdit, St.setNumberedLine, St.setImmediate]

theorem unary_fna_arr (σ : St F) (n : Nat) (ts : List (Token F)) (k : Nat) (x : F) (hnest : σ.nesting = 0)
    (hx : NumOps.toI64 x = 1) (dims : List Nat) (cells : List F) (i : Nat) (v : F)
    (ha : alGet "FNA".toList σ.arrays = some (.nums dims cells))
    (hi : linearIndex [1] dims = .ok i) (hv : cells[i]? = some v) :
    unaryExpr (evalN (k + 1)) (nest ({ afterEdit σ n ts with imm := fnaToks x, loc := { idx := 1 }, state := .running, reads := σ.reads + 1 + 1 + 1 } : St F) (σ.nesting + 1))
      = .ok (.num v)
          { afterEdit σ n ts with imm := fnaToks x, loc := { idx := 5 }, state := .running, nesting := 1, reads := σ.reads + 19 } := by
  have hin := expr_num (evalN k) ({ afterEdit σ n ts with imm := fnaToks x, loc := { idx := 3 }, state := .running, nesting := 1, reads := σ.reads + 1 + 1 + 1 + 1 + 1 + 1 + 1 + 1 } : St F)
    [.kw .Print, .symbol "FNA".toList, .kw .LeftParen] [.kw .RightParen] x ⟨rfl, rfl⟩ (ends_rparen 6 []) (by simp [Extracted.nestingLimit])
  simp [fnaToks, mv, afterEdit, St.setNumberedLine, St.setImmediate] at hin
  simp at ha
  simp [fnaToks, nest, unaryExpr, tryNext, peek, tokens, tokensForLine, UnOp.ofToken, parenExpr, accept, Token.isKw,
    term, nextUnwrapped, Abasic.next, advance, peekIsKw, functionCall, userFunctionCall, alGet, arrayIndex, expect, lineBudget,
    arrayIndexLoop, evalN, hin, hx, warnUndeclaredArray, alHas, ha, hi, hv, arrayGet, ensureArray, ArrayV.dims,
    Extracted.builtinAbs, Extracted.builtinInt, Extracted.builtinRnd,
    findInStack, warn, emit, hnest, getVar,
    bind, M.bindM, M.get, M.set, M.modify, M.fail, pure, M.pureM, afterEdit, St.setNumberedLine, St.setImmediate]

theorem expr_fna_arr (σ : St F) (n : Nat) (ts : List (Token F)) (k : Nat) (x : F) (hnest : σ.nesting = 0)
    (hx : NumOps.toI64 x = 1) (dims : List Nat) (cells : List F) (i : Nat) (v : F)
    (ha : alGet "FNA".toList σ.arrays = some (.nums dims cells))
    (hi : linearIndex [1] dims = .ok i) (hv : cells[i]? = some v) :
    exprBody (evalN (k + 1)) ({ afterEdit σ n ts with imm := fnaToks x, loc := { idx := 1 }, state := .running, reads := σ.reads + 1 + 1 + 1 } : St F)
      = .ok (.num v)
          { afterEdit σ n ts with imm := fnaToks x, loc := { idx := 5 }, state := .running, reads := σ.reads + 25 } := by
  have h := exprBody_of_unary (evalN (k + 1)) _ _ _ (fnaToks x) []
    (by simp [afterEdit, St.setNumberedLine, St.setImmediate, hnest, Extracted.nestingLimit])
    (unary_fna_arr σ n ts k x hnest hx dims cells i v ha hi hv)
    (by simp [afterEdit, St.setNumberedLine, St.setImmediate, hnest]) ⟨rfl, rfl⟩ (ends_nil 6)
  rw [h]
  simp [nest, rd, afterEdit, St.setNumberedLine, St.setImmediate, hnest]

/-- … and when an ARRAY called FNA exists (arrays survive the edit), `PRINT FNA(1)` prints its cell (1):
    still an array reference, never the function. -/
theorem fn_after_edit_host_array (fuel : Nat) (σ : St F) (n : Nat) (ts : List (Token F)) (x : F)
    (hp : NumOps.parse (F := F) ['1'] = some x) (hf : NumOps.isFinite x = true) (hx : NumOps.toI64 x = 1)
    (dims : List Nat) (cells : List F) (i : Nat) (v : F)
    (ha : alGet "FNA".toList σ.arrays = some (.nums dims cells))
    (hi : linearIndex [1] dims = .ok i) (hv : cells[i]? = some v)
    (hidle : σ.state = .idle) (hnest : σ.nesting = 0) (hfuel : 2 ≤ fuel) :
    ∃ σ', startEvaluating fuel "PRINT FNA(1)".toList (afterEdit σ n ts) = .ok () σ' ∧
      σ'.out = .print (NumOps.render v ++ ['\n']) :: σ.out ∧
      σ'.arrays = σ.arrays ∧ σ'.stack = [] ∧ σ'.fns = [] ∧ σ'.vars = σ.vars ∧ σ'.state = .idle := by
  rw [start_immediate_after_edit fuel _ σ n ts _ hidle (by decide) (by decide) (tok_printfna x hp hf)]
  obtain ⟨k, rfl⟩ : ∃ k, fuel = k + 2 := ⟨fuel - 2, by omega⟩
  have hx := expr_fna_arr σ n ts k x hnest hx dims cells i v ha hi hv
  have he : (evalN (k + 2) : Evals F).expr = exprBody (evalN (k + 1)) := rfl
  simp [fnaToks, afterEdit, St.setNumberedLine, St.setImmediate] at hx
  simp [postprocess, runNextStatement, hasNext, peek, tokens, tokensForLine, stmtBody, traceHere, dispatch,
    Abasic.next, advance, printStatement, lineBudget, printLoop, he, hx, Token.isKw, emit, nextLine, returnToIdle,
    setImmediate, valueText,
    bind, M.bindM, M.get, M.set, M.modify, M.fail, pure, M.pureM, afterEdit, St.setNumberedLine, St.setImmediate]

/-! ### READ in general: the first DATA item of the edited program -/

/-- the first DATA item of a program, in line order (empty DATA statements skipped) -/
def firstItem (chunks : List (Loc × List (DataElement F))) : Option (DataElement F) :=
  (chunks.flatMap (·.2)).head?

omit [NumOps F] in
theorem dataIter_next_first (chunks : List (Loc × List (DataElement F))) (fuel ci : Nat)
    (hf : chunks.length - ci + 1 ≤ fuel) :
    (DataIter.next { chunks := chunks, ci := ci, ii := 0 } fuel).1 = ((chunks.drop ci).flatMap (·.2)).head? := by
  induction fuel generalizing ci with
  | zero => omega
  | succ k ih =>
    unfold DataIter.next
    cases hc : chunks[ci]? with
    | none =>
      have : chunks.length ≤ ci := List.getElem?_eq_none_iff.1 hc
      simp [List.drop_eq_nil_of_le this]
    | some c =>
      obtain ⟨l, items⟩ := c
      have hlt : ci < chunks.length := (List.getElem?_eq_some_iff.1 hc).1
      have hd : chunks.drop ci = (l, items) :: chunks.drop (ci + 1) := by
        rw [List.drop_eq_getElem_cons hlt]
        congr 1
        exact (List.getElem?_eq_some_iff.1 hc).2
      cases items with
      | nil =>
        simp only [List.getElem?_nil]
        rw [ih (ci + 1) (by omega), hd]
        simp
      | cons e es =>
        simp [hd]

omit [NumOps F] in
theorem dataIter_first (chunks : List (Loc × List (DataElement F))) :
    (DataIter.next { chunks := chunks } (chunks.length + 1)).1 = firstItem chunks := by
  have := dataIter_next_first chunks (chunks.length + 1) 0 (by omega)
  simpa [firstItem] using this

/-- READ X after an edit, in general: X receives the first DATA item of the EDITED program when it is
    a number; no item: OUT OF DATA; a string item: the data type mismatch.  `σ.data` plays no role. -/
theorem read_after_edit_host_first (fuel : Nat) (σ : St F) (n : Nat) (ts : List (Token F))
    (chunks : List (Loc × List (DataElement F)))
    (hidle : σ.state = .idle)
    (hc : (afterEdit σ n ts).lines.dataChunks = some chunks) :
    (∀ v, firstItem chunks = some (.num v) →
      ∃ σ', startEvaluating fuel "READ X".toList (afterEdit σ n ts) = .ok () σ' ∧
        getVar σ' "X".toList = .num v ∧ σ'.vars = alSet "X".toList (.num v) σ.vars ∧ σ'.state = .idle) ∧
    (firstItem chunks = none →
      ∃ σ' e, startEvaluating fuel "READ X".toList (afterEdit σ n ts) = .err e σ' ∧
        e.err = .outOfData ∧ σ'.vars = σ.vars ∧ σ'.state = .idle) ∧
    (∀ t, firstItem chunks = some (.str t) →
      ∃ σ' e, startEvaluating fuel "READ X".toList (afterEdit σ n ts) = .err e σ' ∧
        e.err = .dataTypeMismatch ∧ σ'.vars = σ.vars ∧ σ'.state = .idle) := by
  rw [start_immediate_after_edit fuel _ σ n ts _ hidle (by decide) (by decide) tok_read]
  simp [afterEdit, St.setNumberedLine, St.setImmediate] at hc
  have hfirst := dataIter_first chunks
  refine ⟨fun v hv => ?_, fun hv => ?_, fun t hv => ?_⟩
  · rw [hv] at hfirst
    simp [postprocess, runNextStatement, hasNext, peek, tokens, tokensForLine, stmtBody, traceHere, dispatch,
      Abasic.next, advance, readStatement, lineBudget, readLoop, parseLValue, optionalArrayIndex, peekIsKw,
      nextDataElement, hc, hfirst, liftE, Value.coerceFromData, endsWithDollar, assignValue, setVar,
      Value.matchesName, accept, nextLine, returnToIdle, setImmediate,
      bind, M.bindM, M.get, M.set, M.modify, M.fail, pure, M.pureM, afterEdit, St.setNumberedLine, St.setImmediate]
    simp [getVar, alGet_alSet_here]
  · rw [hv] at hfirst
    simp [postprocess, runNextStatement, hasNext, peek, tokens, tokensForLine, stmtBody, traceHere, dispatch,
      Abasic.next, advance, readStatement, lineBudget, readLoop, parseLValue, optionalArrayIndex, peekIsKw,
      nextDataElement, hc, hfirst,
      bind, M.bindM, M.get, M.set, M.modify, M.fail, pure, M.pureM, afterEdit, St.setNumberedLine, St.setImmediate]
    exact ⟨_, _, ⟨rfl, rfl⟩, by simp [St.populate], rfl, rfl⟩
  · rw [hv] at hfirst
    simp [postprocess, runNextStatement, hasNext, peek, tokens, tokensForLine, stmtBody, traceHere, dispatch,
      Abasic.next, advance, readStatement, lineBudget, readLoop, parseLValue, optionalArrayIndex, peekIsKw,
      nextDataElement, hc, hfirst, liftE, Value.coerceFromData, endsWithDollar,
      bind, M.bindM, M.get, M.set, M.modify, M.fail, pure, M.pureM, afterEdit, St.setNumberedLine, St.setImmediate]
    exact ⟨_, _, ⟨rfl, rfl⟩, by simp [St.populate], rfl, rfl⟩

/-! ### the probes' side conditions hold in every state a host can reach -/

/-- In a reachable state the nesting counter is 0, the numeric name I holds a number, and the edited
    program has a DATA index (the two line indexes agree): the probe theorems apply with no
    hypothesis beyond "idle" (and, for `PRINT FNA(1)`, that no ARRAY is called FNA). -/
theorem probe_hypotheses_reachable (fuel' : Nat) (σ : St F) (hr : Reachable fuel' σ) (n : Nat) (ts : List (Token F)) :
    σ.nesting = 0 ∧ (∃ x, getVar σ "I".toList = .num x) ∧
    ∃ chunks, (afterEdit σ n ts).lines.dataChunks = some chunks := by
  refine ⟨nesting_zero_of_reachable fuel' σ hr, ?_, ?_⟩
  · have h := C16.reachable_getVar fuel' σ hr "I".toList
    cases hv : getVar σ "I".toList with
    | num x => exact ⟨x, rfl⟩
    | str t => rw [hv] at h; simp [Value.matchesName, endsWithDollar] at h
  · have hwf : C04.WF (afterEdit σ n ts).lines := by
      have : (afterEdit σ n ts).lines = σ.lines.set n ts := by
        simp [afterEdit, St.setNumberedLine, St.setImmediate]
      rw [this]
      exact C04.wf_set _ (wf_reachable fuel' σ hr).lines n ts
    obtain ⟨entries, he, _⟩ := C04.list_sorted _ hwf
    exact ⟨_, by unfold Lines.dataChunks; rw [he]; rfl⟩

/-- NEXT I after an edit in a reachable state: no typing hypothesis needed (C16's store invariant). -/
theorem next_after_edit_host_reachable (fuel fuel' : Nat) (σ : St F) (hr : Reachable fuel' σ)
    (n : Nat) (ts : List (Token F)) (hidle : σ.state = .idle) :
    ∃ σ' e, startEvaluating fuel "NEXT I".toList (afterEdit σ n ts) = .err e σ' ∧
      e.err = .nextWithoutFor ∧ σ'.state = .idle := by
  obtain ⟨_, ⟨x, hx⟩, _⟩ := probe_hypotheses_reachable fuel' σ hr n ts
  exact next_after_edit_host fuel σ n ts x hidle hx

/-! ### non-vacuity -/

/-- a session that stops (STOP) inside a GOSUB inside a FOR, after reading one of two DATA items,
    with a user function defined -/
def midRun : List Call :=
  [.start "10 DATA 5, 6".toList, .start "20 DEF FNA(X) = X + 41".toList, .start "30 FOR I = 1 TO 3".toList,
   .start "40 GOSUB 100".toList, .start "50 NEXT I".toList, .start "100 READ Z".toList, .start "110 STOP".toList,
   .start "RUN".toList, .cont, .cont, .cont, .cont, .cont]

def numOf : Value Toy → Option Int
  | .num x => some x
  | .str _ => none

def errOf {α : Type} : Res Toy α → Option Err
  | .ok _ _ => none
  | .err e _ => some e.err

/-- the first item of the first DATA statement, when it is a number -/
def firstNum : Option (List (Loc × List (DataElement Toy))) → Option Int
  | some ((_, .num v :: _) :: _) => some v
  | _ => none

theorem numOf_some {v : Value Toy} {x : Int} (h : numOf v = some x) : v = .num x := by
  cases v with
  | str s => cases h
  | num y => exact congrArg (Value.num (F := Toy)) (Option.some.inj h : @Eq Toy y x)

theorem firstNum_some {c : Option (List (Loc × List (DataElement Toy)))} {x : Int} (h : firstNum c = some x) :
    ∃ l items rest, c = some ((l, .num x :: items) :: rest) := by
  unfold firstNum at h
  split at h
  · rename_i l v items rest
    have hv : @Eq Toy v x := Option.some.inj h
    exact ⟨l, items, rest, by rw [hv]⟩
  · cases h

/-- what the kernel checks about the mid-run state: where it stands … -/
def midCheck1 (s : St Toy) :=
  ((s.state, s.nesting, s.bp, s.stack.length), (s.loops.map (·.sym), s.fns.map (·.1), s.data.map (fun d => (d.ci, d.ii))))

/-- … what it answers to the five probes (no edit) … -/
def midCheck2 (s : St Toy) :=
  ((errOf (startEvaluating 60 "RETURN".toList s), errOf (startEvaluating 60 "CONT".toList s),
    errOf (startEvaluating 60 "NEXT I".toList s)), ((startEvaluating 60 "PRINT FNA(1)".toList s).final.out.head?,
    numOf (getVar (startEvaluating 60 "READ X".toList s).final "X".toList)))

/-- … and the hypotheses of the probe theorems for the edit `5 REM` -/
def midCheck3 (s : St Toy) :=
  (numOf (getVar s "I".toList), (alGet "FNA".toList s.arrays).isNone, firstNum (afterEdit s 5 [.remark []]).lines.dataChunks)

set_option synthInstance.maxSize 1024 in
theorem midCheck1_eq : (runP (F := Toy) 60 midRun {}).map midCheck1 =
    some ((.idle, 0, some (110, 1), 1), (["I".toList], ["FNA".toList], some (0, 1))) := by
  decide +kernel

theorem midCheck2_eq : (runP (F := Toy) 60 midRun {}).map midCheck2 =
    some ((none, none, none), (some (.print "42\n".toList), some 6)) := by
  decide +kernel

theorem midCheck3_eq : (runP (F := Toy) 60 midRun {}).map midCheck3 = some (some 1, true, some 5) := by
  decide +kernel

theorem errOf_err {α : Type} {r : Res Toy α} {x : Err} (h : ∃ σ' e, r = .err e σ' ∧ e.err = x ∧ σ'.state = .idle) :
    errOf r = some x := by
  obtain ⟨σ', e, hr, he, _⟩ := h
  rw [hr, ← he]; rfl

/-- **Non-vacuity.**  A state a host really reaches (protocol respected): stopped by STOP at line 110,
    inside the GOSUB of line 40, inside the FOR of line 30, having read one of the two DATA items, with
    FNA defined.  Before the edit all five probes succeed (RETURN returns, CONT continues, NEXT I loops,
    FNA(1) is the function value 42, READ X reads the SECOND item 6); the hypotheses of the probe
    theorems hold for it, so after entering the line `5 REM` they answer RETURN WITHOUT GOSUB, CAN'T
    CONTINUE, NEXT WITHOUT FOR, `0` (an array cell) and the FIRST item 5. -/
theorem probes_nonvacuous : ∃ s : St Toy, ReachableP 60 s ∧
    (s.state = .idle ∧ s.nesting = 0 ∧ s.bp = some (110, 1) ∧ s.stack.length = 1 ∧
      s.loops.map (·.sym) = ["I".toList] ∧ s.fns.map (·.1) = ["FNA".toList] ∧
      s.data.map (fun d => (d.ci, d.ii)) = some (0, 1)) ∧
    (errOf (startEvaluating 60 "RETURN".toList s) = none ∧ errOf (startEvaluating 60 "CONT".toList s) = none ∧
      errOf (startEvaluating 60 "NEXT I".toList s) = none ∧
      (startEvaluating 60 "PRINT FNA(1)".toList s).final.out.head? = some (.print "42\n".toList) ∧
      getVar (startEvaluating 60 "READ X".toList s).final "X".toList = .num (6 : Int)) ∧
    startEvaluating 60 "5 REM".toList s = .ok () (afterEdit s 5 [.remark []]) ∧
    (errOf (startEvaluating 60 "RETURN".toList (afterEdit s 5 [.remark []])) = some .returnWithoutGosub ∧
      errOf (startEvaluating 60 "CONT".toList (afterEdit s 5 [.remark []])) = some .cannotContinue ∧
      errOf (startEvaluating 60 "NEXT I".toList (afterEdit s 5 [.remark []])) = some .nextWithoutFor ∧
      (∃ σ', startEvaluating 60 "PRINT FNA(1)".toList (afterEdit s 5 [.remark []]) = .ok () σ' ∧
        σ'.out.head? = some (.print "0\n".toList) ∧ σ'.state = .idle) ∧
      (∃ σ', startEvaluating 60 "READ X".toList (afterEdit s 5 [.remark []]) = .ok () σ' ∧
        getVar σ' "X".toList = .num (5 : Int) ∧ σ'.state = .idle)) := by
  have h1 := midCheck1_eq
  have h2 := midCheck2_eq
  have h3 := midCheck3_eq
  cases hr : runP (F := Toy) 60 midRun {} with
  | none => rw [hr] at h1; cases h1
  | some s =>
    rw [hr] at h1 h2 h3
    simp only [Option.map_some, Option.some.injEq, midCheck1, midCheck2, midCheck3, Prod.mk.injEq] at h1 h2 h3
    obtain ⟨⟨hidle, hnest, hbp, hstack⟩, hloops, hfns, hdata⟩ := h1
    obtain ⟨⟨o1, o2, o3⟩, o4, o5⟩ := h2
    obtain ⟨hI, hA, hD⟩ := h3
    have hI' := numOf_some hI
    have hA' : alGet "FNA".toList s.arrays = none := by simpa using hA
    obtain ⟨l, items, rest, hD'⟩ := firstNum_some hD
    refine ⟨s, runP_reachable 60 _ _ _ .init hr, ⟨hidle, hnest, hbp, hstack, hloops, hfns, hdata⟩,
      ⟨o1, o2, o3, o4, numOf_some o5⟩, ?_, ?_, ?_, ?_, ?_, ?_⟩
    · exact edit_result 60 _ s 5 1 _ hidle (by decide) (by decide) (by rfl)
    · exact errOf_err (return_after_edit_host 60 s 5 _ hidle)
    · exact errOf_err (cont_after_edit_host 60 s 5 _ hidle)
    · exact errOf_err (next_after_edit_host 60 s 5 _ (1 : Int) hidle hI')
    · obtain ⟨σ', h, hout, _, _, _, _, hst⟩ :=
        fn_after_edit_host 60 s 5 [.remark []] (1 : Int) (by rfl) (by rfl) (by rfl) hA' hidle hnest (by decide)
      exact ⟨σ', h, by rw [hout]; rfl, hst⟩
    · obtain ⟨σ', h, hx, _, _, hst⟩ := read_after_edit_host 60 s 5 [.remark []] l (5 : Int) items rest hidle hD'
      exact ⟨σ', h, hx, hst⟩

end Abasic.Props.C11
