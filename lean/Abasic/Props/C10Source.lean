import Abasic.Interp
/-
  C10 / C11 / C04 (tie to the source) — the command words.

  `Extracted.commands` is regenerated on every run from the string patterns of
  the `match` in `Interpreter::maybe_process_command` (interpreter.rs).  The
  model's `Command.ofWord` is written by hand; this theorem says it recognises
  exactly the words the source matches on, so a command added to, removed from
  or respelled in the source re-opens this proof.
-/
namespace Abasic.Props.C10
open Abasic

/-- The model recognises exactly the command words the source matches on. -/
theorem commands_from_source (w : Str) :
    (Command.ofWord w).isSome ↔ w ∈ Extracted.commands.map String.toList := by
  unfold Command.ofWord
  simp only [Extracted.commands, List.map, List.mem_cons, List.not_mem_nil, or_false]
  constructor
  · intro h
    repeat' split at h
    all_goals first | (simp_all; done) | skip
  · intro h
    rcases h with h | h | h | h | h | h | h | h <;> subst h <;> decide

/-- RUN, CONT and NEW — the words C10 and C11 speak about — are among them. -/
example : "RUN" ∈ Extracted.commands ∧ "CONT" ∈ Extracted.commands ∧ "NEW" ∈ Extracted.commands ∧ "LIST" ∈ Extracted.commands := by
  decide

end Abasic.Props.C10
