import Abasic.Props.C07
import Abasic.Props.C10
import Abasic.Proofs.NumberedInv
import Abasic.Proofs.InspectLemmas
import Abasic.Props.C03Stmt
/-
  C07 (continued).

  1. `run_numbered` — in every state of a run started by RUN the cursor, every
     return address and every FOR loop start is in a numbered line (or the run
     has ended), and no breakpoint is pending; hence the hypothesis `numbered`
     of `break_cont_run_transparent` holds throughout such a run:
     `break_cont_transparent_run`.
  2. `inspect_pure` — immediate PRINT statements at a breakpoint leave the
     interrupted program's state alone; `fn_call_err_restores_stack`.
  3. `assign_at_stop`.
-/
namespace Abasic.Props.C07
open Abasic Abasic.Proofs.NumInv

variable {F : Type} [NumOps F]

/-! ## 1. the run invariant -/

/-- every stack frame's return line and every loop's line is numbered -/
def Numbered (σ : St F) : Prop := numbered σ

/-- the run has ended (END, the end of the program, an error) or is stopped at a
    breakpoint (STOP, break-in): the cursor is on the emptied immediate line and
    the interpreter is idle -/
def Ended (σ : St F) : Prop := σ.loc.line = none ∧ σ.imm = [] ∧ σ.state = .idle

/-- the invariant of a run: return addresses and loops numbered, and either the
    cursor is in a numbered line with no breakpoint pending, or the run has ended -/
def RunInv (σ : St F) : Prop :=
  Numbered σ ∧ ((σ.loc.line.isSome = true ∧ σ.bp = none) ∨ Ended σ)

/-- the weaker invariant without the breakpoint clause: return addresses and
    loops numbered, and the cursor in a numbered line or the run ended -/
def NumberedAt (σ : St F) : Prop :=
  Numbered σ ∧ (σ.loc.line.isSome = true ∨ Ended σ)

omit [NumOps F] in
theorem runInv_iff (σ : St F) : RunInv σ ↔ G True σ := by
  unfold RunInv Numbered numbered Ended G Live Dead StackNum LoopsNum
  constructor
  · rintro ⟨⟨h1, h2⟩, (⟨h3, h4⟩ | ⟨h3, h4, h5⟩)⟩
    · exact Or.inl ⟨h3, fun _ => h4, h1, h2⟩
    · exact Or.inr ⟨⟨h3, h4, h1, h2⟩, h5⟩
  · rintro (⟨h3, h4, h1, h2⟩ | ⟨⟨h3, h4, h1, h2⟩, h5⟩)
    · exact ⟨⟨h1, h2⟩, Or.inl ⟨h3, h4 trivial⟩⟩
    · exact ⟨⟨h1, h2⟩, Or.inr ⟨h3, h4, h5⟩⟩

omit [NumOps F] in
theorem numberedAt_iff (σ : St F) : NumberedAt σ ↔ G False σ := by
  unfold NumberedAt Numbered numbered Ended G Live Dead StackNum LoopsNum
  constructor
  · rintro ⟨⟨h1, h2⟩, (h3 | ⟨h3, h4, h5⟩)⟩
    · exact Or.inl ⟨h3, fun h => h.elim, h1, h2⟩
    · exact Or.inr ⟨⟨h3, h4, h1, h2⟩, h5⟩
  · rintro (⟨h3, _, h1, h2⟩ | ⟨⟨h3, h4, h1, h2⟩, h5⟩)
    · exact ⟨⟨h1, h2⟩, Or.inl h3⟩
    · exact ⟨⟨h1, h2⟩, Or.inr ⟨h3, h4, h5⟩⟩

omit [NumOps F] in
theorem RunInv.numberedAt {σ : St F} (h : RunInv σ) : NumberedAt σ :=
  ⟨h.1, h.2.elim (fun x => Or.inl x.1) Or.inr⟩

/-- **numbered_preserved_at.**  `Numbered` is preserved by `continue_evaluating`
    and `provide_input` whenever the current location is numbered (or the run
    has ended) — and then the location is again numbered, or the run has ended.
    No assumption on the breakpoint. -/
theorem numbered_preserved_at (fuel : Nat) (σ : St F) (h : NumberedAt σ) :
    NumberedAt (continueEvaluating fuel σ).final ∧ ∀ text, NumberedAt (provideInput text σ).final :=
  ⟨(numberedAt_iff _).2 (g_continueEvaluating fuel σ ((numberedAt_iff _).1 h)),
   fun text => (numberedAt_iff _).2 (g_provideInput text σ ((numberedAt_iff _).1 h))⟩

/-- … in the form asked for: from `Numbered σ` and a numbered current location. -/
theorem numbered_cont (fuel : Nat) (σ : St F) (h : Numbered σ) (hloc : σ.loc.line.isSome = true) :
    Numbered (continueEvaluating fuel σ).final ∧ ∀ text, Numbered (provideInput text σ).final :=
  ⟨(numbered_preserved_at fuel σ ⟨h, Or.inl hloc⟩).1.1,
   fun text => ((numbered_preserved_at fuel σ ⟨h, Or.inl hloc⟩).2 text).1⟩

/-- The command word of the line `RUN` is RUN. -/
theorem run_word : (commandWord "RUN".toList).bind Command.ofWord = some .run := by decide

/-- RUN's reset: the first statement starts with an empty stack and no loops. -/
theorem run_reset_numbered (σ : St F) :
    (C10.resetForRun (σ.setImmediate [])).stack = [] ∧ (C10.resetForRun (σ.setImmediate [])).loops = [] ∧
    Numbered (C10.resetForRun (σ.setImmediate [])) := by
  have h := runFromFirst_empty ({ σ.setImmediate [] with input := none, vars := [], arrays := [] } : St F)
  refine ⟨h.1, h.2, ?_⟩
  unfold Numbered numbered C10.resetForRun
  rw [h.1, h.2]
  exact ⟨rfl, rfl⟩

/-- **numbered_after_run** (any spelling of the RUN command).  After the RUN
    turn of an idle interpreter — reset, then the first statement — the run
    invariant holds, whether the turn succeeded or failed. -/
theorem numbered_after_run' (fuel : Nat) (line : Str) (σ : St F) (hidle : σ.state = .idle)
    (hrun : (commandWord line).bind Command.ofWord = some .run) :
    RunInv (startEvaluating fuel line σ).final :=
  (runInv_iff _).2 (g_run fuel line σ hidle hrun)

/-- **numbered_after_run.** -/
theorem numbered_after_run (fuel : Nat) (σ : St F) (hidle : σ.state = .idle) :
    RunInv (startEvaluating fuel "RUN".toList σ).final :=
  numbered_after_run' fuel _ σ hidle run_word

/-- **numbered_preserved.**  `continue_evaluating` and `provide_input` keep the
    run invariant (on the success and on the error path): a GOSUB, function
    call or FOR executed at a numbered location pushes a numbered location,
    RETURN / NEXT / the end of a function call only go to stored — numbered —
    locations, and END / STOP / the end of the program leave the interpreter
    idle on the emptied immediate line. -/
theorem numbered_preserved (fuel : Nat) (σ : St F) (h : RunInv σ) :
    RunInv (continueEvaluating fuel σ).final ∧ ∀ text, RunInv (provideInput text σ).final :=
  ⟨(runInv_iff _).2 (g_continueEvaluating fuel σ ((runInv_iff _).1 h)),
   fun text => (runInv_iff _).2 (g_provideInput text σ ((runInv_iff _).1 h))⟩

/-- breaking in keeps the run invariant (the interpreter goes idle on the
    emptied immediate line; the stack and the loops stay) -/
theorem g_break {κ : Prop} (σ : St F) (h : G κ σ) : G κ (breakAtCurrentLocation σ).final := by
  refine Or.inr ⟨dead_progBreak (κ := κ) _ ?_, rfl⟩
  exact (g_j h).elim (fun x => Or.inl x) (fun x => Or.inr x)

/-- the CONT command keeps the run invariant: with a breakpoint pending the
    cursor goes back into the numbered line it was taken from; without one the
    command fails and the interpreter stays idle -/
theorem g_contCommand {κ : Prop} (fuel : Nat) (line : Str) (σ : St F)
    (hcmd : (commandWord line).bind Command.ofWord = some .cont) (h : G κ σ) :
    G κ (startEvaluating fuel line σ).final := by
  have hj := g_j h
  have hsn : StackNum σ := hj.elim (fun x => x.2.2.1) (fun x => x.2.2.1)
  have hln : LoopsNum σ := hj.elim (fun x => x.2.2.2) (fun x => x.2.2.2)
  unfold startEvaluating
  apply g_postprocess
  by_cases hidle : σ.state = .idle
  · cases hb : σ.bp with
    | some b =>
      obtain ⟨n, i⟩ := b
      rw [cont_command fuel line σ n i hidle hb hcmd]
      refine post_bind (rns_post fuel _ (Or.inl ⟨rfl, fun _ => rfl, hsn, hln⟩)) fun _ s hs => hs
    | none =>
      have he : evaluateImpl fuel line σ =
          .err { err := .cannotContinue } ((σ.setImmediate []).setImmediate []) := by
        have hne : (σ.state != .idle) = false := by simp [hidle]
        have hb' : ((σ.setImmediate []).setImmediate []).bp = none := hb
        simp only [evaluateImpl, bind, M.bindM, M.get, hne, Bool.false_eq_true, if_false, setImmediate,
          M.modify, maybeProcessCommand, hcmd, continueFromBreakpoint, hb', M.fail]
      rw [he]
      exact Or.inr (dead_setImmediate (κ := κ) _ (Or.inr (dead_setImmediate _ hj)))
  · have hne : (σ.state != .idle) = true := by simpa using hidle
    have he : evaluateImpl fuel line σ = .err { err := .panic "assertion failed: state == Idle" } σ := by
      simp only [evaluateImpl, bind, M.bindM, M.get, hne, if_true, M.rpanic]
    rw [he]
    exact hj

/-- the turns a host makes while a program runs: continue, answer an INPUT,
    break in, and the CONT command -/
inductive Turn where
  | cont
  | reply (text : Str)
  | brk
  | contCmd

def Turn.run (fuel : Nat) : Turn → M F Unit
  | .cont => continueEvaluating fuel
  | .reply text => provideInput text
  | .brk => breakAtCurrentLocation
  | .contCmd => startEvaluating fuel "CONT".toList

/-- the state after a sequence of turns (whether each returned `Ok` or `Err`) -/
def afterTurns (fuel : Nat) (ts : List Turn) (σ : St F) : St F :=
  ts.foldl (fun s t => (t.run fuel s).final) σ

theorem runInv_afterTurns (fuel : Nat) (ts : List Turn) (σ : St F) (h : RunInv σ) :
    RunInv (afterTurns fuel ts σ) := by
  induction ts generalizing σ with
  | nil => exact h
  | cons t ts ih =>
    refine ih _ ?_
    cases t with
    | cont => exact (numbered_preserved fuel σ h).1
    | reply text => exact (numbered_preserved fuel σ h).2 text
    | brk => exact (runInv_iff _).2 (g_break σ ((runInv_iff _).1 h))
    | contCmd => exact (runInv_iff _).2 (g_contCommand fuel _ σ cont_word ((runInv_iff _).1 h))

/-- **run_numbered.**  Every state reached from RUN by any number of
    `continue_evaluating` / `provide_input` turns — and break-ins and CONT
    commands — in any order, succeeding or failing, has numbered return
    addresses and loops, and a numbered cursor with no breakpoint pending — or
    the run has ended / is stopped at a breakpoint (idle on the emptied
    immediate line). -/
theorem run_numbered (fuel : Nat) (σ₀ : St F) (hidle : σ₀.state = .idle) (ts : List Turn) :
    RunInv (afterTurns fuel ts (startEvaluating fuel "RUN".toList σ₀).final) :=
  runInv_afterTurns fuel ts _ (numbered_after_run fuel σ₀ hidle)

omit [NumOps F] in
/-- a running interpreter that satisfies the run invariant is at a numbered
    location with no breakpoint pending -/
theorem runInv_running (σ : St F) (h : RunInv σ) (hrun : σ.state = .running) :
    ∃ n i, σ.loc = { line := some n, idx := i } ∧ σ.bp = none ∧ numbered σ := by
  obtain ⟨hn, (⟨hl, hb⟩ | ⟨_, _, hi⟩)⟩ := h
  · cases hloc : σ.loc with
    | mk line idx =>
      rw [hloc] at hl
      cases line with
      | none => cases hl
      | some n => exact ⟨n, idx, rfl, hb, hn⟩
  · rw [hrun] at hi; cases hi

/-- **break_cont_transparent_run.**  In a run started by RUN the hypotheses of
    `break_cont_run_transparent` hold at every turn boundary: for every idle
    `σ₀`, every sequence of turns after RUN, if the interpreter is still
    running then it is at a numbered location `(n, i)` with no breakpoint
    pending, and breaking in + CONT followed by `k` further turns has the same
    outcome as continuing undisturbed for the same number of turns — same
    result, same final state except the immediate line and the single BREAK
    record in the output queue. -/
theorem break_cont_transparent_run (fuel : Nat) (σ₀ : St F) (hidle : σ₀.state = .idle)
    (ts : List Turn) (k : Nat) :
    let σ := afterTurns fuel ts (startEvaluating fuel "RUN".toList σ₀).final
    σ.state = .running →
    ∃ n i, σ.loc = { line := some n, idx := i } ∧ σ.bp = none ∧
      sameModOut σ.out [.brk (some n)]
        ((do continueEvaluating fuel; contTurns fuel k) σ)
        ((do (do breakAtCurrentLocation; startEvaluating fuel "CONT".toList); contTurns fuel k) σ) := by
  intro σ hrun
  obtain ⟨n, i, hloc, hbp, hnum⟩ := runInv_running σ (run_numbered fuel σ₀ hidle ts) hrun
  exact ⟨n, i, hloc, hbp, break_cont_run_transparent fuel k σ n i hrun hloc hbp hnum⟩

/-- … and for the single interrupted turn. -/
theorem break_cont_transparent_run_turn (fuel : Nat) (σ₀ : St F) (hidle : σ₀.state = .idle)
    (ts : List Turn) :
    let σ := afterTurns fuel ts (startEvaluating fuel "RUN".toList σ₀).final
    σ.state = .running →
    ∃ n i, σ.loc = { line := some n, idx := i } ∧ σ.bp = none ∧
      sameModOut σ.out [.brk (some n)]
        (continueEvaluating fuel σ)
        ((do breakAtCurrentLocation; startEvaluating fuel "CONT".toList) σ) := by
  intro σ hrun
  obtain ⟨n, i, hloc, hbp, hnum⟩ := runInv_running σ (run_numbered fuel σ₀ hidle ts) hrun
  exact ⟨n, i, hloc, hbp, break_cont_transparent fuel σ n i hrun hloc hbp hnum⟩

/-- Non-vacuity: `10 FOR I = 0 TO 0 : :` — after the RUN turn the interpreter
    is still running, inside the loop. -/
example :
    let σ₀ : St Unit := { lines := { map := [(10, [.kw .For, .symbol ['I'], .kw .Equals, .num (), .kw .To, .num (),
                                                   .kw .Colon, .kw .Colon])], sorted := [10] } }
    σ₀.state = .idle ∧ (startEvaluating 5 "RUN".toList σ₀).final.state = .running ∧
      (startEvaluating 5 "RUN".toList σ₀).final.loops.length = 1 := by
  decide +kernel


/-! ## 2. inspecting at a breakpoint -/

section inspect
open Abasic.Proofs.XF Abasic.Proofs.Inspect Abasic.Hoare

/-- **expr_frame.**  Every expression evaluation — at every fuel, succeeding or
    failing, with user function calls, RND and array reads — leaves program
    lines, immediate line, the cursor's line, breakpoint, stack, loops, data
    cursor, functions, variables, pending reply, interpreter state and flags
    as they were, and changes the array table only by adding default arrays
    under new names (`RX`, Abasic/Proofs/ExprFrame.lean). -/
theorem expr_frame (n : Nat) (σ : St F) : RX σ ((evalN n).expr σ).final :=
  (rx_evalN_expr n).final σ

/-- **fn_call_err_restores_stack.**  A user function call that fails — in the
    argument list, at the stack cap, or inside the function body at any depth
    — leaves the GOSUB / function stack exactly as it found it, and the cursor
    in the line it was in (fix 61a7d08: the frame is popped on the error
    path). -/
theorem fn_call_err_restores_stack (n : Nat) (name : Str) (σ σ' : St F) (e : TErr)
    (h : userFunctionCall (evalN n) name σ = .err e σ') :
    σ'.stack = σ.stack ∧ σ'.loc.line = σ.loc.line := by
  have hr := (rx_userFunctionCall (evalN n) (rx_evalN_expr n) name).final σ
  rw [h] at hr
  exact ⟨hr.stack, hr.line⟩

/-- … the same for the call proper (frame pushed, body evaluated, frame
    popped): when the body fails the pushed frame is gone. -/
theorem fn_call_body_err_pops (n : Nat) (name : Str) (b : List (Str × Value F)) (σ σ' : St F) (e : TErr)
    (h : callBody (evalN n) name b σ = .err e σ') :
    σ'.stack = σ.stack ∧ σ'.loc.line = σ.loc.line := by
  have hr := (rx_callBody (evalN n) (rx_evalN_expr n) name b).final σ
  rw [h] at hr
  exact ⟨hr.stack, hr.line⟩

/-- … and on the success path. -/
theorem fn_call_ok_restores_stack (n : Nat) (name : Str) (σ σ' : St F) (v : Option (Value F))
    (h : userFunctionCall (evalN n) name σ = .ok v σ') :
    σ'.stack = σ.stack ∧ σ'.loc.line = σ.loc.line := by
  have hr := (rx_userFunctionCall (evalN n) (rx_evalN_expr n) name).final σ
  rw [h] at hr
  exact ⟨hr.stack, hr.line⟩

/-- **print_frame.**  One PRINT statement, with any expressions whatsoever,
    respects the expression frame `RX`. -/
theorem print_frame (n : Nat) (σ : St F) : RX σ (printStatement (evalN n) σ).final :=
  (rx_printStatement _ (rx_evalN_expr n)).final σ

/-- what the interrupted program can observe of an inspection (`IFrame`):
    breakpoint, stack, loops, data cursor, functions, variables and program
    lines unchanged; every array that existed unchanged, every new array a
    default array created by a read of an undeclared name -/
abbrev InspectFrame (σ σ' : St F) : Prop := IFrame σ σ'

theorem contTurns_inspect (fuel : Nat) (ts : List (Token F)) (hpl : PrintLine ts) :
    ∀ (k : Nat) (s : St F), After ts s →
      IFrame s (contTurns fuel k s).final ∧ After ts (contTurns fuel k s).final := by
  intro k
  induction k with
  | zero => intro s hs; exact ⟨IFrame.refl s, hs⟩
  | succ k ih =>
    intro s hs
    unfold contTurns
    rcases hs with hi | ⟨hr, ho, hsafe⟩
    · have : (s.state == .running) = false := by rw [hi]; rfl
      simp only [bind, M.bindM, M.get, this, Bool.false_eq_true, if_false]
      exact ⟨IFrame.refl s, Or.inl hi⟩
    · have hc : continueEvaluating fuel s = postprocess (runNextStatement fuel) s := by
        have hne : (s.state != .running) = false := by simp [hr]
        simp only [continueEvaluating, bind, M.bindM, M.get, hne, Bool.false_eq_true, if_false]
      have ht := inspect_turn_post fuel ts s ho hsafe hpl
      have hrun : (s.state == .running) = true := by rw [hr]; rfl
      show IFrame s ((M.get >>= fun s' => if (s'.state == .running) = true then
          (continueEvaluating fuel >>= fun _ => contTurns fuel k) else pure ()) s).final ∧ _
      simp only [bind, M.bindM, M.get, hrun, if_true]
      rw [hc]
      cases hres : postprocess (runNextStatement fuel) s with
      | err e s1 =>
        rw [hres] at ht
        exact ht
      | ok u s1 =>
        rw [hres] at ht
        have := ih s1 ht.2
        exact ⟨ht.1.trans this.1, this.2⟩

/-- **inspect_pure.**  An idle interpreter with a breakpoint pending.  The user
    enters an immediate line (not a command, no line number) whose tokens form
    PRINT statements separated by colons (`PrintLine`: the first token and every
    token after a `:` is PRINT, `?`, `:` or — a syntax error — ELSE); the
    expressions printed are ARBITRARY (user function calls that succeed or
    fail at any depth, RND, array reads …).  After the starting turn and any
    number `k` of further `continue_evaluating` turns — whether a turn returned
    an error or not — the breakpoint, the GOSUB / function stack, the FOR
    loops, the data cursor, the functions, the variables and the program lines
    are exactly what they were, every array that existed is unchanged, and the
    interpreter is idle again or still on that line in front of a further
    PRINT.

    The one thing an inspection CAN change: reading an element of an undeclared
    array creates the default array (`inspect_print_creates_array`), so
    `arrays` is only preserved up to such additions (`ArrExt`). -/
theorem inspect_pure (fuel k : Nat) (line : Str) (ts : List (Token F)) (σ : St F)
    (hidle : σ.state = .idle) (hbp : σ.bp.isSome = true)
    (hcmd : (commandWord line).bind Command.ofWord = none)
    (hnum : parseLineNumber line = none)
    (htok : tokenize (F := F) line 0 = .ok ts)
    (hpl : PrintLine ts) :
    InspectFrame σ ((do startEvaluating fuel line; contTurns fuel k) σ).final ∧
      After ts ((do startEvaluating fuel line; contTurns fuel k) σ).final := by
  have hstart : startEvaluating fuel line σ =
      postprocess (runNextStatement fuel) ((σ.setImmediate []).setImmediate ts) := by
    unfold startEvaluating postprocess
    rw [evaluateImpl_immediate fuel line ts σ hidle hcmd hnum htok]
  have ho : OnImm ts ((σ.setImmediate []).setImmediate ts) := ⟨rfl, rfl, hbp⟩
  have hf0 : IFrame σ ((σ.setImmediate []).setImmediate ts) := by
    refine ⟨rfl, rfl, ?_, rfl, rfl, rfl, rfl, ArrExt.refl _⟩
    cases hb : σ.bp with
    | none => rw [hb] at hbp; cases hbp
    | some b => simp [St.setImmediate, hb]
  have ht := inspect_turn_post fuel ts _ ho hpl.1 hpl
  rw [← hstart] at ht
  rw [final_bind]
  cases hres : startEvaluating fuel line σ with
  | err e s1 =>
    rw [hres] at ht
    exact ⟨hf0.trans ht.1, ht.2⟩
  | ok u s1 =>
    rw [hres] at ht
    have := contTurns_inspect fuel ts hpl k s1 ht.2
    exact ⟨(hf0.trans ht.1).trans this.1, this.2⟩

/-- The array clause cannot be strengthened to "arrays unchanged": `PRINT A(0)`
    at a breakpoint, `A` undeclared, leaves the default array `A` behind. -/
theorem inspect_print_creates_array :
    let σ : St Unit := { bp := some (10, 1),
                         imm := [.kw .Print, .symbol ['A'], .kw .LeftParen, .num (), .kw .RightParen] }
    alHas ['A'] σ.arrays = false ∧
    alHas ['A'] (stmtBody (evalN 5) σ).final.arrays = true := by
  decide +kernel

/-- Non-vacuity of `inspect_pure`: the line `PRINT "A" : ? X` at a breakpoint. -/
example : ∃ ts : List (Token Unit),
    (commandWord "PRINT \"A\" : ? X".toList).bind Command.ofWord = none ∧
    parseLineNumber "PRINT \"A\" : ? X".toList = none ∧
    tokenize (F := Unit) "PRINT \"A\" : ? X".toList 0 = .ok ts ∧ PrintLine ts := by
  refine ⟨[.kw .Print, .str ['A'], .kw .Colon, .kw .QuestionMark, .symbol ['X']], by decide +kernel,
    by decide +kernel, by rfl, ?_, ?_⟩
  · intro t ht
    simp only [List.getElem?_cons_zero, Option.some.injEq] at ht
    exact Or.inl ht.symm
  · intro p hp t ht
    rcases p with _ | _ | _ | _ | _ | p
    · simp at hp
    · simp at hp
    · simp at ht
      exact Or.inr (Or.inl ht.symm)
    · simp at hp
    · simp at hp
    · simp at hp

end inspect

/-! ## 3. assignment at STOP -/

section assign
open Abasic.Ref Abasic.ExprL Abasic.StmtL

/-- **STOP.**  One activation of the statement evaluator on a STOP in a
    numbered line `n`: the BREAK record, the breakpoint just behind the STOP,
    the immediate line emptied with the cursor on it, idle; the stack is kept. -/
theorem stop_stmt (fuel n : Nat) (σ : St F) (pre rest : List (Token F))
    (hAt : At σ pre (.kw .Stop :: rest)) (hline : σ.loc.line = some n) (htr : σ.tracing = false) :
    stmtBody (evalN fuel) σ = .ok ()
      { σ with state := .idle, out := .brk (some n) :: σ.out, bp := some (n, pre.length + 1),
               imm := [], loc := {}, reads := σ.reads + 1 } := by
  unfold stmtBody
  rw [bind_ok (traceHere_off htr)]
  unfold dispatch
  rw [bind_ok (next_eq hAt)]
  show breakAtCurrentLocation _ = _
  simp [breakAtCurrentLocation, M.modify, St.progBreak, St.setImmediate, mv, hline, hAt.2]

/-- **assign_at_stop** (statement level).  A program stopped by a STOP that
    stands at `pre` in line `n`; at the breakpoint the user enters `LET x = e`
    (the tokens `renderS (.letS x e)` are made the immediate line and one
    statement is executed); then CONT restores the cursor
    (`continueFromBreakpoint`; by `cont_command` the CONT turn is
    `runNextStatement` from the state it yields).  Compared with one activation
    of the statement evaluator on the program `L'` that has `LET x = e` in
    place of the STOP: when the right-hand side has the value `v` of the kind
    `x` asks for, both end with `x` set to `v` and every other variable, the
    arrays, the (empty) stack, loops, functions, data cursor, generator,
    pending reply and flags as they were; the cursor is just behind the STOP
    in the one and just behind the LET in the other.  The stopped-and-continued
    run differs in: the BREAK record in `out`, `state` (idle until the CONT
    turn sets it running), the read counter; the emptied immediate line is the
    same in both (the running program had none).

    Hypotheses: those of `let_refines` (the refinement layer covers expressions
    over numbers, strings, variables, operators, ABS, INT evaluated outside
    subroutines with warnings and tracing off), no breakpoint pending, and the
    program had an empty immediate line. -/
theorem assign_at_stop (x : Str) (e : Expr F) (fuel n : Nat) (σ : St F) (pre rest : List (Token F))
    (L' : Lines F)
    (hline : σ.lines.get n = some (pre ++ .kw .Stop :: rest))
    (hline' : L'.get n = some (pre ++ renderS (.letS x e) ++ rest))
    (hloc : σ.loc = { line := some n, idx := pre.length })
    (hbp : σ.bp = none) (himm : σ.imm = []) (hstack : σ.stack = [])
    (hw : σ.warnings = false) (htr : σ.tracing = false)
    (hnest : σ.nesting + sdepth (.letS x e) ≤ Extracted.nestingLimit) (hfuel : sdepth (.letS x e) ≤ fuel)
    (hrest : StmtEnd rest)
    (v : Value F) (hv : foldE (envOf σ.vars) e = .ok v) (hm : v.matchesName x = true) :
    ∃ σ₁ σ₂ σ₃ σB k₁ k₂,
      stmtBody (evalN fuel) σ = .ok () σ₁ ∧
      (do setImmediate (renderS (.letS x e)); stmtBody (evalN fuel)) σ₁ = .ok () σ₂ ∧
      continueFromBreakpoint σ₂ = .ok () σ₃ ∧
      stmtBody (evalN fuel) { σ with lines := L' } = .ok () σB ∧
      σ₃ = { σ with vars := alSet x v σ.vars, loc := { line := some n, idx := pre.length + 1 },
                    out := .brk (some n) :: σ.out, state := .idle, reads := k₁ } ∧
      σB = { σ with lines := L', vars := alSet x v σ.vars,
                    loc := { line := some n, idx := pre.length + (renderS (.letS x e)).length }, reads := k₂ } := by
  -- STOP
  have hAt : At σ pre (.kw .Stop :: rest) :=
    ⟨by unfold lineToks; rw [hloc]; exact hline, by rw [hloc]⟩
  have h1 := stop_stmt fuel n σ pre rest hAt (by rw [hloc]) htr
  -- the immediate LET
  let σ₁ : St F := { σ with state := .idle, out := .brk (some n) :: σ.out, bp := some (n, pre.length + 1),
                            imm := [], loc := {}, reads := σ.reads + 1 }
  let σ₁' : St F := σ₁.setImmediate (renderS (.letS x e))
  have hS : C03.SReady σ₁' [] (.letS x e) [] fuel :=
    { toks := by
        show tokens σ₁' = .ok ([] ++ renderS (.letS x e) ++ []) σ₁'
        rw [List.nil_append, List.append_nil]; rfl
      idx := rfl
      stack := by simp [σ₁', σ₁, St.setImmediate, hstack]
      warnings := hw
      tracing := htr
      nesting := hnest
      fuel := hfuel
      covered := trivial
      ends := Or.inl (fun t ht => by simp at ht) }
  obtain ⟨k₁, _, h2⟩ := (C03.let_refines x e fuel σ₁' [] [] hS).1 v hv hm
  -- in place
  have hS' : C03.SReady ({ σ with lines := L' } : St F) pre (.letS x e) rest fuel :=
    { toks := by
        apply tokens_eq
        unfold lineToks
        show (match σ.loc.line with | none => _ | some n => L'.get n) = _
        rw [hloc]; exact hline'
      idx := by show σ.loc.idx = _; rw [hloc]
      stack := hstack
      warnings := hw
      tracing := htr
      nesting := hnest
      fuel := hfuel
      covered := trivial
      ends := Or.inr ⟨rfl, hrest⟩ }
  obtain ⟨k₂, _, h3⟩ := (C03.let_refines x e fuel _ pre rest hS').1 v hv hm
  let σ₂ : St F := { σ₁' with vars := alSet x v σ₁'.vars,
                              loc := { σ₁'.loc with idx := ([] : List (Token F)).length + (renderS (.letS x e)).length },
                              reads := k₁ }
  let σ₃ : St F := { σ₂ with imm := [], loc := { line := some n, idx := pre.length + 1 }, bp := none }
  refine ⟨σ₁, σ₂, σ₃, _, k₁, k₂, h1, h2, cont_restores σ₂ n (pre.length + 1) ?_, h3, ?_, ?_⟩
  · simp [σ₂, σ₁', σ₁, St.setImmediate]
  · simp [σ₃, σ₂, σ₁', σ₁, St.setImmediate, hstack, himm, hbp]
  · simp [hloc]

/-- … and when the assignment fails (the right-hand side has a value of the
    wrong kind, or its evaluation fails with `err`), it fails with the same
    error at the breakpoint and in place. -/
theorem assign_at_stop_error (x : Str) (e : Expr F) (fuel n : Nat) (σ : St F) (pre rest : List (Token F))
    (L' : Lines F)
    (hline : σ.lines.get n = some (pre ++ .kw .Stop :: rest))
    (hline' : L'.get n = some (pre ++ renderS (.letS x e) ++ rest))
    (hloc : σ.loc = { line := some n, idx := pre.length })
    (hstack : σ.stack = [])
    (hw : σ.warnings = false) (htr : σ.tracing = false)
    (hnest : σ.nesting + sdepth (.letS x e) ≤ Extracted.nestingLimit) (hfuel : sdepth (.letS x e) ≤ fuel)
    (hrest : StmtEnd rest)
    (err : Err)
    (hv : foldE (envOf σ.vars) e = .error err ∨
      (err = .typeMismatch ∧ ∃ v, foldE (envOf σ.vars) e = .ok v ∧ v.matchesName x = false)) :
    ∃ σ₁ σ₂ σB,
      stmtBody (evalN fuel) σ = .ok () σ₁ ∧
      (do setImmediate (renderS (.letS x e)); stmtBody (evalN fuel)) σ₁ = .err { err := err } σ₂ ∧
      stmtBody (evalN fuel) { σ with lines := L' } = .err { err := err } σB := by
  have hAt : At σ pre (.kw .Stop :: rest) :=
    ⟨by unfold lineToks; rw [hloc]; exact hline, by rw [hloc]⟩
  have h1 := stop_stmt fuel n σ pre rest hAt (by rw [hloc]) htr
  let σ₁ : St F := { σ with state := .idle, out := .brk (some n) :: σ.out, bp := some (n, pre.length + 1),
                            imm := [], loc := {}, reads := σ.reads + 1 }
  let σ₁' : St F := σ₁.setImmediate (renderS (.letS x e))
  have hS : C03.SReady σ₁' [] (.letS x e) [] fuel :=
    { toks := by
        show tokens σ₁' = .ok ([] ++ renderS (.letS x e) ++ []) σ₁'
        rw [List.nil_append, List.append_nil]; rfl
      idx := rfl
      stack := by simp [σ₁', σ₁, St.setImmediate, hstack]
      warnings := hw
      tracing := htr
      nesting := hnest
      fuel := hfuel
      covered := trivial
      ends := Or.inl (fun t ht => by simp at ht) }
  have hS' : C03.SReady ({ σ with lines := L' } : St F) pre (.letS x e) rest fuel :=
    { toks := by
        apply tokens_eq
        unfold lineToks
        show (match σ.loc.line with | none => _ | some n => L'.get n) = _
        rw [hloc]; exact hline'
      idx := by show σ.loc.idx = _; rw [hloc]
      stack := hstack
      warnings := hw
      tracing := htr
      nesting := hnest
      fuel := hfuel
      covered := trivial
      ends := Or.inr ⟨rfl, hrest⟩ }
  have hA := C03.let_refines x e fuel σ₁' [] [] hS
  have hB := C03.let_refines x e fuel _ pre rest hS'
  rcases hv with hv | ⟨rfl, v, hv, hm⟩
  · obtain ⟨s2, h2, _⟩ := hA.2.2 err hv
    obtain ⟨s3, h3, _⟩ := hB.2.2 err hv
    exact ⟨σ₁, s2, s3, h1, h2, h3⟩
  · obtain ⟨s2, h2, _⟩ := hA.2.1 v hv hm
    obtain ⟨s3, h3, _⟩ := hB.2.1 v hv hm
    exact ⟨σ₁, s2, s3, h1, h2, h3⟩

/-! #### the same at the level of host turns -/

omit [NumOps F] in
theorem hasNext_eq {σ : St F} {ts : List (Token F)} (h : lineToks σ = some ts) :
    hasNext σ = .ok (ts[σ.loc.idx]?).isSome { σ with reads := σ.reads + 1 } := by
  unfold hasNext
  rw [bind_ok (Abasic.Proofs.Cursor.peek_eq σ ts (tokens_eq h))]
  rfl

/-- the second half of `run_next_statement` at the end of the immediate line:
    the interpreter returns to idle -/
theorem tailPart_imm_end {σ : St F} {ts : List (Token F)} (himm : σ.imm = ts) (hline : σ.loc.line = none)
    (hend : ts[σ.loc.idx]? = none) :
    tailPart σ = .ok () { ({ σ with reads := σ.reads + 1 } : St F).setImmediate [] with state := .idle } := by
  have hl : lineToks σ = some ts := by unfold lineToks; rw [hline, himm]
  unfold tailPart
  rw [bind_ok (hasNext_eq hl), hend]
  simp only [Option.isSome_none, Bool.not_false, if_true]
  have hnl : nextLine ({ σ with reads := σ.reads + 1 } : St F) = .ok false { σ with reads := σ.reads + 1 } := by
    simp only [nextLine, bind, M.bindM, M.get]
    rw [show ({ σ with reads := σ.reads + 1 } : St F).loc.line = none from hline]
    rfl
  rw [bind_ok hnl]
  simp only [Bool.not_false, if_true]
  rw [idle_tail]

/-- `run_next_statement` when there is a statement under the cursor and the
    statement succeeds -/
theorem runNextStatement_step (fuel : Nat) {σ s : St F} {ts : List (Token F)} {t : Token F}
    (h : lineToks σ = some ts) (ht : ts[σ.loc.idx]? = some t)
    (hs : stmtBody (evalN fuel) { σ with state := .running, reads := σ.reads + 1 } = .ok () s) :
    runNextStatement fuel σ = tailPart s := by
  rw [runNextStatement_eq]
  have hm : (M.modify fun s : St F => { s with state := .running }) σ = .ok () { σ with state := .running } := rfl
  rw [bind_ok hm]
  have hl : lineToks ({ σ with state := .running } : St F) = some ts := h
  have hh : headPart fuel ({ σ with state := .running } : St F) = .ok () s := by
    unfold headPart
    rw [bind_ok (hasNext_eq hl)]
    rw [show ({ σ with state := .running } : St F).loc.idx = σ.loc.idx from rfl, ht]
    simp only [Option.isSome_some, if_true]
    exact hs
  rw [bind_ok hh]

/-- **assign_at_stop_turns.**  The same comparison with the three host calls
    spelled out: the turn that executes the STOP (`continue_evaluating`), the
    immediate line `line` — any text that is not a command, has no line number
    and tokenises to `LET x = e` — entered at the idle prompt
    (`start_evaluating`), and `CONT` (`start_evaluating`), which is
    `run_next_statement` from `σ₃`.  `σ₃` and the state `σB` behind the LET in
    the program that has the LET in place of the STOP are as in
    `assign_at_stop`. -/
theorem assign_at_stop_turns (x : Str) (e : Expr F) (fuel n : Nat) (σ : St F) (pre rest : List (Token F))
    (L' : Lines F) (line : Str)
    (hline : σ.lines.get n = some (pre ++ .kw .Stop :: rest))
    (hline' : L'.get n = some (pre ++ renderS (.letS x e) ++ rest))
    (hloc : σ.loc = { line := some n, idx := pre.length })
    (hrun : σ.state = .running)
    (hbp : σ.bp = none) (himm : σ.imm = []) (hstack : σ.stack = [])
    (hw : σ.warnings = false) (htr : σ.tracing = false)
    (hnest : σ.nesting + sdepth (.letS x e) ≤ Extracted.nestingLimit) (hfuel : sdepth (.letS x e) ≤ fuel)
    (hrest : StmtEnd rest)
    (hcmd : (commandWord line).bind Command.ofWord = none)
    (hnum : parseLineNumber line = none)
    (htok : tokenize (F := F) line 0 = .ok (renderS (.letS x e)))
    (v : Value F) (hv : foldE (envOf σ.vars) e = .ok v) (hm : v.matchesName x = true) :
    ∃ σ₁ σ₂ σ₃ σB k₁ k₂,
      continueEvaluating fuel σ = .ok () σ₁ ∧ σ₁.state = .idle ∧
      startEvaluating fuel line σ₁ = .ok () σ₂ ∧ σ₂.state = .idle ∧
      startEvaluating fuel "CONT".toList σ₂ = postprocess (do runNextStatement fuel; pure ()) σ₃ ∧
      stmtBody (evalN fuel) { σ with lines := L' } = .ok () σB ∧
      σ₃ = { σ with vars := alSet x v σ.vars, loc := { line := some n, idx := pre.length + 1 },
                    out := .brk (some n) :: σ.out, state := .idle, reads := k₁ } ∧
      σB = { σ with lines := L', vars := alSet x v σ.vars,
                    loc := { line := some n, idx := pre.length + (renderS (.letS x e)).length }, reads := k₂ } := by
  -- turn 1: the STOP
  have hlt : lineToks σ = some (pre ++ .kw .Stop :: rest) := by unfold lineToks; rw [hloc]; exact hline
  have hidx : (pre ++ Token.kw (F := F) .Stop :: rest)[σ.loc.idx]? = some (.kw .Stop) := by
    rw [hloc]; simp
  let σ0 : St F := { σ with state := .running, reads := σ.reads + 1 }
  have hAt0 : At σ0 pre (.kw .Stop :: rest) := ⟨hlt, by show σ.loc.idx = _; rw [hloc]⟩
  have hstop := stop_stmt fuel n σ0 pre rest hAt0 (by show σ.loc.line = _; rw [hloc]) htr
  have hstep1 := runNextStatement_step fuel hlt hidx hstop
  let s1 : St F := { σ0 with state := .idle, out := .brk (some n) :: σ0.out, bp := some (n, pre.length + 1),
                             imm := [], loc := {}, reads := σ0.reads + 1 }
  have htail1 : tailPart s1 = .ok () { ({ s1 with reads := s1.reads + 1 } : St F).setImmediate [] with state := .idle } :=
    tailPart_imm_end (ts := []) rfl rfl rfl
  let σ₁ : St F := { ({ s1 with reads := s1.reads + 1 } : St F).setImmediate [] with state := .idle }
  have hT1 : continueEvaluating fuel σ = .ok () σ₁ := by
    have hne : (σ.state != .running) = false := by simp [hrun]
    simp only [continueEvaluating, bind, M.bindM, M.get, hne, Bool.false_eq_true, if_false, postprocess]
    rw [hstep1, htail1]
  -- turn 2: the immediate LET
  let ts : List (Token F) := renderS (.letS x e)
  let σi : St F := (σ₁.setImmediate []).setImmediate ts
  have hstart : startEvaluating fuel line σ₁ = postprocess (runNextStatement fuel) σi := by
    unfold startEvaluating postprocess
    rw [Abasic.Proofs.Inspect.evaluateImpl_immediate fuel line ts σ₁ rfl hcmd hnum htok]
  obtain ⟨kw, tl, hts⟩ := renderS_head (.letS x e)
  have hlti : lineToks σi = some ts := rfl
  have hidxi : ts[σi.loc.idx]? = some (.kw kw) := by
    show ts[0]? = _
    show (renderS (.letS x e))[0]? = _
    rw [hts]; rfl
  let σi' : St F := { σi with state := .running, reads := σi.reads + 1 }
  have hS : C03.SReady σi' [] (.letS x e) [] fuel :=
    { toks := by
        show tokens σi' = .ok ([] ++ renderS (.letS x e) ++ []) σi'
        rw [List.nil_append, List.append_nil]; rfl
      idx := rfl
      stack := by simp [σi', σi, σ₁, s1, σ0, St.setImmediate, hstack]
      warnings := hw
      tracing := htr
      nesting := hnest
      fuel := hfuel
      covered := trivial
      ends := Or.inl (fun t ht => by simp at ht) }
  obtain ⟨k₁, _, h2⟩ := (C03.let_refines x e fuel σi' [] [] hS).1 v hv hm
  have hstep2 := runNextStatement_step fuel hlti hidxi h2
  let s2 : St F := { σi' with vars := alSet x v σi'.vars,
                              loc := { σi'.loc with idx := ([] : List (Token F)).length + (renderS (.letS x e)).length },
                              reads := k₁ }
  have htail2 : tailPart s2 = .ok () { ({ s2 with reads := s2.reads + 1 } : St F).setImmediate [] with state := .idle } := by
    refine tailPart_imm_end (ts := ts) rfl rfl ?_
    show ts[([] : List (Token F)).length + (renderS (.letS x e)).length]? = none
    simp [ts]
  let σ₂ : St F := { ({ s2 with reads := s2.reads + 1 } : St F).setImmediate [] with state := .idle }
  have hT2 : startEvaluating fuel line σ₁ = .ok () σ₂ := by
    rw [hstart]
    unfold postprocess
    rw [hstep2, htail2]
  -- turn 3: CONT
  have hbp2 : σ₂.bp = some (n, pre.length + 1) := rfl
  have hT3 := cont_command fuel "CONT".toList σ₂ n (pre.length + 1) rfl hbp2 cont_word
  let σ₃ : St F := { σ₂ with imm := [], loc := { line := some n, idx := pre.length + 1 }, bp := none }
  -- in place
  have hS' : C03.SReady ({ σ with lines := L' } : St F) pre (.letS x e) rest fuel :=
    { toks := by
        apply tokens_eq
        unfold lineToks
        show (match σ.loc.line with | none => _ | some n => L'.get n) = _
        rw [hloc]; exact hline'
      idx := by show σ.loc.idx = _; rw [hloc]
      stack := hstack
      warnings := hw
      tracing := htr
      nesting := hnest
      fuel := hfuel
      covered := trivial
      ends := Or.inr ⟨rfl, hrest⟩ }
  obtain ⟨k₂, _, h3⟩ := (C03.let_refines x e fuel _ pre rest hS').1 v hv hm
  refine ⟨σ₁, σ₂, σ₃, _, k₁ + 1, k₂, hT1, rfl, hT2, rfl, ?_, h3, ?_, ?_⟩
  · unfold startEvaluating postprocess
    rw [hT3]
  · simp [σ₃, σ₂, s2, σi', σi, σ₁, s1, σ0, St.setImmediate, hstack, himm, hbp]
  · simp [hloc]

end assign

end Abasic.Props.C07
