import Abasic.Props.C02More
import Abasic.Proofs.Expr2Lemmas
/-
  C02 for the full expression language: `eval_render2`.

  `Ref.Expr2` (Abasic/Ref/Expr2.lean) extends the trees of `eval_render` with
  array cells `name(i₁, …, iₖ)`, calls of user-defined functions
  `fname(a₁, …, aₖ)` and `RND(x)`.  Evaluation now has effects — a read of an
  undeclared array creates it, RND advances the generator, a call pushes a
  frame, jumps to the line of the definition, evaluates the body there and
  comes back — so the spec `Ref.fold2` threads a reference environment
  `RefEnv` (globals, frames, arrays, generator state, function definitions).

  `eval_render2`: for every tree `e`, when the current line of `σ` holds
  `pre ++ render2 e ++ rest` with the cursor at `|pre|`, and `σ` is related to
  the environment `env` (`EnvOf`), the token-stream evaluator `orExpr (evalN n)`
  returns exactly what `fold2 k env e` returns:

    * the same value, in the state `σ` with the cursor after the rendering, a
      larger read counter, and the arrays / generator state of the new
      environment — nothing else changes (the frame of a call is popped, the
      cursor is back on the line of the call) — and that state is again
      related to the new environment;
    * or the same error (`TErr.err`), in a state with the nesting counter, the
      stack and the current line of `σ`.

  All three stages of the task are covered by the one theorem (the induction
  in Proofs/Expr2Lemmas.lean is over the spec fuel and the size of the tree):
    (A) RND and cells with pure subscripts, (B) nested cells and cells inside
    all operators, (C) user-function calls with the bodies on stored lines,
    recursion included (the stack cap 32 ends it: OUT OF MEMORY).

  Side conditions (`Ready2`), beyond those of `Ready`:
    * `Resolved`: an array is not named like a built-in (ABS / INT / RND) or like
      a defined function, a called function is not named like a built-in.  (A
      call of an undefined function IS an array read, in `fold2` as in the
      interpreter.)  Same for the bodies of the defined functions.
    * the nesting room and the evaluator fuel are measured by `depth2`, which
      counts parentheses, built-in arguments, subscripts, arguments and — through
      the function table, as deep as the spec fuel `k` — function bodies;
    * the spec fuel `k` must exceed the room left on the stack:
      `stackLimit < k + |stack|` (`k = 33` always does); then `fold2` never runs
      out of fuel (`fold2_fuel_ok`);
    * the arrays have as many cells as their dimensions say and the generator
      state is reduced (both hold in every reachable state: `WFσ`, `StoreOk`).
-/
namespace Abasic.Props.C02
open Abasic Abasic.Ref Abasic.ExprL Abasic.ExprL2

variable {F : Type} [NumOps F]

/-- The interpreter state `σ` realises the reference environment `env`:
    same globals, the frames are the variable frames of the stack (a GOSUB
    frame binds nothing), same arrays and generator state, and the function
    table of `σ` has exactly the functions of `env`, each stored with the same
    parameter list and pointing at a stored line whose tokens from the recorded
    index are the rendering of the body followed by something that ends an
    expression (`Follows`: nothing, `:`, …). -/
structure EnvOf (σ : St F) (env : RefEnv F) : Prop where
  vars : σ.vars = env.vars
  frames : σ.stack.map (·.vars) = env.frames
  arrays : σ.arrays = env.arrays
  rng : σ.rng = env.rng
  fns_undef : ∀ name, alGet name env.fns = none → alGet name σ.fns = none
  fns_def : ∀ name d, alGet name env.fns = some d →
    ∃ (fd : FnDef) (pre tail : List (Token F)),
      alGet name σ.fns = some fd ∧ fd.args = d.params ∧
      σ.lines.get fd.line = some (pre ++ render2 d.body ++ tail) ∧ fd.idx = pre.length ∧ Follows tail

omit [NumOps F] in
/-- the function-table clause of `EnvOf` in "tokens from the recorded index" form:
    the stored line, dropped up to the recorded index, is the rendering of the
    body followed by `tail` -/
theorem fn_entry_of_drop {σ : St F} {fd : FnDef} {toks body tail : List (Token F)}
    (hline : σ.lines.get fd.line = some toks) (hidx : fd.idx ≤ toks.length)
    (hdrop : toks.drop fd.idx = body ++ tail) :
    ∃ pre : List (Token F), σ.lines.get fd.line = some (pre ++ body ++ tail) ∧ fd.idx = pre.length := by
  refine ⟨toks.take fd.idx, ?_, ?_⟩
  · rw [hline, List.append_assoc, ← hdrop, List.take_append_drop]
  · rw [List.length_take]; omega

omit [NumOps F] in
theorem follows_of_ends {rest : List (Token F)} (h : Ends 6 rest) : Follows rest := by
  intro t ht
  obtain ⟨h0, h1⟩ := h t ht
  exact ⟨h0, h1 5 (by omega), h1 4 (by omega), h1 3 (by omega), h1 2 (by omega), h1 1 (by omega),
    h1 0 (by omega)⟩

/-- The hypotheses of `eval_render2`; `k` is the fuel of the spec, `n` that of the evaluator. -/
structure Ready2 (σ : St F) (env : RefEnv F) (pre : List (Token F)) (e : Expr2 F) (rest : List (Token F))
    (k n : Nat) : Prop where
  toks : tokens σ = .ok (pre ++ render2 e ++ rest) σ
  idx : σ.loc.idx = pre.length
  envOf : EnvOf σ env
  warnings : σ.warnings = false
  /-- every array has as many cells as its dimensions say (`WFσ.arrays`, `StoreOk.arrays_ok`) -/
  arrays_ok : ∀ p ∈ σ.arrays, p.2.cellCount = Props.C16.prod p.2.dims
  /-- the generator state is reduced (`WFσ.rng`) -/
  rng_ok : σ.rng < 2 ^ 33
  stack : σ.stack.length ≤ Extracted.stackLimit
  specFuel : Extracted.stackLimit < k + σ.stack.length
  resolved : Resolved env.fns e
  bodies : ∀ name d, alGet name env.fns = some d → Resolved env.fns d.body
  nesting : σ.nesting + depth2 env.fns k e < Extracted.nestingLimit
  fuel : depth2 env.fns k e + 1 ≤ n
  follows : Follows rest

omit [NumOps F] in
theorem Ready2.at {σ : St F} {env : RefEnv F} {pre rest : List (Token F)} {e : Expr2 F} {k n : Nat}
    (h : Ready2 σ env pre e rest k n) : At σ pre (render2 e ++ rest) :=
  ⟨by rw [lineToks_of_tokens h.toks, List.append_assoc], h.idx⟩

omit [NumOps F] in
theorem Ready2.rel {σ : St F} {env : RefEnv F} {pre rest : List (Token F)} {e : Expr2 F} {k n : Nat}
    (h : Ready2 σ env pre e rest k n) : Rel k σ env where
  vars := h.envOf.vars
  frames := h.envOf.frames
  arrays := h.envOf.arrays
  rng := h.envOf.rng
  warnings := h.warnings
  fns := ⟨h.envOf.fns_undef, fun name d hd => by
    obtain ⟨fd, p, tail, h1, h2, h3, h4, h5⟩ := h.envOf.fns_def name d hd
    exact ⟨fd, p, tail, h1, h2, by rw [h3, List.append_assoc], h4, ends_of_follows h5⟩⟩
  cap := h.stack
  fuel := h.specFuel
  arrs_ok := fun name a ha => by
    rw [← h.envOf.arrays] at ha
    exact h.arrays_ok (name, a) (Props.C16.alGet_mem _ _ _ ha)
  rng_ok := by
    rw [← h.envOf.rng, Props.C18.constants.1]; exact h.rng_ok
  bodies := h.bodies

omit [NumOps F] in
/-- from the proof-side relation back to `EnvOf` -/
theorem envOf_of_rel {k : Nat} {σ : St F} {env : RefEnv F} (h : Rel k σ env) : EnvOf σ env where
  vars := h.vars
  frames := h.frames
  arrays := h.arrays
  rng := h.rng
  fns_undef := h.fns.undef
  fns_def := fun name d hd => by
    obtain ⟨fd, p, tail, h1, h2, h3, h4, h5⟩ := h.fns.defd name d hd
    exact ⟨fd, p, tail, h1, h2, by rw [h3, List.append_assoc], h4, follows_of_ends h5⟩

omit [NumOps F] in
/-- the result state: `σ` with the cursor after the rendering, `r` reads, and the
    arrays and generator state of `env'` -/
theorem upd_eq {σ : St F} {pre : List (Token F)} (hidx : σ.loc.idx = pre.length) (len r : Nat)
    (env' : RefEnv F) :
    upd σ len r env' =
      { σ with loc := { σ.loc with idx := pre.length + len }, reads := r, arrays := env'.arrays, rng := env'.rng } := by
  simp only [upd, hidx]

/-- Where an error of an expression is located when the evaluator returns it:
    nowhere yet — the enclosing statement's `populate_error_location` then puts
    it on the token before the cursor of the final state, on the current line
    (`error_location`) — or, when it arose inside the body of a user function
    (the call has populated it already), on the line of a function definition. -/
def ErrLoc (σ : St F) (te : TErr) : Prop :=
  te.loc = none ∨
    ∃ (l : Loc) (name : Str) (fd : FnDef), te.loc = some l ∧ alGet name σ.fns = some fd ∧ l.line = some fd.line

omit [NumOps F] in
theorem Ready2.frames_le {σ : St F} {env : RefEnv F} {pre rest : List (Token F)} {e : Expr2 F} {k n : Nat}
    (h : Ready2 σ env pre e rest k n) :
    env.frames.length ≤ Extracted.stackLimit ∧ Extracted.stackLimit < k + env.frames.length := by
  have hl : env.frames.length = σ.stack.length := by rw [← h.envOf.frames, List.length_map]
  rw [hl]; exact ⟨h.stack, h.specFuel⟩

/-- Under the hypotheses of `eval_render2` the spec never runs out of fuel (the
    stack cap ends a runaway recursion first) and never reports the READ-only
    error DATA TYPE MISMATCH. -/
theorem fold2_fuel_ok (e : Expr2 F) (k n : Nat) (σ : St F) (env : RefEnv F) (pre rest : List (Token F))
    (h : Ready2 σ env pre e rest k n) (x : Err) (hx : fold2 k env e = .error x) :
    x ≠ .outOfFuel ∧ x ≠ .dataTypeMismatch :=
  fold2_good k e env x h.frames_le.1 h.frames_le.2 hx

omit [NumOps F] in
theorem errLoc_of_keeps {σ σ' : St F} {te : TErr} {x : Err}
    (hg : x ≠ .outOfFuel ∧ x ≠ .dataTypeMismatch) (hx : te.err = x) (hk : Keeps σ te σ') : ErrLoc σ te := by
  rcases hk.2.2.2 with h | h | h
  · exact Or.inl h
  · rw [hx] at h; exact absurd h hg.2
  · exact Or.inr h

/-- **`eval_render2`** — the token-stream evaluator on the rendering of a tree of
    the full expression language computes `fold2`. -/
theorem eval_render2 (e : Expr2 F) (k n : Nat) (σ : St F) (env : RefEnv F) (pre rest : List (Token F))
    (h : Ready2 σ env pre e rest k n) :
    (∀ v env', fold2 k env e = .ok (v, env') → ∃ r, σ.reads < r ∧
      orExpr (evalN n) σ =
        .ok v { σ with loc := { σ.loc with idx := pre.length + (render2 e).length }, reads := r, arrays := env'.arrays, rng := env'.rng } ∧
      EnvOf ({ σ with loc := { σ.loc with idx := pre.length + (render2 e).length }, reads := r, arrays := env'.arrays, rng := env'.rng } : St F) env') ∧
    (∀ x, fold2 k env e = .error x → ∃ te σ',
      orExpr (evalN n) σ = .err te σ' ∧ te.err = x ∧
      σ'.nesting = σ.nesting ∧ σ'.stack = σ.stack ∧ σ'.loc.line = σ.loc.line ∧ ErrLoc σ te) := by
  have hA := (main2 k e).1 n 6 σ env pre rest (by have := h.fuel; omega) (by have := h.nesting; omega)
    (by have := prec2_bounds e; unfold lv2; omega) (Nat.le_refl _) (ends_of_follows h.follows) h.at
    h.rel h.resolved
  rw [tier_six] at hA
  constructor
  · intro v env' hv
    rw [hv] at hA
    obtain ⟨r, hr, hσ⟩ := hA
    have hrel : Rel k (upd σ (render2 e).length r env') env' := h.rel.upd (fold2_step k e env env' v hv) _ _
    refine ⟨r, hr, ?_, ?_⟩
    · rw [hσ]; show Res.ok v (upd σ _ r env') = _; rw [upd_eq h.idx]
    · rw [← upd_eq h.idx]; exact envOf_of_rel hrel
  · intro x hx
    rw [hx] at hA
    obtain ⟨te, σ', h1, h2, hk⟩ := hA
    exact ⟨te, σ', h1, h2, hk.1, hk.2.1, hk.2.2.1,
      errLoc_of_keeps (fold2_fuel_ok e k n σ env pre rest h x hx) h2 hk⟩

/-- The same for the recursive entry `exprBody`, i.e. `(evalN (n+1)).expr`: one
    nesting level deeper, restored on exit on both paths. -/
theorem eval_render2_body (e : Expr2 F) (k n : Nat) (σ : St F) (env : RefEnv F) (pre rest : List (Token F))
    (h : Ready2 σ env pre e rest k n) :
    (∀ v env', fold2 k env e = .ok (v, env') → ∃ r, σ.reads < r ∧
      exprBody (evalN n) σ =
        .ok v { σ with loc := { σ.loc with idx := pre.length + (render2 e).length }, reads := r, arrays := env'.arrays, rng := env'.rng } ∧
      EnvOf ({ σ with loc := { σ.loc with idx := pre.length + (render2 e).length }, reads := r, arrays := env'.arrays, rng := env'.rng } : St F) env') ∧
    (∀ x, fold2 k env e = .error x → ∃ te σ',
      exprBody (evalN n) σ = .err te σ' ∧ te.err = x ∧
      σ'.nesting = σ.nesting ∧ σ'.stack = σ.stack ∧ σ'.loc.line = σ.loc.line ∧ ErrLoc σ te) := by
  have hA := expr_eq2 k e (main2 k e).1 (n + 1) σ env pre rest (by have := h.fuel; omega)
    (by have := h.nesting; omega) (ends_of_follows h.follows) h.at h.rel h.resolved
  have hb : (evalN (F := F) (n + 1)).expr = exprBody (evalN n) := rfl
  rw [hb] at hA
  constructor
  · intro v env' hv
    rw [hv] at hA
    obtain ⟨r, hr, hσ⟩ := hA
    have hrel : Rel k (upd σ (render2 e).length r env') env' := h.rel.upd (fold2_step k e env env' v hv) _ _
    refine ⟨r, hr, ?_, ?_⟩
    · rw [hσ]; show Res.ok v (upd σ _ r env') = _; rw [upd_eq h.idx]
    · rw [← upd_eq h.idx]; exact envOf_of_rel hrel
  · intro x hx
    rw [hx] at hA
    obtain ⟨te, σ', h1, h2, hk⟩ := hA
    exact ⟨te, σ', h1, h2, hk.1, hk.2.1, hk.2.2.1,
      errLoc_of_keeps (fold2_fuel_ok e k n σ env pre rest h x hx) h2 hk⟩

/-- what an evaluation leaves of the environment: globals, frames and function
    table (`Step` also says that arrays and generator state stay well-formed) -/
theorem fold2_same (k : Nat) (e : Expr2 F) (env env' : RefEnv F) (v : Value F)
    (h : fold2 k env e = .ok (v, env')) :
    env'.vars = env.vars ∧ env'.frames = env.frames ∧ env'.fns = env.fns :=
  let hs := fold2_step k e env env' v h
  ⟨hs.vars, hs.frames, hs.fns⟩

/-- outcomes agree (forgetting the state and the error location) -/
theorem eval_render2_outcome (e : Expr2 F) (k n : Nat) (σ : St F) (env : RefEnv F) (pre rest : List (Token F))
    (h : Ready2 σ env pre e rest k n) :
    (outcome (orExpr (evalN n) σ)).mapError TErr.err = (fold2 k env e).map Prod.fst := by
  obtain ⟨h1, h2⟩ := eval_render2 e k n σ env pre rest h
  cases hev : fold2 k env e with
  | ok p => obtain ⟨r, _, hr, _⟩ := h1 p.1 p.2 hev; rw [hr]; rfl
  | error x => obtain ⟨te, σ', hσ', hx, _⟩ := h2 x hev; rw [hσ', ← hx]; rfl

/-- **Error location.**  When the statement that contains the expression fails
    with the evaluator's error, `populate_error_location` (run in the final
    state `σ'`) reports a location that is either on the current line of `σ` —
    one token before the cursor of `σ'` — or on the line of a function
    definition (the error arose in that function's body). -/
theorem error_location (e : Expr2 F) (k n : Nat) (σ : St F) (env : RefEnv F) (pre rest : List (Token F))
    (h : Ready2 σ env pre e rest k n) (x : Err) (hx : fold2 k env e = .error x) :
    ∃ te σ', orExpr (evalN n) σ = .err te σ' ∧ te.err = x ∧
      ∃ l, (σ'.populate te).loc = some l ∧
        ((te.loc = none ∧ l = σ'.prevLoc ∧ l.line = σ.loc.line) ∨
         (te.loc = some l ∧ ∃ name fd, alGet name σ.fns = some fd ∧ l.line = some fd.line)) := by
  obtain ⟨te, σ', h1, h2, _, _, hline, hloc⟩ := (eval_render2 e k n σ env pre rest h).2 x hx
  have hg := fold2_fuel_ok e k n σ env pre rest h x hx
  refine ⟨te, σ', h1, h2, ?_⟩
  rcases hloc with hnone | ⟨l, name, fd, hl, hfd, hln⟩
  · refine ⟨σ'.prevLoc, ?_, Or.inl ⟨hnone, rfl, hline⟩⟩
    unfold St.populate
    rw [if_neg (by rw [hnone]; simp)]
    split
    · rename_i herr
      rw [h2] at herr
      exact absurd herr hg.2
    · rfl
  · refine ⟨l, ?_, Or.inr ⟨hl, name, fd, hfd, hln⟩⟩
    unfold St.populate
    rw [if_pos (by rw [hl]; rfl)]
    exact hl


/-! ### non-vacuity: the hypotheses are satisfiable, end to end

  1. `(A(x))` on a fresh interpreter: the default array is created and stays.
  2. `FNA(a)` with `10 DEF FNA(X) = X + b` stored: the cursor jumps to line 10
     and comes back; the value is `a + b`.
  3. `FNF(a)` with `10 DEF FNF(X) = FNF(X)`: the stack cap ends the recursion,
     OUT OF MEMORY in the spec and in the evaluator. -/

namespace Demo2
section Examples
set_option linter.unusedSectionVars false
set_option linter.unusedSimpArgs false


def emptyEnv (F : Type) : RefEnv F := { vars := [], frames := [], arrays := [], rng := 0, fns := [] }

theorem ready2_immediate (e : Expr2 F) (rest : List (Token F)) (n : Nat)
    (hres : Resolved ([] : List (Str × FnDefSpec F)) e)
    (hd : depth2 ([] : List (Str × FnDefSpec F)) 33 e < Extracted.nestingLimit)
    (hn : depth2 ([] : List (Str × FnDefSpec F)) 33 e + 1 ≤ n) (hrest : Follows rest) :
    Ready2 ({ imm := [] ++ render2 e ++ rest } : St F) (emptyEnv F) [] e rest 33 n where
  toks := rfl
  idx := rfl
  envOf := ⟨rfl, rfl, rfl, rfl, fun _ _ => rfl, fun _ _ h => by cases h⟩
  warnings := rfl
  arrays_ok := by intro p hp; cases hp
  rng_ok := by show (0 : Nat) < 2 ^ 33; decide
  stack := by show (0 : Nat) ≤ _; exact Nat.zero_le _
  specFuel := by show Extracted.stackLimit < 33 + 0; decide
  resolved := hres
  bodies := fun _ _ h => by cases h
  nesting := by show 0 + _ < _; rw [Nat.zero_add]; exact hd
  fuel := hn
  follows := hrest

def arrA (F : Type) [NumOps F] : List (Str × ArrayV F) :=
  [("A".toList, .nums [11] (List.replicate 11 NumOps.zero))]

theorem cell_fold (x : F) (hx : NumOps.toI64 x = 3) :
    fold2 33 (emptyEnv F) (.paren (.cell "A".toList [.num x]))
      = .ok (.num NumOps.zero, { emptyEnv F with arrays := arrA F }) := by
  simp [fold2, foldIdx, subscript, hx, readCell, emptyEnv, alGet, ArrayV.create, dimSizes, Extracted.defaultArraySize,
    Extracted.maxDimTotalElements, endsWithDollar, readAt, linearIndex, linearIndexAux, ArrayV.dims, alSet, arrA]

theorem cell_render (x : F) : render2 (.paren (.cell "A".toList [.num x]) : Expr2 F)
    = [.kw .LeftParen, .symbol "A".toList, .kw .LeftParen, .num x, .kw .RightParen, .kw .RightParen] := by
  simp [render2, renderArgs]

example (x : F) (hx : NumOps.toI64 x = 3) :
    ∃ r, orExpr (evalN defaultFuel) ({ imm := [.kw .LeftParen, .symbol "A".toList, .kw .LeftParen, .num x, .kw .RightParen, .kw .RightParen] } : St F)
      = .ok (.num NumOps.zero)
          ({ imm := [.kw .LeftParen, .symbol "A".toList, .kw .LeftParen, .num x, .kw .RightParen, .kw .RightParen],
             loc := { line := none, idx := 6 }, reads := r, arrays := arrA F } : St F) := by
  have hR := ready2_immediate (F := F) (.paren (.cell "A".toList [.num x])) [] defaultFuel
    (by simp only [Resolved, ResolvedL, alGet, and_true]; decide)
    (by simp [depth2, depthArgs, Extracted.nestingLimit])
    (by simp [depth2, depthArgs, defaultFuel, Extracted.nestingLimit]) follows_nil
  obtain ⟨r, _, hr, _⟩ := (eval_render2 _ 33 defaultFuel _ _ [] [] hR).1 _ _ (cell_fold x hx)
  refine ⟨r, ?_⟩
  rw [cell_render] at hr
  rw [show ([.kw .LeftParen, .symbol "A".toList, .kw .LeftParen, .num x, .kw .RightParen, .kw .RightParen] : List (Token F))
    = [] ++ [.kw .LeftParen, .symbol "A".toList, .kw .LeftParen, .num x, .kw .RightParen, .kw .RightParen] ++ [] from rfl]
  rw [hr]
  rfl


def fnaTokens (b : F) : List (Token F) :=
  [.kw .Def, .symbol "FNA".toList, .kw .LeftParen, .symbol "X".toList, .kw .RightParen, .kw .Equals,
   .symbol "X".toList, .kw .Plus, .num b]

def fnaState (a b : F) : St F :=
  { lines := { map := [(10, fnaTokens b)], sorted := [10] },
    fns := [("FNA".toList, { args := ["X".toList], line := 10, idx := 6 })],
    imm := [.symbol "FNA".toList, .kw .LeftParen, .num a, .kw .RightParen] }

def fnaEnv (b : F) : RefEnv F :=
  { vars := [], frames := [], arrays := [], rng := 0,
    fns := [("FNA".toList, { params := ["X".toList], body := .bin .add (.var "X".toList) (.num b) })] }

theorem body_render (b : F) : render2 (.bin .add (.var "X".toList) (.num b) : Expr2 F) = [.symbol "X".toList, .kw .Plus, .num b] := by
  simp [render2, renderAt2, Expr2.prec, BinOp.prec, BinOp.token]

theorem call_render (a : F) : render2 (.call "FNA".toList [.num a] : Expr2 F) = [.symbol "FNA".toList, .kw .LeftParen, .num a, .kw .RightParen] := by
  simp [render2, renderArgs]

theorem fold_ex (a b : F) : fold2 33 (fnaEnv b) (.call "FNA".toList [.num a]) = .ok (.num (NumOps.add a b), fnaEnv b) := by
  simp [fold2, bindArgs2, fnaEnv, alGet, Value.matchesName, endsWithDollar, alSet, RefEnv.lookup, lookupFrames, BinOp.eval, Extracted.stackLimit]

theorem alGet_single {β : Type} (key name : Str) (v w : β) (h : alGet name [(key, v)] = some w) : name = key ∧ w = v := by
  simp only [alGet] at h
  split at h
  · rename_i hk
    simp only [Option.some.injEq] at h
    exact ⟨(by simpa using hk : key = name).symm, h.symm⟩
  · cases h

theorem fna_ready (a b : F) :
    Ready2 (fnaState a b) (fnaEnv b) [] (.call "FNA".toList [.num a]) [] 33 defaultFuel where
  toks := by rw [call_render]; rfl
  idx := rfl
  envOf := {
    vars := rfl
    frames := rfl
    arrays := rfl
    rng := rfl
    fns_undef := by
      intro name h
      simp only [fnaEnv, fnaState, alGet] at h ⊢
      split at h
      · cases h
      · rename_i hk; simp only [hk]; rfl
    fns_def := by
      intro name d h
      obtain ⟨rfl, rfl⟩ := alGet_single _ _ _ _ h
      refine ⟨{ args := ["X".toList], line := 10, idx := 6 }, (fnaTokens b).take 6, [], ?_, rfl, ?_, rfl, follows_nil⟩
      · simp [fnaState, alGet]
      · rw [body_render]; rfl }
  warnings := rfl
  arrays_ok := by intro p hp; cases hp
  rng_ok := by show (0 : Nat) < 2 ^ 33; decide
  stack := by show (0 : Nat) ≤ _; exact Nat.zero_le _
  specFuel := by show Extracted.stackLimit < 33 + 0; decide
  resolved := by
    simp only [Resolved, ResolvedL, and_true]
    decide
  bodies := by
    intro name d h
    obtain ⟨rfl, rfl⟩ := alGet_single _ _ _ _ h
    simp only [Resolved, and_self]
  nesting := by
    show 0 + _ < _
    simp [depth2, depthArgs, fnaEnv, alGet, Expr2.prec, BinOp.prec, Extracted.nestingLimit]
  fuel := by
    simp [depth2, depthArgs, fnaEnv, alGet, Expr2.prec, BinOp.prec, defaultFuel, Extracted.nestingLimit]
  follows := follows_nil

example (a b : F) : ∃ r, orExpr (evalN defaultFuel) (fnaState a b)
    = .ok (.num (NumOps.add a b)) { fnaState a b with loc := { line := none, idx := 4 }, reads := r } := by
  obtain ⟨r, _, hr, _⟩ := (eval_render2 _ 33 defaultFuel _ _ [] [] (fna_ready a b)).1 _ _ (fold_ex a b)
  refine ⟨r, ?_⟩
  rw [hr, call_render]
  rfl


def loopBody (F : Type) : Expr2 F := .call "FNF".toList [.var "X".toList]
def loopFns (F : Type) : List (Str × FnDefSpec F) := [("FNF".toList, { params := ["X".toList], body := loopBody F })]
def loopEnv (a : F) (m : Nat) : RefEnv F :=
  { vars := [], frames := List.replicate m [("X".toList, .num a)], arrays := [], rng := 0, fns := loopFns F }

theorem loop_depth (j : Nat) : depth2 (loopFns F) j (loopBody F) = j + 1 := by
  induction j with
  | zero => simp [loopBody, depth2, depthArgs, loopFns, alGet]
  | succ j ih =>
    rw [loopBody, depth2_call_some (loopFns F) j _ _ ⟨["X".toList], loopBody F⟩ (by simp [loopFns, alGet])]
    simp only [ih]
    simp [depthArgs, depth2]

theorem loop_fold (a : F) (j : Nat) : ∀ m, 1 ≤ m → m + j = 32 →
    fold2 (j + 1) (loopEnv a m) (loopBody F) = .error .oomStack := by
  induction j with
  | zero =>
    intro m _ hm
    have : m = 32 := by omega
    subst this
    simp [loopBody, fold2, bindArgs2, loopEnv, loopFns, alGet, RefEnv.lookup, lookupFrames, List.replicate,
      Value.matchesName, endsWithDollar, Extracted.stackLimit]
  | succ j ih =>
    intro m hm1 hm
    have h := ih (m + 1) (by omega) (by omega)
    obtain ⟨m', rfl⟩ : ∃ m', m = m' + 1 := ⟨m - 1, by omega⟩
    have hne : ¬ (m' + 1 = 32) := by omega
    simp only [loopBody] at h ⊢
    rw [fold2]
    simp [bindArgs2, loopEnv, loopFns, alGet, RefEnv.lookup, lookupFrames, List.replicate,
      Value.matchesName, endsWithDollar, Extracted.stackLimit, fold2, alSet]
    simp [loopEnv, loopFns, loopBody, List.replicate] at h
    intro _
    simp [loopBody, h]

def loopState (a : F) : St F :=
  { lines := { map := [(10, [.kw .Def, .symbol "FNF".toList, .kw .LeftParen, .symbol "X".toList, .kw .RightParen,
                              .kw .Equals, .symbol "FNF".toList, .kw .LeftParen, .symbol "X".toList, .kw .RightParen])],
               sorted := [10] },
    fns := [("FNF".toList, { args := ["X".toList], line := 10, idx := 6 })],
    imm := [.symbol "FNF".toList, .kw .LeftParen, .num a, .kw .RightParen] }

def loopEnv0 (F : Type) : RefEnv F := { vars := [], frames := [], arrays := [], rng := 0, fns := loopFns F }

theorem loop_top (a : F) : fold2 33 (loopEnv0 F) (.call "FNF".toList [.num a]) = .error .oomStack := by
  have h := loop_fold a 31 1 (by omega) (by omega)
  rw [fold2]
  simp [bindArgs2, loopEnv0, loopFns, alGet, Value.matchesName, endsWithDollar, Extracted.stackLimit, fold2, alSet]
  simp [loopEnv, loopFns, List.replicate] at h
  rw [h]

theorem loop_depth_top (a : F) : depth2 (loopFns F) 33 (.call "FNF".toList [.num a]) = 34 := by
  rw [depth2_call_some (loopFns F) 32 _ _ ⟨["X".toList], loopBody F⟩ (by simp [loopFns, alGet])]
  show max _ (depth2 (loopFns F) 32 (loopBody F) + 1) = 34
  rw [loop_depth]
  simp [depthArgs, depth2]

theorem loop_ready (a : F) :
    Ready2 (loopState a) (loopEnv0 F) [] (.call "FNF".toList [.num a]) [] 33 defaultFuel where
  toks := by
    have : render2 (.call "FNF".toList [.num a] : Expr2 F)
        = [.symbol "FNF".toList, .kw .LeftParen, .num a, .kw .RightParen] := by simp [render2, renderArgs]
    rw [this]; rfl
  idx := rfl
  envOf := {
    vars := rfl
    frames := rfl
    arrays := rfl
    rng := rfl
    fns_undef := by
      intro name h
      simp only [loopEnv0, loopFns, loopState, alGet] at h ⊢
      split at h
      · cases h
      · rename_i hk; simp only [hk]; rfl
    fns_def := by
      intro name d h
      obtain ⟨rfl, rfl⟩ := alGet_single _ _ _ _ h
      refine ⟨{ args := ["X".toList], line := 10, idx := 6 },
        [.kw .Def, .symbol "FNF".toList, .kw .LeftParen, .symbol "X".toList, .kw .RightParen, .kw .Equals], [],
        ?_, rfl, ?_, rfl, follows_nil⟩
      · simp [loopState, alGet]
      · have : render2 (loopBody F) = [.symbol "FNF".toList, .kw .LeftParen, .symbol "X".toList, .kw .RightParen] := by
          simp [loopBody, render2, renderArgs]
        rw [this]; rfl }
  warnings := rfl
  arrays_ok := by intro p hp; cases hp
  rng_ok := by show (0 : Nat) < 2 ^ 33; decide
  stack := by show (0 : Nat) ≤ _; exact Nat.zero_le _
  specFuel := by show Extracted.stackLimit < 33 + 0; decide
  resolved := by
    simp only [Resolved, ResolvedL, and_true]
    decide
  bodies := by
    intro name d h
    obtain ⟨rfl, rfl⟩ := alGet_single _ _ _ _ h
    simp only [loopBody, Resolved, ResolvedL, and_true]
    decide
  nesting := by
    show 0 + depth2 (loopFns F) 33 _ < _
    rw [loop_depth_top]; decide
  fuel := by
    show depth2 (loopFns F) 33 _ + 1 ≤ _
    rw [loop_depth_top]; decide
  follows := follows_nil

/-- runaway recursion `DEF FNF(X) = FNF(X)`: OUT OF MEMORY from the stack cap, in the spec and in the evaluator -/
example (a : F) : ∃ te σ', orExpr (evalN defaultFuel) (loopState a) = .err te σ' ∧ te.err = .oomStack ∧
    σ'.stack = [] ∧ σ'.nesting = 0 := by
  obtain ⟨te, σ', h1, h2, h3, h4, _⟩ := (eval_render2 _ 33 defaultFuel _ _ [] [] (loop_ready a)).2 _ (loop_top a)
  exact ⟨te, σ', h1, h2, h4, h3⟩

end Examples
end Demo2

end Abasic.Props.C02
