import Abasic.Tokenizer
/-
  C12 — spacing and letter case outside literal text never change meaning.

  `Ins w r r'` says: `r'` is `r` with at most one extra character `w` inserted
  somewhere.  A matcher *respects* insertions of a blank when, run on related
  inputs, it gives the same token (or both fail) and related rests.  Proved
  here for the blank-skipping primitive, the keyword matcher and the keyword
  table (`chomp_keyword`, `chomp_any_keyword`), the operator matcher, plus
  insensitivity to a leading blank of the whole main loop and to letter case in
  keywords.  Continued in C12More.lean (number and identifier matchers, one
  `nextToken` step, the main loop and whole lines: a line whose tokens are all
  keywords / numbers / identifiers tokenizes to the same tokens with blanks
  inserted or removed anywhere), C12Case.lean (the same for letter case) and
  C12Fuel.lean (fuel is never the limit; the iff form).  Still open (see
  tools/props.py): lines that also contain string / REM / DATA tokens, where the
  edit must avoid the protected text, and blanks around DATA items.
-/
namespace Abasic.Props.C12
open Abasic

/-- `r'` is `r` with at most one `w` inserted. -/
inductive Ins (w : Char) : Str → Str → Prop
  | same (r : Str) : Ins w r r
  | here (r : Str) : Ins w r (w :: r)
  | cons (c : Char) {r r' : Str} : Ins w r r' → Ins w (c :: r) (c :: r')

/-- lifted to optional (token, rest) results -/
def InsRes {α : Type} (w : Char) : Option (α × Str) → Option (α × Str) → Prop
  | none, none => True
  | some (a, r), some (a', r') => a = a' ∧ Ins w r r'
  | _, _ => False

theorem skipWs_blank (w : Char) (cs : Str) (hw : isBasicWs w = true) : skipWs (w :: cs) = skipWs cs := by
  simp [skipWs, hw]

/-- Skipping blanks absorbs an inserted blank: the results are again related. -/
theorem skipWs_ins (w : Char) (hw : isBasicWs w = true) {r r' : Str} (h : Ins w r r') :
    Ins w (skipWs r) (skipWs r') := by
  induction h with
  | same r => exact Ins.same _
  | here r => rw [skipWs_blank w r hw]; exact Ins.same _
  | cons c h ih =>
    simp only [skipWs]
    split
    · exact ih
    · exact Ins.cons c h

/-- What follows the first non-blank character is related, and the character is the same. -/
theorem skipWs_ins_cases (w : Char) (hw : isBasicWs w = true) {r r' : Str} (h : Ins w r r') :
    (skipWs r = [] ∧ skipWs r' = []) ∨
    (∃ c t t', skipWs r = c :: t ∧ skipWs r' = c :: t' ∧ Ins w t t') := by
  have hs := skipWs_ins w hw h
  have nb : ∀ (x : Str) (c : Char) (t : Str), skipWs x = c :: t → isBasicWs c = false := by
    intro x
    induction x with
    | nil => intro c t h; simp [skipWs] at h
    | cons d ds ih =>
      intro c t h
      simp only [skipWs] at h
      split at h
      · exact ih c t h
      · rename_i hd
        have : d = c := by injection h
        subst this
        simpa using hd
  generalize ha : skipWs r = a at hs
  generalize hb : skipWs r' = b at hs
  cases hs with
  | same =>
    cases a with
    | nil => exact Or.inl ⟨rfl, rfl⟩
    | cons c t => exact Or.inr ⟨c, t, t, rfl, rfl, Ins.same _⟩
  | here =>
    -- impossible: the result of `skipWs` never starts with a blank
    have := nb r' w a hb
    rw [hw] at this
    exact absurd this (by simp)
  | cons c hrest => exact Or.inr ⟨c, _, _, rfl, rfl, hrest⟩

/-- lifted to optional rests -/
def InsOpt (w : Char) : Option Str → Option Str → Prop
  | none, none => True
  | some t, some t' => Ins w t t'
  | _, _ => False

/-- `chomp_keyword` respects inserted blanks, wherever they are. -/
theorem chompKeyword_ins (w : Char) (hw : isBasicWs w = true) (kw : Str) {r r' : Str} (h : Ins w r r') :
    InsOpt w (chompKeyword kw r) (chompKeyword kw r') := by
  induction kw generalizing r r' with
  | nil => simpa [chompKeyword, InsOpt] using h
  | cons k ks ih =>
    simp only [chompKeyword]
    rcases skipWs_ins_cases w hw h with ⟨h1, h2⟩ | ⟨c, t, t', h1, h2, h3⟩
    · rw [h1, h2]; trivial
    · rw [h1, h2]
      simp only
      by_cases hk : (asciiUpper c == k) = true
      · simp only [hk, ↓reduceIte]; exact ih h3
      · simp only [hk, Bool.false_eq_true, ↓reduceIte]; trivial

theorem chompKeywordTable_ins (w : Char) (hw : isBasicWs w = true) (tbl : List (String × Kw)) {r r' : Str}
    (h : Ins w r r') : InsRes w (chompKeywordTable tbl r) (chompKeywordTable tbl r') := by
  induction tbl with
  | nil => simp [chompKeywordTable, InsRes]
  | cons e rest ih =>
    obtain ⟨word, k⟩ := e
    simp only [chompKeywordTable]
    have := chompKeyword_ins w hw word.toList h
    cases h1 : chompKeyword word.toList r <;> cases h2 : chompKeyword word.toList r' <;> rw [h1, h2] at this
    · exact ih
    · exact this.elim
    · exact this.elim
    · exact ⟨rfl, this⟩

/-- `chomp_any_keyword` respects inserted blanks: `G O T O` is `GOTO`. -/
theorem chompAnyKeyword_ins (w : Char) (hw : isBasicWs w = true) {r r' : Str} (h : Ins w r r') :
    InsRes w (chompAnyKeyword r) (chompAnyKeyword r') :=
  chompKeywordTable_ins w hw _ h

/-- `chomp_one_or_two_characters` respects inserted blanks: `< =` is `<=`. -/
theorem chompOneOrTwo_ins (w : Char) (hw : isBasicWs w = true) {r r' : Str} (h : Ins w r r') :
    InsRes w (chompOneOrTwo r) (chompOneOrTwo r') := by
  unfold chompOneOrTwo
  rcases skipWs_ins_cases w hw h with ⟨h1, h2⟩ | ⟨c, t, t', h1, h2, h3⟩
  · rw [h1, h2]; trivial
  · rw [h1, h2]
    simp only
    cases Extracted.oneChar.lookup c with
    | none => trivial
    | some k =>
      simp only
      rcases skipWs_ins_cases w hw h3 with ⟨g1, g2⟩ | ⟨c2, u, u', g1, g2, g3⟩
      · rw [g1, g2]; exact ⟨rfl, h3⟩
      · rw [g1, g2]
        simp only
        cases lookupTwo Extracted.twoChar k c2 with
        | none => exact ⟨rfl, h3⟩
        | some k2 => exact ⟨rfl, g3⟩

/-- Two texts that differ only in the case of ASCII letters. -/
inductive CaseEq : Str → Str → Prop
  | nil : CaseEq [] []
  | cons {c d : Char} {r r' : Str} : asciiUpper c = asciiUpper d → isBasicWs c = isBasicWs d →
      CaseEq r r' → CaseEq (c :: r) (d :: r')

def CaseEqOpt : Option Str → Option Str → Prop
  | none, none => True
  | some t, some t' => CaseEq t t'
  | _, _ => False

theorem skipWs_caseEq {r r' : Str} (h : CaseEq r r') : CaseEq (skipWs r) (skipWs r') := by
  induction h with
  | nil => exact CaseEq.nil
  | cons h1 h2 h3 ih =>
    simp only [skipWs, h2]
    split
    · exact ih
    · exact CaseEq.cons h1 h2 h3

/-- Letter case: the keyword matcher only ever looks at `asciiUpper c`, so
    `print`, `Print` and `PRINT` match alike, and what is left is again equal up to case. -/
theorem chompKeyword_caseEq (kw : Str) {r r' : Str} (h : CaseEq r r') :
    CaseEqOpt (chompKeyword kw r) (chompKeyword kw r') := by
  induction kw generalizing r r' with
  | nil => simpa [chompKeyword, CaseEqOpt] using h
  | cons k ks ih =>
    simp only [chompKeyword]
    have hs := skipWs_caseEq h
    generalize skipWs r = a at hs
    generalize skipWs r' = b at hs
    cases hs with
    | nil => trivial
    | cons h1 h2 h3 =>
      simp only [h1]
      split
      · exact ih h3
      · trivial

variable {F : Type} [NumOps F]

/-- A blank before the statement text changes no token: the main loop only sees
    what follows the blanks. -/
theorem tokLoop_leading_blank (fuel : Nat) (w : Char) (cs : Str) (idx : Nat) (acc : List (RangedToken F))
    (hw : isBasicWs w = true) :
    ((tokLoop fuel (w :: cs) idx acc).1.map (·.1), (tokLoop fuel (w :: cs) idx acc).2.isSome) =
    ((tokLoop fuel cs (idx + w.utf8Size) acc).1.map (·.1), (tokLoop fuel cs (idx + w.utf8Size) acc).2.isSome) := by
  cases fuel with
  | zero => simp [tokLoop]
  | succ fuel =>
    unfold tokLoop
    simp only [skipWs_blank w cs hw]
    have hlen : len8 (w :: cs) - len8 (skipWs cs) = w.utf8Size + (len8 cs - len8 (skipWs cs)) := by
      obtain ⟨pre, hpre, _⟩ : ∃ pre, cs = pre ++ skipWs cs ∧ True := by
        induction cs with
        | nil => exact ⟨[], rfl, trivial⟩
        | cons c cs ih =>
          simp only [skipWs]
          split
          · obtain ⟨pre, h1, _⟩ := ih
            exact ⟨c :: pre, by rw [List.cons_append, ← h1], trivial⟩
          · exact ⟨[], rfl, trivial⟩
      have happ : ∀ a b : Str, len8 (a ++ b) = len8 a + len8 b := by
        intro a b; induction a with
        | nil => simp [len8]
        | cons x xs ih => simp [len8, ih]; omega
      have : len8 cs = len8 pre + len8 (skipWs cs) := by
        conv => lhs; rw [hpre]
        exact happ _ _
      simp only [len8]
      omega
    rw [hlen]
    have : idx + (w.utf8Size + (len8 cs - len8 (skipWs cs))) = idx + w.utf8Size + (len8 cs - len8 (skipWs cs)) := by omega
    rw [this]

/-- Non-vacuity: `G O T O` and `goto` match the keyword GOTO like `GOTO` does. -/
example : (chompKeyword "GOTO".toList "G O T O 10".toList).isSome = true ∧
          (chompKeyword "GOTO".toList "goto10".toList).isSome = true ∧
          Ins ' ' "GOTO".toList "GO TO".toList := by
  refine ⟨by decide, by decide, ?_⟩
  exact Ins.cons 'G' (Ins.cons 'O' (Ins.here _))

end Abasic.Props.C12
