import Abasic.Props.C06Loops
import Abasic.Props.C14More
/-
  C06, checked examples about user-defined functions (DEF).

  C06: "a program on which the static analyzer reports no error never fails at run time with
  TYPE MISMATCH, a syntax error or UNDEFINED STATEMENT", under the side condition "function
  definitions are each unique and executed before any use".

  The analyzer walks the lines in TEXTUAL order and treats `NAME(` as a user function only if a
  `DEF NAME(` has already been seen (its `fns` table), otherwise as an array element; the interpreter
  takes the same decision at RUN time with the run-time `fns` table, i.e. in EXECUTION order.  The
  examples below are concrete programs, given as SOURCE TEXT, analyzed by the real entry point
  `analyzeFile` and run by the real host loop (`startEvaluating "RUN"` then `continueEvaluating`,
  packaged as `C03.runTurns`), all by kernel evaluation (`decide +kernel`):

  * E1  a clean program with a two-parameter DEF (number and string) and an array read in a FOR loop:
        analyzer silent, run finishes without error;
  * E2  call before definition: analyzer silent, no run-time error — `FNA(1)` is an ARRAY cell;
  * E3  call before definition + GOTO back: analyzer silent, the run fails with TYPE MISMATCH;
  * E3' the same lines in the other textual order: the analyzer does report that TYPE MISMATCH;
  * E4  redefinition with another arity + GOTO back: analyzer silent, the run fails with a SYNTAX ERROR;
  * E5  each function defined once and before it is called, but NAMED in a body before its own
        definition: analyzer silent, the run fails with TYPE MISMATCH inside the body.

  E3, E4, E5 show that the side condition of C06 is necessary and how it must be read.

  Carrier: the natural numbers with decimal numerals (`C14.natOps`: real `+`, `<=`, decimal
  `parse` / `render`), so that numerals tokenize from text and `FOR I = 0 TO 0` terminates.
-/
namespace Abasic.Props.C06
open Abasic

/-! ### helpers (generic in the carrier) -/

section Generic
variable {F : Type} [NumOps F]

/-- the error of an outcome, if any -/
def errOfR {α : Type} : Res F α → Option TErr
  | .ok _ _ => none
  | .err e _ => some e

/-- the state an outcome ends in -/
def finalOf {α : Type} : Res F α → St F
  | .ok _ s => s
  | .err _ s => s

/-- the error diagnostics of a message list (file line, error), in order -/
def errDiags : List Diag → List (Nat × TErr)
  | [] => []
  | .error f e :: ds => (f, e) :: errDiags ds
  | .warning _ _ _ :: ds => errDiags ds

theorem errDiags_nil {ds : List Diag} (h : errDiags ds = []) : ∀ f e, Diag.error f e ∉ ds := by
  induction ds with
  | nil => intro f e hm; cases hm
  | cons d ds ih =>
    cases d with
    | warning a b c =>
      intro f e hm
      rcases List.mem_cons.mp hm with h1 | h2
      · cases h1
      · exact ih (by simpa [errDiags] using h) f e h2
    | error f' e' => simp [errDiags] at h

/-- "the analyzer is silent": it did not panic and produced no error diagnostic (warnings such as
    "'X' is never defined." are allowed) -/
def Silent (a : Analysis F) : Prop := a.panicked = none ∧ ∀ f e, Diag.error f e ∉ a.messages

omit [NumOps F] in
theorem silent_of {a : Analysis F} (hp : a.panicked = none) (hd : errDiags a.messages = []) : Silent a :=
  ⟨hp, errDiags_nil hd⟩

/-- a host session that types the program in, line by line -/
def entered (fuel : Nat) (text : List Str) : St F :=
  text.foldl (fun σ l => finalOf (startEvaluating fuel l σ)) {}

theorem turns_not_running (fuel k : Nat) (σ : St F) (h : σ.state ≠ .running) : C03.turns fuel k σ = .ok () σ := by
  cases k with
  | zero => rfl
  | succ k => simp [C03.turns, h]

theorem turns_add (fuel a b : Nat) (σ : St F) : C03.turns fuel (a + b) σ =
    match C03.turns fuel a σ with
    | .ok _ σ' => C03.turns fuel b σ'
    | .err e σ' => .err e σ' := by
  induction a generalizing σ with
  | zero => simp [C03.turns]
  | succ a ih =>
    rw [Nat.add_right_comm]
    by_cases hr : σ.state = .running
    · simp only [C03.turns, hr, if_true]
      cases hc : continueEvaluating fuel σ with
      | ok u σ' => simp only [ih]
      | err e σ' => rfl
    · simp only [C03.turns, hr, if_false]
      exact (turns_not_running fuel b σ hr).symm

/-- a run that has failed, or that has come back to the prompt, stays what it is however many more
    turns the host is prepared to take -/
theorem run_stable {fuel k : Nat} {σ : St F}
    (h : errOfR (C03.runTurns fuel k σ) ≠ none ∨ (finalOf (C03.runTurns fuel k σ)).state ≠ .running) (j : Nat) :
    C03.runTurns fuel (k + j) σ = C03.runTurns fuel k σ := by
  unfold C03.runTurns at h ⊢
  cases hs : startEvaluating fuel "RUN".toList σ with
  | err e σ' => rfl
  | ok u σ' =>
    simp only [hs] at h ⊢
    rw [turns_add]
    cases ht : C03.turns fuel k σ' with
    | err e σ'' => rfl
    | ok u' σ'' =>
      rw [ht] at h
      rcases h with h | h
      · exact absurd rfl h
      · exact turns_not_running fuel j σ'' h

theorem run_err_forever {fuel k : Nat} {σ : St F} {e : TErr} (h : errOfR (C03.runTurns fuel k σ) = some e) (j : Nat) :
    errOfR (C03.runTurns fuel (k + j) σ) = some e := by
  rw [run_stable (.inl (by rw [h]; simp))]; exact h

theorem run_idle_forever {fuel k : Nat} {σ : St F} (h : (finalOf (C03.runTurns fuel k σ)).state = .idle) (j : Nat) :
    C03.runTurns fuel (k + j) σ = C03.runTurns fuel k σ :=
  run_stable (.inr (by rw [h]; decide)) j

end Generic

/-! ### the examples -/

section Examples
attribute [local instance] C14.natOps

/-- the analysis of a source text (one `Str` per file line), on the carrier `Nat` -/
abbrev analysis (text : List Str) : Analysis Nat := analyzeFile (F := Nat) defaultFuel text

/-- RUN and up to `k` more turns of the program the analyzer hands over (`into_interpreter`) -/
abbrev runLoaded (k : Nat) (text : List Str) : Res Nat Unit :=
  C03.runTurns defaultFuel k (analysis text).intoInterpreter

/-- RUN and up to `k` more turns of the program typed in at the prompt -/
abbrev runEntered (k : Nat) (text : List Str) : Res Nat Unit :=
  C03.runTurns defaultFuel k (entered (F := Nat) defaultFuel text)

def fna : Str := "FNA".toList
def fnb : Str := "FNB".toList

/-- the arrays of a state: each name, flagged `true` when it is the array that a `DIM`-less use
    creates for a numeric name (one dimension, 11 cells) with all cells still 0 -/
def arraysView (σ : St Nat) : List (Str × Bool) :=
  σ.arrays.map fun (n, a) =>
    (n, match a with
        | .nums [11] cells => cells == List.replicate 11 0
        | _ => false)

/-- what is observed of an analysis: the panic (if any), the error diagnostics, the number of messages
    of any kind, and the stored program as LIST shows it.  (One kernel evaluation per analysis; the
    theorems below are projections of it.) -/
def aobs (a : Analysis Nat) : Option String × List (Nat × TErr) × Nat × Option (List Str) :=
  (a.panicked, errDiags a.messages, a.messages.length, a.st.lines.list)

/-- what is observed of an outcome: the error (if any), and of the state it ends in: the host state,
    the cursor, the output (newest first), the function table, the arrays -/
structure Obs where
  err : Option TErr
  state : IState
  loc : Loc
  out : List Out
  fns : List (Str × FnDef)
  arrays : List (Str × Bool)
  deriving DecidableEq, Repr

/-- (One kernel evaluation per run; the theorems below are projections of it.) -/
def obs (r : Res Nat Unit) : Obs :=
  { err := errOfR r, state := (finalOf r).state, loc := (finalOf r).loc, out := (finalOf r).out,
    fns := (finalOf r).fns, arrays := arraysView (finalOf r) }

/-- the components of an `aobs` equation (for a VARIABLE analysis: nothing is evaluated here) -/
theorem aobs_spec {a : Analysis Nat} {p : Option String} {d : List (Nat × TErr)} {n : Nat} {l : Option (List Str)}
    (h : aobs a = (p, d, n, l)) :
    a.panicked = p ∧ errDiags a.messages = d ∧ a.messages.length = n ∧ a.st.lines.list = l := by
  simpa only [aobs, Prod.mk.injEq] using h

/-- the components of an `obs` equation (for a VARIABLE outcome: nothing is evaluated here) -/
theorem obs_spec {r : Res Nat Unit} {o : Obs} (h : obs r = o) :
    errOfR r = o.err ∧ (finalOf r).state = o.state ∧ (finalOf r).loc = o.loc ∧ (finalOf r).out = o.out ∧
      (finalOf r).fns = o.fns ∧ arraysView (finalOf r) = o.arrays := by
  subst h; exact ⟨rfl, rfl, rfl, rfl, rfl, rfl⟩

theorem silent_of_aobs {a : Analysis Nat} {n : Nat} {l : Option (List Str)} (h : aobs a = (none, [], n, l)) :
    Silent a :=
  silent_of (aobs_spec h).1 (aobs_spec h).2.1

theorem err_of_obs {r : Res Nat Unit} {o : Obs} {e : TErr} (h : obs r = o) (he : o.err = some e) :
    ∃ σ', r = .err e σ' := by
  have h1 : errOfR r = some e := (obs_spec h).1.trans he
  cases r with
  | ok u s => cases h1
  | err e' s => exact ⟨s, by simp only [errOfR, Option.some.injEq] at h1; rw [h1]⟩

/-! #### E1: a clean program -/

/-- ```
    10 DEF FNA(X,Y$) = X + 1
    20 FOR I = 0 TO 0 : PRINT FNA(B(I),"S") : NEXT I
    ``` -/
def e1Text : List Str :=
  ["10 DEF FNA(X,Y$) = X + 1".toList, "20 FOR I = 0 TO 0 : PRINT FNA(B(I),\"S\") : NEXT I".toList]

/-- E1, analysis by evaluation: no panic, no error diagnostic, 2 messages (warnings: `X`, `B` "never
    defined"), and the stored program -/
theorem e1_aobs : aobs (analysis e1Text) =
    (none, [], 2, some ["10 DEF FNA ( X , Y$ ) = X + 1\n".toList,
                        "20 FOR I = 0 TO 0 : PRINT FNA ( B ( I ) , \"S\" ) : NEXT I\n".toList]) := by
  decide +kernel

/-- E1, the stored program, as LIST shows it (the text tokenizes as intended) -/
theorem e1_listing : (analysis e1Text).st.lines.list =
    some ["10 DEF FNA ( X , Y$ ) = X + 1\n".toList,
          "20 FOR I = 0 TO 0 : PRINT FNA ( B ( I ) , \"S\" ) : NEXT I\n".toList] :=
  (aobs_spec e1_aobs).2.2.2

/-- E1 (a): the analyzer does not panic and reports no error on the two-parameter DEF (a number and a
    string parameter) and the call `FNA(B(I),"S")` with an array read as first argument -/
theorem e1_analyzer_silent : Silent (analysis e1Text) := silent_of_aobs e1_aobs

/-- E1, the run by evaluation: RUN and 5 more turns -/
theorem e1_obs5 : obs (runLoaded 5 e1Text) =
    { err := none, state := .idle, loc := {},
      out := [.print "1\n".toList],
      fns := [(fna, { args := [['X'], ['Y', '$']], line := 10, idx := 8 })],
      arrays := [(['B'], true)] } := by decide +kernel

/-- E1 (b): the run ends WITHOUT ANY ERROR: after RUN and 5 more turns (FOR, `:`, PRINT, `:`, NEXT) the
    interpreter is back at the prompt, having printed `1` (= `B(0) + 1`), with the array `B`
    auto-created (and no other) and `FNA` defined with the parameters `X`, `Y$`; more turns change
    nothing -/
theorem e1_run_clean : ∀ j,
    errOfR (runLoaded (5 + j) e1Text) = none ∧
    (finalOf (runLoaded (5 + j) e1Text)).state = .idle ∧
    (finalOf (runLoaded (5 + j) e1Text)).out = [.print "1\n".toList] ∧
    arraysView (finalOf (runLoaded (5 + j) e1Text)) = [(['B'], true)] ∧
    (finalOf (runLoaded (5 + j) e1Text)).fns = [(fna, { args := [['X'], ['Y', '$']], line := 10, idx := 8 })] := by
  intro j
  rw [show runLoaded (5 + j) e1Text = runLoaded 5 e1Text from run_idle_forever ((obs_spec e1_obs5).2.1) j]
  exact ⟨(obs_spec e1_obs5).1, (obs_spec e1_obs5).2.1, (obs_spec e1_obs5).2.2.2.1,
    (obs_spec e1_obs5).2.2.2.2.2, (obs_spec e1_obs5).2.2.2.2.1⟩

/-- E1 (b'): 4 turns are not enough — the run is then still going, in front of the NEXT (so "5" above is
    exact) -/
theorem e1_run_needs_5 : errOfR (runLoaded 4 e1Text) = none ∧ (finalOf (runLoaded 4 e1Text)).state = .running ∧
    (finalOf (runLoaded 4 e1Text)).loc = { line := some 20, idx := 18 } := by
  have h : obs (runLoaded 4 e1Text) =
      { err := none, state := .running, loc := { line := some 20, idx := 18 },
        out := [.print "1\n".toList],
        fns := [(fna, { args := [['X'], ['Y', '$']], line := 10, idx := 8 })],
        arrays := [(['B'], true)] } := by decide +kernel
  exact ⟨(obs_spec h).1, (obs_spec h).2.1, (obs_spec h).2.2.1⟩

/-- E1 (b''): the same from a session that types the two lines in -/
theorem e1_run_clean_entered : ∀ j,
    errOfR (runEntered (5 + j) e1Text) = none ∧
    (finalOf (runEntered (5 + j) e1Text)).state = .idle ∧
    (finalOf (runEntered (5 + j) e1Text)).out = [.print "1\n".toList] := by
  intro j
  have h : obs (runEntered 5 e1Text) =
      { err := none, state := .idle, loc := {},
        out := [.print "1\n".toList],
        fns := [(fna, { args := [['X'], ['Y', '$']], line := 10, idx := 8 })],
        arrays := [(['B'], true)] } := by decide +kernel
  rw [show runEntered (5 + j) e1Text = runEntered 5 e1Text from run_idle_forever ((obs_spec h).2.1) j]
  exact ⟨(obs_spec h).1, (obs_spec h).2.1, (obs_spec h).2.2.2.1⟩

/-! #### E2: call before definition — an array cell, no error -/

/-- ```
    10 PRINT FNA(1)
    20 DEF FNA(X) = X
    ``` -/
def e2Text : List Str := ["10 PRINT FNA(1)".toList, "20 DEF FNA(X) = X".toList]

/-- E2, analysis by evaluation: no panic, no error diagnostic, 1 message (the warning "'X' is never
    defined."), and the stored program -/
theorem e2_aobs : aobs (analysis e2Text) =
    (none, [], 1, some ["10 PRINT FNA ( 1 )\n".toList, "20 DEF FNA ( X ) = X\n".toList]) := by decide +kernel

theorem e2_listing : (analysis e2Text).st.lines.list =
    some ["10 PRINT FNA ( 1 )\n".toList, "20 DEF FNA ( X ) = X\n".toList] := (aobs_spec e2_aobs).2.2.2

/-- E2 (a): the analyzer is silent: at line 10 no `DEF FNA` has been seen, `FNA(1)` is an array element -/
theorem e2_analyzer_silent : Silent (analysis e2Text) := silent_of_aobs e2_aobs

/-- E2, the run by evaluation: RUN and 1 more turn -/
theorem e2_obs1 : obs (runLoaded 1 e2Text) =
    { err := none, state := .idle, loc := {},
      out := [.print "0\n".toList],
      fns := [(fna, { args := [['X']], line := 20, idx := 6 })],
      arrays := [(fna, true)] } := by
  decide +kernel

/-- E2 (b): the run ends WITHOUT ANY ERROR, after RUN (the PRINT) and 1 more turn (the DEF).  The
    interpreter took `FNA(1)` for an ARRAY cell: it printed `0` (the default cell value — the function
    would have given `1`), and at the end `FNA` is BOTH an auto-created 11-cell numeric array and a
    user function -/
theorem e2_run_clean : ∀ j,
    errOfR (runLoaded (1 + j) e2Text) = none ∧
    (finalOf (runLoaded (1 + j) e2Text)).state = .idle ∧
    (finalOf (runLoaded (1 + j) e2Text)).out = [.print "0\n".toList] ∧
    arraysView (finalOf (runLoaded (1 + j) e2Text)) = [(fna, true)] ∧
    (finalOf (runLoaded (1 + j) e2Text)).fns = [(fna, { args := [['X']], line := 20, idx := 6 })] := by
  intro j
  rw [show runLoaded (1 + j) e2Text = runLoaded 1 e2Text from run_idle_forever ((obs_spec e2_obs1).2.1) j]
  exact ⟨(obs_spec e2_obs1).1, (obs_spec e2_obs1).2.1, (obs_spec e2_obs1).2.2.2.1,
    (obs_spec e2_obs1).2.2.2.2.2, (obs_spec e2_obs1).2.2.2.2.1⟩

/-- E2 (b'): the same from a session that types the two lines in -/
theorem e2_run_clean_entered : ∀ j,
    errOfR (runEntered (1 + j) e2Text) = none ∧
    (finalOf (runEntered (1 + j) e2Text)).state = .idle ∧
    (finalOf (runEntered (1 + j) e2Text)).out = [.print "0\n".toList] ∧
    arraysView (finalOf (runEntered (1 + j) e2Text)) = [(fna, true)] := by
  intro j
  have h : obs (runEntered 1 e2Text) =
      { err := none, state := .idle, loc := {},
        out := [.print "0\n".toList],
        fns := [(fna, { args := [['X']], line := 20, idx := 6 })],
        arrays := [(fna, true)] } := by
    decide +kernel
  rw [show runEntered (1 + j) e2Text = runEntered 1 e2Text from run_idle_forever ((obs_spec h).2.1) j]
  exact ⟨(obs_spec h).1, (obs_spec h).2.1, (obs_spec h).2.2.2.1, (obs_spec h).2.2.2.2.2⟩

/-! #### E3: call before definition, executed again after the definition — TYPE MISMATCH -/

/-- ```
    10 PRINT FNA(1)
    20 DEF FNA(X$) = 1
    30 GOTO 10
    ``` -/
def e3Text : List Str := ["10 PRINT FNA(1)".toList, "20 DEF FNA(X$) = 1".toList, "30 GOTO 10".toList]

/-- E3, analysis by evaluation: no panic, no error diagnostic, NO MESSAGE AT ALL, and the stored program -/
theorem e3_aobs : aobs (analysis e3Text) =
    (none, [], 0, some ["10 PRINT FNA ( 1 )\n".toList, "20 DEF FNA ( X$ ) = 1\n".toList, "30 GOTO 10\n".toList]) := by
  decide +kernel

theorem e3_listing : (analysis e3Text).st.lines.list =
    some ["10 PRINT FNA ( 1 )\n".toList, "20 DEF FNA ( X$ ) = 1\n".toList, "30 GOTO 10\n".toList] :=
  (aobs_spec e3_aobs).2.2.2

/-- E3 (a): the analyzer is silent — in fact it produces no message at all, not even a warning: at line
    10 `FNA(1)` is an array element with a numeric subscript, line 20 and line 30 are fine -/
theorem e3_analyzer_silent : Silent (analysis e3Text) ∧ (analysis e3Text).messages.length = 0 :=
  ⟨silent_of_aobs e3_aobs, (aobs_spec e3_aobs).2.2.1⟩

/-- E3, the run by evaluation: RUN and 3 more turns -/
theorem e3_obs3 : obs (runLoaded 3 e3Text) =
    { err := some { err := .typeMismatch, loc := some { line := some 10, idx := 3 } },
      state := .idle, loc := { line := some 10, idx := 4 },
      out := [.print "0\n".toList],
      fns := [(fna, { args := [['X', '$']], line := 20, idx := 6 })],
      arrays := [(fna, true)] } := by
  decide +kernel

/-- E3 (b): the run FAILS WITH TYPE MISMATCH, on line 10 (token 3, the argument `1`): RUN executes the
    PRINT (array cell, prints `0`), turn 1 the DEF, turn 2 the GOTO, turn 3 the PRINT again — now `FNA`
    is the function with the string parameter `X$` and is applied to the number `1`.
    However many turns the host takes, that is the outcome. -/
theorem e3_run_type_mismatch : ∀ j,
    errOfR (runLoaded (3 + j) e3Text) =
      some { err := .typeMismatch, loc := some { line := some 10, idx := 3 } } :=
  run_err_forever ((obs_spec e3_obs3).1)

/-- E3 (b'): until then nothing has failed: after RUN and 2 turns the run is still going, at the start
    of line 10, `0` printed, `FNA` an array and a function -/
theorem e3_run_before : errOfR (runLoaded 2 e3Text) = none ∧
    (finalOf (runLoaded 2 e3Text)).state = .running ∧
    (finalOf (runLoaded 2 e3Text)).loc = { line := some 10, idx := 0 } ∧
    (finalOf (runLoaded 2 e3Text)).out = [.print "0\n".toList] ∧
    arraysView (finalOf (runLoaded 2 e3Text)) = [(fna, true)] ∧
    (finalOf (runLoaded 2 e3Text)).fns = [(fna, { args := [['X', '$']], line := 20, idx := 6 })] := by
  have h : obs (runLoaded 2 e3Text) =
      { err := none, state := .running, loc := { line := some 10, idx := 0 },
        out := [.print "0\n".toList],
        fns := [(fna, { args := [['X', '$']], line := 20, idx := 6 })],
        arrays := [(fna, true)] } := by decide +kernel
  exact ⟨(obs_spec h).1, (obs_spec h).2.1, (obs_spec h).2.2.1, (obs_spec h).2.2.2.1,
    (obs_spec h).2.2.2.2.2, (obs_spec h).2.2.2.2.1⟩

/-- E3 (b''): the same failure from a session that types the three lines in -/
theorem e3_run_type_mismatch_entered : ∀ j,
    errOfR (runEntered (3 + j) e3Text) =
      some { err := .typeMismatch, loc := some { line := some 10, idx := 3 } } :=
  run_err_forever (by decide +kernel)

/-- E3, as a refutation of "analyzer silent ⇒ no TYPE MISMATCH" without the side condition on DEF:
    a source text, silent analysis, and a run of the handed-over program that fails with
    `Err.typeMismatch` -/
theorem e3_counterexample : ∃ (text : List Str) (k : Nat) (te : TErr) (σ' : St Nat),
    Silent (analyzeFile (F := Nat) defaultFuel text) ∧
    C03.runTurns defaultFuel k (analyzeFile (F := Nat) defaultFuel text).intoInterpreter = .err te σ' ∧
    te.err = .typeMismatch := by
  obtain ⟨σ', h⟩ := err_of_obs e3_obs3 rfl
  exact ⟨e3Text, 3, _, σ', e3_analyzer_silent.1, h, rfl⟩

/-! #### E3': the same statements with the DEF textually first — the analyzer does see it -/

/-- ```
    10 DEF FNA(X$) = 1
    20 PRINT FNA(1)
    30 GOTO 20
    ``` -/
def e3cText : List Str := ["10 DEF FNA(X$) = 1".toList, "20 PRINT FNA(1)".toList, "30 GOTO 20".toList]

/-- E3' (contrast): with the definition in front, the analyzer reports exactly one error (its only
    message), TYPE MISMATCH on file line 1 (the second line) at line 20, token 3; and the run fails with
    that very error at that very place, at the first PRINT (turn 1) -/
theorem e3c_analyzer_reports_and_run_fails :
    (analysis e3cText).panicked = none ∧
    errDiags (analysis e3cText).messages =
      [(1, { err := .typeMismatch, loc := some { line := some 20, idx := 3 } })] ∧
    ∀ j, errOfR (runLoaded (1 + j) e3cText) =
      some { err := .typeMismatch, loc := some { line := some 20, idx := 3 } } := by
  have h : aobs (analysis e3cText) =
      (none, [(1, { err := .typeMismatch, loc := some { line := some 20, idx := 3 } })], 1,
       some ["10 DEF FNA ( X$ ) = 1\n".toList, "20 PRINT FNA ( 1 )\n".toList, "30 GOTO 20\n".toList]) := by
    decide +kernel
  exact ⟨(aobs_spec h).1, (aobs_spec h).2.1, run_err_forever (by decide +kernel)⟩

/-! #### E4: redefinition with another arity — SYNTAX ERROR -/

/-- ```
    10 DEF FNA(X) = X
    20 PRINT FNA(1)
    30 DEF FNA(X,Y) = X
    40 GOTO 20
    ``` -/
def e4Text : List Str :=
  ["10 DEF FNA(X) = X".toList, "20 PRINT FNA(1)".toList, "30 DEF FNA(X,Y) = X".toList, "40 GOTO 20".toList]

/-- E4, analysis by evaluation: no panic, no error diagnostic, 2 messages (warnings "'X' is never
    defined." for the two bodies), and the stored program -/
theorem e4_aobs : aobs (analysis e4Text) =
    (none, [], 2, some ["10 DEF FNA ( X ) = X\n".toList, "20 PRINT FNA ( 1 )\n".toList,
                        "30 DEF FNA ( X , Y ) = X\n".toList, "40 GOTO 20\n".toList]) := by decide +kernel

theorem e4_listing : (analysis e4Text).st.lines.list =
    some ["10 DEF FNA ( X ) = X\n".toList, "20 PRINT FNA ( 1 )\n".toList,
          "30 DEF FNA ( X , Y ) = X\n".toList, "40 GOTO 20\n".toList] := (aobs_spec e4_aobs).2.2.2

/-- E4 (a): the analyzer is silent: at line 20 it knows the one-parameter `FNA`; the redefinition on
    line 30 is accepted without an error -/
theorem e4_analyzer_silent : Silent (analysis e4Text) := silent_of_aobs e4_aobs

/-- E4, the run by evaluation: RUN and 4 more turns -/
theorem e4_obs4 : obs (runLoaded 4 e4Text) =
    { err := some { err := .syntax (.expectedToken .Comma), loc := some { line := some 20, idx := 4 } },
      state := .idle, loc := { line := some 20, idx := 5 },
      out := [.print "1\n".toList],
      fns := [(fna, { args := [['X'], ['Y']], line := 30, idx := 8 })],
      arrays := [] } := by decide +kernel

/-- E4 (b): the run FAILS WITH A SYNTAX ERROR ("expected `,`") on line 20 (token 4, the `)` after the
    argument `1`): RUN executes the first DEF, turn 1 the PRINT (prints `1`), turn 2 the second DEF,
    turn 3 the GOTO, turn 4 the PRINT again — now `FNA` has two parameters.
    However many turns the host takes, that is the outcome. -/
theorem e4_run_syntax_error : ∀ j,
    errOfR (runLoaded (4 + j) e4Text) =
      some { err := .syntax (.expectedToken .Comma), loc := some { line := some 20, idx := 4 } } :=
  run_err_forever ((obs_spec e4_obs4).1)

/-- E4 (b'): until then nothing has failed: after RUN and 3 turns the run is still going, at the start of
    line 20, `1` printed, `FNA` now the two-parameter function of line 30 -/
theorem e4_run_before : errOfR (runLoaded 3 e4Text) = none ∧
    (finalOf (runLoaded 3 e4Text)).state = .running ∧
    (finalOf (runLoaded 3 e4Text)).loc = { line := some 20, idx := 0 } ∧
    (finalOf (runLoaded 3 e4Text)).out = [.print "1\n".toList] ∧
    (finalOf (runLoaded 3 e4Text)).fns = [(fna, { args := [['X'], ['Y']], line := 30, idx := 8 })] := by
  have h : obs (runLoaded 3 e4Text) =
      { err := none, state := .running, loc := { line := some 20, idx := 0 },
        out := [.print "1\n".toList],
        fns := [(fna, { args := [['X'], ['Y']], line := 30, idx := 8 })],
        arrays := [] } := by decide +kernel
  exact ⟨(obs_spec h).1, (obs_spec h).2.1, (obs_spec h).2.2.1, (obs_spec h).2.2.2.1,
    (obs_spec h).2.2.2.2.1⟩

/-- E4 (b''): the same failure from a session that types the four lines in -/
theorem e4_run_syntax_error_entered : ∀ j,
    errOfR (runEntered (4 + j) e4Text) =
      some { err := .syntax (.expectedToken .Comma), loc := some { line := some 20, idx := 4 } } :=
  run_err_forever (by decide +kernel)

/-- E4, as a refutation of "analyzer silent ⇒ no syntax error" when a function is defined twice -/
theorem e4_counterexample : ∃ (text : List Str) (k : Nat) (te : TErr) (σ' : St Nat) (se : SynErr),
    Silent (analyzeFile (F := Nat) defaultFuel text) ∧
    C03.runTurns defaultFuel k (analyzeFile (F := Nat) defaultFuel text).intoInterpreter = .err te σ' ∧
    te.err = .syntax se := by
  obtain ⟨σ', h⟩ := err_of_obs e4_obs4 rfl
  exact ⟨e4Text, 4, _, σ', .expectedToken .Comma, e4_analyzer_silent, h, rfl⟩

/-! #### E5: defined once and before every CALL, but named in a body before its definition -/

/-- ```
    10 DEF FNA(X) = FNB(X)
    20 DEF FNB(X$) = 1
    30 PRINT FNA(1)
    ``` -/
def e5Text : List Str :=
  ["10 DEF FNA(X) = FNB(X)".toList, "20 DEF FNB(X$) = 1".toList, "30 PRINT FNA(1)".toList]

/-- E5, analysis by evaluation: no panic, no error diagnostic, 1 message (a warning), the stored program -/
theorem e5_aobs : aobs (analysis e5Text) =
    (none, [], 1, some ["10 DEF FNA ( X ) = FNB ( X )\n".toList, "20 DEF FNB ( X$ ) = 1\n".toList,
                        "30 PRINT FNA ( 1 )\n".toList]) := by decide +kernel

theorem e5_listing : (analysis e5Text).st.lines.list =
    some ["10 DEF FNA ( X ) = FNB ( X )\n".toList, "20 DEF FNB ( X$ ) = 1\n".toList,
          "30 PRINT FNA ( 1 )\n".toList] := (aobs_spec e5_aobs).2.2.2

/-- E5 (a): the analyzer is silent: it checks the body of `FNA` when it meets line 10, where `FNB(X)` is
    still an array element with a numeric subscript; at the call on line 30 it checks the arguments only -/
theorem e5_analyzer_silent : Silent (analysis e5Text) := silent_of_aobs e5_aobs

/-- E5, the run by evaluation: RUN and 2 more turns -/
theorem e5_obs2 : obs (runLoaded 2 e5Text) =
    { err := some { err := .typeMismatch, loc := some { line := some 10, idx := 8 } },
      state := .idle, loc := { line := some 30, idx := 5 },
      out := [],
      fns := [(fna, { args := [['X']], line := 10, idx := 6 }), (fnb, { args := [['X', '$']], line := 20, idx := 6 })],
      arrays := [] } := by
  decide +kernel

/-- E5 (b): the run FAILS WITH TYPE MISMATCH, located INSIDE THE BODY of `FNA` (line 10, token 8: the `X`
    handed to `FNB`): RUN executes the first DEF, turn 1 the second, turn 2 the PRINT.  Both functions are
    defined exactly once, and both definitions are executed before the first call of either. -/
theorem e5_run_type_mismatch : ∀ j,
    errOfR (runLoaded (2 + j) e5Text) =
      some { err := .typeMismatch, loc := some { line := some 10, idx := 8 } } :=
  run_err_forever ((obs_spec e5_obs2).1)

/-- E5 (b'): just before the failing PRINT: no error yet, both functions defined once, nothing called,
    no array created -/
theorem e5_run_before : errOfR (runLoaded 1 e5Text) = none ∧
    (finalOf (runLoaded 1 e5Text)).state = .running ∧
    (finalOf (runLoaded 1 e5Text)).loc = { line := some 30, idx := 0 } ∧
    (finalOf (runLoaded 1 e5Text)).out = [] ∧
    (finalOf (runLoaded 1 e5Text)).fns =
      [(fna, { args := [['X']], line := 10, idx := 6 }), (fnb, { args := [['X', '$']], line := 20, idx := 6 })] ∧
    arraysView (finalOf (runLoaded 1 e5Text)) = [] := by
  have h : obs (runLoaded 1 e5Text) =
      { err := none, state := .running, loc := { line := some 30, idx := 0 },
        out := [],
        fns := [(fna, { args := [['X']], line := 10, idx := 6 }), (fnb, { args := [['X', '$']], line := 20, idx := 6 })],
        arrays := [] } := by
    decide +kernel
  exact ⟨(obs_spec h).1, (obs_spec h).2.1, (obs_spec h).2.2.1, (obs_spec h).2.2.2.1,
    (obs_spec h).2.2.2.2.1, (obs_spec h).2.2.2.2.2⟩

/-- E5 (b''): the same failure from a session that types the three lines in -/
theorem e5_run_type_mismatch_entered : ∀ j,
    errOfR (runEntered (2 + j) e5Text) =
      some { err := .typeMismatch, loc := some { line := some 10, idx := 8 } } :=
  run_err_forever (by decide +kernel)

/-- E5, as a refutation of "analyzer silent, every function defined once and before it is called ⇒ no
    TYPE MISMATCH" -/
theorem e5_counterexample : ∃ (text : List Str) (k : Nat) (te : TErr) (σ' : St Nat),
    Silent (analyzeFile (F := Nat) defaultFuel text) ∧
    C03.runTurns defaultFuel k (analyzeFile (F := Nat) defaultFuel text).intoInterpreter = .err te σ' ∧
    te.err = .typeMismatch := by
  obtain ⟨σ', h⟩ := err_of_obs e5_obs2 rfl
  exact ⟨e5Text, 2, _, σ', e5_analyzer_silent, h, rfl⟩

/-- ```
    10 DEF FNB(X$) = 1
    20 DEF FNA(X) = FNB(X)
    30 PRINT FNA(1)
    ``` -/
def e5cText : List Str :=
  ["10 DEF FNB(X$) = 1".toList, "20 DEF FNA(X) = FNB(X)".toList, "30 PRINT FNA(1)".toList]

/-- E5' (contrast): with `FNB` defined textually before the body that names it, the analyzer reports
    the TYPE MISMATCH (file line 1, at line 20 token 8), and the run fails with it at that place -/
theorem e5c_analyzer_reports_and_run_fails :
    (analysis e5cText).panicked = none ∧
    errDiags (analysis e5cText).messages =
      [(1, { err := .typeMismatch, loc := some { line := some 20, idx := 8 } })] ∧
    ∀ j, errOfR (runLoaded (2 + j) e5cText) =
      some { err := .typeMismatch, loc := some { line := some 20, idx := 8 } } := by
  have h : aobs (analysis e5cText) =
      (none, [(1, { err := .typeMismatch, loc := some { line := some 20, idx := 8 } })], 2,
       some ["10 DEF FNB ( X$ ) = 1\n".toList, "20 DEF FNA ( X ) = FNB ( X )\n".toList,
             "30 PRINT FNA ( 1 )\n".toList]) := by decide +kernel
  exact ⟨(aobs_spec h).1, (aobs_spec h).2.1, run_err_forever (by decide +kernel)⟩

end Examples

end Abasic.Props.C06

