import Abasic.Expr
/-
  C02 — the operator tiers of the model are the ones the Rust source has NOW.

  `Extracted.evalChain` / `evalUnary` are regenerated on every run from
  abasic-core/src/expression.rs and operators.rs (tools/extract.py follows the
  call chain from `evaluate_expression` inwards and records, per tier, the
  tokens its loop accepts).  The theorems say that the hand-written model uses
  exactly those operator sets in exactly that nesting order; if a tier gains or
  loses an operator, or two tiers are swapped in the source, they stop checking.
-/
namespace Abasic.Props.C02
open Abasic

variable {F : Type}

/-- the model's binary tiers, outermost first (the order in which `orExpr` nests them) -/
def modelTiers : List (Token F → Option BinOp) := [orOps, andOps, cmpOps, addOps, mulOps, powOps]

theorem orExpr_nests_modelTiers [NumOps F] (ev : Evals F) :
    orExpr ev = (modelTiers (F := F)).foldr (fun ops sub => level sub ops) (unaryExpr ev) := rfl

/-- tier by tier, the source's loop accepts token `k` iff the model's tier does -/
theorem tiers_from_source (k : Kw) :
    Extracted.evalChain.length = 6 ∧
    (k ∈ Extracted.evalChain[0]! ↔ (orOps (F := F) (.kw k)).isSome) ∧
    (k ∈ Extracted.evalChain[1]! ↔ (andOps (F := F) (.kw k)).isSome) ∧
    (k ∈ Extracted.evalChain[2]! ↔ (cmpOps (F := F) (.kw k)).isSome) ∧
    (k ∈ Extracted.evalChain[3]! ↔ (addOps (F := F) (.kw k)).isSome) ∧
    (k ∈ Extracted.evalChain[4]! ↔ (mulOps (F := F) (.kw k)).isSome) ∧
    (k ∈ Extracted.evalChain[5]! ↔ (powOps (F := F) (.kw k)).isSome) ∧
    (k ∈ Extracted.evalUnary ↔ (UnOp.ofToken (F := F) (.kw k)).isSome) := by
  cases k <;> simp [Extracted.evalChain, Extracted.evalUnary, orOps, andOps, cmpOps, addOps, mulOps, powOps, CmpOp.ofToken, UnOp.ofToken]

/-- only keyword tokens are operators -/
theorem tiers_only_keywords (t : Token F) (h : ∀ k, t ≠ .kw k) :
    orOps t = none ∧ andOps t = none ∧ cmpOps t = none ∧ addOps t = none ∧ mulOps t = none ∧ powOps t = none ∧
    UnOp.ofToken t = none := by
  cases t with
  | kw k => exact absurd rfl (h k)
  | _ => simp [orOps, andOps, cmpOps, addOps, mulOps, powOps, CmpOp.ofToken, UnOp.ofToken]

end Abasic.Props.C02
