import Abasic.Ref.Lsp
import Abasic.Props.C20More
import Abasic.Props.C05Total
/-
  C20, the server loop — what the language server publishes and answers is always
  about the LATEST text it was sent, and no sequence of events makes it fail.

  The server is the state machine `lspStep` / `lspRun` of Abasic/Ref/Lsp.lean (a
  transliteration of `main_loop` in abasic-lsp/src/main.rs).  Independent of that
  machine, `submitted` lists the texts an event carries and `lastSubmitted` is the
  last text carried by any event of a history; `latest d evs` is that text, or the
  initially stored one when the history carries none.

  * `server_total`: for every start state and every event sequence the run succeeds
    (rests on `C05.lsp_total`, `diags_total`, `semantic_tokens_total`) and sends one
    output per event.
  * `doc_is_latest`: the stored document after a run is `latest`.
  * `diags_are_messages`: the last `publishDiagnostics` of a run is
    `lspDiagnostics (lspAnalyze fuel text)` for the last submitted text — which is
    (`diags_filterMap`) exactly the analyzer's messages for that text, in order, each
    mapped to its position (`diagAt`), those without a position dropped — and these
    are in bounds (`diags_in_bounds`).  `publish_iff_submitted`: nothing is published
    iff nothing was submitted.
  * `tokens_are_latest`: a tokens request after any history answers
    `semanticTokens (lspAnalyze fuel text)` of the latest text (`RequestFailed` iff
    there is none); `tokens_in_run`: the same for a request in the middle of a run.
  * `close_keeps_document` / `tokens_after_close`: READ OFF main.rs — `didClose` is
    not handled (the loop casts `DidChangeTextDocument` twice), so closing does not
    forget the document and a later tokens request is still answered.
  * `change_last_wins`, `change_empty_keeps`.
-/
namespace Abasic.Props.C20
open Abasic

variable {F : Type} [NumOps F]

/-! ### the specification side: which text is the latest -/

/-- the document texts an event carries, in order -/
def submitted : LspEvent → List Str
  | .open text => [text]
  | .change texts => texts
  | .tokensRequest => []
  | .close => []

/-- the last text carried by any event of the history -/
def lastSubmitted (evs : List LspEvent) : Option Str := (evs.flatMap submitted).getLast?

/-- the latest document: the last submitted text, else what was stored before -/
def latest (d : Option Str) (evs : List LspEvent) : Option Str :=
  match lastSubmitted evs with
  | some t => some t
  | none => d

/-- the diagnostics of the last `publishDiagnostics` among the outputs -/
def lastPublished (outs : List LspOut) : Option (List LspDiag) :=
  (outs.filterMap fun o => match o with | .publish ds => some ds | _ => none).getLast?

theorem lastSubmitted_nil : lastSubmitted [] = none := rfl

theorem lastSubmitted_cons (e : LspEvent) (es : List LspEvent) :
    lastSubmitted (e :: es) =
      match lastSubmitted es with
      | some t => some t
      | none => (submitted e).getLast? := by
  unfold lastSubmitted
  rw [List.flatMap_cons, List.getLast?_append]
  cases (List.flatMap submitted es).getLast? <;> rfl

theorem latest_nil (d : Option Str) : latest d [] = d := rfl

theorem latest_cons (d : Option Str) (e : LspEvent) (es : List LspEvent) :
    latest d (e :: es) = latest (latest d [e]) es := by
  unfold latest
  rw [lastSubmitted_cons, lastSubmitted_cons e [], lastSubmitted_nil]
  cases lastSubmitted es <;> cases (submitted e).getLast? <;> rfl

theorem latest_append (d : Option Str) (es es' : List LspEvent) :
    latest d (es ++ es') = latest (latest d es) es' := by
  induction es generalizing d with
  | nil => rfl
  | cons e es ih => rw [List.cons_append, latest_cons, ih, ← latest_cons]

theorem lastPublished_cons (o : LspOut) (os : List LspOut) :
    lastPublished (o :: os) =
      match lastPublished os with
      | some ds => some ds
      | none => (match o with | .publish ds => some ds | _ => none) := by
  unfold lastPublished
  cases o <;> simp only [List.filterMap_cons]
  · rw [List.getLast?_cons]
    cases (List.filterMap _ os).getLast? <;> rfl
  all_goals cases (List.filterMap _ os).getLast? <;> rfl

/-! ### one step never fails -/

/-- storing a text: the analysis does not panic, the diagnostics conversion does not
    panic; the text is stored and its diagnostics are published -/
theorem lspUpdate_eq (fuel : Nat) (text : Str) :
    ∃ ds, lspDiagnostics (lspAnalyze (F := F) fuel text) = some ds ∧
      lspUpdate F fuel text = some ({ doc := some text }, .publish ds) := by
  obtain ⟨ds, hds, _⟩ := diags_in_bounds (F := F) fuel text
  refine ⟨ds, hds, ?_⟩
  unfold lspUpdate
  simp only [C05.lsp_total (F := F) fuel text, Option.isSome_none, Bool.false_eq_true, if_false, hds]

/-- what one event does, for every state: never `none` -/
theorem lspStep_spec (fuel : Nat) (s : LspState) (e : LspEvent) :
    ∃ s' o, lspStep F fuel s e = some (s', o) ∧ s'.doc = latest s.doc [e] ∧
      (match o with | .publish ds => some ds | _ => none) =
        (match (submitted e).getLast? with
         | some t => lspDiagnostics (lspAnalyze (F := F) fuel t)
         | none => none) := by
  cases e with
  | «open» text =>
    obtain ⟨ds, hds, hu⟩ := lspUpdate_eq (F := F) fuel text
    exact ⟨_, _, hu, rfl, by simp [submitted, hds]⟩
  | change texts =>
    cases hl : texts.getLast? with
    | none =>
      refine ⟨s, .none, by simp only [lspStep, hl], ?_, by simp [submitted, hl]⟩
      simp [latest, lastSubmitted, submitted, hl]
    | some text =>
      obtain ⟨ds, hds, hu⟩ := lspUpdate_eq (F := F) fuel text
      refine ⟨_, _, by simp only [lspStep, hl]; exact hu, ?_, by simp [submitted, hl, hds]⟩
      simp [latest, lastSubmitted, submitted, hl]
  | tokensRequest =>
    cases hd : s.doc with
    | none => exact ⟨s, .requestFailed, by simp only [lspStep, hd], hd, by simp [submitted]⟩
    | some text =>
      obtain ⟨ts, hts, _⟩ := semantic_tokens_ok (F := F) fuel text
      exact ⟨s, .tokens ts, by simp only [lspStep, hd, hts], hd, by simp [submitted]⟩
  | close => exact ⟨s, .none, rfl, rfl, by simp [submitted]⟩

theorem lspStep_total (fuel : Nat) (s : LspState) (e : LspEvent) : lspStep F fuel s e ≠ none := by
  obtain ⟨s', o, h, _⟩ := lspStep_spec (F := F) fuel s e
  rw [h]; simp

/-! ### whole runs -/

/-- Everything about a run at once: it succeeds, one output per event, the stored
    document is the latest text, the last published diagnostics are those of the last
    submitted text. -/
theorem lspRun_spec (fuel : Nat) (s : LspState) (evs : List LspEvent) :
    ∃ s' outs, lspRun F fuel s evs = some (s', outs) ∧ outs.length = evs.length ∧
      s'.doc = latest s.doc evs ∧
      lastPublished outs =
        (match lastSubmitted evs with
         | some t => lspDiagnostics (lspAnalyze (F := F) fuel t)
         | none => none) := by
  induction evs generalizing s with
  | nil => exact ⟨s, [], rfl, rfl, rfl, rfl⟩
  | cons e es ih =>
    obtain ⟨s1, o, h1, hd1, ho⟩ := lspStep_spec (F := F) fuel s e
    obtain ⟨s2, os, h2, hlen, hd2, hp⟩ := ih s1
    refine ⟨s2, o :: os, by simp only [lspRun, h1, h2], by simp [hlen], ?_, ?_⟩
    · rw [hd2, hd1, ← latest_cons]
    · rw [lastPublished_cons, lastSubmitted_cons, hp]
      cases hls : lastSubmitted es with
      | some t =>
        obtain ⟨ds, hds, _⟩ := lspUpdate_eq (F := F) fuel t
        simp only [hds]
      | none => simp only [ho]

/-- **server_total.**  No start state and no sequence of events makes the model server
    fail: the analysis never panics (`lsp_total`), neither does the conversion of its
    diagnostics (`diags_total`) nor of its tokens (`semantic_tokens_total`).  Every event
    produces exactly one output (possibly `none`). -/
theorem server_total (fuel : Nat) (s : LspState) (evs : List LspEvent) :
    ∃ s' outs, lspRun F fuel s evs = some (s', outs) ∧ outs.length = evs.length := by
  obtain ⟨s', outs, h, hl, _⟩ := lspRun_spec (F := F) fuel s evs
  exact ⟨s', outs, h, hl⟩

theorem server_never_fails (fuel : Nat) (s : LspState) (evs : List LspEvent) : lspRun F fuel s evs ≠ none := by
  obtain ⟨s', outs, h, _⟩ := server_total (F := F) fuel s evs
  rw [h]; simp

/-- The stored document after a run is the latest text: the last one carried by any
    `didOpen` / `didChange` of the history (for a `didChange` with several content
    changes: the last of them), else the one stored before. -/
theorem doc_is_latest (fuel : Nat) (s s' : LspState) (evs : List LspEvent) (outs : List LspOut)
    (h : lspRun F fuel s evs = some (s', outs)) : s'.doc = latest s.doc evs := by
  obtain ⟨s1, outs1, h1, _, hd, _⟩ := lspRun_spec (F := F) fuel s evs
  rw [h1] at h
  simp only [Option.some.injEq, Prod.mk.injEq] at h
  rw [← h.1]; exact hd

/-! ### the published diagnostics are the analyzer's messages, positioned -/

/-- the LSP diagnostic of one analyzer message: its file position converted to UTF-16
    columns, severity and text; `none` when the message has no position -/
def diagAt (a : Analysis F) (d : Diag) : Option LspDiag :=
  match a.map.mapDiag d with
  | some (some (f, x, y)) =>
    (a.lines[f]?).map fun text =>
      { line := f, startCol := utf16Col text x, endCol := utf16Col text y,
        isError := (match d with | .warning _ _ _ => false | .error _ _ => true),
        text := (match d with | .warning _ _ m => m | .error _ e => errText e) }
  | _ => none

omit [NumOps F] in
theorem diagFold_filterMap (a : Analysis F) (msgs : List Diag) (acc ds : List LspDiag)
    (h : msgs.foldl (diagStep a) (some acc) = some ds) : ds = acc ++ msgs.filterMap (diagAt a) := by
  induction msgs generalizing acc with
  | nil => simp only [List.foldl_nil, Option.some.injEq] at h; simp [h]
  | cons d msgs ih =>
    simp only [List.foldl_cons] at h
    cases hs : diagStep a (some acc) d with
    | none => rw [hs, diagFold_none] at h; cases h
    | some acc1 =>
      rw [hs] at h
      rw [ih acc1 h]
      unfold diagStep at hs
      simp only at hs
      cases hm : a.map.mapDiag d with
      | none => simp [hm] at hs
      | some r =>
        cases r with
        | none =>
          simp only [hm, Option.some.injEq] at hs
          simp [diagAt, hm, hs]
        | some p =>
          obtain ⟨f, x, y⟩ := p
          simp only [hm] at hs
          cases hl : a.lines[f]? with
          | none => simp [hl] at hs
          | some text =>
            simp only [hl] at hs
            cases d <;> simp only [Option.some.injEq] at hs <;>
              simp [diagAt, hm, hl, ← hs]

omit [NumOps F] in
/-- Whenever the diagnostics conversion succeeds, its result is exactly the analyzer's
    messages, in order, each mapped to its position; messages without a position
    (`map_to_source` returns `None`) are dropped. -/
theorem diags_filterMap (a : Analysis F) (ds : List LspDiag) (h : lspDiagnostics a = some ds) :
    ds = a.messages.filterMap (diagAt a) := by
  rw [lspDiagnostics_eq] at h
  simpa using diagFold_filterMap a a.messages [] ds h

/-- **diags_are_messages.**  After any event sequence from any start state: if some
    text was submitted, the LAST published diagnostics are `lspDiagnostics (lspAnalyze
    fuel text)` for the LAST submitted text `text` — which is also the stored document —
    i.e. exactly the analyzer's messages for that text, in order, mapped to positions;
    and every one of them lies on an existing line of the document with
    `startCol ≤ endCol ≤` the line's UTF-16 length. -/
theorem diags_are_messages (fuel : Nat) (s s' : LspState) (evs : List LspEvent) (outs : List LspOut)
    (h : lspRun F fuel s evs = some (s', outs)) (text : Str) (ht : lastSubmitted evs = some text) :
    s'.doc = some text ∧
    ∃ ds, lastPublished outs = some ds ∧
      lspDiagnostics (lspAnalyze (F := F) fuel text) = some ds ∧
      ds = (lspAnalyze (F := F) fuel text).messages.filterMap (diagAt (lspAnalyze (F := F) fuel text)) ∧
      ∀ d ∈ ds, d.line < (splitDocumentLines text).length ∧
        ∃ l, (splitDocumentLines text)[d.line]? = some l ∧ d.startCol ≤ d.endCol ∧ d.endCol ≤ utf16Len l := by
  obtain ⟨s1, outs1, h1, _, hd, hp⟩ := lspRun_spec (F := F) fuel s evs
  rw [h1] at h
  simp only [Option.some.injEq, Prod.mk.injEq] at h
  obtain ⟨rfl, rfl⟩ := h
  obtain ⟨ds, hds, hb⟩ := diags_in_bounds (F := F) fuel text
  refine ⟨by rw [hd]; simp [latest, ht], ds, by rw [hp, ht]; exact hds, hds, diags_filterMap _ ds hds, ?_⟩
  have hl := (lspAnalyze_lineTokens (F := F) fuel text).1
  intro d hd'
  have := hb d hd'
  rw [hl] at this
  exact this

/-- Nothing is published iff no text was submitted; then the stored document is unchanged. -/
theorem publish_iff_submitted (fuel : Nat) (s s' : LspState) (evs : List LspEvent) (outs : List LspOut)
    (h : lspRun F fuel s evs = some (s', outs)) :
    (lastPublished outs = none ↔ lastSubmitted evs = none) ∧ (lastSubmitted evs = none → s'.doc = s.doc) := by
  obtain ⟨s1, outs1, h1, _, hd, hp⟩ := lspRun_spec (F := F) fuel s evs
  rw [h1] at h
  simp only [Option.some.injEq, Prod.mk.injEq] at h
  obtain ⟨rfl, rfl⟩ := h
  refine ⟨?_, fun hn => by rw [hd]; simp [latest, hn]⟩
  rw [hp]
  cases hls : lastSubmitted evs with
  | none => simp
  | some t =>
    obtain ⟨ds, hds, _⟩ := diags_in_bounds (F := F) fuel t
    simp [hds]

/-! ### tokens requests -/

/-- **tokens_are_latest.**  A tokens request after any event sequence is answered with
    `semanticTokens (lspAnalyze fuel text)` for the latest text (never a failure of the
    conversion); it is refused with `RequestFailed` exactly when there is no document at
    all.  The state is unchanged. -/
theorem tokens_are_latest (fuel : Nat) (s s' : LspState) (evs : List LspEvent) (outs : List LspOut)
    (h : lspRun F fuel s evs = some (s', outs)) :
    (∀ text, latest s.doc evs = some text →
      ∃ ts, semanticTokens (lspAnalyze (F := F) fuel text) = some ts ∧
        lspStep F fuel s' .tokensRequest = some (s', .tokens ts)) ∧
    (latest s.doc evs = none → lspStep F fuel s' .tokensRequest = some (s', .requestFailed)) := by
  have hd := doc_is_latest (F := F) fuel s s' evs outs h
  constructor
  · intro text ht
    rw [ht] at hd
    obtain ⟨ts, hts, _⟩ := semantic_tokens_ok (F := F) fuel text
    exact ⟨ts, hts, by simp only [lspStep, hd, hts]⟩
  · intro hn
    rw [hn] at hd
    simp only [lspStep, hd]

theorem lspRun_append (fuel : Nat) (s : LspState) (es es' : List LspEvent) :
    lspRun F fuel s (es ++ es') =
      match lspRun F fuel s es with
      | none => none
      | some (s1, os) =>
        match lspRun F fuel s1 es' with
        | none => none
        | some (s2, os') => some (s2, os ++ os') := by
  induction es generalizing s with
  | nil =>
    simp only [List.nil_append, lspRun]
    cases lspRun F fuel s es' with
    | none => rfl
    | some p => obtain ⟨s2, os'⟩ := p; rfl
  | cons e es ih =>
    simp only [List.cons_append, lspRun]
    cases lspStep F fuel s e with
    | none => rfl
    | some p =>
      obtain ⟨s1, o⟩ := p
      simp only [ih]
      cases lspRun F fuel s1 es with
      | none => rfl
      | some q =>
        obtain ⟨s2, os⟩ := q
        simp only
        cases lspRun F fuel s2 es' with
        | none => rfl
        | some r => obtain ⟨s3, os'⟩ := r; rfl

/-- The same inside a run: the output for a tokens request at any position of the
    sequence is the tokens of the latest text at that moment. -/
theorem tokens_in_run (fuel : Nat) (s s' : LspState) (pre post : List LspEvent) (outs : List LspOut)
    (h : lspRun F fuel s (pre ++ .tokensRequest :: post) = some (s', outs)) :
    ∃ o, outs[pre.length]? = some o ∧
      match latest s.doc pre with
      | some text => ∃ ts, semanticTokens (lspAnalyze (F := F) fuel text) = some ts ∧ o = .tokens ts
      | none => o = .requestFailed := by
  rw [lspRun_append] at h
  obtain ⟨s1, os, h1, hlen⟩ := server_total (F := F) fuel s pre
  have hta := tokens_are_latest (F := F) fuel s s1 pre os h1
  rw [h1] at h
  simp only [lspRun] at h
  cases hl : latest s.doc pre with
  | none =>
    rw [hta.2 hl] at h
    simp only at h
    obtain ⟨s2, os2, h2, _⟩ := server_total (F := F) fuel s1 post
    rw [h2] at h
    simp only [Option.some.injEq, Prod.mk.injEq] at h
    refine ⟨.requestFailed, ?_, rfl⟩
    rw [← h.2, ← hlen]; simp
  | some text =>
    obtain ⟨ts, hts, hstep⟩ := hta.1 text hl
    rw [hstep] at h
    simp only at h
    obtain ⟨s2, os2, h2, _⟩ := server_total (F := F) fuel s1 post
    rw [h2] at h
    simp only [Option.some.injEq, Prod.mk.injEq] at h
    refine ⟨.tokens ts, ?_, ts, hts, rfl⟩
    rw [← h.2, ← hlen]; simp

/-! ### read off main.rs: `didChange` with several / no changes; `didClose` -/

/-- several content changes in one `didChange`: the last one wins, the others are never analysed -/
theorem change_last_wins (fuel : Nat) (s : LspState) (texts : List Str) (text : Str) :
    lspStep F fuel s (.change (texts ++ [text])) = lspStep F fuel s (.open text) := by
  simp [lspStep]

/-- a `didChange` without content changes: nothing is stored, nothing is published -/
theorem change_empty_keeps (fuel : Nat) (s : LspState) :
    lspStep F fuel s (.change []) = some (s, .none) := rfl

/-- `didClose` does not make the server forget the document (main.rs never matches it) … -/
theorem close_keeps_document (fuel : Nat) (s : LspState) :
    lspStep F fuel s .close = some (s, .none) := rfl

/-- … so a tokens request after `didOpen`, `didClose` is still answered with the tokens of the text. -/
theorem tokens_after_close (fuel : Nat) (s : LspState) (text : Str) :
    ∃ ds ts, semanticTokens (lspAnalyze (F := F) fuel text) = some ts ∧
      lspRun F fuel s [.open text, .close, .tokensRequest] =
        some ({ doc := some text }, [.publish ds, .none, .tokens ts]) := by
  obtain ⟨ds, _, hu⟩ := lspUpdate_eq (F := F) fuel text
  obtain ⟨ts, hts, _⟩ := semantic_tokens_ok (F := F) fuel text
  exact ⟨ds, ts, hts, by simp only [lspRun, lspStep, hu, hts]⟩

/-! ### non-vacuity -/

example : lastSubmitted [.open "A".toList, .change ["B".toList, "C".toList], .tokensRequest, .change [], .close] =
    some "C".toList := by decide

example : latest (some "A".toList) [.tokensRequest, .change [], .close] = some "A".toList := by decide

end Abasic.Props.C20
