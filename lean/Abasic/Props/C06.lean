import Abasic.Analyzer
/-
  C06 — the static checker and the interpreter agree on what is an error.

  The analyzer (Analyzer.lean) walks the same six operator tiers with the same
  operator tables as the evaluator (Expr.lean) — they share `powOps … orOps` —
  and replaces values by types.  Proved here is the operator-level core of the
  agreement, for all operand values: for every binary and unary operator, the
  evaluator fails with TYPE MISMATCH exactly when the analyzer's type rule for
  that operator's tier rejects the operand kinds, and otherwise the value it
  produces (when no value-dependent error such as DIVISION BY ZERO occurs) has
  exactly the kind the analyzer computed.  Also: assignment and parameter
  binding use the same suffix rule on both sides.  The statement-level theorems
  (`sound`, `complete_straight`) are listed as open and rest on the
  correspondence slice and the analyzer-vs-execution oracle.
-/
namespace Abasic.Props.C06
open Abasic

variable {F : Type} [NumOps F]

def kindOf : Value F → VT
  | .str _ => .str
  | .num _ => .num

/-- the analyzer's rule per tier (`aLevelLoop`): result type, or rejection -/
def tierRule : ATier → VT → VT → Option VT
  | .arith, .num, .num => some .num
  | .arith, _, _ => none
  | .cmp, a, b => if a == b then some .num else none
  | .logic, _, _ => some .num

def tierOf : BinOp → ATier
  | .pow | .mul | .div | .add | .sub => .arith
  | .cmp _ => .cmp
  | .and | .or => .logic

/-- Binary operators: TYPE MISMATCH at run time iff the analyzer's rule rejects;
    any value produced has the type the analyzer computed; the only other
    run-time failure is the value-dependent DIVISION BY ZERO. -/
theorem binop_agrees (op : BinOp) (l r : Value F) :
    (op.eval l r = .error .typeMismatch ↔ tierRule (tierOf op) (kindOf l) (kindOf r) = none) ∧
    (∀ v, op.eval l r = .ok v → tierRule (tierOf op) (kindOf l) (kindOf r) = some (kindOf v)) ∧
    (∀ e, op.eval l r = .error e → e = .typeMismatch ∨ e = .divisionByZero) := by
  cases op <;> cases l <;> cases r <;>
    simp [BinOp.eval, tierRule, tierOf, kindOf, Value.ofBool]
  all_goals first
    | (split <;> simp [kindOf])
    | skip

/-- the analyzer's rule for the unary operators (`aUnary`) -/
def unaryRule : UnOp → VT → Option VT
  | .pos, t => some t
  | .neg, .num => some .num
  | .neg, .str => none
  | .not, _ => some .num

theorem unop_agrees (op : UnOp) (v : Value F) :
    (op.eval v = .error .typeMismatch ↔ unaryRule op (kindOf v) = none) ∧
    (∀ w, op.eval v = .ok w → unaryRule op (kindOf v) = some (kindOf w)) ∧
    (∀ e, op.eval v = .error e → e = .typeMismatch) := by
  cases op <;> cases v <;> simp [UnOp.eval, unaryRule, kindOf, Value.ofBool]

/-- Assignment and parameter binding: the value's kind must equal the type of
    the name's suffix — the same test on both sides. -/
theorem suffix_rule_agrees (v : Value F) (name : Str) :
    v.matchesName name = (kindOf v == VT.ofName name) := by
  cases v <;> cases h : endsWithDollar name <;> simp [Value.matchesName, kindOf, VT.ofName, h]

/-- Both walkers use the same operator tables, tier by tier, in the same order. -/
theorem same_tiers (ev : Evals F) (av : AEvals F) :
    orExpr ev = level (level (level (level (level (level (unaryExpr ev) powOps) mulOps) addOps) cmpOps) andOps) orOps ∧
    aOrExpr av = aLevel (aLevel (aLevel (aLevel (aLevel (aLevel (aUnary av) powOps .arith) mulOps .arith) addOps .arith)
      cmpOps .cmp) andOps .logic) orOps .logic := ⟨rfl, rfl⟩

omit [NumOps F] in
/-- … and each table only ever yields operators of its own tier. -/
theorem tables_match_tiers (t : Token F) (op : BinOp) :
    (powOps t = some op → tierOf op = .arith) ∧ (mulOps t = some op → tierOf op = .arith) ∧
    (addOps t = some op → tierOf op = .arith) ∧ (cmpOps t = some op → tierOf op = .cmp) ∧
    (andOps t = some op → tierOf op = .logic) ∧ (orOps t = some op → tierOf op = .logic) := by
  refine ⟨?_, ?_, ?_, ?_, ?_, ?_⟩ <;> intro h
  · cases t with
    | kw k => cases k <;> simp [powOps] at h <;> subst h <;> rfl
    | _ => simp [powOps] at h
  · cases t with
    | kw k => cases k <;> simp [mulOps] at h <;> subst h <;> rfl
    | _ => simp [mulOps] at h
  · cases t with
    | kw k => cases k <;> simp [addOps] at h <;> subst h <;> rfl
    | _ => simp [addOps] at h
  · simp only [cmpOps, Option.map_eq_some_iff] at h
    obtain ⟨c, _, hc⟩ := h
    subst hc; rfl
  · cases t with
    | kw k => cases k <;> simp [andOps] at h <;> subst h <;> rfl
    | _ => simp [andOps] at h
  · cases t with
    | kw k => cases k <;> simp [orOps] at h <;> subst h <;> rfl
    | _ => simp [orOps] at h

/-- Non-vacuity: comparing two strings is accepted and numeric; adding them is rejected. -/
example : tierRule .cmp .str .str = some .num ∧ tierRule .arith .str .str = none ∧ unaryRule .pos .str = some .str := by
  decide

end Abasic.Props.C06
