import Abasic.Props.C03Full
import Abasic.Props.C02Full
import Abasic.Proofs.Stmt3Prog
import Abasic.Proofs.Stmt3Static
/-
  C03, third layer: ONE reference machine for the whole statement language
  (INPUT apart), over the full expression language.

  The reference semantics is Abasic/Ref/Stmt3.lean (`RStmt3`, `RStmt3.exec`: LET,
  PRINT, GOTO, END, IF with arbitrary branches and `THEN n` / `ELSE n`, FOR /
  NEXT, GOSUB / RETURN, READ (scalar targets and array cells `a(e…)` in any
  mixture, `RTarget`) / DATA / RESTORE, DIM, `LET a(i) = e`, DEF FN; every
  expression is an `Expr2` — array cells, RND, calls of user functions — and is
  evaluated with `fold2`) and Abasic/Ref/Prog3.lean (`RStep3`, `RSteps3`).
  Proved here, about the model of the real code:

  * `stmt3_refines` — one activation of the statement evaluator on the rendering
    of a covered statement does what `RStmt3.exec` says (`Outcome3`,
    Proofs/Stmt3Rel.lean);
  * `def_establishes_envOf` — executing DEF FN establishes, for the new function
    table, the relation `EnvOf` that `eval_render2` (C02Full.lean) assumes: calls
    of functions defined earlier in the run are covered;
  * `turn3_colon`, `turn3_refines` — a turn on a colon stutters, a turn on a
    statement is exactly one `RStep3` (`Sim3`);
  * `run3_start`, `run3_refines`, `run3_refines_steps`, `run3_ends`, `run3_fails`
    — whole runs, as in C03Full.lean.

  Side conditions.  Static (`Fits3`): the program is well formed and every
  statement is `Covered` (Ref/Stmt3.lean).  Along the reference run (`StepOk`,
  `SafeRun`): in every state the reference machine reaches, the names used by
  the statement at the program counter and by the bodies of the functions
  defined so far are consistent with the function table (`Resolved`: an array is
  not named like a defined function — a later DEF would change the meaning of
  `A(1)`), and the statement fits the recursion fuel and the nesting cap
  (`sdepth3`, which looks through the bodies of the functions it calls).
  `safeRun_of_static` gives a sufficient condition on the program text.

  Errors.  A failing run fails with the same error after the same output.  The
  line it is attributed to is the line of the failing statement — except that an
  error raised while the BODY of a user function is evaluated is attributed (by
  the interpreter) to the line of that function's DEF; `TurnStep3` / `RunMatch3`
  say: the line of the statement, or the line of the definition of one of the
  functions defined so far (`RState3.fnLines`).  The spec `fold2` does not say
  in which body an error arose, so the theorems cannot be more precise.
-/
set_option linter.unusedSectionVars false

namespace Abasic.Props.C03
open Abasic Abasic.Ref Abasic.ExprL Abasic.ExprL2 Abasic.StmtL Abasic.ProgL Abasic.Prog3L Abasic.Stmt3L

variable {F : Type} [NumOps F]

/-! ### statements -/

/-- **Statement refinement** for every statement of `RStmt3`: with the model
    state `σ` corresponding to the reference state `r` (`SReady3`), one
    activation of the statement evaluator realises the reference step
    `RStmt3.exec`. -/
theorem stmt3_refines {p : RProgram3 F} {r : RState3 F} {σ : St F} {n j : Nat} {ss : List (RStmt3 F)}
    {s : RStmt3 F} {fuel : Nat} (h : SReady3 p r σ n j ss s fuel) :
    Outcome3 p σ n ((preToks3 ss j).length + (renderS3 s).length) (renderLine3 ss).length
      (stmtBody (evalN fuel) σ) (s.exec (allData3 p) n j r).1 (s.exec (allData3 p) n j r).2 :=
  stmt3_run h

/-- the relation of `eval_render2` between a model state and the environment of a reference state -/
theorem envOf_of_mem {p : RProgram3 F} {r : RState3 F} {σ : St F} (hm : Mem3 p r σ) : C02.EnvOf σ r.env where
  vars := hm.vars
  frames := frames_rets hm.stack
  arrays := hm.arrays
  rng := hm.rng
  fns_undef := hm.fns.undef
  fns_def := fun name d hd => by
    obtain ⟨fd, pre, tail, h1, h2, h3, h4, h5⟩ := hm.fns.defd name d hd
    exact ⟨fd, pre, tail, h1, h2, by rw [h3, List.append_assoc], h4, C02.follows_of_ends h5⟩

/-- **DEF FN establishes `EnvOf`.**  After `DEF f(ps) = body` has been executed
    (as statement `j` of line `n`), the model state realises the environment of
    the new reference state — whose function table has `f` — in the sense
    `eval_render2` assumes: `f` is recorded with the parameters `ps`, on line `n`,
    pointing at the rendering of `body`.  So a later call `f(…)` is covered by
    `eval_render2` (and by the statement theorems above, which use it). -/
theorem def_establishes_envOf {p : RProgram3 F} {r : RState3 F} {σ : St F} {n j : Nat} {ss : List (RStmt3 F)}
    {f : Str} {ps : List Str} {body : Expr2 F} {fuel : Nat} (h : SReady3 p r σ n j ss (.defS f ps body) fuel) :
    ∃ σ', stmtBody (evalN fuel) σ = .ok () σ' ∧
      C02.EnvOf σ' ((RStmt3.defS f ps body).exec (allData3 p) n j r).1.env ∧
      alGet f ((RStmt3.defS f ps body).exec (allData3 p) n j r).1.env.fns = some { params := ps, body := body } ∧
      ∃ fd, alGet f σ'.fns = some fd ∧ fd.args = ps ∧ fd.line = n := by
  obtain ⟨σ', hres, _, hm, _, _⟩ := stmt3_run h
  refine ⟨σ', hres, envOf_of_mem hm, ?_, ?_⟩
  · show alGet f (alSet f _ r.fns) = _
    exact Props.C03.alGet_alSet _ _ _
  · obtain ⟨fd, pre, tail, h1, h2, _⟩ := hm.fns.defd f { params := ps, body := body }
      (by show alGet f (alSet f _ r.fns) = _; exact Props.C03.alGet_alSet _ _ _)
    refine ⟨fd, h1, h2, ?_⟩
    have := hm.fnLines f fd h1
    have h' : alGet f (alSet f n r.fnLines) = some n := Props.C03.alGet_alSet _ _ _
    rw [show ((RStmt3.defS f ps body).exec (allData3 p) n j r).1.fnLines = alSet f n r.fnLines from rfl, h'] at this
    exact (Option.some.inj this).symm

/-! ### side conditions -/

/-- the static side conditions: the program is well formed and every statement is covered -/
structure Fits3 (p : RProgram3 F) : Prop where
  wf : p.WF
  covered : ∀ l ∈ p, ∀ s ∈ l.2, s.Covered

/-- the side conditions on one reference state: names are used consistently
    with the function table, by the bodies of the functions defined so far and
    by the statement at the program counter, and that statement fits the fuel
    and the nesting cap -/
structure StepOk (p : RProgram3 F) (fuel : Nat) (r : RState3 F) : Prop where
  bodies : ∀ name d, alGet name r.fns = some d → Resolved r.fns d.body
  stmt : ∀ n j ss s, r.pc = some (n, j) → p.line n = some ss → ss[j]? = some s →
    ResolvedS r.fns s ∧ sdepth3 r.fns s ≤ fuel ∧ sdepth3 r.fns s ≤ Extracted.nestingLimit

/-- every state the reference machine reaches from `r` is `StepOk` -/
def SafeRun (p : RProgram3 F) (fuel : Nat) (r : RState3 F) : Prop :=
  ∀ m r', RSteps3 p m r = .inl r' → StepOk p fuel r'

theorem SafeRun.here {p : RProgram3 F} {fuel : Nat} {r : RState3 F} (h : SafeRun p fuel r) : StepOk p fuel r :=
  h 0 r rfl

theorem rsteps3_ok {p : RProgram3 F} {r r' : RState3 F} (n : Nat) (h : RStep3 p r = .inl r') :
    RSteps3 p (n + 1) r = RSteps3 p n r' := by
  simp only [RSteps3, h]

theorem rsteps3_err {p : RProgram3 F} {r : RState3 F} {e : Err} {ln : Nat} (n : Nat)
    (h : RStep3 p r = .inr (e, ln)) : RSteps3 p (n + 1) r = .inr (e, ln, r.out) := by
  simp only [RSteps3, h]

theorem rstep3_ended {p : RProgram3 F} {r : RState3 F} (h : r.pc = none) : RStep3 p r = .inl r := by
  simp only [RStep3, h]

theorem SafeRun.step {p : RProgram3 F} {fuel : Nat} {r r' : RState3 F} (h : SafeRun p fuel r)
    (hs : RStep3 p r = .inl r') : SafeRun p fuel r' :=
  fun m r'' hm => h (m + 1) r'' (by rw [rsteps3_ok m hs]; exact hm)

/-! ### the simulation relation -/

/-- the outcome of a turn (or of RUN) against the outcome of a reference step from `r`:
    on `.inr (e, ln)` the model fails with `e`, located on line `ln` or — an error
    raised in the body of a user function — on the line of the definition of one
    of the functions defined so far; it is idle, and the failing statement has
    printed nothing -/
def TurnStep3 (p : RProgram3 F) (r : RState3 F) (res : Res F Unit) : RState3 F ⊕ (Err × Nat) → Prop
  | .inl r' => ∃ σ', res = .ok () σ' ∧ Sim3 p r' σ'
  | .inr (e, ln) => ∃ σ' l, res = .err { err := e, loc := some l } σ' ∧
      (l.line = some ln ∨ ∃ name m, alGet name r.fnLines = some m ∧ l.line = some m) ∧
      σ'.state = .idle ∧ σ'.out = outRecs r.out

theorem turnStep3_of_stepsTo {p : RProgram3 F} {r : RState3 F} {σ σ0 : St F} {m : M F Unit}
    (x : RState3 F ⊕ (Err × Nat)) (hout : σ.out = outRecs r.out) (h : StepsTo3 p r (m σ) σ x)
    (hpost : postprocess m σ0 = postprocess m σ) :
    TurnStep3 p r (postprocess m σ0) x := by
  rw [hpost]
  cases x with
  | inl r' =>
    obtain ⟨σ', hσ', hland⟩ := h
    exact ⟨σ', by unfold postprocess; rw [hσ'], hland⟩
  | inr eln =>
    obtain ⟨e, ln⟩ := eln
    obtain ⟨σ', te, l, hσ', ho, hpop, hl⟩ := h
    refine ⟨{ σ' with state := .idle }, l, ?_, hl, rfl, by show σ'.out = _; rw [ho, hout]⟩
    unfold postprocess
    rw [hσ']
    show Res.err (σ'.populate te) _ = _
    rw [hpop]

/-! ### one turn -/

/-- the hypotheses of the statement theorems hold at the start of a turn -/
theorem sready3_turn {p : RProgram3 F} {fuel : Nat} (hfit : Fits3 p) {r : RState3 F} (hok : StepOk p fuel r)
    {σ : St F} (hc : Core3 p r σ) {n j : Nat} {ss : List (RStmt3 F)} {s : RStmt3 F}
    (hpc : r.pc = some (n, j)) (hl : p.line n = some ss) (hs : ss[j]? = some s)
    (hloc : σ.loc = { line := some n, idx := (preToks3 ss j).length }) :
    SReady3 p r (mv { σ with state := .running } 0 (σ.reads + 1)) n j ss s fuel where
  wf := hfit.wf
  env := ⟨hc.env.lines, hc.env.warnings, hc.env.tracing⟩
  mem := hc.mem.congr rfl rfl rfl rfl rfl rfl rfl rfl rfl
  inv := hc.inv
  nesting := hc.nesting
  line := hl
  stmt := hs
  locline := by show σ.loc.line = _; rw [hloc]
  idx := by show σ.loc.idx + 0 = _; rw [hloc]; rfl
  covered := hfit.covered _ (line_mem hl) s (List.mem_of_getElem? hs)
  bodies := hok.bodies
  resolved := (hok.stmt n j ss s hpc hl hs).1
  fuel := (hok.stmt n j ss s hpc hl hs).2.1
  nest := (hok.stmt n j ss s hpc hl hs).2.2

/-- the core of `turn3_refines` and `run3_start` -/
theorem rns3_refines {p : RProgram3 F} {fuel : Nat} (hfit : Fits3 p) {r : RState3 F} (hok : StepOk p fuel r)
    {σ : St F} (hc : Core3 p r σ) {n j : Nat} {ss : List (RStmt3 F)} {s : RStmt3 F}
    (hpc : r.pc = some (n, j)) (hl : p.line n = some ss) (hs : ss[j]? = some s)
    (hloc : σ.loc = { line := some n, idx := (preToks3 ss j).length }) :
    StepsTo3 p r (runNextStatement fuel σ) σ (RStep3 p r) :=
  rns3_stmt hfit.wf hc hpc hl hs hloc (stmt3_run (sready3_turn hfit hok hc hpc hl hs hloc))
    (exec3_inv (allData3 p) n j s r hc.inv)

/-- **A turn on a colon.**  With the cursor on the colon in front of the
    statement the reference machine is at, a turn succeeds, moves the cursor to
    the first token of that statement and changes nothing else the simulation
    relation sees: the reference machine does not move. -/
theorem turn3_colon {p : RProgram3 F} {fuel : Nat} {r : RState3 F} {σ : St F}
    (h : Sim3 p r σ) {n j : Nat} {ss : List (RStmt3 F)} (hpc : r.pc = some (n, j)) (hl : p.line n = some ss)
    (hidx : σ.loc.idx + 1 = (preToks3 ss j).length) :
    ∃ σ', continueEvaluating fuel σ = .ok () σ' ∧ Sim3 p r σ' ∧ σ'.loc.idx = (preToks3 ss j).length := by
  unfold Sim3 at h
  rw [hpc] at h
  obtain ⟨hc, hrun, hline, ss', hl', hj, hcur⟩ := h
  rw [hl] at hl'
  cases hl'
  have h0 : 0 < j := by
    rcases hcur with hc' | hc'
    · omega
    · exact hc'.1
  obtain ⟨j', rfl⟩ : ∃ j', j = j' + 1 := ⟨j - 1, by omega⟩
  have hσ' := rns3_colon (fuel := fuel) hc.env hl hj hline hidx
  refine ⟨{ σ with state := .running, loc := { line := some n, idx := (preToks3 ss (j' + 1)).length },
                   reads := σ.reads + 1 + 1 + 1 }, ?_, ?_, rfl⟩
  · rw [C09.continue_is_one_turn fuel σ hrun]
    exact postprocess_ok hσ'
  · unfold Sim3
    rw [hpc]
    exact ⟨⟨⟨hc.env.lines, hc.env.warnings, hc.env.tracing⟩, hc.mem.congr rfl rfl rfl rfl rfl rfl rfl rfl rfl,
      hc.inv, hc.nesting⟩, rfl, rfl, ss, hl, hj, Or.inl rfl⟩

/-- **A turn on a statement is one reference step.**  With the cursor on the
    first token of the statement at the program counter, `continueEvaluating`
    does what `RStep3` says (`TurnStep3`). -/
theorem turn3_refines {p : RProgram3 F} {fuel : Nat} (hfit : Fits3 p) {r : RState3 F} (hok : StepOk p fuel r)
    {σ : St F} (h : Sim3 p r σ) {n j : Nat} {ss : List (RStmt3 F)} (hpc : r.pc = some (n, j))
    (hl : p.line n = some ss) (hidx : σ.loc.idx = (preToks3 ss j).length) :
    TurnStep3 p r (continueEvaluating fuel σ) (RStep3 p r) := by
  unfold Sim3 at h
  rw [hpc] at h
  obtain ⟨hc, hrun, hline, ss', hl', hj, _⟩ := h
  rw [hl] at hl'
  cases hl'
  have hs : ss[j]? = some ss[j] := by simp [hj]
  have hloc : σ.loc = { line := some n, idx := (preToks3 ss j).length } := by
    rw [← hidx, ← hline]
  have hS := rns3_refines hfit hok hc hpc hl hs hloc
  rw [C09.continue_is_one_turn fuel σ hrun]
  exact turnStep3_of_stepsTo (RStep3 p r) hc.mem.out hS rfl

/-! ### RUN -/

/-- what RUN needs of the state it is typed into -/
structure PReady3 (p : RProgram3 F) (σ : St F) : Prop where
  idle : σ.state = .idle
  lines : Holds σ.lines p
  warnings : σ.warnings = false
  tracing : σ.tracing = false
  nesting : σ.nesting = 0
  out : σ.out = []
  /-- the generator state is reduced (true in every reachable state: `WFσ.rng`) -/
  rng : σ.rng < Extracted.rngModulus

theorem rinv3_start (p : RProgram3 F) {g : Nat} (hg : g < Extracted.rngModulus) : RInv3 (p.start g) :=
  ⟨fun k v h => by simp [RProgram3.start, alGet] at h, fun k a h => by simp [RProgram3.start, alGet] at h,
   hg, Nat.zero_le _⟩

theorem core3_start {p : RProgram3 F} {σ : St F} (h : PReady3 p σ) (loc : Loc) :
    Core3 p (p.start σ.rng)
      ({ (({ σ.setImmediate [] with input := none, vars := [], arrays := [] } : St F).resetRuntime) with loc := loc }) where
  env := ⟨h.lines, h.warnings, h.tracing⟩
  mem := {
    vars := rfl
    arrays := rfl
    rng := rfl
    loops := Prog2L.Rel2.nil
    stack := Prog2L.Rel2.nil
    data := rfl
    out := h.out
    fns := ⟨fun _ _ => rfl, fun name d hd => by cases hd⟩
    fnLines := fun name fd hfd => by cases hfd }
  inv := rinv3_start p h.rng
  nesting := h.nesting

/-- **RUN is the first reference step**: it clears variables, arrays, both
    stacks, the DATA cursor and the function table (not the random number
    generator), puts the cursor on the first line and runs its first statement
    in the same call. -/
theorem run3_start {p : RProgram3 F} {fuel : Nat} (hfit : Fits3 p) {σ : St F} (h : PReady3 p σ)
    (hok : StepOk p fuel (p.start σ.rng)) :
    TurnStep3 p (p.start σ.rng) (startEvaluating fuel "RUN".toList σ) (RStep3 p (p.start σ.rng)) := by
  rw [startEvaluating_run fuel σ h.idle]
  cases hp : p with
  | nil =>
    subst hp
    have hfirst : σ.lines.first = none := by rw [holds_first h.lines]; rfl
    obtain ⟨σ', hσ', hidle, hvars, harr, hout⟩ :=
      rns_imm2 fuel (runInit σ) (by rw [runInit_none hfirst]; rfl) (by rw [runInit_none hfirst]; rfl)
    have harr : σ'.arrays = [] := by rw [harr, runInit_none hfirst]; rfl
    refine ⟨σ', postprocess_ok hσ', ?_⟩
    show Final3 _ σ'
    rw [runInit_none hfirst] at hvars hout
    exact ⟨hidle, hvars, harr, hout.trans h.out⟩
  | cons l rest =>
    rw [← hp]
    have hfirstp : p.first = some l.1 := by rw [hp]; rfl
    have hfirst : σ.lines.first = some l.1 := by rw [holds_first h.lines, hfirstp]
    obtain ⟨ss, hl⟩ := first_line hfirstp
    have hlen := line_nonempty3 hfit.wf hl
    have hs : ss[0]? = some ss[0] := by simp [hlen]
    have hc : Core3 p (p.start σ.rng) (runInit σ) := by
      rw [runInit_first hfirst]
      exact core3_start h _
    have hpc : (p.start σ.rng).pc = some (l.1, 0) := by
      show (p.first.map fun n => (n, 0)) = _
      rw [hfirstp]; rfl
    have hloc : (runInit σ).loc = { line := some l.1, idx := (preToks3 ss 0).length } := by
      rw [runInit_first hfirst, preToks3_zero]; rfl
    have hS := rns3_refines hfit hok hc hpc hl hs hloc
    exact turnStep3_of_stepsTo (RStep3 p (p.start σ.rng)) hc.mem.out hS rfl

/-! ### runs -/

/-- the outcome of a run of the model against the outcome of a run of the
    reference machine: related states, or the same error with the same PRINT
    records before it, located on the same line — or, for an error raised in the
    body of a user function, on a line of the program with a DEF statement -/
def RunMatch3 (p : RProgram3 F) (res : Res F Unit) : RState3 F ⊕ (Err × Nat × List Str) → Prop
  | .inl r' => ∃ σ', res = .ok () σ' ∧ Sim3 p r' σ'
  | .inr (e, ln, out) => ∃ σ' l, res = .err { err := e, loc := some l } σ' ∧
      (l.line = some ln ∨ ∃ m name d, l.line = some m ∧ DefAt p m name d) ∧
      σ'.state = .idle ∧ σ'.out = outRecs out

theorem sim3_idle {p : RProgram3 F} {r : RState3 F} {σ : St F} (h : Sim3 p r σ) (hpc : r.pc = none) :
    σ.state = .idle := by
  unfold Sim3 at h; rw [hpc] at h; exact h.1

theorem sim3_running {p : RProgram3 F} {r : RState3 F} {σ : St F} (h : Sim3 p r σ) {n j : Nat}
    (hpc : r.pc = some (n, j)) : Pos3 p n j σ := by
  unfold Sim3 at h; rw [hpc] at h; exact h.2

theorem errLine_of_table {p : RProgram3 F} {r : RState3 F} (ht : TableOf p r) {l : Loc} {ln : Nat}
    (h : l.line = some ln ∨ ∃ name m, alGet name r.fnLines = some m ∧ l.line = some m) :
    l.line = some ln ∨ ∃ m name d, l.line = some m ∧ DefAt p m name d := by
  rcases h with h | ⟨name, m, h1, h2⟩
  · exact Or.inl h
  · obtain ⟨d, hd⟩ := ht.2 name m h1
    exact Or.inr ⟨m, name, d, h2, hd⟩

/-- **`k` turns are at most `k` reference steps** (a turn on a colon is none). -/
theorem turns3_refines {p : RProgram3 F} {fuel : Nat} (hfit : Fits3 p) :
    ∀ (k : Nat) (r : RState3 F) (σ : St F), Sim3 p r σ → SafeRun p fuel r → TableOf p r →
      ∃ n, n ≤ k ∧ RunMatch3 p (turns fuel k σ) (RSteps3 p n r)
  | 0, r, σ, h, _, _ => ⟨0, Nat.le_refl _, σ, rfl, h⟩
  | k + 1, r, σ, h, hsafe, htab => by
    cases hpc : r.pc with
    | none => exact ⟨0, Nat.zero_le _, σ, turns_idle fuel _ σ (sim3_idle h hpc), h⟩
    | some nj =>
      obtain ⟨n0, j⟩ := nj
      obtain ⟨hrun, hline, ss, hl, hj, hcur⟩ := sim3_running h hpc
      rcases hcur with hidx | ⟨_, hidx⟩
      · have hT := turn3_refines hfit hsafe.here h hpc hl hidx
        cases hstep : RStep3 p r with
        | inl r' =>
          rw [hstep] at hT
          obtain ⟨σ', hσ', hsim⟩ := hT
          obtain ⟨n, hn, hm⟩ := turns3_refines hfit k r' σ' hsim (hsafe.step hstep) (tableOf_step htab hstep)
          refine ⟨n + 1, by omega, ?_⟩
          rw [rsteps3_ok n hstep, turns_ok fuel k hrun hσ']
          exact hm
        | inr eln =>
          obtain ⟨e, ln⟩ := eln
          rw [hstep] at hT
          obtain ⟨σ', l, hσ', hloc, hidle, hout⟩ := hT
          refine ⟨1, by omega, ?_⟩
          rw [rsteps3_err 0 hstep, turns_err fuel k hrun hσ']
          exact ⟨σ', l, rfl, errLine_of_table htab hloc, hidle, hout⟩
      · obtain ⟨σ', hσ', hsim, _⟩ := turn3_colon (fuel := fuel) h hpc hl hidx
        obtain ⟨n, hn, hm⟩ := turns3_refines hfit k r σ' hsim hsafe htab
        refine ⟨n, by omega, ?_⟩
        rw [turns_ok fuel k hrun hσ']
        exact hm

/-- **`n` reference steps are at most `2 n` turns.** -/
theorem steps3_refines {p : RProgram3 F} {fuel : Nat} (hfit : Fits3 p) :
    ∀ (n : Nat) (r : RState3 F) (σ : St F), Sim3 p r σ → SafeRun p fuel r → TableOf p r →
      ∃ k, k ≤ 2 * n ∧ RunMatch3 p (turns fuel k σ) (RSteps3 p n r)
  | 0, r, σ, h, _, _ => ⟨0, Nat.le_refl _, σ, rfl, h⟩
  | n + 1, r, σ, h, hsafe, htab => by
    cases hpc : r.pc with
    | none =>
      obtain ⟨k, hk, hm⟩ := steps3_refines hfit n r σ h hsafe htab
      refine ⟨k, by omega, ?_⟩
      rw [rsteps3_ok n (rstep3_ended hpc)]
      exact hm
    | some nj =>
      obtain ⟨n0, j⟩ := nj
      obtain ⟨hrun, hline, ss, hl, hj, hcur⟩ := sim3_running h hpc
      have atStmt : ∀ σ : St F, Sim3 p r σ → σ.state = .running → σ.loc.idx = (preToks3 ss j).length →
          ∃ k, k ≤ 2 * n + 1 ∧ RunMatch3 p (turns fuel k σ) (RSteps3 p (n + 1) r) := by
        intro σ h hrun hidx
        have hT := turn3_refines hfit hsafe.here h hpc hl hidx
        cases hstep : RStep3 p r with
        | inl r' =>
          rw [hstep] at hT
          obtain ⟨σ', hσ', hsim⟩ := hT
          obtain ⟨k, hk, hm⟩ := steps3_refines hfit n r' σ' hsim (hsafe.step hstep) (tableOf_step htab hstep)
          refine ⟨k + 1, by omega, ?_⟩
          rw [rsteps3_ok n hstep, turns_ok fuel k hrun hσ']
          exact hm
        | inr eln =>
          obtain ⟨e, ln⟩ := eln
          rw [hstep] at hT
          obtain ⟨σ', l, hσ', hloc, hidle, hout⟩ := hT
          refine ⟨1, by omega, ?_⟩
          rw [rsteps3_err n hstep, turns_err fuel 0 hrun hσ']
          exact ⟨σ', l, rfl, errLine_of_table htab hloc, hidle, hout⟩
      rcases hcur with hidx | ⟨_, hidx⟩
      · obtain ⟨k, hk, hm⟩ := atStmt σ h hrun hidx
        exact ⟨k, by omega, hm⟩
      · obtain ⟨σ', hσ', hsim, hidx'⟩ := turn3_colon (fuel := fuel) h hpc hl hidx
        have hrun' : σ'.state = .running := (sim3_running hsim hpc).1
        obtain ⟨k, hk, hm⟩ := atStmt σ' hsim hrun' hidx'
        refine ⟨k + 1, by omega, ?_⟩
        rw [turns_ok fuel k hrun hσ']
        exact hm

/-- **Whole runs, by turns.**  RUN followed by `k` turns of the host loop does
    what `n` reference steps from the start of the program do, for some `n`
    between 1 and `k + 1`. -/
theorem run3_refines {p : RProgram3 F} {fuel : Nat} (hfit : Fits3 p) {σ : St F} (h : PReady3 p σ)
    (hsafe : SafeRun p fuel (p.start σ.rng)) (k : Nat) :
    ∃ n, 1 ≤ n ∧ n ≤ k + 1 ∧ RunMatch3 p (runTurns fuel k σ) (RSteps3 p n (p.start σ.rng)) := by
  have hT := run3_start hfit h hsafe.here
  have htab := tableOf_start p σ.rng
  unfold runTurns
  cases hstep : RStep3 p (p.start σ.rng) with
  | inl r' =>
    rw [hstep] at hT
    obtain ⟨σ', hσ', hsim⟩ := hT
    obtain ⟨n, hn, hm⟩ := turns3_refines hfit k r' σ' hsim (hsafe.step hstep) (tableOf_step htab hstep)
    refine ⟨n + 1, by omega, by omega, ?_⟩
    rw [rsteps3_ok n hstep, hσ']
    exact hm
  | inr eln =>
    obtain ⟨e, ln⟩ := eln
    rw [hstep] at hT
    obtain ⟨σ', l, hσ', hloc, hidle, hout⟩ := hT
    refine ⟨1, by omega, by omega, ?_⟩
    rw [rsteps3_err 0 hstep, hσ']
    exact ⟨σ', l, rfl, errLine_of_table htab hloc, hidle, hout⟩

/-- **Whole runs, by reference steps.**  `n + 1` reference steps from the start of
    the program are RUN followed by some `k ≤ 2 n` turns of the host loop. -/
theorem run3_refines_steps {p : RProgram3 F} {fuel : Nat} (hfit : Fits3 p) {σ : St F} (h : PReady3 p σ)
    (hsafe : SafeRun p fuel (p.start σ.rng)) (n : Nat) :
    ∃ k, k ≤ 2 * n ∧ RunMatch3 p (runTurns fuel k σ) (RSteps3 p (n + 1) (p.start σ.rng)) := by
  have hT := run3_start hfit h hsafe.here
  have htab := tableOf_start p σ.rng
  unfold runTurns
  cases hstep : RStep3 p (p.start σ.rng) with
  | inl r' =>
    rw [hstep] at hT
    obtain ⟨σ', hσ', hsim⟩ := hT
    obtain ⟨k, hk, hm⟩ := steps3_refines hfit n r' σ' hsim (hsafe.step hstep) (tableOf_step htab hstep)
    refine ⟨k, hk, ?_⟩
    rw [rsteps3_ok n hstep, hσ']
    exact hm
  | inr eln =>
    obtain ⟨e, ln⟩ := eln
    rw [hstep] at hT
    obtain ⟨σ', l, hσ', hloc, hidle, hout⟩ := hT
    refine ⟨0, by omega, ?_⟩
    rw [rsteps3_err n hstep, hσ']
    exact ⟨σ', l, rfl, errLine_of_table htab hloc, hidle, hout⟩

/-- **A program that ends, ends the same way in the model**: if the reference
    machine has reached its end after `n + 1` steps, then RUN and some `k ≤ 2 n`
    turns leave the interpreter idle, holding the reference variables and arrays,
    and the host takes exactly the reference PRINT records from the output queue. -/
theorem run3_ends {p : RProgram3 F} {fuel : Nat} (hfit : Fits3 p) {σ : St F} (h : PReady3 p σ)
    (hsafe : SafeRun p fuel (p.start σ.rng)) (n : Nat)
    {r' : RState3 F} (hr : RSteps3 p (n + 1) (p.start σ.rng) = .inl r') (hend : r'.pc = none) :
    ∃ k σ', k ≤ 2 * n ∧ runTurns fuel k σ = .ok () σ' ∧ σ'.state = .idle ∧ σ'.vars = r'.vars ∧
      σ'.arrays = r'.arrays ∧ (takeOutput σ').1 = r'.out.map Out.print := by
  obtain ⟨k, hk, hm⟩ := run3_refines_steps hfit h hsafe n
  rw [hr] at hm
  obtain ⟨σ', hσ', hsim⟩ := hm
  unfold Sim3 at hsim
  rw [hend] at hsim
  exact ⟨k, σ', hk, hσ', hsim.1, hsim.2.1, hsim.2.2.1, takeOutput_outRecs hsim.2.2.2⟩

/-- **A program that fails, fails the same way in the model**: the same error,
    after the same printed output, attributed to the same line — or, when the
    error was raised in the body of a user function, to a line of the program
    with a DEF statement. -/
theorem run3_fails {p : RProgram3 F} {fuel : Nat} (hfit : Fits3 p) {σ : St F} (h : PReady3 p σ)
    (hsafe : SafeRun p fuel (p.start σ.rng)) (n : Nat)
    {e : Err} {ln : Nat} {out : List Str} (hr : RSteps3 p (n + 1) (p.start σ.rng) = .inr (e, ln, out)) :
    ∃ k σ' l, k ≤ 2 * n ∧
      runTurns fuel k σ = .err { err := e, loc := some l } σ' ∧
      (l.line = some ln ∨ ∃ m name d, l.line = some m ∧ DefAt p m name d) ∧
      σ'.state = .idle ∧ (takeOutput σ').1 = out.map Out.print := by
  obtain ⟨k, hk, hm⟩ := run3_refines_steps hfit h hsafe n
  rw [hr] at hm
  obtain ⟨σ', l, hσ', hloc, hidle, hout⟩ := hm
  exact ⟨k, σ', l, hk, hσ', hloc, hidle, takeOutput_outRecs hout⟩

/-! ### a sufficient condition on the program text -/

/-- For every function table made of definitions that occur in the program:
    the bodies and all statements of the program use names consistently with it,
    and all statements fit the fuel and the nesting cap. -/
structure Static (p : RProgram3 F) (fuel : Nat) : Prop where
  ok : ∀ fns : List (Str × FnDefSpec F), FnsOf p fns →
    (∀ name d, alGet name fns = some d → Resolved fns d.body) ∧
    ∀ l ∈ p, ∀ s ∈ l.2, ResolvedS fns s ∧ sdepth3 fns s ≤ fuel ∧ sdepth3 fns s ≤ Extracted.nestingLimit

theorem stepOk_of_static {p : RProgram3 F} {fuel : Nat} (h : Static p fuel) {r : RState3 F} (ht : TableOf p r) :
    StepOk p fuel r := by
  obtain ⟨h1, h2⟩ := h.ok r.fns ht.1
  exact ⟨h1, fun n j ss s _ hl hs => h2 (n, ss) (line_mem hl) s (List.mem_of_getElem? hs)⟩

/-- **The side conditions along the run follow from `Static`.** -/
theorem safeRun_of_static {p : RProgram3 F} {fuel : Nat} (h : Static p fuel) (g : Nat) :
    SafeRun p fuel (p.start g) :=
  fun m r' hm => stepOk_of_static h (tableOf_steps m _ r' (tableOf_start p g) hm)

/-- a program without DEF: the function table stays empty -/
theorem fnsOf_nil_of_noDef {p : RProgram3 F} (hnd : ∀ l ∈ p, ∀ s ∈ l.2, ∀ name d, ¬ Defines s name d)
    {fns : List (Str × FnDefSpec F)} (h : FnsOf p fns) : ∀ name, alGet name fns = none := by
  intro name
  cases hg : alGet name fns with
  | none => rfl
  | some d =>
    obtain ⟨m, ss, s, hl, hs, hd⟩ := h name d hg
    exact absurd hd (hnd (m, ss) (line_mem hl) s hs name d)

/-! ### non-vacuity (on the degenerate carrier `Unit`: every number is `()`, printed as `0`; `toU64 () = 0`;
  every comparison holds; a number is false, a non-empty string is true)

  1. DEF FN, a call of the function, IF with PRINT / `ELSE 0` branches: `Fits3`, `Static` (hence `SafeRun`), the
     reference run, the run theorem, and the same output by computation on the model.
  2. An error inside the body of a function: the reference machine reports the line of the failing statement, the
     interpreter the line of the DEF (`body_error_line`, by computation) — the disjunction in `run3_fails`.
  3. Why GOSUB / FOR / DEF are excluded as a THEN branch in front of ELSE. -/

namespace Demo3

def fna : Str := ['F', 'N', 'A']
def fnaDef : FnDefSpec Unit := { params := [['X']], body := .var ['X'] }

/-- `0 DEF FNA(X) = X : PRINT FNA(0); : IF "A" THEN PRINT "T"; ELSE 0` -/
def prog : RProgram3 Unit :=
  [ (0, [ .defS fna [['X']] (.var ['X']),
          .printS [.expr (.call fna [.num ()]), .semi],
          .ifS (.str ['A']) (.printS [.expr (.str ['T']), .semi]) (some (.lineS 0)) ]) ]

theorem prog_fits : Fits3 prog where
  wf := ⟨by decide, by intro l hl; simp [prog] at hl; subst hl; simp⟩
  covered := by
    intro l hl s hs
    simp [prog] at hl; subst hl
    simp at hs
    rcases hs with rfl | rfl | rfl
    · exact ⟨rfl, by simp [RStmt3.CoveredB]⟩
    · exact ⟨rfl, by simp [RStmt3.CoveredB, separated3]⟩
    · refine ⟨rfl, ?_⟩
      simp [RStmt3.CoveredB, RStmt3.closes, separated3]
      rfl


/-- the only definition the program contains -/
theorem prog_defs {fns : List (Str × FnDefSpec Unit)} (h : FnsOf prog fns) (name : Str) (d : FnDefSpec Unit)
    (hg : alGet name fns = some d) : name = fna ∧ d = fnaDef := by
  obtain ⟨m, ss, s, hl, hs, hd⟩ := h name d hg
  have hmem := line_mem hl
  simp [prog] at hmem
  obtain ⟨_, rfl⟩ := hmem
  simp at hs
  rcases hs with rfl | rfl | rfl
  · exact hd
  · exact hd.elim
  · rcases hd with hd | hd <;> exact hd.elim

theorem call_depth {fns : List (Str × FnDefSpec Unit)} (h : FnsOf prog fns) :
    depth2 fns callFuel (.call fna [.num ()]) = 1 := by
  cases hg : alGet fna fns with
  | none =>
    rw [depth2.eq_def]
    simp [depthArgs, depth2, hg]
  | some d =>
    obtain ⟨_, rfl⟩ := prog_defs h fna d hg
    show depth2 fns (32 + 1) _ = 1
    rw [depth2_call_some fns 32 _ _ fnaDef hg]
    simp [depthArgs, depth2, fnaDef]

theorem prog_static : Static prog defaultFuel where
  ok := by
    intro fns hf
    refine ⟨fun name d hg => ?_, fun l hl s hs => ?_⟩
    · obtain ⟨_, rfl⟩ := prog_defs hf name d hg
      simp [fnaDef, Resolved]
    · simp [prog] at hl; subst hl
      simp at hs
      rcases hs with rfl | rfl | rfl
      · simp [ResolvedS, sdepth3]
      · refine ⟨?_, ?_, ?_⟩
        · simp only [ResolvedS, ResolvedItems, Resolved, ResolvedL, and_true]
          decide
        · simp [sdepth3, itemsDepth3, edepth, call_depth hf, defaultFuel, Extracted.nestingLimit]
        · simp [sdepth3, itemsDepth3, edepth, call_depth hf, Extracted.nestingLimit]
      · refine ⟨?_, ?_, ?_⟩
        · simp [ResolvedS, ResolvedItems, Resolved]
        · simp [sdepth3, itemsDepth3, edepth, depth2, defaultFuel, Extracted.nestingLimit]
        · simp [sdepth3, itemsDepth3, edepth, depth2, Extracted.nestingLimit]


def r1 : RState3 Unit := { fns := [(fna, fnaDef)], fnLines := [(fna, 0)], pc := some (0, 1) }
def r2 : RState3 Unit := { r1 with out := [['0']], pc := some (0, 2) }
def r3 : RState3 Unit := { r2 with out := [['0'], ['T']], pc := none }

theorem step1 : RStep3 prog (prog.start 0) = .inl r1 := by
  simp [RStep3, prog, RProgram3.start, RProgram3.first, RProgram3.line, RStmt3.exec, alSet, RProgram3.resume, r1, fnaDef]

theorem fold_call : fold2 callFuel r1.env (.call fna [.num ()]) = .ok (.num (), r1.env) := by
  show fold2 (32 + 1) _ _ = _
  simp [fold2, bindArgs2, r1, RState3.env, fna, fnaDef, alGet, Value.matchesName, endsWithDollar, alSet, RefEnv.lookup,
    lookupFrames, Extracted.stackLimit]

theorem rstep3_next {p : RProgram3 Unit} {r r' : RState3 Unit} {n j : Nat} {ss : List (RStmt3 Unit)} {s : RStmt3 Unit}
    (hpc : r.pc = some (n, j)) (hl : p.line n = some ss) (hs : ss[j]? = some s)
    (hex : s.exec (allData3 p) n j r = (r', .next)) : RStep3 p r = .inl { r' with pc := p.resume n (j + 1) } := by
  simp only [RStep3, hpc, hl, hs, hex]

theorem rstep3_skip {p : RProgram3 Unit} {r r' : RState3 Unit} {n j : Nat} {ss : List (RStmt3 Unit)} {s : RStmt3 Unit}
    (hpc : r.pc = some (n, j)) (hl : p.line n = some ss) (hs : ss[j]? = some s)
    (hex : s.exec (allData3 p) n j r = (r', .skipLine)) :
    RStep3 p r = .inl { r' with pc := (p.after n).map fun m => (m, 0) } := by
  simp only [RStep3, hpc, hl, hs, hex]

theorem step2 : RStep3 prog r1 = .inl r2 := by
  have h : evalE r1 (.call fna [.num ()]) = .ok (.num (), r1) := by
    simp only [evalE, fold_call]
    rfl
  have hex : (RStmt3.printS [.expr (.call fna [.num ()]), .semi]).exec (allData3 prog) 0 1 r1 =
      ({ r1 with out := r1.out ++ [['0']] }, .next) := by
    simp only [RStmt3.exec, printText3, h, valueText]
    rfl
  exact rstep3_next (ss := _) rfl rfl rfl hex

theorem step3 : RStep3 prog r2 = .inl r3 := by
  have h : evalE r2 (.str ['A']) = .ok (.str ['A'], r2) := by
    simp only [evalE, fold2]
    rfl
  have h' : evalE r2 (.str ['T']) = .ok (.str ['T'], r2) := by
    simp only [evalE, fold2]
    rfl
  have hex : (RStmt3.ifS (.str ['A']) (.printS [.expr (.str ['T']), .semi]) (some (.lineS 0))).exec (allData3 prog) 0 2 r2 =
      ({ r2 with out := r2.out ++ [['T']] }, .skipLine) := by
    simp only [RStmt3.exec, printText3, h, h', valueText]
    rfl
  exact rstep3_skip (ss := _) rfl rfl rfl hex

/-- the reference machine: three steps to the end; `0` and `T` printed -/
theorem prog_ref : RSteps3 prog 3 (prog.start 0) = .inl r3 := by
  simp only [RSteps3, step1, step2, step3]


theorem ready3_compile (p : RProgram3 Unit) : PReady3 p ({ lines := compileP3 p } : St Unit) :=
  ⟨rfl, holds_compile p, rfl, rfl, rfl, rfl, by show (0 : Nat) < Extracted.rngModulus; decide⟩

/-- by the theorems: the model ends idle having printed `0` and `T` -/
example : ∃ k σ', k ≤ 4 ∧ runTurns defaultFuel k ({ lines := compileP3 prog } : St Unit) = .ok () σ' ∧
    σ'.state = .idle ∧ (takeOutput σ').1 = [.print ['0'], .print ['T']] := by
  obtain ⟨k, σ', hk, hrun, hidle, _, _, ho⟩ :=
    run3_ends prog_fits (ready3_compile prog) (safeRun_of_static prog_static 0) 2 prog_ref rfl
  exact ⟨k, σ', hk, hrun, hidle, by rw [ho]; rfl⟩

def outOf : Res Unit Unit → List Out
  | .ok _ s => (takeOutput s).1
  | .err _ s => (takeOutput s).1

def progLines : Lines Unit :=
  { map := [ (0, [.kw .Def, .symbol fna, .kw .LeftParen, .symbol ['X'], .kw .RightParen, .kw .Equals, .symbol ['X'],
                  .kw .Colon, .kw .Print, .symbol fna, .kw .LeftParen, .num (), .kw .RightParen, .kw .Semicolon,
                  .kw .Colon, .kw .If, .str ['A'], .kw .Then, .kw .Print, .str ['T'], .kw .Semicolon, .kw .Else,
                  .num ()]) ],
    sorted := [0] }

theorem prog_compile : compileP3 prog = progLines := by
  simp [compileP3, prog, progLines, renderLine3, renderTail3, renderS3, renderItems3, PItem3.render, render2,
    renderArgs, renderTargets]

/-- … and by computation on the model -/
example : outOf (runTurns defaultFuel 4 ({ lines := compileP3 prog } : St Unit)) = [.print ['0'], .print ['T']] := by
  rw [prog_compile]
  decide +kernel


/-! #### an error inside the body of a function is attributed to the line of the DEF -/

def fnb : Str := ['F', 'N', 'B']

/-- ```
    0 DEF FNB(X) = X + "A"
    10 PRINT FNB(0)
    ``` -/
def errProg : RProgram3 Unit :=
  [ (0, [ .defS fnb [['X']] (.bin .add (.var ['X']) (.str ['A'])) ]),
    (10, [ .printS [.expr (.call fnb [.num ()])] ]) ]

def errLines : Lines Unit :=
  { map := [ (0, [.kw .Def, .symbol fnb, .kw .LeftParen, .symbol ['X'], .kw .RightParen, .kw .Equals, .symbol ['X'],
                  .kw .Plus, .str ['A']]),
             (10, [.kw .Print, .symbol fnb, .kw .LeftParen, .num (), .kw .RightParen]) ],
    sorted := [0, 10] }

theorem err_compile : compileP3 errProg = errLines := by
  simp [compileP3, errProg, errLines, renderLine3, renderTail3, renderS3, renderItems3, PItem3.render, render2,
    renderAt2, Expr2.prec, BinOp.prec, BinOp.token, renderArgs, renderTargets]

def errOf3 : Res Unit Unit → Option TErr
  | .ok _ _ => none
  | .err e _ => some e

/-- by computation on the model: TYPE MISMATCH, located on line 0 — the line of the DEF, not the line of the PRINT -/
theorem body_error_line : errOf3 (runTurns defaultFuel 1 ({ lines := compileP3 errProg } : St Unit)) =
    some { err := .typeMismatch, loc := some { line := some 0, idx := 8 } } := by
  rw [err_compile]
  decide +kernel


def fnbDef : FnDefSpec Unit := { params := [['X']], body := .bin .add (.var ['X']) (.str ['A']) }

theorem err_fits : Fits3 errProg where
  wf := ⟨by decide, by intro l hl; simp [errProg] at hl; rcases hl with rfl | rfl <;> simp⟩
  covered := by
    intro l hl s hs
    simp [errProg] at hl
    rcases hl with rfl | rfl
    · simp at hs; subst hs; exact ⟨rfl, by simp [RStmt3.CoveredB]⟩
    · simp at hs; subst hs; exact ⟨rfl, by simp [RStmt3.CoveredB, separated3]⟩

theorem err_defs {fns : List (Str × FnDefSpec Unit)} (h : FnsOf errProg fns) (name : Str) (d : FnDefSpec Unit)
    (hg : alGet name fns = some d) : name = fnb ∧ d = fnbDef := by
  obtain ⟨m, ss, s, hl, hs, hd⟩ := h name d hg
  have hmem := line_mem hl
  simp [errProg] at hmem
  rcases hmem with ⟨_, rfl⟩ | ⟨_, rfl⟩
  · simp at hs; subst hs; exact hd
  · simp at hs; subst hs; exact hd.elim

theorem err_call_depth {fns : List (Str × FnDefSpec Unit)} (h : FnsOf errProg fns) :
    depth2 fns callFuel (.call fnb [.num ()]) = 1 := by
  cases hg : alGet fnb fns with
  | none =>
    rw [depth2.eq_def]
    simp [depthArgs, depth2, hg]
  | some d =>
    obtain ⟨_, rfl⟩ := err_defs h fnb d hg
    show depth2 fns (32 + 1) _ = 1
    rw [depth2_call_some fns 32 _ _ fnbDef hg]
    simp [depthArgs, depth2, fnbDef, Expr2.prec, BinOp.prec]

theorem err_static : Static errProg defaultFuel where
  ok := by
    intro fns hf
    refine ⟨fun name d hg => ?_, fun l hl s hs => ?_⟩
    · obtain ⟨_, rfl⟩ := err_defs hf name d hg
      simp [fnbDef, Resolved]
    · simp [errProg] at hl
      rcases hl with rfl | rfl
      · simp at hs; subst hs; simp [ResolvedS, sdepth3]
      · simp at hs; subst hs
        refine ⟨?_, ?_, ?_⟩
        · simp only [ResolvedS, ResolvedItems, Resolved, ResolvedL, and_true]
          decide
        · simp [sdepth3, itemsDepth3, edepth, err_call_depth hf, defaultFuel, Extracted.nestingLimit]
        · simp [sdepth3, itemsDepth3, edepth, err_call_depth hf, Extracted.nestingLimit]

def e1 : RState3 Unit := { fns := [(fnb, fnbDef)], fnLines := [(fnb, 0)], pc := some (10, 0) }

theorem err_step1 : RStep3 errProg (errProg.start 0) = .inl e1 := by
  simp [RStep3, errProg, RProgram3.start, RProgram3.first, RProgram3.line, RStmt3.exec, alSet, RProgram3.resume, e1,
    fnbDef, RProgram3.after]

theorem err_fold : fold2 callFuel e1.env (.call fnb [.num ()]) = .error .typeMismatch := by
  show fold2 (32 + 1) _ _ = _
  simp [fold2, bindArgs2, e1, RState3.env, fnb, fnbDef, alGet, Value.matchesName, endsWithDollar, alSet, RefEnv.lookup,
    lookupFrames, Extracted.stackLimit, BinOp.eval]

theorem err_step2 : RStep3 errProg e1 = .inr (.typeMismatch, 10) := by
  have h : evalE e1 (.call fnb [.num ()]) = .error .typeMismatch := by
    simp only [evalE, err_fold]
  have hex : (RStmt3.printS [.expr (.call fnb [.num ()])]).exec (allData3 errProg) 10 0 e1 =
      (e1, .error .typeMismatch) := by
    simp only [RStmt3.exec, printText3, h]
  have hpc : e1.pc = some (10, 0) := rfl
  have hl : errProg.line 10 = some [RStmt3.printS [.expr (.call fnb [.num ()])]] := rfl
  simp only [RStep3, hpc, hl, List.getElem?_cons_zero, hex]

/-- the reference machine: TYPE MISMATCH, reported for line 10, the line of the PRINT -/
theorem err_ref : RSteps3 errProg 2 (errProg.start 0) = .inr (.typeMismatch, 10, []) := by
  simp only [RSteps3, err_step1, err_step2]
  rfl

/-- by the theorems: the model fails with TYPE MISMATCH on line 10 or on a line with a DEF
    (`body_error_line`: it is line 0, the line of the DEF) -/
example : ∃ k σ' l, k ≤ 2 ∧ runTurns defaultFuel k ({ lines := compileP3 errProg } : St Unit) =
      .err { err := .typeMismatch, loc := some l } σ' ∧
    (l.line = some 10 ∨ ∃ m name d, l.line = some m ∧ DefAt errProg m name d) ∧ σ'.state = .idle := by
  obtain ⟨k, σ', l, hk, hr, hl, hi, _⟩ :=
    run3_fails err_fits (ready3_compile errProg) (safeRun_of_static err_static 0) 1 err_ref
  exact ⟨k, σ', l, hk, hr, hl, hi⟩


/-! #### why GOSUB, FOR and DEF are not covered as a THEN branch in front of ELSE (`RStmt3.closes`) -/

/-- `0 IF "A" THEN DEF FNA(X) = X ELSE PRINT "E"; : PRINT "C";` -/
def defElseLines : Lines Unit :=
  { map := [ (0, [.kw .If, .str ['A'], .kw .Then, .kw .Def, .symbol fna, .kw .LeftParen, .symbol ['X'], .kw .RightParen,
                  .kw .Equals, .symbol ['X'], .kw .Else, .kw .Print, .str ['E'], .kw .Semicolon, .kw .Colon,
                  .kw .Print, .str ['C'], .kw .Semicolon]) ],
    sorted := [0] }

/-- `0 IF "A" THEN LET A = 0 ELSE PRINT "E"; : PRINT "C";` -/
def letElseLines : Lines Unit :=
  { map := [ (0, [.kw .If, .str ['A'], .kw .Then, .kw .Let, .symbol ['A'], .kw .Equals, .num (), .kw .Else,
                  .kw .Print, .str ['E'], .kw .Semicolon, .kw .Colon, .kw .Print, .str ['C'], .kw .Semicolon]) ],
    sorted := [0] }

/-- A THEN branch in front of an ELSE abandons the rest of the line — unless it is
    a DEF: the definition skips to the next colon (swallowing the ELSE branch) and
    the statements behind that colon DO run.  By computation on the model: with
    DEF as the THEN branch `C` is printed, with LET it is not. -/
theorem def_before_else_runs_on :
    outOf (runTurns defaultFuel 3 ({ lines := defElseLines } : St Unit)) = [.print ['C']] ∧
    outOf (runTurns defaultFuel 3 ({ lines := letElseLines } : St Unit)) = [] := by
  constructor <;> decide +kernel

/-- ```
    0 IF "A" THEN FOR I = 0 TO 0 ELSE PRINT "E";
    1 NEXT I
    ``` -/
def forElseLines : Lines Unit :=
  { map := [ (0, [.kw .If, .str ['A'], .kw .Then, .kw .For, .symbol ['I'], .kw .Equals, .num (), .kw .To, .num (),
                  .kw .Else, .kw .Print, .str ['E'], .kw .Semicolon]),
             (1, [.kw .Next, .symbol ['I']]) ],
    sorted := [0, 1] }

/-- A FOR as the THEN branch in front of an ELSE: the repeating NEXT lands on the
    ELSE token and the next turn fails with SYNTAX ERROR (the known finding
    KF-ELSE-RESUME for GOSUB / INPUT, here for FOR).  (On `Unit` every comparison
    holds, so the loop repeats.) -/
theorem for_before_else_fails :
    errOf3 (runTurns defaultFuel 2 ({ lines := forElseLines } : St Unit)) =
      some { err := .syntax .unexpectedToken, loc := some { line := some 0, idx := 9 } } := by
  decide +kernel

end Demo3

end Abasic.Props.C03
